(* Totality inside the input-only range: the option valued model functions (None = fuel of Line::extents exhausted, or a
   vertex list the library never builds) answer Some, so the translation theorems of C07_join_range.v are not satisfied
   vacuously by None = option_map _ None. *)
From EG Require Import Base.Prelude Base.Lemmas Model.Geometry Model.Style Model.Line Model.Thickline Model.Join Model.JoinTri.
From EG Require Import Proofs.Geometry Proofs.Line Proofs.Join Proofs.JoinTri Proofs.JoinRange Proofs.JoinDraw.
Set Default Timeout 60.
Strategy 1000 [parallels_new parallels_run next_parallel parallels_next bnext_all bprevious_all].

Lemma si_segments_some V w : range_ok V w -> forall pts sj, Forall (within V) pts ->
  exists segs, si_segments sj pts w = Some segs.
Proof.
  intros R. induction pts as [|a t IH]; intros sj F; [eexists; reflexivity|].
  destruct t as [|b [|c r]]; [eexists; reflexivity| |].
  - inversion F as [|? ? Ha F1]; subst. inversion F1 as [|? ? Hb _]; subst.
    destruct (lj_end_big V w SONone a b R Ha Hb) as [ej [E _]]. cbn [si_segments]. rewrite E. eexists; reflexivity.
  - inversion F as [|? ? Ha F1]; subst. inversion F1 as [|? ? Hb F2]; subst. inversion F2 as [|? ? Hc _]; subst.
    destruct (lj_from_points_big V w SONone a b c R Ha Hb Hc) as [[ej [E _]] _]. rewrite si_segments_3, E.
    destruct (IH ej F1) as [rest ->]. eexists; reflexivity.
Qed.

Lemma poly_segments_some V w pts : range_ok V w -> Forall (within V) pts -> exists segs, poly_segments pts w = Some segs.
Proof.
  intros R F. destruct pts as [|a [|b r]]; try (eexists; reflexivity).
  inversion F as [|? ? Ha F1]; subst. inversion F1 as [|? ? Hb _]; subst.
  unfold poly_segments. destruct (lj_start_big V w SONone a b R Ha Hb) as [sj [-> _]].
  exact (si_segments_some V w R _ sj F).
Qed.

(* thick polylines: pixels(), the rectangles of draw() and the styled bounding box are defined *)
Lemma poly_total_range V w pts tr : range_ok V w -> Forall (within V) pts ->
  (exists l, poly_thick_points pts tr w = Some l) /\ (exists rs, poly_thick_rects pts w = Some rs) /\
  (exists bb, poly_thick_bounding_box pts w = Some bb).
Proof.
  intros R F. destruct (poly_segments_some V w pts R F) as [segs E].
  assert (S : exists ls, poly_scanlines pts w = Some ls).
  { unfold poly_scanlines, poly_thick_bounding_box. rewrite <- poly_segments_eq_iter, E.
    destruct pts as [|a [|b r]]; try (eexists; reflexivity). }
  destruct S as [ls S]. unfold poly_thick_points, poly_thick_rects, poly_thick_bounding_box.
  rewrite S, <- poly_segments_eq_iter, E. repeat split; eexists; reflexivity.
Qed.

Lemma all_some_some {A B} (f : A -> option B) : forall l, (forall x, In x l -> exists b, f x = Some b) ->
  exists bs, all_some (map f l) = Some bs.
Proof.
  induction l as [|x t IH]; intros H; [eexists; reflexivity|].
  destruct (H x (or_introl eq_refl)) as [b E]. destruct (IH (fun y Hy => H y (or_intror Hy))) as [bs Es].
  cbn [map all_some]. rewrite E, Es. eexists; reflexivity.
Qed.

Lemma vtx_within V t i : tri_within V t -> within V (vtx t i).
Proof. destruct t as [[a b] c]. intros [H1 [H2 H3]]. unfold vtx. destruct (Nat.modulo i 3) as [|[|k]]; assumption. Qed.

(* stroked / filled triangles: pixels(), draw() and the styled bounding box are defined *)
Lemma tri_total_range V w al fill t : range_ok V w -> tri_within V t ->
  (exists px, jt_pixels t w al fill = Some px) /\ (exists dr, jt_draw t w al fill = Some dr) /\
  (exists bb, jt_styled_bounding_box t w al = Some bb).
Proof.
  intros R H. set (so := so_of_alignment al). set (hf := match fill with Some _ => true | None => false end).
  pose proof (jt_sorted_clockwise_within V t H) as HC.
  destruct (tri_segs_range_some V w so t R H) as [segs TS].
  assert (BB : exists bb, jt_styled_bounding_box t w al = Some bb).
  { rewrite jt_styled_bounding_box_unfold. fold so. rewrite TS. destruct al; try (eexists; reflexivity); destruct (w <? 2); eexists; reflexivity. }
  assert (RW : exists rs, jt_rows t w al hf = Some rs).
  { unfold jt_rows. destruct BB as [bb ->]. fold so.
    assert (CO : exists c, jt_is_collapsed (jt_sorted_clockwise t) w so = Some c).
    { destruct (jt_sorted_clockwise t) as [[a b] c]. destruct HC as [Ha [Hb Hc]]. cbn [fst snd] in Ha, Hb, Hc.
      assert (ONE : forall x y z p q, within V x -> within V y -> within V z -> within V p -> within V q ->
                exists r, collapsed_one (lj_from_points x y z w so) p q w so = Some r).
      { intros x y z p q Hx Hy Hz Hp Hq. destruct (lj_from_points_big V w so x y z R Hx Hy Hz) as [[j [-> _]] _].
        unfold collapsed_one. destruct (is_degenerate j); [eexists; reflexivity|].
        destruct (extents_rbound V w so p q R Hp Hq) as [l0 [r0 [-> _]]]. eexists; reflexivity. }
      unfold jt_is_collapsed.
      destruct (ONE c a b b c Hc Ha Hb Hb Hc) as [[|] ->]; [eexists; reflexivity|].
      destruct (ONE a b c c a Ha Hb Hc Hc Ha) as [[|] ->]; [eexists; reflexivity|].
      destruct (ONE b c a a b Hb Hc Ha Ha Hb) as [r ->]. eexists; reflexivity. }
    destruct CO as [coll ->]. destruct (rows bb) as [y0 y1].
    apply all_some_some. intros y _. unfold jt_row.
    destruct ((0 <? w) && coll && so_eqb so SORight); [eexists; reflexivity|].
    assert (ES : forall idx, exists s, jt_edge_scanline (jt_sorted_clockwise t) w so idx y = Some s).
    { intros idx. unfold jt_edge_scanline.
      destruct (lj_from_points_big V w so _ _ _ R (vtx_within V _ idx HC) (vtx_within V _ (idx + 1) HC) (vtx_within V _ (idx + 2) HC)) as [[sj [-> _]] _].
      destruct (lj_from_points_big V w so _ _ _ R (vtx_within V _ (idx + 1) HC) (vtx_within V _ (idx + 2) HC) (vtx_within V _ (idx + 3) HC)) as [[ej [-> _]] _].
      eexists; reflexivity. }
    unfold jt_edge_intersections. destruct (w =? 0); [eexists; reflexivity|].
    destruct (ES 0%nat) as [s0 ->]. destruct (ES 1%nat) as [s1 ->]. destruct (ES 2%nat) as [s2 ->].
    destruct (jt_edge_step _ s2) as [l r]. destruct (sl_try_extend l r) as [e a]. destruct e; eexists; reflexivity. }
  destruct RW as [rs RW]. unfold jt_pixels, jt_draw. fold hf. rewrite RW.
  split; [eexists; reflexivity|]. split; [|exact BB]. destruct ((w =? 0) && _); eexists; reflexivity.
Qed.
