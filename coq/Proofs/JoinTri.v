(* Proofs about Model/JoinTri.v: the thick stroke pipeline of triangles commutes with translation (property C07, join part).
   Builds on Proofs/Join.v (joins, extents, thick segment scanlines, scanline merging, bounding box fold). *)
From EG Require Import Base.Prelude Base.Lemmas Model.Geometry Model.Style Model.Line Model.Thickline Model.Join Model.JoinTri.
From EG Require Import Proofs.Geometry Proofs.Line Proofs.Join.
From Coq Require Import ZifyBool.

Ltac Zify.zify_post_hook ::= Z.to_euclidean_division_equations.
Set Default Timeout 60.

(* ================================================================================================ *)
(* thick triangles (Model/JoinTri.v)                                                                 *)
(* ================================================================================================ *)

Definition tr_tri (d : point) (t : tri3) : tri3 :=
  let '(p1, p2, p3) := t in (padd p1 d, padd p2 d, padd p3 d).

(* no used intersection of the three joins of the triangle reaches the saturating cast, before and after the move *)
Definition tri_nosat (t : tri3) (w : Z) (so : stroke_offset) (d : point) : bool :=
  let '(p1, p2, p3) := t in
  win_nosat w so d (p3, p1, p2) && win_nosat w so d (p1, p2, p3) && win_nosat w so d (p2, p3, p1).

Lemma vtx_tr d t i : vtx (tr_tri d t) i = padd (vtx t i) d.
Proof. destruct t as [[p1 p2] p3]. unfold vtx, tr_tri. destruct (Nat.modulo i 3) as [|[|k]]; reflexivity. Qed.

Lemma tri_nosat_win t w so d i : tri_nosat t w so d = true ->
  win_nosat w so d (vtx t i, vtx t (i + 1), vtx t (i + 2)) = true.
Proof.
  destruct t as [[p1 p2] p3]. unfold tri_nosat. intros H.
  apply andb_true_iff in H as [H H3]. apply andb_true_iff in H as [H1 H2].
  unfold vtx.
  assert (M : forall k, Nat.modulo (k + 1) 3 = Nat.modulo (Nat.modulo k 3 + 1) 3).
  { intros k. rewrite (Nat.add_mod k 1 3) by discriminate. reflexivity. }
  assert (M2 : forall k, Nat.modulo (k + 2) 3 = Nat.modulo (Nat.modulo k 3 + 2) 3).
  { intros k. rewrite (Nat.add_mod k 2 3) by discriminate. reflexivity. }
  rewrite M, M2. pose proof (Nat.mod_upper_bound i 3 ltac:(discriminate)) as U.
  destruct (Nat.modulo i 3) as [|[|[|k]]]; cbn; try assumption. lia.
Qed.

(* the scanline of one thick edge of the stroke (scanline_intersections.rs:86-106) moves with the triangle *)
Lemma jt_edge_scanline_rel t w so d idx y : tri_nosat t w so d = true ->
  match jt_edge_scanline t w so idx y, jt_edge_scanline (tr_tri d t) w so idx (y + py d) with
  | Some s, Some s' => sl_rel d s s'
  | None, None => True
  | _, _ => False
  end.
Proof.
  intros N. unfold jt_edge_scanline. rewrite !vtx_tr.
  pose proof (win_join_translate w so d _ (tri_nosat_win t w so d idx N)) as W1. cbn [fst snd] in W1.
  pose proof (win_join_translate w so d _ (tri_nosat_win t w so d (idx + 1) N)) as W2. cbn [fst snd] in W2.
  replace (idx + 1 + 1)%nat with (idx + 2)%nat in W2 by lia. replace (idx + 1 + 2)%nat with (idx + 3)%nat in W2 by lia.
  rewrite W1, W2.
  destruct (lj_from_points (vtx t idx) (vtx t (idx + 1)) (vtx t (idx + 2)) w so) as [sj|]; cbn [option_map]; [|trivial].
  destruct (lj_from_points (vtx t (idx + 1)) (vtx t (idx + 2)) (vtx t (idx + 3)) w so) as [ej|]; cbn [option_map]; [|trivial].
  exact (ts_intersection_rel d (TS sj ej) y).
Qed.

(* ---- vertex order ------------------------------------------------------------------------------------ *)
Lemma jt_area_doubled_tr d t : jt_area_doubled (tr_tri d t) = jt_area_doubled t.
Proof. destruct t as [[p1 p2] p3]. unfold jt_area_doubled, tr_tri, padd; cbn [px py]. ring. Qed.

Lemma jt_sort_two_yx_tr d p1 p2 :
  jt_sort_two_yx (padd p1 d) (padd p2 d) = (padd (fst (jt_sort_two_yx p1 p2)) d, padd (snd (jt_sort_two_yx p1 p2)) d).
Proof.
  unfold jt_sort_two_yx, padd; cbn [px py].
  assert (E : ((py p1 + py d <? py p2 + py d) || (py p1 + py d =? py p2 + py d) && (px p1 + px d <? px p2 + px d)) =
              ((py p1 <? py p2) || (py p1 =? py p2) && (px p1 <? px p2))).
  { destruct (py p1 <? py p2) eqn:A; destruct (py p1 + py d <? py p2 + py d) eqn:A'; try lia;
    destruct (py p1 =? py p2) eqn:B; destruct (py p1 + py d =? py p2 + py d) eqn:B'; try lia;
    destruct (px p1 <? px p2) eqn:C; destruct (px p1 + px d <? px p2 + px d) eqn:C'; try lia; reflexivity. }
  rewrite E. destruct ((py p1 <? py p2) || (py p1 =? py p2) && (px p1 <? px p2)); reflexivity.
Qed.

Lemma jt_sorted_yx_tr d t : jt_sorted_yx (tr_tri d t) = tr_tri d (jt_sorted_yx t).
Proof.
  destruct t as [[p1 p2] p3]. unfold jt_sorted_yx, tr_tri.
  rewrite jt_sort_two_yx_tr. destruct (jt_sort_two_yx p1 p2) as [a b]. cbn [fst snd].
  rewrite jt_sort_two_yx_tr. destruct (jt_sort_two_yx p3 a) as [a' c]. cbn [fst snd].
  rewrite jt_sort_two_yx_tr. destruct (jt_sort_two_yx c b) as [b' c']. reflexivity.
Qed.

Lemma jt_sorted_clockwise_tr d t : jt_sorted_clockwise (tr_tri d t) = tr_tri d (jt_sorted_clockwise t).
Proof.
  unfold jt_sorted_clockwise. rewrite jt_area_doubled_tr, jt_sorted_yx_tr.
  destruct t as [[p1 p2] p3]. cbn [tr_tri]. destruct (jt_area_doubled (p1, p2, p3) ?= 0); reflexivity.
Qed.

Lemma jt_bounding_box_tr d t : jt_bounding_box (tr_tri d t) = translate_rect (jt_bounding_box t) d.
Proof.
  destruct t as [[p1 p2] p3]. unfold jt_bounding_box, tr_tri.
  rewrite <- with_corners_translate. f_equal; unfold padd; cbn [px py]; f_equal; lia.
Qed.

(* Triangle::scanline_intersection *)
Lemma jt_scanline_intersection_rel d t y :
  sl_rel d (jt_scanline_intersection t y) (jt_scanline_intersection (tr_tri d t) (y + py d)).
Proof.
  unfold jt_scanline_intersection. rewrite jt_sorted_yx_tr, jt_area_doubled_tr.
  destruct (jt_sorted_yx t) as [[p1 p2] p3]. cbn [tr_tri].
  pose proof (sl_rel_new_empty d y) as R0.
  destruct (jt_area_doubled t =? 0).
  - exact (bresenham_intersection_rel d _ _ (L p1 p3) R0).
  - exact (bresenham_intersection_rel d _ _ (L p2 p3)
             (bresenham_intersection_rel d _ _ (L p1 p3) (bresenham_intersection_rel d _ _ (L p1 p2) R0))).
Qed.

Lemma sl_rel_nonempty_eq d s s' : sl_rel d s s' -> sl_is_empty s = false -> s' = tr_sl d s.
Proof.
  intros [Y [[E _]|[_ [A B]]]] N; [congruence|].
  destruct s' as [y' a' b']; cbn [sl_y sl_x0 sl_x1] in *. unfold tr_sl. congruence.
Qed.

Lemma tr_sl_empty d s : sl_is_empty (tr_sl d s) = sl_is_empty s.
Proof.
  unfold sl_is_empty, tr_sl; cbn [sl_x0 sl_x1].
  destruct (sl_x0 s <? sl_x1 s) eqn:A; destruct (sl_x0 s + px d <? sl_x1 s + px d) eqn:B; try reflexivity; lia.
Qed.

Lemma tr_sl_rel d s : sl_rel d s (tr_sl d s).
Proof.
  split; [reflexivity|]. destruct (sl_is_empty s) eqn:E.
  - left. split; [reflexivity | rewrite tr_sl_empty; exact E].
  - right. repeat split; reflexivity.
Qed.

(* ---- is_collapsed --------------------------------------------------------------------------------------- *)
Lemma tri_nosat_parts p1 p2 p3 w so d : tri_nosat (p1, p2, p3) w so d = true ->
  win_nosat w so d (p3, p1, p2) = true /\ win_nosat w so d (p1, p2, p3) = true /\ win_nosat w so d (p2, p3, p1) = true.
Proof.
  unfold tri_nosat. intros H. apply andb_true_iff in H as [H H3]. apply andb_true_iff in H as [H1 H2]. tauto.
Qed.

Lemma is_degenerate_tr d j : is_degenerate (tr_join d j) = is_degenerate j.
Proof. reflexivity. Qed.

Lemma collapsed_one_tr d j a b w so :
  collapsed_one (option_map (tr_join d) j) (padd a d) (padd b d) w so = collapsed_one j a b w so.
Proof.
  unfold collapsed_one. destruct j as [j|]; [|reflexivity]. cbn [option_map]. rewrite is_degenerate_tr.
  destruct (is_degenerate j); [reflexivity|].
  rewrite translate_line_L, extents_translate. destruct (extents (L a b) w so) as [[l0 opp]|]; [|reflexivity].
  cbn [option_map tr_line2 fst snd].
  change (ec_right (first_edge_end (tr_join d j))) with (padd (ec_right (first_edge_end j)) d).
  rewrite le_check_side_translate. reflexivity.
Qed.

Lemma jt_is_collapsed_tr d t w so : tri_nosat t w so d = true ->
  jt_is_collapsed (tr_tri d t) w so = jt_is_collapsed t w so.
Proof.
  destruct t as [[p1 p2] p3]. intros N. destruct (tri_nosat_parts _ _ _ _ _ _ N) as [N1 [N2 N3]].
  cbn [tr_tri]. unfold jt_is_collapsed.
  pose proof (win_join_translate w so d _ N1) as W1. pose proof (win_join_translate w so d _ N2) as W2.
  pose proof (win_join_translate w so d _ N3) as W3. cbn [fst snd] in W1, W2, W3.
  rewrite W1, W2, W3, !collapsed_one_tr. reflexivity.
Qed.

(* OPEN: C07_join_triangle_translate :
     forall t w al fill d, tri_nosat (jt_sorted_clockwise t) w (so_of_alignment al) d = true -> <box within +-2^29> ->
       jt_pixels (tr_tri d t) w al fill = option_map (map (fun pc => (padd (fst pc) d, snd pc))) (jt_pixels t w al fill)
     and the same for jt_draw / jt_styled_bounding_box.
   Every ingredient is proved above (joins, extents, check_side, thick segment scanlines, scanline merging, the
   bounding box fold and Rectangle::rows); what is missing is the bookkeeping through jt_edge_step /
   jt_edge_intersections / jt_row / jt_is_collapsed / jt_sorted_clockwise and the three iteration sequences of
   JoinTri.v.  Proved instead: jt_edge_scanline_rel (C07_join_triangle_edge_scanline_translate_partial).  The executable
   model of the whole triangle pipeline is compared with the implementation (suites join_tri_pixels / join_tri_rects /
   join_tri_bbox) and the property itself is searched by p_translate. *)

(* OPEN: C07_join_hypotheses_from_coordinates :
     a bound B (and W) such that |coordinates| <= B, width <= W imply poly_hyps pts w d.  This needs a bound on the
     distance between a line and its extents (an invariant through the ParallelsIterator walk) and a bound on the
     used intersection point (den^2 >= |dot| when nearly_colinear_has_error is false).  The model oracle evaluates
     poly_hyps on every generated case (suite join_poly_hyp: coordinates up to +-2^13, widths up to 64; always true so far). *)
