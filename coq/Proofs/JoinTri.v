(* Proofs about Model/JoinTri.v: the thick stroke pipeline of triangles commutes with translation (property C07, join part).
   Builds on Proofs/Join.v (joins, extents, thick segment scanlines, scanline merging, bounding box fold). *)
From EG Require Import Base.Prelude Base.Lemmas Model.Geometry Model.Style Model.Line Model.Thickline Model.Join Model.JoinTri.
From EG Require Import Proofs.Geometry Proofs.Line Proofs.Join.
From Coq Require Import ZifyBool.

Ltac Zify.zify_post_hook ::= Z.to_euclidean_division_equations.
Set Default Timeout 60.

(* ================================================================================================ *)
(* thick triangles (Model/JoinTri.v)                                                                 *)
(* ================================================================================================ *)


Lemma vtx_tr d t i : vtx (tr_tri d t) i = padd (vtx t i) d.
Proof. destruct t as [[p1 p2] p3]. unfold vtx, tr_tri. destruct (Nat.modulo i 3) as [|[|k]]; reflexivity. Qed.

Lemma tri_nosat_win t w so d i : tri_nosat t w so d = true ->
  win_nosat w so d (vtx t i, vtx t (i + 1), vtx t (i + 2)) = true.
Proof.
  destruct t as [[p1 p2] p3]. unfold tri_nosat. intros H.
  apply andb_true_iff in H as [H H3]. apply andb_true_iff in H as [H1 H2].
  unfold vtx.
  assert (M : forall k, Nat.modulo (k + 1) 3 = Nat.modulo (Nat.modulo k 3 + 1) 3).
  { intros k. rewrite (Nat.add_mod k 1 3) by discriminate. reflexivity. }
  assert (M2 : forall k, Nat.modulo (k + 2) 3 = Nat.modulo (Nat.modulo k 3 + 2) 3).
  { intros k. rewrite (Nat.add_mod k 2 3) by discriminate. reflexivity. }
  rewrite M, M2. pose proof (Nat.mod_upper_bound i 3 ltac:(discriminate)) as U.
  destruct (Nat.modulo i 3) as [|[|[|k]]]; cbn; try assumption. lia.
Qed.

(* the scanline of one thick edge of the stroke (scanline_intersections.rs:86-106) moves with the triangle *)
Lemma jt_edge_scanline_rel t w so d idx y : tri_nosat t w so d = true ->
  match jt_edge_scanline t w so idx y, jt_edge_scanline (tr_tri d t) w so idx (y + py d) with
  | Some s, Some s' => sl_rel d s s'
  | None, None => True
  | _, _ => False
  end.
Proof.
  intros N. unfold jt_edge_scanline. rewrite !vtx_tr.
  pose proof (win_join_translate w so d _ (tri_nosat_win t w so d idx N)) as W1. cbn [fst snd] in W1.
  pose proof (win_join_translate w so d _ (tri_nosat_win t w so d (idx + 1) N)) as W2. cbn [fst snd] in W2.
  replace (idx + 1 + 1)%nat with (idx + 2)%nat in W2 by lia. replace (idx + 1 + 2)%nat with (idx + 3)%nat in W2 by lia.
  rewrite W1, W2.
  destruct (lj_from_points (vtx t idx) (vtx t (idx + 1)) (vtx t (idx + 2)) w so) as [sj|]; cbn [option_map]; [|trivial].
  destruct (lj_from_points (vtx t (idx + 1)) (vtx t (idx + 2)) (vtx t (idx + 3)) w so) as [ej|]; cbn [option_map]; [|trivial].
  exact (ts_intersection_rel d (TS sj ej) y).
Qed.

(* ---- vertex order ------------------------------------------------------------------------------------ *)
Lemma jt_area_doubled_tr d t : jt_area_doubled (tr_tri d t) = jt_area_doubled t.
Proof. destruct t as [[p1 p2] p3]. unfold jt_area_doubled, tr_tri, padd; cbn [px py]. ring. Qed.

Lemma jt_sort_two_yx_tr d p1 p2 :
  jt_sort_two_yx (padd p1 d) (padd p2 d) = (padd (fst (jt_sort_two_yx p1 p2)) d, padd (snd (jt_sort_two_yx p1 p2)) d).
Proof.
  unfold jt_sort_two_yx, padd; cbn [px py].
  assert (E : ((py p1 + py d <? py p2 + py d) || (py p1 + py d =? py p2 + py d) && (px p1 + px d <? px p2 + px d)) =
              ((py p1 <? py p2) || (py p1 =? py p2) && (px p1 <? px p2))).
  { destruct (py p1 <? py p2) eqn:A; destruct (py p1 + py d <? py p2 + py d) eqn:A'; try lia;
    destruct (py p1 =? py p2) eqn:B; destruct (py p1 + py d =? py p2 + py d) eqn:B'; try lia;
    destruct (px p1 <? px p2) eqn:C; destruct (px p1 + px d <? px p2 + px d) eqn:C'; try lia; reflexivity. }
  rewrite E. destruct ((py p1 <? py p2) || (py p1 =? py p2) && (px p1 <? px p2)); reflexivity.
Qed.

Lemma jt_sorted_yx_tr d t : jt_sorted_yx (tr_tri d t) = tr_tri d (jt_sorted_yx t).
Proof.
  destruct t as [[p1 p2] p3]. unfold jt_sorted_yx, tr_tri.
  rewrite jt_sort_two_yx_tr. destruct (jt_sort_two_yx p1 p2) as [a b]. cbn [fst snd].
  rewrite jt_sort_two_yx_tr. destruct (jt_sort_two_yx p3 a) as [a' c]. cbn [fst snd].
  rewrite jt_sort_two_yx_tr. destruct (jt_sort_two_yx c b) as [b' c']. reflexivity.
Qed.

Lemma jt_sorted_clockwise_tr d t : jt_sorted_clockwise (tr_tri d t) = tr_tri d (jt_sorted_clockwise t).
Proof.
  unfold jt_sorted_clockwise. rewrite jt_area_doubled_tr, jt_sorted_yx_tr.
  destruct t as [[p1 p2] p3]. cbn [tr_tri]. destruct (jt_area_doubled (p1, p2, p3) ?= 0); reflexivity.
Qed.

Lemma jt_bounding_box_tr d t : jt_bounding_box (tr_tri d t) = translate_rect (jt_bounding_box t) d.
Proof.
  destruct t as [[p1 p2] p3]. unfold jt_bounding_box, tr_tri.
  rewrite <- with_corners_translate. f_equal; unfold padd; cbn [px py]; f_equal; lia.
Qed.

(* Triangle::scanline_intersection *)
Lemma jt_scanline_intersection_rel d t y :
  sl_rel d (jt_scanline_intersection t y) (jt_scanline_intersection (tr_tri d t) (y + py d)).
Proof.
  unfold jt_scanline_intersection. rewrite jt_sorted_yx_tr, jt_area_doubled_tr.
  destruct (jt_sorted_yx t) as [[p1 p2] p3]. cbn [tr_tri].
  pose proof (sl_rel_new_empty d y) as R0.
  destruct (jt_area_doubled t =? 0).
  - exact (bresenham_intersection_rel d _ _ (L p1 p3) R0).
  - exact (bresenham_intersection_rel d _ _ (L p2 p3)
             (bresenham_intersection_rel d _ _ (L p1 p3) (bresenham_intersection_rel d _ _ (L p1 p2) R0))).
Qed.

Lemma sl_rel_nonempty_eq d s s' : sl_rel d s s' -> sl_is_empty s = false -> s' = tr_sl d s.
Proof.
  intros [Y [[E _]|[_ [A B]]]] N; [congruence|].
  destruct s' as [y' a' b']; cbn [sl_y sl_x0 sl_x1] in *. unfold tr_sl. congruence.
Qed.

Lemma tr_sl_empty d s : sl_is_empty (tr_sl d s) = sl_is_empty s.
Proof.
  unfold sl_is_empty, tr_sl; cbn [sl_x0 sl_x1].
  destruct (sl_x0 s <? sl_x1 s) eqn:A; destruct (sl_x0 s + px d <? sl_x1 s + px d) eqn:B; try reflexivity; lia.
Qed.

Lemma tr_sl_rel d s : sl_rel d s (tr_sl d s).
Proof.
  split; [reflexivity|]. destruct (sl_is_empty s) eqn:E.
  - left. split; [reflexivity | rewrite tr_sl_empty; exact E].
  - right. repeat split; reflexivity.
Qed.

(* ---- is_collapsed --------------------------------------------------------------------------------------- *)
Lemma tri_nosat_parts p1 p2 p3 w so d : tri_nosat (p1, p2, p3) w so d = true ->
  win_nosat w so d (p3, p1, p2) = true /\ win_nosat w so d (p1, p2, p3) = true /\ win_nosat w so d (p2, p3, p1) = true.
Proof.
  unfold tri_nosat. intros H. apply andb_true_iff in H as [H H3]. apply andb_true_iff in H as [H1 H2]. tauto.
Qed.

Lemma is_degenerate_tr d j : is_degenerate (tr_join d j) = is_degenerate j.
Proof. reflexivity. Qed.

Lemma collapsed_one_tr d j a b w so :
  collapsed_one (option_map (tr_join d) j) (padd a d) (padd b d) w so = collapsed_one j a b w so.
Proof.
  unfold collapsed_one. destruct j as [j|]; [|reflexivity]. cbn [option_map]. rewrite is_degenerate_tr.
  destruct (is_degenerate j); [reflexivity|].
  rewrite translate_line_L, extents_translate. destruct (extents (L a b) w so) as [[l0 opp]|]; [|reflexivity].
  cbn [option_map tr_line2 fst snd].
  change (ec_right (first_edge_end (tr_join d j))) with (padd (ec_right (first_edge_end j)) d).
  rewrite le_check_side_translate. reflexivity.
Qed.

Lemma jt_is_collapsed_tr d t w so : tri_nosat t w so d = true ->
  jt_is_collapsed (tr_tri d t) w so = jt_is_collapsed t w so.
Proof.
  destruct t as [[p1 p2] p3]. intros N. destruct (tri_nosat_parts _ _ _ _ _ _ N) as [N1 [N2 N3]].
  cbn [tr_tri]. unfold jt_is_collapsed.
  pose proof (win_join_translate w so d _ N1) as W1. pose proof (win_join_translate w so d _ N2) as W2.
  pose proof (win_join_translate w so d _ N3) as W3. cbn [fst snd] in W1, W2, W3.
  rewrite W1, W2, W3, !collapsed_one_tr. reflexivity.
Qed.

(* ---- edge intersections ---------------------------------------------------------------------------------- *)
Definition rel2 (d : point) (a b : scanline * scanline) : Prop := sl_rel d (fst a) (fst b) /\ sl_rel d (snd a) (snd b).

Lemma jt_edge_step_rel d lr lr' sc sc' : rel2 d lr lr' -> sl_rel d sc sc' ->
  rel2 d (jt_edge_step lr sc) (jt_edge_step lr' sc').
Proof.
  destruct lr as [l r], lr' as [l' r']. intros [Rl Rr] Rs. cbn [fst snd] in Rl, Rr.
  unfold jt_edge_step. rewrite (sl_rel_empty _ _ _ Rl), (sl_rel_empty _ _ _ Rr).
  destruct (negb (sl_is_empty l)).
  - destruct (sl_try_extend_rel _ _ _ _ _ Rl Rs) as [F S].
    destruct (sl_try_extend l sc) as [e a]. destruct (sl_try_extend l' sc') as [e' a']. cbn [fst snd] in F, S. subst e'.
    destruct e; [split; assumption|].
    destruct (negb (sl_is_empty r)).
    + destruct (sl_try_extend_rel _ _ _ _ _ Rr Rs) as [_ S2]. split; assumption.
    + split; assumption.
  - split; assumption.
Qed.

Lemma jt_edge_intersections_tr d t w so y : tri_nosat t w so d = true ->
  jt_edge_intersections (tr_tri d t) w so (y + py d) = option_map (map (tr_sl d)) (jt_edge_intersections t w so y).
Proof.
  intros N. unfold jt_edge_intersections. destruct (w =? 0); [reflexivity|].
  pose proof (jt_edge_scanline_rel t w so d 0 y N) as R0.
  pose proof (jt_edge_scanline_rel t w so d 1 y N) as R1.
  pose proof (jt_edge_scanline_rel t w so d 2 y N) as R2.
  destruct (jt_edge_scanline t w so 0 y) as [s0|]; destruct (jt_edge_scanline (tr_tri d t) w so 0 (y + py d)) as [s0'|];
    try contradiction; [|reflexivity].
  destruct (jt_edge_scanline t w so 1 y) as [s1|]; destruct (jt_edge_scanline (tr_tri d t) w so 1 (y + py d)) as [s1'|];
    try contradiction; [|reflexivity].
  destruct (jt_edge_scanline t w so 2 y) as [s2|]; destruct (jt_edge_scanline (tr_tri d t) w so 2 (y + py d)) as [s2'|];
    try contradiction; [|reflexivity].
  pose proof (sl_rel_new_empty d y) as E.
  assert (I : rel2 d (sl_new_empty y, sl_new_empty y) (sl_new_empty (y + py d), sl_new_empty (y + py d))) by (split; exact E).
  pose proof (jt_edge_step_rel d _ _ _ _ (jt_edge_step_rel d _ _ _ _ (jt_edge_step_rel d _ _ _ _ I R0) R1) R2) as R.
  destruct (jt_edge_step (jt_edge_step (jt_edge_step (sl_new_empty y, sl_new_empty y) s0) s1) s2) as [l r].
  destruct (jt_edge_step (jt_edge_step (jt_edge_step (sl_new_empty (y + py d), sl_new_empty (y + py d)) s0') s1') s2') as [l' r'].
  destruct R as [Rl Rr]. cbn [fst snd] in Rl, Rr.
  destruct (sl_try_extend_rel _ _ _ _ _ Rl Rr) as [F S].
  destruct (sl_try_extend l r) as [e a]. destruct (sl_try_extend l' r') as [e' a']. cbn [fst snd] in F, S. subst e'.
  destruct e; cbn [option_map]; f_equal; apply filter_nonempty_rel;
    (apply Forall2_cons; [assumption | apply Forall2_cons; [assumption | apply Forall2_nil]]).
Qed.

(* ---- one row ------------------------------------------------------------------------------------------- *)
Definition tr_item (d : point) (lk : scanline * point_type) : scanline * point_type := (tr_sl d (fst lk), snd lk).

Lemma jt_row_tr d t w so hf coll y : tri_nosat t w so d = true ->
  jt_row (tr_tri d t) w so hf coll (y + py d) = option_map (map (tr_item d)) (jt_row t w so hf coll y).
Proof.
  intros N. unfold jt_row. destruct coll.
  - pose proof (jt_scanline_intersection_rel d t y) as R. rewrite (sl_rel_empty _ _ _ R).
    destruct (sl_is_empty (jt_scanline_intersection t y)) eqn:E; [reflexivity|].
    cbn [option_map map tr_item fst snd]. rewrite (sl_rel_nonempty_eq _ _ _ R E). reflexivity.
  - rewrite (jt_edge_intersections_tr d t w so y N).
    destruct (jt_edge_intersections t w so y) as [es|]; [|reflexivity]. cbn [option_map].
    assert (I : sl_rel d
              (if hf then match es with
                          | [f; s] => SL y (Z.min (sl_x1 f) (sl_x1 s)) (Z.max (sl_x0 f) (sl_x0 s))
                          | [] => jt_scanline_intersection t y
                          | _ => sl_new_empty y end else sl_new_empty y)
              (if hf then match map (tr_sl d) es with
                          | [f; s] => SL (y + py d) (Z.min (sl_x1 f) (sl_x1 s)) (Z.max (sl_x0 f) (sl_x0 s))
                          | [] => jt_scanline_intersection (tr_tri d t) (y + py d)
                          | _ => sl_new_empty (y + py d) end else sl_new_empty (y + py d))).
    { destruct hf; [|apply sl_rel_new_empty].
      destruct es as [|f [|s [|x r]]]; cbn [map]; try apply sl_rel_new_empty.
      - apply jt_scanline_intersection_rel.
      - unfold tr_sl; cbn [sl_x0 sl_x1].
        replace (Z.min (sl_x1 f + px d) (sl_x1 s + px d)) with (Z.min (sl_x1 f) (sl_x1 s) + px d) by lia.
        replace (Z.max (sl_x0 f + px d) (sl_x0 s + px d)) with (Z.max (sl_x0 f) (sl_x0 s) + px d) by lia.
        exact (tr_sl_rel d (SL y (Z.min (sl_x1 f) (sl_x1 s)) (Z.max (sl_x0 f) (sl_x0 s)))). }
    set (i0 := if hf then _ else _) in *. set (i1 := if hf then _ else _) in *.
    rewrite (sl_rel_empty _ _ _ I). f_equal. rewrite map_app, !map_map.
    destruct (sl_is_empty i0) eqn:E.
    + reflexivity.
    + cbn [map app tr_item fst snd]. rewrite (sl_rel_nonempty_eq _ _ _ I E). reflexivity.
Qed.

(* ---- the styled bounding box ------------------------------------------------------------------------------- *)
(* ClosedThickSegmentIter on the three vertices of a triangle: three segments between the three joins *)
Lemma closed_iter_3 a b c w so :
  closed_thick_segment_iter [a; b; c] w so =
  match lj_from_points c a b w so, lj_from_points a b c w so, lj_from_points b c a w so with
  | Some j0, Some j1, Some j2 => Some [TS j0 j1; TS j1 j2; TS j2 j0]
  | _, _, _ => None
  end.
Proof.
  unfold closed_thick_segment_iter. cbn [last_opt windows3 length Nat.add].
  destruct (lj_from_points c a b w so) as [j0|]; [|reflexivity].
  cbn [ctsi_run]. destruct (lj_from_points a b c w so) as [j1|]; [|reflexivity].
  cbn [length Nat.eqb removelast last_opt].
  destruct (lj_from_points b c a w so) as [j2|]; reflexivity.
Qed.

Lemma tri_segs_tr d t w so : tri_nosat t w so d = true ->
  tri_segs (tr_tri d t) w so = option_map (map (tr_segment d)) (tri_segs t w so).
Proof.
  destruct t as [[a b] c]. intros N. destruct (tri_nosat_parts _ _ _ _ _ _ N) as [N1 [N2 N3]].
  cbn [tr_tri tri_segs]. rewrite !closed_iter_3.
  pose proof (win_join_translate w so d _ N1) as W1. pose proof (win_join_translate w so d _ N2) as W2.
  pose proof (win_join_translate w so d _ N3) as W3. cbn [fst snd] in W1, W2, W3. rewrite W1, W2, W3.
  destruct (lj_from_points c a b w so); [|reflexivity].
  destruct (lj_from_points a b c w so); [|reflexivity].
  destruct (lj_from_points b c a w so); reflexivity.
Qed.

(* range hypothesis: vertices and the corners of the three thick segments within +-2^29 *)
Definition tri_box_ok (t : tri3) (w : Z) (so : stroke_offset) : Prop :=
  jpt_big (fst (fst t)) /\ jpt_big (snd (fst t)) /\ jpt_big (snd t) /\
  match tri_segs (jt_sorted_clockwise t) w so with Some segs => Forall seg_ok segs | None => True end.

Lemma jt_styled_bounding_box_unfold t w al :
  jt_styled_bounding_box t w al =
  match al with
  | Inside => Some (jt_bounding_box t)
  | _ => if w <? 2 then Some (jt_bounding_box t)
         else option_map segments_bounding_box (tri_segs (jt_sorted_clockwise t) w (so_of_alignment al))
  end.
Proof.
  unfold jt_styled_bounding_box, tri_segs. destruct al; try reflexivity;
    destruct (w <? 2); try reflexivity; destruct (jt_sorted_clockwise t) as [[a b] c];
    destruct (closed_thick_segment_iter [a; b; c] w _); reflexivity.
Qed.

Lemma rows_jt_bounding_box t : jpt_big (fst (fst t)) -> jpt_big (snd (fst t)) -> jpt_big (snd t) ->
  rows (jt_bounding_box t) =
  (Z.min (Z.min (py (fst (fst t))) (py (snd (fst t)))) (py (snd t)),
   Z.max (Z.max (py (fst (fst t))) (py (snd (fst t)))) (py (snd t)) + 1).
Proof.
  destruct t as [[p1 p2] p3]. cbn [fst snd]. intros [A0 A] [B0 B] [C0 C]. unfold jt_bounding_box.
  rewrite rows_with_corners_big; [cbn [py]; f_equal; lia | |]; unfold jpt_big, jbig in *; cbn [px py]; lia.
Qed.

Lemma tri_segs_length t w so segs : tri_segs t w so = Some segs -> exists s rest, segs = s :: rest.
Proof.
  destruct t as [[a b] c]. cbn [tri_segs]. rewrite closed_iter_3.
  destruct (lj_from_points c a b w so); [|discriminate]. destruct (lj_from_points a b c w so); [|discriminate].
  destruct (lj_from_points b c a w so); [|discriminate]. intros H. injection H as <-. eauto.
Qed.

Lemma jpt_big_tr_tri d t :
  jpt_big (fst (fst (tr_tri d t))) = jpt_big (padd (fst (fst t)) d) /\
  jpt_big (snd (fst (tr_tri d t))) = jpt_big (padd (snd (fst t)) d) /\
  jpt_big (snd (tr_tri d t)) = jpt_big (padd (snd t) d).
Proof. destruct t as [[a b] c]. repeat split; reflexivity. Qed.

(* the styled bounding box moves with the triangle, and so do its rows *)
Lemma jt_styled_bounding_box_tr d t w al :
  tri_nosat (jt_sorted_clockwise t) w (so_of_alignment al) d = true ->
  tri_box_ok t w (so_of_alignment al) -> tri_box_ok (tr_tri d t) w (so_of_alignment al) ->
  jt_styled_bounding_box (tr_tri d t) w al = option_map (fun bb => translate_rect bb d) (jt_styled_bounding_box t w al) /\
  match jt_styled_bounding_box t w al, jt_styled_bounding_box (tr_tri d t) w al with
  | Some bb, Some bb' => rows bb' = (fst (rows bb) + py d, snd (rows bb) + py d)
  | None, None => True
  | _, _ => False
  end.
Proof.
  intros N [A1 [A2 [A3 S1]]] [B1 [B2 [B3 S2]]].
  rewrite !jt_styled_bounding_box_unfold.
  assert (PL : jt_bounding_box (tr_tri d t) = translate_rect (jt_bounding_box t) d /\
               rows (jt_bounding_box (tr_tri d t)) =
               (fst (rows (jt_bounding_box t)) + py d, snd (rows (jt_bounding_box t)) + py d)).
  { split; [apply jt_bounding_box_tr|].
    rewrite (rows_jt_bounding_box _ A1 A2 A3), (rows_jt_bounding_box _ B1 B2 B3). cbn [fst snd].
    destruct t as [[p1 p2] p3]. cbn [tr_tri fst snd padd py]. f_equal; lia. }
  destruct PL as [PL1 PL2].
  assert (TH : option_map segments_bounding_box (tri_segs (jt_sorted_clockwise (tr_tri d t)) w (so_of_alignment al)) =
               option_map (fun bb => translate_rect bb d)
                 (option_map segments_bounding_box (tri_segs (jt_sorted_clockwise t) w (so_of_alignment al))) /\
               match option_map segments_bounding_box (tri_segs (jt_sorted_clockwise t) w (so_of_alignment al)),
                     option_map segments_bounding_box (tri_segs (jt_sorted_clockwise (tr_tri d t)) w (so_of_alignment al)) with
               | Some bb, Some bb' => rows bb' = (fst (rows bb) + py d, snd (rows bb) + py d)
               | None, None => True
               | _, _ => False
               end).
  { rewrite jt_sorted_clockwise_tr in *. rewrite (tri_segs_tr d _ w _ N) in *.
    destruct (tri_segs (jt_sorted_clockwise t) w (so_of_alignment al)) as [segs|] eqn:TS; cbn [option_map]; [|split; trivial].
    destruct (tri_segs_length _ _ _ _ TS) as [s [rest ->]]. cbn [option_map] in S2.
    inversion S1 as [|? ? Hs _]; subst. inversion S2 as [|? ? Hs' _]; subst.
    split; [f_equal; apply segments_bounding_box_tr; assumption | apply rows_sbb_tr; assumption]. }
  destruct TH as [TH1 TH2].
  destruct al; [split; [rewrite PL1; reflexivity | exact PL2] | |];
    (destruct (w <? 2); [split; [rewrite PL1; reflexivity | exact PL2] | split; [exact TH1 | exact TH2]]).
Qed.

(* ---- the iteration sequences ------------------------------------------------------------------------------ *)
Lemma jt_go_map {A B} (f : A -> B) : forall rs, jt_go (map (map f) rs) = map f (jt_go rs).
Proof.
  induction rs as [|r rest IH]; [reflexivity|]. cbn [map jt_go].
  destruct r as [|x r']; [reflexivity|]. cbn [map]. rewrite IH, map_app. reflexivity.
Qed.

Lemma jt_for_sequence_map {A B} (f : A -> B) rs : jt_for_sequence (map (map f) rs) = map f (jt_for_sequence rs).
Proof. destruct rs as [|r0 rest]; [reflexivity|]. cbn [map jt_for_sequence]. rewrite jt_go_map, map_app. reflexivity. Qed.

Lemma jt_pixels_sequence_map {A B} (f : A -> B) rs : jt_pixels_sequence (map (map f) rs) = map f (jt_pixels_sequence rs).
Proof.
  destruct rs as [|r0 [|r1 rest]].
  - reflexivity.
  - destruct r0; cbn; rewrite ?app_nil_r, ?map_app; reflexivity.
  - destruct r0 as [|x r0]; [destruct r1 as [|z r1]|].
    + cbn [map jt_pixels_sequence]. apply jt_go_map.
    + change (jt_pixels_sequence (map (map f) ([] :: (z :: r1) :: rest)))
        with (jt_for_sequence (map (map f) ([] :: (z :: r1) :: rest))).
      change (jt_pixels_sequence ([] :: (z :: r1) :: rest)) with (jt_for_sequence ([] :: (z :: r1) :: rest)).
      apply jt_for_sequence_map.
    + change (jt_pixels_sequence (map (map f) ((x :: r0) :: r1 :: rest)))
        with (jt_for_sequence (map (map f) ((x :: r0) :: r1 :: rest))).
      change (jt_pixels_sequence ((x :: r0) :: r1 :: rest)) with (jt_for_sequence ((x :: r0) :: r1 :: rest)).
      apply jt_for_sequence_map.
Qed.

Lemma all_some_map {A B} (f : A -> B) : forall l : list (option A),
  all_some (map (option_map f) l) = option_map (map f) (all_some l).
Proof.
  induction l as [|[x|] t IH]; try reflexivity. cbn [map option_map all_some]. rewrite IH.
  destruct (all_some t); reflexivity.
Qed.

(* every row of the moved triangle yields the moved lines of the corresponding row *)
Lemma jt_rows_tr d t w al hf :
  tri_nosat (jt_sorted_clockwise t) w (so_of_alignment al) d = true ->
  tri_box_ok t w (so_of_alignment al) -> tri_box_ok (tr_tri d t) w (so_of_alignment al) ->
  jt_rows (tr_tri d t) w al hf = option_map (map (map (tr_item d))) (jt_rows t w al hf).
Proof.
  intros N B1 B2. unfold jt_rows.
  destruct (jt_styled_bounding_box_tr d t w al N B1 B2) as [_ RW].
  rewrite jt_sorted_clockwise_tr, (jt_is_collapsed_tr d _ w _ N).
  destruct (jt_styled_bounding_box t w al) as [bb|]; destruct (jt_styled_bounding_box (tr_tri d t) w al) as [bb'|];
    try contradiction; [|reflexivity].
  destruct (jt_is_collapsed (jt_sorted_clockwise t) w (so_of_alignment al)) as [coll|]; [|reflexivity].
  rewrite RW. destruct (rows bb) as [y0 y1]. cbn [fst snd].
  rewrite range_shift, map_map.
  rewrite (map_ext _ (fun y => option_map (map (tr_item d))
            (jt_row (jt_sorted_clockwise t) w (so_of_alignment al) hf
               ((0 <? w) && coll && so_eqb (so_of_alignment al) SORight) y)))
    by (intros y; apply jt_row_tr; exact N).
  rewrite <- (map_map (jt_row (jt_sorted_clockwise t) w (so_of_alignment al) hf
                        ((0 <? w) && coll && so_eqb (so_of_alignment al) SORight))
                      (option_map (map (tr_item d)))).
  apply all_some_map.
Qed.

Definition tr_pc (d : point) (pc : point * Z) : point * Z := (padd (fst pc) d, snd pc).

(* C07 for stroked (and filled) triangles: pixels() yields the moved pixels with the same colours in the same order *)
Lemma jt_pixels_tr d t w al fill :
  tri_nosat (jt_sorted_clockwise t) w (so_of_alignment al) d = true ->
  tri_box_ok t w (so_of_alignment al) -> tri_box_ok (tr_tri d t) w (so_of_alignment al) ->
  jt_pixels (tr_tri d t) w al fill = option_map (map (tr_pc d)) (jt_pixels t w al fill).
Proof.
  intros N B1 B2. unfold jt_pixels. rewrite (jt_rows_tr d t w al _ N B1 B2).
  destruct (jt_rows t w al _) as [rs|]; [|reflexivity]. cbn [option_map]. f_equal.
  rewrite jt_pixels_sequence_map, flat_map_map, map_flat_map. apply flat_map_ext'. intros [sl k].
  cbn [tr_item fst snd]. destruct (jt_color w fill k); [|reflexivity].
  rewrite sl_points_tr, !map_map. reflexivity.
Qed.

(* ... and draw() issues the moved fill_solid rectangles with the same colours in the same order *)
Lemma jt_draw_tr d t w al fill :
  tri_nosat (jt_sorted_clockwise t) w (so_of_alignment al) d = true ->
  tri_box_ok t w (so_of_alignment al) -> tri_box_ok (tr_tri d t) w (so_of_alignment al) ->
  jt_draw (tr_tri d t) w al fill = option_map (map (fun rc => (translate_rect (fst rc) d, snd rc))) (jt_draw t w al fill).
Proof.
  intros N B1 B2. unfold jt_draw. destruct ((w =? 0) && _); [reflexivity|].
  rewrite (jt_rows_tr d t w al _ N B1 B2).
  destruct (jt_rows t w al _) as [rs|]; [|reflexivity]. cbn [option_map]. f_equal.
  rewrite jt_for_sequence_map, flat_map_map, map_flat_map. apply flat_map_ext'. intros [sl k].
  cbn [tr_item fst snd]. destruct (jt_color w fill k); [|reflexivity].
  rewrite sl_to_rectangle_tr.
  change (is_zero_sized (translate_rect (sl_to_rectangle sl) d)) with (is_zero_sized (sl_to_rectangle sl)).
  destruct (is_zero_sized (sl_to_rectangle sl)); reflexivity.
Qed.

(* the computable form of the hypotheses (Model/JoinTri.v tri_hyps) implies them *)
Lemma tri_box_okb_ok t w so : tri_box_okb t w so = true -> tri_box_ok t w so.
Proof.
  unfold tri_box_okb, tri_box_ok. intros H.
  apply andb_true_iff in H as [H H4]. apply andb_true_iff in H as [H H3]. apply andb_true_iff in H as [H1 H2].
  repeat split; try (apply jpt_bigb_ok; assumption).
  destruct (tri_segs (jt_sorted_clockwise t) w so) as [segs|]; [|trivial].
  apply Forall_forall. intros s Hs. apply seg_okb_ok. rewrite forallb_forall in H4. apply H4, Hs.
Qed.

Lemma tri_hyps_split t w al d : tri_hyps t w al d = true ->
  tri_nosat (jt_sorted_clockwise t) w (so_of_alignment al) d = true /\
  tri_box_ok t w (so_of_alignment al) /\ tri_box_ok (tr_tri d t) w (so_of_alignment al).
Proof.
  unfold tri_hyps. intros H. apply andb_true_iff in H as [H H3]. apply andb_true_iff in H as [H1 H2].
  split; [exact H1|]. split; apply tri_box_okb_ok; assumption.
Qed.

Lemma jt_pixels_tr_hyps d t w al fill : tri_hyps t w al d = true ->
  jt_pixels (tr_tri d t) w al fill = option_map (map (tr_pc d)) (jt_pixels t w al fill).
Proof. intros H. destruct (tri_hyps_split _ _ _ _ H) as [A [B C]]. apply jt_pixels_tr; assumption. Qed.

Lemma jt_draw_tr_hyps d t w al fill : tri_hyps t w al d = true ->
  jt_draw (tr_tri d t) w al fill = option_map (map (fun rc => (translate_rect (fst rc) d, snd rc))) (jt_draw t w al fill).
Proof. intros H. destruct (tri_hyps_split _ _ _ _ H) as [A [B C]]. apply jt_draw_tr; assumption. Qed.

Lemma jt_styled_bounding_box_tr_hyps d t w al : tri_hyps t w al d = true ->
  jt_styled_bounding_box (tr_tri d t) w al = option_map (fun bb => translate_rect bb d) (jt_styled_bounding_box t w al).
Proof.
  intros H. destruct (tri_hyps_split _ _ _ _ H) as [A [B C]]. exact (proj1 (jt_styled_bounding_box_tr d t w al A B C)).
Qed.

(* C07_join_hypotheses_from_coordinates: proved in Proofs/JoinRange.v for V + 6 w + 8 <= 8191 (vertices within +-V), with the
   bound on the USED intersection point of Proofs/JoinPointBound.v.  Beyond that range the unbounded model no longer equals
   the i32 arithmetic of the code (normal vector determinant), so nothing is left open here.  The model oracle still evaluates
   poly_hyps / tri_hyps on every generated case (suites join_poly_hyp, join_tri_hyp). *)
