(* The hypothesis `first_rows_ok (conv_rows rs)` of the tri builder's C01_bridge_tri_stroked_pixels_draw_partial is the
   hypothesis `jt_fused rs = true` of C01_join_triangle_pixels_draw. *)
From EG Require Import Base.Prelude Model.Geometry Model.Style Model.Line Model.Polyline Model.Triangle Model.Tristyled.
From EG Require Model.Join Model.JoinTri.
From EG Require Import Proofs.Tristyled Proofs.Tribridge.
Set Default Timeout 60.

Lemma gen_go_conv rs : gen_go (conv_rows rs) = map conv_line (JoinTri.jt_go rs).
Proof.
  induction rs as [|r rest IH]; [reflexivity|]. cbn [conv_rows map gen_go JoinTri.jt_go].
  destruct r as [|x r]; [reflexivity|]. cbn [map]. fold (conv_rows rest). rewrite IH, map_app. reflexivity.
Qed.

Lemma jt_fused_first_rows_ok rs : JoinTri.jt_fused rs = true <-> first_rows_ok (conv_rows rs).
Proof.
  destruct rs as [|[|x r0] [|[|z r1] rest]]; cbn [conv_rows map first_rows_ok JoinTri.jt_fused]; try tauto.
  fold (conv_rows rest). rewrite gen_go_conv. destruct (JoinTri.jt_go rest); cbn [map]; split; intros H; try reflexivity; discriminate.
Qed.
