(* Stroked / filled triangles: pixels() and the fill_solid rectangles of draw() describe the same pixels in the same order (C01),
   for the concrete generator of Model/JoinTri.v. *)
From EG Require Import Base.Prelude Base.Lemmas Model.Geometry Model.Style Model.Line Model.Thickline Model.Join Model.JoinTri.
From EG Require Import Proofs.Geometry Proofs.Line Proofs.ThicklineBox Proofs.Join Proofs.JoinTri Proofs.JoinHull Proofs.JoinDraw Proofs.JoinRange.
From Coq Require Import ZifyBool.

Ltac Zify.zify_post_hook ::= Z.to_euclidean_division_equations.
Set Default Timeout 60.
Strategy 1000 [parallels_new parallels_run next_parallel parallels_next bnext_all bprevious_all].

(* a scanline of row y whose x range lies within +-2^29 *)
Definition sl_fit_in (lo hi y : Z) (s : scanline) : Prop := xin lo hi s /\ sl_y s = y.
Notation sl_fit := (sl_fit_in (- jbig) jbig).

Lemma join_big_xin j : jpt_big (ec_left (first_edge_end j)) -> jpt_big (ec_right (first_edge_end j)) ->
  jpt_big (ec_left (second_edge_start j)) -> jpt_big (ec_right (second_edge_start j)) -> join_xin (- jbig) jbig j.
Proof. intros [A _] [B _] [C _] [D _]. unfold join_xin. tauto. Qed.

(* the three joins of the clockwise triangle (a, b, c), all corners within +-2^29 *)
Definition tri_joins_in (lo hi : Z) (ct : tri3) (w : Z) (so : stroke_offset) : Prop :=
  let '(a, b, c) := ct in
  forall j, (lj_from_points c a b w so = Some j \/ lj_from_points a b c w so = Some j \/ lj_from_points b c a w so = Some j) ->
            join_xin lo hi j.
Notation tri_joins_big := (tri_joins_in (- jbig) jbig).

Lemma tri_joins_big_of_segs ct w so segs : tri_segs ct w so = Some segs -> Forall seg_ok segs -> tri_joins_big ct w so.
Proof.
  destruct ct as [[a b] c]. cbn [tri_segs]. rewrite closed_iter_3.
  destruct (lj_from_points c a b w so) as [j0|] eqn:E0; [|discriminate].
  destruct (lj_from_points a b c w so) as [j1|] eqn:E1; [|discriminate].
  destruct (lj_from_points b c a w so) as [j2|] eqn:E2; [|discriminate].
  intros H F. injection H as <-.
  inversion F as [|? ? S0 F1]; subst. inversion F1 as [|? ? S1 F2]; subst. inversion F2 as [|? ? S2 _]; subst.
  destruct S0 as [A1 [A2 [A3 A4]]], S1 as [B1 [B2 [B3 B4]]], S2 as [C1 [C2 [C3 C4]]].
  unfold ts_edges in *; cbn [fst snd l_start l_end ts_start_join ts_end_join] in *.
  unfold tri_joins_in. rewrite E0, E1, E2. intros j [E|[E|E]]; injection E as <-; apply join_big_xin; assumption.
Qed.

Lemma jt_edge_scanline_fit_in lo hi ct w so idx y s : tri_joins_in lo hi ct w so ->
  jt_edge_scanline ct w so idx y = Some s -> sl_fit_in lo hi y s.
Proof.
  destruct ct as [[a b] c]. intros JB H. unfold jt_edge_scanline in H.
  destruct (lj_from_points (vtx (a, b, c) idx) (vtx (a, b, c) (idx + 1)) (vtx (a, b, c) (idx + 2)) w so) as [sj|] eqn:E1; [|discriminate].
  destruct (lj_from_points (vtx (a, b, c) (idx + 1)) (vtx (a, b, c) (idx + 2)) (vtx (a, b, c) (idx + 3)) w so) as [ej|] eqn:E2; [|discriminate].
  injection H as <-.
  assert (M1 : forall k, Nat.modulo (k + 1) 3 = Nat.modulo (Nat.modulo k 3 + 1) 3) by (intros k; rewrite (Nat.add_mod k 1 3) by discriminate; reflexivity).
  assert (M2 : forall k, Nat.modulo (k + 2) 3 = Nat.modulo (Nat.modulo k 3 + 2) 3) by (intros k; rewrite (Nat.add_mod k 2 3) by discriminate; reflexivity).
  assert (M3 : forall k, Nat.modulo (k + 3) 3 = Nat.modulo k 3).
  { intros k. rewrite (Nat.add_mod k 3 3) by discriminate. change (Nat.modulo 3 3) with 0%nat. rewrite Nat.add_0_r. apply Nat.mod_mod. discriminate. }
  unfold vtx in E1, E2. rewrite M1, M2 in E1. rewrite M1, M2, M3 in E2.
  pose proof (Nat.mod_upper_bound idx 3 ltac:(discriminate)) as U.
  apply ts_intersection_xin; cbn [ts_start_join ts_end_join]; apply JB;
    destruct (Nat.modulo idx 3) as [|[|[|k]]]; cbn in E1, E2; try lia; tauto.
Qed.

Lemma jt_edge_step_fit_in lo hi y lr sc : sl_fit_in lo hi y (fst lr) -> sl_fit_in lo hi y (snd lr) -> sl_fit_in lo hi y sc ->
  sl_fit_in lo hi y (fst (jt_edge_step lr sc)) /\ sl_fit_in lo hi y (snd (jt_edge_step lr sc)).
Proof.
  destruct lr as [l r]. cbn [fst snd]. intros [Xl Yl] [Xr Yr] [Xs Ys]. unfold jt_edge_step.
  destruct (negb (sl_is_empty l)); [|split; split; assumption].
  destruct (sl_try_extend_xin lo hi l sc Xl Xs) as [A B].
  destruct (sl_try_extend l sc) as [e a]. cbn [snd] in A, B. destruct e; cbv beta iota.
  - cbn [fst snd]. split; split; try assumption; lia.
  - destruct (negb (sl_is_empty r)); [|cbn [fst snd]; split; split; assumption].
    destruct (sl_try_extend_xin lo hi r sc Xr Xs) as [C D]. cbn [fst snd]. split; split; try assumption; lia.
Qed.

Lemma sl_fit_new_empty_in lo hi y : sl_fit_in lo hi y (sl_new_empty y).
Proof. split; [apply xin_new_empty | reflexivity]. Qed.

Lemma jt_edge_intersections_fit_in lo hi ct w so y es : tri_joins_in lo hi ct w so ->
  jt_edge_intersections ct w so y = Some es -> Forall (fun s => sl_fit_in lo hi y s /\ sl_is_empty s = false) es.
Proof.
  intros JB H. unfold jt_edge_intersections in H. destruct (w =? 0); [injection H as <-; constructor|].
  destruct (jt_edge_scanline ct w so 0 y) as [s0|] eqn:E0; [|discriminate].
  destruct (jt_edge_scanline ct w so 1 y) as [s1|] eqn:E1; [|discriminate].
  destruct (jt_edge_scanline ct w so 2 y) as [s2|] eqn:E2; [|discriminate].
  pose proof (jt_edge_scanline_fit_in lo hi _ _ _ _ _ _ JB E0) as F0. pose proof (jt_edge_scanline_fit_in lo hi _ _ _ _ _ _ JB E1) as F1.
  pose proof (jt_edge_scanline_fit_in lo hi _ _ _ _ _ _ JB E2) as F2. pose proof (sl_fit_new_empty_in lo hi y) as FE.
  destruct (jt_edge_step_fit_in lo hi y (sl_new_empty y, sl_new_empty y) s0 FE FE F0) as [A0 B0].
  destruct (jt_edge_step_fit_in lo hi y _ s1 A0 B0 F1) as [A1 B1]. destruct (jt_edge_step_fit_in lo hi y _ s2 A1 B1 F2) as [A2 B2].
  destruct (jt_edge_step (jt_edge_step (jt_edge_step (sl_new_empty y, sl_new_empty y) s0) s1) s2) as [l r]. cbn [fst snd] in A2, B2.
  destruct A2 as [Xl Yl], B2 as [Xr Yr]. destruct (sl_try_extend_xin lo hi l r Xl Xr) as [C D].
  destruct (sl_try_extend l r) as [e a]. cbn [snd] in C, D.
  assert (G : forall u v, sl_fit_in lo hi y u -> sl_fit_in lo hi y v ->
            Forall (fun s => sl_fit_in lo hi y s /\ sl_is_empty s = false) (filter (fun s => negb (sl_is_empty s)) [u; v])).
  { intros u v Fu Fv. cbn [filter]. destruct (sl_is_empty u) eqn:Eu; destruct (sl_is_empty v) eqn:Ev; cbn [negb];
      repeat (first [apply Forall_nil | apply Forall_cons; [split; assumption|]]). }
  destruct e; injection H as <-.
  - assert (Ya : sl_y a = y) by lia. exact (G a (sl_new_empty y) (conj C Ya) FE).
  - exact (G l r (conj Xl Yl) (conj Xr Yr)).
Qed.

(* the +-2^29 instances used for C01 *)
Definition jt_edge_intersections_fit := jt_edge_intersections_fit_in (- jbig) jbig.
Definition sl_fit_new_empty := sl_fit_new_empty_in (- jbig) jbig.

Definition tri_big (t : tri3) : Prop := jpt_big (fst (fst t)) /\ jpt_big (snd (fst t)) /\ jpt_big (snd t).

Lemma jt_sorted_yx_big t : tri_big t -> tri_big (jt_sorted_yx t).
Proof.
  destruct t as [[p1 p2] p3]. intros [H1 [H2 H3]]. cbn [fst snd] in *. unfold jt_sorted_yx.
  assert (S2 : forall a b, jpt_big a -> jpt_big b -> jpt_big (fst (jt_sort_two_yx a b)) /\ jpt_big (snd (jt_sort_two_yx a b))).
  { intros a b Ha Hb. unfold jt_sort_two_yx. destruct (_ || _); split; assumption. }
  destruct (S2 p1 p2 H1 H2) as [A B]. destruct (jt_sort_two_yx p1 p2) as [y1 y2]. cbn [fst snd] in A, B.
  destruct (S2 p3 y1 H3 A) as [C D]. destruct (jt_sort_two_yx p3 y1) as [y1' y3]. cbn [fst snd] in C, D.
  destruct (S2 y3 y2 D B) as [E F]. destruct (jt_sort_two_yx y3 y2) as [y2' y3']. cbn [fst snd] in E, F.
  split; [|split]; assumption.
Qed.

Lemma jt_scanline_intersection_fit t y : tri_big t -> sl_fit y (jt_scanline_intersection t y).
Proof.
  intros B. pose proof (jt_sorted_yx_big t B) as SB. unfold jt_scanline_intersection.
  destruct (jt_sorted_yx t) as [[p1 p2] p3]. destruct SB as [[A1 _] [[A2 _] [A3 _]]]. cbn [fst snd] in *.
  pose proof (xin_new_empty (- jbig) jbig y) as X0.
  destruct (jt_area_doubled t =? 0).
  - destruct (bresenham_intersection_xin _ _ (sl_new_empty y) (L p1 p3) X0 A1 A3) as [X Y]. split; [exact X | exact Y].
  - destruct (bresenham_intersection_xin _ _ (sl_new_empty y) (L p1 p2) X0 A1 A2) as [X1 Y1].
    destruct (bresenham_intersection_xin _ _ _ (L p1 p3) X1 A1 A3) as [X2 Y2].
    destruct (bresenham_intersection_xin _ _ _ (L p2 p3) X2 A2 A3) as [X3 Y3].
    split; [exact X3 | rewrite Y3, Y2; exact Y1].
Qed.

(* every scanline a row yields lies within +-2^29 in x and has the row's y *)
Lemma jt_row_fit ct w so hf coll y items : tri_joins_big ct w so -> tri_big ct ->
  jt_row ct w so hf coll y = Some items -> Forall (fun lk => sl_fit y (fst lk)) items.
Proof.
  intros JB TB H. unfold jt_row in H. destruct coll.
  - injection H as <-. destruct (sl_is_empty _); constructor; [apply jt_scanline_intersection_fit; exact TB | constructor].
  - destruct (jt_edge_intersections ct w so y) as [es|] eqn:E; [|discriminate]. injection H as <-.
    pose proof (jt_edge_intersections_fit _ _ _ _ _ JB E) as FE.
    apply Forall_app. split.
    + assert (I : sl_fit y (if hf then match es with
                                      | [f; s] => SL y (Z.min (sl_x1 f) (sl_x1 s)) (Z.max (sl_x0 f) (sl_x0 s))
                                      | [] => jt_scanline_intersection ct y
                                      | _ => sl_new_empty y end else sl_new_empty y)).
      { destruct hf; [|apply sl_fit_new_empty]. destruct es as [|f [|s [|x r]]]; try apply sl_fit_new_empty.
        - apply jt_scanline_intersection_fit; exact TB.
        - inversion FE as [|? ? [[Xf _] Nf] F1]; subst. inversion F1 as [|? ? [[Xs _] Ns] _]; subst.
          split; [|reflexivity]. unfold xin, sl_is_empty in *; cbn [sl_x0 sl_x1].
          destruct (Z.min (sl_x1 f) (sl_x1 s) <? Z.max (sl_x0 f) (sl_x0 s)) eqn:T; [right | left; reflexivity].
          destruct Xf as [Ef|[F0 F1']]; [congruence|]. destruct Xs as [Es|[S0 S1']]; [congruence|]. lia. }
      destruct (sl_is_empty _); constructor; [exact I | constructor].
    + apply Forall_map. eapply Forall_impl; [|exact FE]. intros s [Fs _]. exact Fs.
Qed.

(* ---- the sequence of lines, and the rows ----------------------------------------------------------------------------- *)
Lemma jt_fused_sequences {A} (rs : list (list A)) : jt_fused rs = true -> jt_pixels_sequence rs = jt_for_sequence rs.
Proof.
  destruct rs as [|[|x r0] [|[|z r1] rest]]; try reflexivity.
  cbn [jt_fused jt_pixels_sequence jt_for_sequence jt_go app]. destruct (jt_go rest); [reflexivity | discriminate].
Qed.

Lemma all_some_rows {A B} (f : A -> option B) : forall l rs, all_some (map f l) = Some rs ->
  forall r, In r rs -> exists x, In x l /\ f x = Some r.
Proof.
  induction l as [|x t IH]; intros rs H r Ir; [injection H as <-; destruct Ir|].
  cbn [map all_some] in H. destruct (f x) as [b|] eqn:E; [|discriminate].
  destruct (all_some (map f t)) as [rt|] eqn:T; [|discriminate]. injection H as <-.
  destruct Ir as [<-|Ir]; [exists x; split; [left; reflexivity | exact E]|].
  destruct (IH rt eq_refl r Ir) as [x' [I' E']]. exists x'. split; [right; exact I' | exact E'].
Qed.

Lemma jt_sorted_clockwise_big t : tri_big t -> tri_big (jt_sorted_clockwise t).
Proof.
  intros B. unfold jt_sorted_clockwise. destruct t as [[p1 p2] p3]. destruct (jt_area_doubled (p1, p2, p3) ?= 0).
  - apply jt_sorted_yx_big. exact B.
  - destruct B as [B1 [B2 B3]]. split; [|split]; assumption.
  - exact B.
Qed.

(* every line of every row lies within +-2^29 *)
Definition line_fit (lk : scanline * point_type) : Prop := exists y, - jbig <= y <= jbig /\ sl_fit y (fst lk).

Lemma jt_rows_fit t w al hf segs rs : tri_big t ->
  tri_segs (jt_sorted_clockwise t) w (so_of_alignment al) = Some segs -> Forall seg_ok segs ->
  jt_rows t w al hf = Some rs -> Forall (Forall line_fit) rs.
Proof.
  intros TB TS OK H. unfold jt_rows in H.
  pose proof (tri_joins_big_of_segs _ _ _ _ TS OK) as JB. pose proof (jt_sorted_clockwise_big t TB) as CB.
  destruct (jt_styled_bounding_box t w al) as [bb|] eqn:BB; [|discriminate].
  destruct (jt_is_collapsed (jt_sorted_clockwise t) w (so_of_alignment al)) as [coll|]; [|discriminate].
  assert (RW : forall y, In y (range (fst (rows bb)) (snd (rows bb))) -> - jbig <= y <= jbig).
  { rewrite jt_styled_bounding_box_unfold in BB.
    assert (PL : forall y, In y (range (fst (rows (jt_bounding_box t))) (snd (rows (jt_bounding_box t)))) -> - jbig <= y <= jbig).
    { pose proof TB as [A [B C]]. intros y Iy. rewrite (rows_jt_bounding_box t A B C) in Iy.
      destruct A as [_ A], B as [_ B], C as [_ C]. apply In_range in Iy. cbn [fst snd] in Iy. lia. }
    assert (SG : forall y, In y (range (fst (rows (segments_bounding_box segs))) (snd (rows (segments_bounding_box segs)))) -> - jbig <= y <= jbig).
    { destruct (tri_segs_length _ _ _ _ TS) as [s0 [rest ->]]. destruct (sbb_fold_form s0 rest OK) as [[_ Bm] [_ BM]].
      intros y Iy. rewrite segments_bounding_box_fold, rows_with_corners_big in Iy.
      - apply In_range in Iy. cbn [fst snd] in Iy. lia.
      - apply (sbb_fold_form s0 rest OK).
      - apply (sbb_fold_form s0 rest OK). }
    destruct al; [injection BB as <-; exact PL | |];
      (destruct (w <? 2); [injection BB as <-; exact PL | rewrite TS in BB; injection BB as <-; exact SG]). }
  destruct (rows bb) as [y0 y1]. cbn [fst snd] in RW.
  apply Forall_forall. intros row Ir.
  destruct (all_some_rows _ _ _ H row Ir) as [y [Iy Ey]].
  pose proof (jt_row_fit _ _ _ _ _ _ _ JB CB Ey) as F.
  eapply Forall_impl; [|exact F]. intros lk Flk. exists y. split; [apply RW; exact Iy | exact Flk].
Qed.

(* ---- C01 ---------------------------------------------------------------------------------------------------------------- *)
Definition rect_writes (rc : rect * Z) : list (point * Z) := map (fun p => (p, snd rc)) (points (fst rc)).

Lemma sl_points_empty s : sl_is_empty s = true -> sl_points s = [].
Proof. unfold sl_is_empty, sl_points. intros E. rewrite range_nil by lia. reflexivity. Qed.

Lemma line_writes lk c : line_fit lk ->
  flat_map rect_writes (let r := sl_to_rectangle (fst lk) in if is_zero_sized r then [] else [(r, c)]) =
  map (fun p => (p, c)) (sl_points (fst lk)).
Proof.
  intros [y [Hy [X Y]]]. destruct (sl_is_empty (fst lk)) eqn:E.
  - rewrite (sl_points_empty _ E). cbv zeta.
    assert (Z : is_zero_sized (sl_to_rectangle (fst lk)) = true).
    { unfold is_zero_sized, sl_to_rectangle; cbn [sz sw sh]. rewrite E. reflexivity. }
    rewrite Z. reflexivity.
  - cbv zeta.
    assert (Z : is_zero_sized (sl_to_rectangle (fst lk)) = false).
    { unfold is_zero_sized, sl_to_rectangle; cbn [sz sw sh]. rewrite E. cbn [negb]. unfold sl_is_empty in E. lia. }
    rewrite Z. cbn [flat_map]. rewrite app_nil_r. unfold rect_writes; cbn [fst snd].
    destruct X as [?|[X0 X1]]; [congruence|].
    rewrite points_sl_to_rectangle; [reflexivity | exact E | exact X0 | exact X1 | lia].
Qed.

(* pixels() = what the fill_solid calls of draw() write, in the same order *)
Lemma jt_pixels_draw t w al fill segs rs : tri_big t ->
  tri_segs (jt_sorted_clockwise t) w (so_of_alignment al) = Some segs -> Forall seg_ok segs ->
  jt_rows t w al (match fill with Some _ => true | None => false end) = Some rs -> jt_fused rs = true ->
  exists px dr, jt_pixels t w al fill = Some px /\ jt_draw t w al fill = Some dr /\ flat_map rect_writes dr = px.
Proof.
  intros TB TS OK H FU. pose proof (jt_rows_fit _ _ _ _ _ _ TB TS OK H) as FIT.
  unfold jt_pixels, jt_draw. rewrite H, (jt_fused_sequences rs FU).
  assert (SEQ : Forall line_fit (jt_for_sequence rs)).
  { assert (GO : forall l, Forall (Forall line_fit) l -> Forall line_fit (jt_go l)).
    { induction l as [|r rest IH]; intros F; [constructor|]. inversion F; subst. cbn [jt_go].
      destruct r; [constructor|]. apply Forall_app. split; [assumption | apply IH; assumption]. }
    destruct rs as [|r0 rest]; [constructor|]. inversion FIT; subst. cbn [jt_for_sequence].
    apply Forall_app. split; [assumption | apply GO; assumption]. }
  set (seq := jt_for_sequence rs) in *. clearbody seq.
  destruct ((w =? 0) && match fill with None => true | Some _ => false end) eqn:TR.
  - (* transparent: no colour at all *)
    eexists; eexists. split; [reflexivity|]. split; [reflexivity|]. cbn [flat_map].
    apply andb_true_iff in TR as [W0 FN]. destruct fill; [discriminate|].
    clear SEQ. induction seq as [|lk seq IH]; [reflexivity|]. cbn [flat_map]. rewrite <- IH.
    unfold jt_color. destruct (snd lk); [|reflexivity]. destruct (0 <? w) eqn:P; [lia | reflexivity].
  - eexists; eexists. split; [reflexivity|]. split; [reflexivity|].
    clear TR. induction seq as [|lk seq IH]; [reflexivity|]. inversion SEQ as [|? ? Flk Fs]; subst.
    cbn [flat_map]. rewrite flat_map_app, (IH Fs). f_equal.
    destruct (jt_color w fill (snd lk)) as [c|]; [|reflexivity]. exact (line_writes lk c Flk).
Qed.

(* input-only form *)
Lemma tri_segs_range V w so t : range_ok V w -> tri_within V t ->
  tri_big t /\ exists segs, tri_segs (jt_sorted_clockwise t) w so = Some segs /\ Forall seg_ok segs.
Proof.
  intros R H. pose proof (jt_sorted_clockwise_within V t H) as HC. split.
  - destruct H as [H1 [H2 H3]]. split; [|split]; eapply within_big_V; eassumption.
  - destruct (jt_sorted_clockwise t) as [[a b] c]. destruct HC as [Ha [Hb Hc]]. cbn [fst snd] in Ha, Hb, Hc.
    cbn [tri_segs]. rewrite closed_iter_3.
    destruct (lj_from_points_big V w so c a b R Hc Ha Hb) as [[j0 [E0 J0]] _].
    destruct (lj_from_points_big V w so a b c R Ha Hb Hc) as [[j1 [E1 J1]] _].
    destruct (lj_from_points_big V w so b c a R Hb Hc Ha) as [[j2 [E2 J2]] _].
    rewrite E0, E1, E2. eexists. split; [reflexivity|]. repeat constructor; apply seg_ok_of_joins; assumption.
Qed.

Lemma jt_pixels_draw_range V t w al fill rs : range_ok V w -> tri_within V t ->
  jt_rows t w al (match fill with Some _ => true | None => false end) = Some rs -> jt_fused rs = true ->
  exists px dr, jt_pixels t w al fill = Some px /\ jt_draw t w al fill = Some dr /\ flat_map rect_writes dr = px.
Proof.
  intros R H HR FU. destruct (tri_segs_range V w (so_of_alignment al) t R H) as [TB [segs [TS OK]]].
  exact (jt_pixels_draw t w al fill segs rs TB TS OK HR FU).
Qed.

(* ---- C02 for the stroke of a triangle (Center / Outside alignment, width >= 2) ------------------------------------------- *)
Lemma tri_joins_in_of_segs lo hi ct w so segs : tri_segs ct w so = Some segs ->
  (forall t p, In t segs -> seg_corner t p -> lo <= px p <= hi) -> tri_joins_in lo hi ct w so.
Proof.
  destruct ct as [[a b] c]. cbn [tri_segs]. rewrite closed_iter_3.
  destruct (lj_from_points c a b w so) as [j0|] eqn:E0; [|discriminate].
  destruct (lj_from_points a b c w so) as [j1|] eqn:E1; [|discriminate].
  destruct (lj_from_points b c a w so) as [j2|] eqn:E2; [|discriminate].
  intros H HP. injection H as <-.
  destruct (seg_corner_ses (TS j0 j1)) as [A1 [A2 [A3 A4]]]. destruct (seg_corner_ses (TS j1 j2)) as [B1 [B2 [B3 B4]]].
  destruct (seg_corner_ses (TS j2 j0)) as [C1 [C2 [C3 C4]]]. cbn [ts_start_join ts_end_join] in *.
  assert (I0 : In (TS j0 j1) [TS j0 j1; TS j1 j2; TS j2 j0]) by (left; reflexivity).
  assert (I1 : In (TS j1 j2) [TS j0 j1; TS j1 j2; TS j2 j0]) by (right; left; reflexivity).
  assert (I2 : In (TS j2 j0) [TS j0 j1; TS j1 j2; TS j2 j0]) by (right; right; left; reflexivity).
  unfold tri_joins_in. rewrite E0, E1, E2. intros j [E|[E|E]]; injection E as <-; unfold join_xin.
  - pose proof (HP _ _ I2 C3). pose proof (HP _ _ I2 C4). pose proof (HP _ _ I0 A1). pose proof (HP _ _ I0 A2). tauto.
  - pose proof (HP _ _ I0 A3). pose proof (HP _ _ I0 A4). pose proof (HP _ _ I1 B1). pose proof (HP _ _ I1 B2). tauto.
  - pose proof (HP _ _ I1 B3). pose proof (HP _ _ I1 B4). pose proof (HP _ _ I2 C1). pose proof (HP _ _ I2 C2). tauto.
Qed.

Lemma tri_stroke_in_bbox t w al hf segs rs row s p : al <> Inside -> 2 <= w ->
  tri_segs (jt_sorted_clockwise t) w (so_of_alignment al) = Some segs ->
  existsb is_skeleton segs = false -> Forall seg_ok segs ->
  jt_rows t w al hf = Some rs -> In row rs -> In (s, PStroke) row -> In p (sl_points s) ->
  contains (segments_bounding_box segs) p = true.
Proof.
  intros NI W2 TS NS OK H Ir Is Ip. unfold jt_rows in H. rewrite jt_styled_bounding_box_unfold in H.
  assert (BB : (match al with
                | Inside => Some (jt_bounding_box t)
                | _ => if w <? 2 then Some (jt_bounding_box t)
                       else option_map segments_bounding_box (tri_segs (jt_sorted_clockwise t) w (so_of_alignment al))
                end) = Some (segments_bounding_box segs)).
  { destruct al; [congruence | |]; (destruct (w <? 2) eqn:E; [lia|]); rewrite TS; reflexivity. }
  rewrite BB in H. clear BB.
  destruct (jt_is_collapsed (jt_sorted_clockwise t) w (so_of_alignment al)) as [coll|]; [|discriminate].
  assert (NC : (0 <? w) && coll && so_eqb (so_of_alignment al) SORight = false).
  { destruct al; [congruence | |]; cbn [so_of_alignment so_eqb]; rewrite andb_false_r; reflexivity. }
  rewrite NC in H.
  destruct (tri_segs_length _ _ _ _ TS) as [s0 [rest ES]]. subst segs.
  set (mM := fold_left bb_step (s0 :: rest) (P i32_max i32_max, P i32_min i32_min)).
  assert (HP : forall t0 q, In t0 (s0 :: rest) -> seg_corner t0 q -> px (fst mM) <= px q <= px (snd mM)).
  { intros t0 q It C. destruct (bb_fold_bounds (s0 :: rest) (P i32_max i32_max, P i32_min i32_min) t0 It) as [[A1 _] [B1 _]].
    assert (SK : is_skeleton t0 = false).
    { destruct (is_skeleton t0) eqn:E; [|reflexivity].
      assert (existsb is_skeleton (s0 :: rest) = true) by (apply existsb_exists; exists t0; split; assumption). congruence. }
    destruct (ebb_corners_cover t0 q (or_introl (conj SK C))) as [[C1 _] [D1 _]]. fold mM in A1, B1. lia. }
  pose proof (tri_joins_in_of_segs _ _ _ _ _ _ TS HP) as JB.
  destruct (sbb_fold_form s0 rest OK) as [Bm BM]. fold mM in Bm, BM.
  rewrite segments_bounding_box_fold in H. fold mM in H. rewrite (rows_with_corners_big _ _ Bm BM) in H.
  destruct (all_some_rows _ _ _ H row Ir) as [y [Iy Ey]]. apply In_range in Iy.
  unfold jt_row in Ey. destruct (jt_edge_intersections (jt_sorted_clockwise t) w (so_of_alignment al) y) as [es|] eqn:EE; [|discriminate].
  injection Ey as <-. apply in_app_or in Is as [Is|Is].
  - destruct (sl_is_empty _) in Is; [destruct Is | destruct Is as [Is|[]]; discriminate].
  - apply in_map_iff in Is as [s' [Es Is']]. injection Es as ->.
    pose proof (jt_edge_intersections_fit_in _ _ _ _ _ _ _ JB EE) as F. rewrite Forall_forall in F.
    destruct (F s Is') as [[X Y] _]. destruct (sl_points_xin _ _ s p X Ip) as [Px Py].
    rewrite segments_bounding_box_fold. fold mM.
    apply contains_spec. unfold with_corners, size_from_bounding_box; cbn [tl sz sw sh px py].
    destruct Bm as [_ Bm], BM as [_ BM]. lia.
Qed.
