(* Triangles whose rows come from Triangle::scanline_intersection alone: stroke width 0 (fill only, every alignment) and the
   "collapsed" Inside stroke.  For these the un-fused scanline iterator can never make pixels() and draw() differ (every row
   between the top and the bottom vertex has a pixel, or no row has one), and every pixel lies in Triangle::bounding_box. *)
From EG Require Import Base.Prelude Base.Lemmas Model.Geometry Model.Style Model.Line Model.Thickline.
From EG Require Model.Join Model.JoinTri.
From EG Require Import Model.Triangle.
From EG Require Import Proofs.Geometry Proofs.Line Proofs.Triangle Proofs.Join Proofs.JoinTri Proofs.JoinHull Proofs.JoinTriDraw Proofs.JoinOutline.
From Coq Require Import ZifyBool.

Ltac Zify.zify_post_hook ::= Z.to_euclidean_division_equations.
Set Default Timeout 60.

(* sl_extend never returns an empty scanline *)
Lemma sl_extend_nonempty s x : Join.sl_is_empty (Join.sl_extend s x) = false.
Proof.
  unfold Join.sl_extend. destruct (Join.sl_is_empty s) eqn:E; [unfold Join.sl_is_empty; cbn; lia|].
  destruct (x <? Join.sl_x0 s) eqn:A; [unfold Join.sl_is_empty in *; cbn; lia|].
  destruct (Join.sl_x1 s <=? x) eqn:B; [unfold Join.sl_is_empty in *; cbn; lia | exact E].
Qed.

Lemma fold_extend_nonempty (ps : list point) : forall s, (Join.sl_is_empty s = false \/ ps <> []) ->
  Join.sl_is_empty (fold_left (fun acc p => Join.sl_extend acc (px p)) ps s) = false.
Proof.
  induction ps as [|p t IH]; intros s H; [destruct H as [H|H]; [exact H | congruence]|].
  cbn [fold_left]. apply IH. left. apply sl_extend_nonempty.
Qed.

(* bresenham_intersection keeps a non-empty scanline non-empty and makes it non-empty when the line has a pixel in the row *)
Lemma bresenham_nonempty s l : (Join.sl_is_empty s = false \/ exists p, In p (line_points l) /\ py p = Join.sl_y s) ->
  Join.sl_is_empty (Join.bresenham_intersection s l) = false.
Proof.
  intros H.
  assert (E : Join.sl_is_empty (Join.bresenham_intersection s l) = sl_is_empty (cv (Join.bresenham_intersection s l))) by reflexivity.
  rewrite E, cv_bresenham, bresenham_intersection_filter_any. cbn [cv sl_y].
  rewrite <- cv_fold. change (sl_is_empty (cv ?a)) with (Join.sl_is_empty a).
  apply fold_extend_nonempty. destruct H as [H|(p & Ip & Yp)]; [left; exact H | right].
  intros N. assert (I : In p (row_of (Join.sl_y s) (line_points l))) by (apply filter_In; split; [exact Ip | lia]).
  rewrite N in I. exact I.
Qed.

(* (y,x)-sorted vertices: first has the smallest y, last the largest *)
Lemma jt_sorted_yx_ys t :
  let '(p1, p2, p3) := JoinTri.jt_sorted_yx t in
  py p1 <= py p2 <= py p3 /\
  py p1 = Z.min (Z.min (py (fst (fst t))) (py (snd (fst t)))) (py (snd t)) /\
  py p3 = Z.max (Z.max (py (fst (fst t))) (py (snd (fst t)))) (py (snd t)).
Proof.
  destruct t as [[a b] c]. cbn [fst snd]. unfold JoinTri.jt_sorted_yx, JoinTri.jt_sort_two_yx.
  destruct ((py a <? py b) || (py a =? py b) && (px a <? px b)) eqn:E1;
  match goal with |- context [if ?c then _ else _] => destruct c eqn:E2 end;
  match goal with |- context [if ?c then _ else _] => destruct c eqn:E3 end; lia.
Qed.

(* Triangle::scanline_intersection has a pixel in every row between the top and the bottom vertex *)
Lemma jt_scanline_intersection_nonempty t y :
  Z.min (Z.min (py (fst (fst t))) (py (snd (fst t)))) (py (snd t)) <= y <=
  Z.max (Z.max (py (fst (fst t))) (py (snd (fst t)))) (py (snd t)) ->
  Join.sl_is_empty (JoinTri.jt_scanline_intersection t y) = false.
Proof.
  intros Hy. pose proof (jt_sorted_yx_ys t) as S. unfold JoinTri.jt_scanline_intersection.
  destruct (JoinTri.jt_sorted_yx t) as [[p1 p2] p3]. destruct S as [O [E1 E3]].
  assert (R : exists p, In p (line_points (L p1 p3)) /\ py p = y) by (apply line_row_nonempty_any; cbn [l_start l_end]; lia).
  destruct (JoinTri.jt_area_doubled t =? 0).
  - apply bresenham_nonempty. right. exact R.
  - apply bresenham_nonempty. left. apply bresenham_nonempty. right.
    assert (Y : Join.sl_y (Join.bresenham_intersection (Join.sl_new_empty y) (L p1 p2)) = y).
    { exact (proj2 (bresenham_intersection_xin 0 0 (Join.sl_new_empty y) (L p1 p2) (xin_new_empty 0 0 y) ltac:(idtac) ltac:(idtac))) || idtac.
      pose proof (f_equal sl_y (cv_bresenham (Join.sl_new_empty y) (L p1 p2))) as H. cbn [cv sl_y] in H. rewrite H.
      rewrite bresenham_intersection_filter_any.
      exact (proj2 (fold_extend_hull _ _ [] (sl_hull_empty y))). }
    rewrite Y. exact R.
Qed.

(* ---- the x hull of the vertices is the same for every ordering ---------------------------------------------------------- *)
Definition xlo (t : JoinTri.tri3) : Z := Z.min (Z.min (px (fst (fst t))) (px (snd (fst t)))) (px (snd t)).
Definition xhi (t : JoinTri.tri3) : Z := Z.max (Z.max (px (fst (fst t))) (px (snd (fst t)))) (px (snd t)).
Definition ylo (t : JoinTri.tri3) : Z := Z.min (Z.min (py (fst (fst t))) (py (snd (fst t)))) (py (snd t)).
Definition yhi (t : JoinTri.tri3) : Z := Z.max (Z.max (py (fst (fst t))) (py (snd (fst t)))) (py (snd t)).

Lemma sorted_yx_hull t : xlo (JoinTri.jt_sorted_yx t) = xlo t /\ xhi (JoinTri.jt_sorted_yx t) = xhi t.
Proof.
  destruct t as [[a b] c]. unfold xlo, xhi, JoinTri.jt_sorted_yx, JoinTri.jt_sort_two_yx. cbn [fst snd].
  destruct ((py a <? py b) || (py a =? py b) && (px a <? px b));
  match goal with |- context [if ?c then _ else _] => destruct c end;
  match goal with |- context [if ?c then _ else _] => destruct c end; cbn [fst snd]; split; lia.
Qed.

Lemma sorted_clockwise_hull t :
  xlo (JoinTri.jt_sorted_clockwise t) = xlo t /\ xhi (JoinTri.jt_sorted_clockwise t) = xhi t /\
  ylo (JoinTri.jt_sorted_clockwise t) = ylo t /\ yhi (JoinTri.jt_sorted_clockwise t) = yhi t.
Proof.
  pose proof (sorted_yx_hull t) as [A B]. pose proof (jt_sorted_yx_ys t) as S.
  unfold JoinTri.jt_sorted_clockwise. destruct t as [[a b] c]. destruct (JoinTri.jt_area_doubled (a, b, c) ?= 0).
  - destruct (JoinTri.jt_sorted_yx (a, b, c)) as [[p1 p2] p3]. destruct S as [O [E1 E3]].
    unfold xlo, xhi, ylo, yhi in *. cbn [fst snd] in *. repeat split; lia.
  - unfold xlo, xhi, ylo, yhi. cbn [fst snd]. repeat split; lia.
  - repeat split; reflexivity.
Qed.

(* the scanline of Triangle::scanline_intersection stays within the x hull of the vertices *)
Lemma jt_scanline_intersection_hull t y :
  xin (xlo t) (xhi t) (JoinTri.jt_scanline_intersection t y) /\ Join.sl_y (JoinTri.jt_scanline_intersection t y) = y.
Proof.
  pose proof (sorted_yx_hull t) as [A B]. unfold JoinTri.jt_scanline_intersection.
  remember (xlo t) as lo eqn:Elo. remember (xhi t) as hi eqn:Ehi. clear Elo Ehi.
  destruct (JoinTri.jt_sorted_yx t) as [[p1 p2] p3]. unfold xlo, xhi in A, B. cbn [fst snd] in A, B.
  pose proof (xin_new_empty lo hi y) as X0.
  assert (H1 : lo <= px p1 <= hi) by lia. assert (H2 : lo <= px p2 <= hi) by lia. assert (H3 : lo <= px p3 <= hi) by lia.
  destruct (JoinTri.jt_area_doubled t =? 0).
  - exact (bresenham_intersection_xin _ _ (Join.sl_new_empty y) (L p1 p3) X0 H1 H3).
  - destruct (bresenham_intersection_xin _ _ (Join.sl_new_empty y) (L p1 p2) X0 H1 H2) as [X1 Y1].
    destruct (bresenham_intersection_xin _ _ _ (L p1 p3) X1 H1 H3) as [X2 Y2].
    destruct (bresenham_intersection_xin _ _ _ (L p2 p3) X2 H2 H3) as [X3 Y3].
    split; [exact X3 | rewrite Y3, Y2; exact Y1].
Qed.

(* ---- rows that consist of Triangle::scanline_intersection only ------------------------------------------------------------ *)
(* stroke width 0, or the collapsed Inside stroke *)
Definition fill_like (w : Z) (coll : bool) (so : stroke_offset) : Prop :=
  w = 0 \/ (0 <? w) && coll && JoinTri.so_eqb so SORight = true.

Lemma jt_row_fill_like ct w so hf coll y : fill_like w coll so ->
  exists k, JoinTri.jt_row ct w so hf ((0 <? w) && coll && JoinTri.so_eqb so SORight) y =
    Some (if (hf || ((0 <? w) && coll && JoinTri.so_eqb so SORight))
          then (if Join.sl_is_empty (JoinTri.jt_scanline_intersection ct y) then [] else [(JoinTri.jt_scanline_intersection ct y, k)])
          else []).
Proof.
  intros FL. unfold JoinTri.jt_row. destruct ((0 <? w) && coll && JoinTri.so_eqb so SORight) eqn:C.
  - exists JoinTri.PStroke. rewrite orb_true_r. reflexivity.
  - destruct FL as [->|F]; [|congruence]. exists JoinTri.PFill. unfold JoinTri.jt_edge_intersections. cbn [Z.eqb].
    rewrite orb_false_r. destruct hf; cbn [app map]; [rewrite app_nil_r; reflexivity | reflexivity].
Qed.

Lemma fused_all_nonempty {A} (rs : list (list A)) : Forall (fun r => r <> []) rs -> JoinTri.jt_fused rs = true.
Proof. intros F. destruct rs as [|[|x r0] rest]; try reflexivity. inversion F; congruence. Qed.

Lemma jt_go_hd_empty {A} (rs : list (list A)) : Forall (fun r => r = []) rs -> JoinTri.jt_go rs = [].
Proof. intros F. destruct rs as [|r rest]; [reflexivity|]. inversion F as [|? ? E _]. rewrite E. reflexivity. Qed.

Lemma fused_all_empty {A} (rs : list (list A)) : Forall (fun r => r = []) rs -> JoinTri.jt_fused rs = true.
Proof.
  intros F. destruct rs as [|r0 rest]; [reflexivity|]. destruct r0 as [|x r0]; [|reflexivity].
  destruct rest as [|r1 rest]; [reflexivity|]. destruct r1 as [|z r1]; [|reflexivity].
  cbn [JoinTri.jt_fused]. rewrite jt_go_hd_empty; [reflexivity|].
  apply Forall_forall. intros r Ir. rewrite Forall_forall in F. apply F. right. right. exact Ir.
Qed.

(* (2) for these triangles: pixels() and draw() always see the same sequence of lines *)
Lemma fill_like_fused t w al hf rs : tri_big t ->
  (w = 0 \/ exists c, JoinTri.jt_is_collapsed (JoinTri.jt_sorted_clockwise t) w (JoinTri.so_of_alignment al) = Some c /\
                      (0 <? w) && c && JoinTri.so_eqb (JoinTri.so_of_alignment al) SORight = true) ->
  JoinTri.jt_rows t w al hf = Some rs -> JoinTri.jt_fused rs = true.
Proof.
  intros TB FL H. unfold JoinTri.jt_rows in H. rewrite jt_styled_bounding_box_unfold in H.
  set (so := JoinTri.so_of_alignment al) in *. set (ct := JoinTri.jt_sorted_clockwise t) in *.
  assert (BB : (match al with
                | Inside => Some (JoinTri.jt_bounding_box t)
                | _ => if w <? 2 then Some (JoinTri.jt_bounding_box t)
                       else option_map Join.segments_bounding_box (JoinTri.tri_segs ct w so)
                end) = Some (JoinTri.jt_bounding_box t)).
  { destruct FL as [->|(c & _ & F)]; [destruct al; reflexivity|].
    destruct al; try reflexivity; cbn in F; rewrite andb_false_r in F; discriminate. }
  rewrite BB in H. clear BB.
  destruct (JoinTri.jt_is_collapsed ct w so) as [coll|] eqn:CO; [|discriminate].
  assert (FL' : fill_like w coll so).
  { destruct FL as [->|(c & E & F)]; [left; reflexivity | right]. injection E as <-. exact F. }
  rewrite (rows_jt_bounding_box t) in H by apply TB. fold (ylo t) (yhi t) in H.
  destruct (sorted_clockwise_hull t) as [_ [_ [YL YH]]]. fold ct in YL, YH.
  destruct (hf || ((0 <? w) && coll && JoinTri.so_eqb so SORight)) eqn:ON.
  - apply fused_all_nonempty. apply Forall_forall. intros r Ir.
    destruct (all_some_rows _ _ _ H r Ir) as (y & Iy & Ey). apply In_range in Iy.
    destruct (jt_row_fill_like ct w so hf coll y FL') as [k E]. rewrite E, ON in Ey. injection Ey as <-.
    rewrite (jt_scanline_intersection_nonempty ct y); [discriminate|]. fold (ylo ct) (yhi ct). lia.
  - apply fused_all_empty. apply Forall_forall. intros r Ir.
    destruct (all_some_rows _ _ _ H r Ir) as (y & Iy & Ey).
    destruct (jt_row_fill_like ct w so hf coll y FL') as [k E]. rewrite E, ON in Ey. injection Ey as <-. reflexivity.
Qed.

(* (4) for these triangles: every point of every line lies in Triangle::bounding_box, the styled bounding box *)
Lemma fill_like_in_bbox t w al hf rs row lk p : tri_big t ->
  (w = 0 \/ exists c, JoinTri.jt_is_collapsed (JoinTri.jt_sorted_clockwise t) w (JoinTri.so_of_alignment al) = Some c /\
                      (0 <? w) && c && JoinTri.so_eqb (JoinTri.so_of_alignment al) SORight = true) ->
  JoinTri.jt_rows t w al hf = Some rs -> In row rs -> In lk row -> In p (Join.sl_points (fst lk)) ->
  JoinTri.jt_styled_bounding_box t w al = Some (JoinTri.jt_bounding_box t) /\ contains (JoinTri.jt_bounding_box t) p = true.
Proof.
  intros TB FL H Ir Il Ip. unfold JoinTri.jt_rows in H. rewrite jt_styled_bounding_box_unfold in *.
  set (so := JoinTri.so_of_alignment al) in *. set (ct := JoinTri.jt_sorted_clockwise t) in *.
  assert (BB : (match al with
                | Inside => Some (JoinTri.jt_bounding_box t)
                | _ => if w <? 2 then Some (JoinTri.jt_bounding_box t)
                       else option_map Join.segments_bounding_box (JoinTri.tri_segs ct w so)
                end) = Some (JoinTri.jt_bounding_box t)).
  { destruct FL as [->|(c & _ & F)]; [destruct al; reflexivity|].
    destruct al; try reflexivity; cbn in F; rewrite andb_false_r in F; discriminate. }
  rewrite BB in *. split; [reflexivity|].
  destruct (JoinTri.jt_is_collapsed ct w so) as [coll|] eqn:CO; [|discriminate].
  assert (FL' : fill_like w coll so).
  { destruct FL as [->|(c & E & F)]; [left; reflexivity | right]. injection E as <-. exact F. }
  rewrite (rows_jt_bounding_box t) in H by apply TB. fold (ylo t) (yhi t) in H.
  destruct (sorted_clockwise_hull t) as [XL [XH _]]. fold ct in XL, XH.
  destruct (all_some_rows _ _ _ H row Ir) as (y & Iy & Ey). apply In_range in Iy.
  destruct (jt_row_fill_like ct w so hf coll y FL') as [k E]. rewrite E in Ey. injection Ey as <-.
  destruct (hf || _); [|destruct Il].
  destruct (Join.sl_is_empty (JoinTri.jt_scanline_intersection ct y)); [destruct Il|].
  destruct Il as [<-|[]]. cbn [fst] in Ip.
  destruct (jt_scanline_intersection_hull ct y) as [X Y]. rewrite XL, XH in X.
  destruct (sl_points_xin _ _ _ p X Ip) as [Px Py]. rewrite Y in Py.
  apply contains_spec. destruct t as [[a b] c]. unfold JoinTri.jt_bounding_box, with_corners, size_from_bounding_box, xlo, xhi, ylo, yhi in *.
  cbn [tl sz sw sh px py fst snd] in *. lia.
Qed.

(* C01 without the hypothesis jt_fused for these triangles *)
Lemma jt_pixels_draw_fill_like t w al fill segs rs : tri_big t ->
  JoinTri.tri_segs (JoinTri.jt_sorted_clockwise t) w (JoinTri.so_of_alignment al) = Some segs -> Forall seg_ok segs ->
  (w = 0 \/ exists c, JoinTri.jt_is_collapsed (JoinTri.jt_sorted_clockwise t) w (JoinTri.so_of_alignment al) = Some c /\
                      (0 <? w) && c && JoinTri.so_eqb (JoinTri.so_of_alignment al) SORight = true) ->
  JoinTri.jt_rows t w al (match fill with Some _ => true | None => false end) = Some rs ->
  exists px dr, JoinTri.jt_pixels t w al fill = Some px /\ JoinTri.jt_draw t w al fill = Some dr /\ flat_map rect_writes dr = px.
Proof.
  intros TB TS OK FL H. exact (jt_pixels_draw t w al fill segs rs TB TS OK H (fill_like_fused t w al _ rs TB FL H)).
Qed.

(* the width-1 outline (Center) lies in Triangle::bounding_box *)
Lemma outline_in_bbox t p :
  let '(a, b, c) := JoinTri.jt_sorted_clockwise t in
  In p (line_points (L b c)) \/ In p (line_points (L c a)) \/ In p (line_points (L a b)) ->
  contains (JoinTri.jt_bounding_box t) p = true.
Proof.
  destruct (sorted_clockwise_hull t) as [XL [XH [YL YH]]].
  destruct (JoinTri.jt_sorted_clockwise t) as [[a b] c]. intros U.
  assert (H : xlo t <= px p <= xhi t /\ ylo t <= py p <= yhi t).
  { rewrite <- XL, <- XH, <- YL, <- YH. unfold xlo, xhi, ylo, yhi. cbn [fst snd]. clear XL XH YL YH.
    destruct U as [U|[U|U]]; apply line_points_hull in U; cbn [l_start l_end] in U; destruct U as [[U1 U2] [U3 U4]];
      split; split; lia. }
  destruct H as [[H1 H2] [H3 H4]].
  apply contains_spec. destruct t as [[u v] z].
  unfold JoinTri.jt_bounding_box, with_corners, size_from_bounding_box, xlo, xhi, ylo, yhi in *. cbn [tl sz sw sh px py fst snd] in *.
  clear XL XH YL YH. split; split; lia.
Qed.
