(* Stroke width 1, StrokeOffset::None (Center alignment): every line join collapses to its middle vertex, every thick
   segment is the 1 px Bresenham line between its two vertices (C19 tri_outline_w1, partial). *)
From EG Require Import Base.Prelude Base.Lemmas Model.Geometry Model.Style Model.Line Model.Thickline Model.Join Model.JoinTri.
From EG Require Import Proofs.Geometry Proofs.Line Proofs.Thickline Proofs.Join Proofs.JoinTri.
From Coq Require Import ZifyBool.

Ltac Zify.zify_post_hook ::= Z.to_euclidean_division_equations.
Set Default Timeout 60.
Strategy 1000 [parallels_new parallels_run next_parallel parallels_next bnext_all bprevious_all].

(* Line::extents with thickness 1 returns the line itself twice *)
Lemma extents_w1 l : extents l 1 SONone = Some (l, l).
Proof.
  unfold extents. change (sat_u32_to_i32 1) with 1.
  destruct (parallels_first l 1 ltac:(lia)) as [rest [E R]]. rewrite (R eq_refl) in E. rewrite E.
  cbn [last_opt last_alternating b_point fst snd].
  assert (Q : psub (padd (l_start l) (psub (l_end l) (l_start l))) (P 0 0) = l_end l).
  { unfold psub, padd; cbn [px py]. destruct (l_end l) as [ex ey]; cbn [px py]. f_equal; lia. }
  rewrite Q. destruct l; reflexivity.
Qed.

Lemma round_div_raw_multiple den k : den <> 0 -> round_div_raw den (k * den) = k.
Proof.
  intros H. replace (k * den) with (0 + k * den) by ring. rewrite round_div_raw_shift by exact H.
  destruct (Z_lt_ge_dec den 0).
  - rewrite round_div_raw_neg by lia. cbn [Z.opp]. rewrite Z.div_small by lia. lia.
  - rewrite round_div_raw_pos by lia. rewrite Z.div_small by lia. lia.
Qed.

(* two lines that share the point b (end of the first, start of the second) intersect exactly in b *)
Lemma ip_numerators_common a b c :
  ip_x_numerator (ip_from_lines (L b c) (L a b)) = px b * ip_den (ip_from_lines (L b c) (L a b)) /\
  ip_y_numerator (ip_from_lines (L b c) (L a b)) = py b * ip_den (ip_from_lines (L b c) (L a b)).
Proof.
  unfold ip_x_numerator, ip_y_numerator, ip_from_lines, le_from_line, det2, determinant, dot_product, rotate_90, line_delta, psub;
  cbn [ip_le1 ip_le2 ip_den normal_vector origin_distance l_start l_end px py]. split; ring.
Qed.

Lemma ip_intersection_common a b c : pt_in_i32 b = true ->
  ip_intersection (ip_from_lines (L b c) (L a b)) = IColinear \/
  exists o, ip_intersection (ip_from_lines (L b c) (L a b)) = IPoint b o.
Proof.
  intros HB. unfold ip_intersection. destruct (ip_den (ip_from_lines (L b c) (L a b)) =? 0) eqn:E; [left; reflexivity|].
  right. eexists. destruct (ip_numerators_common a b c) as [-> ->].
  unfold round_div. rewrite !round_div_raw_multiple by lia.
  unfold pt_in_i32 in HB. apply andb_true_iff in HB as [Hx Hy]. rewrite !sat_as_i32_id by assumption.
  destruct b; reflexivity.
Qed.

(* with width 1 every corner of LineJoin::from_points is the middle vertex *)
Definition join_at (b : point) (j : line_join) : Prop :=
  first_edge_end j = EC b b /\ second_edge_start j = EC b b.

Lemma lj_from_points_w1 a b c : pt_in_i32 b = true ->
  exists j, lj_from_points a b c 1 SONone = Some j /\ join_at b j.
Proof.
  intros HB. unfold lj_from_points. rewrite !extents_w1. eexists. split; [reflexivity|].
  unfold lj_from_extents, intersections. cbn [l_start l_end].
  destruct (ip_intersection_common a b c HB) as [-> | [o ->]]; [split; reflexivity|].
  assert (LI : (if negb (nearly_colinear_has_error (ip_from_lines (L b c) (L a b))) then b else b) = b) by (destruct (negb _); reflexivity).
  rewrite LI. destruct o.
  - destruct (negb (le_check_side _ _ _)); [|split; reflexivity]. destruct (_ <=? _); split; reflexivity.
  - destruct (negb (le_check_side _ _ _)); [|split; reflexivity]. destruct (_ <=? _); split; reflexivity.
Qed.

(* ... and the thick segment between two such joins is the Bresenham line between the two vertices *)
Lemma ts_intersection_w1 sj ej m1 m2 y : join_at m1 sj -> join_at m2 ej ->
  ts_intersection (TS sj ej) y = bresenham_intersection (sl_new_empty y) (L m1 m2).
Proof.
  intros [A1 A2] [B1 B2]. unfold ts_intersection, is_skeleton, ts_edges; cbn [ts_start_join ts_end_join fst].
  rewrite A1, A2, B1. cbn [ec_left ec_right].
  assert (E : point_eqb m1 m1 = true) by (apply point_eqb_eq; reflexivity). rewrite E. reflexivity.
Qed.

(* Triangle, stroke width 1, Center alignment: the scanline of edge idx of the stroke is that of the Bresenham line from
   vertex idx+1 to vertex idx+2 of the clockwise triangle *)
Lemma jt_edge_scanline_w1 ct idx y :
  pt_in_i32 (fst (fst ct)) = true -> pt_in_i32 (snd (fst ct)) = true -> pt_in_i32 (snd ct) = true ->
  jt_edge_scanline ct 1 SONone idx y =
  Some (bresenham_intersection (sl_new_empty y) (L (vtx ct (idx + 1)) (vtx ct (idx + 2)))).
Proof.
  intros H1 H2 H3.
  assert (V : forall i, pt_in_i32 (vtx ct i) = true).
  { intros i. destruct ct as [[a b] c]. unfold vtx. destruct (Nat.modulo i 3) as [|[|k]]; assumption. }
  unfold jt_edge_scanline.
  destruct (lj_from_points_w1 (vtx ct idx) (vtx ct (idx + 1)) (vtx ct (idx + 2)) (V _)) as [sj [-> Js]].
  destruct (lj_from_points_w1 (vtx ct (idx + 1)) (vtx ct (idx + 2)) (vtx ct (idx + 3)) (V _)) as [ej [-> Je]].
  rewrite (ts_intersection_w1 sj ej _ _ y Js Je). reflexivity.
Qed.
