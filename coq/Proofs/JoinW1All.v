(* C01 (b) and C02 for EVERY triangle with a stroke of width 1 - any vertices (within the stated range), any alignment, with or
   without a fill colour - assembled from the three cases:
     proper triangle (area <> 0)                      : Proofs/JoinW1Collapsed.v + JoinOutlineAny.v / JoinW1Fill.v
     no area, Center / Outside                        : JoinOutlineAny.v / JoinW1Fill.v (never collapsed)
     no area, Inside (Triangle::is_collapsed holds)   : Proofs/JoinCollapsed.v + JoinTriFill.v (fill-like rows) *)
From EG Require Import Base.Prelude Base.Lemmas Model.Geometry Model.Style Model.Line Model.Thickline Model.Join Model.JoinTri.
From EG Require Import Proofs.Geometry Proofs.Line Proofs.Thickline Proofs.Join Proofs.JoinTri Proofs.JoinW1 Proofs.JoinTriDraw Proofs.JoinHull.
From EG Require Proofs.Triangle Proofs.JoinTriFill Proofs.JoinRange.
From EG Require Import Proofs.JoinOutline Proofs.JoinOutlineAny Proofs.JoinCollapsed Proofs.JoinW1Fill Proofs.JoinW1Collapsed.
From Coq Require Import ZifyBool.
Set Default Timeout 60.

Lemma w1_case_split t al : tri_big t ->
  w1_outline_case t al \/ (al = Inside /\ jt_is_collapsed (jt_sorted_clockwise t) 1 SORight = Some true).
Proof.
  intros TB. destruct (Z.eq_dec (jt_area_doubled t) 0) as [Z0|NZ]; [|left; apply w1_outline_case_proper; assumption].
  destruct al; [right | left; exact I | left; exact I].
  split; [reflexivity|]. rewrite (jt_is_collapsed_w1_iff_degenerate SORight t TB). f_equal. lia.
Qed.

Theorem jt_pixels_draw_w1_all V t al fill : Proofs.JoinRange.range_ok V 1 -> Proofs.JoinRange.tri_within V t ->
  exists px dr, jt_pixels t 1 al fill = Some px /\ jt_draw t 1 al fill = Some dr /\ flat_map rect_writes dr = px.
Proof.
  intros R H. destruct (tri_segs_range V 1 (so_of_alignment al) t R H) as [TB [segs [TS OK]]].
  destruct (w1_case_split t al TB) as [OC | [-> CO]].
  - destruct fill as [f|]; [exact (jt_pixels_draw_w1_fill V t al f R H OC) | exact (jt_pixels_draw_w1_any V t al R H OC)].
  - pose proof (jt_rows_collapsed_inside t 1 (match fill with Some _ => true | None => false end) TB ltac:(lia) CO) as RW.
    refine (Proofs.JoinTriFill.jt_pixels_draw_fill_like t 1 Inside fill segs _ TB TS OK _ RW).
    right. exists true. split; [exact CO | reflexivity].
Qed.

Theorem tri_w1_all_in_bbox t al fill px p : tri_big t ->
  jt_pixels t 1 al fill = Some px -> In p (map fst px) ->
  jt_styled_bounding_box t 1 al = Some (jt_bounding_box t) /\ contains (jt_bounding_box t) p = true.
Proof.
  intros TB Hpx Ip. destruct (w1_case_split t al TB) as [OC | [-> CO]].
  - destruct fill as [f|]; [exact (tri_w1_fill_in_bbox t al f px p TB OC Hpx Ip) | exact (tri_outline_w1_any_in_bbox t al px p TB OC Hpx Ip)].
  - split; [reflexivity|].
    destruct (collapsed_inside_pixels t 1 fill TB ltac:(lia) CO) as (px' & E & _ & S). rewrite E in Hpx. injection Hpx as <-.
    apply S in Ip as [Hy Iq].
    destruct (Proofs.JoinTriFill.jt_scanline_intersection_hull (jt_sorted_clockwise t) (py p)) as [X Y].
    destruct (Proofs.JoinTriFill.sorted_clockwise_hull t) as [XL [XH _]]. rewrite XL, XH in X.
    destruct (sl_points_xin _ _ _ p X Iq) as [Px _].
    apply contains_spec. destruct t as [[a b] c].
    unfold jt_bounding_box, with_corners, size_from_bounding_box, Proofs.JoinTriFill.xlo, Proofs.JoinTriFill.xhi, tylo, tyhi in *.
    cbn [tl sz sw sh px py fst snd] in *. lia.
Qed.

(* ---- the same statements on the MACHINE range: vertices within +-V with V + 14 <= 8191 (range_ok V 1), where every i32
   operation of the join / is_collapsed / area arithmetic agrees with the unbounded model (C07_join_* / C08 range theorems);
   tri_big (+-2^29) is the range of the model-level statements only ------------------------------------------------------ *)
Lemma tri_within_big V t : Proofs.JoinRange.range_ok V 1 -> Proofs.JoinRange.tri_within V t -> tri_big t.
Proof. intros R [H1 [H2 H3]]. repeat split; eapply Proofs.JoinRange.within_big_V; eassumption. Qed.

Theorem tri_outline_w1_proper_range V t al : Proofs.JoinRange.range_ok V 1 -> Proofs.JoinRange.tri_within V t ->
  jt_area_doubled t <> 0 ->
  let '(a, b, c) := jt_sorted_clockwise t in
  exists px, jt_pixels t 1 al None = Some px /\
    (forall pc, In pc px -> snd pc = 1) /\
    (forall p, In p (map fst px) <-> In p (line_points (L b c)) \/ In p (line_points (L c a)) \/ In p (line_points (L a b))).
Proof. intros R H NZ. exact (tri_outline_w1_proper t al (tri_within_big V t R H) NZ). Qed.

Theorem tri_w1_all_in_bbox_range V t al fill px p : Proofs.JoinRange.range_ok V 1 -> Proofs.JoinRange.tri_within V t ->
  jt_pixels t 1 al fill = Some px -> In p (map fst px) ->
  jt_styled_bounding_box t 1 al = Some (jt_bounding_box t) /\ contains (jt_bounding_box t) p = true.
Proof. intros R H. exact (tri_w1_all_in_bbox t al fill px p (tri_within_big V t R H)). Qed.
