(* C19: Triangle::is_collapsed with stroke width 1.  The join at a vertex has all its corners in the vertex (Proofs/JoinW1.v), is never
   Degenerate (the denominator of the intersection and the distance of the third vertex from the edge are both the doubled area,
   with opposite signs), and the inner corner lies on the wrong side of the opposite edge exactly when the clockwise-sorted triangle
   has no area: with width 1, is_collapsed <-> the three vertices are colinear or coincide.  So the 1 px outline of every proper
   triangle is its three edge lines for every alignment, Inside included. *)
From EG Require Import Base.Prelude Base.Lemmas Model.Geometry Model.Style Model.Line Model.Thickline Model.Join Model.JoinTri.
From EG Require Import Proofs.Geometry Proofs.Line Proofs.Thickline Proofs.Join Proofs.JoinTri Proofs.JoinW1 Proofs.JoinTriDraw.
From EG Require Import Proofs.JoinOutline Proofs.JoinOutlineAny.
From Coq Require Import ZifyBool.
Set Default Timeout 60.

Definition cross3 (a b c : point) : Z := jt_area_doubled (a, b, c).

(* the denominator of the join at b and the distance of c from the line a -> b are both the doubled area, up to sign *)
Lemma den_is_area a b c : ip_den (ip_from_lines (L b c) (L a b)) = - cross3 a b c.
Proof.
  unfold ip_from_lines, le_from_line, determinant, rotate_90, line_delta, psub, cross3, jt_area_doubled;
  cbn [ip_den normal_vector l_start l_end px py]. ring.
Qed.

Lemma dist_is_area a b c : le_distance (le_from_line (L a b)) c = cross3 a b c.
Proof.
  unfold le_distance, le_from_line, dot_product, rotate_90, line_delta, psub, cross3, jt_area_doubled;
  cbn [normal_vector origin_distance l_start l_end px py]. ring.
Qed.

Lemma cross3_cyc a b c : cross3 b c a = cross3 a b c.
Proof. unfold cross3, jt_area_doubled. ring. Qed.
Lemma cross3_cyc2 a b c : cross3 c a b = cross3 a b c.
Proof. unfold cross3, jt_area_doubled. ring. Qed.

(* a width-1 join is never degenerate: the third point is never on the inner side of the (coincident) edge lines *)
Lemma lj_w1_not_degenerate x y z : is_degenerate (lj_from_extents y 1 (L x y) (L x y) (L y z) (L y z)) = false.
Proof.
  unfold lj_from_extents, intersections, ip_intersection. rewrite (den_is_area x y z).
  destruct (- cross3 x y z =? 0) eqn:Z0; [reflexivity|].
  destruct (- cross3 x y z <? 0) eqn:S.
  - cbn [l_end]. unfold le_check_side. rewrite (dist_is_area x y z).
    assert (F : cross3 x y z <=? 0 = false) by lia. rewrite F. change (negb false) with true. cbv iota.
    match goal with |- context [if ?u <=? ?v then _ else _] => destruct (u <=? v) end; reflexivity.
  - cbn [l_end]. unfold le_check_side. rewrite (dist_is_area x y z).
    assert (F : 0 <=? cross3 x y z = false) by lia. rewrite F. change (negb false) with true. cbv iota.
    match goal with |- context [if ?u <=? ?v then _ else _] => destruct (u <=? v) end; reflexivity.
Qed.

Lemma collapsed_one_w1 so x y z p q : pt_in_i32 y = true ->
  collapsed_one (lj_from_points x y z 1 so) p q 1 so = Some (cross3 p q y <=? 0).
Proof.
  intros Hy. destruct (lj_from_points_w1_any so x y z Hy) as [j [E [J1 _]]]. rewrite E.
  unfold lj_from_points in E. rewrite !extents_w1_any in E. injection E as <-.
  unfold collapsed_one. rewrite lj_w1_not_degenerate, extents_w1_any, J1. cbn [ec_right].
  unfold le_check_side. rewrite (dist_is_area p q y). reflexivity.
Qed.

(* Triangle::is_collapsed with stroke width 1: exactly the triangles that are not strictly clockwise *)
Lemma jt_is_collapsed_w1 so a b c : pt_in_i32 a = true -> pt_in_i32 b = true -> pt_in_i32 c = true ->
  jt_is_collapsed (a, b, c) 1 so = Some (cross3 a b c <=? 0).
Proof.
  intros Ha Hb Hc. unfold jt_is_collapsed.
  rewrite (collapsed_one_w1 so c a b b c Ha), (collapsed_one_w1 so a b c c a Hb), (collapsed_one_w1 so b c a a b Hc).
  rewrite (cross3_cyc a b c), (cross3_cyc2 a b c).
  destruct (cross3 a b c <=? 0); reflexivity.
Qed.

(* on the clockwise-sorted triangle: collapsed iff the vertices are colinear (or coincide) *)
Lemma sorted_clockwise_area t :
  0 <= jt_area_doubled (jt_sorted_clockwise t) /\ (jt_area_doubled (jt_sorted_clockwise t) = 0 <-> jt_area_doubled t = 0).
Proof.
  destruct t as [[p1 p2] p3]. unfold jt_sorted_clockwise.
  destruct (Z.compare_spec (jt_area_doubled (p1, p2, p3)) 0) as [C|C|C].
  -
    assert (Z0 : jt_area_doubled (jt_sorted_yx (p1, p2, p3)) = 0).
    { unfold jt_sorted_yx, jt_sort_two_yx.
      destruct ((py p1 <? py p2) || (py p1 =? py p2) && (px p1 <? px p2));
      match goal with |- context [if ?c then _ else _] => destruct c end;
      match goal with |- context [if ?c then _ else _] => destruct c end;
      unfold jt_area_doubled in *; cbn [fst snd] in *; lia. }
    rewrite Z0. split; [lia | tauto].
  - unfold jt_area_doubled in *. cbv beta iota in *. split; [lia | split; intros; lia].
  - split; [lia | tauto].
Qed.

Theorem jt_is_collapsed_w1_iff_degenerate so t : tri_big t ->
  jt_is_collapsed (jt_sorted_clockwise t) 1 so = Some (jt_area_doubled t =? 0).
Proof.
  intros TB. pose proof (jt_sorted_clockwise_big t TB) as CB. pose proof (sorted_clockwise_area t) as [P Q].
  destruct (jt_sorted_clockwise t) as [[a b] c]. destruct CB as [Ba [Bb Bc]]. cbn [fst snd] in Ba, Bb, Bc.
  rewrite (jt_is_collapsed_w1 so a b c (big_in_i32 _ Ba) (big_in_i32 _ Bb) (big_in_i32 _ Bc)).
  unfold cross3. f_equal. destruct (jt_area_doubled t =? 0) eqn:E; lia.
Qed.

(* hence: the 1 px outline of every PROPER triangle (non-zero area), with every alignment, is the three edge lines *)
Lemma w1_outline_case_proper t al : tri_big t -> jt_area_doubled t <> 0 -> w1_outline_case t al.
Proof.
  intros TB NZ. destruct al; cbn [w1_outline_case]; try exact I.
  rewrite (jt_is_collapsed_w1_iff_degenerate SORight t TB). f_equal. lia.
Qed.

Theorem tri_outline_w1_proper t al : tri_big t -> jt_area_doubled t <> 0 ->
  let '(a, b, c) := jt_sorted_clockwise t in
  exists px, jt_pixels t 1 al None = Some px /\
    (forall pc, In pc px -> snd pc = 1) /\
    (forall p, In p (map fst px) <-> In p (line_points (L b c)) \/ In p (line_points (L c a)) \/ In p (line_points (L a b))).
Proof. intros TB NZ. exact (tri_outline_w1_any t al TB (w1_outline_case_proper t al TB NZ)). Qed.
