(* C01 / C02: a triangle with a stroke of width 1 AND a fill colour, every alignment (Inside unless Triangle::is_collapsed - that
   case is Proofs/JoinCollapsed.v).  Every row of the styled bounding box then consists of the (at most two) stroke scanlines of
   the three edge lines (Proofs/JoinOutlineAny.v) preceded by the fill line between them, so
   - no row is empty: the un-fused scanline iterator of pixels() never stops early and pixels() = the writes of draw() (C01 b),
   - the fill line lies between two stroke scanlines of its row, so every pixel is in the box of the vertices, which is the
     styled bounding box for width 1 (C02). *)
From EG Require Import Base.Prelude Base.Lemmas Model.Geometry Model.Style Model.Line Model.Thickline Model.Join Model.JoinTri.
From EG Require Import Proofs.Geometry Proofs.Line Proofs.Thickline Proofs.Join Proofs.JoinTri Proofs.JoinW1 Proofs.JoinTriDraw Proofs.JoinHull.
From EG Require Proofs.Triangle Proofs.JoinTriFill Proofs.JoinRange.
From EG Require Import Proofs.JoinOutline Proofs.JoinOutlineAny.
From Coq Require Import ZifyBool.
Set Default Timeout 60.

Definition w1_internal (ct : tri3) (y : Z) (es : list scanline) : scanline :=
  match es with
  | [f; s] => SL y (Z.min (sl_x1 f) (sl_x1 s)) (Z.max (sl_x0 f) (sl_x0 s))
  | [] => jt_scanline_intersection ct y
  | _ => sl_new_empty y
  end.

Definition w1_strokes (ct : tri3) (y : Z) : list scanline :=
  let '(a, b, c) := ct in merge3 y (row_sl y (L b c)) (row_sl y (L c a)) (row_sl y (L a b)).

Definition w1_fill_row (ct : tri3) (y : Z) : list (scanline * point_type) :=
  (if sl_is_empty (w1_internal ct y (w1_strokes ct y)) then [] else [(w1_internal ct y (w1_strokes ct y), PFill)])
  ++ map (fun s => (s, PStroke)) (w1_strokes ct y).

Lemma jt_row_w1_fill so a b c y :
  pt_in_i32 a = true -> pt_in_i32 b = true -> pt_in_i32 c = true ->
  jt_row (a, b, c) 1 so true false y = Some (w1_fill_row (a, b, c) y).
Proof. intros Ha Hb Hc. unfold jt_row. rewrite (edge_intersections_w1_any so a b c y Ha Hb Hc). reflexivity. Qed.

Lemma jt_rows_w1_fill t al : tri_big t -> w1_outline_case t al ->
  let ct := jt_sorted_clockwise t in
  let '(y0, y1) := rows (jt_bounding_box t) in
  jt_rows t 1 al true = Some (map (w1_fill_row ct) (range y0 y1)).
Proof.
  intros TB OC. cbv zeta. pose proof (jt_sorted_clockwise_big t TB) as CB.
  unfold jt_rows. rewrite jt_styled_bounding_box_unfold. change (1 <? 2) with true. cbv beta iota.
  assert (BB : match al with Inside => Some (jt_bounding_box t) | _ => Some (jt_bounding_box t) end = Some (jt_bounding_box t))
    by (destruct al; reflexivity).
  rewrite BB. clear BB. unfold w1_outline_case in OC.
  destruct (jt_sorted_clockwise t) as [[a b] c]. destruct CB as [Ba [Bb Bc]]. cbn [fst snd] in Ba, Bb, Bc.
  pose proof (big_in_i32 _ Ba) as Ha. pose proof (big_in_i32 _ Bb) as Hb. pose proof (big_in_i32 _ Bc) as Hc.
  assert (CF : exists r, jt_is_collapsed (a, b, c) 1 (so_of_alignment al) = Some r /\
                         (0 <? 1) && r && so_eqb (so_of_alignment al) SORight = false).
  { destruct al; cbn [so_of_alignment].
    - exists false. split; [exact OC | reflexivity].
    - destruct (jt_is_collapsed_w1_some_any SONone a b c Ha Hb Hc) as [r E]. exists r. split; [exact E|].
      cbn [so_eqb]. rewrite andb_false_r. reflexivity.
    - destruct (jt_is_collapsed_w1_some_any SOLeft a b c Ha Hb Hc) as [r E]. exists r. split; [exact E|].
      cbn [so_eqb]. rewrite andb_false_r. reflexivity. }
  destruct CF as (r & -> & ->).
  destruct (rows (jt_bounding_box t)) as [y0 y1].
  rewrite (map_ext _ (fun y => Some (w1_fill_row (a, b, c) y))) by (intros y; apply jt_row_w1_fill; assumption).
  apply all_some_map_some.
Qed.

(* every row between the top and the bottom vertex has a stroke scanline *)
Lemma w1_strokes_nonempty a b c y :
  Z.min (Z.min (py a) (py b)) (py c) <= y <= Z.max (Z.max (py a) (py b)) (py c) -> w1_strokes (a, b, c) y <> [].
Proof.
  intros Iy.
  assert (R : (Z.min (py b) (py c) <= y <= Z.max (py b) (py c)) \/ (Z.min (py c) (py a) <= y <= Z.max (py c) (py a)) \/
              (Z.min (py a) (py b) <= y <= Z.max (py a) (py b))) by lia.
  assert (EX : exists p, py p = y /\ (In p (line_points (L b c)) \/ In p (line_points (L c a)) \/ In p (line_points (L a b)))).
  { destruct R as [R|[R|R]]; [destruct (line_row_nonempty_any (L b c) y R) as (p & Ip & Yp) |
                             destruct (line_row_nonempty_any (L c a) y R) as (p & Ip & Yp) |
                             destruct (line_row_nonempty_any (L a b) y R) as (p & Ip & Yp)]; exists p; tauto. }
  destruct EX as (p & Yp & U). pose proof (proj2 (outline_row_points a b c y p) (conj Yp U)) as I.
  intros E. unfold outline_row in I. unfold w1_strokes in E. rewrite E in I. exact I.
Qed.

Lemma w1_fill_rows_nonempty t al rs : tri_big t -> w1_outline_case t al ->
  jt_rows t 1 al true = Some rs -> Forall (fun r => r <> []) rs.
Proof.
  intros TB OC HR. pose proof (jt_rows_w1_fill t al TB OC) as RW. cbv zeta in RW.
  pose proof (cw_y_range t) as PB. rewrite (rows_jt_bounding_box t) in RW by apply TB.
  destruct (jt_sorted_clockwise t) as [[a b] c] eqn:CT.
  injection PB as P1 P2. rewrite P1, P2 in RW. rewrite RW in HR. injection HR as <-.
  apply Forall_forall. intros r Ir. apply in_map_iff in Ir as (y & <- & Iy). apply In_range in Iy.
  unfold w1_fill_row. intros E. apply app_eq_nil in E as [_ E]. apply map_eq_nil in E.
  apply (w1_strokes_nonempty a b c y); [lia | exact E].
Qed.

Lemma jt_fused_w1_fill t al rs : tri_big t -> w1_outline_case t al ->
  jt_rows t 1 al true = Some rs -> jt_fused rs = true.
Proof. intros TB OC HR. apply Proofs.JoinTriFill.fused_all_nonempty. exact (w1_fill_rows_nonempty t al rs TB OC HR). Qed.

(* C01 (b): pixels() = the fill_solid writes of draw() for fill + stroke of width 1, input-only *)
Lemma jt_pixels_draw_w1_fill V t al f : Proofs.JoinRange.range_ok V 1 -> Proofs.JoinRange.tri_within V t -> w1_outline_case t al ->
  exists px dr, jt_pixels t 1 al (Some f) = Some px /\ jt_draw t 1 al (Some f) = Some dr /\ flat_map rect_writes dr = px.
Proof.
  intros R H OC.
  assert (TB : tri_big t).
  { destruct H as [H1 [H2 H3]]. repeat split; eapply Proofs.JoinRange.within_big_V; eassumption. }
  pose proof (jt_rows_w1_fill t al TB OC) as RW. cbv zeta in RW.
  destruct (rows (jt_bounding_box t)) as [y0 y1].
  exact (jt_pixels_draw_range V t 1 al (Some f) _ R H RW (jt_fused_w1_fill t al _ TB OC RW)).
Qed.

(* C02: every pixel lies in the styled bounding box *)
Lemma w1_stroke_point_in_bbox t a b c y s q : jt_sorted_clockwise t = (a, b, c) ->
  In s (w1_strokes (a, b, c) y) -> In q (sl_points s) -> contains (jt_bounding_box t) q = true.
Proof.
  intros CT Is Iq. pose proof (Proofs.JoinTriFill.outline_in_bbox t q) as O. rewrite CT in O. apply O.
  apply (outline_row_points a b c y q). apply in_flat_map. exists (s, PStroke). split; [|exact Iq].
  unfold outline_row. apply (in_map (fun s => (s, PStroke))). exact Is.
Qed.

Lemma sl_points_first s : sl_is_empty s = false -> In (P (sl_x0 s) (sl_y s)) (sl_points s).
Proof. unfold sl_is_empty, sl_points. intros H. apply in_map_iff. exists (sl_x0 s). split; [reflexivity | apply In_range; lia]. Qed.

Lemma sl_points_last s : sl_is_empty s = false -> In (P (sl_x1 s - 1) (sl_y s)) (sl_points s).
Proof. unfold sl_is_empty, sl_points. intros H. apply in_map_iff. exists (sl_x1 s - 1). split; [reflexivity | apply In_range; lia]. Qed.

Lemma tri_w1_fill_in_bbox t al f px p : tri_big t -> w1_outline_case t al ->
  jt_pixels t 1 al (Some f) = Some px -> In p (map fst px) ->
  jt_styled_bounding_box t 1 al = Some (jt_bounding_box t) /\ contains (jt_bounding_box t) p = true.
Proof.
  intros TB OC Hpx Ip. split; [rewrite jt_styled_bounding_box_unfold; destruct al; reflexivity|].
  pose proof (jt_rows_w1_fill t al TB OC) as RW. cbv zeta in RW.
  pose proof (cw_y_range t) as PB. rewrite (rows_jt_bounding_box t) in RW by apply TB.
  destruct (jt_sorted_clockwise t) as [[a b] c] eqn:CT.
  injection PB as P1 P2. rewrite P1, P2 in RW.
  pose proof (w1_fill_rows_nonempty t al _ TB OC RW) as NE.
  unfold jt_pixels in Hpx. rewrite RW, (jt_pixels_sequence_nonempty _ NE) in Hpx. injection Hpx as <-.
  apply in_map_iff in Ip as ((q & col) & <- & Ipc). cbn [fst]. apply in_flat_map in Ipc as (lk & Ilk & Iq).
  apply in_concat in Ilk as (row & Ir & Il). apply in_map_iff in Ir as (y & <- & Iy). apply In_range in Iy.
  destruct (merge3_spec y _ _ _ (edges_not_apart a b c y) (row_sl_y y _) (row_sl_y y _) (row_sl_y y _)) as [_ YS].
  fold (w1_strokes (a, b, c) y) in YS.
  unfold w1_fill_row in Il. apply in_app_or in Il as [Il|Il].
  - (* the fill line *)
    destruct (sl_is_empty (w1_internal (a, b, c) y (w1_strokes (a, b, c) y))) eqn:EI; [destruct Il|].
    destruct Il as [<-|[]]. cbn [fst snd jt_color] in Iq. apply in_map_iff in Iq as (q' & E & Iq). injection E as E1 _. subst q'.
    pose proof (w1_strokes_nonempty a b c y ltac:(lia)) as SNE.
    destruct (w1_strokes (a, b, c) y) as [|s0 [|s1 [|s2 rest]]] eqn:ES; [congruence | discriminate EI | | discriminate EI].
    cbn [w1_internal] in EI, Iq.
    destruct (YS s0 ltac:(left; reflexivity)) as [Y0 N0]. destruct (YS s1 ltac:(right; left; reflexivity)) as [Y1 N1].
    assert (I0 : In s0 (w1_strokes (a, b, c) y)) by (rewrite ES; left; reflexivity).
    assert (I1 : In s1 (w1_strokes (a, b, c) y)) by (rewrite ES; right; left; reflexivity).
    pose proof (w1_stroke_point_in_bbox t a b c y s0 _ CT I0 (sl_points_first s0 N0)) as A0.
    pose proof (w1_stroke_point_in_bbox t a b c y s0 _ CT I0 (sl_points_last s0 N0)) as B0.
    pose proof (w1_stroke_point_in_bbox t a b c y s1 _ CT I1 (sl_points_first s1 N1)) as A1.
    pose proof (w1_stroke_point_in_bbox t a b c y s1 _ CT I1 (sl_points_last s1 N1)) as B1.
    apply contains_spec in A0, B0, A1, B1. cbn [px py] in A0, B0, A1, B1.
    unfold sl_points in Iq. cbn [sl_x0 sl_x1 sl_y] in Iq. apply in_map_iff in Iq as (x & <- & Ix). apply In_range in Ix.
    unfold sl_is_empty in N0, N1. apply contains_spec. cbn [px py]. rewrite Y0 in A0. lia.
  - (* a stroke scanline *)
    apply in_map_iff in Il as (s & <- & Is). cbn [fst snd jt_color] in Iq. change (0 <? 1) with true in Iq. cbv beta iota in Iq.
    apply in_map_iff in Iq as (q' & E & Iq). injection E as E1 _. subst q'.
    exact (w1_stroke_point_in_bbox t a b c y s q CT Is Iq).
Qed.
