(* C19 clause 6, the remaining case made explicit: a triangle WITHOUT area (colinear or coincident vertices) with a stroke of
   width 1 and Inside alignment paints exactly the Bresenham line between its first and last vertex in (y,x) order, in the
   stroke colour.  That is not in general the union of the three directed edge lines which Center / Outside alignment paint for
   the same vertices (Bresenham ties depend on the direction): read literally, clause 6 fails for flat Inside triangles; the
   theorem states what the code does. *)
From EG Require Import Base.Prelude Base.Lemmas Model.Geometry Model.Style Model.Line Model.Thickline Model.Join Model.JoinTri.
From EG Require Import Proofs.Geometry Proofs.Line Proofs.Thickline Proofs.Join Proofs.JoinTri Proofs.JoinW1 Proofs.JoinTriDraw Proofs.JoinHull.
From EG Require Proofs.Triangle Proofs.JoinTriFill Proofs.JoinRange.
From EG Require Import Proofs.JoinOutline Proofs.JoinOutlineAny Proofs.JoinCollapsed Proofs.JoinW1Collapsed.
From Coq Require Import ZifyBool.
Set Default Timeout 60.

Lemma sl_points_row_sl y l p : In p (sl_points (row_sl y l)) <-> py p = y /\ In p (line_points l).
Proof.
  unfold sl_points. rewrite (row_sl_y y l). split.
  - intros I. apply in_map_iff in I as (x & <- & Ix). apply In_range in Ix. cbn [px py]. split; [reflexivity|].
    apply (row_sl_exact y l x). unfold jhas. lia.
  - intros [Hy I]. apply in_map_iff. exists (px p). split; [rewrite <- Hy; destruct p; reflexivity|].
    apply In_range. assert (E : p = P (px p) y) by (rewrite <- Hy; destruct p; reflexivity). rewrite E in I.
    apply (row_sl_exact y l (px p)) in I. unfold jhas in I. lia.
Qed.

Theorem flat_inside_w1_is_line t fill : tri_big t -> jt_area_doubled t = 0 ->
  let '(p1, p2, p3) := jt_sorted_yx (jt_sorted_clockwise t) in
  exists px, jt_pixels t 1 Inside fill = Some px /\
    (forall pc, In pc px -> snd pc = 1) /\
    (forall p, In p (map fst px) <-> In p (line_points (L p1 p3))).
Proof.
  intros TB Z0.
  assert (CO : jt_is_collapsed (jt_sorted_clockwise t) 1 SORight = Some true).
  { rewrite (jt_is_collapsed_w1_iff_degenerate SORight t TB). f_equal. lia. }
  destruct (collapsed_inside_pixels t 1 fill TB ltac:(lia) CO) as (px & E & COL & S).
  pose proof (sorted_clockwise_area t) as [_ AZ]. pose proof (proj2 AZ Z0) as CZ.
  pose proof (Proofs.JoinTriFill.jt_sorted_yx_ys (jt_sorted_clockwise t)) as YS.
  destruct (Proofs.JoinTriFill.sorted_clockwise_hull t) as [_ [_ [YL YH]]].
  unfold Proofs.JoinTriFill.ylo, Proofs.JoinTriFill.yhi in YL, YH. fold (tylo t) in YL. fold (tyhi t) in YH.
  unfold jt_scanline_intersection in S. rewrite CZ in S. cbn [Z.eqb] in S.
  destruct (jt_sorted_yx (jt_sorted_clockwise t)) as [[p1 p2] p3]. destruct YS as [O [E1 E3]].
  exists px. split; [exact E|]. split; [exact COL|].
  intros p. rewrite (S p). fold (row_sl (py p) (L p1 p3)). rewrite sl_points_row_sl. split.
  - intros [_ [_ I]]. exact I.
  - intros I. split; [|split; [reflexivity | exact I]].
    apply EG.Proofs.Triangle.line_points_hull in I as [_ R]. cbn [l_start l_end] in R. lia.
Qed.

(* on the machine range (vertices within +-V, V + 14 <= 8191) *)
Theorem flat_inside_w1_is_line_range V t fill : EG.Proofs.JoinRange.range_ok V 1 -> EG.Proofs.JoinRange.tri_within V t ->
  jt_area_doubled t = 0 ->
  let '(p1, p2, p3) := jt_sorted_yx (jt_sorted_clockwise t) in
  exists px, jt_pixels t 1 Inside fill = Some px /\
    (forall pc, In pc px -> snd pc = 1) /\
    (forall p, In p (map fst px) <-> In p (line_points (L p1 p3))).
Proof.
  intros R [H1 [H2 H3]] Z0. apply flat_inside_w1_is_line; [|exact Z0].
  repeat split; eapply EG.Proofs.JoinRange.within_big_V; eassumption.
Qed.
