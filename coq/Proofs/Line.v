(* Proofs about Model/Line.v (thin lines, property C17 part a).
   Method: (1) a scalar Bresenham run over (k, m, error) in the abstract major/minor frame, with the
   invariant  error = 2*k*dmin - 2*m*dmaj  and  -dmaj < error <= dmaj  after the threshold test, which
   gives the closed form  m_k = (2*k*dmin + dmaj - 1) / (2*dmaj);  (2) the model's run is the image
   of the scalar run under  (k, m) |-> start + k*step_major + m*step_minor;  (3) the eight octants
   are instances of the frame (bparams_new_frame, end_in_frame). *)
From EG Require Import Base.Prelude Base.Lemmas Model.Geometry Model.Line Proofs.Geometry.
From Coq Require Import ZifyBool.

Ltac Zify.zify_post_hook ::= Z.to_euclidean_division_equations.
Set Default Timeout 60.

(* ---- range hypothesis ---------------------------------------------------
   Coordinates within +-2^28: then |delta| <= 2^29 and every value the error accumulator takes
   (at most 3 * delta.major in absolute value, see line_no_overflow) fits an i32.
   NOTE: +-2^29 would NOT do: error_step.minor = 2 * delta.major reaches 2^31. *)
Definition lbound : Z := 268435456. (* 2^28 *)
Definition lpoint_ok (p : point) : Prop := - lbound <= px p <= lbound /\ - lbound <= py p <= lbound.
Definition line_ok (l : line) : Prop := lpoint_ok (l_start l) /\ lpoint_ok (l_end l).

(* ---- generic list helpers ------------------------------------------------ *)
Lemma nth_error_range_from a n i :
  (i < n)%nat -> nth_error (range_from a n) i = Some (a + Z.of_nat i).
Proof.
  revert a i; induction n as [|n IH]; intros a i Hi; [lia|].
  destruct i as [|i]; cbn [range_from nth_error].
  - f_equal. lia.
  - rewrite IH by lia. f_equal. lia.
Qed.

Lemma last_opt_app1 {A} (l : list A) x : last_opt (l ++ [x]) = Some x.
Proof.
  induction l as [|a l IH]; [reflexivity|].
  cbn [app]. destruct (l ++ [x]) eqn:E.
  - destruct l; discriminate.
  - cbn [last_opt]. rewrite <- IH. reflexivity.
Qed.

Lemma range_from_snoc a n : range_from a (Datatypes.S n) = range_from a n ++ [a + Z.of_nat n].
Proof.
  revert a; induction n as [|n IH]; intros a.
  - cbn. f_equal. lia.
  - change (range_from a (Datatypes.S (Datatypes.S n))) with (a :: range_from (a+1) (Datatypes.S n)).
    rewrite IH. cbn [range_from app]. do 3 f_equal. lia.
Qed.

(* ======================================================================== *)
(* 1. scalar Bresenham in the major/minor frame                              *)
(* ======================================================================== *)
Section Scalar.
Variables dmaj dmin : Z.

(* one Bresenham::next in the frame: k = major steps done, m = minor steps done *)
Fixpoint srun (k m e : Z) (n : nat) : list (Z * Z) :=
  match n with
  | O => []
  | Datatypes.S n' =>
      let m1 := if dmaj <? e then m + 1 else m in
      let e1 := if dmaj <? e then e - 2 * dmaj else e in
      (k, m1) :: srun (k + 1) m1 (e1 + 2 * dmin) n'
  end.

(* closed form of the minor offset after k major steps: round(k*dmin/dmaj), ties towards 0 *)
Definition Mk (k : Z) : Z := (2 * k * dmin + dmaj - 1) / (2 * dmaj).

Hypothesis Hd : 0 <= dmin <= dmaj.

Lemma Mk_spec k : 0 < dmaj -> - dmaj < 2 * (k * dmin - Mk k * dmaj) <= dmaj.
Proof. intros. unfold Mk. lia. Qed.

Lemma Mk_unique k m : 0 < dmaj -> - dmaj < 2 * (k * dmin - m * dmaj) <= dmaj -> m = Mk k.
Proof.
  intros H0 H. unfold Mk.
  apply Z.div_unique with (r := 2 * (k * dmin - m * dmaj) + dmaj - 1); [left|]; lia.
Qed.

Lemma Mk_zero_len k : dmaj = 0 -> Mk k = 0.
Proof. intros. unfold Mk. subst. replace (2*0) with 0 by lia. apply Zdiv_0_r. Qed.

Lemma Mk_0 : Mk 0 = 0.
Proof.
  destruct (Z.eq_dec dmaj 0) as [E|E]; [apply Mk_zero_len; assumption|].
  symmetry. apply Mk_unique; lia.
Qed.

Lemma Mk_end : Mk dmaj = dmin.
Proof.
  destruct (Z.eq_dec dmaj 0) as [E|E]; [rewrite Mk_zero_len by assumption; lia|].
  symmetry. apply Mk_unique; lia.
Qed.

Lemma Mk_step k : 0 <= k -> Mk (k + 1) = Mk k \/ Mk (k + 1) = Mk k + 1.
Proof.
  intros Hk. destruct (Z.eq_dec dmaj 0) as [E|E]; [rewrite !Mk_zero_len by assumption; lia|].
  pose proof (Mk_spec k ltac:(lia)) as A. pose proof (Mk_spec (k+1) ltac:(lia)) as B.
  set (q := Mk k) in *. set (q' := Mk (k+1)) in *.
  assert (q' - q < 2) by nia. assert (-1 < q' - q) by nia. lia.
Qed.

Lemma Mk_range k : 0 <= k -> 0 <= Mk k <= k.
Proof.
  intros Hk. destruct (Z.eq_dec dmaj 0) as [E|E]; [rewrite Mk_zero_len by assumption; lia|].
  pose proof (Mk_spec k ltac:(lia)) as A. set (q := Mk k) in *. split; nia.
Qed.

Lemma Mk_mono j k : 0 <= j <= k -> Mk j <= Mk k.
Proof.
  intros H. replace k with (j + Z.of_nat (Z.to_nat (k - j))) by lia.
  induction (Z.to_nat (k - j)) as [|n IH]; [replace (j + Z.of_nat 0) with j by lia; lia|].
  replace (j + Z.of_nat (Datatypes.S n)) with (j + Z.of_nat n + 1) by lia.
  pose proof (Mk_step (j + Z.of_nat n) ltac:(lia)). lia.
Qed.

(* the invariant of the state BEFORE the k-th call of next *)
Definition sinv (k m e : Z) : Prop :=
  e = 2 * k * dmin - 2 * m * dmaj /\
  ((k = 0 /\ m = 0) \/ (- dmaj + 2 * dmin < e <= dmaj + 2 * dmin)).

Lemma srun_closed n : forall k m e,
  0 < dmaj -> 0 <= k -> sinv k m e ->
  srun k m e n = map (fun j => (j, Mk j)) (range_from k n).
Proof.
  induction n as [|n IH]; intros k m e H0 Hk [He Hb]; [reflexivity|].
  cbn [srun range_from map].
  assert (Hm : (if dmaj <? e then m + 1 else m) = Mk k).
  { apply Mk_unique; [assumption|]. destruct (dmaj <? e) eqn:T; lia. }
  rewrite Hm. f_equal. apply IH; [assumption | lia |].
  pose proof (Mk_spec k H0) as S. unfold sinv. rewrite <- Hm in *.
  destruct (dmaj <? e) eqn:T; split; lia.
Qed.

Lemma srun_zero_len n : forall k, dmaj = 0 ->
  srun k 0 0 n = map (fun j => (j, Mk j)) (range_from k n).
Proof.
  induction n as [|n IH]; intros k E; [reflexivity|].
  cbn [srun range_from map]. assert (T : dmaj <? 0 = false) by lia. rewrite T.
  replace (0 + 2 * dmin) with 0 by lia. rewrite Mk_zero_len by assumption.
  f_equal. apply IH. assumption.
Qed.

End Scalar.

(* ======================================================================== *)
(* 2. the model's run is the image of the scalar run                        *)
(* ======================================================================== *)
(* the point  s + k*a + m*b  (a = major step vector, b = minor step vector) *)
Definition fpt (s a b : point) (k m : Z) : point :=
  P (px s + k * px a + m * px b) (py s + k * py a + m * py b).

Lemma bresenham_run_frame dmaj dmin s a b n : forall k m e,
  bresenham_run (BP dmaj (2 * dmin) (2 * dmaj) a b) (BS (fpt s a b k m) e) n
  = map (fun km => fpt s a b (fst km) (snd km)) (srun dmaj dmin k m e n).
Proof.
  induction n as [|n IH]; intros k m e; [reflexivity|].
  cbn [bresenham_run srun map fst snd]. unfold bnext.
  cbn [error_threshold error_step_major error_step_minor pos_step_major pos_step_minor b_point b_error].
  destruct (dmaj <? e); cbn [b_point b_error]; f_equal.
  - unfold padd, fpt; cbn [px py]; f_equal; lia.
  - rewrite <- IH. f_equal. f_equal. unfold padd, fpt; cbn [px py]; f_equal; lia.
  - rewrite <- IH. f_equal. f_equal. unfold padd, fpt; cbn [px py]; f_equal; lia.
Qed.

(* ======================================================================== *)
(* 3. the octants as instances of the frame                                 *)
(* ======================================================================== *)
Definition ldelta (l : line) : point := psub (l_end l) (l_start l).
Definition ldx (l : line) : Z := px (l_end l) - px (l_start l).
Definition ldy (l : line) : Z := py (l_end l) - py (l_start l).
Definition sgn (x : Z) : Z := if 0 <=? x then 1 else -1.
(* bresenham.rs:53: the y axis is the major axis when |dy| >= |dx| (ties: y) *)
Definition y_major (l : line) : bool := Z.abs (ldx l) <=? Z.abs (ldy l).
Definition ldmaj (l : line) : Z := Z.max (Z.abs (ldx l)) (Z.abs (ldy l)).
Definition ldmin (l : line) : Z := Z.min (Z.abs (ldx l)) (Z.abs (ldy l)).
Definition lsmaj (l : line) : point := if y_major l then P 0 (sgn (ldy l)) else P (sgn (ldx l)) 0.
Definition lsmin (l : line) : point := if y_major l then P (sgn (ldx l)) 0 else P 0 (sgn (ldy l)).

Ltac unfl := unfold ldmaj, ldmin, lsmaj, lsmin, y_major, sgn, ldx, ldy, ldelta, psub, padd, fpt in *;
  cbn [l_start l_end px py] in *.

Lemma ldm_ok l : 0 <= ldmin l <= ldmaj l.
Proof. unfl. lia. Qed.

Lemma bparams_new_frame l :
  bparams_new l = BP (ldmaj l) (2 * ldmin l) (2 * ldmaj l) (lsmaj l) (lsmin l).
Proof.
  unfold bparams_new. unfl.
  destruct (Z.abs (px (l_end l) - px (l_start l)) <=? Z.abs (py (l_end l) - py (l_start l))) eqn:T;
    f_equal; lia.
Qed.

Lemma major_length_frame l : major_length l = ldmaj l + 1.
Proof. unfold major_length. unfl. reflexivity. Qed.

Lemma fpt_0 s a b : fpt s a b 0 0 = s.
Proof. destruct s as [x y]. unfold fpt; cbn [px py]. f_equal; lia. Qed.

Lemma end_in_frame l : l_end l = fpt (l_start l) (lsmaj l) (lsmin l) (ldmaj l) (ldmin l).
Proof.
  destruct l as [[sx sy] [ex ey]]. unfl.
  destruct (Z.abs (ex - sx) <=? Z.abs (ey - sy)) eqn:T;
  destruct (0 <=? ex - sx) eqn:X; destruct (0 <=? ey - sy) eqn:Y; cbn [px py]; f_equal; lia.
Qed.

(* the k-th point of the line, in closed form *)
Definition line_pt (l : line) (k : Z) : point :=
  fpt (l_start l) (lsmaj l) (lsmin l) k (Mk (ldmaj l) (ldmin l) k).

Lemma line_points_closed l :
  line_points l = map (line_pt l) (range 0 (ldmaj l + 1)).
Proof.
  unfold line_points. rewrite bparams_new_frame, major_length_frame.
  rewrite <- (fpt_0 (l_start l) (lsmaj l) (lsmin l)) at 1.
  rewrite bresenham_run_frame. pose proof (ldm_ok l) as Hd.
  unfold range. replace (ldmaj l + 1 - 0) with (ldmaj l + 1) by lia.
  destruct (Z.eq_dec (ldmaj l) 0) as [E|E].
  - rewrite srun_zero_len by assumption. rewrite map_map. reflexivity.
  - rewrite srun_closed; [| assumption | lia | lia | unfold sinv; lia].
    rewrite map_map. reflexivity.
Qed.

Lemma length_line_points l : Z.of_nat (length (line_points l)) = ldmaj l + 1.
Proof.
  rewrite line_points_closed, map_length, length_range. pose proof (ldm_ok l). lia.
Qed.

Lemma nth_line_points l i p :
  nth_error (line_points l) i = Some p -> Z.of_nat i <= ldmaj l /\ p = line_pt l (Z.of_nat i).
Proof.
  intros H. assert (L : (i < length (line_points l))%nat) by (apply nth_error_Some; congruence).
  pose proof (length_line_points l). split; [lia|].
  rewrite line_points_closed in H. unfold range in H.
  rewrite nth_error_map, nth_error_range_from in H by lia.
  cbn [option_map] in H. injection H as <-. f_equal.
Qed.

(* ---- C17 statements, thin lines ------------------------------------------ *)
Lemma line_first l : hd_error (line_points l) = Some (l_start l).
Proof.
  rewrite line_points_closed. pose proof (ldm_ok l) as Hd.
  rewrite range_cons by lia. cbn [map hd_error]. unfold line_pt.
  rewrite Mk_0 by assumption. rewrite fpt_0. reflexivity.
Qed.

Lemma line_last l : last_opt (line_points l) = Some (l_end l).
Proof.
  rewrite line_points_closed. pose proof (ldm_ok l) as Hd.
  unfold range. replace (Z.to_nat (ldmaj l + 1 - 0)) with (Datatypes.S (Z.to_nat (ldmaj l))) by lia.
  rewrite range_from_snoc, map_app. cbn [map]. rewrite last_opt_app1. f_equal.
  unfold line_pt. replace (0 + Z.of_nat (Z.to_nat (ldmaj l))) with (ldmaj l) by lia.
  rewrite Mk_end by assumption. symmetry. apply end_in_frame.
Qed.

Lemma line_length l :
  Z.of_nat (length (line_points l)) = Z.max (Z.abs (ldx l)) (Z.abs (ldy l)) + 1.
Proof. apply length_line_points. Qed.

(* consecutive points: exactly one step along the major axis (in the direction of the end point),
   none or one along the minor axis (in the direction of the end point) *)
Definition step_ok (l : line) (p q : point) : Prop :=
  if y_major l
  then py q = py p + sgn (ldy l) /\ (px q = px p \/ px q = px p + sgn (ldx l))
  else px q = px p + sgn (ldx l) /\ (py q = py p \/ py q = py p + sgn (ldy l)).

Lemma line_step l i p q :
  nth_error (line_points l) i = Some p -> nth_error (line_points l) (Datatypes.S i) = Some q ->
  step_ok l p q.
Proof.
  intros Hp Hq. apply nth_line_points in Hp, Hq. destruct Hp as [_ ->], Hq as [_ ->].
  pose proof (ldm_ok l) as Hd.
  replace (Z.of_nat (Datatypes.S i)) with (Z.of_nat i + 1) by lia.
  pose proof (Mk_step _ _ Hd (Z.of_nat i) ltac:(lia)) as M.
  unfold step_ok, line_pt. set (m := Mk _ _ (Z.of_nat i)) in *. set (m' := Mk _ _ (Z.of_nat i + 1)) in *.
  clearbody m m'. unfold fpt, lsmaj, lsmin. destruct (y_major l); cbn [px py]; lia.
Qed.

(* the k-th point: k along the major axis, and the minor offset within half a pixel of k*dmin/dmaj *)
Definition half_pixel_ok (l : line) (k : Z) (p : point) : Prop :=
  let ox := px p - px (l_start l) in
  let oy := py p - py (l_start l) in
  if y_major l
  then oy = k * sgn (ldy l) /\ ox = Z.abs ox * sgn (ldx l) /\
       2 * Z.abs (Z.abs ox * Z.abs (ldy l) - k * Z.abs (ldx l)) <= Z.abs (ldy l)
  else ox = k * sgn (ldx l) /\ oy = Z.abs oy * sgn (ldy l) /\
       2 * Z.abs (Z.abs oy * Z.abs (ldx l) - k * Z.abs (ldy l)) <= Z.abs (ldx l).

Lemma Mk_half dmaj dmin k : 0 <= dmin <= dmaj -> 0 <= k ->
  2 * Z.abs (Mk dmaj dmin k * dmaj - k * dmin) <= dmaj.
Proof.
  intros Hd Hk. destruct (Z.eq_dec dmaj 0) as [E|E].
  - rewrite Mk_zero_len by assumption. assert (dmin = 0) by lia. subst. lia.
  - pose proof (Mk_spec dmaj dmin k ltac:(lia)). lia.
Qed.

Lemma line_half_pixel l i p :
  nth_error (line_points l) i = Some p -> half_pixel_ok l (Z.of_nat i) p.
Proof.
  intros Hp. apply nth_line_points in Hp. destruct Hp as [_ ->].
  pose proof (ldm_ok l) as Hd.
  pose proof (Mk_half _ _ (Z.of_nat i) Hd ltac:(lia)) as M.
  pose proof (Mk_range _ _ Hd (Z.of_nat i) ltac:(lia)) as R.
  unfold half_pixel_ok, line_pt. set (m := Mk _ _ _) in *. clearbody m.
  set (k := Z.of_nat i) in *. assert (0 <= k) by lia. clearbody k.
  unfold fpt, lsmaj, lsmin, ldmaj, ldmin in *.
  destruct (y_major l) eqn:Y; unfold y_major in Y; cbn [px py].
  - rewrite Z.max_r, Z.min_l in * by lia.
    replace (px (l_start l) + k * 0 + m * sgn (ldx l) - px (l_start l)) with (m * sgn (ldx l)) by lia.
    replace (py (l_start l) + k * sgn (ldy l) + m * 0 - py (l_start l)) with (k * sgn (ldy l)) by lia.
    assert (A : Z.abs (m * sgn (ldx l)) = m) by (unfold sgn; destruct (0 <=? ldx l); lia).
    rewrite A. repeat split; lia.
  - rewrite Z.max_l, Z.min_r in * by lia.
    replace (px (l_start l) + k * sgn (ldx l) + m * 0 - px (l_start l)) with (k * sgn (ldx l)) by lia.
    replace (py (l_start l) + k * 0 + m * sgn (ldy l) - py (l_start l)) with (m * sgn (ldy l)) by lia.
    assert (A : Z.abs (m * sgn (ldy l)) = m) by (unfold sgn; destruct (0 <=? ldy l); lia).
    rewrite A. repeat split; lia.
Qed.

(* ---- frame-free forms: cross and dot product with the direction vector --- *)
Definition cross_to (l : line) (p : point) : Z :=
  (px p - px (l_start l)) * ldy l - (py p - py (l_start l)) * ldx l.
Definition dot_to (l : line) (p : point) : Z :=
  (px p - px (l_start l)) * ldx l + (py p - py (l_start l)) * ldy l.

(* in every octant  cross = +-(m*dmaj - k*dmin)  and  dot = k*dmaj + m*dmin *)
Lemma frame_cross_dot l k m :
  let p := fpt (l_start l) (lsmaj l) (lsmin l) k m in
  Z.abs (cross_to l p) = Z.abs (m * ldmaj l - k * ldmin l) /\
  dot_to l p = k * ldmaj l + m * ldmin l.
Proof.
  destruct l as [[sx sy] [ex ey]]. unfold cross_to, dot_to. unfl.
  set (dx := ex - sx). set (dy := ey - sy).
  destruct (Z.abs dx <=? Z.abs dy) eqn:T; destruct (0 <=? dx) eqn:X; destruct (0 <=? dy) eqn:Y; cbn [px py].
  all: try (rewrite Z.max_r, Z.min_l by lia); try (rewrite Z.max_l, Z.min_r by lia).
  all: try (rewrite (Z.abs_eq dx) by lia); try (rewrite (Z.abs_neq dx) by lia).
  all: try (rewrite (Z.abs_eq dy) by lia); try (rewrite (Z.abs_neq dy) by lia).
  all: split; [|ring].
  all: match goal with |- Z.abs ?a = Z.abs ?b =>
         (replace a with b by ring; reflexivity) || (replace a with (- b) by ring; apply Z.abs_opp) end.
Qed.

(* distance to the ideal line, measured along the minor axis, is |cross| / dmaj <= 1/2 *)
Lemma line_cross_half l i p :
  nth_error (line_points l) i = Some p ->
  2 * Z.abs (cross_to l p) <= Z.max (Z.abs (ldx l)) (Z.abs (ldy l)).
Proof.
  intros Hp. apply nth_line_points in Hp. destruct Hp as [_ ->].
  pose proof (ldm_ok l) as Hd. unfold line_pt.
  destruct (frame_cross_dot l (Z.of_nat i) (Mk (ldmaj l) (ldmin l) (Z.of_nat i))) as [-> _].
  apply (Mk_half _ _ (Z.of_nat i) Hd). lia.
Qed.

(* Euclidean distance to the ideal line: dist^2 = cross^2 / (dx^2 + dy^2) <= 1/4 *)
Lemma line_euclid_half l i p :
  nth_error (line_points l) i = Some p ->
  4 * (cross_to l p * cross_to l p) <= ldx l * ldx l + ldy l * ldy l.
Proof.
  intros Hp. pose proof (line_cross_half l i p Hp) as H.
  set (c := cross_to l p) in *. clearbody c.
  set (dx := ldx l) in *. set (dy := ldy l) in *. clearbody dx dy.
  assert (A : 4 * (c * c) <= Z.max (Z.abs dx) (Z.abs dy) * Z.max (Z.abs dx) (Z.abs dy)) by nia.
  assert (B : Z.max (Z.abs dx) (Z.abs dy) * Z.max (Z.abs dx) (Z.abs dy) <= dx * dx + dy * dy) by nia.
  lia.
Qed.

(* the foot of the perpendicular lies on the segment: 0 <= (p - start).(end - start) <= |end - start|^2 *)
Lemma line_within_ends l i p :
  nth_error (line_points l) i = Some p ->
  0 <= dot_to l p <= ldx l * ldx l + ldy l * ldy l.
Proof.
  intros Hp. apply nth_line_points in Hp. destruct Hp as [Hi ->].
  pose proof (ldm_ok l) as Hd. unfold line_pt.
  destruct (frame_cross_dot l (Z.of_nat i) (Mk (ldmaj l) (ldmin l) (Z.of_nat i))) as [_ ->].
  pose proof (Mk_range _ _ Hd (Z.of_nat i) ltac:(lia)) as R.
  pose proof (Mk_mono _ _ Hd (Z.of_nat i) (ldmaj l) ltac:(lia)) as M. rewrite Mk_end in M by assumption.
  set (m := Mk _ _ _) in *. clearbody m. set (k := Z.of_nat i) in *. assert (0 <= k) by lia. clearbody k.
  assert (E : ldx l * ldx l + ldy l * ldy l = ldmaj l * ldmaj l + ldmin l * ldmin l) by (unfl; nia).
  rewrite E. set (a := ldmaj l) in *. set (b := ldmin l) in *. clearbody a b. split; nia.
Qed.

(* each coordinate is monotone, in the direction of the end point *)
Lemma line_monotone l i j p q :
  (i <= j)%nat -> nth_error (line_points l) i = Some p -> nth_error (line_points l) j = Some q ->
  0 <= sgn (ldx l) * (px q - px p) /\ 0 <= sgn (ldy l) * (py q - py p).
Proof.
  intros Hij Hp Hq. apply nth_line_points in Hp, Hq. destruct Hp as [_ ->], Hq as [_ ->].
  pose proof (ldm_ok l) as Hd.
  pose proof (Mk_mono _ _ Hd (Z.of_nat i) (Z.of_nat j) ltac:(lia)) as M.
  unfold line_pt. set (m := Mk _ _ (Z.of_nat i)) in *. set (m' := Mk _ _ (Z.of_nat j)) in *.
  clearbody m m'. assert (K : Z.of_nat i <= Z.of_nat j) by lia.
  set (k := Z.of_nat i) in *. set (k' := Z.of_nat j) in *. clearbody k k'.
  unfold fpt, lsmaj, lsmin, sgn.
  destruct (y_major l); destruct (0 <=? ldx l); destruct (0 <=? ldy l); cbn [px py]; lia.
Qed.

(* ---- translation equivariance --------------------------------------------- *)
Lemma bresenham_run_translate p d n : forall q e,
  bresenham_run p (BS (padd q d) e) n = map (fun r => padd r d) (bresenham_run p (BS q e) n).
Proof.
  induction n as [|n IH]; intros q e; [reflexivity|].
  cbn [bresenham_run]. unfold bnext. cbn [b_point b_error].
  assert (C : forall a b, padd (padd a d) b = padd (padd a b) d)
    by (intros; unfold padd; cbn [px py]; f_equal; lia).
  destruct (error_threshold p <? e); cbn [b_point b_error map]; rewrite ?C, IH; reflexivity.
Qed.

Lemma line_points_translate l d :
  line_points (translate_line l d) = map (fun p => padd p d) (line_points l).
Proof.
  unfold line_points.
  assert (D : psub (l_end (translate_line l d)) (l_start (translate_line l d)) = psub (l_end l) (l_start l))
    by (unfold translate_line, psub, padd; cbn [l_start l_end px py]; f_equal; lia).
  assert (B : bparams_new (translate_line l d) = bparams_new l) by (unfold bparams_new; rewrite D; reflexivity).
  assert (M : major_length (translate_line l d) = major_length l) by (unfold major_length; rewrite D; reflexivity).
  rewrite B, M. cbn [translate_line l_start]. apply bresenham_run_translate.
Qed.

(* ---- Line::with_delta / Line::delta ------------------------------------------ *)
Lemma with_delta_delta l : with_delta (l_start l) (line_delta l) = l.
Proof.
  destruct l as [[sx sy] [ex ey]]. unfold with_delta, line_delta, psub. cbn [l_start l_end px py].
  f_equal. f_equal; lia.
Qed.

Lemma delta_with_delta s d : line_delta (with_delta s d) = d /\ l_start (with_delta s d) = s.
Proof.
  destruct s as [sx sy]. destruct d as [dx dy]. unfold with_delta, line_delta, psub. cbn [l_start l_end px py].
  split; [f_equal; lia | reflexivity].
Qed.

(* ---- no i32 overflow within line_ok ---------------------------------------- *)
(* the states before each call of next, and after the last *)
Fixpoint bstates (p : bparams) (s : bstate) (n : nat) : list bstate :=
  match n with
  | O => [s]
  | Datatypes.S k => s :: bstates p (snd (bnext p s)) k
  end.
(* the value of `error` between the threshold test and the major step of Bresenham::next *)
Definition err_after_test (p : bparams) (s : bstate) : Z :=
  if error_threshold p <? b_error s then b_error s - error_step_minor p else b_error s.

Lemma bnext_error p s : b_error (snd (bnext p s)) = err_after_test p s + error_step_major p.
Proof. unfold bnext, err_after_test. destruct (error_threshold p <? b_error s); reflexivity. Qed.

Lemma bstates_error_bound dmaj dmin a b n : forall s st,
  0 <= dmin <= dmaj -> - dmaj <= b_error s <= dmaj + 2 * dmin ->
  In st (bstates (BP dmaj (2 * dmin) (2 * dmaj) a b) s n) ->
  - dmaj <= b_error st <= 3 * dmaj /\
  - dmaj <= err_after_test (BP dmaj (2 * dmin) (2 * dmaj) a b) st <= dmaj.
Proof.
  induction n as [|n IH]; intros s st Hd Hs; cbn [bstates In].
  - intros [<-|[]]. unfold err_after_test. cbn [error_threshold error_step_minor].
    destruct (dmaj <? b_error s) eqn:T; lia.
  - intros [<-|H].
    + unfold err_after_test. cbn [error_threshold error_step_minor]. destruct (dmaj <? b_error s) eqn:T; lia.
    + apply IH in H; [assumption | assumption |]. rewrite bnext_error.
      unfold err_after_test. cbn [error_threshold error_step_minor error_step_major].
      destruct (dmaj <? b_error s) eqn:T; lia.
Qed.

Definition i32 (x : Z) : Prop := -2147483648 <= x <= 2147483647.

(* every intermediate value of Points::new / Bresenham::next fits an i32 *)
Lemma line_no_overflow l st :
  line_ok l ->
  In st (bstates (bparams_new l) (BS (l_start l) 0) (Z.to_nat (major_length l))) ->
  let p := bparams_new l in
  i32 (ldx l) /\ i32 (ldy l) /\ i32 (error_threshold p) /\ i32 (error_step_major p) /\ i32 (error_step_minor p) /\
  0 <= major_length l <= 4294967295 /\
  i32 (b_error st) /\ i32 (err_after_test p st).
Proof.
  intros [[A1 A2] [A3 A4]] H. cbv zeta. rewrite bparams_new_frame in *.
  pose proof (ldm_ok l) as Hd.
  apply bstates_error_bound in H; [| assumption | cbn [b_error]; lia].
  rewrite major_length_frame. cbn [error_threshold error_step_major error_step_minor].
  assert (ldmaj l <= 2 * lbound) by (unfl; unfold lbound, lpoint_ok in *; lia).
  unfold i32, lbound, lpoint_ok, ldx, ldy in *. lia.
Qed.
