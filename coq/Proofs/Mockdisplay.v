(* Lemmas about Model/Mockdisplay.v (property C20).

   Part 0: specification vocabulary (definitions that the statements of Properties/C20.v use; none of them
           mentions the pixel array or its index arithmetic).
   Part 1: the array, get_pixel / set_pixel / draw_pixel.
   Part 2: histories: get_pixel after any history; panics exactly at the first offending pixel.
   Part 3: affected_area.   Part 4: eq, diff, swap_xy.   Part 5: ColorMapping tables, from_pattern, Debug. *)
From EG Require Import Base.Prelude Base.Lemmas Model.Geometry Proofs.Geometry Gen.MockConsts Model.Mockdisplay.
From Coq Require Import FMapPositive ZifyBool.

Ltac Zify.zify_post_hook ::= Z.to_euclidean_division_equations.
Set Default Timeout 60.

(* ===== Part 0: specification vocabulary ============================================================== *)

(* the 64 x 64 cells *)
Definition in_display (p : point) : Prop := 0 <= px p < SIZE /\ 0 <= py p < SIZE.
Definition in_displayb (p : point) : bool := (0 <=? px p) && (px p <? SIZE) && (0 <=? py p) && (py p <? SIZE).

(* the pixel writes an operation requests, in order (trait defaults of DrawTarget unfolded: row-major points of
   the area paired with the colours) *)
Definition requested (o : op) : list (point * Z) :=
  match o with
  | OpDrawPixel p c => [(p, c)]
  | OpDrawIter l => l
  | OpFillSolid r c => map (fun p => (p, c)) (points r)
  | OpFillContiguous r cs => zip (points r) cs
  | OpClear c => map (fun p => (p, c)) (points (R (P 0 0) (S SIZE SIZE)))
  | OpSetPixel _ _ | OpSetPixels _ _ | OpSetAllowOverdraw _ | OpSetAllowOob _ => []
  end.

(* what an operation does to single cells: (point, new content); set_pixel may also erase *)
Definition events (o : op) : list (point * option Z) :=
  match o with
  | OpSetPixel p v => [(p, v)]
  | OpSetPixels l v => map (fun p => (p, v)) l
  | _ => map (fun pc : point * Z => (fst pc, Some (snd pc))) (requested o)
  end.

(* the content given to p by the LAST event at p; None = no event at p *)
Fixpoint last_event (p : point) (evs : list (point * option Z)) : option (option Z) :=
  match evs with
  | [] => None
  | (q, v) :: t =>
      match last_event p t with
      | Some r => Some r
      | None => if point_eqb p q then Some v else None
      end
  end.

(* colour last drawn to p by a list of pixel writes *)
Fixpoint last_write (p : point) (ws : list (point * Z)) : option Z :=
  match ws with
  | [] => None
  | (q, c) :: t =>
      match last_write p t with
      | Some r => Some r
      | None => if point_eqb p q then Some c else None
      end
  end.

Definition is_draw (o : op) : bool :=
  match o with OpSetPixel _ _ | OpSetPixels _ _ | OpSetAllowOverdraw _ | OpSetAllowOob _ => false | _ => true end.

(* the panic rule of the property, as a scan over the requested writes: `seen` = cells drawn so far.
   A write outside the display offends iff out-of-bounds drawing is not allowed (otherwise it is skipped);
   a write to a cell already seen offends iff overdraw is not allowed. *)
Fixpoint scan (ao ab : bool) (seen : list point) (ws : list (point * Z)) : result (list point) :=
  match ws with
  | [] => Ok seen
  | (p, _) :: t =>
      if negb (in_displayb p) then (if ab then scan ao ab seen t else Panic POutOfBounds)
      else if negb ao && existsb (point_eqb p) seen then Panic POverdraw
      else scan ao ab (p :: seen) t
  end.

(* a cell is touched when get_pixel finds a colour there *)
Definition touched (d : display) (p : point) : Prop := exists v, get_pixel d p = Ok (Some v).

(* ===== Part 1: the array ============================================================================= *)

Definition idx (p : point) : Z := px p + py p * SIZE.
(* get_pixel as a total function *)
Definition gp (d : display) (p : point) : option Z := if in_displayb p then cell (cells d) (idx p) else None.

Lemma in_displayb_spec p : in_displayb p = true <-> in_display p.
Proof. unfold in_displayb, in_display. lia. Qed.

Lemma in_displayb_false p : in_displayb p = false <-> ~ in_display p.
Proof. rewrite <- in_displayb_spec. destruct (in_displayb p); intuition congruence. Qed.

Lemma point_eqb_spec a b : point_eqb a b = true <-> a = b.
Proof.
  destruct a as [ax ay], b as [bx b_y]. unfold point_eqb; cbn [px py]. split.
  - intros H. f_equal; lia.
  - intros H. inversion H. lia.
Qed.

Lemma point_eqb_refl a : point_eqb a a = true.
Proof. apply point_eqb_spec. reflexivity. Qed.

Lemma point_eqb_neq a b : a <> b -> point_eqb a b = false.
Proof. intros H. destruct (point_eqb a b) eqn:E; [apply point_eqb_spec in E; contradiction|reflexivity]. Qed.

Lemma contains_display p : contains DISPLAY_AREA p = in_displayb p.
Proof.
  apply eq_true_iff_eq. rewrite contains_spec, in_displayb_spec.
  unfold DISPLAY_AREA, in_display. cbn [tl sz px py sw sh]. lia.
Qed.

Lemma SIZE_pos : 0 < SIZE.
Proof. reflexivity. Qed.

Lemma idx_in_array p : in_display p -> in_array (idx p) = true.
Proof.
  unfold in_display, in_array, idx, NCELLS. pose proof SIZE_pos. intros [Hx Hy].
  apply andb_true_iff; split; [apply Z.leb_le|apply Z.ltb_lt]; nia.
Qed.

Lemma idx_nonneg p : in_display p -> 0 <= idx p.
Proof. unfold in_display, idx. pose proof SIZE_pos. intros [Hx Hy]. nia. Qed.

Lemma idx_inj p q : in_display p -> in_display q -> idx p = idx q -> p = q.
Proof.
  destruct p as [x y], q as [u v]. unfold in_display, idx; cbn [px py]. pose proof SIZE_pos.
  intros [Hx Hy] [Hu Hv] E.
  assert (y = v) by nia. subst v. assert (x = u) by lia. subst. reflexivity.
Qed.

Lemma key_inj i j : 0 <= i -> 0 <= j -> key i = key j -> i = j.
Proof. unfold key. intros Hi Hj E. apply (f_equal Z.pos) in E. rewrite !Z2Pos.id in E by lia. lia. Qed.

Lemma cell_put_same c i v : cell (cell_put c i v) i = v.
Proof.
  unfold cell, cell_put. destruct v.
  - apply PositiveMap.gss.
  - apply PositiveMap.grs.
Qed.

Lemma cell_put_other c i j v : 0 <= i -> 0 <= j -> i <> j -> cell (cell_put c i v) j = cell c j.
Proof.
  intros Hi Hj Hn. unfold cell, cell_put.
  assert (key i <> key j) by (intros E; apply key_inj in E; lia).
  destruct v.
  - apply PositiveMap.gso. congruence.
  - apply PositiveMap.gro. congruence.
Qed.

Lemma cell_empty i : cell (PositiveMap.empty Z) i = None.
Proof. unfold cell. apply PositiveMap.gempty. Qed.

(* get_pixel never panics; outside the display it answers None *)
Lemma get_pixel_gp d p : get_pixel d p = Ok (gp d p).
Proof.
  unfold get_pixel, gp. destruct (in_displayb p) eqn:E.
  - apply in_displayb_spec in E. pose proof (idx_in_array p E) as Hi. destruct E as [Hx Hy].
    replace ((px p <? 0) || (py p <? 0) || (px p >=? SIZE) || (py p >=? SIZE)) with false by lia.
    unfold arr_get. fold (idx p). rewrite Hi. reflexivity.
  - replace ((px p <? 0) || (py p <? 0) || (px p >=? SIZE) || (py p >=? SIZE)) with true; [reflexivity|].
    unfold in_displayb in E. lia.
Qed.

Lemma gp_outside d p : ~ in_display p -> gp d p = None.
Proof. intros H. unfold gp. apply in_displayb_false in H. rewrite H. reflexivity. Qed.

Lemma gp_new p : gp new_display p = None.
Proof. unfold gp, new_display; cbn [cells]. rewrite cell_empty. destruct (in_displayb p); reflexivity. Qed.

Definition put (d : display) (p : point) (v : option Z) : display :=
  D (cell_put (cells d) (idx p) v) (allow_overdraw d) (allow_oob d).

Lemma set_pixel_unchecked_ok d p v : in_display p -> set_pixel_unchecked d p v = Ok (put d p v).
Proof.
  intros H. unfold set_pixel_unchecked, arr_set. fold (idx p). rewrite (idx_in_array p H). reflexivity.
Qed.

Lemma gp_put d p v q : in_display p -> gp (put d p v) q = if point_eqb q p then v else gp d q.
Proof.
  intros Hp. unfold gp, put; cbn [cells].
  destruct (point_eqb q p) eqn:E.
  - apply point_eqb_spec in E. subst q. apply in_displayb_spec in Hp. rewrite Hp. apply cell_put_same.
  - destruct (in_displayb q) eqn:Hq; [|reflexivity]. apply in_displayb_spec in Hq.
    apply cell_put_other; try (apply idx_nonneg; assumption).
    intros Ei. apply idx_inj in Ei; try assumption. subst. rewrite point_eqb_refl in E. discriminate.
Qed.

Lemma flags_put d p v : allow_overdraw (put d p v) = allow_overdraw d /\ allow_oob (put d p v) = allow_oob d.
Proof. split; reflexivity. Qed.

Lemma set_pixel_spec d p v :
  set_pixel d p v = if in_displayb p then Ok (put d p v) else Panic PSetPixel.
Proof.
  unfold set_pixel. destruct (in_displayb p) eqn:E.
  - apply in_displayb_spec in E. rewrite set_pixel_unchecked_ok by assumption.
    destruct E as [Hx Hy]. replace ((px p >=? 0) && (py p >=? 0) && (px p <? SIZE) && (py p <? SIZE)) with true by lia.
    reflexivity.
  - replace ((px p >=? 0) && (py p >=? 0) && (px p <? SIZE) && (py p <? SIZE)) with false; [reflexivity|].
    unfold in_displayb in E. lia.
Qed.

(* draw_pixel without the array: the three outcomes *)
Lemma draw_pixel_spec d p c :
  draw_pixel d p c =
    if in_displayb p then
      if negb (allow_overdraw d) && is_some (gp d p) then Panic POverdraw else Ok (put d p (Some c))
    else if allow_oob d then Ok d else Panic POutOfBounds.
Proof.
  unfold draw_pixel. rewrite contains_display, get_pixel_gp. cbn [bind].
  destruct (in_displayb p) eqn:E; cbn [negb].
  - apply in_displayb_spec in E. rewrite set_pixel_unchecked_ok by assumption. reflexivity.
  - destruct (allow_oob d); reflexivity.
Qed.

Theorem draw_pixel_panic_iff d p c k :
  draw_pixel d p c = Panic k <->
  (~ in_display p /\ allow_oob d = false /\ k = POutOfBounds) \/
  (in_display p /\ allow_overdraw d = false /\ touched d p /\ k = POverdraw).
Proof.
  rewrite draw_pixel_spec. unfold touched. rewrite get_pixel_gp.
  destruct (in_displayb p) eqn:E.
  - pose proof (proj1 (in_displayb_spec p) E) as Hin.
    destruct (allow_overdraw d); cbn [negb andb].
    + split; [discriminate|]. intros [[H _]|[_ [H _]]]; [contradiction|discriminate].
    + destruct (gp d p) as [v|]; cbn [is_some].
      * split.
        -- intros H. inversion H. right. split; [assumption|]. split; [reflexivity|]. split; [exists v; reflexivity|reflexivity].
        -- intros [[H _]|[_ [_ [_ H]]]]; [contradiction|subst; reflexivity].
      * split; [discriminate|]. intros [[H _]|[_ [_ [[v H] _]]]]; [contradiction|discriminate].
  - pose proof (proj1 (in_displayb_false p) E) as Hout.
    destruct (allow_oob d).
    + split; [discriminate|]. intros [[_ [H _]]|[H _]]; [discriminate|contradiction].
    + split.
      * intros H. inversion H. left. auto.
      * intros [[_ [_ H]]|[H _]]; [subst; reflexivity|contradiction].
Qed.

(* a successful draw_pixel stores the colour (inside) or does nothing (outside, allowed); flags never change *)
Lemma draw_pixel_ok d p c d' :
  draw_pixel d p c = Ok d' ->
  allow_overdraw d' = allow_overdraw d /\ allow_oob d' = allow_oob d /\
  forall q, gp d' q = if in_displayb p && point_eqb q p then Some c else gp d q.
Proof.
  rewrite draw_pixel_spec. destruct (in_displayb p) eqn:E.
  - destruct (negb (allow_overdraw d) && is_some (gp d p)); [discriminate|].
    intros H; inversion H; subst d'. split; [reflexivity|]. split; [reflexivity|]. intros q. cbn [andb].
    apply gp_put. apply in_displayb_spec, E.
  - destruct (allow_oob d) eqn:Eb; [|discriminate]. intros H; inversion H; subst.
    split; [reflexivity|]. split; [congruence|]. intros q. reflexivity.
Qed.

Lemma set_pixels_spec l : forall d v,
  set_pixels d l v =
    if forallb in_displayb l then Ok (fold_left (fun acc p => put acc p v) l d) else Panic PSetPixel.
Proof.
  induction l as [|p t IH]; intros d v; cbn [set_pixels forallb fold_left]; [reflexivity|].
  rewrite set_pixel_spec. destruct (in_displayb p); cbn [bind andb]; [apply IH|reflexivity].
Qed.

Lemma gp_fold_put l : forall d v q,
  Forall in_display l ->
  gp (fold_left (fun acc p => put acc p v) l d) q = if existsb (point_eqb q) l then v else gp d q.
Proof.
  induction l as [|p t IH]; intros d v q Hl; cbn [fold_left existsb]; [reflexivity|].
  inversion Hl as [|? ? Hp Ht]; subst. rewrite IH by assumption. rewrite gp_put by assumption.
  destruct (existsb (point_eqb q) t); [rewrite orb_true_r; reflexivity|]. rewrite orb_false_r. reflexivity.
Qed.


Lemma flags_fold_put l : forall d v,
  allow_overdraw (fold_left (fun acc p => put acc p v) l d) = allow_overdraw d /\
  allow_oob (fold_left (fun acc p => put acc p v) l d) = allow_oob d.
Proof. induction l as [|p t IH]; intros d v; cbn [fold_left]; [split; reflexivity|]. apply (IH (put d p v) v). Qed.

Lemma last_event_const q l v :
  last_event q (map (fun p : point => (p, v)) l) = if existsb (point_eqb q) l then Some v else None.
Proof.
  induction l as [|p t IH]; cbn [map last_event existsb]; [reflexivity|]. rewrite IH.
  destruct (existsb (point_eqb q) t); [rewrite orb_true_r; reflexivity|]. rewrite orb_false_r. reflexivity.
Qed.

(* ===== Part 2: histories ============================================================================= *)

Lemma fold_panic {A} (f : A -> op -> result A) ops k :
  fold_left (fun r o => bind r (fun a => f a o)) ops (Panic k) = Panic k.
Proof. induction ops; cbn [fold_left bind]; auto. Qed.

Lemma run_nil d : run d [] = Ok d.
Proof. reflexivity. Qed.

Lemma run_cons d o ops : run d (o :: ops) = bind (apply_op d o) (fun d' => run d' ops).
Proof.
  unfold run. cbn [fold_left bind]. destruct (apply_op d o); cbn [bind]; [reflexivity|apply fold_panic].
Qed.

Lemma run_app d l1 l2 : run d (l1 ++ l2) = bind (run d l1) (fun d' => run d' l2).
Proof.
  revert d; induction l1 as [|o l1 IH]; intros d; cbn [app].
  - reflexivity.
  - rewrite !run_cons. destruct (apply_op d o); cbn [bind]; [apply IH|reflexivity].
Qed.

Lemma last_event_app p l1 l2 :
  last_event p (l1 ++ l2) = match last_event p l2 with Some r => Some r | None => last_event p l1 end.
Proof.
  induction l1 as [|[q v] l1 IH]; cbn [app last_event].
  - destruct (last_event p l2); reflexivity.
  - rewrite IH. destruct (last_event p l2); reflexivity.
Qed.

Definition ev (pc : point * Z) : point * option Z := (fst pc, Some (snd pc)).

Lemma last_event_ev p ws : last_event p (map ev ws) = option_map Some (last_write p ws).
Proof.
  induction ws as [|[q c] t IH]; cbn [map last_event last_write ev fst snd]; [reflexivity|].
  rewrite IH. destruct (last_write p t); cbn [option_map]; [reflexivity|].
  destruct (point_eqb p q); reflexivity.
Qed.

Lemma last_write_app p l1 l2 :
  last_write p (l1 ++ l2) = match last_write p l2 with Some r => Some r | None => last_write p l1 end.
Proof.
  induction l1 as [|[q v] l1 IH]; cbn [app last_write].
  - destruct (last_write p l2); reflexivity.
  - rewrite IH. destruct (last_write p l2); reflexivity.
Qed.

(* draw_iter: flags are kept; every cell holds its last write, other cells keep their content *)
Lemma draw_iter_ok d l d' :
  draw_iter d l = Ok d' ->
  allow_overdraw d' = allow_overdraw d /\ allow_oob d' = allow_oob d /\
  forall p, in_display p -> gp d' p = match last_write p l with Some v => Some v | None => gp d p end.
Proof.
  revert d; induction l as [|[q c] t IH]; intros d; cbn [draw_iter last_write].
  - intros H; inversion H; subst. auto.
  - destruct (draw_pixel d q c) as [d1|k] eqn:E1; cbn [bind]; [|discriminate].
    intros H. apply IH in H. destruct H as [Ha [Hb Hg]].
    apply draw_pixel_ok in E1. destruct E1 as [Ha1 [Hb1 Hg1]].
    split; [congruence|]. split; [congruence|].
    intros p Hp. rewrite (Hg p Hp). destruct (last_write p t); [reflexivity|].
    rewrite Hg1. destruct (point_eqb p q) eqn:Epq.
    + apply point_eqb_spec in Epq. subst q. apply in_displayb_spec in Hp. rewrite Hp. reflexivity.
    + rewrite andb_false_r. reflexivity.
Qed.

Lemma requested_draw d o : is_draw o = true -> apply_op d o = draw_iter d (requested o).
Proof.
  destruct o; cbn [is_draw]; try discriminate; intros _; cbn [apply_op requested].
  - cbn [draw_iter]. destruct (draw_pixel d p c); reflexivity.
  - reflexivity.
  - reflexivity.
  - reflexivity.
  - reflexivity.
Qed.

Lemma events_draw o : is_draw o = true -> events o = map ev (requested o).
Proof. destruct o; cbn [is_draw]; try discriminate; reflexivity. Qed.

Lemma apply_op_ok d o d' :
  apply_op d o = Ok d' ->
  forall p, in_display p -> gp d' p = match last_event p (events o) with Some v => v | None => gp d p end.
Proof.
  destruct (is_draw o) eqn:Ed.
  - rewrite requested_draw, events_draw by assumption. intros H p Hp.
    apply draw_iter_ok in H. destruct H as [_ [_ H]]. rewrite (H p Hp), last_event_ev.
    destruct (last_write p (requested o)); reflexivity.
  - destruct o; try discriminate; cbn [apply_op events map requested last_event].
    + rewrite set_pixel_spec. destruct (in_displayb p) eqn:E; [|discriminate].
      intros H; inversion H; subst d'. intros q Hq. rewrite gp_put by (apply in_displayb_spec, E).
      destruct (point_eqb q p); reflexivity.
    + rewrite set_pixels_spec. destruct (forallb in_displayb l) eqn:E; [|discriminate].
      intros H; inversion H; subst d'. intros q Hq. rewrite last_event_const, gp_fold_put.
      * destruct (existsb (point_eqb q) l); reflexivity.
      * apply Forall_forall. intros x Hx. rewrite forallb_forall in E. apply in_displayb_spec, E, Hx.
    + intros H; inversion H; subst. reflexivity.
    + intros H; inversion H; subst. reflexivity.
Qed.

Lemma run_ok d ops d' :
  run d ops = Ok d' ->
  forall p, in_display p ->
    gp d' p = match last_event p (flat_map events ops) with Some v => v | None => gp d p end.
Proof.
  revert d; induction ops as [|o ops IH]; intros d.
  - rewrite run_nil. intros H; inversion H; subst. reflexivity.
  - rewrite run_cons. destruct (apply_op d o) as [d1|k] eqn:E1; cbn [bind]; [|discriminate].
    intros H p Hp. cbn [flat_map]. rewrite last_event_app, (IH _ H p Hp).
    destruct (last_event p (flat_map events ops)); [reflexivity|].
    apply (apply_op_ok _ _ _ E1 p Hp).
Qed.

(* C20 mock_history: after ANY history that ran to its end, get_pixel p is the content given by the last event at p,
   None for cells without event and for every point outside the display *)
Theorem mock_history ops d :
  run new_display ops = Ok d ->
  forall p, get_pixel d p =
            Ok (if in_displayb p then match last_event p (flat_map events ops) with Some v => v | None => None end
                else None).
Proof.
  intros H p. rewrite get_pixel_gp. f_equal. destruct (in_displayb p) eqn:E.
  - apply in_displayb_spec in E. rewrite (run_ok _ _ _ H p E), gp_new. reflexivity.
  - apply gp_outside, in_displayb_false, E.
Qed.

Lemma flat_map_events_draw ops :
  forallb is_draw ops = true -> flat_map events ops = map ev (flat_map requested ops).
Proof.
  induction ops as [|o ops IH]; cbn [forallb flat_map]; [reflexivity|].
  intros H. apply andb_true_iff in H. destruct H as [Ho Hr].
  rewrite map_app, IH, events_draw by assumption. reflexivity.
Qed.

(* the wording of the property: with drawing operations only, get_pixel = colour LAST DRAWN to the point *)
Theorem mock_history_draws ops d :
  forallb is_draw ops = true ->
  run new_display ops = Ok d ->
  forall p, get_pixel d p = Ok (if in_displayb p then last_write p (flat_map requested ops) else None).
Proof.
  intros Hd H p. rewrite (mock_history ops d H p), flat_map_events_draw, last_event_ev by assumption.
  destruct (in_displayb p); [|reflexivity]. destruct (last_write _ _); reflexivity.
Qed.

(* ---- panics ---------------------------------------------------------------------------------------- *)
Definition seen_inv (d : display) (seen : list point) : Prop :=
  forall p, in_display p -> is_some (gp d p) = existsb (point_eqb p) seen.

Lemma draw_iter_scan d seen l :
  seen_inv d seen ->
  match draw_iter d l, scan (allow_overdraw d) (allow_oob d) seen l with
  | Ok d', Ok seen' => seen_inv d' seen' /\ allow_overdraw d' = allow_overdraw d /\ allow_oob d' = allow_oob d
  | Panic k, Panic k' => k = k'
  | _, _ => False
  end.
Proof.
  revert d seen; induction l as [|[q c] t IH]; intros d seen Hinv; cbn [draw_iter scan].
  - auto.
  - rewrite draw_pixel_spec. destruct (in_displayb q) eqn:Eq; cbn [negb].
    + pose proof (proj1 (in_displayb_spec q) Eq) as Hq. rewrite (Hinv q Hq).
      destruct (negb (allow_overdraw d) && existsb (point_eqb q) seen); cbn [bind]; [reflexivity|].
      specialize (IH (put d q (Some c)) (q :: seen)). cbn [put allow_overdraw allow_oob] in IH. apply IH.
      intros p Hp. fold (put d q (Some c)). rewrite gp_put by assumption. cbn [existsb].
      destruct (point_eqb p q); cbn [is_some orb]; [reflexivity|apply Hinv, Hp].
    + destruct (allow_oob d) eqn:Eb; cbn [bind]; [|reflexivity].
      specialize (IH d seen Hinv). rewrite Eb in IH. exact IH.
Qed.

Lemma scan_app ao ab seen l1 l2 :
  scan ao ab seen (l1 ++ l2) = bind (scan ao ab seen l1) (fun s => scan ao ab s l2).
Proof.
  revert seen; induction l1 as [|[q c] t IH]; intros seen; cbn [app scan bind]; [reflexivity|].
  destruct (negb (in_displayb q)).
  - destruct ab; [apply IH|reflexivity].
  - destruct (negb ao && existsb (point_eqb q) seen); [reflexivity|apply IH].
Qed.

Lemma run_scan d seen ops :
  forallb is_draw ops = true ->
  seen_inv d seen ->
  match run d ops, scan (allow_overdraw d) (allow_oob d) seen (flat_map requested ops) with
  | Ok d', Ok seen' => seen_inv d' seen'
  | Panic k, Panic k' => k = k'
  | _, _ => False
  end.
Proof.
  revert d seen; induction ops as [|o ops IH]; intros d seen Hd Hinv; cbn [flat_map].
  - rewrite run_nil. cbn [scan]. assumption.
  - cbn [forallb] in Hd. apply andb_true_iff in Hd. destruct Hd as [Ho Hr].
    rewrite run_cons, scan_app, requested_draw by assumption.
    pose proof (draw_iter_scan d seen (requested o) Hinv) as H1.
    destruct (draw_iter d (requested o)) as [d1|k]; destruct (scan _ _ seen (requested o)) as [s1|k']; cbn [bind];
      try contradiction; [|assumption].
    destruct H1 as [Hi [Ha Hb]]. specialize (IH d1 s1 Hr Hi). rewrite Ha, Hb in IH. exact IH.
Qed.

(* C20 mock_panic_iff (history form): a history of drawing operations on a new display with the flags (ao, ab)
   panics exactly when the scan of its requested writes finds an offending pixel, with that panic *)
Theorem mock_panic_iff ao ab ops k :
  forallb is_draw ops = true ->
  (run (D (PositiveMap.empty Z) ao ab) ops = Panic k <-> scan ao ab [] (flat_map requested ops) = Panic k).
Proof.
  intros Hd.
  assert (seen_inv (D (PositiveMap.empty Z) ao ab) []) as Hinv.
  { intros p _. unfold gp; cbn [cells existsb]. rewrite cell_empty. destruct (in_displayb p); reflexivity. }
  pose proof (run_scan _ _ ops Hd Hinv) as H. cbn [allow_overdraw allow_oob] in H.
  destruct (run _ ops); destruct (scan ao ab [] _); try contradiction.
  - split; discriminate.
  - subst. split; intros E; inversion E; reflexivity.
Qed.

Theorem mock_no_panic_iff ao ab ops :
  forallb is_draw ops = true ->
  ((exists d, run (D (PositiveMap.empty Z) ao ab) ops = Ok d) <-> (exists s, scan ao ab [] (flat_map requested ops) = Ok s)).
Proof.
  intros Hd.
  assert (seen_inv (D (PositiveMap.empty Z) ao ab) []) as Hinv.
  { intros p _. unfold gp; cbn [cells existsb]. rewrite cell_empty. destruct (in_displayb p); reflexivity. }
  pose proof (run_scan _ _ ops Hd Hinv) as H. cbn [allow_overdraw allow_oob] in H.
  destruct (run _ ops); destruct (scan ao ab [] _); try contradiction.
  - split; eauto.
  - split; intros [x Hx]; discriminate.
Qed.

(* no operation ever panics with an index panic or any pattern panic: only the three documented ones *)
Lemma draw_iter_panic_kind d l k : draw_iter d l = Panic k -> k = POutOfBounds \/ k = POverdraw.
Proof.
  revert d; induction l as [|[q c] t IH]; intros d; cbn [draw_iter]; [discriminate|].
  destruct (draw_pixel d q c) as [d1|k1] eqn:E; cbn [bind].
  - apply IH.
  - intros H; inversion H; subst. apply draw_pixel_panic_iff in E. destruct E as [[_ [_ ->]]|[_ [_ [_ ->]]]]; auto.
Qed.

Theorem apply_op_panic_kind d o k :
  apply_op d o = Panic k -> k = POutOfBounds \/ k = POverdraw \/ k = PSetPixel.
Proof.
  destruct (is_draw o) eqn:Ed.
  - rewrite requested_draw by assumption. intros H. apply draw_iter_panic_kind in H. tauto.
  - destruct o; try discriminate; cbn [apply_op]; try discriminate.
    + rewrite set_pixel_spec. destruct (in_displayb p); [discriminate|]. intros H; inversion H. auto.
    + rewrite set_pixels_spec. destruct (forallb in_displayb l); [discriminate|]. intros H; inversion H. auto.
Qed.

(* ===== Part 3: affected_area ========================================================================= *)

Definition pt (i : Z) : point := P (i mod SIZE) (i / SIZE).

(* the row-major enumeration of the bounding box is the enumeration of the array indices (closed computation) *)
Lemma points_bb : points bounding_box = map pt (range 0 NCELLS).
Proof. vm_compute. reflexivity. Qed.

Lemma pt_idx p : in_display p -> pt (idx p) = p.
Proof.
  destruct p as [x y]. unfold in_display, pt, idx; cbn [px py]. change SIZE with 64. intros [Hx Hy].
  f_equal; lia.
Qed.

Lemma idx_pt i : 0 <= i < NCELLS -> idx (pt i) = i /\ in_display (pt i).
Proof.
  unfold in_display, pt, idx, NCELLS; cbn [px py]. change SIZE with 64. intros H. lia.
Qed.

Lemma zip_map_same {A B C} (f : A -> B) (g : A -> C) l : zip (map f l) (map g l) = map (fun i => (f i, g i)) l.
Proof. induction l; cbn [map zip]; congruence. Qed.

Lemma flat_map_map {A B C} (f : B -> list C) (g : A -> B) l : flat_map f (map g l) = flat_map (fun a => f (g a)) l.
Proof. induction l; cbn [map flat_map]; congruence. Qed.

Lemma touched_points_eq d :
  touched_points d =
  flat_map (fun i => match cell (cells d) i with Some _ => [pt i] | None => [] end) (range 0 NCELLS).
Proof.
  unfold touched_points, cells_list. rewrite points_bb, zip_map_same, flat_map_map. reflexivity.
Qed.

Lemma touched_iff d p : touched d p <-> in_display p /\ is_some (gp d p) = true.
Proof.
  unfold touched. rewrite get_pixel_gp. split.
  - intros [v H]. inversion H as [Hg]. split; [|rewrite Hg; reflexivity].
    unfold gp in Hg. destruct (in_displayb p) eqn:E; [apply in_displayb_spec, E|discriminate].
  - intros [_ H]. destruct (gp d p) as [v|]; [exists v; reflexivity|discriminate].
Qed.

Lemma In_touched_points d p : In p (touched_points d) <-> touched d p.
Proof.
  rewrite touched_iff, touched_points_eq, in_flat_map. split.
  - intros [i [Hi Hp]]. apply In_range in Hi. destruct (idx_pt i Hi) as [Hx Hd].
    destruct (cell (cells d) i) eqn:Ec; [|contradiction]. destruct Hp as [<-|[]].
    split; [assumption|]. unfold gp. apply in_displayb_spec in Hd. rewrite Hd, Hx, Ec. reflexivity.
  - intros [Hd Hs]. exists (idx p). split.
    + apply In_range. pose proof (idx_in_array p Hd) as Ha. unfold in_array in Ha. lia.
    + unfold gp in Hs. apply in_displayb_spec in Hd. rewrite Hd in Hs.
      destruct (cell (cells d) (idx p)); [|discriminate]. left. apply pt_idx, in_displayb_spec, Hd.
Qed.

Lemma aa_fold l t b :
  fold_left aa_step l (Some t, Some b) = (Some (fold_left component_min l t), Some (fold_left component_max l b)).
Proof. revert t b; induction l as [|a l IH]; intros t b; cbn [fold_left aa_step]; [reflexivity|apply IH]. Qed.

Lemma fold_min_spec l t :
  let m := fold_left component_min l t in
  (px m <= px t /\ (forall p, In p l -> px m <= px p) /\ (px m = px t \/ exists p, In p l /\ px m = px p)) /\
  (py m <= py t /\ (forall p, In p l -> py m <= py p) /\ (py m = py t \/ exists p, In p l /\ py m = py p)).
Proof.
  revert t; induction l as [|a l IH]; intros t; cbn [fold_left In].
  - cbv zeta. repeat split; try lia; try tauto; left; reflexivity.
  - specialize (IH (component_min t a)). cbv zeta in *.
    assert (px (component_min t a) = Z.min (px t) (px a)) as Epx by reflexivity.
    assert (py (component_min t a) = Z.min (py t) (py a)) as Epy by reflexivity.
    rewrite Epx, Epy in IH. clear Epx Epy.
    destruct IH as [[Hx1 [Hx2 Hx3]] [Hy1 [Hy2 Hy3]]].
    split; (split; [lia|split]).
    + intros p [<-|Hp]; [lia|apply Hx2, Hp].
    + destruct Hx3 as [E|[p [Hp E]]]; [|right; exists p; auto].
      destruct (Z.min_spec (px t) (px a)) as [[_ Em]|[_ Em]]; [left; lia|right; exists a; split; [auto|lia]].
    + intros p [<-|Hp]; [lia|apply Hy2, Hp].
    + destruct Hy3 as [E|[p [Hp E]]]; [|right; exists p; auto].
      destruct (Z.min_spec (py t) (py a)) as [[_ Em]|[_ Em]]; [left; lia|right; exists a; split; [auto|lia]].
Qed.

Lemma fold_max_spec l t :
  let m := fold_left component_max l t in
  (px t <= px m /\ (forall p, In p l -> px p <= px m) /\ (px m = px t \/ exists p, In p l /\ px m = px p)) /\
  (py t <= py m /\ (forall p, In p l -> py p <= py m) /\ (py m = py t \/ exists p, In p l /\ py m = py p)).
Proof.
  revert t; induction l as [|a l IH]; intros t; cbn [fold_left In].
  - cbv zeta. repeat split; try lia; try tauto; left; reflexivity.
  - specialize (IH (component_max t a)). cbv zeta in *.
    assert (px (component_max t a) = Z.max (px t) (px a)) as Epx by reflexivity.
    assert (py (component_max t a) = Z.max (py t) (py a)) as Epy by reflexivity.
    rewrite Epx, Epy in IH. clear Epx Epy.
    destruct IH as [[Hx1 [Hx2 Hx3]] [Hy1 [Hy2 Hy3]]].
    split; (split; [lia|split]).
    + intros p [<-|Hp]; [lia|apply Hx2, Hp].
    + destruct Hx3 as [E|[p [Hp E]]]; [|right; exists p; auto].
      destruct (Z.max_spec (px t) (px a)) as [[_ Em]|[_ Em]]; [right; exists a; split; [auto|lia]|left; lia].
    + intros p [<-|Hp]; [lia|apply Hy2, Hp].
    + destruct Hy3 as [E|[p [Hp E]]]; [|right; exists p; auto].
      destruct (Z.max_spec (py t) (py a)) as [[_ Em]|[_ Em]]; [right; exists a; split; [auto|lia]|left; lia].
Qed.

(* affected_area over an arbitrary list of touched points *)
Definition aa_of (l : list point) : rect :=
  match fold_left aa_step l (None, None) with
  | (Some tl, Some br) => with_corners tl br
  | _ => rect_zero
  end.

Lemma aa_of_spec l :
  match l with
  | [] => aa_of l = rect_zero
  | _ => exists x0 y0 x1 y1,
      (forall q, contains (aa_of l) q = true <-> x0 <= px q <= x1 /\ y0 <= py q <= y1) /\
      (forall p, In p l -> x0 <= px p <= x1 /\ y0 <= py p <= y1) /\
      (exists p, In p l /\ px p = x0) /\ (exists p, In p l /\ py p = y0) /\
      (exists p, In p l /\ px p = x1) /\ (exists p, In p l /\ py p = y1) /\
      aa_of l = R (P x0 y0) (S (x1 - x0 + 1) (y1 - y0 + 1))
  end.
Proof.
  destruct l as [|a l]; [reflexivity|].
  unfold aa_of. cbn [fold_left aa_step]. rewrite aa_fold.
  pose proof (fold_min_spec l a) as Hmin. pose proof (fold_max_spec l a) as Hmax. cbv zeta in Hmin, Hmax.
  set (m := fold_left component_min l a) in *. set (M := fold_left component_max l a) in *.
  destruct Hmin as [[Hx1 [Hx2 Hx3]] [Hy1 [Hy2 Hy3]]]. destruct Hmax as [[HX1 [HX2 HX3]] [HY1 [HY2 HY3]]].
  exists (px m), (py m), (px M), (py M).
  split; [|split; [|split; [|split; [|split; [|split]]]]].
  - intros q. rewrite with_corners_spec. lia.
  - intros p [<-|Hp]; [lia|]. specialize (Hx2 p Hp). specialize (Hy2 p Hp). specialize (HX2 p Hp). specialize (HY2 p Hp). lia.
  - destruct Hx3 as [E|[p [Hp E]]]; [exists a|exists p]; split; cbn [In]; auto.
  - destruct Hy3 as [E|[p [Hp E]]]; [exists a|exists p]; split; cbn [In]; auto.
  - destruct HX3 as [E|[p [Hp E]]]; [exists a|exists p]; split; cbn [In]; auto.
  - destruct HY3 as [E|[p [Hp E]]]; [exists a|exists p]; split; cbn [In]; auto.
  - unfold with_corners, size_from_bounding_box. cbn [px py]. f_equal; f_equal; lia.
Qed.

Lemma affected_area_aa_of d : affected_area d = aa_of (touched_points d).
Proof. unfold affected_area, aa_of. reflexivity. Qed.

Global Opaque touched_points.

(* C20 affected_area_tight *)
Theorem affected_area_none d : (forall p, ~ touched d p) -> affected_area d = rect_zero.
Proof.
  intros H. rewrite affected_area_aa_of. destruct (touched_points d) as [|a l] eqn:E; [reflexivity|].
  exfalso. apply (H a). apply In_touched_points. rewrite E. left. reflexivity.
Qed.

Theorem affected_area_contains d p : touched d p -> contains (affected_area d) p = true.
Proof.
  intros H. apply In_touched_points in H. rewrite affected_area_aa_of.
  pose proof (aa_of_spec (touched_points d)) as S. destruct (touched_points d) as [|a l]; [contradiction|].
  destruct S as [x0 [y0 [x1 [y1 [Hc [Hall _]]]]]]. apply Hc, Hall, H.
Qed.

Theorem affected_area_least d r :
  (forall p, touched d p -> contains r p = true) ->
  forall q, contains (affected_area d) q = true -> contains r q = true.
Proof.
  intros Hr q. rewrite affected_area_aa_of.
  pose proof (aa_of_spec (touched_points d)) as S.
  assert (forall p, In p (touched_points d) -> contains r p = true) as Hr' by (intros p Hp; apply Hr, In_touched_points, Hp).
  destruct (touched_points d) as [|a l].
  - rewrite S. intros H. apply contains_spec in H. unfold rect_zero in H; cbn [tl sz px py sw sh] in H. lia.
  - destruct S as [x0 [y0 [x1 [y1 [Hc [_ [[p1 [I1 E1]] [[p2 [I2 E2]] [[p3 [I3 E3]] [[p4 [I4 E4]] _]]]]]]]]]].
    rewrite Hc. intros Hq.
    pose proof (proj1 (contains_spec r p1) (Hr' p1 I1)). pose proof (proj1 (contains_spec r p2) (Hr' p2 I2)).
    pose proof (proj1 (contains_spec r p3) (Hr' p3 I3)). pose proof (proj1 (contains_spec r p4) (Hr' p4 I4)).
    apply contains_spec. lia.
Qed.

(* the explicit form: top-left = (min x, min y), size = (max x - min x + 1, max y - min y + 1), each side attained *)
Theorem affected_area_sides d :
  (exists p, touched d p) ->
  exists x0 y0 x1 y1,
    affected_area d = R (P x0 y0) (S (x1 - x0 + 1) (y1 - y0 + 1)) /\
    (forall p, touched d p -> x0 <= px p <= x1 /\ y0 <= py p <= y1) /\
    (exists p, touched d p /\ px p = x0) /\ (exists p, touched d p /\ py p = y0) /\
    (exists p, touched d p /\ px p = x1) /\ (exists p, touched d p /\ py p = y1).
Proof.
  intros [p0 H0]. apply In_touched_points in H0. rewrite affected_area_aa_of.
  pose proof (aa_of_spec (touched_points d)) as S.
  assert (forall p, In p (touched_points d) <-> touched d p) as HI by (intros; apply In_touched_points).
  destruct (touched_points d) as [|a l]; [contradiction|].
  destruct S as [x0 [y0 [x1 [y1 [Hc [Hall [[p1 [I1 E1]] [[p2 [I2 E2]] [[p3 [I3 E3]] [[p4 [I4 E4]] Heq]]]]]]]]]].
  exists x0, y0, x1, y1. split; [assumption|]. split; [intros p Hp; apply Hall, HI, Hp|].
  repeat split; [exists p1|exists p2|exists p3|exists p4]; split; try assumption; apply HI; assumption.
Qed.

(* ===== Part 4: eq, diff, swap_xy ===================================================================== *)

Lemma opt_eqb_spec a b : opt_eqb a b = true <-> a = b.
Proof.
  destruct a as [x|], b as [y|]; cbn [opt_eqb]; split; intros H; try discriminate; try reflexivity.
  - f_equal. lia.
  - inversion H. lia.
Qed.

Lemma list_eqb_map {A} (f g : A -> option Z) l :
  list_eqb (map f l) (map g l) = forallb (fun i => opt_eqb (f i) (g i)) l.
Proof. induction l as [|x l IH]; cbn [map list_eqb forallb]; [reflexivity|rewrite IH; reflexivity]. Qed.

Lemma mock_eq_cells a b :
  mock_eq a b = true <-> forall i, 0 <= i < NCELLS -> cell (cells a) i = cell (cells b) i.
Proof.
  unfold mock_eq, cells_list. rewrite list_eqb_map, forallb_forall. split.
  - intros H i Hi. apply opt_eqb_spec, H, In_range, Hi.
  - intros H i Hi. apply opt_eqb_spec, H, In_range, Hi.
Qed.

Lemma cells_gp a b :
  (forall i, 0 <= i < NCELLS -> cell (cells a) i = cell (cells b) i) <-> (forall p, gp a p = gp b p).
Proof.
  split.
  - intros H p. unfold gp. destruct (in_displayb p) eqn:E; [|reflexivity].
    apply in_displayb_spec in E. apply H. pose proof (idx_in_array p E) as Ha. unfold in_array in Ha. lia.
  - intros H i Hi. destruct (idx_pt i Hi) as [Ei Hd]. specialize (H (pt i)). unfold gp in H.
    apply in_displayb_spec in Hd. rewrite Hd, Ei in H. exact H.
Qed.

Lemma mock_eq_gp a b : mock_eq a b = true <-> forall p, gp a p = gp b p.
Proof. rewrite mock_eq_cells. apply cells_gp. Qed.

(* C20 eq_iff_cells: == is true exactly when all 64 x 64 cells agree (the flags are not compared) *)
Theorem eq_iff_cells a b :
  mock_eq a b = true <-> forall x y, 0 <= x < SIZE -> 0 <= y < SIZE -> get_pixel a (P x y) = get_pixel b (P x y).
Proof.
  rewrite mock_eq_gp. split.
  - intros H x y _ _. rewrite !get_pixel_gp, H. reflexivity.
  - intros H p. destruct (in_displayb p) eqn:E.
    + apply in_displayb_spec in E. destruct p as [x y]. destruct E as [Hx Hy]. cbn [px py] in *.
      specialize (H x y Hx Hy). rewrite !get_pixel_gp in H. inversion H. reflexivity.
    + apply in_displayb_false in E. rewrite !gp_outside by assumption. reflexivity.
Qed.

Theorem eq_iff_get_pixel a b : mock_eq a b = true <-> forall p, get_pixel a p = get_pixel b p.
Proof.
  rewrite mock_eq_gp. split.
  - intros H p. rewrite !get_pixel_gp, H. reflexivity.
  - intros H p. specialize (H p). rewrite !get_pixel_gp in H. inversion H. reflexivity.
Qed.

Lemma existsb_points_bb q : existsb (point_eqb q) (points bounding_box) = in_displayb q.
Proof.
  apply eq_true_iff_eq. rewrite existsb_exists, in_displayb_spec, points_bb. split.
  - intros [p [Hp E]]. apply point_eqb_spec in E. subst p. apply in_map_iff in Hp. destruct Hp as [i [<- Hi]].
    apply In_range in Hi. apply idx_pt, Hi.
  - intros H. exists q. split; [|apply point_eqb_refl]. apply in_map_iff. exists (idx q). split; [apply pt_idx, H|].
    apply In_range. pose proof (idx_in_array q H) as Ha. unfold in_array in Ha. lia.
Qed.

Lemma points_bb_in_display : Forall in_display (points bounding_box).
Proof.
  rewrite points_bb. apply Forall_forall. intros p Hp. apply in_map_iff in Hp. destruct Hp as [i [<- Hi]].
  apply In_range in Hi. apply idx_pt, Hi.
Qed.

Lemma diff_loop_ok a b acc l :
  Forall in_display l ->
  exists acc', diff_loop a b acc l = Ok acc' /\
    forall q, gp acc' q = if existsb (point_eqb q) l then diff_color (gp a q) (gp b q) else gp acc q.
Proof.
  revert acc; induction l as [|p t IH]; intros acc Hl; cbn [diff_loop existsb].
  - exists acc. split; reflexivity.
  - inversion Hl as [|? ? Hp Ht]; subst. rewrite !get_pixel_gp. cbn [bind].
    rewrite set_pixel_unchecked_ok by assumption. cbn [bind].
    destruct (IH (put acc p (diff_color (gp a p) (gp b p))) Ht) as [acc' [E Hg]].
    exists acc'. split; [assumption|]. intros q. rewrite Hg, gp_put by assumption.
    destruct (existsb (point_eqb q) t); [rewrite orb_true_r; reflexivity|]. rewrite orb_false_r.
    destruct (point_eqb q p) eqn:Eq; [apply point_eqb_spec in Eq; subst; reflexivity|reflexivity].
Qed.

(* diff never panics and colours exactly the cells that differ *)
Theorem diff_spec a b :
  exists df, diff a b = Ok df /\
    forall p, gp df p = if in_displayb p then diff_color (gp a p) (gp b p) else None.
Proof.
  unfold diff. destruct (diff_loop_ok a b new_display _ points_bb_in_display) as [df [E Hg]].
  exists df. split; [assumption|]. intros p. rewrite Hg, existsb_points_bb, gp_new. reflexivity.
Qed.

Lemma diff_color_none s o : diff_color s o = None <-> s = o.
Proof.
  destruct s as [x|], o as [y|]; cbn [diff_color]; split; intros H; try discriminate; try reflexivity.
  - destruct (x =? y) eqn:E; cbn [negb] in H; [f_equal; lia|discriminate].
  - inversion H. subst. rewrite Z.eqb_refl. reflexivity.
Qed.

(* C20 diff_empty_iff_eq *)
Theorem diff_empty_iff_eq a b df :
  diff a b = Ok df ->
  ((forall p, get_pixel df p = Ok None) <-> mock_eq a b = true).
Proof.
  intros E. destruct (diff_spec a b) as [df' [E' Hg]]. rewrite E in E'. inversion E'; subst df'.
  rewrite mock_eq_gp. split.
  - intros H p. specialize (H p). rewrite get_pixel_gp, Hg in H. inversion H as [H1].
    destruct (in_displayb p) eqn:Ep.
    + apply diff_color_none, H1.
    + apply in_displayb_false in Ep. rewrite !gp_outside by assumption. reflexivity.
  - intros H p. rewrite get_pixel_gp, Hg. f_equal. destruct (in_displayb p); [|reflexivity].
    apply diff_color_none, H.
Qed.

Theorem diff_empty_iff_eq_new a b df :
  diff a b = Ok df -> (mock_eq df new_display = true <-> mock_eq a b = true).
Proof.
  intros E. rewrite <- (diff_empty_iff_eq a b df E), mock_eq_gp. split.
  - intros H p. rewrite get_pixel_gp, H, gp_new. reflexivity.
  - intros H p. specialize (H p). rewrite get_pixel_gp in H. inversion H. rewrite gp_new. congruence.
Qed.

Theorem diff_total a b : exists df, diff a b = Ok df.
Proof. destruct (diff_spec a b) as [df [E _]]. eauto. Qed.

Theorem diff_pixel a b df p :
  diff a b = Ok df ->
  get_pixel df p = Ok (if in_displayb p then diff_color (gp a p) (gp b p) else None).
Proof.
  intros E. destruct (diff_spec a b) as [df' [E' Hg]]. rewrite E in E'. inversion E'; subst df'.
  rewrite get_pixel_gp, Hg. reflexivity.
Qed.

(* swap_xy mirrors *)
Lemma swap_loop_ok a acc l :
  Forall in_display l ->
  exists acc', swap_loop a acc l = Ok acc' /\
    forall q, gp acc' q = if existsb (point_eqb q) l then gp a (P (py q) (px q)) else gp acc q.
Proof.
  revert acc; induction l as [|p t IH]; intros acc Hl; cbn [swap_loop existsb].
  - exists acc. split; reflexivity.
  - inversion Hl as [|? ? Hp Ht]; subst. rewrite !get_pixel_gp. cbn [bind].
    rewrite set_pixel_unchecked_ok by assumption. cbn [bind].
    destruct (IH (put acc p (gp a (P (py p) (px p)))) Ht) as [acc' [E Hg]].
    exists acc'. split; [assumption|]. intros q. rewrite Hg, gp_put by assumption.
    destruct (existsb (point_eqb q) t); [rewrite orb_true_r; reflexivity|]. rewrite orb_false_r.
    destruct (point_eqb q p) eqn:Eq; [apply point_eqb_spec in Eq; subst; reflexivity|reflexivity].
Qed.

Theorem swap_xy_spec a :
  exists s, swap_xy a = Ok s /\ forall x y, get_pixel s (P x y) = get_pixel a (P y x).
Proof.
  unfold swap_xy. destruct (swap_loop_ok a new_display _ points_bb_in_display) as [s [E Hg]].
  exists s. split; [assumption|]. intros x y. rewrite !get_pixel_gp, Hg, existsb_points_bb, gp_new. cbn [px py]. f_equal.
  destruct (in_displayb (P x y)) eqn:Ep; [reflexivity|].
  symmetry. apply gp_outside. apply in_displayb_false in Ep. unfold in_display in *. cbn [px py] in *. lia.
Qed.

(* ===== Part 5: ColorMapping tables, from_pattern, Debug ============================================== *)

(* the colours that have their own pattern character, and those characters (tables generated from color_mapping.rs) *)
Definition colset (m : mapping) : list Z := map fst (m_col2c m).
Definition charset (m : mapping) : list Z := map snd (m_col2c m).

(* table check: every (colour, char) row prints as that char, parses back to that colour, and is not ' ' *)
Definition row_ok (m : mapping) (vc : Z * Z) : bool :=
  (match color_to_char m (fst vc) with Ok c => c =? snd vc | Panic _ => false end)
  && (match char_to_color m (snd vc) with Ok v => v =? fst vc | Panic _ => false end)
  && negb (snd vc =? SPACE).
Definition mapping_ok (m : mapping) : bool := forallb (row_ok m) (m_col2c m).

Lemma all_mappings_ok : forallb mapping_ok all_mappings = true.
Proof. vm_compute. reflexivity. Qed.

Lemma colset_roundtrip m v :
  In m all_mappings -> In v (colset m) ->
  exists ch, color_to_char m v = Ok ch /\ char_to_color m ch = Ok v /\ ch <> SPACE /\ In ch (charset m).
Proof.
  intros Hm Hv. pose proof all_mappings_ok as H. rewrite forallb_forall in H. specialize (H m Hm).
  unfold mapping_ok in H. rewrite forallb_forall in H.
  unfold colset in Hv. apply in_map_iff in Hv. destruct Hv as [[v' ch] [E Hin]]. cbn [fst] in E. subst v'.
  specialize (H _ Hin). unfold row_ok in H. cbn [fst snd] in H.
  apply andb_true_iff in H. destruct H as [H H3]. apply andb_true_iff in H. destruct H as [H1 H2].
  destruct (color_to_char m v) as [c|] eqn:E1; [|discriminate].
  destruct (char_to_color m ch) as [v2|] eqn:E2; [|discriminate].
  exists ch. assert (c = ch) by lia. assert (v2 = v) by lia. subst.
  split; [congruence|]. split; [congruence|]. split; [lia|].
  unfold charset. apply in_map_iff. exists (v, ch). auto.
Qed.

Lemma charset_roundtrip m ch :
  In m all_mappings -> In ch (charset m) ->
  exists v, char_to_color m ch = Ok v /\ color_to_char m v = Ok ch /\ ch <> SPACE /\ In v (colset m).
Proof.
  intros Hm Hc. pose proof all_mappings_ok as H. rewrite forallb_forall in H. specialize (H m Hm).
  unfold mapping_ok in H. rewrite forallb_forall in H.
  unfold charset in Hc. apply in_map_iff in Hc. destruct Hc as [[v ch'] [E Hin]]. cbn [snd] in E. subst ch'.
  specialize (H _ Hin). unfold row_ok in H. cbn [fst snd] in H.
  apply andb_true_iff in H. destruct H as [H H3]. apply andb_true_iff in H. destruct H as [H1 H2].
  destruct (color_to_char m v) as [c|] eqn:E1; [|discriminate].
  destruct (char_to_color m ch) as [v2|] eqn:E2; [|discriminate].
  exists v. assert (c = ch) by lia. assert (v2 = v) by lia. subst.
  split; [congruence|]. split; [congruence|]. split; [lia|].
  unfold colset. apply in_map_iff. exists (v, ch). auto.
Qed.

(* one cell <-> one pattern character *)
Definition enc (m : mapping) (c : option Z) : result Z :=
  match c with None => Ok SPACE | Some v => color_to_char m v end.
Definition cell_valid (m : mapping) (c : option Z) : Prop := match c with None => True | Some v => In v (colset m) end.
Definition char_valid (m : mapping) (ch : Z) : Prop := ch = SPACE \/ In ch (charset m).

Lemma enc_roundtrip m c :
  In m all_mappings -> cell_valid m c -> exists ch, enc m c = Ok ch /\ pattern_char m ch = Ok c /\ char_valid m ch.
Proof.
  intros Hm Hc. destruct c as [v|]; cbn [enc cell_valid] in *.
  - destruct (colset_roundtrip m v Hm Hc) as [ch [E1 [E2 [E3 E4]]]]. exists ch. split; [assumption|].
    unfold pattern_char, char_valid. replace (ch =? SPACE) with false by lia. rewrite E2. cbn [bind]. auto.
  - exists SPACE. unfold pattern_char, char_valid. rewrite Z.eqb_refl. auto.
Qed.

Lemma pattern_char_roundtrip m ch :
  In m all_mappings -> char_valid m ch -> exists c, pattern_char m ch = Ok c /\ enc m c = Ok ch /\ cell_valid m c.
Proof.
  intros Hm [->|Hc].
  - exists None. unfold pattern_char. rewrite Z.eqb_refl. cbn [enc cell_valid]. auto.
  - destruct (charset_roundtrip m ch Hm Hc) as [v [E1 [E2 [E3 E4]]]]. exists (Some v).
    unfold pattern_char. replace (ch =? SPACE) with false by lia. rewrite E1. cbn [bind enc cell_valid]. auto.
Qed.

(* ---- generic list facts --------------------------------------------------------------------------- *)
Lemma mapM_roundtrip {A B} (f : A -> result B) (g : B -> result A) (Q : B -> Prop) l :
  (forall x, In x l -> exists y, f x = Ok y /\ g y = Ok x /\ Q y) ->
  exists ys, mapM f l = Ok ys /\ mapM g ys = Ok l /\ length ys = length l /\ Forall Q ys.
Proof.
  induction l as [|x l IH]; intros H; cbn [mapM].
  - exists []. cbn [mapM length]. auto.
  - destruct (H x (or_introl eq_refl)) as [y [E1 [E2 HQ]]].
    destruct IH as [ys [E3 [E4 [E5 E6]]]]; [intros z Hz; apply H; right; assumption|].
    exists (y :: ys). rewrite E1, E3. cbn [bind mapM length]. rewrite E2, E4. cbn [bind]. auto.
Qed.

Lemma mapM_length {A B} (f : A -> result B) l ys : mapM f l = Ok ys -> length ys = length l.
Proof.
  revert ys; induction l as [|x l IH]; intros ys; cbn [mapM].
  - intros H; inversion H. reflexivity.
  - destruct (f x); cbn [bind]; [|discriminate]. destruct (mapM f l); cbn [bind]; [|discriminate].
    intros H; inversion H. cbn [length]. f_equal. apply IH. reflexivity.
Qed.

Lemma pad_exact {A} n (d : A) l : length l = n -> pad n d l = l.
Proof. intros H. unfold pad. rewrite firstn_app, H, Nat.sub_diag, firstn_O, app_nil_r. subst n. apply firstn_all. Qed.

Lemma pad_length {A} n (d : A) l : length (pad n d l) = n.
Proof. unfold pad. rewrite firstn_length, app_length, repeat_length. lia. Qed.

Lemma all_none_repeat (l : list (option Z)) : Forall (fun c => c = None) l -> l = repeat None (length l).
Proof. induction 1 as [|x l Hx Hl IH]; cbn [length repeat]; [reflexivity|]. subst x. f_equal. exact IH. Qed.

Lemma pad_none_tail (A B : list (option Z)) n :
  Forall (fun c => c = None) B -> length (A ++ B) = n -> pad n None A = A ++ B.
Proof.
  intros HB Hn. rewrite app_length in Hn. rewrite (all_none_repeat B HB). set (k := length B) in *.
  assert (length (A ++ repeat (@None Z) k) = n) as HX by (rewrite app_length, repeat_length; lia).
  unfold pad.
  replace (repeat (@None Z) n) with (repeat (@None Z) k ++ repeat None (n - k)) by (rewrite <- repeat_app; f_equal; lia).
  rewrite app_assoc, firstn_app, HX, Nat.sub_diag, firstn_O, app_nil_r. rewrite <- HX at 1. apply firstn_all.
Qed.

Lemma take_while_split {A} (f : A -> bool) l :
  exists rest, l = take_while f l ++ rest /\ Forall (fun x => f x = true) (take_while f l).
Proof.
  induction l as [|x l [rest [E H]]]; cbn [take_while].
  - exists []. auto.
  - destruct (f x) eqn:Ex.
    + exists rest. cbn [app]. split; [f_equal; assumption|constructor; assumption].
    + exists (x :: l). auto.
Qed.

(* the last `length (take_while f (rev l))` elements of l all satisfy f *)
Lemma trailing_split {A} (f : A -> bool) l :
  let e := length (take_while f (rev l)) in
  (e <= length l)%nat /\ Forall (fun x => f x = true) (skipn (length l - e) l).
Proof.
  cbv zeta. destruct (take_while_split f (rev l)) as [rest [E H]].
  set (tw := take_while f (rev l)) in *.
  assert (l = rev rest ++ rev tw) as El by (rewrite <- rev_app_distr, <- E, rev_involutive; reflexivity).
  assert (length l = length rest + length tw)%nat as Hl by (rewrite El at 1; rewrite app_length, !rev_length; reflexivity).
  split; [lia|].
  replace (length l - length tw)%nat with (length (rev rest)) by (rewrite rev_length; lia).
  rewrite El at 1. rewrite skipn_app, Nat.sub_diag, skipn_all, skipn_O. cbn [app].
  apply Forall_rev. assumption.
Qed.

Lemma chunks_fuel_spec {A} (n : nat) (k : nat) : forall (l : list A) fuel,
  (0 < n)%nat -> length l = (k * n)%nat -> (k <= fuel)%nat ->
  concat (chunks_fuel fuel n l) = l /\ length (chunks_fuel fuel n l) = k /\
  Forall (fun r => length r = n) (chunks_fuel fuel n l).
Proof.
  induction k as [|k IH]; intros l fuel Hn Hl Hf.
  - destruct l; [|discriminate]. destruct fuel; cbn [chunks_fuel concat length]; auto.
  - destruct fuel as [|fuel]; [lia|]. cbn [Nat.mul] in Hl.
    destruct l as [|a l']; [cbn [length] in Hl; lia|]. set (l := a :: l') in *. cbn [chunks_fuel].
    assert (length (skipn n l) = (k * n)%nat) as Hs by (rewrite skipn_length; lia).
    destruct (IH (skipn n l) fuel Hn Hs ltac:(lia)) as [E1 [E2 E3]].
    change (match l with [] => [] | _ :: _ => firstn n l :: chunks_fuel fuel n (skipn n l) end)
      with (firstn n l :: chunks_fuel fuel n (skipn n l)).
    cbn [concat length]. rewrite E1, E2, firstn_skipn. split; [reflexivity|]. split; [reflexivity|].
    constructor; [|assumption]. rewrite firstn_length. lia.
Qed.

Definition NS : nat := Z.to_nat SIZE.

Lemma cells_list_length d : length (cells_list d) = (NS * NS)%nat.
Proof. unfold cells_list. rewrite map_length. vm_compute. reflexivity. Qed.

Lemma chunks_cells d :
  let R := chunks NS (cells_list d) in
  concat R = cells_list d /\ length R = NS /\ Forall (fun r => length r = NS) R.
Proof.
  cbv zeta. unfold chunks. apply chunks_fuel_spec.
  - vm_compute. lia.
  - apply cells_list_length.
  - rewrite cells_list_length. assert (1 <= NS)%nat by (vm_compute; lia). nia.
Qed.

(* store_from writes the list into consecutive cells *)
Lemma store_from_ok l : forall c i,
  0 <= i -> i + Z.of_nat (length l) <= NCELLS ->
  exists c', store_from c i l = Ok c' /\
    forall j, 0 <= j -> cell c' j = if (i <=? j) && (j <? i + Z.of_nat (length l)) then nth (Z.to_nat (j - i)) l None else cell c j.
Proof.
  induction l as [|v l IH]; intros c i Hi Hl; cbn [store_from length].
  - exists c. split; [reflexivity|]. intros j Hj. replace ((i <=? j) && (j <? i + Z.of_nat 0)) with false by lia. reflexivity.
  - cbn [length] in Hl. unfold arr_set. replace (in_array i) with true by (unfold in_array; lia). cbn [bind].
    destruct (IH (cell_put c i v) (i + 1)) as [c' [E Hc]]; [lia|lia|].
    exists c'. split; [assumption|]. intros j Hj. rewrite (Hc j Hj).
    destruct (Z.eq_dec j i) as [->|Hne].
    + replace ((i + 1 <=? i) && (i <? i + 1 + Z.of_nat (length l))) with false by lia.
      replace ((i <=? i) && (i <? i + Z.of_nat (Datatypes.S (length l)))) with true by lia.
      rewrite Z.sub_diag. cbn [Z.to_nat nth]. apply cell_put_same.
    + destruct ((i + 1 <=? j) && (j <? i + 1 + Z.of_nat (length l))) eqn:E1.
      * replace ((i <=? j) && (j <? i + Z.of_nat (Datatypes.S (length l)))) with true by lia.
        replace (Z.to_nat (j - i)) with (Datatypes.S (Z.to_nat (j - (i + 1)))) by lia. reflexivity.
      * replace ((i <=? j) && (j <? i + Z.of_nat (Datatypes.S (length l)))) with false by lia.
        apply cell_put_other; lia.
Qed.

Lemma map_nth_range {A} (l : list A) (d : A) :
  map (fun i => nth (Z.to_nat i) l d) (range 0 (Z.of_nat (length l))) = l.
Proof.
  unfold range. rewrite Z.sub_0_r, Nat2Z.id.
  assert (forall (l : list A) a, 0 <= a -> map (fun i => nth (Z.to_nat (i - a)) l d) (range_from a (length l)) = l) as H.
  { clear l. induction l as [|x l IH]; intros a Ha; cbn [length range_from map]; [reflexivity|].
    rewrite Z.sub_diag. cbn [Z.to_nat nth]. f_equal. rewrite <- (IH (a + 1)) at 2 by lia.
    apply map_ext_in. intros i Hi. apply In_range_from in Hi.
    replace (Z.to_nat (i - a)) with (Datatypes.S (Z.to_nat (i - (a + 1)))) by lia. reflexivity. }
  rewrite <- (H l 0) at 2 by lia. apply map_ext. intros i. rewrite Z.sub_0_r. reflexivity.
Qed.

(* storing a full array: the cells are the list *)
Lemma store_from_cells_list colors c :
  length colors = (NS * NS)%nat ->
  exists c', store_from c 0 colors = Ok c' /\ forall ao ab, cells_list (D c' ao ab) = colors.
Proof.
  intros Hl. assert (Z.of_nat (length colors) = NCELLS) as HZ by (rewrite Hl; vm_compute; reflexivity).
  destruct (store_from_ok colors c 0) as [c' [E Hc]]; [lia|lia|].
  exists c'. split; [assumption|]. intros ao ab. unfold cells_list; cbn [cells].
  rewrite <- (map_nth_range colors None) at 1. rewrite HZ. apply map_ext_in. intros i Hi. apply In_range in Hi.
  rewrite (Hc i) by lia. replace ((0 <=? i) && (i <? 0 + Z.of_nat (length colors))) with true by lia.
  rewrite Z.sub_0_r. reflexivity.
Qed.

(* ---- Debug output parsed back by from_pattern -------------------------------------------------------- *)
Lemma NS_SIZE : Z.of_nat NS = SIZE.
Proof. reflexivity. Qed.

Lemma NSNS_NCELLS : Z.to_nat NCELLS = (NS * NS)%nat.
Proof. vm_compute. reflexivity. Qed.

Lemma list_eqb_refl l : list_eqb l l = true.
Proof.
  induction l as [|x l IH]; cbn [list_eqb]; [reflexivity|]. rewrite IH, andb_true_r. apply opt_eqb_spec. reflexivity.
Qed.

Lemma In_firstn {A} n (l : list A) x : In x (firstn n l) -> In x l.
Proof. intros H. rewrite <- (firstn_skipn n l). apply in_or_app. left. exact H. Qed.

Lemma row_is_empty_spec row : row_is_empty row = true -> Forall (fun c => c = None) row.
Proof.
  unfold row_is_empty. rewrite forallb_forall. intros H. apply Forall_forall. intros c Hc.
  specialize (H c Hc). destruct c; [discriminate|reflexivity].
Qed.

Lemma Forall_concat {A} (Q : A -> Prop) (ll : list (list A)) : Forall (Forall Q) ll -> Forall Q (concat ll).
Proof. induction 1; cbn [concat]; [constructor|apply Forall_app; split; assumption]. Qed.

(* the row function of from_pattern (mod.rs:547-556) *)
Definition pattern_row (m : mapping) (row : list Z) : result (list (option Z)) :=
  bind (mapM (pattern_char m) row) (fun cs => Ok (pad (Z.to_nat SIZE) None cs)).

Lemma from_pattern_checked m pat :
  (match pat with [] => 0 | r :: _ => zlen r end) <= SIZE ->
  zlen pat <= SIZE ->
  Forall (fun r => zlen r = match pat with [] => 0 | r :: _ => zlen r end) pat ->
  from_pattern m pat =
    bind (mapM (pattern_row m) pat) (fun rows =>
      bind (store_from (PositiveMap.empty Z) 0 (pad (Z.to_nat NCELLS) None (concat rows))) (fun c => Ok (D c false false))).
Proof.
  intros Hw Hh Hr. unfold from_pattern. cbv zeta.
  set (w := match pat with [] => 0 | r :: _ => zlen r end) in *.
  replace (w <=? SIZE) with true by lia. replace (zlen pat <=? SIZE) with true by lia. cbn [negb].
  replace (forallb (fun r => zlen r =? w) pat) with true; [reflexivity|].
  symmetry. apply forallb_forall. intros r Hin. rewrite Forall_forall in Hr. specialize (Hr r Hin). lia.
Qed.

Definition display_over (m : mapping) (d : display) : Prop :=
  forall p v, get_pixel d p = Ok (Some v) -> In v (colset m).

Lemma cells_list_valid m d : display_over m d -> Forall (cell_valid m) (cells_list d).
Proof.
  intros H. unfold cells_list. apply Forall_forall. intros c Hc. apply in_map_iff in Hc. destruct Hc as [i [<- Hi]].
  apply In_range in Hi. destruct (idx_pt i Hi) as [Ei Hd]. destruct (cell (cells d) i) as [v|] eqn:Ec; cbn [cell_valid]; [|exact I].
  apply (H (pt i)). rewrite get_pixel_gp. unfold gp. apply in_displayb_spec in Hd. rewrite Hd, Ei, Ec. reflexivity.
Qed.

Lemma debug_rows_eq m d :
  debug_rows m d = mapM (mapM (enc m)) (firstn (NS - empty_rows d) (chunks NS (cells_list d))).
Proof. reflexivity. Qed.

Lemma empty_rows_eq d : empty_rows d = length (take_while row_is_empty (rev (chunks NS (cells_list d)))).
Proof. reflexivity. Qed.

(* the list-level core: L = the 4096 cells *)
Lemma debug_then_pattern_core m (L : list (option Z)) :
  In m all_mappings -> Forall (cell_valid m) L -> length L = (NS * NS)%nat ->
  let R := chunks NS L in
  let e := length (take_while row_is_empty (rev R)) in
  exists chrows, mapM (mapM (enc m)) (firstn (NS - e) R) = Ok chrows /\ Forall (Forall (char_valid m)) chrows /\
    from_pattern m chrows =
      bind (store_from (PositiveMap.empty Z) 0 L) (fun c => Ok (D c false false)).
Proof.
  intros Hm Hval HLl. cbv zeta.
  assert (concat (chunks NS L) = L /\ length (chunks NS L) = NS /\ Forall (fun r => length r = NS) (chunks NS L)) as HR.
  { unfold chunks. apply chunks_fuel_spec.
    - vm_compute. lia.
    - exact HLl.
    - rewrite HLl. assert (1 <= NS)%nat by (vm_compute; lia). nia. }
  destruct HR as [HRc [HRl HRr]].
  remember (chunks NS L) as R eqn:ER. clear ER.
  pose proof (trailing_split row_is_empty R) as HT. cbv zeta in HT. destruct HT as [He HT].
  remember (length (take_while row_is_empty (rev R))) as e eqn:Ee. clear Ee.
  rewrite HRl in HT, He.
  remember (NS - e)%nat as k eqn:Ek.
  assert (Forall (Forall (cell_valid m)) R) as HvalR.
  { apply Forall_forall. intros r Hr. apply Forall_forall. intros c Hc. rewrite Forall_forall in Hval. apply Hval.
    rewrite <- HRc. apply in_concat. exists r. auto. }
  destruct (mapM_roundtrip (mapM (enc m)) (pattern_row m) (fun chs => length chs = NS /\ Forall (char_valid m) chs) (firstn k R))
    as [chrows [E1 [E2 [E3 E4]]]].
  { intros r Hr. apply In_firstn in Hr.
    rewrite Forall_forall in HvalR, HRr. specialize (HvalR r Hr). specialize (HRr r Hr). rewrite Forall_forall in HvalR.
    destruct (mapM_roundtrip (enc m) (pattern_char m) (char_valid m) r) as [chs [F1 [F2 [F3 F4]]]].
    { intros c Hc. apply enc_roundtrip; auto. }
    exists chs. split; [assumption|]. unfold pattern_row. rewrite F2. cbn [bind].
    rewrite pad_exact by (rewrite HRr; reflexivity). split; [reflexivity|]. split; [congruence|assumption]. }
  assert (length (firstn k R) = k) as Hk by (rewrite firstn_length, HRl; lia).
  exists chrows. split; [exact E1|]. split.
  { revert E4. apply Forall_impl. intros r [_ H]. exact H. }
  assert (Forall (fun r => zlen r = SIZE) chrows) as Hlen.
  { apply Forall_forall. intros r Hr. rewrite Forall_forall in E4. destruct (E4 r Hr) as [Hl _]. unfold zlen. rewrite Hl. apply NS_SIZE. }
  rewrite from_pattern_checked.
  - rewrite E2. cbn [bind]. f_equal. f_equal.
    rewrite <- HRc. rewrite <- (firstn_skipn k R) at 2. rewrite concat_app.
    apply pad_none_tail.
    + apply Forall_concat. revert HT. apply Forall_impl. intros r. apply row_is_empty_spec.
    + rewrite <- concat_app, firstn_skipn, HRc, HLl. symmetry. apply NSNS_NCELLS.
  - destruct chrows as [|r t]; [pose proof SIZE_pos; lia|]. inversion Hlen; subst. lia.
  - unfold zlen. rewrite E3, Hk. rewrite <- NS_SIZE. lia.
  - destruct chrows as [|r t]; [constructor|]. inversion Hlen as [|? ? Hr Ht]; subst. rewrite Hr.
    constructor; assumption.
Qed.

(* C20 pattern_debug_roundtrip, direction Debug -> from_pattern: the rows printed by Debug for a display whose colours
   all have a character are accepted by from_pattern and give back a display with the same 4096 cells *)
Theorem debug_then_pattern m d :
  In m all_mappings -> display_over m d ->
  exists rows d', debug_rows m d = Ok rows /\ Forall (Forall (char_valid m)) rows /\
                  from_pattern m rows = Ok d' /\ mock_eq d' d = true.
Proof.
  intros Hm Hd.
  pose proof (debug_then_pattern_core m (cells_list d) Hm (cells_list_valid m d Hd) (cells_list_length d)) as H.
  cbv zeta in H. destruct H as [chrows [E1 [E2 E3]]].
  destruct (store_from_cells_list (cells_list d) (PositiveMap.empty Z) (cells_list_length d)) as [c' [Es Hc']].
  rewrite Es in E3. cbn [bind] in E3.
  exists chrows, (D c' false false).
  split; [rewrite debug_rows_eq, empty_rows_eq; exact E1|]. split; [exact E2|]. split; [exact E3|].
  unfold mock_eq. rewrite Hc'. apply list_eqb_refl.
Qed.

(* ---- from_pattern places every character; Debug prints the pattern back ------------------------------- *)
(* cell <-> character correspondence *)
Definition cc (m : mapping) (c : option Z) (ch : Z) : Prop := enc m c = Ok ch /\ pattern_char m ch = Ok c.

Lemma cc_none_space m : cc m None SPACE.
Proof. unfold cc, pattern_char. cbn [enc]. rewrite Z.eqb_refl. auto. Qed.

Lemma cc_blank m c ch : cc m c ch -> negb (is_some c) = (ch =? SPACE).
Proof.
  intros [H1 H2]. destruct c as [v|]; cbn [enc is_some negb] in *.
  - unfold pattern_char in H2. destruct (ch =? SPACE); [discriminate|reflexivity].
  - inversion H1. subst. rewrite Z.eqb_refl. reflexivity.
Qed.

Lemma mapM_Forall2 {A B} (f : A -> result B) (Rel : A -> B -> Prop) l ys :
  (forall x y, Rel x y -> f x = Ok y) -> Forall2 Rel l ys -> mapM f l = Ok ys.
Proof.
  intros Hf H. induction H as [|x y l ys Hxy Hl IH]; cbn [mapM]; [reflexivity|].
  rewrite (Hf x y Hxy), IH. reflexivity.
Qed.

Lemma mapM_pattern_char m r :
  In m all_mappings -> Forall (char_valid m) r -> exists cs, mapM (pattern_char m) r = Ok cs /\ Forall2 (cc m) cs r.
Proof.
  intros Hm. induction 1 as [|ch r Hc Hr IH]; cbn [mapM].
  - exists []. split; [reflexivity|constructor].
  - destruct IH as [cs [E F]]. destruct (pattern_char_roundtrip m ch Hm Hc) as [c [E1 [E2 _]]].
    exists (c :: cs). rewrite E1, E. cbn [bind]. split; [reflexivity|]. constructor; [split; assumption|assumption].
Qed.

Lemma Forall2_repeat {A B} (Rel : A -> B -> Prop) a b n : Rel a b -> Forall2 Rel (repeat a n) (repeat b n).
Proof. intros H. induction n; cbn [repeat]; constructor; assumption. Qed.

Lemma Forall2_firstn {A B} (Rel : A -> B -> Prop) n l1 l2 : Forall2 Rel l1 l2 -> Forall2 Rel (firstn n l1) (firstn n l2).
Proof. intros H. revert n. induction H; intros [|n]; cbn [firstn]; constructor; auto. Qed.

Lemma Forall2_pad {A B} (Rel : A -> B -> Prop) n a b l1 l2 :
  Rel a b -> Forall2 Rel l1 l2 -> Forall2 Rel (pad n a l1) (pad n b l2).
Proof. intros Hab H. unfold pad. apply Forall2_firstn, Forall2_app; [assumption|apply Forall2_repeat, Hab]. Qed.

Lemma Forall2_rev' {A B} (Rel : A -> B -> Prop) l1 l2 : Forall2 Rel l1 l2 -> Forall2 Rel (rev l1) (rev l2).
Proof. induction 1; cbn [rev]; [constructor|]. apply Forall2_app; [assumption|constructor; [assumption|constructor]]. Qed.

Lemma Forall2_concat {A B} (Rel : A -> B -> Prop) l1 l2 :
  Forall2 (Forall2 Rel) l1 l2 -> Forall2 Rel (concat l1) (concat l2).
Proof. induction 1; cbn [concat]; [constructor|apply Forall2_app; assumption]. Qed.

Lemma Forall2_take_while {A B} (Rel : A -> B -> Prop) (f : A -> bool) (g : B -> bool) l1 l2 :
  (forall x y, Rel x y -> f x = g y) -> Forall2 Rel l1 l2 ->
  length (take_while f l1) = length (take_while g l2).
Proof.
  intros Hfg H. induction H as [|x y l1 l2 Hxy Hl IH]; cbn [take_while]; [reflexivity|].
  rewrite (Hfg x y Hxy). destruct (g y); cbn [length]; congruence.
Qed.

Lemma Forall2_length {A B} (Rel : A -> B -> Prop) l1 l2 : Forall2 Rel l1 l2 -> length l1 = length l2.
Proof. induction 1; cbn [length]; congruence. Qed.

Lemma Forall2_nth {A B} (Rel : A -> B -> Prop) l1 l2 a b i :
  Rel a b -> Forall2 Rel l1 l2 -> Rel (nth i l1 a) (nth i l2 b).
Proof. intros Hab H. revert i. induction H; intros [|i]; cbn [nth]; auto. Qed.

Fixpoint drop_while {A} (f : A -> bool) (l : list A) : list A :=
  match l with [] => [] | x :: t => if f x then drop_while f t else l end.

Lemma take_drop {A} (f : A -> bool) l : l = take_while f l ++ drop_while f l.
Proof. induction l as [|x l IH]; cbn [take_while drop_while]; [reflexivity|]. destruct (f x); cbn [app]; congruence. Qed.

Lemma firstn_trailing {A} (f : A -> bool) l :
  firstn (length l - length (take_while f (rev l))) l = rev (drop_while f (rev l)).
Proof.
  pose proof (take_drop f (rev l)) as E.
  assert (l = rev (drop_while f (rev l)) ++ rev (take_while f (rev l))) as El
    by (rewrite <- rev_app_distr, <- E, rev_involutive; reflexivity).
  set (tw := take_while f (rev l)) in *. set (dw := drop_while f (rev l)) in *.
  assert (length l = length dw + length tw)%nat as Hl by (rewrite El at 1; rewrite app_length, !rev_length; reflexivity).
  replace (length l - length tw)%nat with (length (rev dw)) by (rewrite rev_length; lia).
  rewrite El at 1. rewrite firstn_app, Nat.sub_diag, firstn_O, app_nil_r. apply firstn_all.
Qed.

Lemma repeat_snoc {A} (x : A) n : repeat x n ++ [x] = x :: repeat x n.
Proof. induction n; cbn [repeat app]; [reflexivity|]. rewrite IHn. reflexivity. Qed.

Lemma rev_repeat' {A} (x : A) n : rev (repeat x n) = repeat x n.
Proof. induction n; cbn [repeat rev]; [reflexivity|]. rewrite IHn. apply repeat_snoc. Qed.

Lemma drop_while_repeat {A} (f : A -> bool) x j l : f x = true -> drop_while f (repeat x j ++ l) = drop_while f l.
Proof. intros H. induction j; cbn [repeat app drop_while]; [reflexivity|]. rewrite H. assumption. Qed.

Lemma firstn_app_len {A} n (l1 l2 : list A) : length l1 = n -> firstn n (l1 ++ l2) = l1.
Proof. intros <-. rewrite firstn_app, Nat.sub_diag, firstn_O, app_nil_r. apply firstn_all. Qed.

Lemma skipn_app_len {A} n (l1 l2 : list A) : length l1 = n -> skipn n (l1 ++ l2) = l2.
Proof. intros <-. rewrite skipn_app, Nat.sub_diag, skipn_all. reflexivity. Qed.

Lemma chunks_concat {A} n (ll : list (list A)) :
  (0 < n)%nat -> Forall (fun r => length r = n) ll -> chunks n (concat ll) = ll.
Proof.
  intros Hn H. unfold chunks.
  assert (forall fuel, (length ll <= fuel)%nat -> chunks_fuel fuel n (concat ll) = ll) as G.
  { induction H as [|r ll Hr Hll IH]; intros fuel Hf.
    - destruct fuel; reflexivity.
    - destruct fuel as [|fuel]; [cbn [length] in Hf; lia|]. cbn [concat chunks_fuel].
      destruct (r ++ concat ll) as [|a t] eqn:E.
      + apply (f_equal (@length A)) in E. rewrite app_length in E. cbn [length] in E. lia.
      + rewrite <- E. rewrite (firstn_app_len n r (concat ll) Hr), (skipn_app_len n r (concat ll) Hr).
        f_equal. apply IH. cbn [length] in Hf. lia. }
  apply G. clear G. induction H as [|r ll Hr Hll IH]; cbn [concat length]; [lia|]. rewrite app_length. lia.
Qed.

Lemma length_concat_uniform {A} n (ll : list (list A)) :
  Forall (fun r => length r = n) ll -> length (concat ll) = (length ll * n)%nat.
Proof. induction 1 as [|r ll Hr Hll IH]; cbn [concat length]; [reflexivity|]. rewrite app_length, IH, Hr. lia. Qed.

Definition is_blank (row : list Z) : bool := forallb (fun ch => ch =? SPACE) row.
(* Debug's view of a pattern: every row padded to SIZE columns, trailing blank rows dropped *)
Definition normalise (pat : list (list Z)) : list (list Z) :=
  rev (drop_while is_blank (rev (map (pad NS SPACE) pat))).

Definition pattern_wf (m : mapping) (pat : list (list Z)) : Prop :=
  (length pat <= NS)%nat /\ (exists w, (w <= NS)%nat /\ Forall (fun r => length r = w) pat) /\
  Forall (Forall (char_valid m)) pat.

Lemma row_blank m r chs : Forall2 (cc m) r chs -> row_is_empty r = is_blank chs.
Proof.
  induction 1 as [|c ch r chs Hc Hr IH]; [reflexivity|].
  unfold row_is_empty, is_blank in *. cbn [forallb]. rewrite IH, (cc_blank m c ch Hc). reflexivity.
Qed.

Lemma pattern_rows_ok m pat :
  In m all_mappings -> Forall (fun r => length r <= NS)%nat pat -> Forall (Forall (char_valid m)) pat ->
  exists rowsC, mapM (pattern_row m) pat = Ok rowsC /\
    Forall2 (Forall2 (cc m)) rowsC (map (pad NS SPACE) pat) /\ Forall (fun r => length r = NS) rowsC.
Proof.
  intros Hm Hl Hv. induction pat as [|r pat IH]; cbn [mapM map].
  - exists []. split; [reflexivity|]. split; constructor.
  - inversion Hl as [|? ? Hr Hl']; inversion Hv as [|? ? Hvr Hv']; subst.
    destruct (IH Hl' Hv') as [rowsC [E [F L]]].
    destruct (mapM_pattern_char m r Hm Hvr) as [cs [E1 F1]].
    exists (pad NS None cs :: rowsC). unfold pattern_row at 1. rewrite E1. cbn [bind]. rewrite E. cbn [bind].
    split; [reflexivity|]. split.
    + constructor; [|assumption]. apply Forall2_pad; [apply cc_none_space|assumption].
    + constructor; [apply pad_length|assumption].
Qed.

(* the list-level core of from_pattern followed by Debug *)
Lemma pattern_then_debug_core m pat :
  In m all_mappings -> pattern_wf m pat ->
  exists L, from_pattern m pat = bind (store_from (PositiveMap.empty Z) 0 L) (fun c => Ok (D c false false)) /\
    length L = (NS * NS)%nat /\
    Forall2 (cc m) L (concat (map (pad NS SPACE) pat ++ repeat (repeat SPACE NS) (NS - length pat))) /\
    mapM (mapM (enc m)) (firstn (NS - length (take_while row_is_empty (rev (chunks NS L)))) (chunks NS L)) = Ok (normalise pat).
Proof.
  intros Hm [Hh [[w [Hw Hrows]] Hv]].
  assert (0 < NS)%nat as HNS by (vm_compute; lia).
  destruct (pattern_rows_ok m pat Hm) as [rowsC [E [F Lr]]]; [revert Hrows; apply Forall_impl; intros; lia|assumption|].
  set (j := (NS - length pat)%nat).
  set (R' := rowsC ++ repeat (repeat (@None Z) NS) j).
  set (CH' := map (pad NS SPACE) pat ++ repeat (repeat SPACE NS) j).
  assert (length rowsC = length pat) as Hlr by (apply Forall2_length in F; rewrite map_length in F; exact F).
  assert (Forall (fun r => length r = NS) R') as HR'.
  { apply Forall_app. split; [assumption|]. apply Forall_forall. intros r Hr. apply repeat_spec in Hr. subst. apply repeat_length. }
  assert (length R' = NS) as HlR' by (unfold R'; rewrite app_length, repeat_length, Hlr; unfold j; lia).
  assert (Forall2 (Forall2 (cc m)) R' CH') as FR.
  { apply Forall2_app; [assumption|]. apply Forall2_repeat, Forall2_repeat, cc_none_space. }
  exists (concat R'). split; [|split; [|split]].
  - rewrite from_pattern_checked.
    + rewrite E. cbn [bind]. f_equal. f_equal. unfold R'. rewrite concat_app. apply pad_none_tail.
      * apply Forall_concat. apply Forall_forall. intros r Hr. apply repeat_spec in Hr. subst.
        apply Forall_forall. intros c Hc. apply repeat_spec in Hc. exact Hc.
      * rewrite <- concat_app. fold R'. rewrite (length_concat_uniform NS R' HR'), HlR'. symmetry. apply NSNS_NCELLS.
    + destruct pat as [|r t]; [pose proof SIZE_pos; lia|]. inversion Hrows; subst. unfold zlen. rewrite <- NS_SIZE. lia.
    + unfold zlen. rewrite <- NS_SIZE. lia.
    + destruct pat as [|r t]; [constructor|]. inversion Hrows as [|? ? Hr Ht]; subst.
      apply Forall_forall. intros r' Hr'. rewrite Forall_forall in Hrows. unfold zlen. rewrite (Hrows r' Hr'). reflexivity.
  - rewrite (length_concat_uniform NS R' HR'), HlR'. reflexivity.
  - apply Forall2_concat. exact FR.
  - rewrite (chunks_concat NS R' HNS HR').
    rewrite (Forall2_take_while (Forall2 (cc m)) row_is_empty is_blank (rev R') (rev CH') (row_blank m) (Forall2_rev' _ _ _ FR)).
    assert (length CH' = NS) as HlC by (apply Forall2_length in FR; congruence).
    rewrite (mapM_Forall2 (mapM (enc m)) (Forall2 (cc m)) (firstn (NS - length (take_while is_blank (rev CH'))) R')
                          (firstn (NS - length (take_while is_blank (rev CH'))) CH')).
    + f_equal. rewrite <- HlC at 1. rewrite firstn_trailing. unfold normalise, CH'.
      rewrite rev_app_distr, rev_repeat', drop_while_repeat; [reflexivity|].
      unfold is_blank. apply forallb_forall. intros ch Hc. apply repeat_spec in Hc. subst. apply Z.eqb_refl.
    + intros r chs Hr. apply (mapM_Forall2 (enc m) (cc m)); [|assumption]. intros c ch [H _]. exact H.
    + apply Forall2_firstn. exact FR.
Qed.

Lemma store_from_nth colors c c' :
  length colors = (NS * NS)%nat -> store_from c 0 colors = Ok c' ->
  forall j, 0 <= j < NCELLS -> cell c' j = nth (Z.to_nat j) colors None.
Proof.
  intros Hl E j Hj. assert (Z.of_nat (length colors) = NCELLS) as HZ by (rewrite Hl; vm_compute; reflexivity).
  destruct (store_from_ok colors c 0) as [c2 [E2 Hc]]; [lia|lia|]. rewrite E in E2. inversion E2; subst c2.
  rewrite (Hc j) by lia. replace ((0 <=? j) && (j <? 0 + Z.of_nat (length colors))) with true by lia.
  rewrite Z.sub_0_r. reflexivity.
Qed.

Lemma nth_nil {A} i (d : A) : nth i [] d = d.
Proof. destruct i; reflexivity. Qed.

Lemma nth_repeat' {A} (x d : A) n i : (i < n)%nat -> nth i (repeat x n) d = x.
Proof. revert i; induction n; intros i Hi; [lia|]. destruct i; cbn [repeat nth]; [reflexivity|apply IHn; lia]. Qed.

Lemma nth_firstn' {A} n i (l : list A) d : (i < n)%nat -> nth i (firstn n l) d = nth i l d.
Proof.
  revert i l; induction n; intros i l Hi; [lia|]. destruct l; cbn [firstn]; [reflexivity|].
  destruct i; cbn [nth]; [reflexivity|apply IHn; lia].
Qed.

Lemma nth_pad {A} n i (l : list A) d : (i < n)%nat -> nth i (pad n d l) d = nth i l d.
Proof.
  intros Hi. unfold pad. rewrite nth_firstn' by assumption.
  destruct (Nat.lt_ge_cases i (length l)).
  - apply app_nth1. assumption.
  - rewrite app_nth2 by assumption. rewrite (nth_overflow l) by assumption.
    destruct (Nat.lt_ge_cases (i - length l) n); [apply nth_repeat'; assumption|].
    apply nth_overflow. rewrite repeat_length. assumption.
Qed.

Lemma nth_concat_uniform {A} n (ll : list (list A)) d x y :
  Forall (fun r => length r = n) ll -> (x < n)%nat ->
  nth (x + y * n) (concat ll) d = nth x (nth y ll []) d.
Proof.
  intros H Hx. revert y. induction H as [|r ll Hr Hll IH]; intros y.
  - cbn [concat]. rewrite !nth_nil. reflexivity.
  - cbn [concat]. destruct y as [|y]; cbn [nth Nat.mul].
    + rewrite Nat.add_0_r. apply app_nth1. lia.
    + rewrite app_nth2 by lia. rewrite <- IH. f_equal. lia.
Qed.

Lemma nth_rows_padded pat j y :
  (y < length pat + j)%nat ->
  nth y (map (pad NS SPACE) pat ++ repeat (repeat SPACE NS) j) [] = pad NS SPACE (nth y pat []).
Proof.
  intros Hy. destruct (Nat.lt_ge_cases y (length pat)).
  - rewrite app_nth1 by (rewrite map_length; assumption).
    rewrite (nth_indep _ [] (pad NS SPACE [])) by (rewrite map_length; assumption). apply map_nth.
  - rewrite app_nth2 by (rewrite map_length; assumption). rewrite map_length.
    rewrite nth_repeat' by lia. rewrite (nth_overflow pat) by assumption.
    unfold pad. cbn [app]. symmetry. apply firstn_all2. rewrite repeat_length. lia.
Qed.

(* C20 pattern_debug_roundtrip, direction from_pattern -> Debug, and the meaning of a pattern:
   from_pattern accepts every well-formed pattern over the character set, the cell (x, y) holds the colour of the
   character in row y, column x (None for ' ' and beyond the pattern), and Debug prints the pattern back *)
Theorem pattern_then_debug m pat :
  In m all_mappings -> pattern_wf m pat ->
  exists d, from_pattern m pat = Ok d /\
    debug_rows m d = Ok (normalise pat) /\
    forall x y, 0 <= x < SIZE -> 0 <= y < SIZE ->
      exists c, get_pixel d (P x y) = Ok c /\ cc m c (nth (Z.to_nat x) (nth (Z.to_nat y) pat []) SPACE).
Proof.
  intros Hm Hwf. destruct (pattern_then_debug_core m pat Hm Hwf) as [L [E [HL [F HD]]]].
  destruct (store_from_cells_list L (PositiveMap.empty Z) HL) as [c' [Es Hc']].
  rewrite Es in E. cbn [bind] in E. exists (D c' false false). split; [exact E|]. split.
  - rewrite debug_rows_eq, empty_rows_eq, Hc'. exact HD.
  - intros x y Hx Hy. rewrite get_pixel_gp. eexists. split; [reflexivity|].
    assert (in_display (P x y)) as Hin by (unfold in_display; cbn [px py]; lia).
    unfold gp. rewrite (proj2 (in_displayb_spec _) Hin). cbn [cells].
    pose proof (idx_in_array _ Hin) as Ha. unfold in_array in Ha.
    rewrite (store_from_nth L _ c' HL Es) by lia.
    destruct Hwf as [Hh [[w [Hw Hrows]] Hv]].
    assert (Z.to_nat (idx (P x y)) = Z.to_nat x + Z.to_nat y * NS)%nat as Ei.
    { unfold idx; cbn [px py]. rewrite <- NS_SIZE. lia. }
    rewrite Ei.
    pose proof (Forall2_nth (cc m) _ _ None SPACE (Z.to_nat x + Z.to_nat y * NS) (cc_none_space m) F) as Hcc.
    assert (Z.to_nat x < NS)%nat as Hxn by (rewrite <- NS_SIZE in Hx; lia).
    assert (Z.to_nat y < NS)%nat as Hyn by (rewrite <- NS_SIZE in Hy; lia).
    rewrite (nth_concat_uniform NS) in Hcc; [| |assumption].
    + rewrite nth_rows_padded in Hcc by lia. rewrite nth_pad in Hcc by assumption. exact Hcc.
    + apply Forall_app. split.
      * apply Forall_forall. intros r Hr. apply in_map_iff in Hr. destruct Hr as [r0 [<- _]]. apply pad_length.
      * apply Forall_forall. intros r Hr. apply repeat_spec in Hr. subst. apply repeat_length.
Qed.

(* both directions compose: a well-formed pattern, printed and parsed again, gives an equal display *)
Corollary pattern_debug_pattern m pat d :
  In m all_mappings -> pattern_wf m pat -> from_pattern m pat = Ok d ->
  exists d', from_pattern m (normalise pat) = Ok d' /\ mock_eq d' d = true.
Proof.
  intros Hm Hwf E. destruct (pattern_then_debug m pat Hm Hwf) as [d0 [E0 [HD Hpix]]].
  rewrite E in E0. inversion E0; subst d0.
  assert (display_over m d) as Hover.
  { intros p v Hp. rewrite get_pixel_gp in Hp. inversion Hp as [Hg].
    assert (in_display p) as Hin.
    { destruct (in_displayb p) eqn:Eb; [apply in_displayb_spec, Eb|]. unfold gp in Hg. rewrite Eb in Hg. discriminate. }
    destruct p as [x y]. destruct (Hpix x y (proj1 Hin) (proj2 Hin)) as [c [Ec [_ Hc]]].
    rewrite get_pixel_gp in Ec. inversion Ec as [Ec']. rewrite Hg in Ec'. subst c.
    set (ch := nth (Z.to_nat x) (nth (Z.to_nat y) pat []) SPACE) in *.
    assert (char_valid m ch) as Hcv.
    { destruct Hwf as [_ [_ Hv]]. unfold ch.
      destruct (Nat.lt_ge_cases (Z.to_nat y) (length pat)) as [Hy|Hy].
      - assert (In (nth (Z.to_nat y) pat []) pat) as Hr by (apply nth_In; assumption).
        rewrite Forall_forall in Hv. specialize (Hv _ Hr). rewrite Forall_forall in Hv.
        destruct (Nat.lt_ge_cases (Z.to_nat x) (length (nth (Z.to_nat y) pat []))) as [Hx|Hx].
        + apply Hv, nth_In, Hx.
        + rewrite nth_overflow by assumption. left. reflexivity.
      - rewrite (nth_overflow pat) by assumption. rewrite nth_nil. left. reflexivity. }
    destruct (pattern_char_roundtrip m ch Hm Hcv) as [c2 [E2 [_ Hval]]]. rewrite Hc in E2. inversion E2; subst c2.
    exact Hval. }
  destruct (debug_then_pattern m d Hm Hover) as [rows [d' [E1 [_ [E2 E3]]]]].
  rewrite HD in E1. inversion E1; subst rows. exists d'. auto.
Qed.

(* ---- the character sets, pinned to the documented tables (module docs of mock_display) --------------- *)
Definition HEX_UPPER : list Z := [48; 49; 50; 51; 52; 53; 54; 55; 56; 57; 65; 66; 67; 68; 69; 70].  (* 0-9 A-F *)
Definition RGB_CHARS : list Z := [75; 82; 71; 66; 89; 77; 67; 87].                                    (* K R G B Y M C W *)

Fixpoint nodupb (l : list Z) : bool :=
  match l with [] => true | x :: t => negb (existsb (Z.eqb x) t) && nodupb t end.

Lemma nodupb_sound l : nodupb l = true -> NoDup l.
Proof.
  induction l as [|x t IH]; cbn [nodupb]; intros H; constructor.
  - apply andb_true_iff in H. destruct H as [H _]. intros Hin.
    assert (existsb (Z.eqb x) t = true) as Hex by (apply existsb_exists; exists x; split; [assumption|apply Z.eqb_refl]).
    rewrite Hex in H. discriminate.
  - apply IH. apply andb_true_iff in H. tauto.
Qed.

Lemma character_sets :
  m_col2c map_BinaryColor = [(0, 46); (1, 35)] /\                                         (* '.' Off, '#' On *)
  m_col2c map_Gray2 = zip (range 0 4) (firstn 4 HEX_UPPER) /\
  m_col2c map_Gray4 = zip (range 0 16) HEX_UPPER /\
  m_col2c map_Gray8 = zip (map (fun k => 17 * k) (range 0 16)) HEX_UPPER /\               (* multiples of 0x11 *)
  Forall (fun m => charset m = RGB_CHARS /\ NoDup (colset m))
         [map_Rgb332; map_Rgb444; map_Rgb555; map_Bgr555; map_Rgb565; map_Bgr565; map_Rgb888; map_Bgr888] /\
  (* Rgb888: black, red, green, blue, yellow, magenta, cyan, white *)
  colset map_Rgb888 = [0; 16711680; 65280; 255; 16776960; 16711935; 65535; 16777215] /\
  all_mappings = [map_BinaryColor; map_Gray2; map_Gray4; map_Gray8; map_Rgb332; map_Rgb444; map_Rgb555; map_Bgr555;
                  map_Rgb565; map_Bgr565; map_Rgb888; map_Bgr888].
Proof.
  repeat split; try reflexivity.
  apply Forall_forall. intros m Hm. cbn [In] in Hm.
  repeat (destruct Hm as [<-|Hm]; [split; [reflexivity|apply nodupb_sound; reflexivity]|]). contradiction.
Qed.

(* ---- restatements through get_pixel (for Properties/C20.v) ------------------------------------------- *)
Lemma get_pixel_outside d p : ~ in_display p -> get_pixel d p = Ok None.
Proof. intros H. rewrite get_pixel_gp, gp_outside by assumption. reflexivity. Qed.

Lemma draw_pixel_effect d p c d' :
  draw_pixel d p c = Ok d' ->
  allow_overdraw d' = allow_overdraw d /\ allow_oob d' = allow_oob d /\
  forall q, get_pixel d' q = if in_displayb p && point_eqb q p then Ok (Some c) else get_pixel d q.
Proof.
  intros H. apply draw_pixel_ok in H. destruct H as [Ha [Hb Hg]]. split; [assumption|]. split; [assumption|].
  intros q. rewrite !get_pixel_gp, Hg. destruct (in_displayb p && point_eqb q p); reflexivity.
Qed.

Lemma diff_pixel' a b df p ca cb :
  diff a b = Ok df -> get_pixel a p = Ok ca -> get_pixel b p = Ok cb ->
  get_pixel df p = Ok (if in_displayb p then diff_color ca cb else None).
Proof.
  intros E Ha Hb. rewrite get_pixel_gp in Ha, Hb. inversion Ha; inversion Hb; subst. apply diff_pixel, E.
Qed.

(* the colours of diff, pinned to the documented table (GREEN only in self, RED only in other, BLUE different) *)
Lemma diff_colours : DIFF_ONLY_SELF = 65280 /\ DIFF_ONLY_OTHER = 16711680 /\ DIFF_DIFFERENT = 255.
Proof. repeat split; reflexivity. Qed.

(* ===== Part 6: a reference machine without array, for ARBITRARY histories (flag changes and set_pixel included) ===== *)
Record rstate := RS { r_ao : bool; r_ab : bool; r_evs : list (point * option Z) }.

(* content of a cell = what the last event at it says *)
Definition content (evs : list (point * option Z)) (p : point) : option Z :=
  match last_event p evs with Some v => v | None => None end.

Fixpoint ref_pixels (s : rstate) (ws : list (point * Z)) : result rstate :=
  match ws with
  | [] => Ok s
  | (p, c) :: t =>
      if negb (in_displayb p) then (if r_ab s then ref_pixels s t else Panic POutOfBounds)
      else if negb (r_ao s) && is_some (content (r_evs s) p) then Panic POverdraw
      else ref_pixels (RS (r_ao s) (r_ab s) (r_evs s ++ [(p, Some c)])) t
  end.

Definition ref_op (s : rstate) (o : op) : result rstate :=
  match o with
  | OpSetPixel p v => if in_displayb p then Ok (RS (r_ao s) (r_ab s) (r_evs s ++ [(p, v)])) else Panic PSetPixel
  | OpSetPixels l v =>
      if forallb in_displayb l then Ok (RS (r_ao s) (r_ab s) (r_evs s ++ map (fun p => (p, v)) l)) else Panic PSetPixel
  | OpSetAllowOverdraw b => Ok (RS b (r_ab s) (r_evs s))
  | OpSetAllowOob b => Ok (RS (r_ao s) b (r_evs s))
  | _ => ref_pixels s (requested o)
  end.

Definition ref_run (s : rstate) (ops : list op) : result rstate :=
  fold_left (fun r o => bind r (fun s' => ref_op s' o)) ops (Ok s).

Definition sim (d : display) (s : rstate) : Prop :=
  allow_overdraw d = r_ao s /\ allow_oob d = r_ab s /\ forall p, in_display p -> gp d p = content (r_evs s) p.

Definition agree {A B} (Rel : A -> B -> Prop) (x : result A) (y : result B) : Prop :=
  match x, y with
  | Ok a, Ok b => Rel a b
  | Panic k, Panic k' => k = k'
  | _, _ => False
  end.

Lemma content_snoc evs q v p : content (evs ++ [(q, v)]) p = if point_eqb p q then v else content evs p.
Proof.
  unfold content. rewrite last_event_app. cbn [last_event]. destruct (point_eqb p q); reflexivity.
Qed.

Lemma sim_pixels d s ws : sim d s -> agree sim (draw_iter d ws) (ref_pixels s ws).
Proof.
  revert d s; induction ws as [|[q c] t IH]; intros d s Hs; cbn [draw_iter ref_pixels].
  - exact Hs.
  - destruct Hs as [Ha [Hb Hg]]. rewrite draw_pixel_spec. destruct (in_displayb q) eqn:Eq; cbn [negb].
    + pose proof (proj1 (in_displayb_spec q) Eq) as Hq. rewrite (Hg q Hq), Ha.
      destruct (negb (r_ao s) && is_some (content (r_evs s) q)); cbn [bind]; [reflexivity|].
      apply IH. split; [exact Ha|]. split; [exact Hb|]. cbn [r_evs]. intros p Hp.
      rewrite gp_put, content_snoc by assumption. destruct (point_eqb p q); [reflexivity|apply Hg, Hp].
    + rewrite Hb. destruct (r_ab s) eqn:Eb; cbn [bind]; [|reflexivity]. apply IH. split; [exact Ha|]. split; [congruence|exact Hg].
Qed.

Lemma ref_op_draw s o : is_draw o = true -> ref_op s o = ref_pixels s (requested o).
Proof. destruct o; cbn [is_draw ref_op]; intros H; try discriminate H; reflexivity. Qed.

Lemma sim_op d s o : sim d s -> agree sim (apply_op d o) (ref_op s o).
Proof.
  intros Hs. destruct (is_draw o) eqn:Ed.
  - rewrite requested_draw, ref_op_draw by assumption. apply sim_pixels, Hs.
  - destruct Hs as [Ha [Hb Hg]]. destruct o; try discriminate; cbn [apply_op ref_op].
    + rewrite set_pixel_spec. destruct (in_displayb p) eqn:Ep; [|reflexivity].
      split; [exact Ha|]. split; [exact Hb|]. cbn [r_evs]. intros q Hq.
      rewrite gp_put, content_snoc by (apply in_displayb_spec, Ep). destruct (point_eqb q p); [reflexivity|apply Hg, Hq].
    + rewrite set_pixels_spec. destruct (forallb in_displayb l) eqn:El; [|reflexivity].
      destruct (flags_fold_put l d v) as [Fa Fb].
      split; [rewrite Fa; exact Ha|]. split; [rewrite Fb; exact Hb|]. cbn [r_evs]. intros q Hq.
      rewrite gp_fold_put by (apply Forall_forall; intros x Hx; rewrite forallb_forall in El; apply in_displayb_spec, El, Hx).
      unfold content. rewrite last_event_app, last_event_const.
      destruct (existsb (point_eqb q) l); [reflexivity|]. apply Hg, Hq.
    + split; [reflexivity|]. split; [exact Hb|exact Hg].
    + split; [exact Ha|]. split; [reflexivity|exact Hg].
Qed.

Lemma ref_run_cons s o ops : ref_run s (o :: ops) = bind (ref_op s o) (fun s' => ref_run s' ops).
Proof.
  unfold ref_run. cbn [fold_left bind]. destruct (ref_op s o); cbn [bind]; [reflexivity|apply fold_panic].
Qed.

Lemma sim_run d s ops : sim d s -> agree sim (run d ops) (ref_run s ops).
Proof.
  revert d s; induction ops as [|o ops IH]; intros d s Hs.
  - exact Hs.
  - rewrite run_cons, ref_run_cons. pose proof (sim_op d s o Hs) as H.
    destruct (apply_op d o); destruct (ref_op s o); cbn [agree bind] in *; try contradiction; [apply IH, H|exact H].
Qed.

(* C20, both halves at once for ANY history: the array implementation and the array-free reference machine panic at the
   same operation with the same kind, or both finish and get_pixel reads the reference content *)
Theorem mock_refines_reference ops :
  agree (fun d s => allow_overdraw d = r_ao s /\ allow_oob d = r_ab s /\
                    forall p, get_pixel d p = Ok (if in_displayb p then content (r_evs s) p else None))
        (run new_display ops) (ref_run (RS false false []) ops).
Proof.
  assert (sim new_display (RS false false [])) as H0.
  { split; [reflexivity|]. split; [reflexivity|]. intros p _. rewrite gp_new. reflexivity. }
  pose proof (sim_run _ _ ops H0) as H.
  destruct (run new_display ops) as [d|k]; destruct (ref_run _ ops) as [s|k']; cbn [agree] in *; try contradiction; [|exact H].
  destruct H as [Ha [Hb Hg]]. split; [exact Ha|]. split; [exact Hb|]. intros p. rewrite get_pixel_gp. f_equal.
  destruct (in_displayb p) eqn:E; [apply Hg, in_displayb_spec, E|apply gp_outside, in_displayb_false, E].
Qed.

Corollary mock_panic_iff_any ops k :
  run new_display ops = Panic k <-> ref_run (RS false false []) ops = Panic k.
Proof.
  pose proof (mock_refines_reference ops) as H.
  destruct (run new_display ops); destruct (ref_run _ ops); cbn [agree] in H; try contradiction.
  - split; discriminate.
  - subst. split; intros E; inversion E; reflexivity.
Qed.

(* ===== Part 7: map, from_points ===================================================================== *)
Lemma map_loop_ok f a acc l :
  Forall in_display l ->
  exists acc', map_loop f a acc l = Ok acc' /\
    forall q, gp acc' q = if existsb (point_eqb q) l then option_map f (gp a q) else gp acc q.
Proof.
  revert acc; induction l as [|p t IH]; intros acc Hl; cbn [map_loop existsb].
  - exists acc. split; reflexivity.
  - inversion Hl as [|? ? Hp Ht]; subst. rewrite !get_pixel_gp. cbn [bind].
    rewrite set_pixel_unchecked_ok by assumption. cbn [bind].
    destruct (IH (put acc p (option_map f (gp a p))) Ht) as [acc' [E Hg]].
    exists acc'. split; [assumption|]. intros q. rewrite Hg, gp_put by assumption.
    destruct (existsb (point_eqb q) t); [rewrite orb_true_r; reflexivity|]. rewrite orb_false_r.
    destruct (point_eqb q p) eqn:Eq; [apply point_eqb_spec in Eq; subst; reflexivity|reflexivity].
Qed.

(* map applies the function to every touched cell and touches no other *)
Theorem map_display_spec f a :
  exists t, map_display f a = Ok t /\
    forall p, get_pixel t p = match get_pixel a p with Ok c => Ok (option_map f c) | Panic k => Panic k end.
Proof.
  unfold map_display. destruct (map_loop_ok f a new_display _ points_bb_in_display) as [t [E Hg]].
  exists t. split; [assumption|]. intros p. rewrite !get_pixel_gp, Hg, existsb_points_bb, gp_new. f_equal.
  destruct (in_displayb p) eqn:Ep; [reflexivity|].
  rewrite gp_outside by (apply in_displayb_false, Ep). reflexivity.
Qed.

(* from_points: panics (set_pixel's assertion) exactly when some point is outside the display; otherwise exactly the
   listed points hold the colour *)
Theorem from_points_spec l c :
  (forallb in_displayb l = false -> from_points l c = Panic PSetPixel) /\
  (forallb in_displayb l = true ->
     exists d, from_points l c = Ok d /\
       forall p, get_pixel d p = Ok (if existsb (point_eqb p) l then Some c else None)).
Proof.
  unfold from_points. rewrite set_pixels_spec. split; intros H; rewrite H; [reflexivity|].
  eexists. split; [reflexivity|]. intros p. rewrite get_pixel_gp, gp_fold_put, gp_new; [reflexivity|].
  apply Forall_forall. intros q Hq. rewrite forallb_forall in H. apply in_displayb_spec, H, Hq.
Qed.

(* ---- no lossy pattern character: whatever char_to_color accepts prints back as itself (ASCII upper-cased) ---- *)
Definition ascii_upper (ch : Z) : Z := if (97 <=? ch) && (ch <=? 122) then ch - 32 else ch.
Definition accepted_ok (m : mapping) : bool :=
  forallb (fun cv : Z * Z => match color_to_char m (snd cv) with Ok ch => ch =? ascii_upper (fst cv) | Panic _ => false end)
          (m_c2col m).

Lemma all_accepted_ok : forallb accepted_ok all_mappings = true.
Proof. vm_compute. reflexivity. Qed.

Theorem accepted_chars_roundtrip m ch v :
  In m all_mappings -> char_to_color m ch = Ok v -> color_to_char m v = Ok (ascii_upper ch) /\ In (ascii_upper ch) (charset m).
Proof.
  intros Hm E. pose proof all_accepted_ok as H. rewrite forallb_forall in H. specialize (H m Hm).
  unfold accepted_ok in H. rewrite forallb_forall in H.
  unfold char_to_color in E. destruct (lookup ch (m_c2col m)) as [v'|] eqn:El; [|discriminate]. inversion E; subst v'.
  assert (In (ch, v) (m_c2col m)) as Hin.
  { clear H E. induction (m_c2col m) as [|[a b] t IH]; cbn [lookup] in El; [discriminate|].
    destruct (a =? ch) eqn:Ea; [inversion El; subst; left; f_equal; lia|right; apply IH, El]. }
  specialize (H _ Hin). cbn [fst snd] in H. destruct (color_to_char m v) as [c|] eqn:Ec; [|discriminate].
  assert (c = ascii_upper ch) by lia. subst c. split; [reflexivity|].
  (* the printed character belongs to the character set: either a table row or ... the default arm is excluded by the check below *)
  unfold color_to_char in Ec. destruct (lookup v (m_col2c m)) as [c2|] eqn:E2.
  - inversion Ec; subst. unfold charset. apply in_map_iff. exists (v, ascii_upper ch). split; [reflexivity|].
    clear H Hin El. induction (m_col2c m) as [|[a b] t IH]; cbn [lookup] in E2; [discriminate|].
    destruct (a =? v) eqn:Ea; [inversion E2; subst; left; f_equal; lia|right; apply IH, E2].
  - exfalso. revert Hm Hin E2. clear. intros Hm Hin E2.
    assert (forallb (fun m => forallb (fun cv : Z * Z => is_some (lookup (snd cv) (m_col2c m))) (m_c2col m)) all_mappings = true) as G
      by (vm_compute; reflexivity).
    rewrite forallb_forall in G. specialize (G m Hm). rewrite forallb_forall in G. specialize (G _ Hin). cbn [snd] in G.
    rewrite E2 in G. discriminate.
Qed.

(* ===== Part 8: further statements ===================================================================== *)
(* histories from an arbitrary state *)
Theorem history_from_any_state d ops d' :
  run d ops = Ok d' ->
  forall p c, get_pixel d p = Ok c ->
    get_pixel d' p = Ok (if in_displayb p then match last_event p (flat_map events ops) with Some v => v | None => c end else None).
Proof.
  intros H p c Hc. rewrite get_pixel_gp in Hc. inversion Hc; subst c. rewrite get_pixel_gp. f_equal.
  destruct (in_displayb p) eqn:E.
  - apply in_displayb_spec in E. apply (run_ok _ _ _ H p E).
  - apply gp_outside, in_displayb_false, E.
Qed.

(* Debug never panics: every raw value of every colour type has a character (its own or '?') *)
Definition total_ok (m : mapping) : bool :=
  match m_default m with
  | Some _ => true
  | None => forallb (fun v => is_some (lookup v (m_col2c m))) (range 0 (m_nvalues m))
  end.

Lemma all_total_ok : forallb total_ok all_mappings = true.
Proof. vm_compute. reflexivity. Qed.

Theorem color_to_char_total m v :
  In m all_mappings -> 0 <= v < m_nvalues m -> exists ch, color_to_char m v = Ok ch.
Proof.
  intros Hm Hv. pose proof all_total_ok as H. rewrite forallb_forall in H. specialize (H m Hm).
  unfold total_ok in H. unfold color_to_char. destruct (lookup v (m_col2c m)) as [ch|] eqn:El; [eauto|].
  destruct (m_default m) as [ch|]; [eauto|]. rewrite forallb_forall in H.
  specialize (H v (proj2 (In_range _ _ _) Hv)). rewrite El in H. discriminate.
Qed.

Lemma mapM_total {A B} (f : A -> result B) l :
  (forall x, In x l -> exists y, f x = Ok y) -> exists ys, mapM f l = Ok ys /\ length ys = length l.
Proof.
  induction l as [|x l IH]; intros H; cbn [mapM].
  - exists []. auto.
  - destruct (H x (or_introl eq_refl)) as [y Ey]. destruct IH as [ys [E L]]; [intros z Hz; apply H; right; exact Hz|].
    exists (y :: ys). rewrite Ey, E. cbn [bind length]. auto.
Qed.

Theorem debug_rows_total m d :
  In m all_mappings ->
  (forall p v, get_pixel d p = Ok (Some v) -> 0 <= v < m_nvalues m) ->
  exists rows, debug_rows m d = Ok rows /\ (length rows <= NS)%nat /\ Forall (fun r => length r = NS) rows.
Proof.
  intros Hm Hd. rewrite debug_rows_eq.
  pose proof (chunks_cells d) as HR. cbv zeta in HR. destruct HR as [HRc [HRl HRr]].
  assert (Forall (fun c => match c with Some v => 0 <= v < m_nvalues m | None => True end) (cells_list d)) as Hval.
  { unfold cells_list. apply Forall_forall. intros c Hc. apply in_map_iff in Hc. destruct Hc as [i [<- Hi]].
    apply In_range in Hi. destruct (idx_pt i Hi) as [Ei Hdp]. destruct (cell (cells d) i) as [v|] eqn:Ec; [|exact I].
    apply (Hd (pt i)). rewrite get_pixel_gp. unfold gp. apply in_displayb_spec in Hdp. rewrite Hdp, Ei, Ec. reflexivity. }
  remember (cells_list d) as L eqn:EL. clear EL. remember (chunks NS L) as R eqn:ER. clear ER.
  remember (NS - empty_rows d)%nat as k eqn:Ek. clear Ek.
  assert (forall r, In r (firstn k R) -> In r R) as Hin by (intros r; apply In_firstn).
  destruct (mapM_total (mapM (enc m)) (firstn k R)) as [rows [E L']].
  { intros r Hr. specialize (Hin r Hr).
    destruct (mapM_total (enc m) r) as [chs [E1 _]]; [|eauto].
    intros c Hc. assert (In c L) as HcL by (rewrite <- HRc; apply in_concat; exists r; auto).
    rewrite Forall_forall in Hval. specialize (Hval c HcL). destruct c as [v|]; cbn [enc]; [|eauto].
    apply color_to_char_total; assumption. }
  exists rows. split; [exact E|]. split.
  - rewrite L', firstn_length, HRl. lia.
  - clear L'. revert rows E. induction (firstn k R) as [|r t IH]; intros rows E; cbn [mapM] in E.
    + inversion E. constructor.
    + destruct (mapM (enc m) r) as [chs|] eqn:E1; cbn [bind] in E; [|discriminate].
      destruct (mapM (mapM (enc m)) t) as [rest|] eqn:E2; cbn [bind] in E; [|discriminate]. inversion E; subst rows.
      constructor.
      * rewrite (mapM_length _ _ _ E1). rewrite Forall_forall in HRr. apply HRr, Hin. left. reflexivity.
      * apply IH; [intros r' Hr'; apply Hin; right; exact Hr'|reflexivity].
Qed.

(* ===== Part 9 (audit round 1) ========================================================================= *)
(* the default arm of color_to_char: a character that is neither ' ' nor the character of any colour *)
Definition default_ok (m : mapping) : bool :=
  match m_default m with
  | None => true
  | Some ch => negb (existsb (Z.eqb ch) (charset m)) && negb (ch =? SPACE)
  end.

Lemma all_default_ok : forallb default_ok all_mappings = true.
Proof. vm_compute. reflexivity. Qed.

(* the default arm is '?' wherever there is one (BinaryColor, Gray2, Gray4 have none: total tables) *)
Lemma default_chars : Forall (fun m => m_default m = None \/ m_default m = Some 63) all_mappings.
Proof. repeat constructor; (left; reflexivity) || (right; reflexivity). Qed.

Lemma lookup_In k l v : lookup k l = Some v -> In (k, v) l.
Proof.
  induction l as [|[a b] t IH]; cbn [lookup]; [discriminate|].
  destruct (a =? k) eqn:Ea; [intros H; inversion H; subst; left; f_equal; lia|intros H; right; apply IH, H].
Qed.

(* whatever Debug prints for a colour is not ' ', and if it is a character of the set then the colour is THE colour of
   that character: colours outside the set never print as a pattern character (they print as the default '?') *)
Theorem debug_char_identifies_colour m v ch :
  In m all_mappings -> color_to_char m v = Ok ch ->
  ch <> SPACE /\ (In ch (charset m) -> In v (colset m) /\ char_to_color m ch = Ok v).
Proof.
  intros Hm E. unfold color_to_char in E. destruct (lookup v (m_col2c m)) as [c|] eqn:El.
  - inversion E; subst c. pose proof (lookup_In _ _ _ El) as Hrow.
    assert (In v (colset m)) as Hv by (unfold colset; apply in_map_iff; exists (v, ch); auto).
    destruct (colset_roundtrip m v Hm Hv) as [ch' [E1 [E2 [E3 _]]]].
    assert (ch' = ch) by (unfold color_to_char in E1; rewrite El in E1; inversion E1; reflexivity).
    subst ch'. split; [assumption|]. intros _. split; assumption.
  - pose proof all_default_ok as H. rewrite forallb_forall in H. specialize (H m Hm). unfold default_ok in H.
    destruct (m_default m) as [c|]; [|discriminate]. inversion E; subst c.
    apply andb_true_iff in H. destruct H as [H1 H2]. split; [lia|]. intros Hin. exfalso.
    assert (existsb (Z.eqb ch) (charset m) = true) as Hex by (apply existsb_exists; exists ch; split; [assumption|apply Z.eqb_refl]).
    rewrite Hex in H1. discriminate.
Qed.

(* distinct colours of the set print distinct characters *)
Corollary debug_chars_distinct m v1 v2 ch :
  In m all_mappings -> In v1 (colset m) -> color_to_char m v1 = Ok ch -> color_to_char m v2 = Ok ch -> v1 = v2.
Proof.
  intros Hm H1 E1 E2. destruct (colset_roundtrip m v1 Hm H1) as [c [F1 [F2 [_ F4]]]]. rewrite E1 in F1. inversion F1; subst c.
  destruct (debug_char_identifies_colour m v2 ch Hm E2) as [_ H]. destruct (H F4) as [_ G]. congruence.
Qed.

Lemma get_pixel_total d p : exists c, get_pixel d p = Ok c.
Proof. eexists. apply get_pixel_gp. Qed.

(* the eight named colours K R G B Y M C W of every RGB type, as raw values (channel maxima at the type's bit positions) *)
Lemma rgb_colour_sets :
  colset map_Rgb332 = [0; 224; 28; 3; 252; 227; 31; 255] /\
  colset map_Rgb444 = [0; 3840; 240; 15; 4080; 3855; 255; 4095] /\
  colset map_Rgb555 = [0; 31744; 992; 31; 32736; 31775; 1023; 32767] /\
  colset map_Bgr555 = [0; 31; 992; 31744; 1023; 31775; 32736; 32767] /\
  colset map_Rgb565 = [0; 63488; 2016; 31; 65504; 63519; 2047; 65535] /\
  colset map_Bgr565 = [0; 31; 2016; 63488; 2047; 63519; 65504; 65535] /\
  colset map_Rgb888 = [0; 16711680; 65280; 255; 16776960; 16711935; 65535; 16777215] /\
  colset map_Bgr888 = [0; 255; 65280; 16711680; 65535; 16711935; 16776960; 16777215].
Proof. repeat split; reflexivity. Qed.

(* ---- the Debug text in terms of the printed rows ------------------------------------------------------ *)
Lemma empty_rows_le d : (empty_rows d <= NS)%nat.
Proof.
  rewrite empty_rows_eq. pose proof (chunks_cells d) as HR. cbv zeta in HR. destruct HR as [_ [HRl _]].
  pose proof (trailing_split row_is_empty (chunks NS (cells_list d))) as HT. cbv zeta in HT. destruct HT as [He _].
  rewrite HRl in He. exact He.
Qed.

Lemma debug_rows_length m d rows : debug_rows m d = Ok rows -> length rows = (NS - empty_rows d)%nat.
Proof.
  rewrite debug_rows_eq. intros H. apply mapM_length in H. rewrite H, firstn_length.
  pose proof (chunks_cells d) as HR. cbv zeta in HR. destruct HR as [_ [HRl _]]. rewrite HRl. lia.
Qed.

(* what Debug writes: header, the rows each followed by '\n', "(n empty rows skipped)" with n = 64 - printed rows when n > 0, "]" *)
Theorem debug_string_rows m d rows :
  debug_rows m d = Ok rows ->
  zlen rows <= SIZE /\
  debug_string m d =
    Ok (STR_HEAD ++ [10] ++ concat (map (fun r => r ++ [10]) rows)
        ++ (if zlen rows <? SIZE then [40] ++ decimal (SIZE - zlen rows) ++ STR_SKIP ++ [10] else []) ++ [93; 10]).
Proof.
  intros H. pose proof (debug_rows_length m d rows H) as HL. pose proof (empty_rows_le d) as He.
  assert (Z.of_nat (empty_rows d) = SIZE - zlen rows) as Ee by (unfold zlen; rewrite HL, <- NS_SIZE; lia).
  split; [unfold zlen; rewrite HL, <- NS_SIZE; lia|].
  unfold debug_string. rewrite H. cbn [bind]. cbv zeta. rewrite Ee.
  replace (0 <? SIZE - zlen rows) with (zlen rows <? SIZE) by lia. reflexivity.
Qed.

(* the number is printed in decimal *)
Lemma decimal_small : forallb (fun n => match decimal n with
                                         | [a] => (n <? 10) && (a =? 48 + n)
                                         | [a; b] => (10 <=? n) && (a =? 48 + n / 10) && (b =? 48 + n mod 10)
                                         | _ => false end) (range 0 100) = true.
Proof. vm_compute. reflexivity. Qed.

Theorem decimal_spec n : 0 <= n < 100 -> decimal n = if n <? 10 then [48 + n] else [48 + n / 10; 48 + n mod 10].
Proof.
  intros Hn. pose proof decimal_small as H. rewrite forallb_forall in H. specialize (H n (proj2 (In_range _ _ _) Hn)).
  destruct (decimal n) as [|a [|b [|c t]]]; try discriminate.
  - apply andb_true_iff in H. destruct H as [H1 H2]. rewrite H1. f_equal. lia.
  - apply andb_true_iff in H. destruct H as [H H3]. apply andb_true_iff in H. destruct H as [H1 H2].
    replace (n <? 10) with false by lia. f_equal; [lia|f_equal; lia].
Qed.

(* ---- patterns in any case: lower-case hex digits are accepted and print back in upper case ------------- *)
Definition char_accepted (m : mapping) (ch : Z) : Prop := ch = SPACE \/ exists v, char_to_color m ch = Ok v.
Definition pattern_wf_any (m : mapping) (pat : list (list Z)) : Prop :=
  (length pat <= NS)%nat /\ (exists w, (w <= NS)%nat /\ Forall (fun r => length r = w) pat) /\
  Forall (Forall (char_accepted m)) pat.

Lemma upper_space ch : ascii_upper ch = SPACE <-> ch = SPACE.
Proof. unfold ascii_upper, SPACE. destruct ((97 <=? ch) && (ch <=? 122)) eqn:E; lia. Qed.

Lemma accepted_upper m ch :
  In m all_mappings -> char_accepted m ch ->
  char_valid m (ascii_upper ch) /\ pattern_char m (ascii_upper ch) = pattern_char m ch.
Proof.
  intros Hm [->|[v E]].
  - split; [left; reflexivity|reflexivity].
  - destruct (Z.eq_dec ch SPACE) as [->|Hne]; [split; [left; reflexivity|reflexivity]|].
    destruct (accepted_chars_roundtrip m ch v Hm E) as [E1 Hin]. split; [right; exact Hin|].
    destruct (charset_roundtrip m _ Hm Hin) as [v' [F1 [F2 [F3 F4]]]].
    assert (v' = v) by (apply (debug_chars_distinct m v' v (ascii_upper ch) Hm F4 F2 E1)). subst v'.
    unfold pattern_char. replace (ch =? SPACE) with false by lia.
    replace (ascii_upper ch =? SPACE) with false by (pose proof (upper_space ch); lia).
    rewrite E, F1. reflexivity.
Qed.

Lemma mapM_map_ext {A B} (f : A -> result B) (g : A -> A) l :
  (forall x, In x l -> f (g x) = f x) -> mapM f (map g l) = mapM f l.
Proof.
  induction l as [|x l IH]; intros H; cbn [map mapM]; [reflexivity|].
  rewrite (H x (or_introl eq_refl)), IH; [reflexivity|]. intros y Hy. apply H. right. exact Hy.
Qed.

Lemma from_pattern_upper m pat :
  In m all_mappings -> Forall (Forall (char_accepted m)) pat ->
  from_pattern m (map (map ascii_upper) pat) = from_pattern m pat.
Proof.
  intros Hm Hv. unfold from_pattern. cbv zeta.
  assert ((match map (map ascii_upper) pat with [] => 0 | r :: _ => zlen r end) = (match pat with [] => 0 | r :: _ => zlen r end)) as Ew
    by (destruct pat; cbn [map]; [reflexivity|unfold zlen; rewrite map_length; reflexivity]).
  rewrite Ew. set (w := match pat with [] => 0 | r :: _ => zlen r end).
  replace (zlen (map (map ascii_upper) pat)) with (zlen pat) by (unfold zlen; rewrite map_length; reflexivity).
  replace (forallb (fun r => zlen r =? w) (map (map ascii_upper) pat)) with (forallb (fun r => zlen r =? w) pat).
  2:{ clearbody w. clear. induction pat as [|r t IH]; cbn [map forallb]; [reflexivity|]. rewrite <- IH. unfold zlen at 3. rewrite map_length. reflexivity. }
  rewrite (mapM_map_ext _ (map ascii_upper) pat); [reflexivity|].
  intros r Hr. f_equal. rewrite Forall_forall in Hv. specialize (Hv r Hr). rewrite Forall_forall in Hv.
  apply mapM_map_ext. intros ch Hc. apply accepted_upper; auto.
Qed.

Theorem pattern_then_debug_any_case m pat :
  In m all_mappings -> pattern_wf_any m pat ->
  exists d, from_pattern m pat = Ok d /\
    debug_rows m d = Ok (normalise (map (map ascii_upper) pat)) /\
    forall x y, 0 <= x < SIZE -> 0 <= y < SIZE ->
      exists c, get_pixel d (P x y) = Ok c /\ pattern_char m (nth (Z.to_nat x) (nth (Z.to_nat y) pat []) SPACE) = Ok c.
Proof.
  intros Hm [Hh [[w [Hw Hrows]] Hv]].
  assert (pattern_wf m (map (map ascii_upper) pat)) as Hwf.
  { split; [rewrite map_length; exact Hh|]. split.
    - exists w. split; [exact Hw|]. apply Forall_forall. intros r Hr. apply in_map_iff in Hr. destruct Hr as [r0 [<- Hr0]].
      rewrite map_length. rewrite Forall_forall in Hrows. apply Hrows, Hr0.
    - apply Forall_forall. intros r Hr. apply in_map_iff in Hr. destruct Hr as [r0 [<- Hr0]].
      apply Forall_forall. intros ch Hc. apply in_map_iff in Hc. destruct Hc as [c0 [<- Hc0]].
      rewrite Forall_forall in Hv. specialize (Hv r0 Hr0). rewrite Forall_forall in Hv. apply accepted_upper; auto. }
  destruct (pattern_then_debug m _ Hm Hwf) as [d [E [HD Hpix]]].
  rewrite from_pattern_upper in E by assumption.
  exists d. split; [exact E|]. split; [exact HD|]. intros x y Hx Hy.
  destruct (Hpix x y Hx Hy) as [c [Ec [_ Hc]]]. exists c. split; [exact Ec|].
  set (ch := nth (Z.to_nat x) (nth (Z.to_nat y) pat []) SPACE).
  assert (nth (Z.to_nat x) (nth (Z.to_nat y) (map (map ascii_upper) pat) []) SPACE = ascii_upper ch) as En.
  { change (@nil Z) with (map ascii_upper []) at 1. rewrite map_nth.
    change SPACE with (ascii_upper SPACE) at 1. rewrite map_nth. reflexivity. }
  rewrite En in Hc. rewrite <- Hc. symmetry.
  assert (char_accepted m ch) as Ha.
  { unfold ch. destruct (Nat.lt_ge_cases (Z.to_nat y) (length pat)) as [Hy'|Hy'].
    - assert (In (nth (Z.to_nat y) pat []) pat) as Hr by (apply nth_In; assumption).
      rewrite Forall_forall in Hv. specialize (Hv _ Hr). rewrite Forall_forall in Hv.
      destruct (Nat.lt_ge_cases (Z.to_nat x) (length (nth (Z.to_nat y) pat []))) as [Hx'|Hx'].
      + apply Hv, nth_In, Hx'.
      + rewrite nth_overflow by assumption. left. reflexivity.
    - rewrite (nth_overflow pat) by assumption. rewrite nth_nil. left. reflexivity. }
  apply accepted_upper; assumption.
Qed.

(* ---- MockDisplay implements only draw_iter: fill_solid / fill_contiguous / clear ARE the trait defaults ---- *)
(* (the translator refuses a source in which `impl DrawTarget for MockDisplay` has any other method) *)
Theorem only_draw_iter d :
  DRAWTARGET_ONLY_DRAW_ITER = true /\
  (forall r c, apply_op d (OpFillSolid r c) = draw_iter d (map (fun p => (p, c)) (points r))) /\
  (forall r cs, apply_op d (OpFillContiguous r cs) = draw_iter d (zip (points r) cs)) /\
  (forall c, apply_op d (OpClear c) = draw_iter d (map (fun p => (p, c)) (points (R (P 0 0) (S SIZE SIZE))))).
Proof. split; [reflexivity|]. split; [reflexivity|]. split; reflexivity. Qed.
