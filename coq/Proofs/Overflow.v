(* C08 - proofs: every modelled panic site is safe on display-scale inputs. *)
Set Default Timeout 60.
From EG Require Import Base.Prelude Model.Geometry Model.Line Model.Style Model.Overflow.
From Coq Require Import Lia ZArith Bool.
Open Scope Z_scope.

(* ---- range introduction ------------------------------------------------------------------- *)
Lemma i32_intro x : -2147483648 <= x <= 2147483647 -> i32 x = true.
Proof. intros. unfold i32, in_i32, i32_min, i32_max. apply andb_true_intro; split; apply Z.leb_le; lia. Qed.
Lemma u32_intro x : 0 <= x <= 4294967295 -> u32 x = true.
Proof. intros. unfold u32, in_u32, u32_max. apply andb_true_intro; split; apply Z.leb_le; lia. Qed.
Lemma i64_intro x : -9223372036854775808 <= x <= 9223372036854775807 -> i64 x = true.
Proof. intros. unfold i64, i64_min, i64_max. apply andb_true_intro; split; apply Z.leb_le; lia. Qed.
Lemma u64_intro x : 0 <= x <= 18446744073709551615 -> u64 x = true.
Proof. intros. unfold u64, u64_max. apply andb_true_intro; split; apply Z.leb_le; lia. Qed.
Lemma usz_intro um x : 4294967295 <= um -> 0 <= x <= 4294967295 -> usz um x = true.
Proof. intros. unfold usz. apply andb_true_intro; split; apply Z.leb_le; lia. Qed.
Lemma nz_intro x : x <> 0 -> nz x = true.
Proof. intros. unfold nz. apply negb_true_iff, Z.eqb_neq; assumption. Qed.

(* |a| <= A, |b| <= B  ->  |a * b| <= A * B : the only non-linear fact needed *)
Lemma mul_bound a b A B : - A <= a <= A -> - B <= b <= B -> - (A * B) <= a * b <= A * B.
Proof. intros. nia. Qed.
Lemma mul_bound_nn a b A B : 0 <= a <= A -> 0 <= b <= B -> 0 <= a * b <= A * B.
Proof. intros. nia. Qed.

(* boolean hypotheses -> integer facts *)
Ltac zb :=
  repeat match goal with
  | H : (_ && _) = true |- _ => apply andb_prop in H; destruct H
  | H : (_ || _) = false |- _ => apply orb_false_elim in H; destruct H
  | H : negb _ = true |- _ => apply negb_true_iff in H
  | H : negb _ = false |- _ => apply negb_false_iff in H
  | H : (_ <=? _) = true |- _ => apply Z.leb_le in H
  | H : (_ <=? _) = false |- _ => apply Z.leb_gt in H
  | H : (_ <? _) = true |- _ => apply Z.ltb_lt in H
  | H : (_ <? _) = false |- _ => apply Z.ltb_ge in H
  | H : (_ =? _) = true |- _ => apply Z.eqb_eq in H
  | H : (_ =? _) = false |- _ => apply Z.eqb_neq in H
  end.

Ltac unf_ds :=
  unfold ds_rect, ds_line, ds_point, ds_size, ds_coord, ds_ext, ds_width, ds_offset,
         edge_line, edge_point, edge_max, ds_max, ds_wmax in *.
Ltac unf_sat :=
  unfold sat_add_u32, sat_sub_u32, sat_add_i32, sat_u32_to_i32, sat_i32_to_u32, u32_max, i32_max, i32_min in *.

(* one range goal *)
Ltac rng :=
  first [ apply i32_intro | apply u32_intro | apply i64_intro | apply u64_intro
        | apply usz_intro; [ assumption | ] | apply nz_intro | reflexivity ];
  try lia.
(* split a conjunction of sites, case-split the branches *)
Ltac sites :=
  repeat match goal with
  | |- (_ && _) = true => apply andb_true_intro; split
  | |- (if ?c then _ else _) = true => let E := fresh "E" in destruct c eqn:E
  | |- true = true => reflexivity
  end.

(* =========================================================================================== *)
(* Point / Size                                                                                  *)
(* =========================================================================================== *)
Lemma point_add_total a b : ds_point a -> ds_point b -> point_add_ok a b = true.
Proof. unf_ds. unfold point_add_ok. intros. sites; rng. Qed.
Lemma point_sub_total a b : ds_point a -> ds_point b -> point_sub_ok a b = true.
Proof. unf_ds. unfold point_sub_ok. intros. sites; rng. Qed.
Lemma point_add_size_total a s : ds_point a -> ds_size s -> point_add_size_ok a s = true.
Proof. unf_ds. unfold point_add_size_ok, size_as_i32_ok, i32_max. intros. sites; try rng; apply Z.leb_le; lia. Qed.
Lemma point_sub_size_total a s : ds_point a -> ds_size s -> point_sub_size_ok a s = true.
Proof. unf_ds. unfold point_sub_size_ok, size_as_i32_ok, i32_max. intros. sites; try rng; apply Z.leb_le; lia. Qed.
Lemma point_neg_total a : ds_point a -> point_neg_ok a = true.
Proof. unf_ds. unfold point_neg_ok. intros. sites; rng. Qed.
Lemma point_abs_total a : ds_point a -> point_abs_ok a = true.
Proof. unf_ds. unfold point_abs_ok. intros. sites; rng. Qed.
Lemma point_mul_total a k : ds_point a -> ds_coord k -> point_mul_ok a k = true.
Proof.
  unf_ds. unfold point_mul_ok. intros [? ?] ?.
  pose proof (mul_bound (px a) k 1024 1024). pose proof (mul_bound (py a) k 1024 1024). sites; rng.
Qed.
Lemma point_component_mul_total a b : ds_point a -> ds_point b -> point_component_mul_ok a b = true.
Proof.
  unf_ds. unfold point_component_mul_ok. intros [? ?] [? ?].
  pose proof (mul_bound (px a) (px b) 1024 1024). pose proof (mul_bound (py a) (py b) 1024 1024). sites; rng.
Qed.
Ltac Zify.zify_post_hook ::= Z.to_euclidean_division_equations.
Lemma point_div_total a k : ds_point a -> k <> 0 -> point_div_ok a k = true.
Proof. unf_ds. unfold point_div_ok. intros [? ?] ?. sites; rng. Qed.
Lemma point_component_div_total a b : ds_point a -> px b <> 0 -> py b <> 0 -> point_component_div_ok a b = true.
Proof. unf_ds. unfold point_component_div_ok. intros [? ?] ? ?. sites; rng. Qed.

Lemma size_add_total a b : ds_size a -> ds_size b -> size_add_ok a b = true.
Proof. unf_ds. unfold size_add_ok. intros. sites; rng. Qed.
Lemma size_sub_total a b : ds_size a -> ds_size b -> sw b <= sw a -> sh b <= sh a -> size_sub_ok a b = true.
Proof. unf_ds. unfold size_sub_ok. intros. sites; rng. Qed.
Lemma size_mul_total a k : ds_size a -> ds_ext k -> size_mul_ok a k = true.
Proof.
  unf_ds. unfold size_mul_ok. intros [? ?] ?.
  pose proof (mul_bound_nn (sw a) k 1024 1024). pose proof (mul_bound_nn (sh a) k 1024 1024). sites; rng.
Qed.
Lemma size_component_mul_total a b : ds_size a -> ds_size b -> size_component_mul_ok a b = true.
Proof.
  unf_ds. unfold size_component_mul_ok. intros [? ?] [? ?].
  pose proof (mul_bound_nn (sw a) (sw b) 1024 1024). pose proof (mul_bound_nn (sh a) (sh b) 1024 1024). sites; rng.
Qed.
Lemma size_div_total a k : k <> 0 -> size_div_ok a k = true.
Proof. intros. unfold size_div_ok. rng. Qed.
Lemma from_bounding_box_total c1 c2 : ds_point c1 -> ds_point c2 -> from_bounding_box_ok c1 c2 = true.
Proof. unf_ds. unfold from_bounding_box_ok. intros. sites; rng. Qed.

(* =========================================================================================== *)
(* Rectangle                                                                                     *)
(* =========================================================================================== *)
Ltac unf_rect :=
  unfold center_ok, bottom_right_ok, with_center_ok, with_corners_ok, contains_ok, from_bounding_box_ok,
         point_add_size_ok, point_sub_size_ok, point_sub_ok, point_add_ok, size_as_i32_ok,
         center_offset, size_sat_sub, size_sat_add, padd_size, psub_size, psub, padd in *;
  cbn [px py sw sh tl sz] in *.

Lemma center_total r : ds_rect r -> center_ok r = true.
Proof.
  unf_ds. intros [[? ?] [? ?]]. unf_rect. unf_sat.
  sites; try rng; apply Z.leb_le; lia.
Qed.
Lemma bottom_right_total r : ds_rect r -> bottom_right_ok r = true.
Proof.
  unf_ds. intros [[? ?] [? ?]]. unf_rect. unf_sat.
  sites; try rng; apply Z.leb_le; lia.
Qed.
Lemma with_center_total c s : ds_point c -> ds_size s -> with_center_ok c s = true.
Proof.
  unf_ds. intros [? ?] [? ?]. unf_rect. unf_sat.
  sites; try rng; apply Z.leb_le; lia.
Qed.
Lemma with_corners_total c1 c2 : ds_point c1 -> ds_point c2 -> with_corners_ok c1 c2 = true.
Proof. exact (from_bounding_box_total c1 c2). Qed.
Lemma contains_total r p : ds_rect r -> contains_ok r p = true.
Proof. intros. unfold contains_ok. destruct (_ && _); [apply bottom_right_total; assumption | reflexivity]. Qed.

Lemma bottom_right_ds r br : ds_rect r -> bottom_right r = Some br ->
  -1024 <= px br <= 2047 /\ -1024 <= py br <= 2047 /\ px (tl r) <= px br /\ py (tl r) <= py br.
Proof.
  unf_ds. intros [[? ?] [? ?]]. unfold bottom_right.
  destruct (_ && _) eqn:E; [ | discriminate ]. intros [= <-]. zb. cbn [px py]. lia.
Qed.

Lemma intersection_total a b : ds_rect a -> ds_rect b -> intersection_ok a b = true.
Proof.
  intros Ha Hb. unfold intersection_ok.
  rewrite (bottom_right_total b Hb), (bottom_right_total a Ha). cbn [andb].
  destruct (bottom_right b) as [obr|] eqn:Eb; destruct (bottom_right a) as [sbr|] eqn:Ea;
    try reflexivity; try (apply contains_total; assumption).
  destruct (_ && _); [ | reflexivity ].
  pose proof (bottom_right_ds _ _ Ha Ea). pose proof (bottom_right_ds _ _ Hb Eb).
  revert Ha Hb. unf_ds. intros [[? ?] [? ?]] [[? ?] [? ?]].
  unfold with_corners_ok, from_bounding_box_ok, component_max, component_min. cbn [px py].
  sites; rng.
Qed.

Lemma anchor_point_total r a : ds_rect r -> anchor_point_ok r a = true.
Proof.
  unf_ds. intros [[? ?] [? ?]].
  unfold anchor_point_ok, anchor_x_ok, anchor_y_ok, anchor_x_of, anchor_y_of, anchor_delta. unf_sat.
  destruct a as [[] []]; cbn [ax ay]; sites; rng.
Qed.
Lemma anchor_point_ds r a : ds_rect r ->
  -1024 <= px (anchor_point r a) <= 2047 /\ -1024 <= py (anchor_point r a) <= 2047.
Proof.
  unf_ds. intros [[? ?] [? ?]].
  unfold anchor_point, anchor_x_of, anchor_y_of, anchor_delta. unf_sat.
  destruct a as [[] []]; cbn [ax ay px py]; lia.
Qed.
Lemma envelope_total a b : ds_rect a -> ds_rect b -> envelope_ok a b = true.
Proof.
  intros Ha Hb. unfold envelope_ok.
  rewrite (anchor_point_total a _ Ha), (anchor_point_total b _ Hb). cbn [andb].
  pose proof (anchor_point_ds a (A AXRight AYBottom) Ha). pose proof (anchor_point_ds b (A AXRight AYBottom) Hb).
  revert Ha Hb. unf_ds. intros [[? ?] [? ?]] [[? ?] [? ?]].
  unfold with_corners_ok, from_bounding_box_ok, component_max, component_min. cbn [px py].
  sites; rng.
Qed.
Lemma resized_total r s a : ds_rect r -> ds_size s -> resized_ok r s a = true.
Proof.
  unf_ds. intros [[? ?] [? ?]] [? ?].
  unfold resized_ok, resized_width_ok, resized_height_ok, resized_width, resized_height, resize_delta. unf_sat.
  destruct a as [[] []]; cbn [ax ay px py tl sz sw sh]; sites; rng.
Qed.
Lemma offset_amount_total n : ds_offset n -> offset_amount_ok n = true.
Proof. unf_ds. intros. unfold offset_amount_ok. sites; rng. Qed.
Lemma offset_total r n : ds_rect r -> ds_offset n -> offset_ok r n = true.
Proof.
  intros Hr Hn. unfold offset_ok. rewrite (offset_amount_total n Hn), (center_total r Hr). cbn [andb].
  revert Hr Hn. unf_ds. intros [[? ?] [? ?]] ?.
  unfold offset_size, center. unf_rect. unf_sat.
  destruct (0 <=? n) eqn:E; zb; cbn [sw sh]; sites; try rng; apply Z.leb_le; lia.
Qed.

(* =========================================================================================== *)
(* PointExt, on operands bounded by an arbitrary B with 2 * B * B <= i32::MAX                    *)
(* =========================================================================================== *)
Definition pbound (B : Z) (a : point) : Prop := - B <= px a <= B /\ - B <= py a <= B.
Lemma ds_pbound a : ds_point a -> pbound 1024 a.
Proof. unf_ds. unfold pbound. tauto. Qed.
Lemma rotate_90_total B a : 0 <= B <= 2147483647 -> pbound B a -> rotate_90_ok a = true.
Proof. unfold pbound, rotate_90_ok. intros. rng. Qed.
Lemma dot_product_total A B a b :
  0 <= A -> 0 <= B -> 2 * (A * B) <= 2147483647 -> pbound A a -> pbound B b -> dot_product_ok a b = true.
Proof.
  unfold pbound, dot_product_ok, dot_product. intros ? ? ? [? ?] [? ?].
  pose proof (mul_bound (px a) (px b) A B). pose proof (mul_bound (py a) (py b) A B). sites; rng.
Qed.
Lemma determinant_total A B a b :
  0 <= A -> 0 <= B -> 2 * (A * B) <= 2147483647 -> pbound A a -> pbound B b -> determinant_ok a b = true.
Proof.
  unfold pbound, determinant_ok, determinant. intros ? ? ? [? ?] [? ?].
  pose proof (mul_bound (px a) (py b) A B). pose proof (mul_bound (py a) (px b) A B). sites; rng.
Qed.
Lemma length_squared_total A a : 0 <= A -> 2 * (A * A) <= 2147483647 -> pbound A a -> length_squared_ok a = true.
Proof.
  unfold pbound, length_squared_ok, length_squared. intros ? ? [? ?].
  pose proof (mul_bound (px a) (px a) A A). pose proof (mul_bound (py a) (py a) A A). sites; rng.
Qed.
Lemma length_squared_bound A a : 0 <= A -> pbound A a -> 0 <= length_squared a <= 2 * (A * A).
Proof.
  unfold pbound, length_squared. intros ? [? ?].
  pose proof (mul_bound (px a) (px a) A A). pose proof (mul_bound (py a) (py a) A A). nia.
Qed.

(* =========================================================================================== *)
(* PrimitiveStyle                                                                                *)
(* =========================================================================================== *)
Lemma stroke_area_offset_ds s : ds_width (stroke_width s) -> 0 <= stroke_area_offset s <= 128.
Proof.
  unf_ds. unfold stroke_area_offset, outside_stroke_width. unf_sat. intros.
  destruct (stroke_alignment s); lia.
Qed.
Lemma fill_area_offset_ds s : ds_width (stroke_width s) -> -128 <= fill_area_offset s <= 0.
Proof.
  unf_ds. unfold fill_area_offset, inside_stroke_width. unf_sat. intros.
  destruct (stroke_kind s); destruct (stroke_alignment s); lia.
Qed.
Lemma rect_stroke_area_total s r : ds_width (stroke_width s) -> ds_rect r -> rect_stroke_area_ok s r = true.
Proof.
  intros Hs Hr. unfold rect_stroke_area_ok. apply offset_total; [assumption | ].
  pose proof (stroke_area_offset_ds s Hs). unf_ds. lia.
Qed.
Lemma rect_fill_area_total s r : ds_width (stroke_width s) -> ds_rect r -> rect_fill_area_ok s r = true.
Proof.
  intros Hs Hr. unfold rect_fill_area_ok. apply andb_true_intro; split.
  - pose proof (fill_area_offset_ds s Hs) as H. unfold fill_area_offset_ok. unfold fill_area_offset in H.
    destruct (stroke_kind s); [ rng | reflexivity ].
  - apply offset_total; [assumption | ]. pose proof (fill_area_offset_ds s Hs). unf_ds. lia.
Qed.
