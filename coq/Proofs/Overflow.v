(* C08 - proofs: every modelled panic site is safe on display-scale inputs. *)
Set Default Timeout 60.
From EG Require Import Base.Prelude Model.Geometry Model.Line Model.Style Model.Overflow.
From Coq Require Import Lia ZArith Bool.
Open Scope Z_scope.

(* ---- range introduction ------------------------------------------------------------------- *)
Lemma i32_intro x : -2147483648 <= x <= 2147483647 -> i32 x = true.
Proof. intros. unfold i32, in_i32, i32_min, i32_max. apply andb_true_intro; split; apply Z.leb_le; lia. Qed.
Lemma u32_intro x : 0 <= x <= 4294967295 -> u32 x = true.
Proof. intros. unfold u32, in_u32, u32_max. apply andb_true_intro; split; apply Z.leb_le; lia. Qed.
Lemma i64_intro x : -9223372036854775808 <= x <= 9223372036854775807 -> i64 x = true.
Proof. intros. unfold i64, i64_min, i64_max. apply andb_true_intro; split; apply Z.leb_le; lia. Qed.
Lemma u64_intro x : 0 <= x <= 18446744073709551615 -> u64 x = true.
Proof. intros. unfold u64, u64_max. apply andb_true_intro; split; apply Z.leb_le; lia. Qed.
Lemma usz_intro um x : 4294967295 <= um -> 0 <= x <= 4294967295 -> usz um x = true.
Proof. intros. unfold usz. apply andb_true_intro; split; apply Z.leb_le; lia. Qed.
Lemma nz_intro x : x <> 0 -> nz x = true.
Proof. intros. unfold nz. apply negb_true_iff, Z.eqb_neq; assumption. Qed.

(* |a| <= A, |b| <= B  ->  |a * b| <= A * B : the only non-linear fact needed *)
Lemma mul_bound a b A B : - A <= a <= A -> - B <= b <= B -> - (A * B) <= a * b <= A * B.
Proof. intros. nia. Qed.
Lemma mul_bound_nn a b A B : 0 <= a <= A -> 0 <= b <= B -> 0 <= a * b <= A * B.
Proof. intros. nia. Qed.

(* boolean hypotheses -> integer facts *)
Ltac zb :=
  repeat match goal with
  | H : (_ && _) = true |- _ => apply andb_prop in H; destruct H
  | H : (_ || _) = false |- _ => apply orb_false_elim in H; destruct H
  | H : (_ || _) = true |- _ => apply orb_prop in H; destruct H
  | H : negb _ = true |- _ => apply negb_true_iff in H
  | H : negb _ = false |- _ => apply negb_false_iff in H
  | H : (_ <=? _) = true |- _ => apply Z.leb_le in H
  | H : (_ <=? _) = false |- _ => apply Z.leb_gt in H
  | H : (_ <? _) = true |- _ => apply Z.ltb_lt in H
  | H : (_ <? _) = false |- _ => apply Z.ltb_ge in H
  | H : (_ =? _) = true |- _ => apply Z.eqb_eq in H
  | H : (_ =? _) = false |- _ => apply Z.eqb_neq in H
  end.

Ltac unf_ds :=
  unfold ds_rect, ds_line, ds_point, ds_size, ds_coord, ds_ext, ds_width, ds_offset,
         edge_line, edge_point, edge_max, ds_max, ds_wmax in *.
Ltac unf_sat :=
  unfold sat_add_u32, sat_sub_u32, sat_add_i32, sat_u32_to_i32, sat_i32_to_u32, u32_max, i32_max, i32_min in *.

(* one range goal *)
Ltac rng :=
  first [ apply i32_intro | apply u32_intro | apply i64_intro | apply u64_intro
        | apply usz_intro; [ assumption | ] | apply nz_intro | reflexivity
        | apply Z.leb_le | apply Z.ltb_lt ];
  try lia.
(* split a conjunction of sites, case-split the branches *)
Ltac sites :=
  repeat match goal with
  | |- (_ && _) = true => apply andb_true_intro; split
  | |- (if ?c then _ else _) = true => let E := fresh "E" in destruct c eqn:E
  | |- true = true => reflexivity
  end.

(* =========================================================================================== *)
(* Point / Size                                                                                  *)
(* =========================================================================================== *)
Lemma point_add_total a b : ds_point a -> ds_point b -> point_add_ok a b = true.
Proof. unf_ds. unfold point_add_ok. intros. sites; rng. Qed.
Lemma point_sub_total a b : ds_point a -> ds_point b -> point_sub_ok a b = true.
Proof. unf_ds. unfold point_sub_ok. intros. sites; rng. Qed.
Lemma point_add_size_total a s : ds_point a -> ds_size s -> point_add_size_ok a s = true.
Proof. unf_ds. unfold point_add_size_ok, size_as_i32_ok, i32_max. intros. sites; try rng; apply Z.leb_le; lia. Qed.
Lemma point_sub_size_total a s : ds_point a -> ds_size s -> point_sub_size_ok a s = true.
Proof. unf_ds. unfold point_sub_size_ok, size_as_i32_ok, i32_max. intros. sites; try rng; apply Z.leb_le; lia. Qed.
Lemma point_neg_total a : ds_point a -> point_neg_ok a = true.
Proof. unf_ds. unfold point_neg_ok. intros. sites; rng. Qed.
Lemma point_abs_total a : ds_point a -> point_abs_ok a = true.
Proof. unf_ds. unfold point_abs_ok. intros. sites; rng. Qed.
Lemma point_mul_total a k : ds_point a -> ds_coord k -> point_mul_ok a k = true.
Proof.
  unf_ds. unfold point_mul_ok. intros [? ?] ?.
  pose proof (mul_bound (px a) k 1024 1024). pose proof (mul_bound (py a) k 1024 1024). sites; rng.
Qed.
Lemma point_component_mul_total a b : ds_point a -> ds_point b -> point_component_mul_ok a b = true.
Proof.
  unf_ds. unfold point_component_mul_ok. intros [? ?] [? ?].
  pose proof (mul_bound (px a) (px b) 1024 1024). pose proof (mul_bound (py a) (py b) 1024 1024). sites; rng.
Qed.
Lemma quot_bound a k B : k <> 0 -> - B <= a <= B -> - B <= Z.quot a k <= B.
Proof.
  intros Hk H.
  assert (Z.abs (Z.quot a k) <= Z.abs a).
  { rewrite <- Z.quot_abs by assumption. apply Z.quot_le_upper_bound; [lia | nia]. }
  lia.
Qed.
Ltac Zify.zify_post_hook ::= Z.to_euclidean_division_equations.
Lemma point_div_total a k : ds_point a -> k <> 0 -> point_div_ok a k = true.
Proof.
  unf_ds. unfold point_div_ok. intros [? ?] ?.
  pose proof (quot_bound (px a) k 1024). pose proof (quot_bound (py a) k 1024). sites; rng.
Qed.
Lemma point_component_div_total a b : ds_point a -> px b <> 0 -> py b <> 0 -> point_component_div_ok a b = true.
Proof.
  unf_ds. unfold point_component_div_ok. intros [? ?] ? ?.
  pose proof (quot_bound (px a) (px b) 1024). pose proof (quot_bound (py a) (py b) 1024). sites; rng.
Qed.

Lemma size_add_total a b : ds_size a -> ds_size b -> size_add_ok a b = true.
Proof. unf_ds. unfold size_add_ok. intros. sites; rng. Qed.
Lemma size_sub_total a b : ds_size a -> ds_size b -> sw b <= sw a -> sh b <= sh a -> size_sub_ok a b = true.
Proof. unf_ds. unfold size_sub_ok. intros. sites; rng. Qed.
Lemma size_mul_total a k : ds_size a -> ds_ext k -> size_mul_ok a k = true.
Proof.
  unf_ds. unfold size_mul_ok. intros [? ?] ?.
  pose proof (mul_bound_nn (sw a) k 1024 1024). pose proof (mul_bound_nn (sh a) k 1024 1024). sites; rng.
Qed.
Lemma size_component_mul_total a b : ds_size a -> ds_size b -> size_component_mul_ok a b = true.
Proof.
  unf_ds. unfold size_component_mul_ok. intros [? ?] [? ?].
  pose proof (mul_bound_nn (sw a) (sw b) 1024 1024). pose proof (mul_bound_nn (sh a) (sh b) 1024 1024). sites; rng.
Qed.
Lemma size_div_total a k : k <> 0 -> size_div_ok a k = true.
Proof. intros. unfold size_div_ok. rng. Qed.
Lemma from_bounding_box_total c1 c2 : ds_point c1 -> ds_point c2 -> from_bounding_box_ok c1 c2 = true.
Proof. unf_ds. unfold from_bounding_box_ok. intros. sites; rng. Qed.

(* =========================================================================================== *)
(* Rectangle                                                                                     *)
(* =========================================================================================== *)
Ltac unf_rect :=
  unfold center_ok, bottom_right_ok, with_center_ok, with_corners_ok, contains_ok, from_bounding_box_ok,
         point_add_size_ok, point_sub_size_ok, point_sub_ok, point_add_ok, size_as_i32_ok,
         center_offset, size_sat_sub, size_sat_add, padd_size, psub_size, psub, padd in *;
  cbn [px py sw sh tl sz] in *.

Lemma center_total r : ds_rect r -> center_ok r = true.
Proof.
  unf_ds. intros [[? ?] [? ?]]. unf_rect. unf_sat.
  sites; try rng; apply Z.leb_le; lia.
Qed.
Lemma bottom_right_total r : ds_rect r -> bottom_right_ok r = true.
Proof.
  unf_ds. intros [[? ?] [? ?]]. unf_rect. unf_sat.
  sites; try rng; apply Z.leb_le; lia.
Qed.
Lemma with_center_total c s : ds_point c -> ds_size s -> with_center_ok c s = true.
Proof.
  unf_ds. intros [? ?] [? ?]. unf_rect. unf_sat.
  sites; try rng; apply Z.leb_le; lia.
Qed.
Lemma with_corners_total c1 c2 : ds_point c1 -> ds_point c2 -> with_corners_ok c1 c2 = true.
Proof. exact (from_bounding_box_total c1 c2). Qed.
Lemma contains_total r p : ds_rect r -> contains_ok r p = true.
Proof. intros. unfold contains_ok. destruct (_ && _); [apply bottom_right_total; assumption | reflexivity]. Qed.

Lemma bottom_right_ds r br : ds_rect r -> bottom_right r = Some br ->
  -1024 <= px br <= 2047 /\ -1024 <= py br <= 2047 /\ px (tl r) <= px br /\ py (tl r) <= py br.
Proof.
  unf_ds. intros [[? ?] [? ?]]. unfold bottom_right.
  destruct (_ && _) eqn:E; [ | discriminate ]. intros [= <-]. zb. cbn [px py]. lia.
Qed.

Lemma intersection_total a b : ds_rect a -> ds_rect b -> intersection_ok a b = true.
Proof.
  intros Ha Hb. unfold intersection_ok.
  rewrite (bottom_right_total b Hb), (bottom_right_total a Ha). cbn [andb].
  destruct (bottom_right b) as [obr|] eqn:Eb; destruct (bottom_right a) as [sbr|] eqn:Ea;
    try reflexivity; try (apply contains_total; assumption).
  destruct (_ && _); [ | reflexivity ].
  pose proof (bottom_right_ds _ _ Ha Ea). pose proof (bottom_right_ds _ _ Hb Eb).
  revert Ha Hb. unf_ds. intros [[? ?] [? ?]] [[? ?] [? ?]].
  unfold with_corners_ok, from_bounding_box_ok, component_max, component_min. cbn [px py].
  sites; rng.
Qed.

Lemma anchor_point_total r a : ds_rect r -> anchor_point_ok r a = true.
Proof.
  unf_ds. intros [[? ?] [? ?]].
  unfold anchor_point_ok, anchor_x_ok, anchor_y_ok, anchor_x_of, anchor_y_of, anchor_delta. unf_sat.
  destruct a as [[] []]; cbn [ax ay]; sites; rng.
Qed.
Lemma anchor_point_ds r a : ds_rect r ->
  -1024 <= px (anchor_point r a) <= 2047 /\ -1024 <= py (anchor_point r a) <= 2047.
Proof.
  unf_ds. intros [[? ?] [? ?]].
  unfold anchor_point, anchor_x_of, anchor_y_of, anchor_delta. unf_sat.
  destruct a as [[] []]; cbn [ax ay px py]; lia.
Qed.
Lemma envelope_total a b : ds_rect a -> ds_rect b -> envelope_ok a b = true.
Proof.
  intros Ha Hb. unfold envelope_ok.
  rewrite (anchor_point_total a _ Ha), (anchor_point_total b _ Hb). cbn [andb].
  pose proof (anchor_point_ds a (A AXRight AYBottom) Ha). pose proof (anchor_point_ds b (A AXRight AYBottom) Hb).
  revert Ha Hb. unf_ds. intros [[? ?] [? ?]] [[? ?] [? ?]].
  unfold with_corners_ok, from_bounding_box_ok, component_max, component_min. cbn [px py].
  sites; rng.
Qed.
Lemma resized_total r s a : ds_rect r -> ds_size s -> resized_ok r s a = true.
Proof.
  unf_ds. intros [[? ?] [? ?]] [? ?].
  unfold resized_ok, resized_width_ok, resized_height_ok, resized_width, resized_height, resize_delta. unf_sat.
  destruct a as [[] []]; cbn [ax ay px py tl sz sw sh]; sites; rng.
Qed.
Lemma offset_amount_total n : ds_offset n -> offset_amount_ok n = true.
Proof. unf_ds. intros. unfold offset_amount_ok. sites; rng. Qed.
Lemma offset_total r n : ds_rect r -> ds_offset n -> offset_ok r n = true.
Proof.
  intros Hr Hn. unfold offset_ok. rewrite (offset_amount_total n Hn), (center_total r Hr). cbn [andb].
  revert Hr Hn. unf_ds. intros [[? ?] [? ?]] ?.
  unfold offset_size, center. unf_rect. unf_sat.
  destruct (0 <=? n) eqn:E; zb; cbn [sw sh]; sites; try rng; apply Z.leb_le; lia.
Qed.

(* =========================================================================================== *)
(* PointExt, on operands bounded by an arbitrary B with 2 * B * B <= i32::MAX                    *)
(* =========================================================================================== *)
Definition pbound (B : Z) (a : point) : Prop := - B <= px a <= B /\ - B <= py a <= B.
Lemma ds_pbound a : ds_point a -> pbound 1024 a.
Proof. unf_ds. unfold pbound. tauto. Qed.
Lemma rotate_90_total B a : 0 <= B <= 2147483647 -> pbound B a -> rotate_90_ok a = true.
Proof. unfold pbound, rotate_90_ok. intros. rng. Qed.
Lemma dot_product_total A B a b :
  0 <= A -> 0 <= B -> 2 * (A * B) <= 2147483647 -> pbound A a -> pbound B b -> dot_product_ok a b = true.
Proof.
  unfold pbound, dot_product_ok, dot_product. intros ? ? ? [? ?] [? ?].
  pose proof (mul_bound (px a) (px b) A B). pose proof (mul_bound (py a) (py b) A B). sites; rng.
Qed.
Lemma determinant_total A B a b :
  0 <= A -> 0 <= B -> 2 * (A * B) <= 2147483647 -> pbound A a -> pbound B b -> determinant_ok a b = true.
Proof.
  unfold pbound, determinant_ok, determinant. intros ? ? ? [? ?] [? ?].
  pose proof (mul_bound (px a) (py b) A B). pose proof (mul_bound (py a) (px b) A B). sites; rng.
Qed.
Lemma length_squared_total A a : 0 <= A -> 2 * (A * A) <= 2147483647 -> pbound A a -> length_squared_ok a = true.
Proof.
  unfold pbound, length_squared_ok, length_squared. intros ? ? [? ?].
  pose proof (mul_bound (px a) (px a) A A). pose proof (mul_bound (py a) (py a) A A). sites; rng.
Qed.
Lemma length_squared_bound A a : 0 <= A -> pbound A a -> 0 <= length_squared a <= 2 * (A * A).
Proof.
  unfold pbound, length_squared. intros ? [? ?].
  pose proof (mul_bound (px a) (px a) A A). pose proof (mul_bound (py a) (py a) A A). nia.
Qed.

(* =========================================================================================== *)
(* PrimitiveStyle                                                                                *)
(* =========================================================================================== *)
Lemma stroke_area_offset_ds s : ds_width (stroke_width s) -> 0 <= stroke_area_offset s <= 128.
Proof.
  unf_ds. unfold stroke_area_offset, outside_stroke_width. unf_sat. intros.
  destruct (stroke_alignment s); lia.
Qed.
Lemma fill_area_offset_ds s : ds_width (stroke_width s) -> -128 <= fill_area_offset s <= 0.
Proof.
  unf_ds. unfold fill_area_offset, inside_stroke_width. unf_sat. intros.
  destruct (stroke_kind s); destruct (stroke_alignment s); lia.
Qed.
Lemma rect_stroke_area_total s r : ds_width (stroke_width s) -> ds_rect r -> rect_stroke_area_ok s r = true.
Proof.
  intros Hs Hr. unfold rect_stroke_area_ok. apply offset_total; [assumption | ].
  pose proof (stroke_area_offset_ds s Hs). unf_ds. lia.
Qed.
Lemma rect_fill_area_total s r : ds_width (stroke_width s) -> ds_rect r -> rect_fill_area_ok s r = true.
Proof.
  intros Hs Hr. unfold rect_fill_area_ok. apply andb_true_intro; split.
  - pose proof (fill_area_offset_ds s Hs) as H. unfold fill_area_offset_ok. unfold fill_area_offset in H.
    destruct (stroke_kind s); [ rng | reflexivity ].
  - apply offset_total; [assumption | ]. pose proof (fill_area_offset_ds s Hs). unf_ds. lia.
Qed.

(* =========================================================================================== *)
(* Circle / Ellipse / EllipseQuadrant / CornerRadii                                              *)
(* =========================================================================================== *)
Definition sbound (B : Z) (s : size) : Prop := 0 <= sw s <= B /\ 0 <= sh s <= B.
Lemma ds_sbound s : ds_size s -> sbound 1024 s.
Proof. unf_ds. unfold sbound. tauto. Qed.

Lemma diameter_to_threshold_total d : 0 <= d <= 2048 -> diameter_to_threshold_ok d = true.
Proof.
  intros. unfold diameter_to_threshold_ok. pose proof (mul_bound_nn d d 2048 2048).
  sites; try rng; zb; nia.
Qed.
Lemma circle_center_2x_total t d : ds_point t -> ds_ext d -> circle_center_2x_ok t d = true.
Proof.
  unf_ds. intros [? ?] ?. unfold circle_center_2x_ok, point_mul_ok, point_add_size_ok, size_as_i32_ok, pmul. unf_sat.
  cbn [px py sw sh]. sites; rng.
Qed.
Lemma circle_center_2x_bound t d : ds_point t -> ds_ext d -> pbound 3071 (circle_center_2x t d).
Proof.
  unf_ds. intros [? ?] ?. unfold pbound, circle_center_2x, padd_size, pmul. unf_sat. cbn [px py sw sh]. lia.
Qed.
Lemma circle_contains_total t d p : ds_point t -> ds_ext d -> ds_point p -> circle_contains_ok t d p = true.
Proof.
  intros Ht Hd Hp. unfold circle_contains_ok.
  rewrite (circle_center_2x_total t d Ht Hd). pose proof (circle_center_2x_bound t d Ht Hd) as [? ?].
  assert (Hd' : 0 <= d <= 2048) by (unf_ds; lia). rewrite (diameter_to_threshold_total d Hd').
  assert (pbound 5119 (psub (circle_center_2x t d) (pmul p 2))).
  { revert Hp. unf_ds. intros [? ?]. unfold pbound, psub, pmul. cbn [px py]. lia. }
  rewrite (length_squared_total 5119) by (assumption || lia).
  revert Hp. unf_ds. intros [? ?]. unfold point_mul_ok, point_sub_ok, pmul. cbn [px py andb].
  sites; rng.
Qed.
Lemma circle_offset_total t d n : ds_point t -> ds_ext d -> ds_offset n -> circle_offset_ok t d n = true.
Proof.
  intros Ht Hd Hn. unfold circle_offset_ok.
  assert (Hr : ds_rect (R t (S d d))) by (unfold ds_rect, ds_size; cbn [tl sz sw sh]; tauto).
  rewrite (offset_amount_total n Hn), (center_total _ Hr). cbn [andb].
  revert Ht Hd Hn. unf_ds. intros [? ?] ? ?.
  unfold circle_offset_diameter, center. unf_rect. unf_sat.
  destruct (0 <=? n) eqn:E; zb; cbn [sw sh]; sites; rng.
Qed.

Lemma ellipse_center_2x_total t s : pbound 2048 t -> sbound 2048 s -> ellipse_center_2x_ok t s = true.
Proof.
  unfold pbound, sbound. intros [? ?] [? ?].
  unfold ellipse_center_2x_ok, point_mul_ok, point_add_size_ok, size_as_i32_ok, size_sat_sub, pmul. unf_sat.
  cbn [px py sw sh]. sites; rng.
Qed.
Lemma ellipse_center_2x_bound t s : pbound 2048 t -> sbound 2048 s -> pbound 6143 (ellipse_center_2x t s).
Proof.
  unfold pbound, sbound. intros [? ?] [? ?].
  unfold ellipse_center_2x, padd_size, size_sat_sub, pmul. unf_sat. cbn [px py sw sh]. lia.
Qed.
Lemma ellipse_contains_new_total s : sbound 2048 s -> ellipse_contains_new_ok s = true.
Proof.
  unfold sbound. intros [? ?]. unfold ellipse_contains_new_ok.
  pose proof (mul_bound_nn (sw s) (sw s) 2048 2048). pose proof (mul_bound_nn (sh s) (sh s) 2048 2048).
  pose proof (mul_bound_nn (sh s * sh s) (sw s * sw s) (2048 * 2048) (2048 * 2048)).
  sites; try rng. apply diameter_to_threshold_total; lia.
Qed.
Lemma ellipse_contains_point_total s q : sbound 2048 s -> pbound 8191 q -> ellipse_contains_point_ok s q = true.
Proof.
  unfold sbound, pbound. intros [? ?] [? ?]. unfold ellipse_contains_point_ok.
  pose proof (mul_bound_nn (sw s) (sw s) 2048 2048). pose proof (mul_bound_nn (sh s) (sh s) 2048 2048).
  pose proof (mul_bound (px q) (px q) 8191 8191). pose proof (mul_bound (py q) (py q) 8191 8191).
  pose proof (Z.square_nonneg (px q)). pose proof (Z.square_nonneg (py q)).
  pose proof (mul_bound_nn (sh s * sh s) (px q * px q) (2048 * 2048) (8191 * 8191)).
  pose proof (mul_bound_nn (sw s * sw s) (py q * py q) (2048 * 2048) (8191 * 8191)).
  cbv zeta. sites; rng.
Qed.
Lemma ellipse_contains_gen t s p : pbound 2048 t -> sbound 2048 s -> ds_point p -> ellipse_contains_ok t s p = true.
Proof.
  intros Ht Hs Hp. unfold ellipse_contains_ok.
  rewrite (ellipse_contains_new_total s Hs), (ellipse_center_2x_total t s Ht Hs).
  pose proof (ellipse_center_2x_bound t s Ht Hs) as [? ?].
  assert (pbound 8191 (psub (pmul p 2) (ellipse_center_2x t s))).
  { revert Hp. unf_ds. intros [? ?]. unfold pbound, psub, pmul. cbn [px py]. lia. }
  rewrite (ellipse_contains_point_total s _ Hs) by assumption.
  revert Hp. unf_ds. intros [? ?]. unfold point_mul_ok, point_sub_ok, pmul. cbn [px py andb].
  sites; rng.
Qed.
Lemma ellipse_contains_total t s p : ds_point t -> ds_size s -> ds_point p -> ellipse_contains_ok t s p = true.
Proof.
  intros Ht Hs Hp. apply ellipse_contains_gen; [ | | assumption].
  - revert Ht. unf_ds. unfold pbound. lia.
  - revert Hs. unf_ds. unfold sbound. lia.
Qed.
Lemma ellipse_offset_total t s n : ds_point t -> ds_size s -> ds_offset n -> ellipse_offset_ok t s n = true.
Proof.
  intros Ht Hs Hn. unfold ellipse_offset_ok.
  assert (Hr : ds_rect (R t s)) by (unfold ds_rect; cbn [tl sz]; tauto).
  rewrite (offset_amount_total n Hn), (center_total _ Hr). cbn [andb].
  revert Ht Hs Hn. unf_ds. intros [? ?] [? ?] ?.
  unfold ellipse_offset_size, center. unf_rect. unf_sat.
  destruct (0 <=? n) eqn:E; zb; cbn [sw sh]; sites; rng.
Qed.

Lemma quadrant_top_left_bound t radius q : ds_point t -> ds_size radius -> pbound 2048 (quadrant_ellipse_top_left t radius q).
Proof.
  unf_ds. intros [? ?] [? ?]. unfold pbound, quadrant_ellipse_top_left, psub_size.
  destruct q; cbn [px py sw sh]; lia.
Qed.
Lemma smul2_bound radius : ds_size radius -> sbound 2048 (smul radius 2).
Proof. unf_ds. intros [? ?]. unfold sbound, smul. cbn [sw sh]. lia. Qed.
Lemma ellipse_quadrant_new_total t radius q : ds_point t -> ds_size radius -> ellipse_quadrant_new_ok t radius q = true.
Proof.
  intros Ht Hr. unfold ellipse_quadrant_new_ok.
  rewrite (ellipse_center_2x_total _ _ (quadrant_top_left_bound t radius q Ht Hr) (smul2_bound radius Hr)).
  rewrite (ellipse_contains_new_total _ (smul2_bound radius Hr)).
  assert (size_mul_ok radius 2 = true) as ->.
  { revert Hr. unf_ds. intros [? ?]. unfold size_mul_ok. sites; rng. }
  rewrite !andb_true_r.
  revert Ht Hr. unf_ds. intros [? ?] [? ?].
  unfold point_sub_size_ok, size_as_i32_ok, i32_max. destruct q; cbn [px py sw sh]; sites; rng.
Qed.
Lemma ellipse_quadrant_contains_total t radius q p :
  ds_point t -> ds_size radius -> ds_point p -> ellipse_quadrant_contains_ok t radius q p = true.
Proof.
  intros Ht Hr Hp. unfold ellipse_quadrant_contains_ok. cbv zeta.
  pose proof (ellipse_center_2x_bound _ _ (quadrant_top_left_bound t radius q Ht Hr) (smul2_bound radius Hr)) as [? ?].
  set (c := ellipse_center_2x _ _) in *.
  assert (pbound 8191 (psub (pmul p 2) c)).
  { revert Hp. unf_ds. intros [? ?]. unfold pbound, psub, pmul. cbn [px py]. lia. }
  rewrite (ellipse_contains_point_total _ _ (smul2_bound radius Hr)) by assumption.
  revert Hp. unf_ds. intros [? ?]. unfold point_mul_ok, point_sub_ok, pmul. cbn [px py andb].
  sites; rng.
Qed.

(* CornerRadii::confine *)
Definition ds_radii (c : radii) : Prop := ds_size (r_tl c) /\ ds_size (r_tr c) /\ ds_size (r_br c) /\ ds_size (r_bl c).
Definition confine_inv (acc : Z * Z) : Prop := 0 <= fst acc <= 1024 /\ 0 <= snd acc <= 2048.
Definition confine_elem (rs : Z * Z) : Prop := 0 <= fst rs <= 2048 /\ 0 <= snd rs <= 1024.
Lemma confine_step_inv acc rs : confine_inv acc -> confine_elem rs ->
  confine_step_ok acc rs = true /\ confine_inv (confine_step acc rs).
Proof.
  destruct acc as [size cs], rs as [radii side]. unfold confine_inv, confine_elem, confine_step_ok, confine_step.
  cbn [fst snd]. intros [? ?] [? ?].
  pose proof (mul_bound_nn radii size 2048 1024). pose proof (mul_bound_nn cs side 2048 1024).
  split.
  - sites; rng.
  - destruct (_ && _); cbn [fst snd]; lia.
Qed.
Lemma confine_fold l : forall ok acc, confine_inv acc -> Forall confine_elem l ->
  let r := fold_left (fun st rs => (fst st && confine_step_ok (snd st) rs, confine_step (snd st) rs)) l (ok, acc) in
  fst r = ok /\ snd r = fold_left confine_step l acc /\ confine_inv (snd r).
Proof.
  induction l as [|rs l IH]; intros ok acc Hacc Hl; cbn [fold_left fst snd].
  - auto.
  - inversion Hl; subst. destruct (confine_step_inv acc rs Hacc H1) as [Hok Hinv].
    rewrite Hok, andb_true_r. apply IH; assumption.
Qed.
Lemma confine_total c bb : ds_radii c -> ds_size bb -> confine_ok c bb = true.
Proof.
  intros Hc Hb. unfold confine_ok, confine_choice.
  set (l := [_; _; _; _]).
  assert (Hl : Forall confine_elem l).
  { revert Hc Hb. unfold ds_radii. unf_ds. intros [[? ?] [[? ?] [[? ?] [? ?]]]] [? ?].
    subst l. repeat constructor; cbn [fst snd]; lia. }
  assert (H0 : confine_inv (0, 0)) by (unfold confine_inv; cbn; lia).
  destruct (confine_fold l true (0, 0) H0 Hl) as [Hf [Hs Hi]]. cbv zeta. rewrite Hf, andb_true_r.
  rewrite Hs in Hi. destruct (fold_left confine_step l (0, 0)) as [size cs]. unfold confine_inv in Hi. cbn [fst snd] in Hi.
  revert Hc Hb. unfold ds_radii. unf_ds. intros [[? ?] [[? ?] [[? ?] [? ?]]]] [? ?].
  unfold size_mul_ok, size_div_ok.
  pose proof (mul_bound_nn (sw (r_tl c)) size 1024 1024). pose proof (mul_bound_nn (sh (r_tl c)) size 1024 1024).
  pose proof (mul_bound_nn (sw (r_tr c)) size 1024 1024). pose proof (mul_bound_nn (sh (r_tr c)) size 1024 1024).
  pose proof (mul_bound_nn (sw (r_br c)) size 1024 1024). pose proof (mul_bound_nn (sh (r_br c)) size 1024 1024).
  pose proof (mul_bound_nn (sw (r_bl c)) size 1024 1024). pose proof (mul_bound_nn (sh (r_bl c)) size 1024 1024).
  sites; zb; rng.
Qed.

(* =========================================================================================== *)
(* Line: delta, perpendicular, Bresenham parameters, the Points loop                             *)
(* =========================================================================================== *)
Definition lbound (C : Z) (l : line) : Prop := pbound C (l_start l) /\ pbound C (l_end l).
Lemma ds_lbound l : ds_line l -> lbound 1024 l.
Proof. unf_ds. unfold lbound, pbound. tauto. Qed.
Lemma edge_lbound l : edge_line l -> lbound 1800 l.
Proof. unf_ds. unfold lbound, pbound. tauto. Qed.

Lemma line_delta_total C l : 0 <= C <= 1073741823 -> lbound C l -> line_delta_ok l = true /\ pbound (2 * C) (line_delta l).
Proof.
  unfold lbound, pbound, line_delta_ok, line_delta, point_sub_ok, psub. intros ? [[? ?] [? ?]]. cbn [px py].
  split; [ sites; rng | lia ].
Qed.
Lemma perpendicular_total C l : 0 <= C <= 500000000 -> lbound C l ->
  perpendicular_ok l = true /\ lbound (3 * C) (perpendicular l).
Proof.
  intros HC Hl. destruct (line_delta_total C l ltac:(lia) Hl) as [Hd [? ?]].
  unfold perpendicular_ok, perpendicular. cbv zeta. rewrite Hd.
  revert Hl. unfold lbound, pbound, point_add_ok, padd. intros [[? ?] [? ?]]. cbn [px py l_start l_end andb].
  split; [ sites; rng | lia ].
Qed.

(* facts about BresenhamParameters::new *)
Definition unit_step (q : point) : Prop := -1 <= px q <= 1 /\ -1 <= py q <= 1.
Definition bp_ok (B : Z) (p : bparams) : Prop :=
  0 <= error_threshold p <= B /\ 0 <= error_step_major p <= error_step_minor p /\
  error_step_minor p = 2 * error_threshold p /\ unit_step (pos_step_major p) /\ unit_step (pos_step_minor p).
Lemma bparams_new_total C l : 0 <= C <= 268435455 -> lbound C l ->
  bparams_new_ok l = true /\ bp_ok (2 * C) (bparams_new l).
Proof.
  intros HC Hl. destruct (line_delta_total C l ltac:(lia) Hl) as [Hd [? ?]].
  unfold bparams_new_ok. rewrite Hd. unfold point_abs_ok, bp_ok, unit_step, bparams_new. fold (line_delta l).
  destruct (0 <=? px (line_delta l)); destruct (0 <=? py (line_delta l));
  destruct (Z.abs (px (line_delta l)) <=? Z.abs (py (line_delta l))) eqn:E; zb;
  cbn [error_threshold error_step_major error_step_minor pos_step_major pos_step_minor px py andb];
  (split; [ sites; rng | lia ]).
Qed.
Lemma major_length_total C l : 0 <= C <= 268435455 -> lbound C l ->
  major_length_ok l = true /\ 1 <= major_length l <= 2 * C + 1.
Proof.
  intros HC Hl. destruct (line_delta_total C l ltac:(lia) Hl) as [Hd [? ?]].
  unfold major_length_ok. rewrite Hd. unfold point_abs_ok, major_length. fold (line_delta l). cbn [andb].
  split; [ sites; rng | lia ].
Qed.

(* one Bresenham::next step: sites safe, invariant preserved, the point moves by at most one per axis and call *)
Definition berr_inv (p : bparams) (e : Z) : Prop := - error_threshold p <= e <= error_threshold p + error_step_major p.
Lemma bnext_step B C p s : 0 <= B <= 268435455 -> 0 <= C <= 1073741823 -> bp_ok B p ->
  pbound C (b_point s) -> berr_inv p (b_error s) ->
  bnext_ok p s = true /\ pbound (C + 2) (b_point (snd (bnext p s))) /\ berr_inv p (b_error (snd (bnext p s))).
Proof.
  unfold bp_ok, unit_step, pbound, berr_inv. intros ? ? [? [? [? [[? ?] [? ?]]]]] [? ?] ?.
  unfold bnext_ok, bnext, point_add_ok, padd.
  destruct (error_threshold p <? b_error s) eqn:E; zb; cbn [fst snd b_point b_error px py];
  (split; [ sites; rng | lia ]).
Qed.
Lemma bresenham_run_total B p : 0 <= B <= 268435455 -> bp_ok B p ->
  forall n s C, 0 <= C -> C + 2 * Z.of_nat n <= 1073741823 -> pbound C (b_point s) -> berr_inv p (b_error s) ->
  bresenham_run_ok p s n = true.
Proof.
  intros HB Hp. induction n as [|n IH]; intros s C HC Hn Hs He; cbn [bresenham_run_ok]; [reflexivity|].
  destruct (bnext_step B C p s HB ltac:(lia) Hp Hs He) as [Hok [Hs' He']].
  rewrite Hok. cbn [andb]. apply (IH _ (C + 2)); try assumption; lia.
Qed.
Lemma line_points_total l : ds_line l -> line_points_ok l = true.
Proof.
  intros Hl. pose proof (ds_lbound l Hl) as Hb.
  destruct (major_length_total 1024 l ltac:(lia) Hb) as [Hm ?].
  destruct (bparams_new_total 1024 l ltac:(lia) Hb) as [Hp Hbp].
  unfold line_points_ok. rewrite Hm, Hp. cbn [andb].
  apply (bresenham_run_total 2048 _ ltac:(lia) Hbp _ _ 1024); cbn [b_point b_error].
  - lia.
  - rewrite Z2Nat.id by lia. lia.
  - apply Hb.
  - destruct Hbp as [? [? ?]]. unfold berr_inv. lia.
Qed.
(* explicit step bound of the loop *)
Lemma line_points_steps_bound l : ds_line l -> 1 <= line_points_steps l <= 2049.
Proof. intros Hl. destruct (major_length_total 1024 l ltac:(lia) (ds_lbound l Hl)). unfold line_points_steps. lia. Qed.
Lemma line_points_length l : length (line_points l) = Z.to_nat (line_points_steps l).
Proof.
  unfold line_points, line_points_steps. generalize (Z.to_nat (major_length l)) (BS (l_start l) 0) (bparams_new l).
  induction n as [|n IH]; intros s p; cbn [bresenham_run]; [reflexivity|].
  destruct (bnext p s). cbn [length]. rewrite IH. reflexivity.
Qed.

(* error updates of the parallel lines, next_all / previous_all: per-step safety + invariant *)
Definition perr_inv (p : bparams) (e : Z) : Prop := - error_threshold p <= e <= error_threshold p.
Lemma increase_error_total B p e : 0 <= B <= 268435455 -> bp_ok B p -> perr_inv p e ->
  increase_error_ok p e = true /\ perr_inv p (increase_error p e).
Proof.
  unfold bp_ok, perr_inv, increase_error_ok, increase_error. intros ? [? [? [? _]]] ?. cbv zeta.
  destruct (error_threshold p <? e + error_step_major p) eqn:E; zb; (split; [ sites; rng | lia ]).
Qed.
Lemma decrease_error_total B p e : 0 <= B <= 268435455 -> bp_ok B p -> perr_inv p e ->
  decrease_error_ok p e = true /\ perr_inv p (decrease_error p e).
Proof.
  unfold bp_ok, perr_inv, decrease_error_ok, decrease_error. intros ? [? [? [? _]]] ?. cbv zeta.
  destruct (e - error_step_major p <=? - error_threshold p) eqn:E; zb; (split; [ sites; rng | lia ]).
Qed.
Definition aerr_inv (p : bparams) (e : Z) : Prop :=
  - (error_threshold p + error_step_major p) <= e <= error_threshold p + error_step_major p.
Lemma next_all_total B C p s : 0 <= B <= 268435455 -> 0 <= C <= 1073741823 -> bp_ok B p ->
  pbound C (b_point s) -> aerr_inv p (b_error s) ->
  next_all_ok p s = true /\ pbound (C + 1) (b_point (next_all p s)) /\ aerr_inv p (b_error (next_all p s)).
Proof.
  unfold bp_ok, unit_step, pbound, aerr_inv. intros ? ? [? [? [? [[? ?] [? ?]]]]] [? ?] ?.
  unfold next_all_ok, next_all, point_add_ok, point_sub_ok, padd.
  destruct (error_threshold p <? b_error s) eqn:E; zb; cbn [b_point b_error px py];
  (split; [ sites; rng | lia ]).
Qed.
Lemma previous_all_total B C p s : 0 <= B <= 268435455 -> 0 <= C <= 1073741823 -> bp_ok B p ->
  pbound C (b_point s) -> aerr_inv p (b_error s) ->
  previous_all_ok p s = true /\ pbound (C + 1) (b_point (previous_all p s)) /\ aerr_inv p (b_error (previous_all p s)).
Proof.
  unfold bp_ok, unit_step, pbound, aerr_inv. intros ? ? [? [? [? [[? ?] [? ?]]]]] [? ?] ?.
  unfold previous_all_ok, previous_all, point_add_ok, point_sub_ok, psub.
  destruct (b_error s <=? - error_threshold p) eqn:E; zb; cbn [b_point b_error px py];
  (split; [ sites; rng | lia ]).
Qed.

(* =========================================================================================== *)
(* Thick lines                                                                                   *)
(* =========================================================================================== *)
Lemma thick_line_used_ds l0 : ds_line l0 -> ds_line (thick_line_used l0).
Proof.
  intros. unfold thick_line_used. destruct (point_eqb _ _); [ | assumption ].
  unf_ds. unfold horizontal_line. cbn. lia.
Qed.
Lemma thickness_threshold_bound l0 t : ds_line l0 -> 0 <= t <= 128 -> 0 <= thickness_threshold l0 t <= 549755813888.
Proof.
  intros Hl Ht. pose proof (thick_line_used_ds l0 Hl) as Hu.
  destruct (line_delta_total 1024 _ ltac:(lia) (ds_lbound _ Hu)) as [_ Hd].
  pose proof (length_squared_bound 2048 _ ltac:(lia) Hd).
  unfold thickness_threshold. pose proof (mul_bound_nn (t * 2) (t * 2) 256 256).
  pose proof (mul_bound_nn (t * 2 * (t * 2)) (length_squared (line_delta (thick_line_used l0))) (256 * 256) (2 * (2048 * 2048))).
  lia.
Qed.
Lemma parallels_new_total l0 t : ds_line l0 -> 0 <= t <= 128 -> parallels_new_ok l0 t = true.
Proof.
  intros Hl Ht. pose proof (thick_line_used_ds l0 Hl) as Hu. pose proof (ds_lbound _ Hu) as Hb.
  pose proof (thickness_threshold_bound l0 t Hl Ht) as Hthr.
  unfold parallels_new_ok. cbv zeta. set (l := thick_line_used l0) in *.
  destruct (bparams_new_total 1024 l ltac:(lia) Hb) as [-> Hbp].
  destruct (perpendicular_total 1024 l ltac:(lia) Hb) as [-> Hperp].
  destruct (bparams_new_total 3072 _ ltac:(lia) Hperp) as [-> Hbpp].
  destruct (line_delta_total 1024 l ltac:(lia) Hb) as [-> Hd].
  pose proof (length_squared_bound 2048 _ ltac:(lia) Hd) as Hls.
  assert (Hq : i64 (px (line_delta l) * px (line_delta l)) = true /\ i64 (py (line_delta l) * py (line_delta l)) = true /\
               i64 (length_squared (line_delta l)) = true).
  { destruct Hd as [? ?].
    pose proof (mul_bound (px (line_delta l)) (px (line_delta l)) 2048 2048).
    pose proof (mul_bound (py (line_delta l)) (py (line_delta l)) 2048 2048). repeat split; rng. }
  destruct Hq as [-> [-> ->]].
  pose proof (mul_bound_nn (t * 2) (t * 2) 256 256).
  destruct (next_all_total 6144 1024 (bparams_new (perpendicular l)) (BS (l_start l0) 0)) as [-> _];
    try lia; try assumption.
  { apply (ds_lbound _ Hl). }
  { destruct Hbpp as [? [? ?]]. unfold aerr_inv. cbn [b_error]. lia. }
  destruct Hbp as [? [? [? [[? ?] [? ?]]]]].
  unfold point_neg_ok. cbn [andb]. sites; rng.
Qed.
Lemma thick_points_new_total l0 t : ds_line l0 -> 0 <= t <= 128 -> thick_points_new_ok l0 t = true.
Proof.
  intros Hl Ht. unfold thick_points_new_ok. rewrite (parallels_new_total l0 t Hl Ht).
  destruct (major_length_total 1024 l0 ltac:(lia) (ds_lbound _ Hl)) as [-> _]. reflexivity.
Qed.
Lemma styled_line_new_total l0 w : ds_line l0 -> ds_width w -> styled_line_new_ok l0 w = true.
Proof.
  intros Hl Hw. unfold styled_line_new_ok. apply thick_points_new_total; [assumption|].
  revert Hw. unf_ds. unf_sat. lia.
Qed.
(* ParallelsIterator::next: acc stays below 2^20 + 2^13 while acc^2 <= threshold <= 2^39 *)
Definition acc_inv (acc : Z) : Prop := 0 <= acc <= 1056768.
Lemma parallels_next_total acc thr step : acc_inv acc -> 0 <= thr <= 549755813888 -> 0 <= step <= 8192 ->
  parallels_next_ok acc thr step = true /\ (acc * acc <= thr -> acc_inv (acc + step)).
Proof.
  unfold acc_inv, parallels_next_ok. intros ? ? ?. pose proof (mul_bound_nn acc acc 1056768 1056768).
  split.
  - sites; rng.
  - intros. assert (acc <= 1048576) by nia. lia.
Qed.
Lemma thickness_accumulator0_inv l0 : ds_line l0 -> acc_inv (thickness_accumulator0 l0).
Proof.
  intros Hl. pose proof (thick_line_used_ds l0 Hl) as Hu.
  destruct (bparams_new_total 1024 _ ltac:(lia) (ds_lbound _ Hu)) as [_ [? [? [? _]]]].
  unfold thickness_accumulator0, acc_inv. cbv zeta. lia.
Qed.
Lemma thick_points_next_total len : 1 <= len <= 4294967295 -> thick_points_next_ok len = true.
Proof. intros. unfold thick_points_next_ok. rng. Qed.

(* =========================================================================================== *)
(* LinearEquation, IntersectionParams, miter (on the edge lines of a display-scale thick segment) *)
(* =========================================================================================== *)
Lemma le_normal_bound l : lbound 1800 l -> pbound 3600 (le_normal l).
Proof.
  intros Hl. destruct (line_delta_total 1800 l ltac:(lia) Hl) as [_ [? ?]].
  unfold le_normal, rotate_90, pbound. cbn [px py]. lia.
Qed.
Lemma le_distance_bound l : lbound 1800 l -> - 12960000 <= le_distance l <= 12960000.
Proof.
  intros Hl. pose proof (le_normal_bound l Hl) as [? ?]. destruct Hl as [[? ?] _].
  unfold le_distance, dot_product.
  pose proof (mul_bound (px (l_start l)) (px (le_normal l)) 1800 3600).
  pose proof (mul_bound (py (l_start l)) (py (le_normal l)) 1800 3600). lia.
Qed.
Lemma from_line_total l : edge_line l -> from_line_ok l = true.
Proof.
  intros He. pose proof (edge_lbound l He) as Hl. unfold from_line_ok.
  destruct (line_delta_total 1800 l ltac:(lia) Hl) as [-> Hd].
  rewrite (rotate_90_total 3600) by (assumption || lia).
  rewrite (dot_product_total 1800 3600) by (try lia; try apply Hl; apply le_normal_bound; assumption).
  reflexivity.
Qed.
Lemma le_point_distance_total l p : edge_line l -> edge_point p -> le_point_distance_ok l p = true.
Proof.
  intros He Hp. pose proof (edge_lbound l He) as Hl. unfold le_point_distance_ok.
  assert (Hp' : pbound 1800 p) by (revert Hp; unf_ds; unfold pbound; tauto).
  rewrite (dot_product_total 1800 3600) by (try lia; try assumption; apply le_normal_bound; assumption).
  pose proof (le_distance_bound l Hl). pose proof (le_normal_bound l Hl) as [? ?]. destruct Hp' as [? ?].
  unfold dot_product.
  pose proof (mul_bound (px p) (px (le_normal l)) 1800 3600).
  pose proof (mul_bound (py p) (py (le_normal l)) 1800 3600). cbn [andb]. rng.
Qed.
Lemma ip_denominator_bound l1 l2 : lbound 1800 l1 -> lbound 1800 l2 -> - 25920000 <= ip_denominator l1 l2 <= 25920000.
Proof.
  intros H1 H2. pose proof (le_normal_bound l1 H1) as [? ?]. pose proof (le_normal_bound l2 H2) as [? ?].
  unfold ip_denominator, determinant.
  pose proof (mul_bound (px (le_normal l1)) (py (le_normal l2)) 3600 3600).
  pose proof (mul_bound (py (le_normal l1)) (px (le_normal l2)) 3600 3600). lia.
Qed.
Lemma from_lines_total l1 l2 : edge_line l1 -> edge_line l2 -> from_lines_ok l1 l2 = true.
Proof.
  intros H1 H2. unfold from_lines_ok. rewrite (from_line_total l1 H1), (from_line_total l2 H2).
  rewrite (determinant_total 3600 3600) by (try lia; apply le_normal_bound, edge_lbound; assumption). reflexivity.
Qed.
Lemma nearly_colinear_total l1 l2 : edge_line l1 -> edge_line l2 -> nearly_colinear_ok l1 l2 = true.
Proof.
  intros H1 H2. pose proof (edge_lbound l1 H1) as B1. pose proof (edge_lbound l2 H2) as B2.
  unfold nearly_colinear_ok.
  destruct (line_delta_total 1800 l1 ltac:(lia) B1) as [-> D1]. destruct (line_delta_total 1800 l2 ltac:(lia) B2) as [-> D2].
  rewrite (dot_product_total 3600 3600) by (assumption || lia).
  pose proof (ip_denominator_bound l1 l2 B1 B2).
  pose proof (mul_bound (ip_denominator l1 l2) (ip_denominator l1 l2) 25920000 25920000).
  destruct D1 as [? ?], D2 as [? ?]. unfold dot_product.
  pose proof (mul_bound (px (line_delta l1)) (px (line_delta l2)) 3600 3600).
  pose proof (mul_bound (py (line_delta l1)) (py (line_delta l2)) 3600 3600).
  cbn [andb]. sites; rng.
Qed.
Lemma div_bound n d N : 0 < d -> - N <= n <= N -> - N <= n / d <= N.
Proof.
  intros Hd Hn. split.
  - apply Z.div_le_lower_bound; [assumption | nia].
  - apply Z.div_le_upper_bound; [assumption | nia].
Qed.
Lemma round_div_total den num : den <> 0 -> - 25920000 <= den <= 25920000 ->
  - 100000000000 <= num <= 100000000000 -> round_div_ok den num = true.
Proof.
  intros Hz Hd Hn. unfold round_div_ok.
  destruct (den <? 0) eqn:E; zb.
  - pose proof (div_bound (- num + Z.quot (- den) 2) (- den) 100100000000 ltac:(lia) ltac:(lia)).
    sites; rng.
  - pose proof (div_bound (num + Z.quot den 2) den 100100000000 ltac:(lia) ltac:(lia)).
    sites; rng.
Qed.
Lemma ip_intersection_total l1 l2 : edge_line l1 -> edge_line l2 -> ip_intersection_ok l1 l2 = true.
Proof.
  intros H1 H2. pose proof (edge_lbound l1 H1) as B1. pose proof (edge_lbound l2 H2) as B2.
  pose proof (ip_denominator_bound l1 l2 B1 B2). pose proof (le_distance_bound l1 B1). pose proof (le_distance_bound l2 B2).
  pose proof (le_normal_bound l1 B1) as [? ?]. pose proof (le_normal_bound l2 B2) as [? ?].
  unfold ip_intersection_ok. cbv zeta. destruct (ip_denominator l1 l2 =? 0) eqn:E; [reflexivity|]. zb.
  pose proof (mul_bound (le_distance l1) (py (le_normal l2)) 12960000 3600).
  pose proof (mul_bound (le_distance l2) (py (le_normal l1)) 12960000 3600).
  pose proof (mul_bound (px (le_normal l1)) (le_distance l2) 3600 12960000).
  pose proof (mul_bound (px (le_normal l2)) (le_distance l1) 3600 12960000).
  rewrite !round_div_total by (unfold ip_x_numerator, ip_y_numerator; (assumption || lia)).
  unfold det64_ok. rewrite !andb_true_r. sites; rng.
Qed.
(* the miter point is bounded by hypothesis here (OPEN: derive |intersection| <= 2^30 from the edge lines and the
   nearly_colinear test); the stroke width may be anything up to 2^30 *)
Lemma miter_total inter mid width : pbound 1073741824 inter -> ds_point mid -> 0 <= width <= 1073741824 ->
  miter_ok inter mid width = true.
Proof.
  unfold pbound. unf_ds. intros [? ?] [? ?] ?. unfold miter_ok, point_sub_ok, length_squared, psub. cbn [px py].
  pose proof (mul_bound (px inter - px mid) (px inter - px mid) 1073742848 1073742848).
  pose proof (mul_bound (py inter - py mid) (py inter - py mid) 1073742848 1073742848).
  pose proof (mul_bound_nn (width * 2) (width * 2) 2147483648 2147483648).
  pose proof (Z.square_nonneg (px inter - px mid)). pose proof (Z.square_nonneg (py inter - py mid)).
  sites; rng.
Qed.

(* ---- the miter point: |intersection| <= 25921801 for display-scale edge lines that are not nearly colinear ---- *)
Lemma lt_of_sq_lt a b : 0 <= a -> 0 <= b -> a * a < b * b -> a < b.
Proof.
  intros Ha Hb H. apply Z.nle_gt. intro Hc.
  assert (b * b <= a * a) by (apply Z.mul_le_mono_nonneg; lia). lia.
Qed.
Lemma le_of_sq_le a b : 0 <= a -> 0 <= b -> a * a <= b * b -> a <= b.
Proof.
  intros Ha Hb H. apply Z.nlt_ge. intro Hc.
  assert (b * b < a * a) by (apply Z.mul_lt_mono_nonneg; lia). lia.
Qed.
Lemma max_norm_sq x y N : N = Z.max (Z.abs x) (Z.abs y) -> N * N <= x * x + y * y.
Proof. intros ->. destruct (Z.max_spec (Z.abs x) (Z.abs y)) as [[? ->]|[? ->]]; nia. Qed.
Lemma lagrange a b c d : (a * d - b * c) * (a * d - b * c) + (a * c + b * d) * (a * c + b * d) = (a * a + b * b) * (c * c + d * d).
Proof. ring. Qed.

(* den^2 >= |dot|  ->  N1 N2 <= den^2 *)
Lemma not_colinear_den a b c d N1 N2 :
  N1 = Z.max (Z.abs a) (Z.abs b) -> N2 = Z.max (Z.abs c) (Z.abs d) ->
  Z.abs (a * c + b * d) <= (a * d - b * c) * (a * d - b * c) ->
  N1 * N2 <= (a * d - b * c) * (a * d - b * c).
Proof.
  intros H1 H2 H.
  pose proof (max_norm_sq a b N1 H1) as M1. pose proof (max_norm_sq c d N2 H2) as M2.
  pose proof (lagrange a b c d) as L.
  assert (P1 : 0 <= N1) by lia. assert (P2 : 0 <= N2) by lia.
  set (q := (a * d - b * c) * (a * d - b * c)) in *. set (dot := a * c + b * d) in *.
  assert (Q : 0 <= q) by (subst q; apply Z.square_nonneg).
  assert (D : dot * dot <= q * q).
  { rewrite <- Z.abs_square. apply Z.mul_le_mono_nonneg; lia. }
  assert (S : (N1 * N2) * (N1 * N2) <= (a * a + b * b) * (c * c + d * d)).
  { replace ((N1 * N2) * (N1 * N2)) with ((N1 * N1) * (N2 * N2)) by ring.
    apply Z.mul_le_mono_nonneg; try assumption; apply Z.square_nonneg. }
  assert (T : (N1 * N2) * (N1 * N2) < (q + 1) * (q + 1)) by lia.
  assert (P : 0 <= N1 * N2) by (apply Z.mul_nonneg_nonneg; assumption).
  pose proof (lt_of_sq_lt (N1 * N2) (q + 1) P ltac:(lia) T). lia.
Qed.

(* N <= q = k*k, N <= B*B  ->  N <= B * |k| *)
Lemma geo_mean N k B : 0 <= N -> 0 <= B -> N <= k * k -> N <= B * B -> N <= B * Z.abs k.
Proof.
  intros HN HB H1 H2. apply le_of_sq_le; try lia.
  replace (B * Z.abs k * (B * Z.abs k)) with ((B * B) * (Z.abs k * Z.abs k)) by ring.
  rewrite Z.abs_square. apply Z.mul_le_mono_nonneg; lia.
Qed.

Lemma abs_mul_le x y X Y : Z.abs x <= X -> Z.abs y <= Y -> Z.abs (x * y) <= X * Y.
Proof. intros. rewrite Z.abs_mul. apply Z.mul_le_mono_nonneg; lia. Qed.
Lemma round_div_bound den num B : den <> 0 -> 0 <= B -> Z.abs num <= Z.abs den * B -> - (B + 1) <= round_div den num <= B + 1.
Proof.
  intros Hz HB Hn. unfold round_div.
  assert (G : forall n d, 0 < d -> Z.abs n <= d * B -> - (B + 1) <= (n + Z.quot d 2) / d <= B + 1).
  { intros n d Hd Hb. assert (0 <= Z.quot d 2 <= d) by (rewrite Z.quot_div_nonneg by lia; split; [apply Z.div_pos; lia | apply Z.div_le_upper_bound; lia]).
    split.
    - apply Z.div_le_lower_bound; [assumption | nia].
    - apply Z.div_le_upper_bound; [assumption | nia]. }
  destruct (den <? 0) eqn:E; zb.
  - specialize (G (- num) (- den) ltac:(lia) ltac:(lia)). unf_sat. lia.
  - specialize (G num den ltac:(lia) ltac:(lia)). unf_sat. lia.
Qed.
Lemma ip_numerator_identity l1 l2 :
  ip_x_numerator l1 l2 = ip_denominator l1 l2 * px (l_start l1)
    - px (line_delta l1) * dot_product (le_normal l2) (psub (l_start l2) (l_start l1)) /\
  ip_y_numerator l1 l2 = ip_denominator l1 l2 * py (l_start l1)
    - py (line_delta l1) * dot_product (le_normal l2) (psub (l_start l2) (l_start l1)).
Proof.
  unfold ip_x_numerator, ip_y_numerator, ip_denominator, le_distance, le_normal, determinant, dot_product, rotate_90, line_delta, psub.
  cbn [px py]. split; ring.
Qed.
Lemma ip_denominator_delta l1 l2 :
  ip_denominator l1 l2 = px (line_delta l1) * py (line_delta l2) - py (line_delta l1) * px (line_delta l2).
Proof. unfold ip_denominator, le_normal, determinant, rotate_90. cbn [px py]. ring. Qed.
Lemma ip_intersection_bound l1 l2 p : edge_line l1 -> edge_line l2 -> nearly_colinear l1 l2 = false ->
  ip_intersection l1 l2 = Some p -> pbound 25921801 p.
Proof.
  intros E1 E2 Hn Hp. pose proof (edge_lbound l1 E1) as B1. pose proof (edge_lbound l2 E2) as B2.
  destruct (line_delta_total 1800 l1 ltac:(lia) B1) as [_ [Dx1 Dy1]].
  destruct (line_delta_total 1800 l2 ltac:(lia) B2) as [_ [Dx2 Dy2]].
  unfold ip_intersection in Hp. destruct (ip_denominator l1 l2 =? 0) eqn:Ez; [discriminate|]. zb. injection Hp as <-.
  unfold nearly_colinear in Hn. zb.
  destruct (ip_numerator_identity l1 l2) as [Ix Iy]. pose proof (ip_denominator_delta l1 l2) as Id.
  set (a := px (line_delta l1)) in *. set (b := py (line_delta l1)) in *.
  set (c := px (line_delta l2)) in *. set (d := py (line_delta l2)) in *.
  set (den := ip_denominator l1 l2) in *.
  set (N1 := Z.max (Z.abs a) (Z.abs b)). set (N2 := Z.max (Z.abs c) (Z.abs d)).
  assert (HN : N1 * N2 <= den * den).
  { rewrite Id. apply not_colinear_den; try reflexivity. unfold dot_product in Hn. fold a b c d in Hn. rewrite Id in Hn. lia. }
  assert (P1 : 0 <= N1 <= 3600) by (subst N1; lia). assert (P2 : 0 <= N2 <= 3600) by (subst N2; lia).
  assert (HB : N1 * N2 <= 3600 * 3600) by (apply Z.mul_le_mono_nonneg; lia).
  assert (HG : N1 * N2 <= 3600 * Z.abs den) by (apply geo_mean; try lia; apply Z.mul_nonneg_nonneg; lia).
  (* the second term of the numerators *)
  set (w := dot_product (le_normal l2) (psub (l_start l2) (l_start l1))) in *.
  assert (A1 : Z.abs a <= N1) by (subst N1; apply Z.le_max_l). assert (A2 : Z.abs b <= N1) by (subst N1; apply Z.le_max_r).
  assert (A3 : Z.abs c <= N2) by (subst N2; apply Z.le_max_l). assert (A4 : Z.abs d <= N2) by (subst N2; apply Z.le_max_r).
  assert (HW : Z.abs w <= 7200 * N2).
  { subst w. unfold dot_product, le_normal, rotate_90, psub. fold c d. cbn [px py].
    destruct B1 as [[? ?] _], B2 as [[? ?] _].
    pose proof (abs_mul_le (- d) (px (l_start l2) - px (l_start l1)) N2 3600 ltac:(lia) ltac:(lia)) as W1.
    pose proof (abs_mul_le c (py (l_start l2) - py (l_start l1)) N2 3600 ltac:(lia) ltac:(lia)) as W2.
    clear - W1 W2. lia. }
  pose proof (abs_mul_le a w N1 (7200 * N2) A1 HW) as HA.
  pose proof (abs_mul_le b w N1 (7200 * N2) A2 HW) as HBw.
  destruct B1 as [[Sx Sy] _].
  pose proof (abs_mul_le den (px (l_start l1)) (Z.abs den) 1800 ltac:(lia) ltac:(clear - Sx; lia)) as HX.
  pose proof (abs_mul_le den (py (l_start l1)) (Z.abs den) 1800 ltac:(lia) ltac:(clear - Sy; lia)) as HY.
  unfold pbound. cbn [px py].
  assert (NX : Z.abs (ip_x_numerator l1 l2) <= Z.abs den * 25921800).
  { rewrite Ix. clear - HX HA HG P1 P2. set (u := den * px (l_start l1)) in *. set (v := a * w) in *. set (k := N1 * N2) in *.
    replace (N1 * (7200 * N2)) with (7200 * k) in HA by (subst k; ring). lia. }
  assert (NY : Z.abs (ip_y_numerator l1 l2) <= Z.abs den * 25921800).
  { rewrite Iy. clear - HY HBw HG P1 P2. set (u := den * py (l_start l1)) in *. set (v := b * w) in *. set (k := N1 * N2) in *.
    replace (N1 * (7200 * N2)) with (7200 * k) in HBw by (subst k; ring). lia. }
  pose proof (round_div_bound den (ip_x_numerator l1 l2) 25921800 Ez ltac:(lia) NX) as RX.
  pose proof (round_div_bound den (ip_y_numerator l1 l2) 25921800 Ez ltac:(lia) NY) as RY.
  clear - RX RY. lia.
Qed.
Lemma join_point_bound second first p : edge_line second -> edge_line first -> join_point second first = Some p -> pbound 25921801 p.
Proof.
  intros E2 E1. unfold join_point. destruct (ip_intersection second first) as [q|] eqn:Eq; [ | discriminate ].
  intros [= <-]. destruct (nearly_colinear second first) eqn:En.
  - destruct E1 as [_ [? ?]]. revert H H0. unf_ds. unfold pbound. lia.
  - apply (ip_intersection_bound second first); assumption.
Qed.
Lemma join_edges_total fl fr sl sr mid width : edge_line fl -> edge_line fr -> edge_line sl -> edge_line sr ->
  ds_point mid -> ds_width width -> join_edges_ok fl fr sl sr mid width = true.
Proof.
  intros Hfl Hfr Hsl Hsr Hm Hw. unfold join_edges_ok.
  rewrite !from_lines_total, !ip_intersection_total, !nearly_colinear_total, !from_line_total by assumption.
  rewrite !le_point_distance_total by (assumption || apply Hsl || apply Hsr). cbn [andb]. cbv zeta.
  destruct (ip_intersection sl fl) eqn:E1; [ | reflexivity ]. destruct (ip_intersection sr fr) eqn:E2; [ | reflexivity ].
  rewrite Tauto.if_same. cbn [andb].
  destruct (if ip_denominator sl fl <? 0 then _ else _); [reflexivity|].
  destruct (ip_denominator sl fl <? 0).
  - destruct (join_point sl fl) as [q|] eqn:El; [ | reflexivity ].
    pose proof (join_point_bound _ _ _ Hsl Hfl El) as [? ?].
    apply miter_total; try assumption; try (unfold pbound; lia); revert Hw; unf_ds; lia.
  - destruct (join_point sr fr) as [q|] eqn:Er; [ | reflexivity ].
    pose proof (join_point_bound _ _ _ Hsr Hfr Er) as [? ?].
    apply miter_total; try assumption; try (unfold pbound; lia); revert Hw; unf_ds; lia.
Qed.

(* =========================================================================================== *)
(* Triangle                                                                                      *)
(* =========================================================================================== *)
Ltac mb a b := let H := fresh "M" in pose proof (mul_bound a b 2048 2048 ltac:(lia) ltac:(lia)) as H.
Lemma area_doubled_total p1 p2 p3 : ds_point p1 -> ds_point p2 -> ds_point p3 -> area_doubled_ok p1 p2 p3 = true.
Proof.
  unf_ds. intros [? ?] [? ?] [? ?]. unfold area_doubled_ok, area_doubled.
  mb (- py p2) (px p3). mb (py p1) (px p3 - px p2). mb (px p1) (py p2 - py p3). mb (px p2) (py p3).
  sites; rng.
Qed.
Lemma tri_bary_total a0 a1 b0 b1 c d e f x y :
  ds_coord a0 -> ds_coord a1 -> ds_coord b0 -> ds_coord b1 -> ds_coord c -> ds_coord d -> ds_coord e -> ds_coord f ->
  ds_coord x -> ds_coord y -> tri_bary_ok a0 a1 b0 b1 c d e f x y = true.
Proof.
  unf_ds. intros. unfold tri_bary_ok.
  mb a0 b0. mb a1 b1. mb (c - d) x. mb (e - f) y. sites; rng.
Qed.
Lemma tri_st_bound p1 p2 p3 p : ds_point p1 -> ds_point p2 -> ds_point p3 -> ds_point p ->
  - 16777216 <= tri_s p1 p2 p3 p <= 16777216 /\ - 16777216 <= tri_t p1 p2 p3 p <= 16777216.
Proof.
  unf_ds. intros [? ?] [? ?] [? ?] [? ?]. unfold tri_s, tri_t.
  mb (py p1) (px p3). mb (px p1) (py p3). mb (py p3 - py p1) (px p). mb (px p1 - px p3) (py p).
  mb (px p1) (py p2). mb (py p1) (px p2). mb (py p1 - py p2) (px p). mb (px p2 - px p1) (py p). lia.
Qed.
Lemma tri_contains_total p1 p2 p3 p : ds_point p1 -> ds_point p2 -> ds_point p3 -> ds_point p ->
  tri_contains_ok p1 p2 p3 p = true.
Proof.
  intros H1 H2 H3 Hp. pose proof (tri_st_bound p1 p2 p3 p H1 H2 H3 Hp) as [? ?].
  unfold tri_contains_ok. rewrite (area_doubled_total p1 p2 p3 H1 H2 H3).
  revert H1 H2 H3 Hp. unfold ds_point. intros [? ?] [? ?] [? ?] [? ?].
  rewrite !tri_bary_total by assumption. cbn [andb]. sites; rng.
Qed.
Lemma sort_two_yx_ds a b : ds_point a -> ds_point b -> ds_point (fst (sort_two_yx a b)) /\ ds_point (snd (sort_two_yx a b)).
Proof. intros. unfold sort_two_yx. destruct (_ || _); cbn [fst snd]; tauto. Qed.
Lemma sorted_yx_ds p1 p2 p3 : ds_point p1 -> ds_point p2 -> ds_point p3 ->
  let '(y1, y2, y3) := sorted_yx p1 p2 p3 in ds_point y1 /\ ds_point y2 /\ ds_point y3.
Proof.
  intros H1 H2 H3. unfold sorted_yx.
  pose proof (sort_two_yx_ds p1 p2 H1 H2) as [A B]. destruct (sort_two_yx p1 p2) as [a b]. cbn [fst snd] in *.
  pose proof (sort_two_yx_ds p3 a H3 A) as [C D]. destruct (sort_two_yx p3 a) as [c d]. cbn [fst snd] in *.
  pose proof (sort_two_yx_ds d b D B) as [E F]. destruct (sort_two_yx d b) as [e f]. cbn [fst snd] in *. tauto.
Qed.
Lemma line_points_new_total l : ds_line l -> line_points_new_ok l = true.
Proof.
  intros Hl. unfold line_points_new_ok.
  destruct (major_length_total 1024 l ltac:(lia) (ds_lbound l Hl)) as [-> _].
  destruct (bparams_new_total 1024 l ltac:(lia) (ds_lbound l Hl)) as [-> _]. reflexivity.
Qed.
Lemma tri_bbox_ds p1 p2 p3 : ds_point p1 -> ds_point p2 -> ds_point p3 ->
  tri_bbox_ok p1 p2 p3 = true /\ ds_point (tl (tri_bbox p1 p2 p3)) /\ 1 <= sw (sz (tri_bbox p1 p2 p3)) <= 2049 /\ 1 <= sh (sz (tri_bbox p1 p2 p3)) <= 2049.
Proof.
  unf_ds. intros [? ?] [? ?] [? ?].
  unfold tri_bbox_ok, tri_bbox, with_corners_ok, from_bounding_box_ok, with_corners, size_from_bounding_box. cbn [px py tl sz sw sh].
  split; [ sites; rng | lia ].
Qed.
Lemma triangle_contains_total p1 p2 p3 p : ds_point p1 -> ds_point p2 -> ds_point p3 -> ds_point p ->
  triangle_contains_ok p1 p2 p3 p = true.
Proof.
  intros H1 H2 H3 Hp. unfold triangle_contains_ok.
  destruct (tri_bbox_ds p1 p2 p3 H1 H2 H3) as [-> [[? ?] [? ?]]].
  assert (contains_ok (tri_bbox p1 p2 p3) p = true) as ->.
  { unfold contains_ok, bottom_right_ok, point_add_size_ok, point_sub_ok, size_as_i32_ok, padd_size, i32_max.
    revert H. unf_ds. intros. cbn [px py]. sites; rng. }
  cbn [andb]. destruct (negb _); [reflexivity|].
  rewrite (tri_contains_total p1 p2 p3 p H1 H2 H3 Hp). cbn [andb].
  destruct (tri_bary p1 p2 p3 p) as [[|]|]; try reflexivity.
  pose proof (sorted_yx_ds p1 p2 p3 H1 H2 H3) as Hs. destruct (sorted_yx p1 p2 p3) as [[y1 y2] y3].
  destruct Hs as [? [? ?]].
  rewrite !line_points_new_total by (unfold ds_line; cbn [l_start l_end]; tauto). reflexivity.
Qed.

(* =========================================================================================== *)
(* Text layout arithmetic                                                                        *)
(* =========================================================================================== *)
Lemma line_height_total percent v base : 0 <= base <= 1024 -> 0 <= v <= 1024 -> line_height_ok percent v base = true.
Proof. intros. unfold line_height_ok. pose proof (mul_bound_nn base v 1024 1024). sites; rng. Qed.
Lemma line_height_abs_bound (percent : bool) v base : 0 <= base <= 1024 -> 0 <= v <= (if percent then 400 else 1024) ->
  0 <= line_height_abs percent v base <= 4096.
Proof.
  intros. unfold line_height_abs. destruct percent; [ | lia ].
  pose proof (mul_bound_nn base v 1024 400). lia.
Qed.
Lemma text_line_total pos al np lh : pbound 1073741823 pos -> 0 <= px np <= 1073741823 -> py np = 0 -> 0 <= lh <= 4096 ->
  text_line_ok pos al np lh = true.
Proof.
  unfold pbound. intros [? ?] ? ? ?. unfold text_line_ok, point_sub_ok, point_div_ok, psub, pdiv. cbn [px py].
  destruct al; sites; rng.
Qed.
Lemma text_lines_total al lh : 0 <= lh <= 4096 -> forall widths pos,
  Forall (fun w => 0 <= w <= 1073741823) widths ->
  - 1073741823 <= px pos <= 1073741823 -> - 1073741823 <= py pos -> py pos + lh * Z.of_nat (length widths) <= 1073741823 ->
  text_lines_ok pos al widths lh = true.
Proof.
  intros Hlh. induction widths as [|w rest IH]; intros pos Hw Hx Hy Hn; cbn [text_lines_ok]; [reflexivity|].
  inversion Hw; subst. cbn [length] in Hn. rewrite Nat2Z.inj_succ in Hn.
  rewrite text_line_total; cbn [px py]; try (unfold pbound); try lia.
  cbn [andb]. apply IH; cbn [px py]; try assumption; nia.
Qed.

(* mono font layout: display scale = glyph cells and spacing up to 64 px, lines up to 65536 characters *)
Definition ds_font (cw ch sp bl : Z) : Prop := 0 <= cw <= 64 /\ 0 <= ch <= 64 /\ 0 <= sp <= 64 /\ 0 <= bl <= 64.
Lemma baseline_offset_bound b ch bl : 0 <= ch <= 64 -> 0 <= bl <= 64 -> 0 <= baseline_offset b ch bl <= 64.
Proof. intros. unfold baseline_offset. unf_sat. destruct b; lia. Qed.
Lemma line_elements_total cw sp : 0 <= cw <= 64 -> 0 <= sp <= 64 -> forall n x,
  - 1073741823 <= x -> x + 128 * Z.of_nat n <= 1073741823 -> line_elements_ok x cw sp n = true.
Proof.
  intros Hc Hs. induction n as [|n IH]; intros x Hx Hn; [reflexivity|].
  cbn [line_elements_ok]. destruct n as [|m]; [ rng | ].
  rewrite IH by lia. rewrite andb_true_r. sites; rng.
Qed.
Lemma draw_string_plain_total pos bo cw sp n : ds_point pos -> 0 <= bo <= 64 -> 0 <= cw <= 64 -> 0 <= sp <= 64 ->
  0 <= n <= 65536 -> draw_string_plain_ok pos bo cw sp n = true.
Proof.
  unf_ds. intros [? ?] ? ? ? ?. pose proof (mul_bound_nn (cw + sp) n 128 65536).
  unfold draw_string_plain_ok, point_sub_ok, point_add_ok, point_add_size_ok, size_as_i32_ok, padd_size, psub, i32_max.
  cbn [px py sw sh]. sites; rng.
Qed.
Lemma draw_whitespace_total pos bo width : ds_point pos -> 0 <= bo <= 64 -> 0 <= width <= 1048576 ->
  draw_whitespace_ok pos bo width = true.
Proof.
  unf_ds. intros [? ?] ? ?. unfold draw_whitespace_ok, point_sub_ok, point_add_ok, psub. unf_sat. cbn [px py].
  sites; rng.
Qed.
Lemma measure_string_total pos bo cw sp n uo uh underline : ds_point pos -> 0 <= bo <= 64 -> 0 <= cw <= 64 -> 0 <= sp <= 64 ->
  0 <= n <= 65536 -> 0 <= uo <= 64 -> 0 <= uh <= 64 -> measure_string_ok pos bo cw sp n uo uh underline = true.
Proof.
  unf_ds. intros [? ?] ? ? ? ? ? ?. pose proof (mul_bound_nn n (cw + sp) 65536 128).
  unfold measure_string_ok, measure_width, point_sub_ok, point_add_size_ok, size_as_i32_ok, i32_max. unf_sat.
  cbn [px py sw sh]. sites; rng.
Qed.

(* =========================================================================================== *)
(* ImageRaw, ContiguousPixels, Cropped                                                           *)
(* =========================================================================================== *)
Definition ds_bpp (bpp : Z) : Prop := bpp = 1 \/ bpp = 2 \/ bpp = 4 \/ bpp = 8 \/ bpp = 16 \/ bpp = 24 \/ bpp = 32.
Lemma bytes_per_row_total um w bpp : 4294967295 <= um -> ds_ext w -> ds_bpp bpp -> bytes_per_row_ok um w bpp = true.
Proof. unf_ds. unfold ds_bpp, bytes_per_row_ok. intros. sites; rng. Qed.
Lemma image_new_total um w h bpp : 4294967295 <= um -> ds_ext w -> ds_ext h -> ds_bpp bpp -> image_new_ok um w h bpp = true.
Proof.
  intros Hu Hw Hh Hb. unfold image_new_ok. rewrite (bytes_per_row_total um w bpp Hu Hw Hb). cbn [andb].
  revert Hw Hh Hb. unf_ds. unfold ds_bpp, bytes_per_row. intros.
  assert (0 <= (w * bpp + 7) / 8 <= 4096) by lia.
  pose proof (mul_bound_nn ((w * bpp + 7) / 8) h 4096 1024). rng.
Qed.
Lemma data_width_bound w bpp : ds_ext w -> ds_bpp bpp -> w <= data_width w bpp <= w + 7.
Proof.
  unf_ds. unfold ds_bpp, data_width, bytes_per_row. intros ? [?|[?|[?|[?|[?|[?|?]]]]]]; subst bpp;
  match goal with |- context [?a <? ?b] => destruct (a <? b) eqn:E end; zb; try lia;
  match goal with |- context [(?n / 8) mod _] => assert (0 <= n / 8 <= 4096) by lia end;
  rewrite Z.mod_small by lia;
  try change (8 / 1) with 8; try change (8 / 2) with 4; try change (8 / 4) with 2; lia.
Qed.
Lemma data_width_total um w bpp : 4294967295 <= um -> ds_ext w -> ds_bpp bpp -> data_width_ok um w bpp = true.
Proof.
  intros Hu Hw Hb. pose proof (data_width_bound w bpp Hw Hb) as Hd. unfold data_width_ok. unfold data_width in Hd.
  rewrite (bytes_per_row_total um w bpp Hu Hw Hb). revert Hw Hb Hd. unf_ds. unfold ds_bpp. intros.
  destruct (bpp <? 8) eqn:E; zb; [ | reflexivity ]. cbn [andb]. sites; rng.
Qed.
Lemma image_draw_total um w bpp : 4294967295 <= um -> ds_ext w -> ds_bpp bpp -> image_draw_ok um w bpp = true.
Proof.
  intros Hu Hw Hb. unfold image_draw_ok. rewrite (data_width_total um w bpp Hu Hw Hb).
  pose proof (data_width_bound w bpp Hw Hb). revert Hw. unf_ds. intros. cbn [andb]. rng.
Qed.
Lemma image_draw_sub_total um w h bpp x y aw ah : 4294967295 <= um -> ds_ext w -> ds_ext h -> ds_bpp bpp ->
  ds_coord x -> ds_coord y -> ds_ext aw -> ds_ext ah -> image_draw_sub_ok um w h bpp x y aw ah = true.
Proof.
  intros Hu Hw Hh Hb Hx Hy Haw Hah. unfold image_draw_sub_ok. rewrite (data_width_total um w bpp Hu Hw Hb).
  pose proof (data_width_bound w bpp Hw Hb). revert Hw Hh Hx Hy Haw Hah. unf_ds. intros.
  pose proof (mul_bound y (data_width w bpp) 1024 1031).
  sites; zb; try rng; nia.
Qed.
Lemma image_pixel_total um w h bpp x y : 4294967295 <= um -> ds_ext w -> ds_ext h -> ds_bpp bpp ->
  image_pixel_ok um w h bpp x y = true.
Proof.
  intros Hu Hw Hh Hb. unfold image_pixel_ok, wrap_i32, i32_max. rewrite (data_width_total um w bpp Hu Hw Hb).
  pose proof (data_width_bound w bpp Hw Hb). revert Hw Hh. unf_ds. intros.
  destruct (w <=? 2147483647) eqn:E1; destruct (h <=? 2147483647) eqn:E2; zb; try lia.
  sites; zb; try rng; nia.
Qed.

(* ContiguousPixels: every step is safe and the iterator stops after exactly w * h + 1 calls of next *)
Definition cpix_inv (s : cpix) : Prop :=
  0 <= cp_rx s <= 4294967295 /\ 0 <= cp_ry s <= 4294967295 /\ 0 <= cp_w s <= 4294967295 /\ (cp_w s = 0 -> cp_ry s = 0).
Lemma cpix_new_inv w h : 0 <= w <= 4294967295 -> 0 <= h <= 4294967295 -> cpix_inv (cpix_new w h).
Proof.
  intros. unfold cpix_inv, cpix_new. unf_sat. cbn [cp_rx cp_w cp_ry].
  destruct (0 <? h) eqn:E1; destruct (0 <? w) eqn:E2; zb; lia.
Qed.
Lemma cpix_next_total s : cpix_inv s ->
  cpix_next_ok s = true /\ match cpix_next s with Some s' => cpix_inv s' | None => True end.
Proof.
  unfold cpix_inv, cpix_next_ok, cpix_next. intros [? [? [? ?]]].
  destruct (0 <? cp_rx s) eqn:E1; [ | destruct (cp_ry s =? 0) eqn:E2 ]; zb; cbn [cp_rx cp_w cp_ry];
  (split; [ sites; rng | try exact I; try lia ]).
Qed.
Lemma cpix_run_total fuel : forall s, cpix_inv s -> cpix_run_ok s fuel = true.
Proof.
  induction fuel as [|k IH]; intros s Hs; cbn [cpix_run_ok]; [reflexivity|].
  destruct (cpix_next_total s Hs) as [-> Hn]. cbn [andb]. destruct (cpix_next s); [apply IH; assumption | reflexivity].
Qed.
Definition cpix_measure (s : cpix) : Z := cp_ry s * cp_w s + cp_rx s.
Lemma cpix_steps_exact fuel : forall s, cpix_inv s -> cpix_measure s < Z.of_nat fuel ->
  cpix_steps s fuel = Some (cpix_measure s + 1).
Proof.
  induction fuel as [|k IH]; intros s Hs Hm.
  - unfold cpix_inv, cpix_measure in *. nia.
  - cbn [cpix_steps]. pose proof (cpix_next_total s Hs) as [_ Hn]. revert Hn.
    unfold cpix_next. unfold cpix_inv in Hs. destruct Hs as [? [? [? ?]]]. unfold cpix_measure in *.
    destruct (0 <? cp_rx s) eqn:E1; [ | destruct (cp_ry s =? 0) eqn:E2 ]; zb; intros Hn.
    + rewrite IH; [ | assumption | cbn [cp_rx cp_w cp_ry]; nia ]. cbn [option_map cp_rx cp_w cp_ry]. f_equal. lia.
    + f_equal. nia.
    + rewrite IH; [ | assumption | cbn [cp_rx cp_w cp_ry]; nia ]. cbn [option_map cp_rx cp_w cp_ry]. f_equal. nia.
Qed.
Lemma cpix_steps_total w h : 0 < w <= 1024 -> 0 < h <= 1024 ->
  cpix_steps (cpix_new w h) (Z.to_nat (w * h + 2)) = Some (w * h + 1).
Proof.
  intros. rewrite cpix_steps_exact.
  - f_equal. unfold cpix_measure, cpix_new. unf_sat. cbn [cp_rx cp_w cp_ry].
    destruct (0 <? h) eqn:E1; destruct (0 <? w) eqn:E2; zb; try lia; nia.
  - apply cpix_new_inv; lia.
  - rewrite Z2Nat.id by nia. unfold cpix_measure, cpix_new. unf_sat. cbn [cp_rx cp_w cp_ry].
    destruct (0 <? h) eqn:E1; destruct (0 <? w) eqn:E2; zb; try lia; nia.
Qed.
Lemma cpix_new_total um skip : 4294967295 <= um -> 0 <= skip <= 4294967295 -> cpix_new_ok um skip = true.
Proof. intros. unfold cpix_new_ok. sites; zb; rng. Qed.

Lemma contains_tl_le r p : contains r p = true -> px (tl r) <= px p /\ py (tl r) <= py p.
Proof. unfold contains. destruct (_ && _) eqn:E; [ | discriminate ]. zb. intros _. lia. Qed.
Lemma intersection_ds_tl a b : ds_rect a -> ds_rect b ->
  ds_point (tl (intersection a b)) /\ (0 <= px (tl a) -> 0 <= py (tl a) -> 0 <= px (tl (intersection a b)) /\ 0 <= py (tl (intersection a b))).
Proof.
  intros Ha Hb. unfold intersection.
  destruct (bottom_right b) as [obr|] eqn:Eb; destruct (bottom_right a) as [sbr|] eqn:Ea.
  - destruct (_ && _) eqn:E.
    + pose proof (bottom_right_ds _ _ Ha Ea). pose proof (bottom_right_ds _ _ Hb Eb).
      revert Ha Hb. unf_ds. intros [[? ?] _] [[? ?] _]. unfold with_corners, component_max, component_min. cbn [tl px py].
      unfold overlaps in E. zb; lia.
    + unf_ds. cbn. lia.
  - destruct (contains b (tl a)); [split; [apply Ha | tauto] | unf_ds; cbn; lia].
  - destruct (contains a (tl b)) eqn:E; [ | unf_ds; cbn; lia].
    apply contains_tl_le in E. split; [apply Hb | lia].
  - unf_ds. cbn. lia.
Qed.
Lemma cropped_new_total um w h crop : 4294967295 <= um -> ds_ext w -> ds_ext h -> ds_rect crop ->
  cropped_new_ok um w h crop = true.
Proof.
  intros Hu Hw Hh Hc. unfold cropped_new_ok. cbv zeta.
  assert (Hr : ds_rect (R (P 0 0) (S w h))).
  { revert Hw Hh. unf_ds. cbn [tl sz px py sw sh]. lia. }
  rewrite (intersection_total _ _ Hr Hc).
  destruct (intersection_ds_tl _ _ Hr Hc) as [[? ?] Hnn]. cbn [tl px py] in Hnn. destruct Hnn as [? ?]; try lia.
  revert Hw H H0. unf_ds. intros.
  pose proof (mul_bound_nn (py (tl (intersection (R (P 0 0) (S w h)) crop))) w 1024 1024).
  cbn [andb]. sites; zb; rng.
Qed.
Lemma cropped_next_total s : 0 <= cs_x s <= 4294967294 -> 0 <= cs_y s -> cs_h s <= 4294967295 -> cropped_next_ok s = true.
Proof. intros. unfold cropped_next_ok. sites; zb; rng. Qed.

(* =========================================================================================== *)
(* documented panics and constant indices: exact preconditions                                   *)
(* =========================================================================================== *)
Lemma point_index_iff idx : point_index_ok idx = true <-> 0 <= idx < 2.
Proof. unfold point_index_ok, index_ok. rewrite andb_true_iff, Z.leb_le, Z.ltb_lt. tauto. Qed.
Lemma from_array2_total : from_array2_ok = true.
Proof. reflexivity. Qed.
Lemma tri_from_slice_iff len : tri_from_slice_ok len = true <-> len = 3.
Proof. unfold tri_from_slice_ok. apply Z.eqb_eq. Qed.
Lemma sorted_clockwise_total p1 p2 p3 : ds_point p1 -> ds_point p2 -> ds_point p3 -> sorted_clockwise_ok p1 p2 p3 = true.
Proof. intros. unfold sorted_clockwise_ok. rewrite area_doubled_total by assumption. reflexivity. Qed.
(* the inner corner of the join is bounded by hypothesis (OPEN: derive it; the proved join point bound is 25921801) *)
Lemma is_collapsed_step_total um i opposite inner : 4294967295 <= um -> 0 <= i < 3 -> edge_line opposite ->
  pbound 131072 inner -> is_collapsed_step_ok um i opposite inner = true.
Proof.
  intros Hu Hi He [? ?]. pose proof (edge_lbound _ He) as Hl. unfold is_collapsed_step_ok.
  rewrite (from_line_total _ He). unfold le_point_distance_ok.
  assert (D : dot_product_ok inner (le_normal opposite) = true).
  { apply (dot_product_total 131072 3600); try lia; [unfold pbound; lia | apply le_normal_bound; assumption]. }
  rewrite D.
  pose proof (le_distance_bound _ Hl). pose proof (le_normal_bound _ Hl) as [? ?].
  unfold dot_product.
  pose proof (mul_bound (px inner) (px (le_normal opposite)) 131072 3600).
  pose proof (mul_bound (py inner) (py (le_normal opposite)) 131072 3600).
  unfold index_ok. assert (Hc : i = 0 \/ i = 1 \/ i = 2) by lia.
  destruct Hc as [Hc|[Hc|Hc]]; subst i; cbn [andb]; sites; rng.
Qed.
Lemma image_new_const_iff um w h bpp len : 4294967295 <= um -> ds_ext w -> ds_ext h -> ds_bpp bpp ->
  (image_new_const_ok um w h bpp len = true <-> len = bytes_per_row w bpp * h).
Proof.
  intros. unfold image_new_const_ok. rewrite image_new_total by assumption. cbn [andb]. apply Z.eqb_eq.
Qed.
Lemma with_angle_total is_180 c s : - 1025 <= c <= 1025 -> - 1025 <= s <= 1025 -> with_angle_ok is_180 c s = true.
Proof. intros. unfold with_angle_ok, rotate_90_ok, normal_vector_scale. cbn [py]. destruct is_180; rng. Qed.

(* =========================================================================================== *)
(* The tie: every function of the regenerated site table is modelled against its current skeleton, *)
(* literal-only, or explicitly unmodelled (reflection over Gen/ArithSites.v)                       *)
(* =========================================================================================== *)
From EG Require Gen.ArithSites.
Lemma sites_covered_all : forallb site_covered Gen.ArithSites.arith_sites = true.
Proof. vm_compute. reflexivity. Qed.
Lemma sites_covered : forall row, In row Gen.ArithSites.arith_sites -> site_covered row = true.
Proof. apply forallb_forall. exact sites_covered_all. Qed.
Lemma records_all_live : records_live Gen.ArithSites.arith_sites = true.
Proof. vm_compute. reflexivity. Qed.
Lemma no_std_scan : Gen.ArithSites.no_std_scan_passed = true.
Proof. reflexivity. Qed.
