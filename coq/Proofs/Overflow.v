(* C08 - proofs: every modelled panic site is safe on display-scale inputs. *)
Set Default Timeout 60.
From EG Require Import Base.Prelude Model.Geometry Model.Line Model.Style Model.Overflow.
From Coq Require Import Lia ZArith Bool.
Open Scope Z_scope.

(* ---- range introduction ------------------------------------------------------------------- *)
Lemma i32_intro x : -2147483648 <= x <= 2147483647 -> i32 x = true.
Proof. intros. unfold i32, in_i32, i32_min, i32_max. apply andb_true_intro; split; apply Z.leb_le; lia. Qed.
Lemma u32_intro x : 0 <= x <= 4294967295 -> u32 x = true.
Proof. intros. unfold u32, in_u32, u32_max. apply andb_true_intro; split; apply Z.leb_le; lia. Qed.
Lemma i64_intro x : -9223372036854775808 <= x <= 9223372036854775807 -> i64 x = true.
Proof. intros. unfold i64, i64_min, i64_max. apply andb_true_intro; split; apply Z.leb_le; lia. Qed.
Lemma u64_intro x : 0 <= x <= 18446744073709551615 -> u64 x = true.
Proof. intros. unfold u64, u64_max. apply andb_true_intro; split; apply Z.leb_le; lia. Qed.
Lemma usz_intro um x : 4294967295 <= um -> 0 <= x <= 4294967295 -> usz um x = true.
Proof. intros. unfold usz. apply andb_true_intro; split; apply Z.leb_le; lia. Qed.
Lemma nz_intro x : x <> 0 -> nz x = true.
Proof. intros. unfold nz. apply negb_true_iff, Z.eqb_neq; assumption. Qed.

(* |a| <= A, |b| <= B  ->  |a * b| <= A * B : the only non-linear fact needed *)
Lemma mul_bound a b A B : - A <= a <= A -> - B <= b <= B -> - (A * B) <= a * b <= A * B.
Proof. intros. nia. Qed.
Lemma mul_bound_nn a b A B : 0 <= a <= A -> 0 <= b <= B -> 0 <= a * b <= A * B.
Proof. intros. nia. Qed.

(* boolean hypotheses -> integer facts *)
Ltac zb :=
  repeat match goal with
  | H : (_ && _) = true |- _ => apply andb_prop in H; destruct H
  | H : (_ || _) = false |- _ => apply orb_false_elim in H; destruct H
  | H : negb _ = true |- _ => apply negb_true_iff in H
  | H : negb _ = false |- _ => apply negb_false_iff in H
  | H : (_ <=? _) = true |- _ => apply Z.leb_le in H
  | H : (_ <=? _) = false |- _ => apply Z.leb_gt in H
  | H : (_ <? _) = true |- _ => apply Z.ltb_lt in H
  | H : (_ <? _) = false |- _ => apply Z.ltb_ge in H
  | H : (_ =? _) = true |- _ => apply Z.eqb_eq in H
  | H : (_ =? _) = false |- _ => apply Z.eqb_neq in H
  end.

Ltac unf_ds :=
  unfold ds_rect, ds_line, ds_point, ds_size, ds_coord, ds_ext, ds_width, ds_offset,
         edge_line, edge_point, edge_max, ds_max, ds_wmax in *.
Ltac unf_sat :=
  unfold sat_add_u32, sat_sub_u32, sat_add_i32, sat_u32_to_i32, sat_i32_to_u32, u32_max, i32_max, i32_min in *.

(* one range goal *)
Ltac rng :=
  first [ apply i32_intro | apply u32_intro | apply i64_intro | apply u64_intro
        | apply usz_intro; [ assumption | ] | apply nz_intro | reflexivity
        | apply Z.leb_le | apply Z.ltb_lt ];
  try lia.
(* split a conjunction of sites, case-split the branches *)
Ltac sites :=
  repeat match goal with
  | |- (_ && _) = true => apply andb_true_intro; split
  | |- (if ?c then _ else _) = true => let E := fresh "E" in destruct c eqn:E
  | |- true = true => reflexivity
  end.

(* =========================================================================================== *)
(* Point / Size                                                                                  *)
(* =========================================================================================== *)
Lemma point_add_total a b : ds_point a -> ds_point b -> point_add_ok a b = true.
Proof. unf_ds. unfold point_add_ok. intros. sites; rng. Qed.
Lemma point_sub_total a b : ds_point a -> ds_point b -> point_sub_ok a b = true.
Proof. unf_ds. unfold point_sub_ok. intros. sites; rng. Qed.
Lemma point_add_size_total a s : ds_point a -> ds_size s -> point_add_size_ok a s = true.
Proof. unf_ds. unfold point_add_size_ok, size_as_i32_ok, i32_max. intros. sites; try rng; apply Z.leb_le; lia. Qed.
Lemma point_sub_size_total a s : ds_point a -> ds_size s -> point_sub_size_ok a s = true.
Proof. unf_ds. unfold point_sub_size_ok, size_as_i32_ok, i32_max. intros. sites; try rng; apply Z.leb_le; lia. Qed.
Lemma point_neg_total a : ds_point a -> point_neg_ok a = true.
Proof. unf_ds. unfold point_neg_ok. intros. sites; rng. Qed.
Lemma point_abs_total a : ds_point a -> point_abs_ok a = true.
Proof. unf_ds. unfold point_abs_ok. intros. sites; rng. Qed.
Lemma point_mul_total a k : ds_point a -> ds_coord k -> point_mul_ok a k = true.
Proof.
  unf_ds. unfold point_mul_ok. intros [? ?] ?.
  pose proof (mul_bound (px a) k 1024 1024). pose proof (mul_bound (py a) k 1024 1024). sites; rng.
Qed.
Lemma point_component_mul_total a b : ds_point a -> ds_point b -> point_component_mul_ok a b = true.
Proof.
  unf_ds. unfold point_component_mul_ok. intros [? ?] [? ?].
  pose proof (mul_bound (px a) (px b) 1024 1024). pose proof (mul_bound (py a) (py b) 1024 1024). sites; rng.
Qed.
Lemma quot_bound a k B : k <> 0 -> - B <= a <= B -> - B <= Z.quot a k <= B.
Proof.
  intros Hk H.
  assert (Z.abs (Z.quot a k) <= Z.abs a).
  { rewrite <- Z.quot_abs by assumption. apply Z.quot_le_upper_bound; [lia | nia]. }
  lia.
Qed.
Ltac Zify.zify_post_hook ::= Z.to_euclidean_division_equations.
Lemma point_div_total a k : ds_point a -> k <> 0 -> point_div_ok a k = true.
Proof.
  unf_ds. unfold point_div_ok. intros [? ?] ?.
  pose proof (quot_bound (px a) k 1024). pose proof (quot_bound (py a) k 1024). sites; rng.
Qed.
Lemma point_component_div_total a b : ds_point a -> px b <> 0 -> py b <> 0 -> point_component_div_ok a b = true.
Proof.
  unf_ds. unfold point_component_div_ok. intros [? ?] ? ?.
  pose proof (quot_bound (px a) (px b) 1024). pose proof (quot_bound (py a) (py b) 1024). sites; rng.
Qed.

Lemma size_add_total a b : ds_size a -> ds_size b -> size_add_ok a b = true.
Proof. unf_ds. unfold size_add_ok. intros. sites; rng. Qed.
Lemma size_sub_total a b : ds_size a -> ds_size b -> sw b <= sw a -> sh b <= sh a -> size_sub_ok a b = true.
Proof. unf_ds. unfold size_sub_ok. intros. sites; rng. Qed.
Lemma size_mul_total a k : ds_size a -> ds_ext k -> size_mul_ok a k = true.
Proof.
  unf_ds. unfold size_mul_ok. intros [? ?] ?.
  pose proof (mul_bound_nn (sw a) k 1024 1024). pose proof (mul_bound_nn (sh a) k 1024 1024). sites; rng.
Qed.
Lemma size_component_mul_total a b : ds_size a -> ds_size b -> size_component_mul_ok a b = true.
Proof.
  unf_ds. unfold size_component_mul_ok. intros [? ?] [? ?].
  pose proof (mul_bound_nn (sw a) (sw b) 1024 1024). pose proof (mul_bound_nn (sh a) (sh b) 1024 1024). sites; rng.
Qed.
Lemma size_div_total a k : k <> 0 -> size_div_ok a k = true.
Proof. intros. unfold size_div_ok. rng. Qed.
Lemma from_bounding_box_total c1 c2 : ds_point c1 -> ds_point c2 -> from_bounding_box_ok c1 c2 = true.
Proof. unf_ds. unfold from_bounding_box_ok. intros. sites; rng. Qed.

(* =========================================================================================== *)
(* Rectangle                                                                                     *)
(* =========================================================================================== *)
Ltac unf_rect :=
  unfold center_ok, bottom_right_ok, with_center_ok, with_corners_ok, contains_ok, from_bounding_box_ok,
         point_add_size_ok, point_sub_size_ok, point_sub_ok, point_add_ok, size_as_i32_ok,
         center_offset, size_sat_sub, size_sat_add, padd_size, psub_size, psub, padd in *;
  cbn [px py sw sh tl sz] in *.

Lemma center_total r : ds_rect r -> center_ok r = true.
Proof.
  unf_ds. intros [[? ?] [? ?]]. unf_rect. unf_sat.
  sites; try rng; apply Z.leb_le; lia.
Qed.
Lemma bottom_right_total r : ds_rect r -> bottom_right_ok r = true.
Proof.
  unf_ds. intros [[? ?] [? ?]]. unf_rect. unf_sat.
  sites; try rng; apply Z.leb_le; lia.
Qed.
Lemma with_center_total c s : ds_point c -> ds_size s -> with_center_ok c s = true.
Proof.
  unf_ds. intros [? ?] [? ?]. unf_rect. unf_sat.
  sites; try rng; apply Z.leb_le; lia.
Qed.
Lemma with_corners_total c1 c2 : ds_point c1 -> ds_point c2 -> with_corners_ok c1 c2 = true.
Proof. exact (from_bounding_box_total c1 c2). Qed.
Lemma contains_total r p : ds_rect r -> contains_ok r p = true.
Proof. intros. unfold contains_ok. destruct (_ && _); [apply bottom_right_total; assumption | reflexivity]. Qed.

Lemma bottom_right_ds r br : ds_rect r -> bottom_right r = Some br ->
  -1024 <= px br <= 2047 /\ -1024 <= py br <= 2047 /\ px (tl r) <= px br /\ py (tl r) <= py br.
Proof.
  unf_ds. intros [[? ?] [? ?]]. unfold bottom_right.
  destruct (_ && _) eqn:E; [ | discriminate ]. intros [= <-]. zb. cbn [px py]. lia.
Qed.

Lemma intersection_total a b : ds_rect a -> ds_rect b -> intersection_ok a b = true.
Proof.
  intros Ha Hb. unfold intersection_ok.
  rewrite (bottom_right_total b Hb), (bottom_right_total a Ha). cbn [andb].
  destruct (bottom_right b) as [obr|] eqn:Eb; destruct (bottom_right a) as [sbr|] eqn:Ea;
    try reflexivity; try (apply contains_total; assumption).
  destruct (_ && _); [ | reflexivity ].
  pose proof (bottom_right_ds _ _ Ha Ea). pose proof (bottom_right_ds _ _ Hb Eb).
  revert Ha Hb. unf_ds. intros [[? ?] [? ?]] [[? ?] [? ?]].
  unfold with_corners_ok, from_bounding_box_ok, component_max, component_min. cbn [px py].
  sites; rng.
Qed.

Lemma anchor_point_total r a : ds_rect r -> anchor_point_ok r a = true.
Proof.
  unf_ds. intros [[? ?] [? ?]].
  unfold anchor_point_ok, anchor_x_ok, anchor_y_ok, anchor_x_of, anchor_y_of, anchor_delta. unf_sat.
  destruct a as [[] []]; cbn [ax ay]; sites; rng.
Qed.
Lemma anchor_point_ds r a : ds_rect r ->
  -1024 <= px (anchor_point r a) <= 2047 /\ -1024 <= py (anchor_point r a) <= 2047.
Proof.
  unf_ds. intros [[? ?] [? ?]].
  unfold anchor_point, anchor_x_of, anchor_y_of, anchor_delta. unf_sat.
  destruct a as [[] []]; cbn [ax ay px py]; lia.
Qed.
Lemma envelope_total a b : ds_rect a -> ds_rect b -> envelope_ok a b = true.
Proof.
  intros Ha Hb. unfold envelope_ok.
  rewrite (anchor_point_total a _ Ha), (anchor_point_total b _ Hb). cbn [andb].
  pose proof (anchor_point_ds a (A AXRight AYBottom) Ha). pose proof (anchor_point_ds b (A AXRight AYBottom) Hb).
  revert Ha Hb. unf_ds. intros [[? ?] [? ?]] [[? ?] [? ?]].
  unfold with_corners_ok, from_bounding_box_ok, component_max, component_min. cbn [px py].
  sites; rng.
Qed.
Lemma resized_total r s a : ds_rect r -> ds_size s -> resized_ok r s a = true.
Proof.
  unf_ds. intros [[? ?] [? ?]] [? ?].
  unfold resized_ok, resized_width_ok, resized_height_ok, resized_width, resized_height, resize_delta. unf_sat.
  destruct a as [[] []]; cbn [ax ay px py tl sz sw sh]; sites; rng.
Qed.
Lemma offset_amount_total n : ds_offset n -> offset_amount_ok n = true.
Proof. unf_ds. intros. unfold offset_amount_ok. sites; rng. Qed.
Lemma offset_total r n : ds_rect r -> ds_offset n -> offset_ok r n = true.
Proof.
  intros Hr Hn. unfold offset_ok. rewrite (offset_amount_total n Hn), (center_total r Hr). cbn [andb].
  revert Hr Hn. unf_ds. intros [[? ?] [? ?]] ?.
  unfold offset_size, center. unf_rect. unf_sat.
  destruct (0 <=? n) eqn:E; zb; cbn [sw sh]; sites; try rng; apply Z.leb_le; lia.
Qed.

(* =========================================================================================== *)
(* PointExt, on operands bounded by an arbitrary B with 2 * B * B <= i32::MAX                    *)
(* =========================================================================================== *)
Definition pbound (B : Z) (a : point) : Prop := - B <= px a <= B /\ - B <= py a <= B.
Lemma ds_pbound a : ds_point a -> pbound 1024 a.
Proof. unf_ds. unfold pbound. tauto. Qed.
Lemma rotate_90_total B a : 0 <= B <= 2147483647 -> pbound B a -> rotate_90_ok a = true.
Proof. unfold pbound, rotate_90_ok. intros. rng. Qed.
Lemma dot_product_total A B a b :
  0 <= A -> 0 <= B -> 2 * (A * B) <= 2147483647 -> pbound A a -> pbound B b -> dot_product_ok a b = true.
Proof.
  unfold pbound, dot_product_ok, dot_product. intros ? ? ? [? ?] [? ?].
  pose proof (mul_bound (px a) (px b) A B). pose proof (mul_bound (py a) (py b) A B). sites; rng.
Qed.
Lemma determinant_total A B a b :
  0 <= A -> 0 <= B -> 2 * (A * B) <= 2147483647 -> pbound A a -> pbound B b -> determinant_ok a b = true.
Proof.
  unfold pbound, determinant_ok, determinant. intros ? ? ? [? ?] [? ?].
  pose proof (mul_bound (px a) (py b) A B). pose proof (mul_bound (py a) (px b) A B). sites; rng.
Qed.
Lemma length_squared_total A a : 0 <= A -> 2 * (A * A) <= 2147483647 -> pbound A a -> length_squared_ok a = true.
Proof.
  unfold pbound, length_squared_ok, length_squared. intros ? ? [? ?].
  pose proof (mul_bound (px a) (px a) A A). pose proof (mul_bound (py a) (py a) A A). sites; rng.
Qed.
Lemma length_squared_bound A a : 0 <= A -> pbound A a -> 0 <= length_squared a <= 2 * (A * A).
Proof.
  unfold pbound, length_squared. intros ? [? ?].
  pose proof (mul_bound (px a) (px a) A A). pose proof (mul_bound (py a) (py a) A A). nia.
Qed.

(* =========================================================================================== *)
(* PrimitiveStyle                                                                                *)
(* =========================================================================================== *)
Lemma stroke_area_offset_ds s : ds_width (stroke_width s) -> 0 <= stroke_area_offset s <= 128.
Proof.
  unf_ds. unfold stroke_area_offset, outside_stroke_width. unf_sat. intros.
  destruct (stroke_alignment s); lia.
Qed.
Lemma fill_area_offset_ds s : ds_width (stroke_width s) -> -128 <= fill_area_offset s <= 0.
Proof.
  unf_ds. unfold fill_area_offset, inside_stroke_width. unf_sat. intros.
  destruct (stroke_kind s); destruct (stroke_alignment s); lia.
Qed.
Lemma rect_stroke_area_total s r : ds_width (stroke_width s) -> ds_rect r -> rect_stroke_area_ok s r = true.
Proof.
  intros Hs Hr. unfold rect_stroke_area_ok. apply offset_total; [assumption | ].
  pose proof (stroke_area_offset_ds s Hs). unf_ds. lia.
Qed.
Lemma rect_fill_area_total s r : ds_width (stroke_width s) -> ds_rect r -> rect_fill_area_ok s r = true.
Proof.
  intros Hs Hr. unfold rect_fill_area_ok. apply andb_true_intro; split.
  - pose proof (fill_area_offset_ds s Hs) as H. unfold fill_area_offset_ok. unfold fill_area_offset in H.
    destruct (stroke_kind s); [ rng | reflexivity ].
  - apply offset_total; [assumption | ]. pose proof (fill_area_offset_ds s Hs). unf_ds. lia.
Qed.

(* =========================================================================================== *)
(* Circle / Ellipse / EllipseQuadrant / CornerRadii                                              *)
(* =========================================================================================== *)
Definition sbound (B : Z) (s : size) : Prop := 0 <= sw s <= B /\ 0 <= sh s <= B.
Lemma ds_sbound s : ds_size s -> sbound 1024 s.
Proof. unf_ds. unfold sbound. tauto. Qed.

Lemma diameter_to_threshold_total d : 0 <= d <= 2048 -> diameter_to_threshold_ok d = true.
Proof.
  intros. unfold diameter_to_threshold_ok. pose proof (mul_bound_nn d d 2048 2048).
  sites; try rng; zb; nia.
Qed.
Lemma circle_center_2x_total t d : ds_point t -> ds_ext d -> circle_center_2x_ok t d = true.
Proof.
  unf_ds. intros [? ?] ?. unfold circle_center_2x_ok, point_mul_ok, point_add_size_ok, size_as_i32_ok, pmul. unf_sat.
  cbn [px py sw sh]. sites; rng.
Qed.
Lemma circle_center_2x_bound t d : ds_point t -> ds_ext d -> pbound 3071 (circle_center_2x t d).
Proof.
  unf_ds. intros [? ?] ?. unfold pbound, circle_center_2x, padd_size, pmul. unf_sat. cbn [px py sw sh]. lia.
Qed.
Lemma circle_contains_total t d p : ds_point t -> ds_ext d -> ds_point p -> circle_contains_ok t d p = true.
Proof.
  intros Ht Hd Hp. unfold circle_contains_ok.
  rewrite (circle_center_2x_total t d Ht Hd). pose proof (circle_center_2x_bound t d Ht Hd) as [? ?].
  assert (Hd' : 0 <= d <= 2048) by (unf_ds; lia). rewrite (diameter_to_threshold_total d Hd').
  assert (pbound 5119 (psub (circle_center_2x t d) (pmul p 2))).
  { revert Hp. unf_ds. intros [? ?]. unfold pbound, psub, pmul. cbn [px py]. lia. }
  rewrite (length_squared_total 5119) by (assumption || lia).
  revert Hp. unf_ds. intros [? ?]. unfold point_mul_ok, point_sub_ok, pmul. cbn [px py andb].
  sites; rng.
Qed.
Lemma circle_offset_total t d n : ds_point t -> ds_ext d -> ds_offset n -> circle_offset_ok t d n = true.
Proof.
  intros Ht Hd Hn. unfold circle_offset_ok.
  assert (Hr : ds_rect (R t (S d d))) by (unfold ds_rect, ds_size; cbn [tl sz sw sh]; tauto).
  rewrite (offset_amount_total n Hn), (center_total _ Hr). cbn [andb].
  revert Ht Hd Hn. unf_ds. intros [? ?] ? ?.
  unfold circle_offset_diameter, center. unf_rect. unf_sat.
  destruct (0 <=? n) eqn:E; zb; cbn [sw sh]; sites; rng.
Qed.

Lemma ellipse_center_2x_total t s : pbound 2048 t -> sbound 2048 s -> ellipse_center_2x_ok t s = true.
Proof.
  unfold pbound, sbound. intros [? ?] [? ?].
  unfold ellipse_center_2x_ok, point_mul_ok, point_add_size_ok, size_as_i32_ok, size_sat_sub, pmul. unf_sat.
  cbn [px py sw sh]. sites; rng.
Qed.
Lemma ellipse_center_2x_bound t s : pbound 2048 t -> sbound 2048 s -> pbound 6143 (ellipse_center_2x t s).
Proof.
  unfold pbound, sbound. intros [? ?] [? ?].
  unfold ellipse_center_2x, padd_size, size_sat_sub, pmul. unf_sat. cbn [px py sw sh]. lia.
Qed.
Lemma ellipse_contains_new_total s : sbound 2048 s -> ellipse_contains_new_ok s = true.
Proof.
  unfold sbound. intros [? ?]. unfold ellipse_contains_new_ok.
  pose proof (mul_bound_nn (sw s) (sw s) 2048 2048). pose proof (mul_bound_nn (sh s) (sh s) 2048 2048).
  pose proof (mul_bound_nn (sh s * sh s) (sw s * sw s) (2048 * 2048) (2048 * 2048)).
  sites; try rng. apply diameter_to_threshold_total; lia.
Qed.
Lemma ellipse_contains_point_total s q : sbound 2048 s -> pbound 8191 q -> ellipse_contains_point_ok s q = true.
Proof.
  unfold sbound, pbound. intros [? ?] [? ?]. unfold ellipse_contains_point_ok.
  pose proof (mul_bound_nn (sw s) (sw s) 2048 2048). pose proof (mul_bound_nn (sh s) (sh s) 2048 2048).
  pose proof (mul_bound (px q) (px q) 8191 8191). pose proof (mul_bound (py q) (py q) 8191 8191).
  assert (0 <= px q * px q) by nia. assert (0 <= py q * py q) by nia.
  pose proof (mul_bound_nn (sh s * sh s) (px q * px q) (2048 * 2048) (8191 * 8191)).
  pose proof (mul_bound_nn (sw s * sw s) (py q * py q) (2048 * 2048) (8191 * 8191)).
  cbv zeta. sites; rng.
Qed.
Lemma ellipse_contains_gen t s p : pbound 2048 t -> sbound 2048 s -> ds_point p -> ellipse_contains_ok t s p = true.
Proof.
  intros Ht Hs Hp. unfold ellipse_contains_ok.
  rewrite (ellipse_contains_new_total s Hs), (ellipse_center_2x_total t s Ht Hs).
  pose proof (ellipse_center_2x_bound t s Ht Hs) as [? ?].
  assert (pbound 8191 (psub (pmul p 2) (ellipse_center_2x t s))).
  { revert Hp. unf_ds. intros [? ?]. unfold pbound, psub, pmul. cbn [px py]. lia. }
  rewrite (ellipse_contains_point_total s _ Hs) by assumption.
  revert Hp. unf_ds. intros [? ?]. unfold point_mul_ok, point_sub_ok, pmul. cbn [px py andb].
  sites; rng.
Qed.
Lemma ellipse_contains_total t s p : ds_point t -> ds_size s -> ds_point p -> ellipse_contains_ok t s p = true.
Proof.
  intros Ht Hs Hp. apply ellipse_contains_gen; [ | | assumption].
  - revert Ht. unf_ds. unfold pbound. lia.
  - revert Hs. unf_ds. unfold sbound. lia.
Qed.
Lemma ellipse_offset_total t s n : ds_point t -> ds_size s -> ds_offset n -> ellipse_offset_ok t s n = true.
Proof.
  intros Ht Hs Hn. unfold ellipse_offset_ok.
  assert (Hr : ds_rect (R t s)) by (unfold ds_rect; cbn [tl sz]; tauto).
  rewrite (offset_amount_total n Hn), (center_total _ Hr). cbn [andb].
  revert Ht Hs Hn. unf_ds. intros [? ?] [? ?] ?.
  unfold ellipse_offset_size, center. unf_rect. unf_sat.
  destruct (0 <=? n) eqn:E; zb; cbn [sw sh]; sites; rng.
Qed.

Lemma quadrant_top_left_bound t radius q : ds_point t -> ds_size radius -> pbound 2048 (quadrant_ellipse_top_left t radius q).
Proof.
  unf_ds. intros [? ?] [? ?]. unfold pbound, quadrant_ellipse_top_left, psub_size.
  destruct q; cbn [px py sw sh]; lia.
Qed.
Lemma smul2_bound radius : ds_size radius -> sbound 2048 (smul radius 2).
Proof. unf_ds. intros [? ?]. unfold sbound, smul. cbn [sw sh]. lia. Qed.
Lemma ellipse_quadrant_new_total t radius q : ds_point t -> ds_size radius -> ellipse_quadrant_new_ok t radius q = true.
Proof.
  intros Ht Hr. unfold ellipse_quadrant_new_ok.
  rewrite (ellipse_center_2x_total _ _ (quadrant_top_left_bound t radius q Ht Hr) (smul2_bound radius Hr)).
  rewrite (ellipse_contains_new_total _ (smul2_bound radius Hr)).
  assert (size_mul_ok radius 2 = true) as ->.
  { revert Hr. unf_ds. intros [? ?]. unfold size_mul_ok. sites; rng. }
  rewrite !andb_true_r.
  revert Ht Hr. unf_ds. intros [? ?] [? ?].
  unfold point_sub_size_ok, size_as_i32_ok, i32_max. destruct q; cbn [px py sw sh]; sites; rng.
Qed.
Lemma ellipse_quadrant_contains_total t radius q p :
  ds_point t -> ds_size radius -> ds_point p -> ellipse_quadrant_contains_ok t radius q p = true.
Proof.
  intros Ht Hr Hp. unfold ellipse_quadrant_contains_ok. cbv zeta.
  pose proof (ellipse_center_2x_bound _ _ (quadrant_top_left_bound t radius q Ht Hr) (smul2_bound radius Hr)) as [? ?].
  set (c := ellipse_center_2x _ _) in *.
  assert (pbound 8191 (psub (pmul p 2) c)).
  { revert Hp. unf_ds. intros [? ?]. unfold pbound, psub, pmul. cbn [px py]. lia. }
  rewrite (ellipse_contains_point_total _ _ (smul2_bound radius Hr)) by assumption.
  revert Hp. unf_ds. intros [? ?]. unfold point_mul_ok, point_sub_ok, pmul. cbn [px py andb].
  sites; rng.
Qed.

(* CornerRadii::confine *)
Definition ds_radii (c : radii) : Prop := ds_size (r_tl c) /\ ds_size (r_tr c) /\ ds_size (r_br c) /\ ds_size (r_bl c).
Definition confine_inv (acc : Z * Z) : Prop := 0 <= fst acc <= 1024 /\ 0 <= snd acc <= 2048.
Definition confine_elem (rs : Z * Z) : Prop := 0 <= fst rs <= 2048 /\ 0 <= snd rs <= 1024.
Lemma confine_step_inv acc rs : confine_inv acc -> confine_elem rs ->
  confine_step_ok acc rs = true /\ confine_inv (confine_step acc rs).
Proof.
  destruct acc as [size cs], rs as [radii side]. unfold confine_inv, confine_elem, confine_step_ok, confine_step.
  cbn [fst snd]. intros [? ?] [? ?].
  pose proof (mul_bound_nn radii size 2048 1024). pose proof (mul_bound_nn cs side 2048 1024).
  split.
  - sites; rng.
  - destruct (_ && _); cbn [fst snd]; lia.
Qed.
Lemma confine_fold l : forall ok acc, confine_inv acc -> Forall confine_elem l ->
  let r := fold_left (fun st rs => (fst st && confine_step_ok (snd st) rs, confine_step (snd st) rs)) l (ok, acc) in
  fst r = ok /\ snd r = fold_left confine_step l acc /\ confine_inv (snd r).
Proof.
  induction l as [|rs l IH]; intros ok acc Hacc Hl; cbn [fold_left fst snd].
  - auto.
  - inversion Hl; subst. destruct (confine_step_inv acc rs Hacc H1) as [Hok Hinv].
    rewrite Hok, andb_true_r. apply IH; assumption.
Qed.
Lemma confine_total c bb : ds_radii c -> ds_size bb -> confine_ok c bb = true.
Proof.
  intros Hc Hb. unfold confine_ok, confine_choice.
  set (l := [_; _; _; _]).
  assert (Hl : Forall confine_elem l).
  { revert Hc Hb. unfold ds_radii. unf_ds. intros [[? ?] [[? ?] [[? ?] [? ?]]]] [? ?].
    subst l. repeat constructor; cbn [fst snd]; lia. }
  assert (H0 : confine_inv (0, 0)) by (unfold confine_inv; cbn; lia).
  destruct (confine_fold l true (0, 0) H0 Hl) as [Hf [Hs Hi]]. cbv zeta. rewrite Hf, andb_true_r.
  rewrite Hs in Hi. destruct (fold_left confine_step l (0, 0)) as [size cs]. unfold confine_inv in Hi. cbn [fst snd] in Hi.
  revert Hc Hb. unfold ds_radii. unf_ds. intros [[? ?] [[? ?] [[? ?] [? ?]]]] [? ?].
  unfold size_mul_ok, size_div_ok.
  pose proof (mul_bound_nn (sw (r_tl c)) size 1024 1024). pose proof (mul_bound_nn (sh (r_tl c)) size 1024 1024).
  pose proof (mul_bound_nn (sw (r_tr c)) size 1024 1024). pose proof (mul_bound_nn (sh (r_tr c)) size 1024 1024).
  pose proof (mul_bound_nn (sw (r_br c)) size 1024 1024). pose proof (mul_bound_nn (sh (r_br c)) size 1024 1024).
  pose proof (mul_bound_nn (sw (r_bl c)) size 1024 1024). pose proof (mul_bound_nn (sh (r_bl c)) size 1024 1024).
  sites; zb; rng.
Qed.
