(* C08 - proofs for Model/Overflow2.v: the rest of the rendering path is safe on display-scale inputs. *)
Set Default Timeout 60.
From Coq Require Import Lia ZArith Bool List.
From EG Require Import Base.Prelude Model.Geometry Model.Line Model.Style Model.Overflow Model.Overflow2 Proofs.Overflow.
Open Scope Z_scope.

(* ---- scanline probes ---- *)
Lemma scan_probe_total c2x q : pbound 8192 c2x -> pbound 4096 q -> scan_probe_ok c2x q = true.
Proof.
  unfold pbound. intros [? ?] [? ?]. unfold scan_probe_ok.
  assert (pbound 16384 (psub (pmul q 2) c2x)) by (unfold pbound, psub, pmul; cbn [px py]; lia).
  rewrite (length_squared_total 16384) by (assumption || lia).
  unfold point_mul_ok, point_sub_ok, pmul. cbn [px py andb]. sites; rng.
Qed.
Lemma scan_shorten_total cstart cend x : - 1048576 <= cstart <= 1048576 -> - 1048576 <= cend <= 1048576 ->
  - 1048576 <= x <= 1048576 -> scan_shorten_ok cstart cend x = true.
Proof. intros. unfold scan_shorten_ok. sites; rng. Qed.
Lemma ellipse_scan_row_total c2y y : - 10239 <= c2y <= 10239 -> - 4096 <= y <= 4096 -> ellipse_scan_row_ok c2y y = true.
Proof. intros. unfold ellipse_scan_row_ok. sites; rng. Qed.
Lemma ellipse_scan_probe_total s c2x x sy : sbound 2048 s -> - 10239 <= c2x <= 10239 -> - 3072 <= x <= 3072 ->
  - 16384 <= sy <= 16384 -> ellipse_scan_probe_ok s c2x x sy = true.
Proof.
  intros Hs ? ? ?. unfold ellipse_scan_probe_ok.
  rewrite (ellipse_contains_point_total s) by (assumption || (unfold pbound; cbn [px py]; lia)).
  cbn [andb]. sites; rng.
Qed.

(* ---- sector ---- *)
Lemma plane_sector_contains_total nl nr delta : pbound 1025 nl -> pbound 1025 nr -> pbound 16384 delta ->
  plane_sector_contains_ok nl nr delta = true.
Proof.
  intros. unfold plane_sector_contains_ok.
  rewrite !(dot_product_total 16384 1025) by (assumption || lia). reflexivity.
Qed.
Lemma sector_contains_total t d nl nr p : ds_point t -> ds_ext d -> pbound 1025 nl -> pbound 1025 nr -> ds_point p ->
  sector_contains_ok t d nl nr p = true.
Proof.
  intros Ht Hd Hl Hr Hp. unfold sector_contains_ok.
  rewrite (circle_contains_total t d p Ht Hd Hp), (circle_center_2x_total t d Ht Hd).
  pose proof (circle_center_2x_bound t d Ht Hd) as [? ?].
  assert (Hd' : pbound 16384 (psub (pmul p 2) (circle_center_2x t d))).
  { revert Hp. unf_ds. intros [? ?]. unfold pbound, psub, pmul. cbn [px py]. lia. }
  rewrite (plane_sector_contains_total nl nr _ Hl Hr Hd').
  revert Hp. unf_ds. intros [? ?]. unfold point_mul_ok, point_sub_ok, pmul. cbn [px py andb]. sites; rng.
Qed.
Lemma point_type_total nl nr delta it ot : pbound 1025 nl -> pbound 1025 nr -> pbound 16384 delta ->
  - 1048576 <= it <= 1048576 -> - 1048576 <= ot <= 1048576 -> point_type_ok nl nr delta it ot = true.
Proof.
  intros. unfold point_type_ok. rewrite !(dot_product_total 16384 1025) by (assumption || lia).
  cbn [andb]. sites; rng.
Qed.
Lemma sector_thresholds_total iw ow : 0 <= iw <= 128 -> 0 <= ow <= 128 -> sector_thresholds_ok iw ow = true.
Proof. intros. unfold sector_thresholds_ok. sites; rng. Qed.

(* ---- CornerRadii::confine never enlarges a radius ---- *)
Lemma confine_choice_lt c bb : let '(size, cs) := confine_choice c bb in cs = 0 \/ size < cs.
Proof.
  unfold confine_choice.
  assert (G : forall l acc, (snd acc = 0 \/ fst acc < snd acc) ->
              let '(size, cs) := fold_left confine_step l acc in cs = 0 \/ size < cs).
  { induction l as [|[ra si] l IH]; intros [size cs] H; cbn [fold_left].
    - exact H.
    - apply IH. unfold confine_step. destruct (_ && _) eqn:E; [ | exact H ]. zb; cbn [fst snd]; lia. }
  apply G. left. reflexivity.
Qed.
Lemma sdiv_smul_bound r size cs : ds_size r -> 0 <= size -> size < cs -> ds_size (sdiv (smul r size) cs).
Proof.
  unf_ds. intros [? ?] ? ?. unfold sdiv, smul. cbn [sw sh].
  assert (G : forall a, 0 <= a <= 1024 -> 0 <= a * size / cs <= 1024).
  { intros a Ha. split; [apply Z.div_pos; nia | ]. apply Z.div_le_upper_bound; nia. }
  split; apply G; assumption.
Qed.
Lemma confined_ds c bb : ds_radii c -> ds_size bb -> ds_radii (confined c bb).
Proof.
  intros Hc Hb. unfold confined. pose proof (confine_choice_lt c bb) as Hlt.
  pose proof (confine_total c bb Hc Hb) as _.
  (* the chosen side is one of the two extents of bb *)
  assert (Hs : 0 <= fst (confine_choice c bb)).
  { unfold confine_choice.
    assert (G : forall l acc, 0 <= fst acc -> Forall (fun rs => 0 <= snd rs) l -> 0 <= fst (fold_left confine_step l acc)).
    { induction l as [|[ra si] l IH]; intros [size cs] H F; cbn [fold_left]; [exact H|].
      inversion F; subst. apply IH; [ | assumption ]. unfold confine_step. destruct (_ && _); cbn [fst snd] in *; lia. }
    apply G; [cbn; lia|]. revert Hb. unf_ds. intros [? ?]. repeat constructor; cbn [snd]; lia. }
  destruct (confine_choice c bb) as [size cs]. cbn [fst] in Hs.
  destruct (0 <? cs) eqn:E; [ | exact Hc ]. zb.
  destruct Hlt as [?|Hlt]; [lia|]. destruct Hc as [? [? [? ?]]].
  unfold ds_radii. cbn [r_tl r_tr r_br r_bl]. repeat split; apply sdiv_smul_bound; assumption || lia.
Qed.

(* ---- RoundedRectangle ---- *)
Lemma quadrant_top_left_pbound r cc q : ds_rect r -> ds_radii cc -> pbound 2048 (quadrant_top_left r cc q).
Proof.
  unfold ds_radii. unf_ds. intros [[? ?] [? ?]] [[? ?] [[? ?] [[? ?] [? ?]]]].
  unfold pbound, quadrant_top_left, psub_size, padd_size. destruct q; cbn [px py sw sh]; lia.
Qed.
Lemma quadrant_radius_ds cc q : ds_radii cc -> ds_size (quadrant_radius cc q).
Proof. intros [? [? [? ?]]]. destruct q; assumption. Qed.
Lemma confined_quadrant_total r c q : ds_rect r -> ds_radii c -> confined_quadrant_ok r c q = true.
Proof.
  intros Hr Hc. unfold confined_quadrant_ok. cbv zeta.
  rewrite (confine_total c (sz r) Hc (proj2 Hr)). pose proof (confined_ds c (sz r) Hc (proj2 Hr)) as Hcc.
  rewrite (ellipse_quadrant_new_total _ _ q (quadrant_top_left_pbound r _ q Hr Hcc) (quadrant_radius_ds _ q Hcc)).
  rewrite andb_true_r. cbn [andb].
  revert Hr Hcc. unfold ds_radii. unf_ds. intros [[? ?] [? ?]] [[? ?] [[? ?] [[? ?] [? ?]]]].
  unfold point_add_size_ok, point_sub_size_ok, size_as_i32_ok, padd_size, i32_max.
  destruct q; cbn [px py sw sh]; sites; rng.
Qed.
Lemma rrect_contains_new_total r c : ds_rect r -> ds_radii c -> rrect_contains_new_ok r c = true.
Proof.
  intros Hr Hc. unfold rrect_contains_new_ok. cbv zeta. rewrite !confined_quadrant_total by assumption. cbn [andb].
  pose proof (confined_ds c (sz r) Hc (proj2 Hr)) as Hcc.
  revert Hr Hcc. unfold ds_radii. unf_ds. intros [[? ?] [? ?]] [[? ?] [[? ?] [[? ?] [? ?]]]].
  unfold rows. unf_sat. cbn [fst snd]. sites; rng.
Qed.
Lemma rrect_contains_total r c p : ds_rect r -> ds_radii c -> pbound 2048 p -> rrect_contains_ok r c p = true.
Proof.
  intros Hr Hc Hp. unfold rrect_contains_ok. cbv zeta. rewrite rrect_contains_new_total by assumption.
  pose proof (confined_ds c (sz r) Hc (proj2 Hr)) as Hcc.
  assert (Q : forall q, ellipse_quadrant_contains_ok (quadrant_top_left r (confined c (sz r)) q)
                          (quadrant_radius (confined c (sz r)) q) q p = true).
  { intros q. apply ellipse_quadrant_contains_total; try assumption;
      [apply quadrant_top_left_pbound; assumption | apply quadrant_radius_ds; assumption]. }
  cbn [andb]. destruct (rows r) as [r0 r1]. destruct (columns r) as [c0 c1].
  rewrite !Q. cbn [andb].
  repeat match goal with |- context [if ?b then _ else _] => destruct b end; reflexivity.
Qed.
Lemma rrect_offset_total r n : ds_rect r -> ds_offset n -> rrect_offset_ok r n = true.
Proof.
  intros Hr Hn. unfold rrect_offset_ok. rewrite (offset_total r n Hr Hn). revert Hn. unf_ds. intros. cbn [andb]. sites; rng.
Qed.
Lemma rrect_scan_end_total x : - 1048576 <= x <= 1048576 -> rrect_scan_end_ok x = true.
Proof. intros. unfold rrect_scan_end_ok. rng. Qed.

(* ---- polyline ---- *)
Lemma polyline_vertices_total vs t : Forall ds_point vs -> ds_point t -> polyline_vertices_ok vs t = true.
Proof.
  intros Hv Ht. induction Hv as [|v vs Hv _ IH]; cbn [polyline_vertices_ok]; [reflexivity|].
  unfold polyline_vertex_ok. rewrite (point_add_total v t Hv Ht), IH. reflexivity.
Qed.

(* ---- Scanline ---- *)
Lemma scanline_extend_total x : - 1048576 <= x <= 1048576 -> scanline_extend_ok x = true.
Proof. intros. unfold scanline_extend_ok. rng. Qed.
Lemma scanline_touches_total s e os oe : - 1048576 <= s <= 1048576 -> - 1048576 <= e <= 1048576 ->
  - 1048576 <= os <= 1048576 -> - 1048576 <= oe <= 1048576 -> scanline_touches_ok s e os oe = true.
Proof. intros. unfold scanline_touches_ok. sites; rng. Qed.
Lemma scanline_width_total s e : - 1048576 <= s <= 1048576 -> - 1048576 <= e <= 1048576 -> scanline_width_ok s e = true.
Proof. intros. unfold scanline_width_ok. sites; rng. Qed.

(* ---- thick segment iterators, triangle edges: exact preconditions ---- *)
Lemma segment_iter_last_total um len : 4294967295 <= um -> 2 <= len <= 4294967295 -> segment_iter_last_ok um len = true.
Proof. intros. unfold segment_iter_last_ok. rng. Qed.
Lemma closed_iter_new_iff len : 0 <= len -> (closed_iter_new_ok len = true <-> len <> 1).
Proof.
  intros. unfold closed_iter_new_ok, index_ok.
  destruct (len =? 2) eqn:E2; destruct (len =? 0) eqn:E0; zb; cbn [orb]; try (split; [lia | reflexivity]).
  rewrite !andb_true_iff, !Z.leb_le, !Z.ltb_lt. lia.
Qed.
Lemma closed_iter_next_total um idx len : 4294967295 <= um -> 0 <= idx <= 1024 -> 2 <= len <= 4294967295 ->
  closed_iter_next_ok um idx len = true.
Proof. intros. unfold closed_iter_next_ok. sites; rng. Qed.
Lemma edge_intersections_total um idx : 4294967295 <= um -> 0 <= idx < 3 -> edge_intersections_ok um idx = true.
Proof.
  intros Hu Hi. unfold edge_intersections_ok, index_ok.
  assert (Hc : idx = 0 \/ idx = 1 \/ idx = 2) by lia.
  destruct Hc as [Hc|[Hc|Hc]]; subst idx; cbn [andb]; sites; rng.
Qed.

(* ---- mono font ---- *)
Lemma glyph_total iw cw ch gi : 0 <= iw <= 65535 -> 0 <= cw <= 64 -> 0 <= ch <= 64 -> 0 <= gi <= 1048576 ->
  glyph_ok iw cw ch gi = true.
Proof.
  intros Hi Hc Hh Hg. unfold glyph_ok. destruct ((cw =? 0) || (iw <? cw)) eqn:E; [reflexivity|]. zb. cbv zeta.
  assert (G1 : 1 <= iw / cw) by (apply Z.div_le_lower_bound; lia).
  set (gpr := iw / cw) in *.
  assert (G2 : gpr * cw <= iw) by (subst gpr; rewrite Z.mul_comm; apply Z.mul_div_le; lia).
  assert (G3 : 0 <= gi / gpr <= gi) by (split; [apply Z.div_pos; lia | apply Z.div_le_upper_bound; nia]).
  assert (G4 : gi / gpr * gpr <= gi) by (rewrite Z.mul_comm; apply Z.mul_div_le; lia).
  assert (G5 : gi - gi / gpr * gpr < gpr).
  { pose proof (Z.mod_pos_bound gi gpr ltac:(lia)) as Hm. rewrite Z.mod_eq in Hm by lia. lia. }
  sites; try rng; nia.
Qed.
Lemma default_underline_total h : 0 <= h <= 4294967294 -> default_underline_ok h = true.
Proof. intros. unfold default_underline_ok. rng. Qed.
Lemma decoration_box_total pos offset : pbound 1073741823 pos -> 0 <= offset <= 1073741823 -> decoration_box_ok pos offset = true.
Proof.
  unfold pbound. intros [? ?] ?. unfold decoration_box_ok, point_add_size_ok, size_as_i32_ok, i32_max. cbn [px py sw sh].
  sites; rng.
Qed.
Lemma mapping_range_total um index start end_ : 4294967295 <= um -> 0 <= index <= 1048576 -> 0 <= start <= end_ ->
  end_ <= 1114111 -> mapping_range_ok um index start end_ = true.
Proof. intros. unfold mapping_range_ok. sites; rng. Qed.

(* ---- styled rectangle ---- *)
Lemma offset_ds r n : ds_rect r -> ds_offset n ->
  let o := offset r n in
  - 1152 <= px (tl o) <= 1536 /\ - 1152 <= py (tl o) <= 1536 /\ 0 <= sw (sz o) <= 1280 /\ 0 <= sh (sz o) <= 1280.
Proof.
  unf_ds. intros [[? ?] [? ?]] ?. unfold offset, with_center, center, center_offset, size_sat_add, size_sat_sub, padd_size, psub_size.
  unf_sat. destruct (0 <=? n) eqn:E; zb; cbn [px py sw sh tl sz]; lia.
Qed.
Lemma rect_solid_borders_total s r : ds_width (stroke_width s) -> ds_rect r -> rect_solid_borders_ok s r = true.
Proof.
  intros Hs Hr. unfold rect_solid_borders_ok. cbv zeta.
  rewrite (rect_fill_area_total s r Hs Hr), (rect_stroke_area_total s r Hs Hr). cbn [andb].
  pose proof (stroke_area_offset_ds s Hs). pose proof (fill_area_offset_ds s Hs).
  pose proof (offset_ds r (stroke_area_offset s) Hr ltac:(unf_ds; lia)) as [? [? [? ?]]].
  pose proof (offset_ds r (fill_area_offset s) Hr ltac:(unf_ds; lia)) as [? [? [? ?]]].
  revert Hs. unf_ds. intros.
  unfold point_add_size_ok, point_add_ok, size_as_i32_ok, padd_size, wrap_i32, i32_max. unf_sat. cbn [px py sw sh].
  set (sa := offset r (stroke_area_offset s)) in *. set (fa := offset r (fill_area_offset s)) in *.
  sites; zb; try rng;
    match goal with |- context [if ?c then _ else _] => destruct c eqn:? end; zb; lia.
Qed.
Lemma rect_dotted_int_total s r : ds_width (stroke_width s) -> ds_rect r -> rect_dotted_int_ok s r = true.
Proof.
  intros Hs Hr. unfold rect_dotted_int_ok. cbv zeta.
  rewrite (rect_fill_area_total s r Hs Hr), (rect_stroke_area_total s r Hs Hr). cbn [andb].
  pose proof (stroke_area_offset_ds s Hs).
  pose proof (offset_ds r (stroke_area_offset s) Hr ltac:(unf_ds; lia)) as [? [? [? ?]]].
  revert Hs. unf_ds. intros.
  set (sa := offset r (stroke_area_offset s)) in *.
  set (dot := Z.min (Z.min (stroke_width s) (sh (sz sa) / 2)) (sw (sz sa) / 2)).
  assert (Hd : 0 <= dot <= 128 /\ 2 * dot <= sw (sz sa) /\ 2 * dot <= sh (sz sa)) by (subst dot; lia).
  destruct (dot =? 0) eqn:E0; [reflexivity|]. zb.
  unfold size_sub_ok, size_as_i32_ok, point_add_ok, i32_max. cbn [px py sw sh andb].
  assert (Q1 : 0 <= (sw (sz sa) - dot) / (2 * dot)) by (apply Z.div_pos; lia).
  assert (Q2 : 0 <= (sh (sz sa) - dot) / (2 * dot)) by (apply Z.div_pos; lia).
  assert (Q3 : 1 <= (sw (sz sa) - dot + dot) / (2 * dot) <= 1280) by (split; [apply Z.div_le_lower_bound; lia | apply Z.div_le_upper_bound; lia]).
  assert (Q4 : 1 <= (sh (sz sa) - dot + dot) / (2 * dot) <= 1280) by (split; [apply Z.div_le_lower_bound; lia | apply Z.div_le_upper_bound; lia]).
  set (q1 := (sw (sz sa) - dot) / (2 * dot)) in *. set (q2 := (sh (sz sa) - dot) / (2 * dot)) in *.
  set (q3 := (sw (sz sa) - dot + dot) / (2 * dot)) in *. set (q4 := (sh (sz sa) - dot + dot) / (2 * dot)) in *.
  clearbody q1 q2 q3 q4. clearbody dot. clearbody sa.
  sites; zb; rng.
Qed.

(* ---- sub images: every area outside the recorded class is handled without a panic, for ALL machine inputs ---- *)
Lemma overlaps_le a1 a2 b1 b2 : a1 <= a2 -> b1 <= b2 -> overlaps a1 a2 b1 b2 = true -> Z.max a1 b1 <= Z.min a2 b2.
Proof. intros ? ?. unfold overlaps. intros Ho. zb; lia. Qed.
Lemma machine_rect_facts a : machine_rect a = true ->
  -2147483648 <= px (tl a) <= 2147483647 /\ -2147483648 <= py (tl a) <= 2147483647 /\
  0 <= sw (sz a) <= 4294967295 /\ 0 <= sh (sz a) <= 4294967295.
Proof.
  unfold machine_rect, i32, u32, in_i32, in_u32, i32_min, i32_max, u32_max. intros Hm.
  repeat (apply andb_prop in Hm; destruct Hm as [Hm ?]). zb. lia.
Qed.
Lemma bottom_right_facts a br : bottom_right a = Some br -> bottom_right_ok a = true ->
  px br = px (tl a) + sw (sz a) - 1 /\ py br = py (tl a) + sh (sz a) - 1 /\ 0 < sw (sz a) /\ 0 < sh (sz a) /\
  px (tl a) + sw (sz a) <= 2147483647 /\ py (tl a) + sh (sz a) <= 2147483647.
Proof.
  unfold bottom_right, bottom_right_ok. destruct ((0 <? sw (sz a)) && (0 <? sh (sz a))) eqn:Ea; [ | discriminate ].
  intros [= <-]. unfold point_add_size_ok, i32, in_i32, i32_max. intros Hk.
  repeat (apply andb_prop in Hk; destruct Hk as [Hk ?]). zb. cbn [px py]. lia.
Qed.
Lemma sub_image_new_total pw ph a : 0 <= pw <= 2147483647 -> 0 <= ph <= 2147483647 -> machine_rect a = true ->
  K08_subimage_area_overflow a = false -> sub_image_new_ok pw ph a = true.
Proof.
  intros Hw Hh Hm Hk. unfold K08_subimage_area_overflow in Hk. apply negb_false_iff in Hk.
  unfold sub_image_new_ok, intersection_ok. rewrite Hk.
  assert (Hs : bottom_right_ok (R (P 0 0) (S pw ph)) = true).
  { unfold bottom_right_ok, point_add_size_ok, point_sub_ok, size_as_i32_ok, padd_size, i32_max. cbn [tl sz px py sw sh].
    sites; rng. }
  rewrite Hs. cbn [andb].
  pose proof (machine_rect_facts a Hm) as Fm.
  destruct (bottom_right a) as [obr|] eqn:Eb; destruct (bottom_right (R (P 0 0) (S pw ph))) as [sbr|] eqn:Es;
    try reflexivity.
  - destruct (overlaps _ _ _ _ && overlaps _ _ _ _) eqn:Eo; [ | reflexivity ].
    apply andb_prop in Eo. destruct Eo as [Ox Oy].
    pose proof (bottom_right_facts a obr Eb Hk) as Fa. pose proof (bottom_right_facts _ sbr Es Hs) as Fs.
    cbn [tl sz px py sw sh] in Fs.
    apply overlaps_le in Ox; [ | cbn [tl px]; lia | lia ]. apply overlaps_le in Oy; [ | cbn [tl py]; lia | lia ].
    unfold with_corners_ok, from_bounding_box_ok, component_max, component_min. cbn [px py tl] in *. sites; rng.
  - unfold contains_ok. destruct (_ && _); [assumption | reflexivity].
  - unfold contains_ok. destruct (_ && _); [assumption | reflexivity].
Qed.
Lemma sub_image_area_refuted :
  exists a, machine_rect a = true /\ K08_subimage_area_overflow a = true /\ sub_image_new_ok 8 8 a = false.
Proof. exists (R (P 1 0) (S 2147483648 1)). vm_compute. auto. Qed.

(* ---- styled circle / ellipse constructors ---- *)
Lemma styled_circle_new_total s t d : ds_width (stroke_width s) -> ds_point t -> ds_ext d -> styled_circle_new_ok s t d = true.
Proof.
  intros Hs Ht Hd. unfold styled_circle_new_ok.
  pose proof (stroke_area_offset_ds s Hs). pose proof (fill_area_offset_ds s Hs).
  rewrite !circle_offset_total by (assumption || (unf_ds; lia)).
  assert (fill_area_offset_ok s = true) as ->.
  { unfold fill_area_offset_ok. unfold fill_area_offset in H0. destruct (stroke_kind s); [rng | reflexivity]. }
  cbn [andb].
  assert (Hr : ds_rect (R t (S d d))) by (unfold ds_rect, ds_size; cbn [tl sz sw sh]; tauto).
  assert (Hdd : forall n, -128 <= n <= 128 -> 0 <= circle_offset_diameter d n <= 1280).
  { intros n Hn. revert Hd. unf_ds. unfold circle_offset_diameter. unf_sat. intros. destruct (0 <=? n) eqn:En; zb; lia. }
  pose proof (Hdd (stroke_area_offset s) ltac:(lia)) as Hd1. pose proof (Hdd (fill_area_offset s) ltac:(lia)) as Hd2.
  rewrite (diameter_to_threshold_total (circle_offset_diameter d (stroke_area_offset s)) ltac:(lia)),
    (diameter_to_threshold_total (circle_offset_diameter d (fill_area_offset s)) ltac:(lia)).
  rewrite andb_true_r. rewrite andb_true_r.
  set (d1 := circle_offset_diameter d (stroke_area_offset s)) in *.
  unfold circle_offset_top_left. fold d1.
  revert Ht Hd. unf_ds. intros [? ?] ?.
  unfold circle_center_2x_ok, point_mul_ok, point_add_size_ok, size_as_i32_ok, pmul, with_center, center, center_offset,
    size_sat_sub, padd_size, psub_size, i32_max. unf_sat. cbn [px py sw sh tl sz].
  clearbody d1. sites; rng.
Qed.
Lemma styled_ellipse_new_total s t sz_ : ds_width (stroke_width s) -> ds_point t -> ds_size sz_ -> styled_ellipse_new_ok s t sz_ = true.
Proof.
  intros Hs Ht Hz. unfold styled_ellipse_new_ok.
  pose proof (stroke_area_offset_ds s Hs). pose proof (fill_area_offset_ds s Hs).
  rewrite !ellipse_offset_total by (assumption || (unf_ds; lia)).
  assert (fill_area_offset_ok s = true) as ->.
  { unfold fill_area_offset_ok. unfold fill_area_offset in H0. destruct (stroke_kind s); [rng | reflexivity]. }
  cbn [andb].
  assert (Hss : forall n, -128 <= n <= 128 -> sbound 1280 (ellipse_offset_size sz_ n)).
  { intros n Hn. revert Hz. unf_ds. unfold sbound, ellipse_offset_size, size_sat_add, size_sat_sub. unf_sat. intros [? ?].
    destruct (0 <=? n) eqn:En; zb; cbn [sw sh]; lia. }
  assert (W : forall n, -128 <= n <= 128 -> sbound 2048 (ellipse_offset_size sz_ n)).
  { intros n Hn. destruct (Hss n Hn). unfold sbound. lia. }
  rewrite !ellipse_contains_new_total by (apply W; lia).
  rewrite andb_true_r. rewrite andb_true_r.
  apply ellipse_center_2x_total; [ | apply W; lia ].
  destruct (Hss (stroke_area_offset s) ltac:(lia)) as [? ?].
  set (s1 := ellipse_offset_size sz_ (stroke_area_offset s)) in *.
  revert Ht Hz. unf_ds. intros [? ?] [? ?].
  unfold ellipse_offset_top_left, pbound, with_center, center, center_offset, size_sat_sub, padd_size, psub_size. fold s1.
  unf_sat. cbn [px py sw sh tl sz]. clearbody s1. lia.
Qed.
