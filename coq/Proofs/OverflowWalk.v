(* C08 - bridge: the per-step site predicates of Model/Overflow.v hold along every state of the thick-line walk
   of Model/Thickline.v (states bounded by the line builder's invariant, Proofs/ThicklineOverflow.v), for
   Line::extents (range from the join builder, Proofs/JoinRange.v), ThickPoints and LineJoin::from_points. *)
Set Default Timeout 120.
From Coq Require Import Lia ZArith Bool List.
From EG Require Import Base.Prelude Base.Lemmas Model.Geometry Model.Style Model.Line Model.Thickline.
From EG Require Proofs.Line Proofs.Thickline Proofs.ThicklineOverflow Proofs.JoinRange.
From EG Require Import Model.Overflow Model.OverflowWalk Proofs.Overflow.
Module PL := EG.Proofs.Line.
Module PT := EG.Proofs.Thickline.
Module PO := EG.Proofs.ThicklineOverflow.
Module PJ := EG.Proofs.JoinRange.
Module MT := EG.Model.Thickline.
Open Scope Z_scope.

Definition werr (E e : Z) : Prop := - E <= e <= E.

(* ---- one step of the perpendicular walkers and of the parallel error, with generous bounds ---- *)
Lemma next_all_wide B E C p s : 0 <= B <= 10000 -> 0 <= E <= 1073741823 -> 0 <= C <= 1073741823 -> bp_ok B p ->
  pbound C (b_point s) -> werr E (b_error s) ->
  Overflow.next_all_ok p s = true /\
  pbound (C + 1) (b_point (snd (bnext_all p s))) /\ werr (E + 2 * B) (b_error (snd (bnext_all p s))).
Proof.
  unfold bp_ok, unit_step, pbound, werr. intros ? ? ? [? [? [? [[? ?] [? ?]]]]] [? ?] ?.
  unfold Overflow.next_all_ok, bnext_all, Overflow.point_add_ok, Overflow.point_sub_ok, padd.
  destruct (error_threshold p <? b_error s) eqn:E0; zb; cbn [snd b_point b_error px py];
  (split; [ sites; rng | lia ]).
Qed.
Lemma previous_all_wide B E C p s : 0 <= B <= 10000 -> 0 <= E <= 1073741823 -> 0 <= C <= 1073741823 -> bp_ok B p ->
  pbound C (b_point s) -> werr E (b_error s) ->
  Overflow.previous_all_ok p s = true /\
  pbound (C + 1) (b_point (snd (bprevious_all p s))) /\ werr (E + 2 * B) (b_error (snd (bprevious_all p s))).
Proof.
  unfold bp_ok, unit_step, pbound, werr. intros ? ? ? [? [? [? [[? ?] [? ?]]]]] [? ?] ?.
  unfold Overflow.previous_all_ok, bprevious_all, Overflow.point_add_ok, Overflow.point_sub_ok, psub.
  destruct (b_error s <=? - error_threshold p) eqn:E0; zb; cbn [snd b_point b_error px py];
  (split; [ sites; rng | lia ]).
Qed.
Lemma increase_wide B E p e : 0 <= B <= 10000 -> 0 <= E <= 1073741823 -> bp_ok B p -> werr E e ->
  Overflow.increase_error_ok p e = true /\ werr (E + 2 * B) (fst (MT.increase_error p e)).
Proof.
  unfold bp_ok, werr, Overflow.increase_error_ok, MT.increase_error. intros ? ? [? [? [? _]]] ?. cbv zeta.
  destruct (error_threshold p <? e + error_step_major p) eqn:E0; zb; cbn [fst]; (split; [ sites; rng | lia ]).
Qed.
Lemma decrease_wide B E p e : 0 <= B <= 10000 -> 0 <= E <= 1073741823 -> bp_ok B p -> werr E e ->
  Overflow.decrease_error_ok p e = true /\ werr (E + 2 * B) (fst (MT.decrease_error p e)).
Proof.
  unfold bp_ok, werr, Overflow.decrease_error_ok, MT.decrease_error. intros ? ? [? [? [? _]]] ?. cbv zeta.
  destruct (e - error_step_major p <=? - error_threshold p) eqn:E0; zb; cbn [fst]; (split; [ sites; rng | lia ]).
Qed.

(* ---- generous state invariant ---- *)
Definition wide (B E C : Z) (s : pstate) : Prop :=
  bp_ok B (par_params s) /\ bp_ok B (perp_params s) /\
  werr E (b_error (p_left s)) /\ werr E (left_error s) /\ werr E (b_error (p_right s)) /\ werr E (right_error s) /\
  pbound C (b_point (p_left s)) /\ pbound C (b_point (p_right s)).

Lemma next_parallel_ok_wide B : 0 <= B <= 10000 -> forall f s sd E C,
  0 <= E -> E + 2 * B * Z.of_nat f <= 1073741823 -> 0 <= C -> C + Z.of_nat f <= 1073741823 -> wide B E C s ->
  next_parallel_ok f s sd = true.
Proof.
  intros HB. induction f as [|f IH]; intros s sd E C HE HEf HC HCf W; [reflexivity|].
  destruct s as [par perp acc thr fl pl le pr re ns po].
  destruct W as [Wpar [Wperp [Wel [Wle [Wer [Wre [Wpl Wpr]]]]]]].
  cbn [par_params perp_params p_left p_right left_error right_error b_error b_point] in *.
  rewrite Nat2Z.inj_succ in HEf, HCf.
  cbn [next_parallel_ok par_params perp_params thick_acc thick_thr flip p_left p_right left_error right_error next_side p_offset].
  destruct sd.
  - (* left: next_all *)
    destruct (next_all_wide B E C perp pl HB ltac:(nia) ltac:(lia) Wperp Wpl Wel) as [-> [Hp' He']].
    cbn [andb]. destruct (bnext_all perp pl) as [point b'] eqn:Eb. cbn [snd] in *.
    destruct point; [reflexivity|].
    destruct fl.
    + destruct (decrease_wide B E par le HB ltac:(nia) Wpar Wle) as [-> He2]. cbn [andb].
      destruct (MT.decrease_error par le) as [e' took]. cbn [fst] in He2. destruct took; [reflexivity|].
      apply (IH _ _ (E + 2 * B) (C + 1)); try nia.
      repeat split; cbn [par_params perp_params p_left p_right left_error right_error]; try apply Wpar; try apply Wperp;
        unfold werr, pbound in *; lia.
    + destruct (increase_wide B E par le HB ltac:(nia) Wpar Wle) as [-> He2]. cbn [andb].
      destruct (MT.increase_error par le) as [e' took]. cbn [fst] in He2. destruct took; [reflexivity|].
      apply (IH _ _ (E + 2 * B) (C + 1)); try nia.
      repeat split; cbn [par_params perp_params p_left p_right left_error right_error]; try apply Wpar; try apply Wperp;
        unfold werr, pbound in *; lia.
  - (* right: previous_all *)
    destruct (previous_all_wide B E C perp pr HB ltac:(nia) ltac:(lia) Wperp Wpr Wer) as [-> [Hp' He']].
    cbn [andb]. destruct (bprevious_all perp pr) as [point b'] eqn:Eb. cbn [snd] in *.
    destruct point; [reflexivity|].
    destruct fl; cbn [negb].
    + destruct (increase_wide B E par re HB ltac:(nia) Wpar Wre) as [-> He2]. cbn [andb].
      destruct (MT.increase_error par re) as [e' took]. cbn [fst] in He2. destruct took; [reflexivity|].
      apply (IH _ _ (E + 2 * B) (C + 1)); try nia.
      repeat split; cbn [par_params perp_params p_left p_right left_error right_error]; try apply Wpar; try apply Wperp;
        unfold werr, pbound in *; lia.
    + destruct (decrease_wide B E par re HB ltac:(nia) Wpar Wre) as [-> He2]. cbn [andb].
      destruct (MT.decrease_error par re) as [e' took]. cbn [fst] in He2. destruct took; [reflexivity|].
      apply (IH _ _ (E + 2 * B) (C + 1)); try nia.
      repeat split; cbn [par_params perp_params p_left p_right left_error right_error]; try apply Wpar; try apply Wperp;
        unfold werr, pbound in *; lia.
Qed.

(* next_parallel leaves the parameters, the accumulator and the threshold alone *)
Lemma next_parallel_frame : forall f s sd pt e s', next_parallel f s sd = Some (pt, e, s') ->
  par_params s' = par_params s /\ perp_params s' = perp_params s /\ thick_acc s' = thick_acc s /\ thick_thr s' = thick_thr s.
Proof.
  induction f as [|f IH]; intros s sd pt e s' H; [discriminate|].
  cbn [next_parallel] in H.
  destruct sd.
  - destruct (bnext_all (perp_params s) (p_left s)) as [point b']. destruct point.
    + injection H as <- <- <-. cbn [par_params perp_params thick_acc thick_thr]. auto.
    + destruct (flip s).
      * destruct (MT.decrease_error (par_params s) (left_error s)) as [e' took]. destruct took.
        -- injection H as <- <- <-. cbn [par_params perp_params thick_acc thick_thr]. auto.
        -- apply IH in H. cbn [par_params perp_params thick_acc thick_thr] in H. exact H.
      * destruct (MT.increase_error (par_params s) (left_error s)) as [e' took]. destruct took.
        -- injection H as <- <- <-. cbn [par_params perp_params thick_acc thick_thr]. auto.
        -- apply IH in H. cbn [par_params perp_params thick_acc thick_thr] in H. exact H.
  - destruct (bprevious_all (perp_params s) (p_right s)) as [point b']. destruct point.
    + injection H as <- <- <-. cbn [par_params perp_params thick_acc thick_thr]. auto.
    + destruct (negb (flip s)).
      * destruct (MT.decrease_error (par_params s) (right_error s)) as [e' took]. destruct took.
        -- injection H as <- <- <-. cbn [par_params perp_params thick_acc thick_thr]. auto.
        -- apply IH in H. cbn [par_params perp_params thick_acc thick_thr] in H. exact H.
      * destruct (MT.increase_error (par_params s) (right_error s)) as [e' took]. destruct took.
        -- injection H as <- <- <-. cbn [par_params perp_params thick_acc thick_thr]. auto.
        -- apply IH in H. cbn [par_params perp_params thick_acc thick_thr] in H. exact H.
Qed.
Lemma parallels_next_frame s a s' : parallels_next s = Yield a s' ->
  par_params s' = par_params s /\ perp_params s' = perp_params s /\ thick_thr s' = thick_thr s.
Proof.
  unfold parallels_next. destruct (thick_thr s <? thick_acc s * thick_acc s); [discriminate|].
  destruct (next_parallel np_fuel s (next_side s)) as [[[pt e] s1]|] eqn:E; [|discriminate].
  apply next_parallel_frame in E. destruct E as [E1 [E2 [E3 E4]]].
  destruct pt; intros [= <- <-]; unfold set_acc_side; cbn; auto.
Qed.

(* ---- one call of Iterator::next on a state that satisfies the line builder's invariant ---- *)
Lemma parallels_step_ok_wide B E C A s : 0 <= B <= 10000 -> 0 <= E -> E + 8 * B <= 1073741823 -> 0 <= C <= 1073741000 ->
  0 <= A <= 1073741823 -> wide B E C s -> 0 <= thick_acc s <= A -> parallels_step_ok s = true.
Proof.
  intros HB HE HE8 HC HA W Hacc. unfold parallels_step_ok.
  pose proof (mul_bound_nn (thick_acc s) (thick_acc s) A A ltac:(lia) ltac:(lia)).
  assert (Overflow.i64 (thick_acc s * thick_acc s) = true) as -> by (apply i64_intro; nia).
  cbn [andb]. destruct (thick_thr s <? thick_acc s * thick_acc s); [reflexivity|].
  assert (N4 : Z.of_nat np_fuel = 4) by reflexivity.
  rewrite (next_parallel_ok_wide B HB np_fuel s (next_side s) E C HE ltac:(rewrite N4; lia) ltac:(lia) ltac:(rewrite N4; lia) W).
  cbn [andb].
  destruct (next_parallel np_fuel s (next_side s)) as [[[pt e] s1]|] eqn:En; [|reflexivity].
  apply next_parallel_frame in En. destruct En as [_ [E2 [E3 _]]]. rewrite E2, E3.
  destruct W as [_ [[? [? [? _]]] _]]. destruct pt; apply i32_intro; lia.
Qed.

(* ---- the states of the walk ---- *)
Lemma unit_pt_step q : PO.unit_pt q -> unit_step q.
Proof. unfold PO.unit_pt, unit_step. tauto. Qed.
Lemma pstates_frame : forall fuel s st, In st (PO.pstates fuel s) ->
  par_params st = par_params s /\ perp_params st = perp_params s.
Proof.
  induction fuel as [|f IH]; intros s st H; cbn [PO.pstates] in H.
  - destruct H as [<-|[]]. auto.
  - destruct H as [<-|H]; [auto|].
    destruct (parallels_next s) as [| |a s'] eqn:E; try contradiction.
    apply IH in H. apply parallels_next_frame in E. destruct H as [-> ->]. destruct E as [-> [-> _]]. auto.
Qed.

(* the state ParallelsIterator::new builds: its parameters are those of the (effective) line and its perpendicular *)
Lemma new_params l w so s : parallels_new l w so = Some s ->
  let l' := PT.eff_line l in
  par_params s = BP (PL.ldmaj l') (2 * PL.ldmin l') (2 * PL.ldmaj l') (PL.lsmaj l') (PL.lsmin l') /\
  perp_params s = BP (PL.ldmaj l') (2 * PL.ldmin l') (2 * PL.ldmaj l')
                     (PL.lsmaj (MT.perpendicular l')) (PL.lsmin (MT.perpendicular l')).
Proof.
  rewrite PT.parallels_new_frame. cbv zeta. intros [= <-]. destruct so; unfold PT.st_of, PT.mkst; cbn; auto.
Qed.
Lemma frame_bp_ok D d A B' : 1 <= D <= 2048 -> 0 <= d <= D -> PO.unit_pt A -> PO.unit_pt B' ->
  bp_ok 2048 (BP D (2 * d) (2 * D) A B').
Proof.
  intros ? ? [? ?] [? ?]. unfold bp_ok, unit_step.
  cbn [error_threshold error_step_major error_step_minor pos_step_major pos_step_minor]. repeat split; lia.
Qed.

Lemma state_fits_wide l w st : PO.display_line l -> PO.display_width w ->
  par_params st = par_params st ->
  bp_ok 2048 (par_params st) -> bp_ok 2048 (perp_params st) ->
  PO.state_fits (PL.ldmaj (PT.eff_line l)) (PL.ldmin (PT.eff_line l)) w (l_start l) st ->
  wide 2048 6144 1800 st /\ 0 <= thick_acc st <= 790528.
Proof.
  intros Hl Hw _ Bp Bq [k SO]. pose proof (PO.display_dmaj l Hl) as HD. pose proof (PL.ldm_ok (PT.eff_line l)) as Hd.
  unfold PO.state_ok in SO. destruct SO as (Sa & Sel & Sle & Ser & Sre & Npl & Npr & Sk & _).
  unfold PO.display_width in Hw. unfold PO.display_line, PO.dcoord in Hl. unfold PO.near in *.
  set (D := PL.ldmaj (PT.eff_line l)) in *. set (d := PL.ldmin (PT.eff_line l)) in *.
  assert (0 <= w * D <= 128 * 2048) by nia.
  split; [ | lia ].
  unfold wide. split; [assumption | split; [assumption | ]]. unfold werr, pbound. repeat split; lia.
Qed.

Lemma walk_states_ok l w so fuel : PO.display_line l -> PO.display_width w ->
  exists s, parallels_new l w so = Some s /\ Forall (fun st => parallels_step_ok st = true) (PO.pstates fuel s).
Proof.
  intros Hl Hw. destruct (PO.parallels_states_fit l w so fuel) as [s [Hn [Hf _]]]; [unfold PO.display_width in Hw; lia|].
  exists s. split; [assumption|].
  destruct (new_params l w so s Hn) as [Ppar Pperp].
  pose proof (PO.display_dmaj l Hl) as HD. pose proof (PL.ldm_ok (PT.eff_line l)) as Hd.
  rewrite Forall_forall in *. intros st Hin.
  destruct (pstates_frame fuel s st Hin) as [F1 F2].
  assert (Bp : bp_ok 2048 (par_params st)).
  { rewrite F1, Ppar. apply frame_bp_ok; try assumption; [apply PO.unit_lsmaj | apply PO.unit_lsmin]. }
  assert (Bq : bp_ok 2048 (perp_params st)).
  { rewrite F2, Pperp. apply frame_bp_ok; try assumption; [apply PO.unit_lsmaj | apply PO.unit_lsmin]. }
  destruct (state_fits_wide l w st Hl Hw eq_refl Bp Bq (Hf st Hin)) as [W Ha].
  apply (parallels_step_ok_wide 2048 6144 1800 790528); try assumption; lia.
Qed.

Lemma parallels_run_ok_of_states : forall fuel s,
  Forall (fun st => parallels_step_ok st = true) (PO.pstates fuel s) -> parallels_run_ok fuel s = true.
Proof.
  induction fuel as [|f IH]; intros s H; cbn [PO.pstates parallels_run_ok] in *.
  - inversion H; subst. rewrite H2. reflexivity.
  - inversion H; subst. rewrite H2. cbn [andb].
    destruct (parallels_next s) as [| |a s']; try reflexivity. apply IH. assumption.
Qed.

(* ---- display scale of the two developments coincide ---- *)
Lemma ds_display_line l : ds_line l <-> PO.display_line l.
Proof. unfold ds_line, ds_point, ds_coord, ds_max, PO.display_line, PO.dcoord. tauto. Qed.
Lemma ds_display_width w : ds_width w <-> PO.display_width w.
Proof. unfold ds_width, ds_wmax, PO.display_width. tauto. Qed.
Lemma perpendicular_same l : MT.perpendicular l = Overflow.perpendicular l.
Proof. reflexivity. Qed.
Lemma used_line_same l : (if point_eqb (l_start l) (l_end l) then MT.horizontal_line else l) = Overflow.thick_line_used l.
Proof. reflexivity. Qed.

Lemma bp_ok_mono B B' p : bp_ok B p -> B <= B' -> bp_ok B' p.
Proof. unfold bp_ok. intros [? [? [? [? ?]]]] ?. split; [lia|]. split; [assumption|]. split; [assumption|]. split; assumption. Qed.
(* ParallelsIterator::new, all stroke offsets *)
Lemma parallels_new_so_total l w so : ds_line l -> 0 <= w <= 128 -> parallels_new_so_ok l w so = true.
Proof.
  intros Hl Hw. unfold parallels_new_so_ok. rewrite (parallels_new_total l w Hl Hw). cbn [andb]. cbv zeta.
  rewrite used_line_same, perpendicular_same.
  pose proof (thick_line_used_ds l Hl) as Hu. pose proof (ds_lbound _ Hu) as Hb.
  destruct (bparams_new_total 1024 _ ltac:(lia) Hb) as [_ Bpar].
  destruct (perpendicular_total 1024 _ ltac:(lia) Hb) as [_ Hperp].
  destruct (bparams_new_total 3072 _ ltac:(lia) Hperp) as [_ Bperp].
  assert (N4 : Z.of_nat np_fuel = 4) by reflexivity.
  apply (next_parallel_ok_wide 6144 ltac:(lia) np_fuel _ _ 0 1024); try lia; try (rewrite N4; lia).
  unfold wide. cbn [par_params perp_params p_left p_right left_error right_error b_error b_point].
  split; [apply (bp_ok_mono (2 * 1024)); [assumption | lia]|]. split; [apply (bp_ok_mono (2 * 3072)); [assumption | lia]|].
  unfold werr. pose proof (ds_lbound l Hl) as [Hs _]. repeat split; try lia; apply Hs.
Qed.

(* the whole iterator *)
Lemma parallels_ok_total l w so : ds_line l -> 0 <= w <= 128 -> parallels_ok l w so = true.
Proof.
  intros Hl Hw. unfold parallels_ok. rewrite (parallels_new_so_total l w so Hl Hw). cbn [andb].
  destruct (walk_states_ok l w so (parallels_fuel l w) (proj1 (ds_display_line l) Hl) ltac:(unfold PO.display_width; lia)) as [s [-> Hs]].
  apply parallels_run_ok_of_states. assumption.
Qed.

(* Line::extents: never fails, its sites are safe, and the two edge lines stay within 6w+8 of the line *)
Lemma within_edge a : PJ.lwithin 1800 a -> edge_line a.
Proof. unfold PJ.lwithin, PJ.within, edge_line, edge_point, edge_max, ds_max, ds_wmax. tauto. Qed.
Lemma extents_total l w so : ds_line l -> ds_width w ->
  extents_ok l w so = true /\ exists a b, extents l w so = Some (a, b) /\ edge_line a /\ edge_line b.
Proof.
  intros Hl Hw. assert (Hw' : 0 <= w <= 128) by (revert Hw; unf_ds; lia).
  assert (Hlw : PJ.lwithin 1024 l).
  { revert Hl. unfold ds_line, ds_point, ds_coord, ds_max, PJ.lwithin, PJ.within. tauto. }
  destruct (PJ.extents_within l w so 1024 ltac:(lia) ltac:(lia) Hlw) as [a [b [E [Ha Hb]]]].
  replace (1024 + 6 * w + 8) with (1800 - (768 - 6 * w)) in Ha, Hb by lia.
  assert (Ha' : PJ.lwithin 1800 a) by (revert Ha; unfold PJ.lwithin, PJ.within; lia).
  assert (Hb' : PJ.lwithin 1800 b) by (revert Hb; unfold PJ.lwithin, PJ.within; lia).
  split; [ | exists a, b; repeat split; try assumption; apply within_edge; assumption ].
  unfold extents_ok. cbv zeta. rewrite E.
  replace (sat_u32_to_i32 w) with w by (unf_sat; lia).
  rewrite (parallels_ok_total l w so Hl Hw'). rewrite used_line_same.
  pose proof (thick_line_used_ds l Hl) as Hu.
  destruct (bparams_new_total 1024 _ ltac:(lia) (ds_lbound _ Hu)) as [_ [_ [_ [_ [[? ?] [? ?]]]]]].
  destruct (line_delta_total 1024 l ltac:(lia) (ds_lbound _ Hl)) as [-> [? ?]].
  unfold line_delta in *.
  unfold extents_edge_ok, Overflow.point_add_ok.
  destruct Ha' as [[? ?] [? ?]], Hb' as [[? ?] [? ?]]. cbn [andb]. sites; rng.
Qed.

(* ThickPoints driven to the end (Styled<Line>::pixels / draw) *)
Lemma thick_points_ok_total l w : ds_line l -> 0 <= w <= 128 -> thick_points_ok l w = true.
Proof.
  intros Hl Hw. unfold thick_points_ok.
  destruct (major_length_total 1024 l ltac:(lia) (ds_lbound _ Hl)) as [-> Hm].
  rewrite (parallels_ok_total l w SONone Hl Hw). cbn [andb].
  destruct (PT.parallels_total l w SONone ltac:(lia)) as [ps [E _]]. rewrite E.
  pose proof (PO.parallels_fit l w SONone ps ltac:(lia) E) as Hf.
  rewrite used_line_same.
  pose proof (thick_line_used_ds l Hl) as Hu.
  destruct (bparams_new_total 1024 _ ltac:(lia) (ds_lbound _ Hu)) as [_ Bp].
  pose proof (PO.display_dmaj l (proj1 (ds_display_line l) Hl)) as HD.
  assert (Thr : error_threshold (bparams_new (thick_line_used l)) = PL.ldmaj (PT.eff_line l)).
  { change (thick_line_used l) with (PT.eff_line l). rewrite PL.bparams_new_frame. reflexivity. }
  apply forallb_forall. intros bt Hin. rewrite Forall_forall in Hf. destruct (Hf bt Hin) as [k [Hk [He Hn]]].
  assert (Hpt : pbound 1800 (b_point (fst bt))).
  { destruct (ds_lbound _ Hl) as [[? ?] _]. unfold PO.near in Hn. unfold pbound. lia. }
  assert (Herr : berr_inv (bparams_new (thick_line_used l)) (b_error (fst bt))).
  { unfold berr_inv. rewrite Thr. destruct Bp as [_ [? _]]. lia. }
  destruct (snd bt).
  - apply (bresenham_run_total 2048 _ ltac:(lia) Bp _ _ 1800); try assumption; lia.
  - rewrite thick_points_next_total by lia. cbn [andb].
    apply (bresenham_run_total 2048 _ ltac:(lia) Bp _ _ 1800); try assumption; lia.
Qed.
Lemma styled_line_pixels_total l w : ds_line l -> ds_width w -> styled_line_pixels_ok l w = true.
Proof.
  intros Hl Hw. unfold styled_line_pixels_ok. apply thick_points_ok_total; [assumption|].
  revert Hw. unf_ds. unf_sat. lia.
Qed.

(* LineJoin::from_points from three display-scale vertices *)
Lemma join_from_points_total start mid end_ w so : ds_point start -> ds_point mid -> ds_point end_ -> ds_width w ->
  join_from_points_ok start mid end_ w so = true.
Proof.
  intros Hs Hm He Hw. unfold join_from_points_ok.
  destruct (extents_total (L start mid) w so ltac:(unfold ds_line; cbn; tauto) Hw) as [-> [fl [fr [-> [Hfl Hfr]]]]].
  destruct (extents_total (L mid end_) w so ltac:(unfold ds_line; cbn; tauto) Hw) as [-> [sl [sr [-> [Hsl Hsr]]]]].
  cbn [andb]. apply join_edges_total; assumption.
Qed.
