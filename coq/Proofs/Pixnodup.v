(* pixels() of a styled circle / ellipse yields its items in strictly row-major order, hence no point twice (C06, C01(b)). *)
From EG Require Import Base.Prelude Base.Lemmas Model.Geometry Model.Style Model.Circle Model.Ellipse
  Proofs.Geometry Proofs.Scanline Proofs.Circle Proofs.Ellipse Proofs.Circlestyled Proofs.Ellipsestyled.
From Coq Require Import ZifyBool Sorting.Sorted.

Set Default Timeout 60.

(* ---- sortedness helpers ---- *)
Lemma sorted_app {A} (R : A -> A -> Prop) l1 l2 :
  StronglySorted R l1 -> StronglySorted R l2 -> (forall a b, In a l1 -> In b l2 -> R a b) ->
  StronglySorted R (l1 ++ l2).
Proof.
  induction 1 as [|a l1 Hs IH Hall]; intros H2 Hc; cbn [app]; [assumption|].
  constructor.
  - apply IH; [assumption|]. intros x y Hx Hy. apply Hc; [right; assumption|assumption].
  - apply Forall_app. split; [assumption|]. apply Forall_forall. intros y Hy. apply Hc; [left; reflexivity|assumption].
Qed.

Lemma sorted_map {A B} (R : B -> B -> Prop) (f : A -> B) l :
  StronglySorted (fun a b => R (f a) (f b)) l -> StronglySorted R (map f l).
Proof.
  induction 1 as [|a l Hs IH Hall]; cbn [map]; constructor; [assumption|].
  rewrite Forall_forall in *. intros y Hy. apply in_map_iff in Hy. destruct Hy as (x & <- & Hx). apply Hall, Hx.
Qed.

(* ---- spans in reading order ---- *)
Definition span_lt (a b : scanline) : Prop := sl_y a < sl_y b \/ (sl_y a = sl_y b /\ sl_x1 a <= sl_x0 b).

Lemma scanline_points_sorted s : StronglySorted lt_yx (scanline_points s).
Proof.
  unfold scanline_points. apply sorted_map. generalize (range_sorted (sl_x0 s) (sl_x1 s)).
  induction 1 as [|a l Hs IH Hall]; constructor; [assumption|].
  rewrite Forall_forall in *. intros x Hx. right. cbn [px py]. split; [reflexivity|apply Hall, Hx].
Qed.

Lemma in_scanline_points s p : In p (scanline_points s) -> py p = sl_y s /\ sl_x0 s <= px p < sl_x1 s.
Proof.
  unfold scanline_points. intros H. apply in_map_iff in H. destruct H as (x & <- & Hx). apply In_range in Hx.
  cbn [px py]. lia.
Qed.

Lemma map_fst_colored s c : map fst (colored s c) = scanline_points s.
Proof. unfold colored. rewrite map_map. cbn [fst]. apply map_id. Qed.

Lemma map_fst_pix_spans spans : map fst (pix_spans spans) = flat_map (fun sc => scanline_points (fst sc)) spans.
Proof.
  unfold pix_spans. induction spans as [|[s c] t IH]; cbn [flat_map map]; [reflexivity|].
  rewrite map_app, map_fst_colored, IH. reflexivity.
Qed.

Theorem pix_spans_sorted spans :
  StronglySorted span_lt (map fst spans) -> StronglySorted lt_yx (map fst (pix_spans spans)).
Proof.
  rewrite map_fst_pix_spans. induction spans as [|[s c] t IH]; cbn [map flat_map fst]; intros H; [constructor|].
  inversion H as [|? ? Hs Hall]; subst. apply sorted_app.
  - apply scanline_points_sorted.
  - apply IH, Hs.
  - intros a b Ha Hb. apply in_flat_map in Hb. destruct Hb as ([s' c'] & Hin & Hb). cbn [fst] in Hb.
    rewrite Forall_forall in Hall. specialize (Hall s' (in_map fst _ _ Hin)).
    apply in_scanline_points in Ha, Hb. unfold span_lt in Hall. unfold lt_yx. lia.
Qed.

(* ---- rows in increasing order ---- *)
Lemma scan_rows_sorted skip pred c0 c1 ys :
  StronglySorted Z.lt ys ->
  StronglySorted (fun a b => sl_y a < sl_y b) (scan_rows skip pred c0 c1 ys) /\
  (forall s, In s (scan_rows skip pred c0 c1 ys) -> In (sl_y s) ys).
Proof.
  induction 1 as [|y t Hs IH Hall]; cbn [scan_rows]; [split; [constructor|intros s []]|].
  destruct IH as [IH1 IH2]. destruct (first_hit (pred y) c0 c1) as [[a b]|].
  - split.
    + constructor; [assumption|]. apply Forall_forall. intros s Hin. cbn [sl_y].
      rewrite Forall_forall in Hall. apply Hall, IH2, Hin.
    + intros s [<-|Hin]; [left; reflexivity|right; apply IH2, Hin].
  - destruct skip; [|split; [constructor|intros s []]].
    split; [assumption|]. intros s Hin. right. apply IH2, Hin.
Qed.

Lemma styled_scan_sorted fpred sls :
  StronglySorted (fun a b => sl_y a < sl_y b) sls ->
  StronglySorted (fun a b => ss_y a < ss_y b) (styled_scan fpred sls).
Proof.
  unfold styled_scan. intros H. apply sorted_map.
  assert (E : forall s, ss_y (styled_scanline_new (sl_y s) (sl_x0 s) (sl_x1 s) (first_hit (fpred (sl_y s)) (sl_x0 s) (sl_x1 s))) = sl_y s)
    by (intros s; destruct (first_hit _ _ _) as [[? ?]|]; reflexivity).
  induction H as [|a l Hs IH Hall]; constructor; [assumption|].
  rewrite Forall_forall in *. intros x Hx. rewrite !E. apply Hall, Hx.
Qed.

Theorem rows_spans_sorted (g : styled_scanline -> list (scanline * Z)) l :
  StronglySorted (fun a b => ss_y a < ss_y b) l ->
  (forall s, In s l -> StronglySorted span_lt (map fst (g s)) /\ forall sp, In sp (map fst (g s)) -> sl_y sp = ss_y s) ->
  StronglySorted span_lt (map fst (flat_map g l)).
Proof.
  induction 1 as [|a l Hs IH Hall]; intros Hg; cbn [flat_map map]; [constructor|].
  rewrite map_app. apply sorted_app.
  - apply Hg. left. reflexivity.
  - apply IH. intros s Hin. apply Hg. right. assumption.
  - intros x y Hx Hy. left.
    apply in_map_iff in Hy. destruct Hy as ([sp c] & <- & Hy). apply in_flat_map in Hy. destruct Hy as (s' & Hs' & Hy).
    cbn [fst].
    rewrite (proj2 (Hg a (or_introl eq_refl)) x Hx).
    rewrite (proj2 (Hg s' (or_intror Hs')) sp (in_map fst _ _ Hy)).
    rewrite Forall_forall in Hall. apply Hall, Hs'.
Qed.

(* the three span layouts of a styled scanline with s0 <= f0 <= f1 <= s1 *)
Lemma spans_layout_ok s (sc fc : Z) :
  ss_s0 s <= ss_f0 s <= ss_f1 s -> ss_f1 s <= ss_s1 s ->
  forall g, In g [ [(stroke_left s, sc); (stroke_right s, sc)];
                   [(stroke_left s, sc); (fill_part s, fc); (stroke_right s, sc)];
                   [(fill_part s, fc)] ] ->
  StronglySorted span_lt (map fst g) /\ forall sp, In sp (map fst g) -> sl_y sp = ss_y s.
Proof.
  intros H1 H2 g Hg. cbn [In] in Hg. destruct Hg as [<-|[<-|[<-|[]]]]; cbn [map fst]; split;
    try (intros sp Hin; cbn [In] in Hin; repeat (destruct Hin as [<-|Hin]; [reflexivity|]); destruct Hin);
    repeat (constructor; [|try (apply Forall_forall; intros x Hx; cbn [In] in Hx;
             repeat (destruct Hx as [<-|Hx]; [right; cbn [stroke_left stroke_right fill_part sl_y sl_x0 sl_x1]; lia|]); destruct Hx)]);
    try constructor.
Qed.

Theorem styled_pixels_sorted (S F : point -> bool) l stroke fill :
  StronglySorted (fun a b => ss_y a < ss_y b) l -> (forall s, In s l -> ssl_ok S F s) ->
  StronglySorted lt_yx (map fst (styled_pixels l stroke fill)).
Proof.
  intros Hsorted Hok. rewrite styled_pixels_spans. apply pix_spans_sorted.
  destruct stroke as [sc|], fill as [fc|]; try (cbn [map]; constructor);
    unfold spans_stroke, spans_both, spans_fill; apply rows_spans_sorted; try assumption;
    intros s Hin; destruct (Hok s Hin) as (A1 & A2 & A3 & _);
    [ apply (spans_layout_ok s sc fc ltac:(lia) ltac:(lia)); right; left; reflexivity
    | apply (spans_layout_ok s sc sc ltac:(lia) ltac:(lia)); left; reflexivity
    | apply (spans_layout_ok s fc fc ltac:(lia) ltac:(lia)); right; right; left; reflexivity ].
Qed.

(* ---- circle and ellipse ---- *)
Lemma circle_scanlines_sorted A : StronglySorted (fun a b => sl_y a < sl_y b) (circle_scanlines A).
Proof.
  unfold circle_scanlines. destruct (rows (circle_bbox A)) as [y0 y1]. destruct (columns (circle_bbox A)) as [c0 c1].
  apply scan_rows_sorted, range_sorted.
Qed.

Lemma ellipse_scanlines_sorted A : StronglySorted (fun a b => sl_y a < sl_y b) (ellipse_scanlines A).
Proof.
  unfold ellipse_scanlines. destruct (rows (ellipse_bbox A)) as [y0 y1]. destruct (columns (ellipse_bbox A)) as [c0 c1].
  apply scan_rows_sorted, range_sorted.
Qed.

Theorem circle_pixels_sorted c st :
  circle_sok c -> style_ok st -> StronglySorted lt_yx (map fst (circle_styled_pixels c st)).
Proof.
  intros Hc Hs. destruct (circle_areas c st Hc Hs) as (HA & HB & Hcc). unfold circle_styled_pixels.
  eapply styled_pixels_sorted.
  - unfold circle_styled_scanlines. apply styled_scan_sorted, circle_scanlines_sorted.
  - apply (circle_styled_scanlines_ok _ _ HA Hcc).
Qed.

Theorem circle_pixels_nodup c st : circle_sok c -> style_ok st -> NoDup (map fst (circle_styled_pixels c st)).
Proof. intros Hc Hs. apply lt_yx_irrefl_sorted, circle_pixels_sorted; assumption. Qed.

Theorem ellipse_pixels_sorted e st :
  ellipse_sok e -> style_ok st -> StronglySorted lt_yx (map fst (ellipse_styled_pixels e st)).
Proof.
  intros He Hs. destruct (ellipse_areas e st He Hs) as (HA & HB & Hcc). unfold ellipse_styled_pixels.
  eapply styled_pixels_sorted.
  - unfold ellipse_styled_scanlines. apply styled_scan_sorted, ellipse_scanlines_sorted.
  - apply (ellipse_styled_scanlines_ok _ _ HA HB Hcc).
Qed.

Theorem ellipse_pixels_nodup e st : ellipse_sok e -> style_ok st -> NoDup (map fst (ellipse_styled_pixels e st)).
Proof. intros He Hs. apply lt_yx_irrefl_sorted, ellipse_pixels_sorted; assumption. Qed.
