(* Proofs about Model/Polyline.v: the step-by-step Points iterator yields the first segment's line
   followed by every further segment's line without its first point. *)
From EG Require Import Base.Prelude Base.Lemmas Model.Geometry Model.Line Model.Polyline.
Set Default Timeout 60.

(* ---- facts about line_points needed here (length, non-emptiness, translation) ------------- *)

Lemma tri_bresenham_run_length p s n : length (bresenham_run p s n) = n.
Proof.
  revert s; induction n as [|n IH]; intros s; cbn [bresenham_run]; [reflexivity|].
  destruct (bnext p s) as [q s']. cbn [length]. rewrite IH. reflexivity.
Qed.

Lemma major_length_pos l : 1 <= major_length l.
Proof. unfold major_length. lia. Qed.

Lemma line_points_length l : length (line_points l) = Z.to_nat (major_length l).
Proof. unfold line_points. apply tri_bresenham_run_length. Qed.

Lemma line_points_cons l : exists t, line_points l = l_start l :: t.
Proof.
  unfold line_points. pose proof (major_length_pos l) as H.
  destruct (Z.to_nat (major_length l)) as [|n] eqn:E; [lia|].
  cbn [bresenham_run]. unfold bnext. cbn [b_error b_point].
  assert (Hthr : (error_threshold (bparams_new l) <? 0) = false).
  { unfold bparams_new. destruct (_ <=? _); cbn [error_threshold]; lia. }
  rewrite Hthr. cbn [b_point]. eexists. reflexivity.
Qed.

Lemma padd_comm3 a b c : padd (padd a b) c = padd (padd a c) b.
Proof. unfold padd. cbn [px py]. f_equal; lia. Qed.

Lemma bresenham_run_translate p q e d n :
  bresenham_run p (BS (padd q d) e) n = map (fun r => padd r d) (bresenham_run p (BS q e) n).
Proof.
  revert q e; induction n as [|n IH]; intros q e; cbn [bresenham_run map]; [reflexivity|].
  unfold bnext. cbn [b_point b_error].
  destruct (error_threshold p <? e); cbn [b_point b_error map].
  - rewrite (padd_comm3 q d (pos_step_minor p)). rewrite (padd_comm3 _ d (pos_step_major p)).
    rewrite IH. reflexivity.
  - rewrite (padd_comm3 q d (pos_step_major p)). rewrite IH. reflexivity.
Qed.

Lemma psub_translate a b d : psub (padd a d) (padd b d) = psub a b.
Proof. unfold psub, padd. cbn [px py]. f_equal; lia. Qed.

Lemma line_points_translate l d :
  line_points (translate_line l d) = map (fun r => padd r d) (line_points l).
Proof.
  unfold line_points.
  assert (Hp : bparams_new (translate_line l d) = bparams_new l).
  { unfold bparams_new, translate_line. cbn [l_start l_end]. rewrite psub_translate. reflexivity. }
  assert (Hm : major_length (translate_line l d) = major_length l).
  { unfold major_length, translate_line. cbn [l_start l_end]. rewrite psub_translate. reflexivity. }
  rewrite Hp, Hm. unfold translate_line. cbn [l_start]. apply bresenham_run_translate.
Qed.

(* ---- the specification ----------------------------------------------------------------- *)

Definition seg_tail (l : line) : list point := List.tl (line_points l).

Definition shift (tr : point) (vs : list point) : list point := map (fun v => padd v tr) vs.

(* what polyline points() is meant to be *)
Definition polyline_points_ref (pl : polyline) : list point :=
  match segments (shift (pl_translate pl) (pl_vertices pl)) with
  | [] => []
  | s :: r => line_points s ++ flat_map seg_tail r
  end.

(* what a state of the iterator still has to yield *)
Definition pp_den (s : ppoints) : list point :=
  pp_segment s ++ flat_map seg_tail (segments (shift (pp_translate s) (pp_vertices s))).

Lemma ppoints_next_spec fuel : forall s,
  (length (pp_vertices s) < fuel)%nat ->
  exists r s', ppoints_next fuel s = Some (r, s') /\
    (length (pp_vertices s') <= length (pp_vertices s))%nat /\
    match r with
    | Some p => pp_den s = p :: pp_den s'
    | None => pp_den s = []
    end.
Proof.
  induction fuel as [|k IH]; intros s Hf; [lia|].
  destruct s as [vs tr seg]. cbn [pp_vertices] in Hf. cbn [ppoints_next pp_segment pp_vertices pp_translate].
  destruct seg as [|p seg'].
  - destruct vs as [|start rest].
    + eexists _, _. split; [reflexivity|]. split; [cbn [pp_vertices]; lia|]. reflexivity.
    + destruct rest as [|e r].
      * eexists _, _. split; [reflexivity|]. split; [cbn [pp_vertices]; lia|]. reflexivity.
      * cbn [length] in Hf.
        destruct (line_points_cons (L (padd start tr) (padd e tr))) as [t Ht].
        rewrite Ht. destruct k as [|k']; [lia|].
        cbn [ppoints_next pp_segment pp_vertices pp_translate].
        destruct (IH (PP (e :: r) tr t)) as (r0 & s' & Hn & Hl & Hd).
        { cbn [pp_vertices length]. lia. }
        exists r0, s'. split; [exact Hn|]. cbn [pp_vertices length] in Hl |- *. split; [lia|].
        assert (Hden : pp_den (PP (start :: e :: r) tr []) = pp_den (PP (e :: r) tr t)).
        { unfold pp_den. cbn [pp_segment pp_vertices pp_translate shift map segments flat_map app].
          unfold seg_tail at 1. rewrite Ht. cbn [List.tl]. reflexivity. }
        rewrite Hden. exact Hd.
  - eexists _, _. split; [reflexivity|]. cbn [pp_vertices]. split; [lia|].
    unfold pp_den. cbn [pp_segment pp_vertices pp_translate app]. reflexivity.
Qed.

(* fuel is never exhausted with the fuel the model passes *)
Lemma ppoints_next_fuel_ok s : ppoints_next (ppoints_next_fuel s) s <> None.
Proof.
  destruct (ppoints_next_spec (ppoints_next_fuel s) s) as (r & s' & H & _).
  { unfold ppoints_next_fuel. lia. }
  rewrite H. discriminate.
Qed.

Lemma ppoints_collect_spec n : forall s,
  (length (pp_den s) < n)%nat -> ppoints_collect n s = pp_den s.
Proof.
  induction n as [|n IH]; intros s Hn; [lia|].
  cbn [ppoints_collect].
  destruct (ppoints_next_spec (ppoints_next_fuel s) s) as (r & s' & H & _ & Hd).
  { unfold ppoints_next_fuel. lia. }
  rewrite H. destruct r as [p|].
  - rewrite Hd. f_equal. apply IH. rewrite Hd in Hn. cbn [length] in Hn. lia.
  - symmetry. exact Hd.
Qed.

Lemma pp_den_new pl : pp_den (ppoints_new pl) = polyline_points_ref pl.
Proof.
  destruct pl as [tr vs]. unfold ppoints_new, polyline_points_ref. cbn [pl_vertices pl_translate].
  destruct vs as [|a [|b r]]; try reflexivity.
Qed.

Lemma seg_tail_length l : (length (seg_tail l) <= Z.to_nat (major_length l))%nat.
Proof.
  unfold seg_tail. rewrite <- line_points_length. destruct (line_points l); cbn [List.tl length]; lia.
Qed.

Lemma ref_length_le pl : (length (polyline_points_ref pl) < polyline_fuel pl)%nat.
Proof.
  unfold polyline_points_ref, polyline_fuel. fold (shift (pl_translate pl) (pl_vertices pl)).
  destruct (segments (shift (pl_translate pl) (pl_vertices pl))) as [|s r]; cbn [length fold_right]; [lia|].
  rewrite app_length, line_points_length.
  assert (length (flat_map seg_tail r) <= fold_right (fun l acc => (Z.to_nat (major_length l) + acc)%nat) O r)%nat.
  { induction r as [|x r IH]; cbn [flat_map fold_right length]; [lia|].
    rewrite app_length. pose proof (seg_tail_length x). lia. }
  lia.
Qed.

(* polyline_points_spec (DESIGN C19) *)
Theorem polyline_points_spec pl : polyline_points pl = polyline_points_ref pl.
Proof.
  unfold polyline_points. rewrite ppoints_collect_spec; rewrite pp_den_new; [reflexivity|].
  apply ref_length_le.
Qed.

(* ---- consequences ------------------------------------------------------------------------ *)

(* fewer than two vertices: nothing *)
Lemma polyline_points_short tr vs : (length vs < 2)%nat -> polyline_points (PL tr vs) = [].
Proof.
  intros H. rewrite polyline_points_spec. unfold polyline_points_ref. cbn [pl_vertices pl_translate].
  destruct vs as [|a [|b r]]; cbn [length] in H; try lia; reflexivity.
Qed.

(* the translate field acts like moving every vertex *)
Lemma polyline_translate_field tr vs :
  polyline_points (PL tr vs) = polyline_points (PL (P 0 0) (shift tr vs)).
Proof.
  rewrite !polyline_points_spec. unfold polyline_points_ref. cbn [pl_vertices pl_translate].
  replace (shift (P 0 0) (shift tr vs)) with (shift tr vs); [reflexivity|].
  unfold shift. rewrite map_map. apply map_ext. intros [x y]. unfold padd. cbn [px py]. f_equal; lia.
Qed.

Lemma segments_cons2 a b r : segments (a :: b :: r) = L a b :: segments (b :: r).
Proof. reflexivity. Qed.

Lemma segments_shift d vs : segments (shift d vs) = map (fun l => translate_line l d) (segments vs).
Proof.
  induction vs as [|a t IH]; [reflexivity|].
  destruct t as [|b r]; [reflexivity|].
  rewrite segments_cons2. cbn [map].
  change (shift d (a :: b :: r)) with (padd a d :: padd b d :: shift d r).
  rewrite segments_cons2. f_equal. exact IH.
Qed.

Lemma shift_shift a b vs : shift (padd a b) vs = shift b (shift a vs).
Proof.
  unfold shift. rewrite map_map. apply map_ext. intros [x y]. unfold padd. cbn [px py]. f_equal; lia.
Qed.

(* translating a polyline translates its points *)
Theorem polyline_translate_points pl d :
  polyline_points (polyline_translate pl d) = map (fun p => padd p d) (polyline_points pl).
Proof.
  rewrite !polyline_points_spec. unfold polyline_points_ref, polyline_translate. cbn [pl_vertices pl_translate].
  rewrite shift_shift, segments_shift.
  destruct (segments (shift (pl_translate pl) (pl_vertices pl))) as [|s r]; cbn [map]; [reflexivity|].
  rewrite map_app, line_points_translate. f_equal.
  induction r as [|x r IH]; cbn [map flat_map]; [reflexivity|].
  rewrite map_app, IH. f_equal.
  unfold seg_tail. rewrite line_points_translate. destruct (line_points x); reflexivity.
Qed.
