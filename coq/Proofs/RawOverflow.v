(* C08 part "raw": every arithmetic site of the raw load/store code, the raw iterator, Framebuffer::set_pixel /
   buffer_size and ImageRaw::pixel / data_width / bytes_per_row stays inside its Rust type (usize = 64 bit,
   u32, u8) and every u8 shift amount is below 8, so a build with overflow checks cannot panic there.
   The site lists are written in source order, one boolean per operation. *)
From EG Require Import Base.Prelude Base.Lemmas Model.Rawdata Proofs.Rawdata Model.Framebuffer Proofs.Framebuffer.
From Coq Require Import ZifyBool.

Ltac Zify.zify_post_hook ::= Z.to_euclidean_division_equations.
Set Default Timeout 60.

Ltac cmp8 :=
  change (1 <? 8) with true in *; change (2 <? 8) with true in *; change (4 <? 8) with true in *;
  change (8 <? 8) with false in *; change (16 <? 8) with false in *; change (24 <? 8) with false in *;
  change (32 <? 8) with false in *;
  change (8 <=? 1) with false in *; change (8 <=? 2) with false in *; change (8 <=? 4) with false in *;
  change (8 <=? 8) with true in *; change (8 <=? 16) with true in *; change (8 <=? 24) with true in *;
  change (8 <=? 32) with true in *.

Section WithUsize.
Context {U : Usize}.

Definition fits_usize (x : Z) : bool := (0 <=? x) && (x <=? usize_max).
Definition fits_u32 (x : Z) : bool := (0 <=? x) && (x <=? u32_max).
Definition fits_u8 (x : Z) : bool := (0 <=? x) && (x <=? 255).
(* `u8 << k`, `u8 >> k` panic with overflow checks iff k >= 8 *)
Definition shift_ok (k : Z) : bool := (0 <=? k) && (k <? 8).
Definition nonzero (x : Z) : bool := negb (x =? 0).
Definition all_ok (l : list bool) : bool := forallb (fun b => b) l.

(* ---- core/src/pixelcolor/raw/load_store.rs ------------------------------------------------------------ *)
(* :11-22 bit_position *)
Definition bit_position_sites (t : rawty) (alt : order) (index : Z) : list bool :=
  let ppb := 8 / bits t in
  [ nonzero (bits t);                                   (* 8 / BITS_PER_PIXEL *)
    nonzero ppb;                                        (* index / pixels_per_byte, index % pixels_per_byte *)
    fits_usize (index / ppb);
    if alt then true else fits_usize ((ppb - 1) - index mod ppb);   (* usize subtraction *)
    fits_usize ((if alt then index mod ppb else (ppb - 1) - index mod ppb) * bits t) ].
(* :28-35 load: byte >> bit_index ;  :38-49 store: MASK << bit_index, into_inner() << bit_index *)
Definition load_store_bits_sites (t : rawty) (alt : order) (index : Z) : list bool :=
  bit_position_sites t alt index ++ [ shift_ok (snd (bit_position t alt index)) ].
(* RawU8: no arithmetic.  RawU16/24/32 (:70-181): index.checked_mul(N), slice::get / get_mut,
   try_into().unwrap() on a slice of exactly N bytes: no unchecked arithmetic site. *)

Lemma load_store_bits_total t alt index :
  sub_byte t -> 0 <= index <= usize_max -> all_ok (load_store_bits_sites t alt index) = true.
Proof.
  intros St Hi. pose proof usize_at_least_16 as U16.
  unfold all_ok, load_store_bits_sites, bit_position_sites, bit_position, fits_usize, shift_ok, nonzero in *.
  destruct St as [->|[->| ->]]; destruct alt; cbn [bits app forallb snd]; divs; lia.
Qed.

(* ---- src/iterator/raw.rs -------------------------------------------------------------------------------- *)
(* :91-95 next: self.index += 1 (only after a successful load) *)
Lemma iter_next_index_fits t alt s v :
  it_ok s -> load t alt (it_data s) (it_index s) = Some v -> fits_usize (it_index s + 1) = true.
Proof.
  intros [Hl Hi] E.
  assert (H : it_index s < pixels_total t (buf_len (it_data s))).
  { apply (load_some_iff t alt); auto. rewrite E. discriminate. }
  pose proof (total_bounds t (buf_len (it_data s)) (buf_len_nonneg _)). unfold len_ok, fits_usize in *. lia.
Qed.

(* :103-113 size_hint: len / (BPP / 8) or len * (8 / BPP) *)
Definition size_hint_sites (t : rawty) (len : Z) : list bool :=
  if 8 <=? bits t then [ nonzero (bits t / 8) ] else [ nonzero (bits t); fits_usize (len * (8 / bits t)) ].

Lemma size_hint_total t buf : len_ok buf -> all_ok (size_hint_sites t (buf_len buf)) = true.
Proof.
  intros Hl. pose proof (buf_len_nonneg buf). unfold len_ok, all_ok, size_hint_sites, fits_usize, nonzero in *.
  destruct t; cbn [bits];
    cmp8; cbv iota; cbn [forallb]; divs; lia.
Qed.

(* ---- src/framebuffer.rs ------------------------------------------------------------------------------------ *)
(* :32-34 buffer_size_bpp = (width * bpp + 7) / 8 * height *)
Definition buffer_size_sites (w h bpp : Z) : list bool :=
  [ fits_usize (w * bpp); fits_usize (w * bpp + 7); fits_usize ((w * bpp + 7) / 8 * h) ].

(* :155-175 / :212-221 / :257-270 set_pixel for a point inside, N = array length *)
Definition set_pixel_sites (c : fbcfg) (n : Z) (p : Z * Z) : list bool :=
  let '(x, y) := p in
  let t := fb_t c in
  match t with
  | U1 | U2 | U4 =>
      let ppb := 8 / bits t in
      let bits_per_row := fb_w c * bits t in
      let bytes_per_row := (bits_per_row + 7) / 8 in
      let byte_index := bytes_per_row * y + x / ppb in
      let bit_index := if fb_alt c then (x mod ppb) * bits t else 8 - (x mod ppb + 1) * bits t in
      [ nonzero (bits t); fits_usize bits_per_row; fits_usize (bits_per_row + 7);
        nonzero ppb; fits_usize (bytes_per_row * y); fits_usize byte_index;
        if fb_alt c then fits_usize ((x mod ppb) * bits t)
        else fits_usize (x mod ppb + 1) && fits_usize ((x mod ppb + 1) * bits t) && fits_usize (8 - (x mod ppb + 1) * bits t);
        fits_u8 (2 ^ bits t); fits_u8 (2 ^ bits t - 1);      (* 2u8.pow(bpp) - 1 *)
        shift_ok bit_index;                                   (* mask << bit_index, value << bit_index *)
        byte_index <? n ]                                     (* self.data[byte_index] *)
  | U8 => [ fits_usize (y * fb_w c); fits_usize (y * fb_w c + x); y * fb_w c + x <? n ]
  | _ =>
      let index := (y * fb_w c + x) * nbytes t in
      [ nonzero 8; fits_usize (y * fb_w c); fits_usize (y * fb_w c + x); fits_usize index;
        fits_usize (index + nbytes t); index + nbytes t <=? n ]       (* self.data[index..index + BYTES] *)
  end.

(* the hypothesis on WIDTH * bpp + 7 says that BUFFER_SIZE (the const buffer_size_bpp, same expression) could be
   evaluated at compile time; on a 64-bit usize it follows from WIDTH <= i32::MAX *)
Lemma set_pixel_total c data p :
  fb_ok c data -> fb_w c * bits (fb_t c) + 7 <= usize_max -> fb_inside c p ->
  all_ok (set_pixel_sites c (buf_len data) p) = true.
Proof.
  intros (Hw & Hh & Hb & Hl & Hn) Hc Hin. revert Hc.
  pose proof (pix_index_range c p (proj1 Hw) (proj1 Hh) Hin) as R.
  destruct Hin as [Hx Hy]. destruct p as [x y]. cbn [fst snd] in *.
  unfold len_ok in Hl. intros Hc. revert Hc R Hn.
  unfold pix_index, fb_data_width, fb_buffer_size, buffer_size_bpp, bytes_per_row, pixels_total, set_pixel_sites,
    all_ok, fits_usize, fits_u8, shift_ok, nonzero in *. cbn [fst snd]. pose proof usize_at_least_16 as U16.
  destruct c as [t alt w h]. cbn [fb_t fb_w fb_h fb_alt] in *. unfold i32_max in *.
  destruct t; cbn [bits nbytes];
    cmp8; cbv iota; divs; intros Hc R Hn.
  - set (r := (w * 1 + 7) / 8) in *. assert (0 <= r) by (unfold r; lia). assert (w <= r * 8) by (unfold r; lia).
    assert (0 <= r * y) by nia. assert (r * y + r <= r * h) by nia. clearbody r.
    destruct alt; cbn [forallb]; change (2 ^ 1) with 2; lia.
  - set (r := (w * 2 + 7) / 8) in *. assert (0 <= r) by (unfold r; lia). assert (w <= r * 4) by (unfold r; lia).
    assert (0 <= r * y) by nia. assert (r * y + r <= r * h) by nia. clearbody r.
    destruct alt; cbn [forallb]; change (2 ^ 2) with 4; lia.
  - set (r := (w * 4 + 7) / 8) in *. assert (0 <= r) by (unfold r; lia). assert (w <= r * 2) by (unfold r; lia).
    assert (0 <= r * y) by nia. assert (r * y + r <= r * h) by nia. clearbody r.
    destruct alt; cbn [forallb]; change (2 ^ 4) with 16; lia.
  - replace ((w * 8 + 7) / 8) with w in * by lia. rewrite Z.div_1_r in R. cbn [forallb]. assert (0 <= y * w) by nia. lia.
  - replace ((w * 16 + 7) / 8) with (w * 2) in * by lia. replace (w * 2 * h / 2) with (w * h) in R by nia.
    cbn [forallb]. nb. assert (0 <= y * w) by nia. lia.
  - replace ((w * 24 + 7) / 8) with (w * 3) in * by lia. replace (w * 3 * h / 3) with (w * h) in R by nia.
    cbn [forallb]. nb. assert (0 <= y * w) by nia. lia.
  - replace ((w * 32 + 7) / 8) with (w * 4) in * by lia. replace (w * 4 * h / 4) with (w * h) in R by nia.
    cbn [forallb]. nb. assert (0 <= y * w) by nia. lia.
Qed.

(* buffer_size: whenever the two products fit (any usize), and hence at display scale (up to 4096 x 4096 at 32 bpp)
   on every target whose usize has at least 32 bits *)
Lemma buffer_size_total_gen w h bpp :
  0 <= w -> 0 <= h -> 1 <= bpp <= 32 -> w * bpp + 7 <= usize_max -> (w * bpp + 7) / 8 * h <= usize_max ->
  all_ok (buffer_size_sites w h bpp) = true.
Proof.
  intros Hw Hh Hb H1 H2. unfold all_ok, buffer_size_sites, fits_usize. cbn [forallb].
  assert (0 <= w * bpp) by nia. assert (0 <= (w * bpp + 7) / 8) by lia. assert (0 <= (w * bpp + 7) / 8 * h) by nia. lia.
Qed.

Lemma buffer_size_total w h bpp :
  4294967295 <= usize_max -> 0 <= w <= 4096 -> 0 <= h <= 4096 -> 1 <= bpp <= 32 ->
  all_ok (buffer_size_sites w h bpp) = true.
Proof.
  intros Hu Hw Hh Hb. assert (0 <= w * bpp <= 4096 * 32) by nia.
  assert (0 <= (w * bpp + 7) / 8 <= 16385) by lia.
  apply buffer_size_total_gen; try lia. nia.
Qed.

(* ---- src/image/image_raw.rs (the part Framebuffer::pixel goes through) ------------------------------------------ *)
(* :197-199 bytes_per_row, :185-193 data_width (u32 product), :265-274 pixel (casts and the nth index) *)
Definition image_pixel_sites (im : image) (p : Z * Z) : list bool :=
  let '(x, y) := p in
  let t := img_t im in
  [ (img_w im <=? i32_max) && (img_h im <=? i32_max);                        (* size.width as i32, size.height as i32 *)
    fits_usize (img_w im * bits t + 7);                                       (* bytes_per_row *)
    if bits t <? 8 then nonzero (bits t) && fits_u32 (bytes_per_row (img_w im) (bits t))
                        && fits_u32 (bytes_per_row (img_w im) (bits t) * (8 / bits t)) else true;   (* data_width *)
    fits_usize (y * data_width im); fits_usize (x + y * data_width im) ].

Lemma image_pixel_total im p :
  0 <= img_w im <= i32_max -> 0 <= img_h im <= i32_max ->
  img_w im * bits (img_t im) + 7 <= usize_max -> img_h im * data_width im <= usize_max ->
  0 <= fst p < img_w im -> 0 <= snd p < img_h im ->
  all_ok (image_pixel_sites im p) = true.
Proof.
  intros Hw Hh Hu1 Hu2 Hx Hy. destruct p as [x y]. cbn [fst snd] in *. revert Hu1 Hu2.
  unfold all_ok, image_pixel_sites, data_width, bytes_per_row, fits_usize, fits_u32, nonzero, u32_max, i32_max in *.
  destruct im as [t alt d w h]. cbn [img_t img_w img_h] in *.
  destruct t; cbn [bits];
    cmp8; cbv iota; divs; cbn [forallb]; intros Hu1 Hu2.
  - set (r := (w * 1 + 7) / 8) in *. assert (0 <= r <= 268435456) by (unfold r; lia). assert (w <= r * 8) by (unfold r; lia). clearbody r.
    assert (0 <= y * (r * 8)) by nia. assert (y * (r * 8) + r * 8 <= h * (r * 8)) by nia. lia.
  - set (r := (w * 2 + 7) / 8) in *. assert (0 <= r <= 536870912) by (unfold r; lia). assert (w <= r * 4) by (unfold r; lia). clearbody r.
    assert (0 <= y * (r * 4)) by nia. assert (y * (r * 4) + r * 4 <= h * (r * 4)) by nia. lia.
  - set (r := (w * 4 + 7) / 8) in *. assert (0 <= r <= 1073741824) by (unfold r; lia). assert (w <= r * 2) by (unfold r; lia). clearbody r.
    assert (0 <= y * (r * 2)) by nia. assert (y * (r * 2) + r * 2 <= h * (r * 2)) by nia. lia.
  - assert (0 <= y * w) by nia. assert (y * w + w <= h * w) by nia. lia.
  - assert (0 <= y * w) by nia. assert (y * w + w <= h * w) by nia. lia.
  - assert (0 <= y * w) by nia. assert (y * w + w <= h * w) by nia. lia.
  - assert (0 <= y * w) by nia. assert (y * w + w <= h * w) by nia. lia.
Qed.

(* on a 64-bit (or wider) usize the two size conditions follow from WIDTH, HEIGHT <= i32::MAX *)
Lemma image_pixel_total64 im p :
  18446744073709551615 <= usize_max ->
  0 <= img_w im <= i32_max -> 0 <= img_h im <= i32_max ->
  0 <= fst p < img_w im -> 0 <= snd p < img_h im ->
  all_ok (image_pixel_sites im p) = true.
Proof.
  intros Hu Hw Hh Hx Hy. apply image_pixel_total; auto.
  - unfold i32_max in *. assert (1 <= bits (img_t im) <= 32) by (destruct (img_t im); cbv; split; congruence). nia.
  - unfold data_width, bytes_per_row, i32_max in *. destruct im as [t alt d w h]. cbn [img_t img_w img_h] in *.
    destruct t; cbn [bits]; cmp8; cbv iota; divs; nia.
Qed.

End WithUsize.
