(* Lemmas about Model/Rawdata.v (property C11): load/store round trip, frame, out-of-range behaviour,
   documented layouts, RawDataIterator = [load 0, load 1, ...], nth, size_hint. *)
From EG Require Import Base.Prelude Base.Lemmas Model.Rawdata.
From Coq Require Import ZifyBool.

Ltac Zify.zify_post_hook ::= Z.to_euclidean_division_equations.
Set Default Timeout 60.

Ltac nb := change (nbytes U16) with 2 in *; change (nbytes U24) with 3 in *; change (nbytes U32) with 4 in *;
           change (Z.to_nat 2) with 2%nat in *; change (Z.to_nat 3) with 3%nat in *; change (Z.to_nat 4) with 4%nat in *.

Ltac pows := change (256 ^ 0) with 1 in *; change (256 ^ 1) with 256 in *; change (256 ^ 2) with 65536 in *;
             change (256 ^ 3) with 16777216 in *.

Ltac divs := change (8 / 1) with 8 in *; change (8 / 2) with 4 in *; change (8 / 4) with 2 in *; change (8 / 8) with 1 in *;
             change (16 / 8) with 2 in *; change (24 / 8) with 3 in *; change (32 / 8) with 4 in *.

Section WithUsize.
Context {U : Usize}.

(* ---- ranges of validity ----------------------------------------------------------------------- *)
(* every byte of a buffer is an u8 *)
Definition bytes_ok (buf : list Z) : Prop := Forall (fun b => 0 <= b < 256) buf.
(* a raw value as `new` / `from_u32` produce it *)
Definition raw_ok (t : rawty) (v : Z) : Prop := 0 <= v < 2 ^ bits t.
(* an index for which `index * bytes_per_pixel` stays inside usize: there the unbounded model and
   the machine agree (always true for <= 8 bpp, where nbytes t <= 1 and i is an usize) *)
Definition idx_ok (t : rawty) (i : Z) : Prop := 0 <= i /\ i * nbytes t <= usize_max.

Definition sub_byte (t : rawty) : Prop := t = U1 \/ t = U2 \/ t = U4.
Definition multi_byte (t : rawty) : Prop := t = U16 \/ t = U24 \/ t = U32.

Lemma rawty_cases t : sub_byte t \/ t = U8 \/ multi_byte t.
Proof. unfold sub_byte, multi_byte. destruct t; tauto. Qed.

(* ---- list lemmas -------------------------------------------------------------------------------- *)
Lemma nth_error_ext' {A} (l l' : list A) : (forall n, nth_error l n = nth_error l' n) -> l = l'.
Proof.
  revert l'; induction l as [|x l IH]; intros [|y l'] H; auto.
  - specialize (H O); discriminate.
  - specialize (H O); discriminate.
  - f_equal. { specialize (H O). cbn in H. congruence. }
    apply IH. intros n. apply (H (Datatypes.S n)).
Qed.

Lemma length_upd l n v : length (upd l n v) = length l.
Proof. revert n; induction l as [|x l IH]; intros [|n]; cbn [upd length]; auto. Qed.

Lemma nth_error_upd_eq l n v : (n < length l)%nat -> nth_error (upd l n v) n = Some v.
Proof.
  revert n; induction l as [|x l IH]; intros [|n] H; cbn [upd length nth_error] in *; try lia; auto.
  apply IH; lia.
Qed.

Lemma nth_error_upd_neq l n m v : m <> n -> nth_error (upd l n v) m = nth_error l m.
Proof.
  revert n m; induction l as [|x l IH]; intros [|n] [|m] H; cbn [upd nth_error]; auto; try congruence.
Qed.

Lemma nth_error_firstn' {A} (l : list A) n k :
  nth_error (firstn n l) k = if (k <? n)%nat then nth_error l k else None.
Proof.
  revert n k; induction l as [|x l IH]; intros [|n] [|k]; cbn [firstn nth_error]; auto.
  - destruct (_ <? _)%nat; reflexivity.
  - rewrite IH. reflexivity.
Qed.

Lemma nth_error_skipn' {A} (l : list A) n k : nth_error (skipn n l) k = nth_error l (n + k).
Proof.
  revert n; induction l as [|x l IH]; intros [|n]; cbn [skipn nth_error Nat.add]; auto.
  destruct k; reflexivity.
Qed.

Lemma nth_error_None_ge {A} (l : list A) n : (length l <= n)%nat -> nth_error l n = None.
Proof. apply nth_error_None. Qed.

Lemma nth_error_nth' {A} (l : list A) n d x : nth_error l n = Some x -> nth n l d = x.
Proof. revert n; induction l; intros [|n]; cbn; intros; try discriminate; try congruence; auto. Qed.

Lemma nth_error_nth_lt {A} (l : list A) n d : (n < length l)%nat -> nth_error l n = Some (nth n l d).
Proof. revert n; induction l; intros [|n]; cbn [length nth nth_error]; intros; try lia; auto. apply IHl. lia. Qed.

Lemma bytes_ok_nth_error buf n b : bytes_ok buf -> nth_error buf n = Some b -> 0 <= b < 256.
Proof. intros H E. apply nth_error_In in E. unfold bytes_ok in H. rewrite Forall_forall in H. auto. Qed.

Lemma bytes_ok_nth buf n : bytes_ok buf -> 0 <= nth n buf 0 < 256.
Proof.
  intros H. destruct (Nat.lt_ge_cases n (length buf)) as [L|L].
  - eapply bytes_ok_nth_error; eauto. apply nth_error_nth_lt; auto.
  - rewrite nth_overflow by lia. lia.
Qed.

Lemma bytes_ok_upd buf n v : bytes_ok buf -> 0 <= v < 256 -> bytes_ok (upd buf n v).
Proof.
  unfold bytes_ok. intros H Hv. revert n; induction H; intros [|n]; cbn [upd]; constructor; auto.
Qed.

(* get / buf_len *)
Lemma get_Some buf i b : 0 <= i -> get buf i = Some b -> i < buf_len buf /\ nth_error buf (Z.to_nat i) = Some b.
Proof. unfold get. intros Hi. destruct (i <? buf_len buf) eqn:E; [|discriminate]. intros; split; [lia|auto]. Qed.

Lemma get_None_iff buf i : 0 <= i -> (get buf i = None <-> buf_len buf <= i).
Proof.
  unfold get, buf_len. intros Hi. destruct (i <? _) eqn:E; split; intros H; try lia; auto.
  apply nth_error_None in H. lia.
Qed.

Lemma get_lt buf i : 0 <= i < buf_len buf -> get buf i = Some (nth (Z.to_nat i) buf 0).
Proof.
  unfold get, buf_len. intros H. replace (i <? _) with true by lia. apply nth_error_nth_lt. lia.
Qed.

Lemma buf_len_upd buf n v : buf_len (upd buf n v) = buf_len buf.
Proof. unfold buf_len. rewrite length_upd. reflexivity. Qed.

Lemma get_upd_eq buf i v : 0 <= i < buf_len buf -> get (upd buf (Z.to_nat i) v) i = Some v.
Proof.
  intros H. unfold get. rewrite buf_len_upd. replace (i <? _) with true by lia.
  apply nth_error_upd_eq. unfold buf_len in H. lia.
Qed.

Lemma get_upd_neq buf i j v : 0 <= i -> 0 <= j -> i <> j -> get (upd buf (Z.to_nat i) v) j = get buf j.
Proof.
  intros Hi Hj N. unfold get. rewrite buf_len_upd. destruct (j <? _); auto.
  apply nth_error_upd_neq. lia.
Qed.

(* splice *)
Lemma length_splice buf s bytes :
  (s + length bytes <= length buf)%nat -> length (splice buf (Z.of_nat s) bytes) = length buf.
Proof.
  intros H. unfold splice. rewrite Nat2Z.id, !app_length, firstn_length, skipn_length. lia.
Qed.

Lemma nth_error_splice buf s bytes k :
  (s + length bytes <= length buf)%nat ->
  nth_error (splice buf (Z.of_nat s) bytes) k =
  if (k <? s)%nat then nth_error buf k
  else if (k <? s + length bytes)%nat then nth_error bytes (k - s) else nth_error buf k.
Proof.
  intros H. unfold splice. rewrite Nat2Z.id.
  destruct (k <? s)%nat eqn:E1.
  - rewrite nth_error_app1 by (rewrite firstn_length; lia).
    rewrite nth_error_firstn'. rewrite E1. reflexivity.
  - rewrite nth_error_app2 by (rewrite firstn_length; lia).
    rewrite firstn_length. replace (Nat.min s (length buf)) with s by lia.
    destruct (k <? s + length bytes)%nat eqn:E2.
    + rewrite nth_error_app1 by lia. reflexivity.
    + rewrite nth_error_app2 by lia. rewrite nth_error_skipn'. f_equal. lia.
Qed.

(* ---- masks and truncations ---------------------------------------------------------------------- *)
Lemma mask_val t : mask t = 2 ^ bits t - 1.
Proof. destruct t; reflexivity. Qed.

Lemma raw_new_mod t v : raw_new t v = v mod 2 ^ bits t.
Proof.
  unfold raw_new. rewrite mask_val.
  replace (2 ^ bits t - 1) with (Z.ones (bits t)) by (destruct t; reflexivity).
  apply Z.land_ones. destruct t; cbn; lia.
Qed.

Lemma raw_new_id t v : raw_ok t v -> raw_new t v = v.
Proof. unfold raw_ok. intros H. rewrite raw_new_mod. apply Z.mod_small. lia. Qed.

Lemma raw_new_ok t v : raw_ok t (raw_new t v).
Proof. unfold raw_ok. rewrite raw_new_mod. apply Z.mod_pos_bound. destruct t; cbn; lia. Qed.

(* ---- single-byte facts, decided over the whole finite domain ------------------------------------
   3 widths x 2 orders x pixel positions in the byte x 256 bytes x all values. *)
Definition ppb (t : rawty) : Z := 8 / bits t.
Definition bit_index (t : rawty) (alt : order) (i : Z) : Z := snd (bit_position t alt i).

Definition byte_check (t : rawty) (alt : order) (pos byte v : Z) : bool :=
  let k := bit_index t alt pos in
  let nb := store_byte t k v byte in
  (0 <=? nb) && (nb <? 256)
  (* reading back gives v *)
  && (raw_new t (Z.shiftr nb k) =? v)
  (* arithmetic reading of the masked write: the field [k, k + bits) is replaced by v *)
  && (nb =? byte - ((byte / 2 ^ k) mod 2 ^ bits t) * 2 ^ k + v * 2 ^ k)
  (* the other pixels of the byte read the same *)
  && forallb (fun pos' => (pos' =? pos) ||
        (raw_new t (Z.shiftr nb (bit_index t alt pos')) =? raw_new t (Z.shiftr byte (bit_index t alt pos'))))
       (range 0 (ppb t))
  (* every bit outside the field is unchanged *)
  && forallb (fun q => ((k <=? q) && (q <? k + bits t)) || Bool.eqb (Z.testbit nb q) (Z.testbit byte q)) (range 0 8).

Definition load_check (t : rawty) (alt : order) (pos byte : Z) : bool :=
  let k := bit_index t alt pos in
  (raw_new t (Z.shiftr byte k) =? (byte / 2 ^ k) mod 2 ^ bits t)
  && (k =? if alt then pos * bits t else 8 - (pos + 1) * bits t)
  && (0 <=? k) && (k + bits t <=? 8).

Definition cell_check (t : rawty) (alt : order) (pos byte : Z) : bool :=
  load_check t alt pos byte && forallb (fun v => byte_check t alt pos byte v) (range 0 (2 ^ bits t)).
Definition pos_check t alt pos := forallb (cell_check t alt pos) (range 0 256).
Definition order_check t alt := forallb (pos_check t alt) (range 0 (ppb t)).
Definition ty_check t := forallb (order_check t) [false; true].

Lemma all_byte_checks_true : forallb ty_check [U1; U2; U4] = true.
Proof. vm_compute. reflexivity. Qed.

(* ---- unpacking the decided table ------------------------------------------------------------------ *)
Lemma sub_byte_cases t : sub_byte t -> t = U1 \/ t = U2 \/ t = U4.
Proof. auto. Qed.

Lemma ppb_bits t : sub_byte t -> 0 < ppb t /\ ppb t * bits t = 8 /\ 0 < bits t.
Proof. intros [->|[->| ->]]; cbv; repeat split; congruence. Qed.

Lemma forallb_In {A} (f : A -> bool) l x : forallb f l = true -> In x l -> f x = true.
Proof. intros H. rewrite forallb_forall in H. auto. Qed.

Lemma byte_facts t alt pos byte v :
  sub_byte t -> 0 <= pos < ppb t -> 0 <= byte < 256 -> raw_ok t v ->
  load_check t alt pos byte = true /\ byte_check t alt pos byte v = true.
Proof.
  intros St Hp Hb Hv.
  assert (I1 : In t [U1; U2; U4]) by (destruct St as [->|[->| ->]]; cbn [In]; tauto).
  assert (I2 : In alt [false; true]) by (destruct alt; cbn [In]; tauto).
  pose proof (forallb_In _ _ t all_byte_checks_true I1) as A.
  pose proof (forallb_In _ _ alt A I2) as B.
  pose proof (forallb_In _ _ pos B (proj2 (In_range _ _ _) Hp)) as C.
  pose proof (forallb_In _ _ byte C (proj2 (In_range _ _ _) Hb)) as D.
  unfold cell_check in D.
  apply andb_true_iff in D. destruct D as [D1 D2]. split; [exact D1|].
  exact (forallb_In _ _ v D2 (proj2 (In_range _ _ _) Hv)).
Qed.

Lemma sb_load t alt pos byte :
  sub_byte t -> 0 <= pos < ppb t -> 0 <= byte < 256 ->
  let k := bit_index t alt pos in
  raw_new t (Z.shiftr byte k) = (byte / 2 ^ k) mod 2 ^ bits t /\
  k = (if alt then pos * bits t else 8 - (pos + 1) * bits t) /\ 0 <= k /\ k + bits t <= 8.
Proof.
  intros St Hp Hb k.
  assert (Hv : raw_ok t 0) by (unfold raw_ok; destruct t; cbv; split; congruence).
  destruct (byte_facts t alt pos byte 0 St Hp Hb Hv) as [L _].
  unfold load_check in L. fold k in L.
  repeat (apply andb_true_iff in L; destruct L as [L ?]).
  repeat split; lia.
Qed.

Lemma sb_store t alt pos byte v :
  sub_byte t -> 0 <= pos < ppb t -> 0 <= byte < 256 -> raw_ok t v ->
  let k := bit_index t alt pos in
  let nb := store_byte t k v byte in
  0 <= nb < 256 /\
  raw_new t (Z.shiftr nb k) = v /\
  nb = byte - ((byte / 2 ^ k) mod 2 ^ bits t) * 2 ^ k + v * 2 ^ k /\
  (forall pos', 0 <= pos' < ppb t -> pos' <> pos ->
     raw_new t (Z.shiftr nb (bit_index t alt pos')) = raw_new t (Z.shiftr byte (bit_index t alt pos'))) /\
  (forall q, 0 <= q < 8 -> ~ (k <= q < k + bits t) -> Z.testbit nb q = Z.testbit byte q).
Proof.
  intros St Hp Hb Hv k nb.
  destruct (byte_facts t alt pos byte v St Hp Hb Hv) as [_ S].
  unfold byte_check in S. fold k in S. fold nb in S.
  apply andb_true_iff in S; destruct S as [S S5].
  apply andb_true_iff in S; destruct S as [S S4].
  apply andb_true_iff in S; destruct S as [S S3].
  apply andb_true_iff in S; destruct S as [S S2].
  apply andb_true_iff in S; destruct S as [S0 S1].
  rewrite forallb_forall in S4, S5.
  split; [lia|]. split; [lia|]. split; [lia|]. split.
  - intros pos' Hp' N. specialize (S4 pos' (proj2 (In_range _ _ _) Hp')).
    apply orb_true_iff in S4. destruct S4 as [S4|S4]; lia.
  - intros q Hq N. specialize (S5 q (proj2 (In_range _ _ _) Hq)).
    apply orb_true_iff in S5. destruct S5 as [S5|S5]; [lia|]. apply Bool.eqb_prop in S5. exact S5.
Qed.

(* ---- sub-byte pixels in a buffer -------------------------------------------------------------------- *)
Definition byte_at (buf : list Z) (k : Z) : Z := nth (Z.to_nat k) buf 0.

Lemma bit_position_eq t alt i :
  sub_byte t -> bit_position t alt i = (i / ppb t, bit_index t alt (i mod ppb t)).
Proof.
  intros St. destruct (ppb_bits t St) as [P _].
  unfold bit_index, bit_position. cbn [snd]. fold (ppb t). rewrite Z.mod_mod by lia. reflexivity.
Qed.

Lemma sub_total t len i : sub_byte t -> 0 <= i -> 0 <= len ->
  (i < pixels_total t len <-> i / ppb t < len) /\ 0 <= i mod ppb t < ppb t /\ 0 <= i / ppb t.
Proof.
  intros St Hi Hl. unfold pixels_total, ppb.
  destruct St as [->|[->| ->]]; cbn; lia.
Qed.

Lemma buf_len_nonneg buf : 0 <= buf_len buf.
Proof. unfold buf_len. lia. Qed.

Lemma byte_at_ok buf k : bytes_ok buf -> 0 <= byte_at buf k < 256.
Proof. intros. apply bytes_ok_nth. auto. Qed.

Lemma load_sub_in t alt buf i :
  sub_byte t -> 0 <= i < pixels_total t (buf_len buf) ->
  load t alt buf i = Some (raw_new t (Z.shiftr (byte_at buf (i / ppb t)) (bit_index t alt (i mod ppb t)))).
Proof.
  intros St Hi.
  destruct (sub_total t (buf_len buf) i St (proj1 Hi) (buf_len_nonneg buf)) as (T & M & D).
  assert (E : load t alt buf i = load_bits t alt buf i) by (destruct St as [->|[->| ->]]; reflexivity).
  rewrite E. unfold load_bits. rewrite bit_position_eq by auto.
  rewrite get_lt by lia. reflexivity.
Qed.

Lemma load_sub_oob t alt buf i :
  sub_byte t -> 0 <= i -> pixels_total t (buf_len buf) <= i -> load t alt buf i = None.
Proof.
  intros St Hi Ho.
  destruct (sub_total t (buf_len buf) i St Hi (buf_len_nonneg buf)) as (T & M & D).
  assert (E : load t alt buf i = load_bits t alt buf i) by (destruct St as [->|[->| ->]]; reflexivity).
  rewrite E. unfold load_bits. rewrite bit_position_eq by auto.
  replace (get buf (i / ppb t)) with (@None Z); [reflexivity|].
  symmetry. apply get_None_iff; lia.
Qed.

Lemma store_sub_in t alt v buf i :
  sub_byte t -> 0 <= i < pixels_total t (buf_len buf) ->
  store t alt v buf i =
  (upd buf (Z.to_nat (i / ppb t))
       (store_byte t (bit_index t alt (i mod ppb t)) v (byte_at buf (i / ppb t))), true).
Proof.
  intros St Hi.
  destruct (sub_total t (buf_len buf) i St (proj1 Hi) (buf_len_nonneg buf)) as (T & M & D).
  assert (E : store t alt v buf i = store_bits t alt v buf i) by (destruct St as [->|[->| ->]]; reflexivity).
  rewrite E. unfold store_bits. rewrite bit_position_eq by auto.
  rewrite get_lt by lia. reflexivity.
Qed.

Lemma store_sub_oob t alt v buf i :
  sub_byte t -> 0 <= i -> pixels_total t (buf_len buf) <= i -> store t alt v buf i = (buf, false).
Proof.
  intros St Hi Ho.
  destruct (sub_total t (buf_len buf) i St Hi (buf_len_nonneg buf)) as (T & M & D).
  assert (E : store t alt v buf i = store_bits t alt v buf i) by (destruct St as [->|[->| ->]]; reflexivity).
  rewrite E. unfold store_bits. rewrite bit_position_eq by auto.
  replace (get buf (i / ppb t)) with (@None Z); [reflexivity|].
  symmetry. apply get_None_iff; lia.
Qed.

(* ---- byte_at on updated buffers ---------------------------------------------------------------------- *)
Lemma nth_via_error {A} (l : list A) n d : nth n l d = match nth_error l n with Some x => x | None => d end.
Proof. revert n; induction l; intros [|n]; cbn [nth nth_error]; auto. Qed.

Lemma byte_at_upd_eq buf k x : 0 <= k < buf_len buf -> byte_at (upd buf (Z.to_nat k) x) k = x.
Proof.
  intros H. unfold byte_at. rewrite nth_via_error, nth_error_upd_eq; auto. unfold buf_len in H. lia.
Qed.

Lemma byte_at_upd_neq buf k j x : 0 <= k -> 0 <= j -> k <> j -> byte_at (upd buf (Z.to_nat k) x) j = byte_at buf j.
Proof.
  intros Hk Hj N. unfold byte_at. rewrite !nth_via_error, nth_error_upd_neq; auto. lia.
Qed.

Lemma byte_at_oob buf k : buf_len buf <= k -> byte_at buf k = 0.
Proof. intros H. unfold byte_at. apply nth_overflow. unfold buf_len in H. lia. Qed.

(* ---- sub-byte: round trip, frame ----------------------------------------------------------------------- *)
Lemma sub_load_store t alt v buf i :
  sub_byte t -> bytes_ok buf -> raw_ok t v -> 0 <= i < pixels_total t (buf_len buf) ->
  exists buf', store t alt v buf i = (buf', true) /\ load t alt buf' i = Some v /\
               buf_len buf' = buf_len buf /\ bytes_ok buf'.
Proof.
  intros St Hb Hv Hi.
  destruct (sub_total t (buf_len buf) i St (proj1 Hi) (buf_len_nonneg buf)) as (T & M & D).
  rewrite store_sub_in by auto. eexists; split; [reflexivity|].
  pose proof (sb_store t alt (i mod ppb t) (byte_at buf (i / ppb t)) v St M (byte_at_ok _ _ Hb) Hv) as S.
  cbv zeta in S. destruct S as (S0 & S1 & _).
  split; [|split].
  - rewrite load_sub_in by (auto; rewrite buf_len_upd; auto).
    rewrite byte_at_upd_eq by lia. rewrite S1. reflexivity.
  - apply buf_len_upd.
  - apply bytes_ok_upd; auto.
Qed.

Lemma sub_store_frame t alt v buf i j :
  sub_byte t -> bytes_ok buf -> raw_ok t v -> 0 <= i < pixels_total t (buf_len buf) -> 0 <= j -> j <> i ->
  load t alt (fst (store t alt v buf i)) j = load t alt buf j.
Proof.
  intros St Hb Hv Hi Hj N.
  destruct (sub_total t (buf_len buf) i St (proj1 Hi) (buf_len_nonneg buf)) as (T & M & D).
  destruct (sub_total t (buf_len buf) j St Hj (buf_len_nonneg buf)) as (T' & M' & D').
  rewrite store_sub_in by auto. cbn [fst].
  destruct (Z_lt_ge_dec j (pixels_total t (buf_len buf))) as [L|L].
  - rewrite !load_sub_in by (auto; rewrite ?buf_len_upd; auto).
    destruct (Z.eq_dec (j / ppb t) (i / ppb t)) as [E|E].
    + rewrite E. rewrite byte_at_upd_eq by lia.
      pose proof (sb_store t alt (i mod ppb t) (byte_at buf (i / ppb t)) v St M (byte_at_ok _ _ Hb) Hv) as S.
      cbv zeta in S. destruct S as (_ & _ & _ & S3 & _).
      rewrite S3; auto. intros E2. apply N.
      rewrite (Z.div_mod j (ppb t)), (Z.div_mod i (ppb t)) by lia. congruence.
    + rewrite byte_at_upd_neq by lia. reflexivity.
  - rewrite !load_sub_oob; auto; rewrite ?buf_len_upd; lia.
Qed.

(* ---- 8 bits per pixel ------------------------------------------------------------------------------------- *)
Lemma raw_new_byte b : 0 <= b < 256 -> raw_new U8 b = b.
Proof. intros. apply raw_new_id. unfold raw_ok. cbn. lia. Qed.

Lemma u8_total len : pixels_total U8 len = len.
Proof. unfold pixels_total. cbn. lia. Qed.

Lemma load_u8_in alt buf i : 0 <= i < buf_len buf -> load U8 alt buf i = Some (raw_new U8 (byte_at buf i)).
Proof. intros H. cbn [load]. unfold load_u8. rewrite get_lt by auto. reflexivity. Qed.

Lemma load_u8_oob alt buf i : 0 <= i -> buf_len buf <= i -> load U8 alt buf i = None.
Proof.
  intros H H'. cbn [load]. unfold load_u8. replace (get buf i) with (@None Z); auto.
  symmetry; apply get_None_iff; auto.
Qed.

Lemma store_u8_in alt v buf i : 0 <= i < buf_len buf -> store U8 alt v buf i = (upd buf (Z.to_nat i) v, true).
Proof. intros H. cbn [store]. unfold store_u8. rewrite get_lt by auto. reflexivity. Qed.

Lemma store_u8_oob alt v buf i : 0 <= i -> buf_len buf <= i -> store U8 alt v buf i = (buf, false).
Proof.
  intros H H'. cbn [store]. unfold store_u8. replace (get buf i) with (@None Z); auto.
  symmetry; apply get_None_iff; auto.
Qed.

Lemma u8_load_store alt v buf i :
  bytes_ok buf -> raw_ok U8 v -> 0 <= i < pixels_total U8 (buf_len buf) ->
  exists buf', store U8 alt v buf i = (buf', true) /\ load U8 alt buf' i = Some v /\
               buf_len buf' = buf_len buf /\ bytes_ok buf'.
Proof.
  intros Hb Hv Hi. rewrite u8_total in Hi. rewrite store_u8_in by auto.
  eexists; split; [reflexivity|]. split; [|split].
  - rewrite load_u8_in by (rewrite buf_len_upd; auto). rewrite byte_at_upd_eq by auto.
    rewrite raw_new_id; auto.
  - apply buf_len_upd.
  - apply bytes_ok_upd; auto.
Qed.

Lemma u8_store_frame alt v buf i j :
  0 <= i < pixels_total U8 (buf_len buf) -> 0 <= j -> j <> i ->
  load U8 alt (fst (store U8 alt v buf i)) j = load U8 alt buf j.
Proof.
  intros Hi Hj N. rewrite u8_total in Hi. rewrite store_u8_in by auto. cbn [fst].
  destruct (Z_lt_ge_dec j (buf_len buf)).
  - rewrite !load_u8_in by (rewrite ?buf_len_upd; lia). rewrite byte_at_upd_neq by lia. reflexivity.
  - rewrite !load_u8_oob; rewrite ?buf_len_upd; auto; lia.
Qed.

(* ---- multi-byte pixels ------------------------------------------------------------------------------------ *)
Definition len_ok (buf : list Z) : Prop := 8 * buf_len buf <= usize_max.

Lemma firstn_skipn_map (buf : list Z) s n :
  (s + n <= length buf)%nat -> firstn n (skipn s buf) = map (fun k => nth (s + k) buf 0) (seq 0 n).
Proof.
  revert s. induction n as [|n IH]; intros s H; [reflexivity|].
  cbn [seq map]. rewrite <- seq_shift, map_map.
  assert (E : skipn s buf = nth s buf 0 :: skipn (Datatypes.S s) buf).
  { clear IH. revert s H. induction buf as [|x buf IHb]; intros [|s] H; cbn [length] in H; try lia.
    - reflexivity.
    - cbn [skipn nth]. apply IHb. lia. }
  rewrite E. cbn [firstn]. rewrite Nat.add_0_r. f_equal.
  rewrite IH by lia. apply map_ext. intros k. f_equal. lia.
Qed.

Lemma multi_nbytes t : multi_byte t -> 2 <= nbytes t <= 4 /\ bits t = 8 * nbytes t.
Proof. intros [->|[->| ->]]; cbv; repeat split; congruence. Qed.

Lemma multi_total t len i : multi_byte t -> 0 <= i -> 0 <= len ->
  (i < pixels_total t len <-> (i + 1) * nbytes t <= len).
Proof. intros [->|[->| ->]] Hi Hl; unfold pixels_total, nbytes; cbn; lia. Qed.

Definition pixel_bytes (t : rawty) (buf : list Z) (i : Z) : list Z :=
  map (fun k => byte_at buf (i * nbytes t + k)) (range 0 (nbytes t)).

Lemma range_from_seq a n : range_from a n = map (fun k => a + Z.of_nat k) (seq 0 n).
Proof.
  revert a; induction n; intros a; [reflexivity|]. cbn [range_from seq map]. f_equal. { lia. }
  rewrite IHn, <- seq_shift, map_map. apply map_ext. intros; lia.
Qed.

Lemma gpb_in t buf i :
  multi_byte t -> 0 <= i -> (i + 1) * nbytes t <= buf_len buf -> buf_len buf <= usize_max ->
  get_pixel_bytes t buf i = Some (pixel_bytes t buf i).
Proof.
  intros Mt Hi Hr Hl. destruct (multi_nbytes t Mt) as [Hn _].
  unfold get_pixel_bytes, checked_mul_usize.
  replace (i * nbytes t <=? usize_max) with true by nia.
  unfold get_from. replace (i * nbytes t <=? buf_len buf) with true by nia.
  unfold get_prefix. unfold buf_len in *. rewrite skipn_length.
  replace (nbytes t <=? _) with true by nia.
  rewrite firstn_skipn_map by nia. unfold pixel_bytes, range. rewrite range_from_seq, map_map.
  f_equal. replace (Z.to_nat (nbytes t - 0)) with (Z.to_nat (nbytes t)) by (f_equal; lia).
  apply map_ext. intros k. unfold byte_at. f_equal. nia.
Qed.

Lemma gpb_oob t buf i :
  multi_byte t -> 0 <= i -> buf_len buf < (i + 1) * nbytes t -> get_pixel_bytes t buf i = None.
Proof.
  intros Mt Hi Hr. destruct (multi_nbytes t Mt) as [Hn _].
  unfold get_pixel_bytes, checked_mul_usize.
  destruct (i * nbytes t <=? usize_max); [|reflexivity].
  unfold get_from. destruct (i * nbytes t <=? buf_len buf) eqn:E; [|reflexivity].
  unfold get_prefix. unfold buf_len in *. rewrite skipn_length.
  replace (nbytes t <=? _) with false by nia. reflexivity.
Qed.

Lemma load_multi_eq t alt buf i : multi_byte t -> load t alt buf i = load_bytes t alt buf i.
Proof. intros [->|[->| ->]]; reflexivity. Qed.
Lemma store_multi_eq t alt v buf i : multi_byte t -> store t alt v buf i = store_bytes t alt v buf i.
Proof. intros [->|[->| ->]]; reflexivity. Qed.

Lemma load_multi_in t alt buf i :
  multi_byte t -> buf_len buf <= usize_max -> 0 <= i < pixels_total t (buf_len buf) ->
  load t alt buf i = Some (decode_bytes t alt (pixel_bytes t buf i)).
Proof.
  intros Mt Hl Hi. rewrite load_multi_eq by auto. unfold load_bytes.
  rewrite gpb_in; auto; try lia. apply multi_total; auto; try lia. apply buf_len_nonneg.
Qed.

Lemma load_multi_oob t alt buf i :
  multi_byte t -> 0 <= i -> pixels_total t (buf_len buf) <= i -> load t alt buf i = None.
Proof.
  intros Mt Hi Ho. rewrite load_multi_eq by auto. unfold load_bytes.
  rewrite gpb_oob; auto. pose proof (multi_total t (buf_len buf) i Mt Hi (buf_len_nonneg buf)). lia.
Qed.

Lemma store_multi_in t alt v buf i :
  multi_byte t -> buf_len buf <= usize_max -> 0 <= i < pixels_total t (buf_len buf) ->
  store t alt v buf i = (splice buf (i * nbytes t) (encode_bytes t alt v), true).
Proof.
  intros Mt Hl Hi. rewrite store_multi_eq by auto. unfold store_bytes.
  rewrite gpb_in; auto; try lia. apply multi_total; auto; try lia. apply buf_len_nonneg.
Qed.

Lemma store_multi_oob t alt v buf i :
  multi_byte t -> 0 <= i -> pixels_total t (buf_len buf) <= i -> store t alt v buf i = (buf, false).
Proof.
  intros Mt Hi Ho. rewrite store_multi_eq by auto. unfold store_bytes.
  rewrite gpb_oob; auto. pose proof (multi_total t (buf_len buf) i Mt Hi (buf_len_nonneg buf)). lia.
Qed.

(* encode / decode *)
Lemma length_to_le n v : length (to_le n v) = n.
Proof. revert v; induction n; intros; cbn [to_le length]; auto. Qed.

Lemma length_encode t alt v : multi_byte t -> Z.of_nat (length (encode_bytes t alt v)) = nbytes t.
Proof. intros [->|[->| ->]]; destruct alt; reflexivity. Qed.

Lemma to_le_ok n v : bytes_ok (to_le n v).
Proof.
  unfold bytes_ok. revert v; induction n; intros; cbn [to_le]; constructor; auto.
  apply Z.mod_pos_bound. lia.
Qed.


Lemma bytes_ok_encode t alt v : multi_byte t -> bytes_ok (encode_bytes t alt v).
Proof.
  intros Mt. unfold bytes_ok.
  destruct Mt as [->|[->| ->]]; destruct alt; unfold encode_bytes, to_be; nb;
    cbn [to_le rev app skipn firstn]; repeat constructor; try (apply Z.mod_pos_bound; lia).
Qed.

Lemma buf_len_splice buf s bytes :
  0 <= s -> s + Z.of_nat (length bytes) <= buf_len buf -> buf_len (splice buf s bytes) = buf_len buf.
Proof.
  intros Hs H. unfold buf_len in *. f_equal.
  replace s with (Z.of_nat (Z.to_nat s)) by lia. apply length_splice. lia.
Qed.

Lemma byte_at_splice buf s bytes k :
  0 <= s -> 0 <= k -> s + Z.of_nat (length bytes) <= buf_len buf ->
  byte_at (splice buf s bytes) k =
  if k <? s then byte_at buf k
  else if k <? s + Z.of_nat (length bytes) then nth (Z.to_nat (k - s)) bytes 0 else byte_at buf k.
Proof.
  intros Hs Hk H. unfold byte_at. rewrite !nth_via_error.
  replace (splice buf s bytes) with (splice buf (Z.of_nat (Z.to_nat s)) bytes) by (rewrite Z2Nat.id; auto).
  unfold buf_len in H. rewrite nth_error_splice by lia.
  destruct (k <? s) eqn:E1.
  - replace (Z.to_nat k <? Z.to_nat s)%nat with true by lia. reflexivity.
  - replace (Z.to_nat k <? Z.to_nat s)%nat with false by lia.
    destruct (k <? s + Z.of_nat (length bytes)) eqn:E2.
    + replace (Z.to_nat k <? Z.to_nat s + length bytes)%nat with true by lia.
      replace (Z.to_nat (k - s)) with (Z.to_nat k - Z.to_nat s)%nat by lia. reflexivity.
    + replace (Z.to_nat k <? Z.to_nat s + length bytes)%nat with false by lia. reflexivity.
Qed.

Lemma firstn_In_local {A} (l : list A) n x : In x (firstn n l) -> In x l.
Proof. revert n; induction l; intros [|n]; cbn [firstn In]; try tauto. intros [H|H]; eauto. Qed.
Lemma skipn_In_local {A} (l : list A) n x : In x (skipn n l) -> In x l.
Proof. revert n; induction l; intros [|n]; cbn [skipn In]; try tauto. intros H; eauto. Qed.

Lemma bytes_ok_splice buf s bytes : bytes_ok buf -> bytes_ok bytes -> bytes_ok (splice buf s bytes).
Proof.
  unfold bytes_ok, splice. intros H1 H2. rewrite Forall_forall in *. intros x Hx.
  apply in_app_or in Hx. destruct Hx as [Hx|Hx].
  - apply H1. eapply firstn_In_local; eauto.
  - apply in_app_or in Hx. destruct Hx as [Hx|Hx]; auto. apply H1. eapply skipn_In_local; eauto.
Qed.

Lemma pixel_bytes_eq t buf i :
  0 <= i -> 0 <= nbytes t -> (i + 1) * nbytes t <= buf_len buf ->
  firstn (Z.to_nat (nbytes t)) (skipn (Z.to_nat (i * nbytes t)) buf) = pixel_bytes t buf i.
Proof.
  intros Hi Hn Hr. unfold buf_len in Hr.
  rewrite firstn_skipn_map by nia. unfold pixel_bytes, range. rewrite range_from_seq, map_map.
  replace (Z.to_nat (nbytes t - 0)) with (Z.to_nat (nbytes t)) by (f_equal; lia).
  apply map_ext. intros k. unfold byte_at. f_equal. nia.
Qed.

Lemma pixel_bytes_splice_same t buf i bytes :
  0 <= i -> Z.of_nat (length bytes) = nbytes t -> (i + 1) * nbytes t <= buf_len buf ->
  pixel_bytes t (splice buf (i * nbytes t) bytes) i = bytes.
Proof.
  intros Hi Hn Hr.
  rewrite <- pixel_bytes_eq by (try rewrite buf_len_splice; nia).
  unfold splice. unfold buf_len in Hr.
  rewrite skipn_app. rewrite skipn_all2 by (rewrite firstn_length; lia).
  rewrite firstn_length. replace (_ - _)%nat with O by nia. cbn [skipn app].
  rewrite firstn_app. replace (Z.to_nat (nbytes t)) with (length bytes) by lia.
  rewrite firstn_all, Nat.sub_diag. cbn [firstn]. apply app_nil_r.
Qed.

Lemma pixel_bytes_splice_other t buf i j bytes :
  0 <= i -> 0 <= j -> j <> i -> Z.of_nat (length bytes) = nbytes t ->
  (i + 1) * nbytes t <= buf_len buf ->
  pixel_bytes t (splice buf (i * nbytes t) bytes) j = pixel_bytes t buf j.
Proof.
  intros Hi Hj N Hn Hr. unfold pixel_bytes. apply map_ext_in. intros k Hk. apply In_range in Hk.
  rewrite byte_at_splice by nia.
  destruct (Z_lt_ge_dec j i).
  - replace (j * nbytes t + k <? i * nbytes t) with true by nia. reflexivity.
  - replace (j * nbytes t + k <? i * nbytes t) with false by nia.
    replace (j * nbytes t + k <? i * nbytes t + _) with false by nia. reflexivity.
Qed.

Lemma decode_encode t alt v : multi_byte t -> raw_ok t v -> decode_bytes t alt (encode_bytes t alt v) = v.
Proof.
  unfold raw_ok. intros [->|[->| ->]] Hv; destruct alt;
    unfold decode_bytes, encode_bytes, to_be, from_be; nb; cbn [to_le rev app skipn firstn fold_right from_le];
    rewrite ?raw_new_mod; cbn [bits] in *; lia.
Qed.

Lemma multi_load_store t alt v buf i :
  multi_byte t -> bytes_ok buf -> buf_len buf <= usize_max -> raw_ok t v ->
  0 <= i < pixels_total t (buf_len buf) ->
  exists buf', store t alt v buf i = (buf', true) /\ load t alt buf' i = Some v /\
               buf_len buf' = buf_len buf /\ bytes_ok buf'.
Proof.
  intros Mt Hb Hl Hv Hi. destruct (multi_nbytes t Mt) as [Hn _].
  pose proof (proj1 (multi_total t (buf_len buf) i Mt (proj1 Hi) (buf_len_nonneg buf)) (proj2 Hi)) as Hr.
  pose proof (length_encode t alt v Mt) as Le.
  rewrite store_multi_in by auto. eexists; split; [reflexivity|].
  assert (BL : buf_len (splice buf (i * nbytes t) (encode_bytes t alt v)) = buf_len buf)
    by (apply buf_len_splice; nia).
  split; [|split]; auto.
  - rewrite load_multi_in by (auto; rewrite BL; auto).
    rewrite pixel_bytes_splice_same by (auto; lia). rewrite decode_encode; auto.
  - apply bytes_ok_splice; auto. apply bytes_ok_encode; auto.
Qed.

Lemma multi_store_frame t alt v buf i j :
  multi_byte t -> buf_len buf <= usize_max -> 0 <= i < pixels_total t (buf_len buf) -> 0 <= j -> j <> i ->
  load t alt (fst (store t alt v buf i)) j = load t alt buf j.
Proof.
  intros Mt Hl Hi Hj N. destruct (multi_nbytes t Mt) as [Hn _].
  pose proof (proj1 (multi_total t (buf_len buf) i Mt (proj1 Hi) (buf_len_nonneg buf)) (proj2 Hi)) as Hr.
  pose proof (length_encode t alt v Mt) as Le.
  rewrite store_multi_in by auto. cbn [fst].
  assert (BL : buf_len (splice buf (i * nbytes t) (encode_bytes t alt v)) = buf_len buf)
    by (apply buf_len_splice; nia).
  destruct (Z_lt_ge_dec j (pixels_total t (buf_len buf))).
  - rewrite !load_multi_in by (auto; rewrite ?BL; auto).
    rewrite pixel_bytes_splice_other by (auto; lia). reflexivity.
  - rewrite !load_multi_oob; auto; rewrite ?BL; lia.
Qed.

(* ======================================================================================================
   The C11 statements, for every raw type and both data orders
   ====================================================================================================== *)
Lemma len_ok_usize buf : len_ok buf -> buf_len buf <= usize_max.
Proof. unfold len_ok. pose proof (buf_len_nonneg buf). lia. Qed.

Lemma load_store t alt v buf i :
  bytes_ok buf -> len_ok buf -> raw_ok t v -> 0 <= i < pixels_total t (buf_len buf) ->
  exists buf', store t alt v buf i = (buf', true) /\ load t alt buf' i = Some v /\
               buf_len buf' = buf_len buf /\ bytes_ok buf'.
Proof.
  intros Hb Hl Hv Hi. apply len_ok_usize in Hl.
  destruct (rawty_cases t) as [St|[->|Mt]].
  - apply sub_load_store; auto.
  - apply u8_load_store; auto.
  - apply multi_load_store; auto.
Qed.

Lemma store_frame t alt v buf i j :
  bytes_ok buf -> len_ok buf -> raw_ok t v -> 0 <= i < pixels_total t (buf_len buf) -> 0 <= j -> j <> i ->
  load t alt (fst (store t alt v buf i)) j = load t alt buf j.
Proof.
  intros Hb Hl Hv Hi Hj N. apply len_ok_usize in Hl.
  destruct (rawty_cases t) as [St|[->|Mt]].
  - apply sub_store_frame; auto.
  - apply u8_store_frame; auto.
  - apply multi_store_frame; auto.
Qed.

(* out of range: for EVERY index (also those whose byte offset leaves usize) and every buffer *)
Lemma load_oob t alt buf i : 0 <= i -> pixels_total t (buf_len buf) <= i -> load t alt buf i = None.
Proof.
  intros Hi Ho. destruct (rawty_cases t) as [St|[->|Mt]].
  - apply load_sub_oob; auto.
  - rewrite u8_total in Ho. apply load_u8_oob; auto.
  - apply load_multi_oob; auto.
Qed.

Lemma store_oob t alt v buf i : 0 <= i -> pixels_total t (buf_len buf) <= i -> store t alt v buf i = (buf, false).
Proof.
  intros Hi Ho. destruct (rawty_cases t) as [St|[->|Mt]].
  - apply store_sub_oob; auto.
  - rewrite u8_total in Ho. apply store_u8_oob; auto.
  - apply store_multi_oob; auto.
Qed.

Lemma load_in_range t alt buf i :
  len_ok buf -> 0 <= i < pixels_total t (buf_len buf) -> exists v, load t alt buf i = Some v.
Proof.
  intros Hl Hi. apply len_ok_usize in Hl. destruct (rawty_cases t) as [St|[->|Mt]].
  - rewrite load_sub_in by auto. eauto.
  - rewrite u8_total in Hi. rewrite load_u8_in by auto. eauto.
  - rewrite load_multi_in by auto. eauto.
Qed.

Lemma load_some_iff t alt buf i :
  len_ok buf -> 0 <= i -> (load t alt buf i <> None <-> i < pixels_total t (buf_len buf)).
Proof.
  intros Hl Hi. split.
  - intros H. destruct (Z_lt_ge_dec i (pixels_total t (buf_len buf))); auto.
    exfalso. apply H. apply load_oob; auto; lia.
  - intros H. destruct (load_in_range t alt buf i Hl (conj Hi H)) as [v ->]. discriminate.
Qed.

(* ---- documented layouts, as closed forms over the bytes ----------------------------------------------- *)
(* sub-byte, LittleEndianMsb0: pixel i sits in byte i / ppb, most significant pixel first *)
Lemma layout_msb0 t buf i :
  sub_byte t -> bytes_ok buf -> 0 <= i < pixels_total t (buf_len buf) ->
  load t false buf i =
  Some ((byte_at buf (i / ppb t) / 2 ^ (8 - (i mod ppb t + 1) * bits t)) mod 2 ^ bits t).
Proof.
  intros St Hb Hi.
  destruct (sub_total t (buf_len buf) i St (proj1 Hi) (buf_len_nonneg buf)) as (T & M & D).
  rewrite load_sub_in by auto.
  pose proof (sb_load t false (i mod ppb t) (byte_at buf (i / ppb t)) St M (byte_at_ok _ _ Hb)) as S.
  cbv zeta in S. destruct S as (S1 & S2 & _). rewrite S1, S2. reflexivity.
Qed.

(* sub-byte, BigEndianLsb0: least significant pixel first *)
Lemma layout_lsb0 t buf i :
  sub_byte t -> bytes_ok buf -> 0 <= i < pixels_total t (buf_len buf) ->
  load t true buf i =
  Some ((byte_at buf (i / ppb t) / 2 ^ ((i mod ppb t) * bits t)) mod 2 ^ bits t).
Proof.
  intros St Hb Hi.
  destruct (sub_total t (buf_len buf) i St (proj1 Hi) (buf_len_nonneg buf)) as (T & M & D).
  rewrite load_sub_in by auto.
  pose proof (sb_load t true (i mod ppb t) (byte_at buf (i / ppb t)) St M (byte_at_ok _ _ Hb)) as S.
  cbv zeta in S. destruct S as (S1 & S2 & _). rewrite S1, S2. reflexivity.
Qed.

Definition zsum (l : list Z) : Z := fold_right Z.add 0 l.
(* n bytes from offset s, least significant first / most significant first *)
Definition le_value (buf : list Z) (s n : Z) : Z := zsum (map (fun k => byte_at buf (s + k) * 256 ^ k) (range 0 n)).
Definition be_value (buf : list Z) (s n : Z) : Z := zsum (map (fun k => byte_at buf (s + k) * 256 ^ (n - 1 - k)) (range 0 n)).

Definition whole_bytes (t : rawty) : Prop := t = U8 \/ multi_byte t.


Lemma layout_le t buf i :
  whole_bytes t -> bytes_ok buf -> len_ok buf -> 0 <= i < pixels_total t (buf_len buf) ->
  load t false buf i = Some (le_value buf (i * nbytes t) (nbytes t)).
Proof.
  intros Wt Hb Hl Hi. apply len_ok_usize in Hl.
  destruct Wt as [->|Mt].
  - rewrite u8_total in Hi. rewrite load_u8_in by auto. rewrite raw_new_byte by (apply byte_at_ok; auto).
    unfold le_value. change (nbytes U8) with 1. change (range 0 1) with [0]. cbn [map zsum fold_right]. pows.
    f_equal. replace (i * 1 + 0) with i by lia. lia.
  - rewrite load_multi_in by auto. f_equal. unfold le_value, pixel_bytes.
    destruct Mt as [->|[->| ->]]; nb;
      [change (range 0 2) with [0; 1] | change (range 0 3) with [0; 1; 2] | change (range 0 4) with [0; 1; 2; 3]];
      unfold decode_bytes; cbn [map zsum fold_right from_le app]; rewrite ?raw_new_mod; cbn [bits]; pows;
      repeat match goal with |- context [byte_at buf ?k] =>
        let H := fresh in pose proof (byte_at_ok buf k Hb) as H; generalize dependent (byte_at buf k); intros end;
      lia.
Qed.

Lemma layout_be t buf i :
  whole_bytes t -> bytes_ok buf -> len_ok buf -> 0 <= i < pixels_total t (buf_len buf) ->
  load t true buf i = Some (be_value buf (i * nbytes t) (nbytes t)).
Proof.
  intros Wt Hb Hl Hi. apply len_ok_usize in Hl.
  destruct Wt as [->|Mt].
  - rewrite u8_total in Hi. rewrite load_u8_in by auto. rewrite raw_new_byte by (apply byte_at_ok; auto).
    unfold be_value. change (nbytes U8) with 1. change (range 0 1) with [0]. cbn [map zsum fold_right].
    change (1 - 1 - 0) with 0. pows.
    f_equal. replace (i * 1 + 0) with i by lia. lia.
  - rewrite load_multi_in by auto. f_equal. unfold be_value, pixel_bytes.
    destruct Mt as [->|[->| ->]]; nb;
      [change (range 0 2) with [0; 1] | change (range 0 3) with [0; 1; 2] | change (range 0 4) with [0; 1; 2; 3]];
      unfold decode_bytes, from_be; cbn [map zsum fold_right from_le app rev]; rewrite ?raw_new_mod; cbn [bits];
      repeat match goal with |- context [256 ^ ?e] => let x := eval vm_compute in (256 ^ e) in change (256 ^ e) with x end;
      repeat match goal with |- context [byte_at buf ?k] =>
        let H := fresh in pose proof (byte_at_ok buf k Hb) as H; generalize dependent (byte_at buf k); intros end;
      lia.
Qed.

(* ---- "changes only the bits belonging to pixel i", bit by bit -------------------------------------------
   owns t alt i k q : bit q of byte k belongs to pixel i in the documented layout *)
Definition owns (t : rawty) (alt : order) (i k q : Z) : Prop :=
  if bits t <? 8 then
    k = i / ppb t /\
    let lo := if alt then (i mod ppb t) * bits t else 8 - (i mod ppb t + 1) * bits t in lo <= q < lo + bits t
  else i * nbytes t <= k < (i + 1) * nbytes t.

Lemma store_touches_only t alt v buf i k q :
  bytes_ok buf -> len_ok buf -> raw_ok t v -> 0 <= i < pixels_total t (buf_len buf) ->
  0 <= k -> 0 <= q < 8 -> ~ owns t alt i k q ->
  Z.testbit (byte_at (fst (store t alt v buf i)) k) q = Z.testbit (byte_at buf k) q.
Proof.
  intros Hb Hl Hv Hi Hk Hq N. apply len_ok_usize in Hl. unfold owns in N.
  destruct (rawty_cases t) as [St|[->|Mt]].
  - destruct (sub_total t (buf_len buf) i St (proj1 Hi) (buf_len_nonneg buf)) as (T & M & D).
    replace (bits t <? 8) with true in N by (destruct St as [->|[->| ->]]; reflexivity). cbv iota zeta in N.
    rewrite store_sub_in by auto. cbn [fst].
    destruct (Z.eq_dec k (i / ppb t)) as [->|E].
    + rewrite byte_at_upd_eq by lia.
      pose proof (sb_store t alt (i mod ppb t) (byte_at buf (i / ppb t)) v St M (byte_at_ok _ _ Hb) Hv) as S.
      cbv zeta in S. destruct S as (_ & _ & _ & _ & S4).
      pose proof (sb_load t alt (i mod ppb t) (byte_at buf (i / ppb t)) St M (byte_at_ok _ _ Hb)) as L.
      cbv zeta in L. destruct L as (_ & L2 & _).
      apply S4; auto. rewrite L2. cbv zeta in N. tauto.
    + rewrite byte_at_upd_neq by lia. reflexivity.
  - change (bits U8 <? 8) with false in N. change (nbytes U8) with 1 in N. cbv iota in N.
    rewrite u8_total in Hi. rewrite store_u8_in by auto. cbn [fst].
    rewrite byte_at_upd_neq by lia. reflexivity.
  - destruct (multi_nbytes t Mt) as [Hn Hbits].
    replace (bits t <? 8) with false in N by lia. cbv iota in N.
    pose proof (proj1 (multi_total t (buf_len buf) i Mt (proj1 Hi) (buf_len_nonneg buf)) (proj2 Hi)) as Hr.
    pose proof (length_encode t alt v Mt) as Le.
    rewrite store_multi_in by auto. cbn [fst].
    rewrite byte_at_splice by nia. rewrite Le.
    destruct (k <? i * nbytes t) eqn:E1; auto.
    destruct (k <? i * nbytes t + nbytes t) eqn:E2; auto. exfalso. apply N. lia.
Qed.

(* the bit sets of different pixels are disjoint, and every bit of the used bytes belongs to a pixel *)

Lemma owns_disjoint t alt i j k q : 0 <= i -> 0 <= j -> i <> j -> owns t alt i k q -> ~ owns t alt j k q.
Proof.
  intros Hi Hj N. unfold owns, ppb, nbytes. destruct t; cbn [bits];
    match goal with |- context [?a <? 8] => let b := eval vm_compute in (a <? 8) in change (a <? 8) with b end;
    cbv iota zeta; divs; destruct alt; lia.
Qed.

Lemma byte_is_its_pixels t alt buf k q :
  0 <= k < buf_len buf -> 0 <= q < 8 -> k < pixels_total t (buf_len buf) * bits t / 8 ->
  exists i, 0 <= i < pixels_total t (buf_len buf) /\ owns t alt i k q.
Proof.
  intros Hk Hq Hu. unfold owns, ppb, nbytes, pixels_total in *.
  destruct t; cbn [bits] in *.
  all: repeat match goal with |- context [?a <? 8] =>
         let b := eval vm_compute in (a <? 8) in change (a <? 8) with b end.
  all: repeat match type of Hu with context [8 <=? ?a] =>
         let b := eval vm_compute in (8 <=? a) in change (8 <=? a) with b in Hu end.
  all: repeat match goal with |- context [8 <=? ?a] =>
         let b := eval vm_compute in (8 <=? a) in change (8 <=? a) with b end.
  all: cbv iota zeta in *; divs.
  - destruct alt; [exists (k * 8 + q)|exists (k * 8 + (7 - q))]; lia.
  - destruct alt; [exists (k * 4 + q / 2)|exists (k * 4 + (3 - q / 2))]; lia.
  - destruct alt; [exists (k * 2 + q / 4)|exists (k * 2 + (1 - q / 4))]; lia.
  - exists k. lia.
  - exists (k / 2). lia.
  - exists (k / 3). lia.
  - exists (k / 4). lia.
Qed.

(* ======================================================================================================
   RawDataIterator
   ====================================================================================================== *)
Definition it_total (t : rawty) (s : iter) : Z := pixels_total t (buf_len (it_data s)).
Definition it_ok (s : iter) : Prop := len_ok (it_data s) /\ 0 <= it_index s.

Lemma total_bounds t len : 0 <= len -> 0 <= pixels_total t len <= 8 * len.
Proof.
  intros H. unfold pixels_total. destruct t; cbn [bits];
    match goal with |- context [8 <=? ?a] => let b := eval vm_compute in (8 <=? a) in change (8 <=? a) with b end;
    cbv iota; divs; lia.
Qed.

Lemma iter_next_in t alt s :
  it_ok s -> it_index s < it_total t s ->
  exists v, load t alt (it_data s) (it_index s) = Some v /\
            iter_next t alt s = (Some v, It (it_data s) (it_index s + 1)).
Proof.
  intros [Hl Hi] H. destruct (load_in_range t alt (it_data s) (it_index s) Hl (conj Hi H)) as [v E].
  exists v. split; auto. unfold iter_next. rewrite E. reflexivity.
Qed.

Lemma iter_next_oob t alt s :
  0 <= it_index s -> it_total t s <= it_index s -> iter_next t alt s = (None, s).
Proof. intros Hi H. unfold iter_next. rewrite load_oob; auto. Qed.

Lemma iter_collect_spec t alt buf :
  len_ok buf -> forall m fuel i, 0 <= i -> Z.to_nat (pixels_total t (buf_len buf) - i) = m -> (m < fuel)%nat ->
  exists l, iter_collect t alt fuel (It buf i) = Some l /\
            map Some l = map (load t alt buf) (range i (pixels_total t (buf_len buf))).
Proof.
  intros Hl. induction m as [|m IH]; intros fuel i Hi Hm Hf; (destruct fuel as [|fuel]; [lia|]); cbn [iter_collect].
  - rewrite iter_next_oob by (cbn [it_index it_data]; unfold it_total; cbn [it_data]; lia).
    exists []. rewrite range_nil by lia. auto.
  - destruct (iter_next_in t alt (It buf i)) as (v & E1 & E2).
    { split; auto. } { unfold it_total; cbn [it_data it_index]. lia. }
    rewrite E2. cbn [it_data it_index] in *.
    destruct (IH fuel (i + 1)) as (l & L1 & L2); try lia.
    rewrite L1. exists (v :: l). split; [reflexivity|].
    rewrite (range_cons i) by lia. cbn [map]. rewrite E1, L2. reflexivity.
Qed.

(* the fuel of iter_list never runs out, and the items are load(index), load(index+1), ... *)
Lemma iter_is_loads t alt s :
  it_ok s ->
  exists l, iter_list t alt s = Some l /\
            map Some l = map (load t alt (it_data s)) (range (it_index s) (it_total t s)) /\
            Z.of_nat (length l) = Z.max 0 (it_total t s - it_index s).
Proof.
  intros [Hl Hi]. destruct s as [buf i]. cbn [it_data it_index] in *. unfold it_total, iter_list, iter_fuel.
  cbn [it_data it_index].
  destruct (iter_collect_spec t alt buf Hl _ (Datatypes.S (Z.to_nat (pixels_total t (buf_len buf) - i))) i Hi eq_refl)
    as (l & L1 & L2); [lia|].
  exists l. repeat split; auto.
  rewrite <- (map_length Some), L2, map_length. apply length_range.
Qed.

Lemma map_Some_inj {A} (a b : list A) : map Some a = map Some b -> a = b.
Proof. revert b; induction a; intros [|y b] H; cbn [map] in H; try discriminate; auto. inversion H. f_equal; auto. Qed.

(* size_hint is exact (hence it brackets the number of remaining items) *)
Lemma size_hint_exact t alt s l :
  it_ok s -> iter_list t alt s = Some l ->
  size_hint t s = (Z.of_nat (length l), Some (Z.of_nat (length l))).
Proof.
  intros Ok E. destruct (iter_is_loads t alt s Ok) as (l' & E' & _ & Len).
  rewrite E in E'. inversion E'; subst l'. unfold size_hint, sat_sub_usize. fold (it_total t s).
  rewrite Len. replace (Z.max (it_total t s - it_index s) 0) with (Z.max 0 (it_total t s - it_index s)) by lia.
  reflexivity.
Qed.

Lemma size_hint_brackets t alt s l :
  it_ok s -> iter_list t alt s = Some l ->
  fst (size_hint t s) <= Z.of_nat (length l) /\
  match snd (size_hint t s) with Some hi => Z.of_nat (length l) <= hi | None => True end.
Proof. intros Ok E. rewrite (size_hint_exact t alt s l Ok E). cbn [fst snd]. lia. Qed.

(* nth_error of the item list = load at the running index *)
Lemma items_nth t alt s l k :
  it_ok s -> iter_list t alt s = Some l -> nth_error l k = load t alt (it_data s) (it_index s + Z.of_nat k).
Proof.
  intros Ok E. destruct (iter_is_loads t alt s Ok) as (l' & E' & M & Len).
  rewrite E in E'. inversion E'; subst l'. destruct Ok as [Hl Hi].
  destruct (Z_lt_ge_dec (it_index s + Z.of_nat k) (it_total t s)) as [L|L].
  - assert (Hk : (k < length l)%nat) by lia.
    pose proof (f_equal (fun x => nth_error x k) M) as N. cbv beta in N.
    rewrite !nth_error_map in N. unfold range in N.
    rewrite (nth_error_nth_lt (range_from (it_index s) (Z.to_nat (it_total t s - it_index s))) k 0) in N
      by (rewrite length_range_from; lia).
    rewrite nth_range_from in N by lia. cbn [option_map] in N.
    destruct (nth_error l k) as [x|] eqn:Ek.
    + cbn [option_map] in N. inversion N. reflexivity.
    + apply nth_error_None in Ek. lia.
  - rewrite load_oob by (unfold it_total in L; lia).
    apply nth_error_None. lia.
Qed.

Lemma sat_add_small a b : a + b <= usize_max -> sat_add_usize a b = a + b.
Proof. unfold sat_add_usize. lia. Qed.

(* nth(n): the item is load(index + n) (None beyond the end, also when the addition saturates), and the
   iterator continues behind it *)
Lemma nth_skips t alt s n l :
  it_ok s -> 0 <= n -> iter_list t alt s = Some l ->
  fst (iter_nth t alt s n) = nth_error l (Z.to_nat n) /\
  it_ok (snd (iter_nth t alt s n)) /\ it_data (snd (iter_nth t alt s n)) = it_data s /\
  iter_list t alt (snd (iter_nth t alt s n)) = Some (skipn (Datatypes.S (Z.to_nat n)) l) /\
  (it_index s + n < it_total t s -> it_index (snd (iter_nth t alt s n)) = it_index s + n + 1).
Proof.
  intros Ok Hn E. pose proof Ok as [Hl Hi].
  rewrite (items_nth t alt s l (Z.to_nat n) Ok E). rewrite Z2Nat.id by lia.
  destruct (iter_is_loads t alt s Ok) as (l' & E' & M & Len).
  rewrite E in E'. inversion E'; subst l'. clear E'.
  pose proof (total_bounds t (buf_len (it_data s)) (buf_len_nonneg _)) as TB. fold (it_total t s) in TB.
  unfold len_ok in Hl. unfold iter_nth.
  destruct (Z_lt_ge_dec (it_index s + n) (it_total t s)) as [L|L].
  - rewrite sat_add_small by lia.
    destruct (iter_next_in t alt (It (it_data s) (it_index s + n))) as (v & E1 & E2).
    { split; cbn [it_data it_index]; auto. lia. } { unfold it_total in *. cbn [it_data it_index]. lia. }
    cbn [it_data it_index] in *. rewrite E2. cbn [fst snd it_data it_index].
    split; [auto|]. split; [split; cbn [it_data it_index]; auto; lia|]. split; [reflexivity|]. split; [|auto].
    destruct (iter_is_loads t alt (It (it_data s) (it_index s + n + 1))) as (l2 & F1 & F2 & _).
    { split; cbn [it_data it_index]; auto. lia. }
    rewrite F1. f_equal. apply map_Some_inj. rewrite F2. cbn [it_data it_index]. unfold it_total. cbn [it_data].
    fold (it_total t s). rewrite <- skipn_map, M, skipn_map. f_equal.
    rewrite (range_app (it_index s) (it_index s + n + 1) (it_total t s)) by lia.
    replace (Datatypes.S (Z.to_nat n)) with (length (range (it_index s) (it_index s + n + 1)) + 0)%nat
      by (pose proof (length_range (it_index s) (it_index s + n + 1)); lia).
    rewrite skipn_app. rewrite Nat.add_0_r, skipn_all, Nat.sub_diag. reflexivity.
  - set (j := sat_add_usize (it_index s) n).
    assert (Hj : it_total t s <= j) by (unfold j, sat_add_usize; lia).
    rewrite iter_next_oob by (cbn [it_index it_data]; unfold it_total in *; cbn [it_data]; lia).
    cbn [fst snd it_data it_index].
    split; [rewrite load_oob; auto; unfold it_total in *; lia|].
    split; [split; cbn [it_data it_index]; auto; lia|]. split; [reflexivity|]. split; [|lia].
    destruct (iter_is_loads t alt (It (it_data s) j)) as (l2 & F1 & F2 & F3).
    { split; cbn [it_data it_index]; auto. lia. }
    rewrite F1. f_equal. unfold it_total in F3. cbn [it_data it_index] in F3. fold (it_total t s) in F3.
    rewrite skipn_all2 by lia. destruct l2; auto. cbn [length] in F3. lia.
Qed.

(* next() = nth(0) on the item list *)
Lemma next_steps t alt s l :
  it_ok s -> iter_list t alt s = Some l ->
  fst (iter_next t alt s) = hd_error l /\
  it_ok (snd (iter_next t alt s)) /\ it_data (snd (iter_next t alt s)) = it_data s /\
  iter_list t alt (snd (iter_next t alt s)) = Some (tl l).
Proof.
  intros Ok E. pose proof Ok as [Hl Hi].
  pose proof (items_nth t alt s l O Ok E) as H0. rewrite Z.add_0_r in H0.
  destruct (Z_lt_ge_dec (it_index s) (it_total t s)) as [L|L].
  - destruct (nth_skips t alt s 0 l Ok (Z.le_refl 0) E) as (A & B & C & D & _).
    assert (Q : iter_nth t alt s 0 = iter_next t alt s).
    { unfold iter_nth. rewrite sat_add_small.
      - rewrite Z.add_0_r. destruct s; reflexivity.
      - pose proof (total_bounds t (buf_len (it_data s)) (buf_len_nonneg _)). unfold len_ok, it_total in *. lia. }
    rewrite Q in *. change (Z.to_nat 0) with O in *. destruct l; cbn [nth_error hd_error skipn tl] in *;
      (split; [exact A|split; [exact B|split; [exact C|exact D]]]).
  - rewrite iter_next_oob by lia. cbn [fst snd].
    destruct (iter_is_loads t alt s Ok) as (l' & E' & _ & Len).
    rewrite E in E'. inversion E'; subst l'. destruct l; [|cbn [length] in Len; lia].
    cbn [hd_error tl]. split; [reflexivity|split; [exact Ok|split; [reflexivity|exact E]]].
Qed.

(* the iterator of a whole slice *)
Lemma iter_new_ok buf : len_ok buf -> it_ok (iter_new buf).
Proof. intros H. split; cbn; auto. lia. Qed.

(* ---- any mix of next() / nth(k), with size_hint observed after every call ------------------------------- *)
Inductive itop := OpNext | OpNth (n : Z).
Definition op_ok (o : itop) : Prop := match o with OpNext => True | OpNth n => 0 <= n end.
Definition iter_step (t : rawty) (alt : order) (s : iter) (o : itop) : option Z * iter :=
  match o with OpNext => iter_next t alt s | OpNth n => iter_nth t alt s n end.
Fixpoint iter_run (t : rawty) (alt : order) (s : iter) (ops : list itop) : list (option Z * (Z * option Z)) :=
  match ops with
  | [] => []
  | o :: r => let xs := iter_step t alt s o in (fst xs, size_hint t (snd xs)) :: iter_run t alt (snd xs) r
  end.
(* the same calls on a plain list of items *)
Definition list_step (l : list Z) (o : itop) : option Z * list Z :=
  match o with
  | OpNext => (hd_error l, tl l)
  | OpNth n => (nth_error l (Z.to_nat n), skipn (Datatypes.S (Z.to_nat n)) l)
  end.
Fixpoint list_run (l : list Z) (ops : list itop) : list (option Z * (Z * option Z)) :=
  match ops with
  | [] => []
  | o :: r => let xl := list_step l o in
              (fst xl, (Z.of_nat (length (snd xl)), Some (Z.of_nat (length (snd xl))))) :: list_run (snd xl) r
  end.

Lemma iter_run_spec t alt ops : forall s l,
  it_ok s -> iter_list t alt s = Some l -> Forall op_ok ops -> iter_run t alt s ops = list_run l ops.
Proof.
  induction ops as [|o r IH]; intros s l Ok E F; [reflexivity|].
  inversion F as [|? ? Ho Fr]; subst. cbn [iter_run list_run].
  destruct o as [|n]; cbn [iter_step list_step fst snd].
  - destruct (next_steps t alt s l Ok E) as (A & B & C & D).
    rewrite A, (size_hint_exact t alt _ _ B D). f_equal. apply IH; auto.
  - destruct (nth_skips t alt s n l Ok Ho E) as (A & B & C & D & _).
    rewrite A, (size_hint_exact t alt _ _ B D). f_equal. apply IH; auto.
Qed.

Lemma slice_iter_is_loads t alt buf :
  len_ok buf ->
  exists l, iter_list t alt (iter_new buf) = Some l /\
            map Some l = map (load t alt buf) (range 0 (pixels_total t (buf_len buf))).
Proof.
  intros H. destruct (iter_is_loads t alt (iter_new buf) (iter_new_ok buf H)) as (l & A & B & _).
  exists l. split; [exact A|exact B].
Qed.

(* ---- closure of raw_ok: what `new` / `from_u32` produce and what `load` returns -------------------------- *)
Lemma load_is_raw t alt buf i v :
  bytes_ok buf -> len_ok buf -> 0 <= i -> load t alt buf i = Some v -> raw_ok t v.
Proof.
  intros Hb Hl Hi E.
  assert (R : i < pixels_total t (buf_len buf)) by (apply (load_some_iff t alt); auto; rewrite E; discriminate).
  destruct (rawty_cases t) as [St|[->|Mt]].
  - rewrite load_sub_in in E by auto. inversion E. apply raw_new_ok.
  - rewrite u8_total in R. rewrite load_u8_in in E by auto. inversion E. apply raw_new_ok.
  - assert (W : whole_bytes t) by (right; auto).
    destruct alt.
    + rewrite (layout_be t buf i W Hb Hl (conj Hi R)) in E. inversion E. subst v. clear E.
      unfold raw_ok, be_value.
      destruct Mt as [->|[->| ->]]; nb;
        [change (range 0 2) with [0; 1] | change (range 0 3) with [0; 1; 2] | change (range 0 4) with [0; 1; 2; 3]];
        cbn [map zsum fold_right bits];
        repeat match goal with |- context [256 ^ ?e] => let x := eval vm_compute in (256 ^ e) in change (256 ^ e) with x end;
        repeat match goal with |- context [2 ^ ?e] => let x := eval vm_compute in (2 ^ e) in change (2 ^ e) with x end;
        repeat match goal with |- context [byte_at buf ?k] =>
          let H := fresh in pose proof (byte_at_ok buf k Hb) as H; generalize dependent (byte_at buf k); intros end;
        lia.
    + rewrite (layout_le t buf i W Hb Hl (conj Hi R)) in E. inversion E. subst v. clear E.
      unfold raw_ok, le_value.
      destruct Mt as [->|[->| ->]]; nb;
        [change (range 0 2) with [0; 1] | change (range 0 3) with [0; 1; 2] | change (range 0 4) with [0; 1; 2; 3]];
        cbn [map zsum fold_right bits];
        repeat match goal with |- context [256 ^ ?e] => let x := eval vm_compute in (256 ^ e) in change (256 ^ e) with x end;
        repeat match goal with |- context [2 ^ ?e] => let x := eval vm_compute in (2 ^ e) in change (2 ^ e) with x end;
        repeat match goal with |- context [byte_at buf ?k] =>
          let H := fresh in pose proof (byte_at_ok buf k Hb) as H; generalize dependent (byte_at buf k); intros end;
        lia.
Qed.

(* store of any u32 handed over through from_u32 round-trips to the masked value *)
Lemma load_store_new t alt x buf i :
  bytes_ok buf -> len_ok buf -> 0 <= i < pixels_total t (buf_len buf) ->
  load t alt (fst (store t alt (raw_new t x) buf i)) i = Some (raw_new t x).
Proof.
  intros Hb Hl Hi.
  destruct (load_store t alt (raw_new t x) buf i Hb Hl (raw_new_ok t x) Hi) as (b' & S & L & _).
  rewrite S. exact L.
Qed.

(* ---- closed form of the bytes a store writes ---------------------------------------------------------------- *)
Lemma store_writes_sub t (alt : order) v buf i :
  sub_byte t -> bytes_ok buf -> raw_ok t v -> 0 <= i < pixels_total t (buf_len buf) ->
  let lo := if alt then (i mod ppb t) * bits t else 8 - (i mod ppb t + 1) * bits t in
  let b := byte_at buf (i / ppb t) in
  byte_at (fst (store t alt v buf i)) (i / ppb t) = b - ((b / 2 ^ lo) mod 2 ^ bits t) * 2 ^ lo + v * 2 ^ lo.
Proof.
  intros St Hb Hv Hi.
  destruct (sub_total t (buf_len buf) i St (proj1 Hi) (buf_len_nonneg buf)) as (T & M & D).
  rewrite store_sub_in by auto. cbn [fst]. rewrite byte_at_upd_eq by lia.
  pose proof (sb_store t alt (i mod ppb t) (byte_at buf (i / ppb t)) v St M (byte_at_ok _ _ Hb) Hv) as S.
  pose proof (sb_load t alt (i mod ppb t) (byte_at buf (i / ppb t)) St M (byte_at_ok _ _ Hb)) as L.
  cbv zeta in *. destruct S as (_ & _ & S2 & _). destruct L as (_ & L2 & _). rewrite <- L2. exact S2.
Qed.

Lemma store_writes_whole t (alt : order) v buf i k :
  whole_bytes t -> bytes_ok buf -> len_ok buf -> raw_ok t v -> 0 <= i < pixels_total t (buf_len buf) ->
  0 <= k < nbytes t ->
  byte_at (fst (store t alt v buf i)) (i * nbytes t + k) =
  (v / 256 ^ (if alt then nbytes t - 1 - k else k)) mod 256.
Proof.
  intros Wt Hb Hl Hv Hi Hk. apply len_ok_usize in Hl. destruct Wt as [->|Mt].
  - change (nbytes U8) with 1 in *. assert (k = 0) by lia. subst k.
    rewrite u8_total in Hi. rewrite store_u8_in by auto. cbn [fst].
    replace (i * 1 + 0) with i by lia. rewrite byte_at_upd_eq by auto.
    unfold raw_ok in Hv. cbn [bits] in Hv. destruct alt; change (1 - 1 - 0) with 0; change (256 ^ 0) with 1;
      rewrite Z.div_1_r, Z.mod_small; lia.
  - destruct (multi_nbytes t Mt) as [Hn _].
    pose proof (proj1 (multi_total t (buf_len buf) i Mt (proj1 Hi) (buf_len_nonneg buf)) (proj2 Hi)) as Hr.
    pose proof (length_encode t alt v Mt) as Le.
    rewrite store_multi_in by auto. cbn [fst]. rewrite byte_at_splice by nia. rewrite Le.
    replace (i * nbytes t + k <? i * nbytes t) with false by lia.
    replace (i * nbytes t + k <? i * nbytes t + nbytes t) with true by lia.
    replace (i * nbytes t + k - i * nbytes t) with k by lia.
    unfold raw_ok in Hv. clear Hr Le Hi Hb Hl.
    destruct Mt as [->|[->| ->]]; nb; cbn [bits] in Hv;
      assert (Ek : k = 0 \/ k = 1 \/ k = 2 \/ k = 3) by lia;
      destruct Ek as [->|[->|[->| ->]]]; try lia; destruct alt;
      unfold encode_bytes, to_be; nb;
      change (Z.to_nat 0) with 0%nat; change (Z.to_nat 1) with 1%nat; change (Z.to_nat 2) with 2%nat; change (Z.to_nat 3) with 3%nat;
      cbn [to_le rev app skipn firstn nth];
      repeat match goal with |- context [?a - 1 - ?b] => let x := eval vm_compute in (a - 1 - b) in change (a - 1 - b) with x end;
      repeat match goal with |- context [256 ^ ?e] => let x := eval vm_compute in (256 ^ e) in change (256 ^ e) with x end;
      lia.
Qed.

(* ---- load depends only on the bits the pixel owns ------------------------------------------------------------ *)
Lemma byte_eq_of_bits a b :
  0 <= a < 256 -> 0 <= b < 256 -> (forall q, 0 <= q < 8 -> Z.testbit a q = Z.testbit b q) -> a = b.
Proof.
  intros Ha Hb H. apply Z.bits_inj'. intros q Hq. destruct (Z_lt_ge_dec q 8); [apply H; lia|].
  rewrite !Z.bits_above_log2; auto; try lia.
  - destruct (Z.eq_dec b 0) as [->|]; [cbn; lia|]. apply Z.log2_lt_pow2; try lia. apply Z.lt_le_trans with (2 ^ 8); [cbn; lia|]. apply Z.pow_le_mono_r; lia.
  - destruct (Z.eq_dec a 0) as [->|]; [cbn; lia|]. apply Z.log2_lt_pow2; try lia. apply Z.lt_le_trans with (2 ^ 8); [cbn; lia|]. apply Z.pow_le_mono_r; lia.
Qed.

Lemma load_depends_on_owned_bits t (alt : order) b1 b2 i :
  bytes_ok b1 -> bytes_ok b2 -> buf_len b1 = buf_len b2 -> len_ok b1 ->
  0 <= i < pixels_total t (buf_len b1) ->
  (forall k q, 0 <= q < 8 -> owns t alt i k q -> Z.testbit (byte_at b1 k) q = Z.testbit (byte_at b2 k) q) ->
  load t alt b1 i = load t alt b2 i.
Proof.
  intros H1 H2 El Hl Hi H. pose proof (len_ok_usize b1 Hl) as Hu. unfold owns in H.
  destruct (rawty_cases t) as [St|[->|Mt]].
  - destruct (sub_total t (buf_len b1) i St (proj1 Hi) (buf_len_nonneg b1)) as (T & M & D).
    replace (bits t <? 8) with true in H by (destruct St as [->|[->| ->]]; reflexivity). cbv iota zeta in H.
    rewrite !load_sub_in by (auto; rewrite <- ?El; auto).
    pose proof (sb_load t alt (i mod ppb t) (byte_at b1 (i / ppb t)) St M (byte_at_ok _ _ H1)) as L1.
    pose proof (sb_load t alt (i mod ppb t) (byte_at b2 (i / ppb t)) St M (byte_at_ok _ _ H2)) as L2.
    cbv zeta in L1, L2. destruct L1 as (L1 & K & K0 & K8). destruct L2 as (L2 & _).
    rewrite L1, L2. f_equal. set (lo := bit_index t alt (i mod ppb t)) in *.
    destruct (ppb_bits t St) as (_ & _ & Bp).
    apply Z.bits_inj'. intros j Hj. destruct (Z_lt_ge_dec j (bits t)).
    + rewrite !Z.mod_pow2_bits_low, !Z.div_pow2_bits by lia. apply H.
      * clear - K0 K8 l Hj. lia.
      * split; [reflexivity|]. rewrite <- K. clear - l Hj. lia.
    + rewrite !Z.mod_pow2_bits_high by lia. reflexivity.
  - change (bits U8 <? 8) with false in H. cbv iota in H. change (nbytes U8) with 1 in H.
    rewrite u8_total in Hi. rewrite !load_u8_in by (rewrite <- ?El; auto). f_equal. f_equal.
    apply byte_eq_of_bits; try apply byte_at_ok; auto. intros q Hq. apply H; auto. lia.
  - destruct (multi_nbytes t Mt) as [Hn Hb8].
    replace (bits t <? 8) with false in H by lia. cbv iota in H.
    rewrite !load_multi_in by (auto; rewrite <- ?El; auto). f_equal. f_equal.
    unfold pixel_bytes. apply map_ext_in. intros k Hk. apply In_range in Hk.
    apply byte_eq_of_bits; try apply byte_at_ok; auto. intros q Hq. apply H; auto. nia.
Qed.

End WithUsize.
