(* Lemmas about Model/Rawdata.v (property C11): load/store round trip, frame, out-of-range behaviour,
   documented layouts, RawDataIterator = [load 0, load 1, ...], nth, size_hint. *)
From EG Require Import Base.Prelude Base.Lemmas Model.Rawdata.
From Coq Require Import ZifyBool.

Ltac Zify.zify_post_hook ::= Z.to_euclidean_division_equations.
Set Default Timeout 60.

(* ---- ranges of validity ----------------------------------------------------------------------- *)
(* every byte of a buffer is an u8 *)
Definition bytes_ok (buf : list Z) : Prop := Forall (fun b => 0 <= b < 256) buf.
(* a raw value as `new` / `from_u32` produce it *)
Definition raw_ok (t : rawty) (v : Z) : Prop := 0 <= v < 2 ^ bits t.
(* an index for which `index * bytes_per_pixel` stays inside usize: there the unbounded model and
   the machine agree (always true for <= 8 bpp, where nbytes t <= 1 and i is an usize) *)
Definition idx_ok (t : rawty) (i : Z) : Prop := 0 <= i /\ i * nbytes t <= usize_max.

Definition sub_byte (t : rawty) : Prop := t = U1 \/ t = U2 \/ t = U4.
Definition multi_byte (t : rawty) : Prop := t = U16 \/ t = U24 \/ t = U32.

Lemma rawty_cases t : sub_byte t \/ t = U8 \/ multi_byte t.
Proof. unfold sub_byte, multi_byte. destruct t; tauto. Qed.

(* ---- list lemmas -------------------------------------------------------------------------------- *)
Lemma nth_error_ext' {A} (l l' : list A) : (forall n, nth_error l n = nth_error l' n) -> l = l'.
Proof.
  revert l'; induction l as [|x l IH]; intros [|y l'] H; auto.
  - specialize (H O); discriminate.
  - specialize (H O); discriminate.
  - f_equal. { specialize (H O). cbn in H. congruence. }
    apply IH. intros n. apply (H (Datatypes.S n)).
Qed.

Lemma length_upd l n v : length (upd l n v) = length l.
Proof. revert n; induction l as [|x l IH]; intros [|n]; cbn [upd length]; auto. Qed.

Lemma nth_error_upd_eq l n v : (n < length l)%nat -> nth_error (upd l n v) n = Some v.
Proof.
  revert n; induction l as [|x l IH]; intros [|n] H; cbn [upd length nth_error] in *; try lia; auto.
  apply IH; lia.
Qed.

Lemma nth_error_upd_neq l n m v : m <> n -> nth_error (upd l n v) m = nth_error l m.
Proof.
  revert n m; induction l as [|x l IH]; intros [|n] [|m] H; cbn [upd nth_error]; auto; try congruence.
Qed.

Lemma nth_error_firstn' {A} (l : list A) n k :
  nth_error (firstn n l) k = if (k <? n)%nat then nth_error l k else None.
Proof.
  revert n k; induction l as [|x l IH]; intros [|n] [|k]; cbn [firstn nth_error]; auto.
  - destruct (_ <? _)%nat; reflexivity.
  - rewrite IH. reflexivity.
Qed.

Lemma nth_error_skipn' {A} (l : list A) n k : nth_error (skipn n l) k = nth_error l (n + k).
Proof.
  revert n; induction l as [|x l IH]; intros [|n]; cbn [skipn nth_error Nat.add]; auto.
  destruct k; reflexivity.
Qed.

Lemma nth_error_None_ge {A} (l : list A) n : (length l <= n)%nat -> nth_error l n = None.
Proof. apply nth_error_None. Qed.

Lemma nth_error_nth' {A} (l : list A) n d x : nth_error l n = Some x -> nth n l d = x.
Proof. revert n; induction l; intros [|n]; cbn; intros; try discriminate; try congruence; auto. Qed.

Lemma nth_error_nth_lt {A} (l : list A) n d : (n < length l)%nat -> nth_error l n = Some (nth n l d).
Proof. revert n; induction l; intros [|n]; cbn [length nth nth_error]; intros; try lia; auto. apply IHl. lia. Qed.

Lemma bytes_ok_nth_error buf n b : bytes_ok buf -> nth_error buf n = Some b -> 0 <= b < 256.
Proof. intros H E. apply nth_error_In in E. unfold bytes_ok in H. rewrite Forall_forall in H. auto. Qed.

Lemma bytes_ok_nth buf n : bytes_ok buf -> 0 <= nth n buf 0 < 256.
Proof.
  intros H. destruct (Nat.lt_ge_cases n (length buf)) as [L|L].
  - eapply bytes_ok_nth_error; eauto. apply nth_error_nth_lt; auto.
  - rewrite nth_overflow by lia. lia.
Qed.

Lemma bytes_ok_upd buf n v : bytes_ok buf -> 0 <= v < 256 -> bytes_ok (upd buf n v).
Proof.
  unfold bytes_ok. intros H Hv. revert n; induction H; intros [|n]; cbn [upd]; constructor; auto.
Qed.

(* get / buf_len *)
Lemma get_Some buf i b : 0 <= i -> get buf i = Some b -> i < buf_len buf /\ nth_error buf (Z.to_nat i) = Some b.
Proof. unfold get. intros Hi. destruct (i <? buf_len buf) eqn:E; [|discriminate]. intros; split; [lia|auto]. Qed.

Lemma get_None_iff buf i : 0 <= i -> (get buf i = None <-> buf_len buf <= i).
Proof.
  unfold get, buf_len. intros Hi. destruct (i <? _) eqn:E; split; intros H; try lia; auto.
  apply nth_error_None in H. lia.
Qed.

Lemma get_lt buf i : 0 <= i < buf_len buf -> get buf i = Some (nth (Z.to_nat i) buf 0).
Proof.
  unfold get, buf_len. intros H. replace (i <? _) with true by lia. apply nth_error_nth_lt. lia.
Qed.

Lemma buf_len_upd buf n v : buf_len (upd buf n v) = buf_len buf.
Proof. unfold buf_len. rewrite length_upd. reflexivity. Qed.

Lemma get_upd_eq buf i v : 0 <= i < buf_len buf -> get (upd buf (Z.to_nat i) v) i = Some v.
Proof.
  intros H. unfold get. rewrite buf_len_upd. replace (i <? _) with true by lia.
  apply nth_error_upd_eq. unfold buf_len in H. lia.
Qed.

Lemma get_upd_neq buf i j v : 0 <= i -> 0 <= j -> i <> j -> get (upd buf (Z.to_nat i) v) j = get buf j.
Proof.
  intros Hi Hj N. unfold get. rewrite buf_len_upd. destruct (j <? _); auto.
  apply nth_error_upd_neq. lia.
Qed.

(* splice *)
Lemma length_splice buf s bytes :
  (s + length bytes <= length buf)%nat -> length (splice buf (Z.of_nat s) bytes) = length buf.
Proof.
  intros H. unfold splice. rewrite Nat2Z.id, !app_length, firstn_length, skipn_length. lia.
Qed.

Lemma nth_error_splice buf s bytes k :
  (s + length bytes <= length buf)%nat ->
  nth_error (splice buf (Z.of_nat s) bytes) k =
  if (k <? s)%nat then nth_error buf k
  else if (k <? s + length bytes)%nat then nth_error bytes (k - s) else nth_error buf k.
Proof.
  intros H. unfold splice. rewrite Nat2Z.id.
  destruct (k <? s)%nat eqn:E1.
  - rewrite nth_error_app1 by (rewrite firstn_length; lia).
    rewrite nth_error_firstn'. rewrite E1. reflexivity.
  - rewrite nth_error_app2 by (rewrite firstn_length; lia).
    rewrite firstn_length. replace (Nat.min s (length buf)) with s by lia.
    destruct (k <? s + length bytes)%nat eqn:E2.
    + rewrite nth_error_app1 by lia. reflexivity.
    + rewrite nth_error_app2 by lia. rewrite nth_error_skipn'. f_equal. lia.
Qed.

(* ---- masks and truncations ---------------------------------------------------------------------- *)
Lemma mask_val t : mask t = 2 ^ bits t - 1.
Proof. destruct t; reflexivity. Qed.

Lemma raw_new_mod t v : raw_new t v = v mod 2 ^ bits t.
Proof.
  unfold raw_new. rewrite mask_val.
  replace (2 ^ bits t - 1) with (Z.ones (bits t)) by (destruct t; reflexivity).
  apply Z.land_ones. destruct t; cbn; lia.
Qed.

Lemma raw_new_id t v : raw_ok t v -> raw_new t v = v.
Proof. unfold raw_ok. intros H. rewrite raw_new_mod. apply Z.mod_small. lia. Qed.

Lemma raw_new_ok t v : raw_ok t (raw_new t v).
Proof. unfold raw_ok. rewrite raw_new_mod. apply Z.mod_pos_bound. destruct t; cbn; lia. Qed.

(* ---- single-byte facts, decided over the whole finite domain ------------------------------------
   3 widths x 2 orders x pixel positions in the byte x 256 bytes x all values. *)
Definition ppb (t : rawty) : Z := 8 / bits t.
Definition bit_index (t : rawty) (alt : order) (i : Z) : Z := snd (bit_position t alt i).

Definition byte_check (t : rawty) (alt : order) (pos byte v : Z) : bool :=
  let k := bit_index t alt pos in
  let nb := store_byte t k v byte in
  (0 <=? nb) && (nb <? 256)
  (* reading back gives v *)
  && (raw_new t (Z.shiftr nb k) =? v)
  (* arithmetic reading of the masked write: the field [k, k + bits) is replaced by v *)
  && (nb =? byte - ((byte / 2 ^ k) mod 2 ^ bits t) * 2 ^ k + v * 2 ^ k)
  (* the other pixels of the byte read the same *)
  && forallb (fun pos' => (pos' =? pos) ||
        (raw_new t (Z.shiftr nb (bit_index t alt pos')) =? raw_new t (Z.shiftr byte (bit_index t alt pos'))))
       (range 0 (ppb t))
  (* every bit outside the field is unchanged *)
  && forallb (fun q => ((k <=? q) && (q <? k + bits t)) || Bool.eqb (Z.testbit nb q) (Z.testbit byte q)) (range 0 8).

Definition load_check (t : rawty) (alt : order) (pos byte : Z) : bool :=
  let k := bit_index t alt pos in
  (raw_new t (Z.shiftr byte k) =? (byte / 2 ^ k) mod 2 ^ bits t)
  && (k =? if alt then pos * bits t else 8 - (pos + 1) * bits t)
  && (0 <=? k) && (k + bits t <=? 8).

Definition cell_check (t : rawty) (alt : order) (pos byte : Z) : bool :=
  load_check t alt pos byte && forallb (fun v => byte_check t alt pos byte v) (range 0 (2 ^ bits t)).
Definition pos_check t alt pos := forallb (cell_check t alt pos) (range 0 256).
Definition order_check t alt := forallb (pos_check t alt) (range 0 (ppb t)).
Definition ty_check t := forallb (order_check t) [false; true].

Lemma all_byte_checks_true : forallb ty_check [U1; U2; U4] = true.
Proof. vm_compute. reflexivity. Qed.

(* ---- unpacking the decided table ------------------------------------------------------------------ *)
Lemma sub_byte_cases t : sub_byte t -> t = U1 \/ t = U2 \/ t = U4.
Proof. auto. Qed.

Lemma ppb_bits t : sub_byte t -> 0 < ppb t /\ ppb t * bits t = 8 /\ 0 < bits t.
Proof. intros [->|[->| ->]]; cbv; repeat split; congruence. Qed.

Lemma forallb_In {A} (f : A -> bool) l x : forallb f l = true -> In x l -> f x = true.
Proof. intros H. rewrite forallb_forall in H. auto. Qed.

Lemma byte_facts t alt pos byte v :
  sub_byte t -> 0 <= pos < ppb t -> 0 <= byte < 256 -> raw_ok t v ->
  load_check t alt pos byte = true /\ byte_check t alt pos byte v = true.
Proof.
  intros St Hp Hb Hv.
  assert (I1 : In t [U1; U2; U4]) by (destruct St as [->|[->| ->]]; cbn [In]; tauto).
  assert (I2 : In alt [false; true]) by (destruct alt; cbn [In]; tauto).
  pose proof (forallb_In _ _ t all_byte_checks_true I1) as A.
  pose proof (forallb_In _ _ alt A I2) as B.
  pose proof (forallb_In _ _ pos B (proj2 (In_range _ _ _) Hp)) as C.
  pose proof (forallb_In _ _ byte C (proj2 (In_range _ _ _) Hb)) as D.
  unfold cell_check in D.
  apply andb_true_iff in D. destruct D as [D1 D2]. split; [exact D1|].
  exact (forallb_In _ _ v D2 (proj2 (In_range _ _ _) Hv)).
Qed.

Lemma sb_load t alt pos byte :
  sub_byte t -> 0 <= pos < ppb t -> 0 <= byte < 256 ->
  let k := bit_index t alt pos in
  raw_new t (Z.shiftr byte k) = (byte / 2 ^ k) mod 2 ^ bits t /\
  k = (if alt then pos * bits t else 8 - (pos + 1) * bits t) /\ 0 <= k /\ k + bits t <= 8.
Proof.
  intros St Hp Hb k.
  assert (Hv : raw_ok t 0) by (unfold raw_ok; destruct t; cbv; split; congruence).
  destruct (byte_facts t alt pos byte 0 St Hp Hb Hv) as [L _].
  unfold load_check in L. fold k in L.
  repeat (apply andb_true_iff in L; destruct L as [L ?]).
  repeat split; lia.
Qed.

Lemma sb_store t alt pos byte v :
  sub_byte t -> 0 <= pos < ppb t -> 0 <= byte < 256 -> raw_ok t v ->
  let k := bit_index t alt pos in
  let nb := store_byte t k v byte in
  0 <= nb < 256 /\
  raw_new t (Z.shiftr nb k) = v /\
  nb = byte - ((byte / 2 ^ k) mod 2 ^ bits t) * 2 ^ k + v * 2 ^ k /\
  (forall pos', 0 <= pos' < ppb t -> pos' <> pos ->
     raw_new t (Z.shiftr nb (bit_index t alt pos')) = raw_new t (Z.shiftr byte (bit_index t alt pos'))) /\
  (forall q, 0 <= q < 8 -> ~ (k <= q < k + bits t) -> Z.testbit nb q = Z.testbit byte q).
Proof.
  intros St Hp Hb Hv k nb.
  destruct (byte_facts t alt pos byte v St Hp Hb Hv) as [_ S].
  unfold byte_check in S. fold k in S. fold nb in S.
  apply andb_true_iff in S; destruct S as [S S5].
  apply andb_true_iff in S; destruct S as [S S4].
  apply andb_true_iff in S; destruct S as [S S3].
  apply andb_true_iff in S; destruct S as [S S2].
  apply andb_true_iff in S; destruct S as [S0 S1].
  rewrite forallb_forall in S4, S5.
  split; [lia|]. split; [lia|]. split; [lia|]. split.
  - intros pos' Hp' N. specialize (S4 pos' (proj2 (In_range _ _ _) Hp')).
    apply orb_true_iff in S4. destruct S4 as [S4|S4]; lia.
  - intros q Hq N. specialize (S5 q (proj2 (In_range _ _ _) Hq)).
    apply orb_true_iff in S5. destruct S5 as [S5|S5]; [lia|]. apply Bool.eqb_prop in S5. exact S5.
Qed.

(* ---- sub-byte pixels in a buffer -------------------------------------------------------------------- *)
Definition byte_at (buf : list Z) (k : Z) : Z := nth (Z.to_nat k) buf 0.

Lemma bit_position_eq t alt i :
  sub_byte t -> bit_position t alt i = (i / ppb t, bit_index t alt (i mod ppb t)).
Proof.
  intros St. destruct (ppb_bits t St) as [P _].
  unfold bit_index, bit_position. cbn [snd]. fold (ppb t). rewrite Z.mod_mod by lia. reflexivity.
Qed.

Lemma sub_total t len i : sub_byte t -> 0 <= i -> 0 <= len ->
  (i < pixels_total t len <-> i / ppb t < len) /\ 0 <= i mod ppb t < ppb t /\ 0 <= i / ppb t.
Proof.
  intros St Hi Hl. unfold pixels_total, ppb.
  destruct St as [->|[->| ->]]; cbn; lia.
Qed.

Lemma buf_len_nonneg buf : 0 <= buf_len buf.
Proof. unfold buf_len. lia. Qed.

Lemma byte_at_ok buf k : bytes_ok buf -> 0 <= byte_at buf k < 256.
Proof. intros. apply bytes_ok_nth. auto. Qed.

Lemma load_sub_in t alt buf i :
  sub_byte t -> 0 <= i < pixels_total t (buf_len buf) ->
  load t alt buf i = Some (raw_new t (Z.shiftr (byte_at buf (i / ppb t)) (bit_index t alt (i mod ppb t)))).
Proof.
  intros St Hi.
  destruct (sub_total t (buf_len buf) i St (proj1 Hi) (buf_len_nonneg buf)) as (T & M & D).
  assert (E : load t alt buf i = load_bits t alt buf i) by (destruct St as [->|[->| ->]]; reflexivity).
  rewrite E. unfold load_bits. rewrite bit_position_eq by auto.
  rewrite get_lt by lia. reflexivity.
Qed.

Lemma load_sub_oob t alt buf i :
  sub_byte t -> 0 <= i -> pixels_total t (buf_len buf) <= i -> load t alt buf i = None.
Proof.
  intros St Hi Ho.
  destruct (sub_total t (buf_len buf) i St Hi (buf_len_nonneg buf)) as (T & M & D).
  assert (E : load t alt buf i = load_bits t alt buf i) by (destruct St as [->|[->| ->]]; reflexivity).
  rewrite E. unfold load_bits. rewrite bit_position_eq by auto.
  replace (get buf (i / ppb t)) with (@None Z); [reflexivity|].
  symmetry. apply get_None_iff; lia.
Qed.

Lemma store_sub_in t alt v buf i :
  sub_byte t -> 0 <= i < pixels_total t (buf_len buf) ->
  store t alt v buf i =
  (upd buf (Z.to_nat (i / ppb t))
       (store_byte t (bit_index t alt (i mod ppb t)) v (byte_at buf (i / ppb t))), true).
Proof.
  intros St Hi.
  destruct (sub_total t (buf_len buf) i St (proj1 Hi) (buf_len_nonneg buf)) as (T & M & D).
  assert (E : store t alt v buf i = store_bits t alt v buf i) by (destruct St as [->|[->| ->]]; reflexivity).
  rewrite E. unfold store_bits. rewrite bit_position_eq by auto.
  rewrite get_lt by lia. reflexivity.
Qed.

Lemma store_sub_oob t alt v buf i :
  sub_byte t -> 0 <= i -> pixels_total t (buf_len buf) <= i -> store t alt v buf i = (buf, false).
Proof.
  intros St Hi Ho.
  destruct (sub_total t (buf_len buf) i St Hi (buf_len_nonneg buf)) as (T & M & D).
  assert (E : store t alt v buf i = store_bits t alt v buf i) by (destruct St as [->|[->| ->]]; reflexivity).
  rewrite E. unfold store_bits. rewrite bit_position_eq by auto.
  replace (get buf (i / ppb t)) with (@None Z); [reflexivity|].
  symmetry. apply get_None_iff; lia.
Qed.

(* ---- byte_at on updated buffers ---------------------------------------------------------------------- *)
Lemma nth_via_error {A} (l : list A) n d : nth n l d = match nth_error l n with Some x => x | None => d end.
Proof. revert n; induction l; intros [|n]; cbn [nth nth_error]; auto. Qed.

Lemma byte_at_upd_eq buf k x : 0 <= k < buf_len buf -> byte_at (upd buf (Z.to_nat k) x) k = x.
Proof.
  intros H. unfold byte_at. rewrite nth_via_error, nth_error_upd_eq; auto. unfold buf_len in H. lia.
Qed.

Lemma byte_at_upd_neq buf k j x : 0 <= k -> 0 <= j -> k <> j -> byte_at (upd buf (Z.to_nat k) x) j = byte_at buf j.
Proof.
  intros Hk Hj N. unfold byte_at. rewrite !nth_via_error, nth_error_upd_neq; auto. lia.
Qed.

Lemma byte_at_oob buf k : buf_len buf <= k -> byte_at buf k = 0.
Proof. intros H. unfold byte_at. apply nth_overflow. unfold buf_len in H. lia. Qed.

(* ---- sub-byte: round trip, frame ----------------------------------------------------------------------- *)
Lemma sub_load_store t alt v buf i :
  sub_byte t -> bytes_ok buf -> raw_ok t v -> 0 <= i < pixels_total t (buf_len buf) ->
  exists buf', store t alt v buf i = (buf', true) /\ load t alt buf' i = Some v /\
               buf_len buf' = buf_len buf /\ bytes_ok buf'.
Proof.
  intros St Hb Hv Hi.
  destruct (sub_total t (buf_len buf) i St (proj1 Hi) (buf_len_nonneg buf)) as (T & M & D).
  rewrite store_sub_in by auto. eexists; split; [reflexivity|].
  pose proof (sb_store t alt (i mod ppb t) (byte_at buf (i / ppb t)) v St M (byte_at_ok _ _ Hb) Hv) as S.
  cbv zeta in S. destruct S as (S0 & S1 & _).
  split; [|split].
  - rewrite load_sub_in by (auto; rewrite buf_len_upd; auto).
    rewrite byte_at_upd_eq by lia. rewrite S1. reflexivity.
  - apply buf_len_upd.
  - apply bytes_ok_upd; auto.
Qed.

Lemma sub_store_frame t alt v buf i j :
  sub_byte t -> bytes_ok buf -> raw_ok t v -> 0 <= i < pixels_total t (buf_len buf) -> 0 <= j -> j <> i ->
  load t alt (fst (store t alt v buf i)) j = load t alt buf j.
Proof.
  intros St Hb Hv Hi Hj N.
  destruct (sub_total t (buf_len buf) i St (proj1 Hi) (buf_len_nonneg buf)) as (T & M & D).
  destruct (sub_total t (buf_len buf) j St Hj (buf_len_nonneg buf)) as (T' & M' & D').
  rewrite store_sub_in by auto. cbn [fst].
  destruct (Z_lt_ge_dec j (pixels_total t (buf_len buf))) as [L|L].
  - rewrite !load_sub_in by (auto; rewrite ?buf_len_upd; auto).
    destruct (Z.eq_dec (j / ppb t) (i / ppb t)) as [E|E].
    + rewrite E. rewrite byte_at_upd_eq by lia.
      pose proof (sb_store t alt (i mod ppb t) (byte_at buf (i / ppb t)) v St M (byte_at_ok _ _ Hb) Hv) as S.
      cbv zeta in S. destruct S as (_ & _ & _ & S3 & _).
      rewrite S3; auto. intros E2. apply N.
      rewrite (Z.div_mod j (ppb t)), (Z.div_mod i (ppb t)) by lia. congruence.
    + rewrite byte_at_upd_neq by lia. reflexivity.
  - rewrite !load_sub_oob; auto; rewrite ?buf_len_upd; lia.
Qed.

(* ---- 8 bits per pixel ------------------------------------------------------------------------------------- *)
Lemma raw_new_byte b : 0 <= b < 256 -> raw_new U8 b = b.
Proof. intros. apply raw_new_id. unfold raw_ok. cbn. lia. Qed.

Lemma u8_total len : pixels_total U8 len = len.
Proof. unfold pixels_total. cbn. lia. Qed.

Lemma load_u8_in alt buf i : 0 <= i < buf_len buf -> load U8 alt buf i = Some (raw_new U8 (byte_at buf i)).
Proof. intros H. cbn [load]. unfold load_u8. rewrite get_lt by auto. reflexivity. Qed.

Lemma load_u8_oob alt buf i : 0 <= i -> buf_len buf <= i -> load U8 alt buf i = None.
Proof.
  intros H H'. cbn [load]. unfold load_u8. replace (get buf i) with (@None Z); auto.
  symmetry; apply get_None_iff; auto.
Qed.

Lemma store_u8_in alt v buf i : 0 <= i < buf_len buf -> store U8 alt v buf i = (upd buf (Z.to_nat i) v, true).
Proof. intros H. cbn [store]. unfold store_u8. rewrite get_lt by auto. reflexivity. Qed.

Lemma store_u8_oob alt v buf i : 0 <= i -> buf_len buf <= i -> store U8 alt v buf i = (buf, false).
Proof.
  intros H H'. cbn [store]. unfold store_u8. replace (get buf i) with (@None Z); auto.
  symmetry; apply get_None_iff; auto.
Qed.

Lemma u8_load_store alt v buf i :
  bytes_ok buf -> raw_ok U8 v -> 0 <= i < pixels_total U8 (buf_len buf) ->
  exists buf', store U8 alt v buf i = (buf', true) /\ load U8 alt buf' i = Some v /\
               buf_len buf' = buf_len buf /\ bytes_ok buf'.
Proof.
  intros Hb Hv Hi. rewrite u8_total in Hi. rewrite store_u8_in by auto.
  eexists; split; [reflexivity|]. split; [|split].
  - rewrite load_u8_in by (rewrite buf_len_upd; auto). rewrite byte_at_upd_eq by auto.
    rewrite raw_new_id; auto.
  - apply buf_len_upd.
  - apply bytes_ok_upd; auto.
Qed.

Lemma u8_store_frame alt v buf i j :
  0 <= i < pixels_total U8 (buf_len buf) -> 0 <= j -> j <> i ->
  load U8 alt (fst (store U8 alt v buf i)) j = load U8 alt buf j.
Proof.
  intros Hi Hj N. rewrite u8_total in Hi. rewrite store_u8_in by auto. cbn [fst].
  destruct (Z_lt_ge_dec j (buf_len buf)).
  - rewrite !load_u8_in by (rewrite ?buf_len_upd; lia). rewrite byte_at_upd_neq by lia. reflexivity.
  - rewrite !load_u8_oob; rewrite ?buf_len_upd; auto; lia.
Qed.
