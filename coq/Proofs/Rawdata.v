(* Lemmas about Model/Rawdata.v (property C11): load/store round trip, frame, out-of-range behaviour,
   documented layouts, RawDataIterator = [load 0, load 1, ...], nth, size_hint. *)
From EG Require Import Base.Prelude Base.Lemmas Model.Rawdata.
From Coq Require Import ZifyBool.

Ltac Zify.zify_post_hook ::= Z.to_euclidean_division_equations.
Set Default Timeout 60.

(* ---- ranges of validity ----------------------------------------------------------------------- *)
(* every byte of a buffer is an u8 *)
Definition bytes_ok (buf : list Z) : Prop := Forall (fun b => 0 <= b < 256) buf.
(* a raw value as `new` / `from_u32` produce it *)
Definition raw_ok (t : rawty) (v : Z) : Prop := 0 <= v < 2 ^ bits t.
(* an index for which `index * bytes_per_pixel` stays inside usize: there the unbounded model and
   the machine agree (always true for <= 8 bpp, where nbytes t <= 1 and i is an usize) *)
Definition idx_ok (t : rawty) (i : Z) : Prop := 0 <= i /\ i * nbytes t <= usize_max.

Definition sub_byte (t : rawty) : Prop := t = U1 \/ t = U2 \/ t = U4.
Definition multi_byte (t : rawty) : Prop := t = U16 \/ t = U24 \/ t = U32.

Lemma rawty_cases t : sub_byte t \/ t = U8 \/ multi_byte t.
Proof. unfold sub_byte, multi_byte. destruct t; tauto. Qed.

(* ---- list lemmas -------------------------------------------------------------------------------- *)
Lemma nth_error_ext' {A} (l l' : list A) : (forall n, nth_error l n = nth_error l' n) -> l = l'.
Proof.
  revert l'; induction l as [|x l IH]; intros [|y l'] H; auto.
  - specialize (H O); discriminate.
  - specialize (H O); discriminate.
  - f_equal. { specialize (H O). cbn in H. congruence. }
    apply IH. intros n. apply (H (Datatypes.S n)).
Qed.

Lemma length_upd l n v : length (upd l n v) = length l.
Proof. revert n; induction l as [|x l IH]; intros [|n]; cbn [upd length]; auto. Qed.

Lemma nth_error_upd_eq l n v : (n < length l)%nat -> nth_error (upd l n v) n = Some v.
Proof.
  revert n; induction l as [|x l IH]; intros [|n] H; cbn [upd length nth_error] in *; try lia; auto.
  apply IH; lia.
Qed.

Lemma nth_error_upd_neq l n m v : m <> n -> nth_error (upd l n v) m = nth_error l m.
Proof.
  revert n m; induction l as [|x l IH]; intros [|n] [|m] H; cbn [upd nth_error]; auto; try congruence.
Qed.

Lemma nth_error_firstn' {A} (l : list A) n k :
  nth_error (firstn n l) k = if (k <? n)%nat then nth_error l k else None.
Proof.
  revert n k; induction l as [|x l IH]; intros [|n] [|k]; cbn [firstn nth_error]; auto.
  - destruct (_ <? _)%nat; reflexivity.
  - rewrite IH. reflexivity.
Qed.

Lemma nth_error_skipn' {A} (l : list A) n k : nth_error (skipn n l) k = nth_error l (n + k).
Proof.
  revert n; induction l as [|x l IH]; intros [|n]; cbn [skipn nth_error Nat.add]; auto.
  destruct k; reflexivity.
Qed.

Lemma nth_error_None_ge {A} (l : list A) n : (length l <= n)%nat -> nth_error l n = None.
Proof. apply nth_error_None. Qed.

Lemma nth_error_nth' {A} (l : list A) n d x : nth_error l n = Some x -> nth n l d = x.
Proof. revert n; induction l; intros [|n]; cbn; intros; try discriminate; try congruence; auto. Qed.

Lemma nth_error_nth_lt {A} (l : list A) n d : (n < length l)%nat -> nth_error l n = Some (nth n l d).
Proof. revert n; induction l; intros [|n]; cbn [length nth nth_error]; intros; try lia; auto. apply IHl. lia. Qed.

Lemma bytes_ok_nth_error buf n b : bytes_ok buf -> nth_error buf n = Some b -> 0 <= b < 256.
Proof. intros H E. apply nth_error_In in E. unfold bytes_ok in H. rewrite Forall_forall in H. auto. Qed.

Lemma bytes_ok_nth buf n : bytes_ok buf -> 0 <= nth n buf 0 < 256.
Proof.
  intros H. destruct (Nat.lt_ge_cases n (length buf)) as [L|L].
  - eapply bytes_ok_nth_error; eauto. apply nth_error_nth_lt; auto.
  - rewrite nth_overflow by lia. lia.
Qed.

Lemma bytes_ok_upd buf n v : bytes_ok buf -> 0 <= v < 256 -> bytes_ok (upd buf n v).
Proof.
  unfold bytes_ok. intros H Hv. revert n; induction H; intros [|n]; cbn [upd]; constructor; auto.
Qed.

(* get / buf_len *)
Lemma get_Some buf i b : 0 <= i -> get buf i = Some b -> i < buf_len buf /\ nth_error buf (Z.to_nat i) = Some b.
Proof. unfold get. intros Hi. destruct (i <? buf_len buf) eqn:E; [|discriminate]. intros; split; [lia|auto]. Qed.

Lemma get_None_iff buf i : 0 <= i -> (get buf i = None <-> buf_len buf <= i).
Proof.
  unfold get, buf_len. intros Hi. destruct (i <? _) eqn:E; split; intros H; try lia; auto.
  apply nth_error_None in H. lia.
Qed.

Lemma get_lt buf i : 0 <= i < buf_len buf -> get buf i = Some (nth (Z.to_nat i) buf 0).
Proof.
  unfold get, buf_len. intros H. replace (i <? _) with true by lia. apply nth_error_nth_lt. lia.
Qed.

Lemma buf_len_upd buf n v : buf_len (upd buf n v) = buf_len buf.
Proof. unfold buf_len. rewrite length_upd. reflexivity. Qed.

Lemma get_upd_eq buf i v : 0 <= i < buf_len buf -> get (upd buf (Z.to_nat i) v) i = Some v.
Proof.
  intros H. unfold get. rewrite buf_len_upd. replace (i <? _) with true by lia.
  apply nth_error_upd_eq. unfold buf_len in H. lia.
Qed.

Lemma get_upd_neq buf i j v : 0 <= i -> 0 <= j -> i <> j -> get (upd buf (Z.to_nat i) v) j = get buf j.
Proof.
  intros Hi Hj N. unfold get. rewrite buf_len_upd. destruct (j <? _); auto.
  apply nth_error_upd_neq. lia.
Qed.

(* splice *)
Lemma length_splice buf s bytes :
  (s + length bytes <= length buf)%nat -> length (splice buf (Z.of_nat s) bytes) = length buf.
Proof.
  intros H. unfold splice. rewrite Nat2Z.id, !app_length, firstn_length, skipn_length. lia.
Qed.

Lemma nth_error_splice buf s bytes k :
  (s + length bytes <= length buf)%nat ->
  nth_error (splice buf (Z.of_nat s) bytes) k =
  if (k <? s)%nat then nth_error buf k
  else if (k <? s + length bytes)%nat then nth_error bytes (k - s) else nth_error buf k.
Proof.
  intros H. unfold splice. rewrite Nat2Z.id.
  destruct (k <? s)%nat eqn:E1.
  - rewrite nth_error_app1 by (rewrite firstn_length; lia).
    rewrite nth_error_firstn'. rewrite E1. reflexivity.
  - rewrite nth_error_app2 by (rewrite firstn_length; lia).
    rewrite firstn_length. replace (Nat.min s (length buf)) with s by lia.
    destruct (k <? s + length bytes)%nat eqn:E2.
    + rewrite nth_error_app1 by lia. reflexivity.
    + rewrite nth_error_app2 by lia. rewrite nth_error_skipn'. f_equal. lia.
Qed.

(* ---- masks and truncations ---------------------------------------------------------------------- *)
Lemma mask_val t : mask t = 2 ^ bits t - 1.
Proof. destruct t; reflexivity. Qed.

Lemma raw_new_mod t v : raw_new t v = v mod 2 ^ bits t.
Proof.
  unfold raw_new. rewrite mask_val.
  replace (2 ^ bits t - 1) with (Z.ones (bits t)) by (destruct t; reflexivity).
  apply Z.land_ones. destruct t; cbn; lia.
Qed.

Lemma raw_new_id t v : raw_ok t v -> raw_new t v = v.
Proof. unfold raw_ok. intros H. rewrite raw_new_mod. apply Z.mod_small. lia. Qed.

Lemma raw_new_ok t v : raw_ok t (raw_new t v).
Proof. unfold raw_ok. rewrite raw_new_mod. apply Z.mod_pos_bound. destruct t; cbn; lia. Qed.

(* ---- single-byte facts, decided over the whole finite domain ------------------------------------
   3 widths x 2 orders x pixel positions in the byte x 256 bytes x all values. *)
Definition ppb (t : rawty) : Z := 8 / bits t.
Definition bit_index (t : rawty) (alt : order) (i : Z) : Z := snd (bit_position t alt i).

Definition byte_check (t : rawty) (alt : order) (pos byte v : Z) : bool :=
  let k := bit_index t alt pos in
  let nb := store_byte t k v byte in
  (0 <=? nb) && (nb <? 256)
  (* reading back gives v *)
  && (raw_new t (Z.shiftr nb k) =? v)
  (* arithmetic reading of the masked write: the field [k, k + bits) is replaced by v *)
  && (nb =? byte - ((byte / 2 ^ k) mod 2 ^ bits t) * 2 ^ k + v * 2 ^ k)
  (* the other pixels of the byte read the same *)
  && forallb (fun pos' => (pos' =? pos) ||
        (raw_new t (Z.shiftr nb (bit_index t alt pos')) =? raw_new t (Z.shiftr byte (bit_index t alt pos'))))
       (range 0 (ppb t))
  (* every bit outside the field is unchanged *)
  && forallb (fun q => ((k <=? q) && (q <? k + bits t)) || Bool.eqb (Z.testbit nb q) (Z.testbit byte q)) (range 0 8).

Definition load_check (t : rawty) (alt : order) (pos byte : Z) : bool :=
  let k := bit_index t alt pos in
  (raw_new t (Z.shiftr byte k) =? (byte / 2 ^ k) mod 2 ^ bits t)
  && (k =? if alt then pos * bits t else 8 - (pos + 1) * bits t)
  && (0 <=? k) && (k + bits t <=? 8).

Definition all_byte_checks : bool :=
  forallb (fun t => forallb (fun alt => forallb (fun pos => forallb (fun byte =>
    load_check t alt pos byte && forallb (fun v => byte_check t alt pos byte v) (range 0 (2 ^ bits t)))
    (range 0 256)) (range 0 (ppb t))) [false; true]) [U1; U2; U4].

Lemma all_byte_checks_true : all_byte_checks = true.
Proof. vm_compute. reflexivity. Qed.

