(* Lemmas about Model/Rrect.v (RoundedRectangle family): CornerRadii::confine, EllipseQuadrant,
   RoundedRectangleContains, Scanlines / Points, styled drawing.  Properties C05, C06, C18 and the
   rounded-rectangle parts of C01, C02, C07. *)
From EG Require Import Base.Prelude Base.Lemmas Model.Geometry Model.Style Model.Rrect Proofs.Geometry.
From Coq Require Import ZifyBool Sorting.Sorted.

Ltac Zify.zify_post_hook ::= Z.to_euclidean_division_equations.
Set Default Timeout 60.

(* ------------------------------------------------------------------------------------------ *)
(* Domain predicates                                                                            *)
(* ------------------------------------------------------------------------------------------ *)
Definition sz_nonneg (s : size) : Prop := 0 <= sw s /\ 0 <= sh s.
Definition radii_nonneg (c : radii) : Prop :=
  sz_nonneg (r_tl c) /\ sz_nonneg (r_tr c) /\ sz_nonneg (r_br c) /\ sz_nonneg (r_bl c).

(* "the radii on each side sum to at most the side" *)
Definition radii_fit (c : radii) (bb : size) : Prop :=
  sw (r_tl c) + sw (r_tr c) <= sw bb /\ sw (r_bl c) + sw (r_br c) <= sw bb /\
  sh (r_tl c) + sh (r_bl c) <= sh bb /\ sh (r_tr c) + sh (r_br c) <= sh bb.

(* ------------------------------------------------------------------------------------------ *)
(* CornerRadii::confine                                                                         *)
(* ------------------------------------------------------------------------------------------ *)
(* invariant of the loop over the four sides: `acc` = (size, corner_size) dominates side (R, S) *)
Definition side_inv (acc rs : Z * Z) : Prop :=
  (snd acc = 0 /\ fst rs <= snd rs) \/ (0 <= fst acc < snd acc /\ fst rs * fst acc <= snd acc * snd rs).
Definition acc_ok (acc : Z * Z) : Prop := snd acc = 0 \/ 0 <= fst acc < snd acc.

Lemma confine_step_ok acc rs : 0 <= snd rs -> acc_ok acc -> acc_ok (confine_step acc rs).
Proof.
  destruct acc as [size cs], rs as [R S0]. unfold acc_ok, confine_step. cbn [fst snd].
  intros HS H. destruct ((S0 <? R) && ((cs =? 0) || (cs * S0 <? R * size))) eqn:E; cbn [fst snd]; lia.
Qed.

Lemma confine_step_self acc rs : 0 <= snd rs -> acc_ok acc -> side_inv (confine_step acc rs) rs.
Proof.
  destruct acc as [size cs], rs as [R S0]. unfold acc_ok, side_inv, confine_step. cbn [fst snd].
  intros HS H. destruct ((S0 <? R) && ((cs =? 0) || (cs * S0 <? R * size))) eqn:E; cbn [fst snd].
  - right. lia.
  - destruct (Z.eq_dec cs 0) as [->|Hc].
    + left. lia.
    + right. split; [lia|]. destruct (Z_lt_le_dec S0 R) as [Hlt|Hle]; [lia|]. nia.
Qed.

Lemma confine_step_keep acc rs old :
  0 <= snd rs -> 0 <= snd old -> acc_ok acc -> side_inv acc old -> side_inv (confine_step acc rs) old.
Proof.
  destruct acc as [size cs], rs as [R S0], old as [R1 S1]. unfold acc_ok, side_inv, confine_step. cbn [fst snd].
  intros HS HS1 Hok H. destruct ((S0 <? R) && ((cs =? 0) || (cs * S0 <? R * size))) eqn:E; cbn [fst snd]; [|exact H].
  right. split; [lia|].
  destruct H as [[-> Hle]|[Hsz Hle]].
  - assert (R1 * S0 <= S1 * S0) by nia. nia.
  - assert (cs * S0 < R * size) by lia.
    assert (0 < size) by nia.
    assert (R1 * size * S0 <= cs * S1 * S0) by nia.
    assert (cs * S0 * S1 <= R * size * S1) by nia.
    assert (R1 * S0 * size <= R * S1 * size) by lia.
    nia.
Qed.

(* after the loop every side is dominated by the chosen (size, corner_size) *)
Lemma confine_fold_inv s1 s2 s3 s4 :
  0 <= snd s1 -> 0 <= snd s2 -> 0 <= snd s3 -> 0 <= snd s4 ->
  let acc := fold_left confine_step [s1; s2; s3; s4] (0, 0) in
  acc_ok acc /\ side_inv acc s1 /\ side_inv acc s2 /\ side_inv acc s3 /\ side_inv acc s4.
Proof.
  intros H1 H2 H3 H4. cbn [fold_left].
  assert (acc_ok (0, 0)) as A0 by (left; reflexivity).
  pose proof (confine_step_ok _ s1 H1 A0) as A1.
  pose proof (confine_step_ok _ s2 H2 A1) as A2.
  pose proof (confine_step_ok _ s3 H3 A2) as A3.
  pose proof (confine_step_ok _ s4 H4 A3) as A4.
  pose proof (confine_step_self _ s1 H1 A0) as I1.
  pose proof (confine_step_self _ s2 H2 A1) as I2.
  pose proof (confine_step_self _ s3 H3 A2) as I3.
  pose proof (confine_step_self _ s4 H4 A3) as I4.
  repeat split; auto.
  - apply confine_step_keep; auto. apply confine_step_keep; auto. apply confine_step_keep; auto.
  - apply confine_step_keep; auto. apply confine_step_keep; auto.
  - apply confine_step_keep; auto.
Qed.

Lemma scaled_pair_fits r1 r2 size cs S0 :
  0 <= r1 -> 0 <= r2 -> 0 <= size -> 0 < cs -> (r1 + r2) * size <= cs * S0 ->
  r1 * size / cs + r2 * size / cs <= S0.
Proof. intros. nia. Qed.

Lemma scaled_le r size cs : 0 <= r -> 0 <= size < cs -> 0 <= r * size / cs <= r.
Proof. intros. split; [apply Z.div_pos; nia|]. apply Z.div_le_upper_bound; nia. Qed.

Theorem confine_sound c bb :
  radii_nonneg c -> sz_nonneg bb -> radii_fit (confine c bb) bb.
Proof.
  intros (Htl & Htr & Hbr & Hbl) Hbb. unfold sz_nonneg in *. unfold confine.
  pose proof (confine_fold_inv
    (sw (r_tl c) + sw (r_tr c), sw bb) (sh (r_tr c) + sh (r_br c), sh bb)
    (sw (r_bl c) + sw (r_br c), sw bb) (sh (r_tl c) + sh (r_bl c), sh bb)) as H.
  cbn [snd] in H. specialize (H ltac:(lia) ltac:(lia) ltac:(lia) ltac:(lia)). cbv zeta in H.
  destruct (fold_left confine_step _ (0, 0)) as [size cs].
  destruct H as (Hok & I1 & I2 & I3 & I4). unfold acc_ok, side_inv in *. cbn [fst snd] in *.
  destruct (0 <? cs) eqn:E.
  - unfold radii_fit, size_scale. cbn [r_tl r_tr r_br r_bl sw sh].
    repeat split; apply scaled_pair_fits; lia.
  - unfold radii_fit. lia.
Qed.

Theorem confine_nonneg c bb : radii_nonneg c -> sz_nonneg bb -> radii_nonneg (confine c bb).
Proof.
  intros (Htl & Htr & Hbr & Hbl) Hbb. unfold sz_nonneg in *. unfold confine.
  destruct (fold_left confine_step _ (0, 0)) as [size cs] eqn:F.
  destruct (0 <? cs) eqn:E; [|unfold radii_nonneg, sz_nonneg; tauto].
  pose proof (confine_fold_inv
    (sw (r_tl c) + sw (r_tr c), sw bb) (sh (r_tr c) + sh (r_br c), sh bb)
    (sw (r_bl c) + sw (r_br c), sw bb) (sh (r_tl c) + sh (r_bl c), sh bb)) as H.
  cbn [snd] in H. specialize (H ltac:(lia) ltac:(lia) ltac:(lia) ltac:(lia)). cbv zeta in H.
  rewrite F in H. destruct H as (Hok & _). unfold acc_ok in Hok. cbn [fst snd] in Hok.
  unfold radii_nonneg, sz_nonneg, size_scale. cbn [r_tl r_tr r_br r_bl sw sh].
  repeat split; apply Z.div_pos; nia.
Qed.

(* radii that already fit are left alone *)
Theorem confine_fit_id c bb : radii_fit c bb -> confine c bb = c.
Proof.
  intros (H1 & H2 & H3 & H4). unfold confine, confine_step. cbn [fold_left].
  replace (sw bb <? sw (r_tl c) + sw (r_tr c)) with false by lia. cbn [andb].
  replace (sh bb <? sh (r_tr c) + sh (r_br c)) with false by lia. cbn [andb].
  replace (sw bb <? sw (r_bl c) + sw (r_br c)) with false by lia. cbn [andb].
  replace (sh bb <? sh (r_tl c) + sh (r_bl c)) with false by lia. cbn [andb].
  reflexivity.
Qed.

Theorem confine_idempotent c bb :
  radii_nonneg c -> sz_nonneg bb -> confine (confine c bb) bb = confine c bb.
Proof. intros. apply confine_fit_id, confine_sound; assumption. Qed.

(* ------------------------------------------------------------------------------------------ *)
(* find / rfind over integer ranges, monotone predicates                                        *)
(* ------------------------------------------------------------------------------------------ *)
Lemma range_snoc a b : a < b -> range a b = range a (b - 1) ++ [b - 1].
Proof.
  intros H. rewrite (range_app a (b - 1) b) by lia. f_equal.
  rewrite range_cons by lia. rewrite range_nil by lia. reflexivity.
Qed.

Lemma rfind_range_spec (f : Z -> bool) a b :
  match rfind f (range a b) with
  | Some x => a <= x < b /\ f x = true /\ (forall y, x < y < b -> f y = false)
  | None => forall y, a <= y < b -> f y = false
  end.
Proof.
  unfold rfind.
  remember (Z.to_nat (b - a)) as n eqn:E. revert b E.
  induction n as [|n IH]; intros b E.
  - rewrite range_nil by lia. cbn [rev find]. intros; lia.
  - rewrite range_snoc by lia. rewrite rev_app_distr. cbn [rev app find].
    destruct (f (b - 1)) eqn:Fb.
    + repeat split; try lia; auto.
    + specialize (IH (b - 1) ltac:(lia)). destruct (find f (rev (range a (b - 1)))) as [x|].
      * destruct IH as (H1 & H2 & H3). repeat split; try lia; auto.
        intros y Hy. destruct (Z.eq_dec y (b - 1)); [subst; assumption|apply H3; lia].
      * intros y Hy. destruct (Z.eq_dec y (b - 1)); [subst; assumption|apply IH; lia].
Qed.

Definition mono_up (f : Z -> bool) (lo hi : Z) : Prop :=
  forall x x', lo <= x <= x' -> x' < hi -> f x = true -> f x' = true.
Definition mono_down (f : Z -> bool) (lo hi : Z) : Prop :=
  forall x x', lo <= x' <= x -> x < hi -> f x = true -> f x' = true.

(* left end of a row: first hit in the quadrant's columns, else the first column right of them *)
Lemma left_find f lo hi :
  mono_up f lo hi -> lo <= hi ->
  let xs := match find f (range lo hi) with Some x => x | None => hi end in
  lo <= xs <= hi /\ forall x, lo <= x -> (negb (x <? hi) || f x) = (xs <=? x).
Proof.
  intros Hm Hle. pose proof (find_range_spec f lo hi) as Hs.
  destruct (find f (range lo hi)) as [xs|]; cbv zeta.
  - destruct Hs as (H1 & H2 & H3). split; [lia|]. intros x Hx.
    destruct (Z_lt_le_dec x hi) as [Hlt|Hge].
    + replace (x <? hi) with true by lia. cbn [negb orb].
      destruct (Z_lt_le_dec x xs) as [Hb|Ha].
      * rewrite H3 by lia. lia.
      * rewrite (Hm xs x) by (auto; lia). lia.
    + replace (x <? hi) with false by lia. cbn [negb orb]. lia.
  - split; [lia|]. intros x Hx. destruct (Z_lt_le_dec x hi) as [Hlt|Hge].
    + replace (x <? hi) with true by lia. cbn [negb orb]. rewrite Hs by lia. lia.
    + replace (x <? hi) with false by lia. cbn [negb orb]. lia.
Qed.

(* right end of a row: one past the last hit in the quadrant's columns, else their first column *)
Lemma right_find f lo hi :
  mono_down f lo hi -> lo <= hi ->
  let xe := match rfind f (range lo hi) with Some x => x + 1 | None => lo end in
  lo <= xe <= hi /\ forall x, x < hi -> (negb (lo <=? x) || f x) = (x <? xe).
Proof.
  intros Hm Hle. pose proof (rfind_range_spec f lo hi) as Hs.
  destruct (rfind f (range lo hi)) as [xl|]; cbv zeta.
  - destruct Hs as (H1 & H2 & H3). split; [lia|]. intros x Hx.
    destruct (Z_lt_le_dec x lo) as [Hlt|Hge].
    + replace (lo <=? x) with false by lia. cbn [negb orb]. lia.
    + replace (lo <=? x) with true by lia. cbn [negb orb].
      destruct (Z_lt_le_dec xl x) as [Hb|Ha].
      * rewrite H3 by lia. lia.
      * rewrite (Hm xl x) by (auto; lia). lia.
  - split; [lia|]. intros x Hx. destruct (Z_lt_le_dec x lo) as [Hlt|Hge].
    + replace (lo <=? x) with false by lia. cbn [negb orb]. lia.
    + replace (lo <=? x) with true by lia. cbn [negb orb]. rewrite Hs by lia. lia.
Qed.

(* ------------------------------------------------------------------------------------------ *)
(* EllipseContains / EllipseQuadrant: monotone along rows and columns of the quadrant box        *)
(* ------------------------------------------------------------------------------------------ *)
Lemma ec_new_nonneg s : 0 <= ec_a (ec_new s) /\ 0 <= ec_b (ec_new s).
Proof. unfold ec_new. cbn [ec_a ec_b]. nia. Qed.

(* moving towards the centre (in either coordinate) never leaves the ellipse *)
Lemma ec_contains_shrink e u v u' v' :
  0 <= ec_a e -> 0 <= ec_b e -> u' * u' <= u * u -> v' * v' <= v * v ->
  ec_contains e (P u v) = true -> ec_contains e (P u' v') = true.
Proof.
  unfold ec_contains. cbn [px py]. intros Ha Hb Hu Hv.
  destruct (ec_a e =? ec_b e); rewrite !Z.ltb_lt; nia.
Qed.

Definition is_left (q : quadrant) : bool := match q with QTopLeft | QBottomLeft => true | _ => false end.
Definition is_top (q : quadrant) : bool := match q with QTopLeft | QTopRight => true | _ => false end.

Lemma eq_new_bbox t rad q : eq_bbox (eq_new t rad q) = R t rad.
Proof. reflexivity. Qed.

Lemma eq_center_x t rad q :
  0 <= sw rad ->
  px (eq_center_2x (eq_new t rad q)) =
    if is_left q then 2 * px t + Z.max (2 * sw rad - 1) 0 else 2 * px t - 2 * sw rad + Z.max (2 * sw rad - 1) 0.
Proof.
  intros H. destruct q; unfold eq_new, rr_center_2x, x_axis, y_axis; unf; cbn [eq_center_2x is_left px py sw sh]; lia.
Qed.

Lemma eq_center_y t rad q :
  0 <= sh rad ->
  py (eq_center_2x (eq_new t rad q)) =
    if is_top q then 2 * py t + Z.max (2 * sh rad - 1) 0 else 2 * py t - 2 * sh rad + Z.max (2 * sh rad - 1) 0.
Proof.
  intros H. destruct q; unfold eq_new, rr_center_2x, x_axis, y_axis; unf; cbn [eq_center_2x is_top px py sw sh]; lia.
Qed.

Lemma eq_contains_shrink t rad q x y x' y' :
  let c := eq_center_2x (eq_new t rad q) in
  (2 * x' - px c) * (2 * x' - px c) <= (2 * x - px c) * (2 * x - px c) ->
  (2 * y' - py c) * (2 * y' - py c) <= (2 * y - py c) * (2 * y - py c) ->
  eq_contains (eq_new t rad q) (P x y) = true -> eq_contains (eq_new t rad q) (P x' y') = true.
Proof.
  cbv zeta. unfold eq_contains. unfold psub. cbn [px py].
  set (c := eq_center_2x (eq_new t rad q)).
  replace (eq_ellipse (eq_new t rad q)) with (ec_new (S (sw rad * 2) (sh rad * 2))) by reflexivity.
  intros Hx Hy. apply ec_contains_shrink; try apply ec_new_nonneg; lia.
Qed.

(* left quadrants: along a row, contained points form a suffix of the box columns *)
Lemma eq_left_mono t rad q y :
  is_left q = true -> 0 <= sw rad ->
  mono_up (fun x => eq_contains (eq_new t rad q) (P x y)) (px t) (px t + sw rad).
Proof.
  intros Hq Ha x x' Hx Hx'. apply eq_contains_shrink; [|lia].
  rewrite eq_center_x, Hq by assumption. nia.
Qed.

(* right quadrants: ... a prefix *)
Lemma eq_right_mono t rad q y :
  is_left q = false -> 0 <= sw rad ->
  mono_down (fun x => eq_contains (eq_new t rad q) (P x y)) (px t) (px t + sw rad).
Proof.
  intros Hq Ha x x' Hx Hx'. apply eq_contains_shrink; [|lia].
  rewrite eq_center_x, Hq by assumption. nia.
Qed.

Lemma eq_top_mono t rad q x :
  is_top q = true -> 0 <= sh rad ->
  mono_up (fun y => eq_contains (eq_new t rad q) (P x y)) (py t) (py t + sh rad).
Proof.
  intros Hq Ha y y' Hy Hy'. apply eq_contains_shrink; [lia|].
  rewrite eq_center_y, Hq by assumption. nia.
Qed.

Lemma eq_bottom_mono t rad q x :
  is_top q = false -> 0 <= sh rad ->
  mono_down (fun y => eq_contains (eq_new t rad q) (P x y)) (py t) (py t + sh rad).
Proof.
  intros Hq Ha y y' Hy Hy'. apply eq_contains_shrink; [lia|].
  rewrite eq_center_y, Hq by assumption. nia.
Qed.

(* ------------------------------------------------------------------------------------------ *)
(* Well-formed RoundedRectangleContains: what the scanline/contains agreement rests on          *)
(* ------------------------------------------------------------------------------------------ *)
Definition left_wf (c : rrc) (q : equad) : Prop :=
  let qc := columns (eq_bbox q) in
  fst qc = fst (c_columns c) /\ fst qc <= snd qc <= snd (c_columns c) /\
  forall y, mono_up (fun x => eq_contains q (P x y)) (fst qc) (snd qc).
Definition right_wf (c : rrc) (q : equad) : Prop :=
  let qc := columns (eq_bbox q) in
  snd qc = snd (c_columns c) /\ fst (c_columns c) <= fst qc <= snd qc /\
  forall y, mono_down (fun x => eq_contains q (P x y)) (fst qc) (snd qc).

Record rrc_wf (c : rrc) : Prop := {
  wf_srl : fst (c_srl c) <= snd (c_srl c);
  wf_srr : fst (c_srr c) <= snd (c_srr c);
  wf_tl : left_wf c (c_tl c);
  wf_bl : left_wf c (c_bl c);
  wf_tr : right_wf c (c_tr c);
  wf_br : right_wf c (c_br c)
}.

Definition left_ok (c : rrc) (y x : Z) : bool :=
  match left_quadrant c y with
  | None => true
  | Some q => negb (x <? snd (columns (eq_bbox q))) || eq_contains q (P x y)
  end.
Definition right_ok (c : rrc) (y x : Z) : bool :=
  match right_quadrant c y with
  | None => true
  | Some q => negb (fst (columns (eq_bbox q)) <=? x) || eq_contains q (P x y)
  end.

(* contains() = box test, and the test of the (at most one) corner on each side the row belongs to *)
Lemma rrc_contains_split c x y :
  fst (c_srl c) <= snd (c_srl c) -> fst (c_srr c) <= snd (c_srr c) ->
  rrc_contains c (P x y) =
  in_rng (c_rows c) y && in_rng (c_columns c) x && left_ok c y x && right_ok c y x.
Proof.
  intros Hl Hr. unfold rrc_contains, left_ok, right_ok, left_quadrant, right_quadrant. cbn [px py].
  destruct (in_rng (c_rows c) y); cbn [andb negb]; [|reflexivity].
  destruct (in_rng (c_columns c) x); cbn [andb negb]; [|reflexivity].
  destruct (y <? fst (c_srl c)) eqn:E1; destruct (snd (c_srl c) <=? y) eqn:E2; try lia;
  destruct (y <? fst (c_srr c)) eqn:E3; destruct (snd (c_srr c) <=? y) eqn:E4; try lia;
  cbn [andb negb orb];
  repeat match goal with
  | |- context [?a <? ?b] => destruct (a <? b); cbn [andb negb orb]
  | |- context [?a <=? ?b] => destruct (a <=? b); cbn [andb negb orb]
  | |- context [eq_contains ?q ?p] => destruct (eq_contains q p); cbn [andb negb orb]
  end; reflexivity.
Qed.

Lemma left_quadrant_cases c y q : left_quadrant c y = Some q -> q = c_tl c \/ q = c_bl c.
Proof.
  unfold left_quadrant. destruct (y <? fst (c_srl c)); [intros [= <-]; auto|].
  destruct (snd (c_srl c) <=? y); [intros [= <-]; auto|discriminate].
Qed.
Lemma right_quadrant_cases c y q : right_quadrant c y = Some q -> q = c_tr c \/ q = c_br c.
Proof.
  unfold right_quadrant. destruct (y <? fst (c_srr c)); [intros [= <-]; auto|].
  destruct (snd (c_srr c) <=? y); [intros [= <-]; auto|discriminate].
Qed.

Lemma wf_columns c : rrc_wf c -> fst (c_columns c) <= snd (c_columns c).
Proof. intros W. destruct (wf_tl c W) as (H1 & H2 & _). lia. Qed.

Lemma left_ok_spec c y :
  rrc_wf c ->
  fst (c_columns c) <= scan_x_start c y <= snd (c_columns c) /\
  forall x, fst (c_columns c) <= x -> left_ok c y x = (scan_x_start c y <=? x).
Proof.
  intros W. pose proof (wf_columns c W) as Hc. unfold left_ok, scan_x_start.
  destruct (left_quadrant c y) as [q|] eqn:Q.
  - assert (left_wf c q) as (H1 & H2 & H3).
    { destruct (left_quadrant_cases _ _ _ Q) as [-> | ->]; [apply (wf_tl c W)|apply (wf_bl c W)]. }
    pose proof (left_find (fun x => eq_contains q (P x y)) _ _ (H3 y) ltac:(lia)) as (Ha & Hb).
    cbv zeta in Ha, Hb. split; [lia|]. intros x Hx. apply Hb. lia.
  - split; [lia|]. intros x Hx. lia.
Qed.

Lemma right_ok_spec c y :
  rrc_wf c ->
  fst (c_columns c) <= scan_x_end c y <= snd (c_columns c) /\
  forall x, x < snd (c_columns c) -> right_ok c y x = (x <? scan_x_end c y).
Proof.
  intros W. pose proof (wf_columns c W) as Hc. unfold right_ok, scan_x_end.
  destruct (right_quadrant c y) as [q|] eqn:Q.
  - assert (right_wf c q) as (H1 & H2 & H3).
    { destruct (right_quadrant_cases _ _ _ Q) as [-> | ->]; [apply (wf_tr c W)|apply (wf_br c W)]. }
    pose proof (right_find (fun x => eq_contains q (P x y)) _ _ (H3 y) ltac:(lia)) as (Ha & Hb).
    cbv zeta in Ha, Hb. split; [lia|]. intros x Hx. apply Hb. lia.
  - split; [lia|]. intros x Hx. lia.
Qed.

(* the row of contains() is exactly the scanline of that row *)
Theorem rrc_row_spec c x y :
  rrc_wf c ->
  rrc_contains c (P x y) =
  in_rng (c_rows c) y && ((scan_x_start c y <=? x) && (x <? scan_x_end c y)).
Proof.
  intros W. rewrite rrc_contains_split by apply W.
  destruct (left_ok_spec c y W) as (Hs & Hl). destruct (right_ok_spec c y W) as (He & Hr).
  destruct (in_rng (c_rows c) y); cbn [andb]; [|reflexivity].
  unfold in_rng. destruct (Z_le_gt_dec (fst (c_columns c)) x) as [H1|H1].
  - destruct (Z_lt_le_dec x (snd (c_columns c))) as [H2|H2].
    + rewrite Hl, Hr by lia. replace (fst (c_columns c) <=? x) with true by lia.
      replace (x <? snd (c_columns c)) with true by lia. reflexivity.
    + replace (x <? snd (c_columns c)) with false by lia. rewrite andb_false_r. cbn [andb]. lia.
  - replace (fst (c_columns c) <=? x) with false by lia. cbn [andb]. lia.
Qed.

(* ------------------------------------------------------------------------------------------ *)
(* list plumbing                                                                                *)
(* ------------------------------------------------------------------------------------------ *)
Lemma filter_map_comm {A B} (f : B -> bool) (h : A -> B) l :
  filter f (map h l) = map h (filter (fun a => f (h a)) l).
Proof. induction l as [|a l IH]; cbn [map filter]; [reflexivity|]. destruct (f (h a)); cbn [map]; rewrite IH; reflexivity. Qed.

Lemma filter_app' {A} (f : A -> bool) l1 l2 : filter f (l1 ++ l2) = filter f l1 ++ filter f l2.
Proof. induction l1 as [|a l1 IH]; cbn [app filter]; [reflexivity|]. destruct (f a); cbn [app]; rewrite IH; reflexivity. Qed.

Lemma filter_ext_in' {A} (f g : A -> bool) l : (forall a, In a l -> f a = g a) -> filter f l = filter g l.
Proof.
  induction l as [|a l IH]; cbn [filter]; intros H; [reflexivity|].
  rewrite (H a) by (left; reflexivity). rewrite IH by (intros; apply H; right; assumption). reflexivity.
Qed.

Lemma filter_range_interval x0 x1 xs xe :
  x0 <= xs -> xe <= x1 ->
  filter (fun x => (xs <=? x) && (x <? xe)) (range x0 x1) = range xs xe.
Proof.
  intros H0 H1. destruct (Z_le_gt_dec xs xe) as [Hle|Hgt].
  - rewrite (range_app x0 xs x1) by lia. rewrite (range_app xs xe x1) by lia.
    rewrite !filter_app'.
    rewrite (filter_all_false _ (range x0 xs)) by (intros x Hx; apply In_range in Hx; lia).
    rewrite (filter_all_true _ (range xs xe)) by (intros x Hx; apply In_range in Hx; lia).
    rewrite (filter_all_false _ (range xe x1)) by (intros x Hx; apply In_range in Hx; lia).
    rewrite app_nil_r. reflexivity.
  - rewrite (range_nil xs xe) by lia. apply filter_all_false. intros x Hx. lia.
Qed.

Lemma filter_rows (f : point -> bool) x0 x1 ys (g : Z -> list Z) :
  (forall y, In y ys -> filter (fun x => f (P x y)) (range x0 x1) = g y) ->
  filter f (flat_map (fun y => map (fun x => P x y) (range x0 x1)) ys) =
  flat_map (fun y => map (fun x => P x y) (g y)) ys.
Proof.
  induction ys as [|y ys IH]; cbn [flat_map]; intros H; [reflexivity|].
  rewrite filter_app', filter_map_comm, (H y) by (left; reflexivity).
  rewrite IH by (intros; apply H; right; assumption). reflexivity.
Qed.

Lemma scanline_points_nil s : snd (snd s) <= fst (snd s) -> scanline_points s = [].
Proof. intros H. unfold scanline_points. rewrite range_nil by lia. reflexivity. Qed.

Lemma points_of_scanlines_flat l :
  Forall (fun s : scanline => fst (snd s) < snd (snd s)) l ->
  points_of_scanlines l = flat_map scanline_points l.
Proof.
  induction 1 as [|s l Hs Hl IH]; cbn [points_of_scanlines flat_map]; [reflexivity|].
  rewrite IH. unfold scanline_points at 1 3. rewrite range_cons by lia. reflexivity.
Qed.

Lemma scanlines_points c :
  points_of_scanlines (scanlines c) =
  flat_map (fun y => map (fun x => P x y) (range (scan_x_start c y) (scan_x_end c y)))
           (range (fst (c_rows c)) (snd (c_rows c))).
Proof.
  unfold scanlines. rewrite points_of_scanlines_flat.
  2:{ apply Forall_forall. intros s Hs. apply filter_In in Hs. destruct Hs as [_ Hs]. lia. }
  generalize (range (fst (c_rows c)) (snd (c_rows c))). intros ys.
  induction ys as [|y ys IH]; cbn [map filter flat_map]; [reflexivity|].
  cbn [fst snd]. destruct (scan_x_start c y <? scan_x_end c y) eqn:E; cbn [flat_map].
  - rewrite IH. reflexivity.
  - rewrite IH. rewrite (range_nil (scan_x_start c y)) by lia. reflexivity.
Qed.

(* points() of a well-formed RoundedRectangleContains = row-major filter of contains() over its box *)
Theorem rrc_points_spec c :
  rrc_wf c ->
  points_of_scanlines (scanlines c) =
  filter (rrc_contains c)
         (row_major (fst (c_columns c)) (snd (c_columns c)) (fst (c_rows c)) (snd (c_rows c))).
Proof.
  intros W. rewrite scanlines_points. unfold row_major. symmetry. apply filter_rows.
  intros y Hy. apply In_range in Hy.
  rewrite (filter_ext_in' _ (fun x => (scan_x_start c y <=? x) && (x <? scan_x_end c y))).
  - apply filter_range_interval; [apply (left_ok_spec c y W)|apply (right_ok_spec c y W)].
  - intros x _. rewrite rrc_row_spec by assumption. unfold in_rng.
    replace (fst (c_rows c) <=? y) with true by lia. replace (y <? snd (c_rows c)) with true by lia. reflexivity.
Qed.

(* ------------------------------------------------------------------------------------------ *)
(* RoundedRectangleContains::new of an actual rounded rectangle is well formed                  *)
(* ------------------------------------------------------------------------------------------ *)
(* the domain: base rectangle in the range where i32/u32 arithmetic does not saturate, radii are u32 *)
Definition rr_ok (r : rrect) : Prop := rect_ok (rr_rect r) /\ radii_nonneg (rr_corners r).

Lemma columns_R t rad :
  - 2 * bound <= px t <= 2 * bound -> 0 <= sw rad <= bound -> columns (R t rad) = (px t, px t + sw rad).
Proof. intros. unf. f_equal. lia. Qed.
Lemma rows_R t rad :
  - 2 * bound <= py t <= 2 * bound -> 0 <= sh rad <= bound -> rows (R t rad) = (py t, py t + sh rad).
Proof. intros. unf. f_equal. lia. Qed.

Definition conf (r : rrect) : radii := confine (rr_corners r) (sz (rr_rect r)).

Lemma conf_facts r : rr_ok r -> radii_nonneg (conf r) /\ radii_fit (conf r) (sz (rr_rect r)).
Proof.
  intros [Hr Hc]. assert (sz_nonneg (sz (rr_rect r))) by (destruct Hr as [_ Hs]; unfold size_ok, sz_nonneg in *; lia).
  split; [apply confine_nonneg|apply confine_sound]; assumption.
Qed.

(* closed forms of the fields of RoundedRectangleContains::new *)
Lemma rrc_new_fields r :
  rr_ok r ->
  let x0 := px (tl (rr_rect r)) in let y0 := py (tl (rr_rect r)) in
  let w := sw (sz (rr_rect r)) in let h := sh (sz (rr_rect r)) in
  let c := conf r in let k := rrc_new r in
  c_rows k = (y0, y0 + h) /\ c_columns k = (x0, x0 + w) /\
  c_srl k = (y0 + sh (r_tl c), y0 + h - sh (r_bl c)) /\
  c_srr k = (y0 + sh (r_tr c), y0 + h - sh (r_br c)) /\
  c_tl k = eq_new (P x0 y0) (r_tl c) QTopLeft /\
  c_tr k = eq_new (P (x0 + w - sw (r_tr c)) y0) (r_tr c) QTopRight /\
  c_br k = eq_new (P (x0 + w - sw (r_br c)) (y0 + h - sh (r_br c))) (r_br c) QBottomRight /\
  c_bl k = eq_new (P x0 (y0 + h - sh (r_bl c))) (r_bl c) QBottomLeft.
Proof.
  intros Hok. destruct (rows_columns_spec (rr_rect r) (proj1 Hok)) as [Hrows Hcols].
  cbv zeta. unfold rrc_new. cbn [c_rows c_columns c_srl c_srr c_tl c_tr c_br c_bl].
  rewrite Hrows, Hcols. cbn [fst snd]. unfold corner_quadrant. fold (conf r).
  rewrite !eq_new_bbox. cbn [sz].
  unfold padd_size, psub_size, x_axis, y_axis. cbn [px py sw sh].
  repeat split; repeat f_equal; try lia. destruct (tl (rr_rect r)); reflexivity.
Qed.

Theorem rrc_new_wf r : rr_ok r -> rrc_wf (rrc_new r).
Proof.
  intros Hok. pose proof (rrc_new_fields r Hok) as F. cbv zeta in F.
  destruct F as (Frows & Fcols & Fsrl & Fsrr & Ftl & Ftr & Fbr & Fbl).
  destruct (conf_facts r Hok) as [Hnn Hfit].
  destruct Hok as [[Hp Hs] _]. unfold point_ok, size_ok in Hp, Hs.
  set (c := conf r) in *.
  destruct Hnn as ((A1 & B1) & (A2 & B2) & (A3 & B3) & (A4 & B4)).
  destruct Hfit as (T & Bo & L & Ri).
  constructor.
  - rewrite Fsrl. cbn [fst snd]. lia.
  - rewrite Fsrr. cbn [fst snd]. lia.
  - unfold left_wf. rewrite Ftl, Fcols, eq_new_bbox. cbv zeta. rewrite columns_R by (cbn [px]; unfold bound in *; lia).
    cbn [fst snd px]. repeat split; try lia. intros y. apply (eq_left_mono (P _ _)); [reflexivity|lia].
  - unfold left_wf. rewrite Fbl, Fcols, eq_new_bbox. cbv zeta. rewrite columns_R by (cbn [px]; unfold bound in *; lia).
    cbn [fst snd px]. repeat split; try lia. intros y. apply (eq_left_mono (P _ _)); [reflexivity|lia].
  - unfold right_wf. rewrite Ftr, Fcols, eq_new_bbox. cbv zeta. rewrite columns_R by (cbn [px]; unfold bound in *; lia).
    cbn [fst snd px]. repeat split; try lia. intros y. apply (eq_right_mono (P _ _)); [reflexivity|lia].
  - unfold right_wf. rewrite Fbr, Fcols, eq_new_bbox. cbv zeta. rewrite columns_R by (cbn [px]; unfold bound in *; lia).
    cbn [fst snd px]. repeat split; try lia. intros y. apply (eq_right_mono (P _ _)); [reflexivity|lia].
Qed.

(* ------------------------------------------------------------------------------------------ *)
(* C05: contains() inside the bounding box; points() = row-major filter of contains()           *)
(* ------------------------------------------------------------------------------------------ *)
Theorem rr_contains_in_bbox r p :
  rr_ok r -> rr_contains r p = true -> contains (rr_bounding_box r) p = true.
Proof.
  intros Hok. pose proof (rrc_new_fields r Hok) as F. cbv zeta in F. destruct F as (Frows & Fcols & _).
  unfold rr_contains, rrc_contains, rr_bounding_box. rewrite Frows, Fcols.
  unfold in_rng. cbn [fst snd]. intros H. apply contains_spec.
  destruct ((py (tl (rr_rect r)) <=? py p) && (py p <? py (tl (rr_rect r)) + sh (sz (rr_rect r)))) eqn:E1;
  destruct ((px (tl (rr_rect r)) <=? px p) && (px p <? px (tl (rr_rect r)) + sw (sz (rr_rect r)))) eqn:E2;
  cbn [andb negb] in H; try discriminate. lia.
Qed.

Theorem rr_points_spec r :
  rr_ok r -> rr_points r = filter (rr_contains r) (points (rr_bounding_box r)).
Proof.
  intros Hok. unfold rr_points. rewrite rrc_points_spec by (apply rrc_new_wf; assumption).
  pose proof (rrc_new_fields r Hok) as F. cbv zeta in F. destruct F as (Frows & Fcols & _).
  rewrite Frows, Fcols. cbn [fst snd]. unfold rr_bounding_box.
  rewrite points_row_major by apply Hok.
  destruct (is_zero_sized (rr_rect r)) eqn:Z; [|reflexivity].
  cbn [filter]. apply filter_all_false. intros p Hp. apply In_row_major in Hp.
  unfold is_zero_sized in Z. lia.
Qed.

(* consequences: every point once, in row-major order, all inside the box, exactly those contains() accepts *)
Lemma filter_sorted {A} (R : A -> A -> Prop) (f : A -> bool) l : StronglySorted R l -> StronglySorted R (filter f l).
Proof.
  induction 1 as [|a l Hs IH Hall]; cbn [filter]; [constructor|].
  destruct (f a); [|assumption]. constructor; [assumption|].
  apply Forall_forall. intros x Hx. apply filter_In in Hx. rewrite Forall_forall in Hall. apply Hall, Hx.
Qed.

Theorem rr_points_sorted r : rr_ok r -> StronglySorted lt_yx (rr_points r).
Proof. intros Hok. rewrite rr_points_spec by assumption. apply filter_sorted, points_sorted, Hok. Qed.

Theorem rr_points_nodup r : rr_ok r -> NoDup (rr_points r).
Proof. intros Hok. apply lt_yx_irrefl_sorted, rr_points_sorted, Hok. Qed.

Theorem rr_points_iff r p : rr_ok r -> (In p (rr_points r) <-> rr_contains r p = true).
Proof.
  intros Hok. rewrite rr_points_spec by assumption. rewrite filter_In. split; [tauto|].
  intros H. split; [|assumption]. apply points_spec; [apply Hok|]. apply rr_contains_in_bbox; assumption.
Qed.

(* ------------------------------------------------------------------------------------------ *)
(* C18: rows are contiguous; zero radii = the rectangle                                          *)
(* ------------------------------------------------------------------------------------------ *)
Theorem rr_row_contiguous r y x1 x2 x3 :
  rr_ok r -> x1 <= x2 <= x3 ->
  rr_contains r (P x1 y) = true -> rr_contains r (P x3 y) = true -> rr_contains r (P x2 y) = true.
Proof.
  intros Hok Hx. unfold rr_contains. rewrite !rrc_row_spec by (apply rrc_new_wf; assumption).
  destruct (in_rng (c_rows (rrc_new r)) y); cbn [andb]; [|discriminate]. lia.
Qed.

Definition zero_radii : radii := radii_equal (S 0 0).

Lemma confine_zero bb : sz_nonneg bb -> confine zero_radii bb = zero_radii.
Proof. intros [H1 H2]. apply confine_fit_id. unfold radii_fit, zero_radii, radii_equal. cbn. lia. Qed.

Theorem rr_zero_radii_contains rc p :
  rect_ok rc -> rr_contains (RR rc zero_radii) p = contains rc p.
Proof.
  intros Hrc.
  assert (rr_ok (RR rc zero_radii)) as Hok.
  { split; [exact Hrc|]. unfold radii_nonneg, zero_radii, radii_equal, sz_nonneg. cbn. lia. }
  pose proof (rrc_new_fields _ Hok) as F. cbv zeta in F.
  destruct F as (Frows & Fcols & Fsrl & Fsrr & _).
  unfold conf in *. cbn [rr_rect rr_corners] in *.
  rewrite confine_zero in Fsrl, Fsrr by (destruct Hrc as [_ Hs]; unfold size_ok, sz_nonneg in *; lia).
  unfold zero_radii, radii_equal in *. cbn [r_tl r_tr r_br r_bl sh] in Fsrl, Fsrr.
  unfold rr_contains, rrc_contains. rewrite Frows, Fcols, Fsrl, Fsrr. unfold in_rng. cbn [fst snd].
  apply eq_true_iff_eq. rewrite contains_spec.
  destruct ((py (tl rc) <=? py p) && (py p <? py (tl rc) + sh (sz rc))) eqn:E1;
  destruct ((px (tl rc) <=? px p) && (px p <? px (tl rc) + sw (sz rc))) eqn:E2; cbn [andb negb]; try (split; [discriminate|lia]).
  replace (py p <? py (tl rc) + 0) with false by lia.
  replace (py (tl rc) + sh (sz rc) - 0 <=? py p) with false by lia. cbn [andb]. split; [lia|reflexivity].
Qed.

Theorem rr_zero_radii_points rc : rect_ok rc -> rr_points (RR rc zero_radii) = points rc.
Proof.
  intros Hrc.
  assert (rr_ok (RR rc zero_radii)) as Hok.
  { split; [exact Hrc|]. unfold radii_nonneg, zero_radii, radii_equal, sz_nonneg. cbn. lia. }
  rewrite rr_points_spec by assumption. unfold rr_bounding_box. cbn [rr_rect].
  apply filter_all_true. intros p Hp. rewrite rr_zero_radii_contains by assumption.
  apply points_spec; assumption.
Qed.

(* ------------------------------------------------------------------------------------------ *)
(* Pixel maps: the colour of a point after a list of writes                                      *)
(* ------------------------------------------------------------------------------------------ *)
Lemma point_eqb_eq a b : point_eqb a b = true <-> a = b.
Proof. destruct a as [ax ay], b as [bx by']. unfold point_eqb. cbn [px py]. split; [intros H; f_equal; lia|intros [= -> ->]; lia]. Qed.

Lemma pix_get_fold (ws : list (point * Z)) p c acc :
  (forall c', In (p, c') ws -> c' = c) ->
  fold_left (fun a w => if point_eqb (fst w) p then Some (snd w) else a) ws acc =
  if existsb (fun w => point_eqb (fst w) p) ws then Some c else acc.
Proof.
  revert acc. induction ws as [|[q k] ws IH]; intros acc H; cbn [fold_left existsb fst snd]; [reflexivity|].
  rewrite IH by (intros; apply H; right; assumption).
  destruct (point_eqb q p) eqn:E; cbn [orb].
  - apply point_eqb_eq in E. subst q. rewrite (H k) by (left; reflexivity).
    destruct (existsb _ ws); reflexivity.
  - reflexivity.
Qed.

(* all writes to p carry colour c and there is one: p has colour c *)
Lemma pix_get_some ws p c :
  In (p, c) ws -> (forall c', In (p, c') ws -> c' = c) -> pix_get ws p = Some c.
Proof.
  intros Hin Hall. unfold pix_get. rewrite (pix_get_fold ws p c None Hall).
  replace (existsb _ ws) with true; [reflexivity|]. symmetry. apply existsb_exists.
  exists (p, c). split; [assumption|]. apply point_eqb_eq. reflexivity.
Qed.

Lemma pix_get_none ws p : (forall c, ~ In (p, c) ws) -> pix_get ws p = None.
Proof.
  intros H. unfold pix_get. rewrite (pix_get_fold ws p 0 None) by (intros c' Hc; destruct (H c' Hc)).
  replace (existsb _ ws) with false; [reflexivity|]. symmetry. apply not_true_is_false. intros E.
  apply existsb_exists in E. destruct E as ([q k] & Hin & E). apply point_eqb_eq in E. cbn [fst] in E. subst q.
  exact (H k Hin).
Qed.

Lemma In_colored c l p c' : In (p, c') (colored c l) <-> c' = c /\ In p l.
Proof.
  unfold colored. rewrite in_map_iff. split.
  - intros (q & [= -> ->] & Hq). auto.
  - intros [-> H]. exists p. auto.
Qed.

(* a 1-pixel-high fill_solid area: its points *)
Definition big : Z := 2 * bound.
Lemma points_row a b y :
  - bound <= a -> a < b -> b <= big -> - big <= y <= big ->
  points (R (P a y) (S (b - a) 1)) = map (fun x => P x y) (range a b).
Proof.
  intros Ha Hab Hb Hy. unfold points, is_zero_sized. cbn [sz sw sh].
  replace (1 =? 0) with false by reflexivity. replace (b - a =? 0) with false by lia. cbn [orb].
  unfold columns, rows. cbn [tl sz px py sw sh]. unfold big, bound in *.
  unfold sat_add_i32, sat_u32_to_i32, i32_max, i32_min.
  replace (Z.max (-2147483648) (Z.min (a + Z.min (b - a) 2147483647) 2147483647)) with b by lia.
  replace (Z.max (-2147483648) (Z.min (y + Z.min 1 2147483647) 2147483647)) with (y + 1) by lia.
  rewrite (range_cons y (y + 1)) by lia. rewrite (range_nil (y + 1)) by lia.
  cbn [flat_map]. apply app_nil_r.
Qed.

(* a point lies on a scanline segment *)
Definition covered (s : scanline) (p : point) : Prop :=
  py p = fst s /\ fst (snd s) <= px p < snd (snd s).

Definition seg_ok (s : scanline) : Prop :=
  - bound <= fst (snd s) /\ snd (snd s) <= big /\ - big <= fst s <= big.

Lemma In_scanline_draw bb s c p c' :
  seg_ok s ->
  (In (p, c') (writes_of_calls bb (scanline_draw s c)) <-> c' = c /\ contains bb p = true /\ covered s p).
Proof.
  destruct s as [y [a b]]. unfold seg_ok, covered, scanline_draw. cbn [fst snd]. intros (Ha & Hb & Hy).
  destruct (a <? b) eqn:E.
  - unfold writes_of_calls. cbn [flat_map fst snd]. rewrite app_nil_r, In_colored, filter_In.
    rewrite points_row by lia. rewrite in_map_iff. split.
    + intros (-> & (x & <- & Hx) & Hbb). apply In_range in Hx. cbn [px py]. auto.
    + intros (-> & Hbb & Hy' & Hx). repeat split; auto. exists (px p). split; [destruct p as [qx qy]; cbn [px py] in *; subst; reflexivity|apply In_range; lia].
  - cbn. split; [tauto|]. intros (_ & _ & _ & H). lia.
Qed.

Lemma In_writes_app bb l1 l2 w :
  In w (writes_of_calls bb (l1 ++ l2)) <-> In w (writes_of_calls bb l1) \/ In w (writes_of_calls bb l2).
Proof. unfold writes_of_calls. rewrite flat_map_app, in_app_iff. reflexivity. Qed.

Lemma In_writes_flat_map {A} bb (f : A -> list fill_call) l w :
  In w (writes_of_calls bb (flat_map f l)) <-> exists a, In a l /\ In w (writes_of_calls bb (f a)).
Proof.
  induction l as [|a l IH]; cbn [flat_map].
  - cbn. split; [tauto|intros (a & [] & _)].
  - rewrite In_writes_app, IH. split.
    + intros [H|(a' & H1 & H2)]; [exists a; split; [left; reflexivity|assumption]|exists a'; split; [right; assumption|assumption]].
    + intros (a' & [<-|H1] & H2); [left; assumption|right; exists a'; auto].
Qed.

(* ------------------------------------------------------------------------------------------ *)
(* Scanlines and styled scanlines as sets of covered points                                      *)
(* ------------------------------------------------------------------------------------------ *)
Definition rrc_box_ok (c : rrc) : Prop :=
  - bound <= fst (c_columns c) /\ snd (c_columns c) <= big /\ - big <= fst (c_rows c) /\ snd (c_rows c) <= big.

Lemma In_scanlines c s :
  In s (scanlines c) <->
  exists y, in_rng (c_rows c) y = true /\ s = (y, (scan_x_start c y, scan_x_end c y)) /\
            scan_x_start c y < scan_x_end c y.
Proof.
  unfold scanlines. rewrite filter_In, in_map_iff. split.
  - intros ((y & <- & Hy) & Hne). apply In_range in Hy. cbn [fst snd] in Hne.
    exists y. unfold in_rng. repeat split; lia.
  - intros (y & Hy & -> & Hne). unfold in_rng in Hy. cbn [fst snd]. split; [|lia].
    exists y. split; [reflexivity|apply In_range; lia].
Qed.

Lemma scanline_seg_ok c s : rrc_wf c -> rrc_box_ok c -> In s (scanlines c) -> seg_ok s.
Proof.
  intros W (B1 & B2 & B3 & B4) Hs. apply In_scanlines in Hs. destruct Hs as (y & Hy & -> & Hne).
  destruct (left_ok_spec c y W) as (Hs & _). destruct (right_ok_spec c y W) as (He & _).
  unfold in_rng in Hy. unfold seg_ok. cbn [fst snd]. lia.
Qed.

(* the unstyled scanlines cover exactly contains() *)
Lemma scanlines_cover c p :
  rrc_wf c -> ((exists s, In s (scanlines c) /\ covered s p) <-> rrc_contains c p = true).
Proof.
  intros W. destruct p as [x y]. rewrite rrc_row_spec by assumption. split.
  - intros (s & Hs & Hc). apply In_scanlines in Hs. destruct Hs as (y' & Hy & -> & Hne).
    unfold covered in Hc. cbn [fst snd px py] in Hc. destruct Hc as [-> Hc]. rewrite Hy. cbn [andb]. lia.
  - intros H. destruct (in_rng (c_rows c) y) eqn:Hy; cbn [andb] in H; [|discriminate].
    exists (y, (scan_x_start c y, scan_x_end c y)). split.
    + apply In_scanlines. exists y. repeat split; auto. lia.
    + unfold covered. cbn [fst snd px py]. lia.
Qed.

(* one styled scanline: the fill range is exactly the part of the stroke scanline inside the fill area *)
Lemma styled_segments cf y xs xe :
  rrc_wf cf -> xs <= xe ->
  let ss := styled_scanline cf (y, (xs, xe)) in
  ss_y ss = y /\ ss_stroke ss = (xs, xe) /\
  xs <= fst (ss_fill ss) /\ fst (ss_fill ss) <= snd (ss_fill ss) /\ snd (ss_fill ss) <= xe /\
  forall x, xs <= x < xe -> (fst (ss_fill ss) <= x < snd (ss_fill ss) <-> rrc_contains cf (P x y) = true).
Proof.
  intros W Hle. cbv zeta. unfold styled_scanline. cbn [fst snd].
  destruct (in_rng (c_rows cf) y) eqn:Hy.
  - pose proof (find_range_spec (fun x => rrc_contains cf (P x y)) xs xe) as Hf.
    pose proof (rfind_range_spec (fun x => rrc_contains cf (P x y)) xs xe) as Hr.
    destruct (find (fun x => rrc_contains cf (P x y)) (range xs xe)) as [f0|]; cbv beta in Hf.
    + destruct Hf as (F1 & F2 & F3).
      destruct (rfind (fun x => rrc_contains cf (P x y)) (range xs xe)) as [l0|]; cbv beta in Hr.
      * destruct Hr as (R1 & R2 & R3). unfold ss_new. cbn [ss_y ss_stroke ss_fill fst snd].
        assert (f0 <= l0) as Hfl.
        { destruct (Z_le_gt_dec f0 l0); [assumption|]. rewrite R3 in F2 by lia. discriminate. }
        split; [reflexivity|]. split; [reflexivity|]. split; [lia|]. split; [lia|]. split; [lia|].
        intros x Hx. split.
        -- intros Hin. pose proof F2 as F2'. pose proof R2 as R2'.
           rewrite rrc_row_spec in F2', R2' |- * by assumption. rewrite Hy in *. cbn [andb] in *. lia.
        -- intros Hc. split.
           ++ destruct (Z_lt_le_dec x f0) as [Hb|Hb]; [rewrite F3 in Hc by lia; discriminate|lia].
           ++ destruct (Z_lt_le_dec l0 x) as [Hb|Hb]; [rewrite R3 in Hc by lia; discriminate|lia].
      * rewrite Hr in F2 by lia. discriminate.
    + unfold ss_new. cbn [ss_y ss_stroke ss_fill fst snd].
      split; [reflexivity|]. split; [reflexivity|]. split; [lia|]. split; [lia|]. split; [lia|].
      intros x Hx. split; [lia|]. intros Hc. rewrite Hf in Hc by lia. discriminate.
  - unfold ss_new. cbn [ss_y ss_stroke ss_fill fst snd].
    split; [reflexivity|]. split; [reflexivity|]. split; [lia|]. split; [lia|]. split; [lia|].
    intros x Hx. split; [lia|]. intros Hc. rewrite rrc_row_spec, Hy in Hc by assumption. discriminate.
Qed.

Lemma styled_cover_fill cs cf p :
  rrc_wf cs -> rrc_wf cf ->
  ((exists s, In s (scanlines cs) /\ covered (ss_fill_line (styled_scanline cf s)) p) <->
   rrc_contains cs p = true /\ rrc_contains cf p = true).
Proof.
  intros Ws Wf. destruct p as [x y]. split.
  - intros (s & Hs & Hc). pose proof Hs as Hs'. apply In_scanlines in Hs. destruct Hs as (y' & Hy & -> & Hne).
    pose proof (styled_segments cf y' _ _ Wf (Z.lt_le_incl _ _ Hne)) as S. cbv zeta in S.
    destruct S as (Sy & Sst & S1 & S2 & S3 & S4).
    unfold covered, ss_fill_line in Hc. cbn [fst snd px py] in Hc. rewrite Sy in Hc. destruct Hc as [-> Hc].
    split.
    + rewrite rrc_row_spec, Hy by assumption. cbn [andb]. lia.
    + apply S4; lia.
  - intros [Hcs Hcf]. pose proof Hcs as Hcs'. rewrite rrc_row_spec in Hcs' by assumption.
    destruct (in_rng (c_rows cs) y) eqn:Hy; cbn [andb] in Hcs'; [|discriminate].
    exists (y, (scan_x_start cs y, scan_x_end cs y)). split.
    + apply In_scanlines. exists y. repeat split; auto. lia.
    + pose proof (styled_segments cf y (scan_x_start cs y) (scan_x_end cs y) Wf ltac:(lia)) as S. cbv zeta in S.
      destruct S as (Sy & Sst & S1 & S2 & S3 & S4).
      unfold covered, ss_fill_line. cbn [fst snd px py]. rewrite Sy. split; [reflexivity|]. apply S4; [lia|assumption].
Qed.

Lemma styled_cover_stroke cs cf p :
  rrc_wf cs -> rrc_wf cf ->
  ((exists s, In s (scanlines cs) /\
      (covered (ss_stroke_left (styled_scanline cf s)) p \/ covered (ss_stroke_right (styled_scanline cf s)) p)) <->
   rrc_contains cs p = true /\ rrc_contains cf p = false).
Proof.
  intros Ws Wf. destruct p as [x y]. split.
  - intros (s & Hs & Hc). pose proof Hs as Hs'. apply In_scanlines in Hs. destruct Hs as (y' & Hy & -> & Hne).
    pose proof (styled_segments cf y' _ _ Wf (Z.lt_le_incl _ _ Hne)) as S. cbv zeta in S.
    destruct S as (Sy & Sst & S1 & S2 & S3 & S4).
    unfold covered, ss_stroke_left, ss_stroke_right in Hc. cbn [fst snd px py] in Hc. rewrite Sy, Sst in Hc. cbn [fst snd] in Hc.
    assert (y = y' /\ scan_x_start cs y' <= x < scan_x_end cs y' /\
            ~ (fst (ss_fill (styled_scanline cf (y', (scan_x_start cs y', scan_x_end cs y')))) <= x <
               snd (ss_fill (styled_scanline cf (y', (scan_x_start cs y', scan_x_end cs y')))))) as (-> & Hx & Hn) by lia.
    split.
    + rewrite rrc_row_spec, Hy by assumption. cbn [andb]. lia.
    + apply not_true_is_false. intros Hcf. apply Hn, S4; assumption.
  - intros [Hcs Hcf]. pose proof Hcs as Hcs'. rewrite rrc_row_spec in Hcs' by assumption.
    destruct (in_rng (c_rows cs) y) eqn:Hy; cbn [andb] in Hcs'; [|discriminate].
    exists (y, (scan_x_start cs y, scan_x_end cs y)). split.
    + apply In_scanlines. exists y. repeat split; auto. lia.
    + pose proof (styled_segments cf y (scan_x_start cs y) (scan_x_end cs y) Wf ltac:(lia)) as S. cbv zeta in S.
      destruct S as (Sy & Sst & S1 & S2 & S3 & S4).
      unfold covered, ss_stroke_left, ss_stroke_right. cbn [fst snd px py]. rewrite Sy, Sst. cbn [fst snd].
      assert (~ (fst (ss_fill (styled_scanline cf (y, (scan_x_start cs y, scan_x_end cs y)))) <= x <
                 snd (ss_fill (styled_scanline cf (y, (scan_x_start cs y, scan_x_end cs y)))))) as Hn.
      { intros Hin. apply S4 in Hin; [|lia]. rewrite Hin in Hcf. discriminate. }
      lia.
Qed.

Lemma styled_seg_ok cs cf s :
  rrc_wf cs -> rrc_wf cf -> rrc_box_ok cs -> In s (scanlines cs) ->
  seg_ok (ss_stroke_left (styled_scanline cf s)) /\ seg_ok (ss_fill_line (styled_scanline cf s)) /\
  seg_ok (ss_stroke_right (styled_scanline cf s)).
Proof.
  intros Ws Wf B Hs. pose proof (scanline_seg_ok cs s Ws B Hs) as Hok.
  apply In_scanlines in Hs. destruct Hs as (y & Hy & -> & Hne).
  pose proof (styled_segments cf y _ _ Wf (Z.lt_le_incl _ _ Hne)) as S. cbv zeta in S.
  destruct S as (Sy & Sst & S1 & S2 & S3 & S4).
  unfold seg_ok, ss_stroke_left, ss_fill_line, ss_stroke_right in *. cbn [fst snd] in *.
  rewrite Sy, Sst. cbn [fst snd]. lia.
Qed.

(* ------------------------------------------------------------------------------------------ *)
(* C06 / C01(b): the image of draw_styled and of pixels()                                        *)
(* ------------------------------------------------------------------------------------------ *)
Lemma In_writes_styled bb cs cf (f : sscan -> list fill_call) w :
  In w (writes_of_calls bb (flat_map f (map (styled_scanline cf) (scanlines cs)))) <->
  exists s, In s (scanlines cs) /\ In w (writes_of_calls bb (f (styled_scanline cf s))).
Proof.
  rewrite In_writes_flat_map. split.
  - intros (ss & Hss & Hw). apply in_map_iff in Hss. destruct Hss as (s & <- & Hs). exists s. auto.
  - intros (s & Hs & Hw). exists (styled_scanline cf s). split; [apply in_map; assumption|assumption].
Qed.

Lemma In_draw_stroke bb cs cf sc p c' :
  rrc_wf cs -> rrc_wf cf -> rrc_box_ok cs ->
  (In (p, c') (writes_of_calls bb (flat_map (fun s => ss_draw_stroke s sc) (map (styled_scanline cf) (scanlines cs)))) <->
   c' = sc /\ contains bb p = true /\ rrc_contains cs p = true /\ rrc_contains cf p = false).
Proof.
  intros Ws Wf B. rewrite In_writes_styled. rewrite <- (styled_cover_stroke cs cf p Ws Wf). split.
  - intros (s & Hs & Hw). destruct (styled_seg_ok cs cf s Ws Wf B Hs) as (O1 & O2 & O3).
    unfold ss_draw_stroke in Hw. rewrite In_writes_app, !In_scanline_draw in Hw by assumption.
    destruct Hw as [(-> & Hb & Hc)|(-> & Hb & Hc)]; (repeat split; auto; exists s; auto).
  - intros (-> & Hb & s & Hs & Hc). exists s. split; [assumption|].
    destruct (styled_seg_ok cs cf s Ws Wf B Hs) as (O1 & O2 & O3).
    unfold ss_draw_stroke. rewrite In_writes_app, !In_scanline_draw by assumption. tauto.
Qed.

Lemma In_draw_stroke_fill bb cs cf sc fc p c' :
  rrc_wf cs -> rrc_wf cf -> rrc_box_ok cs ->
  (In (p, c') (writes_of_calls bb (flat_map (fun s => ss_draw_stroke_and_fill s sc fc) (map (styled_scanline cf) (scanlines cs)))) <->
   contains bb p = true /\ rrc_contains cs p = true /\
   ((c' = sc /\ rrc_contains cf p = false) \/ (c' = fc /\ rrc_contains cf p = true))).
Proof.
  intros Ws Wf B. rewrite In_writes_styled. split.
  - intros (s & Hs & Hw). destruct (styled_seg_ok cs cf s Ws Wf B Hs) as (O1 & O2 & O3).
    unfold ss_draw_stroke_and_fill in Hw. rewrite !In_writes_app, !In_scanline_draw in Hw by assumption.
    destruct Hw as [(-> & Hb & Hc)|[(-> & Hb & Hc)|(-> & Hb & Hc)]].
    + assert (rrc_contains cs p = true /\ rrc_contains cf p = false) as [H1 H2]
        by (apply (styled_cover_stroke cs cf p Ws Wf); exists s; auto). auto.
    + assert (rrc_contains cs p = true /\ rrc_contains cf p = true) as [H1 H2]
        by (apply (styled_cover_fill cs cf p Ws Wf); exists s; auto). auto.
    + assert (rrc_contains cs p = true /\ rrc_contains cf p = false) as [H1 H2]
        by (apply (styled_cover_stroke cs cf p Ws Wf); exists s; auto). auto.
  - intros (Hb & Hcs & [[-> Hcf]|[-> Hcf]]).
    + destruct (proj2 (styled_cover_stroke cs cf p Ws Wf) (conj Hcs Hcf)) as (s & Hs & Hc).
      exists s. split; [assumption|]. destruct (styled_seg_ok cs cf s Ws Wf B Hs) as (O1 & O2 & O3).
      unfold ss_draw_stroke_and_fill. rewrite !In_writes_app, !In_scanline_draw by assumption. tauto.
    + destruct (proj2 (styled_cover_fill cs cf p Ws Wf) (conj Hcs Hcf)) as (s & Hs & Hc).
      exists s. split; [assumption|]. destruct (styled_seg_ok cs cf s Ws Wf B Hs) as (O1 & O2 & O3).
      unfold ss_draw_stroke_and_fill. rewrite !In_writes_app, !In_scanline_draw by assumption. tauto.
Qed.

Lemma In_draw_fill bb cf fc p c' :
  rrc_wf cf -> rrc_box_ok cf ->
  (In (p, c') (writes_of_calls bb (flat_map (fun s => scanline_draw s fc) (scanlines cf))) <->
   c' = fc /\ contains bb p = true /\ rrc_contains cf p = true).
Proof.
  intros Wf B. rewrite In_writes_flat_map. rewrite <- (scanlines_cover cf p Wf). split.
  - intros (s & Hs & Hw). rewrite In_scanline_draw in Hw by (eapply scanline_seg_ok; eassumption).
    destruct Hw as (-> & Hb & Hc). repeat split; auto. exists s; auto.
  - intros (-> & Hb & s & Hs & Hc). exists s. split; [assumption|].
    rewrite In_scanline_draw by (eapply scanline_seg_ok; eassumption). auto.
Qed.

(* what draw_styled paints, in terms of contains() of the two areas (no assumption relating the areas) *)
Definition spec_draw (st : style) (sa fa : point -> bool) (p : point) : option Z :=
  match effective_stroke_color st with
  | Some sc => if sa p then (if fa p then fill_color st else Some sc) else None
  | None => if fa p then fill_color st else None
  end.
(* ... and what pixels() yields *)
Definition spec_pixels (st : style) (sa fa : point -> bool) (p : point) : option Z :=
  if sa p then (if fa p then fill_color st else stroke_color st) else None.
(* the property C06 *)
Definition spec_c06 (st : style) (sa fa : point -> bool) (p : point) : option Z :=
  if fa p then fill_color st
  else if sa p && (0 <? stroke_width st) then stroke_color st else None.

Definition styled_ok (r : rrect) (st : style) : Prop :=
  rr_ok (rr_stroke_area r st) /\ rr_ok (rr_fill_area r st).

Lemma rr_ok_box r : rr_ok r -> rrc_box_ok (rrc_new r).
Proof.
  intros Hok. pose proof (rrc_new_fields r Hok) as F. cbv zeta in F. destruct F as (Frows & Fcols & _).
  destruct Hok as [[Hp Hs] _]. unfold point_ok, size_ok in *. unfold rrc_box_ok. rewrite Frows, Fcols.
  cbn [fst snd]. unfold big, bound in *. lia.
Qed.

Theorem rr_draw_pixmap r st bb p :
  styled_ok r st ->
  pix_get (writes_of_calls bb (rr_draw r st)) p =
  if contains bb p
  then spec_draw st (rr_contains (rr_stroke_area r st)) (rr_contains (rr_fill_area r st)) p
  else None.
Proof.
  intros [Hs Hf].
  pose proof (rrc_new_wf _ Hs) as Ws. pose proof (rrc_new_wf _ Hf) as Wf.
  pose proof (rr_ok_box _ Hs) as Bs. pose proof (rr_ok_box _ Hf) as Bf.
  unfold rr_draw, spec_draw, rr_contains, styled_scanlines.
  set (cs := rrc_new (rr_stroke_area r st)) in *. set (cf := rrc_new (rr_fill_area r st)) in *.
  destruct (effective_stroke_color st) as [sc|]; destruct (fill_color st) as [fc|].
  - (* stroke and fill *)
    destruct (contains bb p) eqn:Hb; [destruct (rrc_contains cs p) eqn:Hcs; [destruct (rrc_contains cf p) eqn:Hcf|]|].
    + apply pix_get_some.
      * apply In_draw_stroke_fill; auto.
      * intros c' H. apply In_draw_stroke_fill in H; auto. destruct H as (_ & _ & [[_ H]|[H _]]); congruence.
    + apply pix_get_some.
      * apply In_draw_stroke_fill; auto.
      * intros c' H. apply In_draw_stroke_fill in H; auto. destruct H as (_ & _ & [[H _]|[_ H]]); congruence.
    + apply pix_get_none. intros c' H. apply In_draw_stroke_fill in H; auto. destruct H as (_ & H & _). congruence.
    + apply pix_get_none. intros c' H. apply In_draw_stroke_fill in H; auto. destruct H as (H & _). congruence.
  - (* stroke only *)
    destruct (contains bb p) eqn:Hb; [destruct (rrc_contains cs p) eqn:Hcs; [destruct (rrc_contains cf p) eqn:Hcf|]|].
    + apply pix_get_none. intros c' H. apply In_draw_stroke in H; auto. destruct H as (_ & _ & _ & H). congruence.
    + apply pix_get_some.
      * apply In_draw_stroke; auto.
      * intros c' H. apply In_draw_stroke in H; auto. tauto.
    + apply pix_get_none. intros c' H. apply In_draw_stroke in H; auto. destruct H as (_ & _ & H & _). congruence.
    + apply pix_get_none. intros c' H. apply In_draw_stroke in H; auto. destruct H as (_ & H & _). congruence.
  - (* fill only *)
    destruct (contains bb p) eqn:Hb; [destruct (rrc_contains cf p) eqn:Hcf|].
    + apply pix_get_some.
      * apply In_draw_fill; auto.
      * intros c' H. apply In_draw_fill in H; auto. tauto.
    + apply pix_get_none. intros c' H. apply In_draw_fill in H; auto. destruct H as (_ & _ & H). congruence.
    + apply pix_get_none. intros c' H. apply In_draw_fill in H; auto. destruct H as (_ & H & _). congruence.
  - (* transparent *)
    cbn. destruct (contains bb p); [destruct (rrc_contains cf p)|]; reflexivity.
Qed.

(* the known-finding class: its negation says the fill area lies inside the stroke area *)
Lemma K06_false_sub r st :
  rr_ok (rr_fill_area r st) -> K06_rrect_fill_outside_stroke r st = false ->
  forall p, rr_contains (rr_fill_area r st) p = true -> rr_contains (rr_stroke_area r st) p = true.
Proof.
  intros Hf K p Hp. unfold K06_rrect_fill_outside_stroke in K. cbv zeta in K.
  destruct (rr_contains (rr_stroke_area r st) p) eqn:E; [reflexivity|].
  assert (existsb (fun p => rr_contains (rr_fill_area r st) p && negb (rr_contains (rr_stroke_area r st) p))
            (points (rr_bounding_box (rr_fill_area r st))) = true) as X; [|congruence].
  apply existsb_exists. exists p. split.
  - apply points_spec; [apply Hf|]. apply rr_contains_in_bbox; assumption.
  - rewrite Hp, E. reflexivity.
Qed.

(* C06: outside the class, draw() paints exactly what fill_area()/stroke_area() say *)
Theorem rr_styled_spec r st bb p :
  styled_ok r st -> K06_rrect_fill_outside_stroke r st = false ->
  pix_get (writes_of_calls bb (rr_draw r st)) p =
  if contains bb p
  then spec_c06 st (rr_contains (rr_stroke_area r st)) (rr_contains (rr_fill_area r st)) p
  else None.
Proof.
  intros Hok K. rewrite rr_draw_pixmap by assumption. destruct (contains bb p); [|reflexivity].
  pose proof (K06_false_sub r st (proj2 Hok) K p) as Hsub.
  unfold spec_draw, spec_c06, effective_stroke_color.
  destruct (rr_contains (rr_fill_area r st) p) eqn:Hf.
  - rewrite Hsub by reflexivity. destruct (stroke_color st); [destruct (0 <? stroke_width st)|]; reflexivity.
  - destruct (rr_contains (rr_stroke_area r st) p); cbn [andb];
    destruct (stroke_color st); try destruct (0 <? stroke_width st); reflexivity.
Qed.

(* ---- pixels() ---- *)
Lemma In_writes_of_pixels bb ps w : In w (writes_of_pixels bb ps) <-> contains bb (fst w) = true /\ In w ps.
Proof. unfold writes_of_pixels. rewrite filter_In. tauto. Qed.

Lemma In_scanline_pixels s c p c' : In (p, c') (colored c (scanline_points s)) <-> c' = c /\ covered s p.
Proof.
  rewrite In_colored. unfold scanline_points, covered. rewrite in_map_iff. split.
  - intros (-> & x & <- & Hx). apply In_range in Hx. cbn [px py]. auto.
  - intros (-> & Hy & Hx). split; [reflexivity|]. exists (px p). split; [destruct p as [qx qy]; cbn [px py] in *; subst; reflexivity|apply In_range; lia].
Qed.

Lemma In_flat_styled {B} cs cf (f : sscan -> list B) (w : B) :
  In w (flat_map f (map (styled_scanline cf) (scanlines cs))) <->
  exists s, In s (scanlines cs) /\ In w (f (styled_scanline cf s)).
Proof.
  rewrite in_flat_map. split.
  - intros (ss & Hss & Hw). apply in_map_iff in Hss. destruct Hss as (s & <- & Hs). exists s. auto.
  - intros (s & Hs & Hw). exists (styled_scanline cf s). split; [apply in_map; assumption|assumption].
Qed.

Lemma In_pixels_stroke cs cf sc p c' :
  rrc_wf cs -> rrc_wf cf ->
  (In (p, c') (flat_map (fun s => colored sc (scanline_points (ss_stroke_left s)) ++ colored sc (scanline_points (ss_stroke_right s)))
                        (map (styled_scanline cf) (scanlines cs))) <->
   c' = sc /\ rrc_contains cs p = true /\ rrc_contains cf p = false).
Proof.
  intros Ws Wf. rewrite In_flat_styled. rewrite <- (styled_cover_stroke cs cf p Ws Wf). split.
  - intros (s & Hs & Hw). rewrite in_app_iff, !In_scanline_pixels in Hw.
    destruct Hw as [[-> Hc]|[-> Hc]]; (split; [reflexivity|exists s; auto]).
  - intros (-> & s & Hs & Hc). exists s. split; [assumption|]. rewrite in_app_iff, !In_scanline_pixels. tauto.
Qed.

Lemma In_pixels_stroke_fill cs cf sc fc p c' :
  rrc_wf cs -> rrc_wf cf ->
  (In (p, c') (flat_map (fun s => colored sc (scanline_points (ss_stroke_left s))
                                   ++ colored fc (scanline_points (ss_fill_line s))
                                   ++ colored sc (scanline_points (ss_stroke_right s)))
                        (map (styled_scanline cf) (scanlines cs))) <->
   rrc_contains cs p = true /\
   ((c' = sc /\ rrc_contains cf p = false) \/ (c' = fc /\ rrc_contains cf p = true))).
Proof.
  intros Ws Wf. rewrite In_flat_styled. split.
  - intros (s & Hs & Hw). rewrite !in_app_iff, !In_scanline_pixels in Hw.
    destruct Hw as [[-> Hc]|[[-> Hc]|[-> Hc]]].
    + assert (rrc_contains cs p = true /\ rrc_contains cf p = false) as [H1 H2]
        by (apply (styled_cover_stroke cs cf p Ws Wf); exists s; auto). auto.
    + assert (rrc_contains cs p = true /\ rrc_contains cf p = true) as [H1 H2]
        by (apply (styled_cover_fill cs cf p Ws Wf); exists s; auto). auto.
    + assert (rrc_contains cs p = true /\ rrc_contains cf p = false) as [H1 H2]
        by (apply (styled_cover_stroke cs cf p Ws Wf); exists s; auto). auto.
  - intros (Hcs & [[-> Hcf]|[-> Hcf]]).
    + destruct (proj2 (styled_cover_stroke cs cf p Ws Wf) (conj Hcs Hcf)) as (s & Hs & Hc).
      exists s. split; [assumption|]. rewrite !in_app_iff, !In_scanline_pixels. tauto.
    + destruct (proj2 (styled_cover_fill cs cf p Ws Wf) (conj Hcs Hcf)) as (s & Hs & Hc).
      exists s. split; [assumption|]. rewrite !in_app_iff, !In_scanline_pixels. tauto.
Qed.

Lemma In_pixels_fill cs cf fc p c' :
  rrc_wf cs -> rrc_wf cf ->
  (In (p, c') (flat_map (fun s => colored fc (scanline_points (ss_fill_line s))) (map (styled_scanline cf) (scanlines cs))) <->
   c' = fc /\ rrc_contains cs p = true /\ rrc_contains cf p = true).
Proof.
  intros Ws Wf. rewrite In_flat_styled. rewrite <- (styled_cover_fill cs cf p Ws Wf). split.
  - intros (s & Hs & Hw). rewrite In_scanline_pixels in Hw. destruct Hw as [-> Hc]. split; [reflexivity|exists s; auto].
  - intros (-> & s & Hs & Hc). exists s. split; [assumption|]. rewrite In_scanline_pixels. auto.
Qed.

Theorem rr_pixels_pixmap r st bb p :
  styled_ok r st ->
  pix_get (writes_of_pixels bb (rr_pixels r st)) p =
  if contains bb p
  then spec_pixels st (rr_contains (rr_stroke_area r st)) (rr_contains (rr_fill_area r st)) p
  else None.
Proof.
  intros [Hs Hf].
  pose proof (rrc_new_wf _ Hs) as Ws. pose proof (rrc_new_wf _ Hf) as Wf.
  unfold rr_pixels, spec_pixels, rr_contains, styled_scanlines.
  set (cs := rrc_new (rr_stroke_area r st)) in *. set (cf := rrc_new (rr_fill_area r st)) in *.
  destruct (contains bb p) eqn:Hb.
  2:{ apply pix_get_none. intros c' H. apply In_writes_of_pixels in H. cbn [fst] in H. destruct H as [H _]. congruence. }
  destruct (stroke_color st) as [sc|]; destruct (fill_color st) as [fc|].
  - destruct (rrc_contains cs p) eqn:Hcs; [destruct (rrc_contains cf p) eqn:Hcf|].
    + apply pix_get_some.
      * apply In_writes_of_pixels. split; [assumption|]. apply In_pixels_stroke_fill; auto.
      * intros c' H. apply In_writes_of_pixels in H. destruct H as [_ H]. apply In_pixels_stroke_fill in H; auto.
        destruct H as (_ & [[_ H]|[H _]]); congruence.
    + apply pix_get_some.
      * apply In_writes_of_pixels. split; [assumption|]. apply In_pixels_stroke_fill; auto.
      * intros c' H. apply In_writes_of_pixels in H. destruct H as [_ H]. apply In_pixels_stroke_fill in H; auto.
        destruct H as (_ & [[H _]|[_ H]]); congruence.
    + apply pix_get_none. intros c' H. apply In_writes_of_pixels in H. destruct H as [_ H].
      apply In_pixels_stroke_fill in H; auto. destruct H as (H & _). congruence.
  - destruct (rrc_contains cs p) eqn:Hcs; [destruct (rrc_contains cf p) eqn:Hcf|].
    + apply pix_get_none. intros c' H. apply In_writes_of_pixels in H. destruct H as [_ H].
      apply In_pixels_stroke in H; auto. destruct H as (_ & _ & H). congruence.
    + apply pix_get_some.
      * apply In_writes_of_pixels. split; [assumption|]. apply In_pixels_stroke; auto.
      * intros c' H. apply In_writes_of_pixels in H. destruct H as [_ H]. apply In_pixels_stroke in H; auto. tauto.
    + apply pix_get_none. intros c' H. apply In_writes_of_pixels in H. destruct H as [_ H].
      apply In_pixels_stroke in H; auto. destruct H as (_ & H & _). congruence.
  - destruct (rrc_contains cs p) eqn:Hcs; [destruct (rrc_contains cf p) eqn:Hcf|].
    + apply pix_get_some.
      * apply In_writes_of_pixels. split; [assumption|]. apply In_pixels_fill; auto.
      * intros c' H. apply In_writes_of_pixels in H. destruct H as [_ H]. apply In_pixels_fill in H; auto. tauto.
    + apply pix_get_none. intros c' H. apply In_writes_of_pixels in H. destruct H as [_ H].
      apply In_pixels_fill in H; auto. destruct H as (_ & _ & H). congruence.
    + apply pix_get_none. intros c' H. apply In_writes_of_pixels in H. destruct H as [_ H].
      apply In_pixels_fill in H; auto. destruct H as (_ & H & _). congruence.
  - cbn. destruct (rrc_contains cs p); [destruct (rrc_contains cf p)|]; reflexivity.
Qed.

(* stroke width 0: both areas are the same shape *)
Lemma areas_equal_width0 r st : stroke_width st = 0 -> rr_stroke_area r st = rr_fill_area r st.
Proof.
  intros H. unfold rr_stroke_area, rr_fill_area. f_equal.
  unfold stroke_area_offset, fill_area_offset, outside_stroke_width, inside_stroke_width. rewrite H.
  destruct (stroke_alignment st), (stroke_kind st); reflexivity.
Qed.

(* C01(b): outside the class, pixels() and draw() give the same image on every target box *)
Theorem rr_pixels_draw r st bb p :
  styled_ok r st -> 0 <= stroke_width st -> K06_rrect_fill_outside_stroke r st = false ->
  pix_get (writes_of_pixels bb (rr_pixels r st)) p = pix_get (writes_of_calls bb (rr_draw r st)) p.
Proof.
  intros Hok Hw K. rewrite rr_pixels_pixmap, rr_draw_pixmap by assumption.
  destruct (contains bb p); [|reflexivity].
  pose proof (K06_false_sub r st (proj2 Hok) K p) as Hsub.
  unfold spec_pixels, spec_draw, effective_stroke_color.
  destruct (stroke_color st) as [sc|].
  - destruct (0 <? stroke_width st) eqn:E; [reflexivity|].
    rewrite (areas_equal_width0 r st) by lia.
    destruct (rr_contains (rr_fill_area r st) p); reflexivity.
  - destruct (rr_contains (rr_fill_area r st) p) eqn:Hf.
    + rewrite Hsub by reflexivity. reflexivity.
    + destruct (rr_contains (rr_stroke_area r st) p); reflexivity.
Qed.

(* ------------------------------------------------------------------------------------------ *)
(* C02: everything drawn lies in the styled bounding box; transparent styles draw nothing        *)
(* ------------------------------------------------------------------------------------------ *)
Lemma offset_mono r m n p :
  rect_ok r -> 0 <= m <= bound -> 0 <= n <= bound ->
  contains (offset r (- m)) p = true -> contains (offset r n) p = true.
Proof.
  intros H Hm Hn. rewrite !contains_spec. destr_rects. unf.
  destruct (0 <=? - m) eqn:E1; destruct (0 <=? n) eqn:E2; cbn [tl sz px py sw sh]; try lia.
  all: intros [Hx Hy]; split.
  all: try (clear Hy; lia).
  all: try (clear Hx; lia).
Qed.

Lemma style_offsets st :
  0 <= stroke_width st <= bound ->
  0 <= stroke_area_offset st <= bound /\ exists m, fill_area_offset st = - m /\ 0 <= m <= bound.
Proof.
  intros Hw. unfold stroke_area_offset, fill_area_offset, outside_stroke_width, inside_stroke_width.
  unfold sat_u32_to_i32, sat_add_u32, i32_max, u32_max, bound in *.
  split.
  - destruct (stroke_alignment st); lia.
  - destruct (stroke_kind st).
    + eexists. split; [reflexivity|]. destruct (stroke_alignment st); lia.
    + exists 0. split; [reflexivity|lia].
Qed.

Lemma styled_bbox_is_stroke_area_box r st : rr_styled_bounding_box r st = rr_bounding_box (rr_stroke_area r st).
Proof. reflexivity. Qed.

Lemma fill_area_in_styled_bbox r st p :
  rect_ok (rr_rect r) -> 0 <= stroke_width st <= bound ->
  contains (rr_bounding_box (rr_fill_area r st)) p = true -> contains (rr_styled_bounding_box r st) p = true.
Proof.
  intros Hr Hw. destruct (style_offsets st Hw) as (Hn & m & Hm & Hmb).
  unfold rr_styled_bounding_box, rr_bounding_box, rr_fill_area, rr_offset. cbn [rr_rect]. rewrite Hm.
  apply offset_mono; assumption.
Qed.

Theorem rr_drawn_in_bbox r st bb p :
  styled_ok r st -> rect_ok (rr_rect r) -> 0 <= stroke_width st <= bound ->
  pix_get (writes_of_calls bb (rr_draw r st)) p <> None -> contains (rr_styled_bounding_box r st) p = true.
Proof.
  intros Hok Hr Hw. rewrite rr_draw_pixmap by assumption. destruct (contains bb p); [|congruence].
  unfold spec_draw. intros H.
  assert (rr_contains (rr_stroke_area r st) p = true \/ rr_contains (rr_fill_area r st) p = true) as [Hs|Hf].
  { destruct (effective_stroke_color st);
    destruct (rr_contains (rr_stroke_area r st) p); destruct (rr_contains (rr_fill_area r st) p); auto; congruence. }
  - rewrite styled_bbox_is_stroke_area_box. apply rr_contains_in_bbox; [apply Hok|assumption].
  - apply fill_area_in_styled_bbox; try assumption. apply rr_contains_in_bbox; [apply Hok|assumption].
Qed.

Theorem rr_pixels_in_bbox r st bb p :
  styled_ok r st ->
  pix_get (writes_of_pixels bb (rr_pixels r st)) p <> None -> contains (rr_styled_bounding_box r st) p = true.
Proof.
  intros Hok. rewrite rr_pixels_pixmap by assumption. destruct (contains bb p); [|congruence].
  unfold spec_pixels. destruct (rr_contains (rr_stroke_area r st) p) eqn:Hs; [|congruence]. intros _.
  rewrite styled_bbox_is_stroke_area_box. apply rr_contains_in_bbox; [apply Hok|assumption].
Qed.

Theorem rr_transparent_draw r st : is_transparent st = true -> rr_draw r st = [].
Proof.
  unfold is_transparent, rr_draw, effective_stroke_color. intros H.
  destruct (fill_color st); [rewrite andb_false_r in H; discriminate|].
  destruct (stroke_color st); [|reflexivity].
  cbn [orb andb] in H. rewrite andb_true_r in H. replace (0 <? stroke_width st) with false by lia. reflexivity.
Qed.

Theorem rr_transparent_pixels r st bb p :
  styled_ok r st -> is_transparent st = true ->
  pix_get (writes_of_pixels bb (rr_pixels r st)) p = None.
Proof.
  intros Hok H. rewrite rr_pixels_pixmap by assumption. destruct (contains bb p); [|reflexivity].
  unfold spec_pixels. unfold is_transparent in H.
  destruct (fill_color st); [rewrite andb_false_r in H; discriminate|].
  destruct (stroke_color st).
  - cbn [orb andb] in H. rewrite andb_true_r in H. rewrite (areas_equal_width0 r st) by lia.
    destruct (rr_contains (rr_fill_area r st) p); reflexivity.
  - destruct (rr_contains (rr_stroke_area r st) p); [destruct (rr_contains (rr_fill_area r st) p)|]; reflexivity.
Qed.

(* ------------------------------------------------------------------------------------------ *)
(* C06: geometry of the two areas; the refutation witness of the unrestricted statement           *)
(* ------------------------------------------------------------------------------------------ *)
Lemma stroke_area_box r st : rr_rect (rr_stroke_area r st) = offset (rr_rect r) (stroke_area_offset st).
Proof. reflexivity. Qed.
Lemma fill_area_box r st : rr_rect (rr_fill_area r st) = offset (rr_rect r) (fill_area_offset st).
Proof. reflexivity. Qed.

(* inside stroke: the stroke area is the shape itself; outside stroke: the fill area is the shape itself *)
Lemma rr_offset_zero r : rr_ok r -> (forall s, In s [r_tl (rr_corners r); r_tr (rr_corners r); r_br (rr_corners r); r_bl (rr_corners r)] -> sw s <= u32_max /\ sh s <= u32_max) -> rr_offset r 0 = r.
Proof.
  intros [Hr (H1 & H2 & H3 & H4)] Hb. destruct r as [rc [c1 c2 c3 c4]]. unfold rr_offset. cbn [rr_rect rr_corners r_tl r_tr r_br r_bl] in *.
  rewrite offset_zero by assumption. cbn [Z.leb].
  pose proof (Hb c1 ltac:(cbn; auto)). pose proof (Hb c2 ltac:(cbn; auto)).
  pose proof (Hb c3 ltac:(cbn; auto)). pose proof (Hb c4 ltac:(cbn; auto)).
  unfold sz_nonneg in *.
  assert (forall s, 0 <= sw s <= u32_max -> 0 <= sh s <= u32_max -> size_sat_add s (S 0 0) = s) as E.
  { intros [a b]. cbn [sw sh]. unfold size_sat_add, sat_add_u32. cbn [sw sh]. intros. f_equal; lia. }
  rewrite !E by lia. reflexivity.
Qed.

Definition finding_r : rrect := RR (R (P 0 0) (S 4 29)) (CR (S 0 0) (S 0 0) (S 9 51) (S 0 0)).
Definition finding_st : style := Style (Some 5) (Some 7) 1 Inside Solid.

Lemma rr_styled_spec_refuted :
  exists r st bb p,
    styled_ok r st /\ rr_ok r /\ K06_rrect_fill_outside_stroke r st = true /\ contains bb p = true /\
    pix_get (writes_of_calls bb (rr_draw r st)) p <>
    spec_c06 st (rr_contains (rr_stroke_area r st)) (rr_contains (rr_fill_area r st)) p.
Proof.
  exists finding_r, finding_st, (R (P (-5) (-5)) (S 40 40)), (P 1 27).
  assert (forall r, (let '(RR (R (P x y) (S w h)) (CR (S a1 b1) (S a2 b2) (S a3 b3) (S a4 b4))) := r in
            andb (Z.abs x <=? bound) (andb (Z.abs y <=? bound) (andb (0 <=? w) (andb (w <=? bound) (andb (0 <=? h) (andb (h <=? bound)
            (andb (0 <=? a1) (andb (0 <=? b1) (andb (0 <=? a2) (andb (0 <=? b2) (andb (0 <=? a3) (andb (0 <=? b3) (andb (0 <=? a4) (0 <=? b4)))))))))))))) = true -> rr_ok r) as D.
  { intros [[[x y] [w h]] [[a1 b1] [a2 b2] [a3 b3] [a4 b4]]]. unfold rr_ok, rect_ok, point_ok, size_ok, radii_nonneg, sz_nonneg.
    cbn [rr_rect rr_corners r_tl r_tr r_br r_bl tl sz px py sw sh]. lia. }
  split; [split; apply D; vm_compute; reflexivity|].
  split; [apply D; vm_compute; reflexivity|].
  split; [vm_compute; reflexivity|]. split; [vm_compute; reflexivity|].
  vm_compute. discriminate.
Qed.

Definition radii_u32 (r : rrect) : Prop :=
  forall s, In s [r_tl (rr_corners r); r_tr (rr_corners r); r_br (rr_corners r); r_bl (rr_corners r)] ->
            sw s <= u32_max /\ sh s <= u32_max.

(* an inside stroke never paints outside the shape *)
Theorem rr_inside_stroke_stays_in r st bb p :
  styled_ok r st -> rr_ok r -> radii_u32 r -> K06_rrect_fill_outside_stroke r st = false ->
  stroke_alignment st = Inside ->
  pix_get (writes_of_calls bb (rr_draw r st)) p <> None -> rr_contains r p = true.
Proof.
  intros Hok Hr Hu K Ha. rewrite rr_styled_spec by assumption. destruct (contains bb p); [|congruence].
  pose proof (K06_false_sub r st (proj2 Hok) K p) as Hsub.
  assert (rr_stroke_area r st = r) as E.
  { unfold rr_stroke_area, stroke_area_offset, outside_stroke_width. rewrite Ha. apply rr_offset_zero; assumption. }
  rewrite E in *. unfold spec_c06.
  destruct (rr_contains (rr_fill_area r st) p) eqn:Hf; [intros _; apply Hsub; reflexivity|].
  destruct (rr_contains r p); [reflexivity|]. cbn [andb]. congruence.
Qed.

(* an outside stroke never paints inside the shape: points of the shape get the fill colour (or nothing) *)
Theorem rr_outside_stroke_stays_out r st bb p :
  styled_ok r st -> rr_ok r -> radii_u32 r -> K06_rrect_fill_outside_stroke r st = false ->
  stroke_alignment st = Outside -> rr_contains r p = true ->
  pix_get (writes_of_calls bb (rr_draw r st)) p = if contains bb p then fill_color st else None.
Proof.
  intros Hok Hr Hu K Ha Hp. rewrite rr_styled_spec by assumption. destruct (contains bb p); [|reflexivity].
  assert (rr_fill_area r st = r) as E.
  { unfold rr_fill_area, fill_area_offset, inside_stroke_width. rewrite Ha.
    destruct (stroke_kind st); apply rr_offset_zero; assumption. }
  unfold spec_c06. rewrite E, Hp. reflexivity.
Qed.

(* ------------------------------------------------------------------------------------------ *)
(* C18: half radii on even sides = the ellipse; columns contiguous                                *)
(* ------------------------------------------------------------------------------------------ *)
(* ---- C18: half radii on even sides = the ellipse ---- *)
Lemma threshold_le d : 0 <= d -> rr_diameter_to_threshold d <= d * d.
Proof. intros. unfold rr_diameter_to_threshold. destruct (d <=? 4); nia. Qed.

(* Ellipse::contains is false outside the ellipse's bounding box *)
Lemma ellipse_outside_box t a b p :
  0 <= a -> 0 <= b ->
  ~ (px t <= px p < px t + 2 * a /\ py t <= py p < py t + 2 * b) ->
  rr_ellipse_contains t (S (a * 2) (b * 2)) p = false.
Proof.
  intros Ha Hb Hout. unfold rr_ellipse_contains, ec_contains, ec_new, rr_center_2x.
  unfold psub, padd_size, size_sat_sub, sat_sub_u32. cbn [px py sw sh ec_a ec_b ec_threshold].
  set (u := px p * 2 - (px t * 2 + Z.max (a * 2 - 1) 0)).
  set (v := py p * 2 - (py t * 2 + Z.max (b * 2 - 1) 0)).
  pose proof (threshold_le (a * 2) ltac:(lia)) as Ht.
  assert ((a * 2) * (a * 2) <= u * u /\ (a = 0 \/ (a * 2) * (a * 2) < u * u) \/
          (b * 2) * (b * 2) <= v * v /\ (b = 0 \/ (b * 2) * (b * 2) < v * v)) as Hfar.
  { destruct (Z_lt_le_dec (px p) (px t)); [left; unfold u; nia|].
    destruct (Z_le_gt_dec (px t + 2 * a) (px p)); [left; unfold u; nia|].
    destruct (Z_lt_le_dec (py p) (py t)); [right; unfold v; nia|].
    destruct (Z_le_gt_dec (py t + 2 * b) (py p)); [right; unfold v; nia|]. lia. }
  clearbody u v.
  destruct (a * 2 * (a * 2) =? b * 2 * (b * 2)) eqn:E; [destruct (a * 2 =? b * 2) eqn:E2|destruct (a * 2 =? b * 2) eqn:E2].
  - apply Z.ltb_ge. nia.
  - nia.
  - nia.
  - apply Z.ltb_ge. nia.
Qed.

Lemma half_quadrant_contains t a b q t' p :
  0 <= a -> 0 <= b ->
  px t' = (if is_left q then px t else px t + a) -> py t' = (if is_top q then py t else py t + b) ->
  eq_contains (eq_new t' (S a b) q) p = rr_ellipse_contains t (S (a * 2) (b * 2)) p.
Proof.
  intros Ha Hb Hx Hy. unfold eq_contains, rr_ellipse_contains.
  replace (eq_ellipse (eq_new t' (S a b) q)) with (ec_new (S (a * 2) (b * 2))) by reflexivity.
  f_equal. f_equal.
  assert (forall u v : point, px u = px v -> py u = py v -> u = v) as Ext
    by (intros [ux uy] [vx vy]; cbn [px py]; intros -> ->; reflexivity).
  apply Ext.
  - rewrite eq_center_x by (cbn [sw]; lia). unfold rr_center_2x, padd_size, size_sat_sub, sat_sub_u32. cbn [px py sw sh].
    rewrite Hx. destruct (is_left q); lia.
  - rewrite eq_center_y by (cbn [sh]; lia). unfold rr_center_2x, padd_size, size_sat_sub, sat_sub_u32. cbn [px py sw sh].
    rewrite Hy. destruct (is_top q); lia.
Qed.

Theorem rr_half_eq_ellipse t a b p :
  point_ok t -> 0 <= 2 * a <= bound -> 0 <= 2 * b <= bound ->
  rr_contains (RR (R t (S (a * 2) (b * 2))) (radii_equal (S a b))) p =
  rr_ellipse_contains t (S (a * 2) (b * 2)) p.
Proof.
  intros Ht Ha Hb.
  set (r := RR (R t (S (a * 2) (b * 2))) (radii_equal (S a b))).
  assert (rr_ok r) as Hok.
  { unfold r, rr_ok, rect_ok, size_ok, radii_nonneg, radii_equal, sz_nonneg. cbn [rr_rect rr_corners tl sz sw sh r_tl r_tr r_br r_bl].
    repeat split; try apply Ht; lia. }
  pose proof (rrc_new_fields r Hok) as F. cbv zeta in F.
  assert (conf r = radii_equal (S a b)) as Ec.
  { unfold conf, r. cbn [rr_rect rr_corners sz]. apply confine_fit_id.
    unfold radii_fit, radii_equal. cbn [r_tl r_tr r_br r_bl sw sh]. lia. }
  rewrite Ec in F. subst r. unfold radii_equal in *.
  cbn [rr_rect tl sz sw sh r_tl r_tr r_br r_bl] in F.
  destruct F as (Frows & Fcols & Fsrl & Fsrr & Ftl & Ftr & Fbr & Fbl).
  unfold rr_contains, rrc_contains. rewrite Frows, Fcols, Fsrl, Fsrr, Ftl, Ftr, Fbr, Fbl.
  rewrite !eq_new_bbox. unfold in_rng. cbn [fst snd].
  rewrite !columns_R by (cbn [px sw]; destruct Ht; unfold bound in *; lia). cbn [fst snd px sw].
  rewrite (half_quadrant_contains t a b QTopLeft) by (cbn [is_left is_top px py]; lia).
  rewrite (half_quadrant_contains t a b QTopRight) by (cbn [is_left is_top px py]; lia).
  rewrite (half_quadrant_contains t a b QBottomLeft) by (cbn [is_left is_top px py]; lia).
  rewrite (half_quadrant_contains t a b QBottomRight) by (cbn [is_left is_top px py]; lia).
  destruct ((py t <=? py p) && (py p <? py t + b * 2) && ((px t <=? px p) && (px p <? px t + a * 2))) eqn:Hbox; cbn [negb].
  - destruct (rr_ellipse_contains t (S (a * 2) (b * 2)) p); cbn [negb andb].
    + rewrite !andb_false_r. reflexivity.
    + rewrite !andb_true_r.
      destruct (py p <? py t + b) eqn:E1; destruct (px p <? px t + a) eqn:E2; cbn [andb]; try reflexivity.
      * replace (px t + a * 2 - a <=? px p) with true by lia. reflexivity.
      * replace (py t + b * 2 - b <=? py p) with true by lia. reflexivity.
      * replace (py t + b * 2 - b <=? py p) with true by lia. cbn [andb].
        replace (px t + a * 2 - a <=? px p) with true by lia. reflexivity.
  - symmetry. apply ellipse_outside_box; lia.
Qed.

(* ---- C18: columns are contiguous ---- *)
Definition side_test (q : equad) (left : bool) (x : Z) : bool :=
  if left then x <? snd (columns (eq_bbox q)) else fst (columns (eq_bbox q)) <=? x.
Definition cond_top (q : equad) (start : Z) (left : bool) (p : point) : bool :=
  negb ((py p <? start) && side_test q left (px p) && negb (eq_contains q p)).
Definition cond_bot (q : equad) (stop : Z) (left : bool) (p : point) : bool :=
  negb ((stop <=? py p) && side_test q left (px p) && negb (eq_contains q p)).

Lemma rrc_contains_and c p :
  rrc_contains c p =
  in_rng (c_rows c) (py p) && in_rng (c_columns c) (px p) &&
  cond_top (c_tl c) (fst (c_srl c)) true p && cond_top (c_tr c) (fst (c_srr c)) false p &&
  cond_bot (c_bl c) (snd (c_srl c)) true p && cond_bot (c_br c) (snd (c_srr c)) false p.
Proof.
  unfold rrc_contains, cond_top, cond_bot, side_test.
  destruct (in_rng (c_rows c) (py p)); cbn [andb negb]; [|reflexivity].
  destruct (in_rng (c_columns c) (px p)); cbn [andb negb]; [|reflexivity].
  repeat match goal with
  | |- context [?a <? ?b] => destruct (a <? b); cbn [andb negb orb]
  | |- context [?a <=? ?b] => destruct (a <=? b); cbn [andb negb orb]
  | |- context [eq_contains ?q ?p] => destruct (eq_contains q p); cbn [andb negb orb]
  end; reflexivity.
Qed.

Lemma cond_top_up t rad qd left x y y' :
  is_top qd = true -> 0 <= sh rad -> py t <= y <= y' ->
  cond_top (eq_new t rad qd) (py t + sh rad) left (P x y) = true ->
  cond_top (eq_new t rad qd) (py t + sh rad) left (P x y') = true.
Proof.
  intros Hq Hb Hy. unfold cond_top. cbn [px py].
  destruct (y' <? py t + sh rad) eqn:E'; cbn [andb negb]; [|reflexivity].
  replace (y <? py t + sh rad) with true by lia. cbn [andb].
  destruct (side_test (eq_new t rad qd) left x); cbn [andb negb]; [|reflexivity].
  rewrite !negb_involutive. apply (eq_top_mono t rad qd x Hq Hb); lia.
Qed.

Lemma cond_bot_down t rad qd left x y y' :
  is_top qd = false -> 0 <= sh rad -> y' <= y < py t + sh rad ->
  cond_bot (eq_new t rad qd) (py t) left (P x y) = true ->
  cond_bot (eq_new t rad qd) (py t) left (P x y') = true.
Proof.
  intros Hq Hb Hy. unfold cond_bot. cbn [px py].
  destruct (py t <=? y') eqn:E'; cbn [andb negb]; [|reflexivity].
  replace (py t <=? y) with true by lia. cbn [andb].
  destruct (side_test (eq_new t rad qd) left x); cbn [andb negb]; [|reflexivity].
  rewrite !negb_involutive. apply (eq_bottom_mono t rad qd x Hq Hb); lia.
Qed.

Theorem rr_col_contiguous r x y1 y2 y3 :
  rr_ok r -> y1 <= y2 <= y3 ->
  rr_contains r (P x y1) = true -> rr_contains r (P x y3) = true -> rr_contains r (P x y2) = true.
Proof.
  intros Hok Hy. pose proof (rrc_new_fields r Hok) as F. cbv zeta in F.
  destruct F as (Frows & Fcols & Fsrl & Fsrr & Ftl & Ftr & Fbr & Fbl).
  destruct (conf_facts r Hok) as [Hnn Hfit].
  destruct Hnn as ((A1 & B1) & (A2 & B2) & (A3 & B3) & (A4 & B4)).
  unfold rr_contains. rewrite !rrc_contains_and. rewrite Frows, Fcols, Fsrl, Fsrr, Ftl, Ftr, Fbr, Fbl.
  cbn [fst snd px py]. unfold in_rng. cbn [fst snd].
  set (x0 := px (tl (rr_rect r))) in *. set (y0 := py (tl (rr_rect r))) in *.
  set (w := sw (sz (rr_rect r))) in *. set (h := sh (sz (rr_rect r))) in *. set (c := conf r) in *.
  intros H1 H3. apply andb_prop in H1, H3. destruct H1 as [H1 Hbr1], H3 as [H3 Hbr3].
  apply andb_prop in H1, H3. destruct H1 as [H1 Hbl1], H3 as [H3 Hbl3].
  apply andb_prop in H1, H3. destruct H1 as [H1 Htr1], H3 as [H3 Htr3].
  apply andb_prop in H1, H3. destruct H1 as [H1 Htl1], H3 as [H3 Htl3].
  apply andb_true_intro; split; [apply andb_true_intro; split; [apply andb_true_intro; split; [apply andb_true_intro; split; [lia|]|]|]|].
  - apply (cond_top_up (P x0 y0) (r_tl c) QTopLeft true x y1 y2); [reflexivity|lia|cbn [py]; lia|exact Htl1].
  - apply (cond_top_up (P (x0 + w - sw (r_tr c)) y0) (r_tr c) QTopRight false x y1 y2); [reflexivity|lia|cbn [py]; lia|exact Htr1].
  - replace (y0 + h - sh (r_bl c)) with (py (P x0 (y0 + h - sh (r_bl c)))) in * by reflexivity.
    apply (cond_bot_down _ (r_bl c) QBottomLeft true x y3 y2); [reflexivity|lia|cbn [py]; lia|exact Hbl3].
  - replace (y0 + h - sh (r_br c)) with (py (P (x0 + w - sw (r_br c)) (y0 + h - sh (r_br c)))) in * by reflexivity.
    apply (cond_bot_down _ (r_br c) QBottomRight false x y3 y2); [reflexivity|lia|cbn [py]; lia|exact Hbr3].
Qed.

(* ---- C18: corners are ellipse quadrants ---- *)
Definition quadrants : list quadrant := [QTopLeft; QTopRight; QBottomRight; QBottomLeft].

(* top-left corner of the full ellipse a quadrant is cut from (ellipse_quadrant.rs:30-35) *)
Definition quadrant_ellipse_top_left (t : point) (rad : size) (q : quadrant) : point :=
  match q with
  | QTopLeft => t
  | QTopRight => psub_size t (x_axis rad)
  | QBottomRight => psub_size t rad
  | QBottomLeft => psub_size t (y_axis rad)
  end.

(* EllipseQuadrant::contains is Ellipse::contains of the ellipse with twice the radius as size *)
Lemma eq_contains_is_ellipse t rad q p :
  eq_contains (eq_new t rad q) p =
  rr_ellipse_contains (quadrant_ellipse_top_left t rad q) (S (sw rad * 2) (sh rad * 2)) p.
Proof. destruct q; reflexivity. Qed.

Lemma quad_bool X Y e : negb (Y && X && negb e) = negb (X && Y) || e.
Proof. destruct X, Y, e; reflexivity. Qed.

Lemma contains_box_bool x0 y0 a b p :
  contains (R (P x0 y0) (S a b)) p = ((x0 <=? px p) && (px p <? x0 + a)) && ((y0 <=? py p) && (py p <? y0 + b)).
Proof. apply eq_true_iff_eq. rewrite contains_spec. cbn [tl sz px py sw sh]. lia. Qed.

(* contains() = inside the base rectangle, and inside the ellipse quadrant of every corner box the point lies in *)
Theorem rr_contains_quadrants r p :
  rr_ok r ->
  rr_contains r p =
  contains (rr_rect r) p &&
  forallb (fun q => let e := corner_quadrant r q in negb (contains (eq_bbox e) p) || eq_contains e p) quadrants.
Proof.
  intros Hok. pose proof (rrc_new_fields r Hok) as F. cbv zeta in F.
  destruct F as (Frows & Fcols & Fsrl & Fsrr & Ftl & Ftr & Fbr & Fbl).
  assert (c_tl (rrc_new r) = corner_quadrant r QTopLeft) as Qtl by reflexivity.
  assert (c_tr (rrc_new r) = corner_quadrant r QTopRight) as Qtr by reflexivity.
  assert (c_br (rrc_new r) = corner_quadrant r QBottomRight) as Qbr by reflexivity.
  assert (c_bl (rrc_new r) = corner_quadrant r QBottomLeft) as Qbl by reflexivity.
  unfold quadrants. cbn [forallb]. cbv zeta. rewrite <- Qtl, <- Qtr, <- Qbr, <- Qbl.
  unfold rr_contains. rewrite rrc_contains_and. unfold cond_top, cond_bot, side_test.
  rewrite Frows, Fcols, Fsrl, Fsrr. rewrite Ftl, Ftr, Fbr, Fbl. rewrite !eq_new_bbox.
  destruct (conf_facts r Hok) as [Hnn Hfit].
  destruct Hnn as ((A1 & B1) & (A2 & B2) & (A3 & B3) & (A4 & B4)).
  destruct Hfit as (T & Bo & L & Ri).
  destruct Hok as [[Hp Hs] _]. unfold point_ok, size_ok in Hp, Hs.
  set (x0 := px (tl (rr_rect r))) in *. set (y0 := py (tl (rr_rect r))) in *.
  set (w := sw (sz (rr_rect r))) in *. set (h := sh (sz (rr_rect r))) in *. set (c := conf r) in *.
  rewrite !columns_R; try (cbn [px]; unfold bound in *; lia). cbn [fst snd px py].
  replace (rr_rect r) with (R (P x0 y0) (S w h)) by (destruct (rr_rect r) as [[? ?] [? ?]]; reflexivity).
  destruct (r_tl c) as [a1 b1], (r_tr c) as [a2 b2], (r_br c) as [a3 b3], (r_bl c) as [a4 b4]. cbn [sw sh] in *.
  rewrite !contains_box_bool. unfold in_rng. cbn [fst snd].
  repeat match goal with |- context [eq_contains ?q ?pt] => generalize (eq_contains q pt); intro end.
  destruct (y0 <=? py p) eqn:E1; destruct (py p <? y0 + h) eqn:E2; destruct (x0 <=? px p) eqn:E3; destruct (px p <? x0 + w) eqn:E4;
    cbn [andb]; try reflexivity.
  replace (px p <? x0 + w - a2 + a2) with true by lia. replace (px p <? x0 + w - a3 + a3) with true by lia.
  replace (py p <? y0 + h - b3 + b3) with true by lia. replace (py p <? y0 + h - b4 + b4) with true by lia.
  rewrite ?andb_true_r. rewrite <- !quad_bool.
  repeat match goal with |- context [negb ?t] => generalize (negb t); intro end.
  repeat match goal with b : bool |- _ => destruct b end; reflexivity.
Qed.
