(* Round 2 for the RoundedRectangle family: pixels() in the property's form, how fill_area / stroke_area change box and radii,
   an input-checkable condition that excludes the known-finding class, the half-pixel band of the corners, and the
   arithmetic of the family fitting its Rust types. *)
From EG Require Import Base.Prelude Base.Lemmas Model.Geometry Model.Style Model.Circle Model.Ellipse Model.Rrect
  Proofs.Geometry Proofs.Ellipse Proofs.Curvefacts Proofs.Rrect Proofs.Rrectbridge.
From Coq Require Import ZifyBool.

Ltac Zify.zify_post_hook ::= Z.to_euclidean_division_equations.
Set Default Timeout 60.

(* ------------------------------------------------------------------------------------------ *)
(* C06: pixels() in the form of the property; width 0 / no stroke colour                         *)
(* ------------------------------------------------------------------------------------------ *)
Theorem rr_pixels_spec r st bb p :
  styled_ok r st -> 0 <= stroke_width st -> K06_rrect_fill_outside_stroke r st = false ->
  pix_get (writes_of_pixels bb (rr_pixels r st)) p =
  if contains bb p
  then spec_c06 st (rr_contains (rr_stroke_area r st)) (rr_contains (rr_fill_area r st)) p
  else None.
Proof. intros Hok Hw K. rewrite rr_pixels_draw by assumption. apply rr_styled_spec; assumption. Qed.

(* stroke width 0: the two areas coincide, so the input is never in the class *)
Lemma K06_false_width0 r st : stroke_width st = 0 -> K06_rrect_fill_outside_stroke r st = false.
Proof.
  intros H. unfold K06_rrect_fill_outside_stroke. cbv zeta. rewrite (areas_equal_width0 r st H).
  apply not_true_is_false. intros E. apply existsb_exists in E. destruct E as (p & _ & E).
  destruct (rr_contains (rr_fill_area r st) p); discriminate.
Qed.

(* no visible stroke (no stroke colour, or width 0): both renderers paint the fill colour on fill_area() and nothing else *)
Theorem rr_no_stroke_image r st bb p :
  styled_ok r st -> 0 <= stroke_width st -> K06_rrect_fill_outside_stroke r st = false ->
  stroke_color st = None \/ stroke_width st = 0 ->
  let img := if contains bb p && rr_contains (rr_fill_area r st) p then fill_color st else None in
  pix_get (writes_of_calls bb (rr_draw r st)) p = img /\ pix_get (writes_of_pixels bb (rr_pixels r st)) p = img.
Proof.
  intros Hok Hw K Hns. cbv zeta. rewrite rr_pixels_spec, rr_styled_spec by assumption.
  unfold spec_c06. destruct (contains bb p); cbn [andb]; [|split; reflexivity].
  destruct (rr_contains (rr_fill_area r st) p); [split; reflexivity|].
  destruct Hns as [-> | ->].
  - destruct (rr_contains (rr_stroke_area r st) p && (0 <? stroke_width st)); split; reflexivity.
  - rewrite andb_false_r. split; reflexivity.
Qed.

(* ------------------------------------------------------------------------------------------ *)
(* C06: what fill_area() / stroke_area() do to the box and to the radii                          *)
(* ------------------------------------------------------------------------------------------ *)
Definition map_radii (f : size -> size) (c : radii) : radii := CR (f (r_tl c)) (f (r_tr c)) (f (r_br c)) (f (r_bl c)).
Definition grow_size (n : Z) (s : size) : size := S (sw s + n) (sh s + n).
Definition shrink_size (n : Z) (s : size) : size := S (Z.max (sw s - n) 0) (Z.max (sh s - n) 0).

Definition radii_le (c : radii) (b : Z) : Prop :=
  forall s, In s [r_tl c; r_tr c; r_br c; r_bl c] -> sw s <= b /\ sh s <= b.

(* the inside part of the stroke width that fill_area() uses *)
Definition fill_inset (st : style) : Z :=
  match stroke_kind st with Solid => inside_stroke_width st | Dotted => 0 end.

Lemma style_parts st :
  0 <= stroke_width st <= bound ->
  stroke_area_offset st = outside_stroke_width st /\ fill_area_offset st = - fill_inset st /\
  0 <= outside_stroke_width st <= stroke_width st /\ 0 <= fill_inset st <= stroke_width st.
Proof.
  intros Hw. unfold stroke_area_offset, fill_area_offset, fill_inset, outside_stroke_width, inside_stroke_width.
  unfold sat_u32_to_i32, sat_add_u32, i32_max, u32_max, bound in *.
  destruct (stroke_kind st); destruct (stroke_alignment st); repeat split; lia.
Qed.

(* every corner radius grows by the outside part / shrinks by the inside part (clamped at 0); contains()/points()/draw then
   use these radii confined to the area's own box (conf = CornerRadii::confine) *)
Theorem rr_area_radii r st :
  radii_nonneg (rr_corners r) -> radii_le (rr_corners r) bound -> 0 <= stroke_width st <= bound ->
  rr_corners (rr_stroke_area r st) = map_radii (grow_size (outside_stroke_width st)) (rr_corners r) /\
  rr_corners (rr_fill_area r st) = map_radii (shrink_size (fill_inset st)) (rr_corners r) /\
  conf (rr_stroke_area r st) =
    confine (map_radii (grow_size (outside_stroke_width st)) (rr_corners r)) (sz (rr_rect (rr_stroke_area r st))) /\
  conf (rr_fill_area r st) =
    confine (map_radii (shrink_size (fill_inset st)) (rr_corners r)) (sz (rr_rect (rr_fill_area r st))).
Proof.
  intros Hnn Hle Hw. destruct (style_parts st Hw) as (Es & Ef & Ho & Hi).
  assert (rr_corners (rr_stroke_area r st) = map_radii (grow_size (outside_stroke_width st)) (rr_corners r)) as E1.
  { unfold rr_stroke_area, rr_offset. cbn [rr_corners]. rewrite Es.
    replace (0 <=? outside_stroke_width st) with true by lia. unfold map_radii. 
    destruct Hnn as ((A1 & B1) & (A2 & B2) & (A3 & B3) & (A4 & B4)).
    pose proof (Hle (r_tl (rr_corners r)) ltac:(cbn; auto)). pose proof (Hle (r_tr (rr_corners r)) ltac:(cbn; auto)).
    pose proof (Hle (r_br (rr_corners r)) ltac:(cbn; auto)). pose proof (Hle (r_bl (rr_corners r)) ltac:(cbn; auto)).
    unfold grow_size, size_sat_add, sat_add_u32, u32_max, bound in *. cbn [sw sh].
    f_equal; f_equal; lia. }
  assert (rr_corners (rr_fill_area r st) = map_radii (shrink_size (fill_inset st)) (rr_corners r)) as E2.
  { unfold rr_fill_area, rr_offset. cbn [rr_corners]. rewrite Ef. unfold map_radii.
    destruct Hnn as ((A1 & B1) & (A2 & B2) & (A3 & B3) & (A4 & B4)).
    pose proof (Hle (r_tl (rr_corners r)) ltac:(cbn; auto)). pose proof (Hle (r_tr (rr_corners r)) ltac:(cbn; auto)).
    pose proof (Hle (r_br (rr_corners r)) ltac:(cbn; auto)). pose proof (Hle (r_bl (rr_corners r)) ltac:(cbn; auto)).
    destruct (0 <=? - fill_inset st) eqn:E.
    - assert (fill_inset st = 0) as -> by lia.
      unfold shrink_size, size_sat_add, sat_add_u32, u32_max, bound in *. cbn [sw sh]. f_equal; f_equal; lia.
    - unfold shrink_size, size_sat_sub, sat_sub_u32. cbn [sw sh]. f_equal; f_equal; lia. }
  repeat split; try assumption; unfold conf; [rewrite E1|rewrite E2]; reflexivity.
Qed.

(* closed forms of Rectangle::offset for a non-empty rectangle *)
Lemma offset_grow_closed rc n :
  rect_ok rc -> 1 <= sw (sz rc) -> 1 <= sh (sz rc) -> 0 <= n <= bound ->
  offset rc n = R (P (px (tl rc) - n) (py (tl rc) - n)) (S (sw (sz rc) + 2 * n) (sh (sz rc) + 2 * n)).
Proof.
  intros H Hw Hh Hn. destr_rects. unf. replace (0 <=? n) with true by lia. cbn [tl sz px py sw sh].
  f_equal; f_equal; lia.
Qed.

Lemma offset_shrink_closed rc m :
  rect_ok rc -> 0 <= m <= bound -> 2 * m < sw (sz rc) -> 2 * m < sh (sz rc) ->
  offset rc (- m) = R (P (px (tl rc) + m) (py (tl rc) + m)) (S (sw (sz rc) - 2 * m) (sh (sz rc) - 2 * m)).
Proof.
  intros H Hm Hw Hh. destr_rects. unf. destruct (0 <=? - m) eqn:E; cbn [tl sz px py sw sh]; f_equal; f_equal; lia.
Qed.

(* a point inside a shrunk rectangle: the rectangle was big enough and the point keeps the distance m from its sides *)
Lemma offset_shrink_contains rc m p :
  rect_ok rc -> 0 <= m <= bound -> contains (offset rc (- m)) p = true ->
  2 * m < sw (sz rc) /\ 2 * m < sh (sz rc) /\
  px (tl rc) + m <= px p < px (tl rc) + sw (sz rc) - m /\ py (tl rc) + m <= py p < py (tl rc) + sh (sz rc) - m.
Proof.
  intros H Hm. rewrite contains_spec. destr_rects. unf.
  destruct (0 <=? - m) eqn:E; cbn [tl sz px py sw sh]; intros [Hx Hy]; repeat split; lia.
Qed.

(* ------------------------------------------------------------------------------------------ *)
(* C06: radii that need no confinement in either area => the fill area lies in the stroke area   *)
(* ------------------------------------------------------------------------------------------ *)
Lemma thr_mono d d' : 1 <= d <= d' -> rr_diameter_to_threshold d <= rr_diameter_to_threshold d'.
Proof.
  intros H. unfold rr_diameter_to_threshold. destruct (d <=? 4) eqn:E; destruct (d' <=? 4) eqn:E'; nia.
Qed.

(* concentric ellipse tests: growing both semi-axes by the same amount keeps every accepted point *)
Lemma ec_grow a b a' b' u v :
  1 <= a <= a' -> 1 <= b <= b' -> a' - a = b' - b ->
  ec_contains (ec_new (S (a * 2) (b * 2))) (P u v) = true ->
  ec_contains (ec_new (S (a' * 2) (b' * 2))) (P u v) = true.
Proof.
  intros Ha Hb Hd. unfold ec_contains, ec_new. cbn [ec_a ec_b ec_threshold px py sw sh].
  destruct (a * 2 * (a * 2) =? b * 2 * (b * 2)) eqn:E.
  - assert (a = b) by nia. subst b. assert (a' = b') by lia. subst b'.
    rewrite !Z.eqb_refl. rewrite !Z.ltb_lt. pose proof (thr_mono (a * 2) (a' * 2) ltac:(lia)). lia.
  - assert (a <> b) by (intros ->; lia). assert (a' <> b') by lia.
    replace (a * 2 =? b * 2) with false by lia. replace (a' * 2 =? b' * 2) with false by lia.
    replace (a' * 2 * (a' * 2) =? b' * 2 * (b' * 2)) with false by nia.
    rewrite !Z.ltb_lt. intros H1.
    pose proof (ideal_grow (a * 2) (b * 2) (a' * 2) (b' * 2) (u * u) (v * v) ltac:(lia) ltac:(lia)
                  (Z.square_nonneg u) (Z.square_nonneg v)) as G.
    unfold ideal_in in G. apply G. exact H1.
Qed.

Lemma eq_contains_ec t rad q p :
  eq_contains (eq_new t rad q) p =
  ec_contains (ec_new (S (sw rad * 2) (sh rad * 2)))
    (P (px p * 2 - px (eq_center_2x (eq_new t rad q))) (py p * 2 - py (eq_center_2x (eq_new t rad q)))).
Proof. reflexivity. Qed.

(* one corner: inside the fill area's box and inside the stroke area's corner box means inside the fill area's corner box,
   whose ellipse is concentric with, and smaller than, the stroke area's *)
Lemma quadrant_area_incl q x0 y0 w h a b n m p :
  0 <= n -> 0 <= m -> 0 <= a -> 0 <= b ->
  let tS := P (if is_left q then x0 - n else x0 + w + n - (a + n)) (if is_top q then y0 - n else y0 + h + n - (b + n)) in
  let tF := P (if is_left q then x0 + m else x0 + w - m - Z.max (a - m) 0)
              (if is_top q then y0 + m else y0 + h - m - Z.max (b - m) 0) in
  x0 + m <= px p < x0 + w - m -> y0 + m <= py p < y0 + h - m ->
  contains (R tS (S (a + n) (b + n))) p = true ->
  negb (contains (R tF (S (Z.max (a - m) 0) (Z.max (b - m) 0))) p)
    || eq_contains (eq_new tF (S (Z.max (a - m) 0) (Z.max (b - m) 0)) q) p = true ->
  eq_contains (eq_new tS (S (a + n) (b + n)) q) p = true.
Proof.
  intros Hn Hm Ha Hb tS tF Hx Hy HS HF.
  apply contains_spec in HS. cbn [tl sz px py sw sh] in HS.
  assert (m < a /\ m < b) as [Hma Hmb] by (subst tS; destruct q; cbn [is_left is_top px py] in HS; lia).
  assert (contains (R tF (S (Z.max (a - m) 0) (Z.max (b - m) 0))) p = true) as HFb.
  { apply contains_spec. cbn [tl sz px py sw sh]. subst tS tF. destruct q; cbn [is_left is_top px py] in *; lia. }
  rewrite HFb in HF. cbn [negb orb] in HF.
  rewrite eq_contains_ec in HF |- *. cbn [sw sh] in *.
  rewrite !eq_center_x, !eq_center_y in * by (cbn [sw sh]; lia). cbn [sw sh] in *.
  replace (Z.max (a - m) 0) with (a - m) in * by lia. replace (Z.max (b - m) 0) with (b - m) in * by lia.
  assert (forall u v u' v', u = u' -> v = v' ->
            ec_contains (ec_new (S ((a - m) * 2) ((b - m) * 2))) (P u v) = true ->
            ec_contains (ec_new (S ((a + n) * 2) ((b + n) * 2))) (P u' v') = true) as G.
  { intros u v u' v' <- <-. apply ec_grow; lia. }
  eapply G; [| |exact HF]; subst tS tF; destruct q; cbn [is_left is_top px py]; lia.
Qed.

Definition q_radius (c : radii) (q : quadrant) : size :=
  match q with QTopLeft => r_tl c | QTopRight => r_tr c | QBottomRight => r_br c | QBottomLeft => r_bl c end.

(* the corner quadrant of a shape whose radii need no confinement *)
Lemma corner_quadrant_fit x0 y0 w h c q :
  radii_fit c (S w h) ->
  corner_quadrant (RR (R (P x0 y0) (S w h)) c) q =
  eq_new (P (if is_left q then x0 else x0 + w - sw (q_radius c q)) (if is_top q then y0 else y0 + h - sh (q_radius c q)))
         (q_radius c q) q.
Proof.
  intros Hfit. unfold corner_quadrant. cbn [rr_rect rr_corners tl sz]. rewrite (confine_fit_id c (S w h) Hfit).
  destruct q; cbn [is_left is_top q_radius]; unfold padd_size, psub_size, x_axis, y_axis; cbn [px py sw sh];
    repeat f_equal; lia.
Qed.

Lemma q_radius_map f c q : q_radius (map_radii f c) q = f (q_radius c q).
Proof. destruct q; reflexivity. Qed.

Lemma In_quadrants q : In q quadrants.
Proof. destruct q; cbn; auto. Qed.

Theorem rr_no_oversize_no_K06 r st :
  rr_ok r -> radii_le (rr_corners r) bound -> 0 <= stroke_width st <= bound -> styled_ok r st ->
  radii_fit (rr_corners (rr_stroke_area r st)) (sz (rr_rect (rr_stroke_area r st))) ->
  radii_fit (rr_corners (rr_fill_area r st)) (sz (rr_rect (rr_fill_area r st))) ->
  K06_rrect_fill_outside_stroke r st = false.
Proof.
  intros [Hrc Hnn] Hle Hw [HokS HokF] HfitS HfitF.
  apply not_true_is_false. intros E. unfold K06_rrect_fill_outside_stroke in E. cbv zeta in E.
  apply existsb_exists in E. destruct E as (p & _ & E). apply andb_prop in E. destruct E as [EF ES].
  apply negb_true_iff in ES. enough (rr_contains (rr_stroke_area r st) p = true) by congruence. clear ES.
  destruct (style_parts st Hw) as (Es & Ef & Ho & Hi).
  destruct (rr_area_radii r st Hnn Hle Hw) as (Ecs & Ecf & _ & _).
  set (n := outside_stroke_width st) in *. set (m := fill_inset st) in *.
  (* the fill area is non-empty, hence closed forms for both boxes *)
  pose proof (rr_contains_in_bbox _ p HokF EF) as Hbox. unfold rr_bounding_box in Hbox.
  assert (rr_rect (rr_fill_area r st) = offset (rr_rect r) (- m)) as ErF by (unfold rr_fill_area, rr_offset; cbn [rr_rect]; rewrite Ef; reflexivity).
  assert (rr_rect (rr_stroke_area r st) = offset (rr_rect r) n) as ErS by (unfold rr_stroke_area, rr_offset; cbn [rr_rect]; rewrite Es; reflexivity).
  rewrite ErF in Hbox. apply offset_shrink_contains in Hbox; [|assumption|lia].
  destruct Hbox as (Hmw & Hmh & Hpx & Hpy).
  rewrite (offset_shrink_closed _ m Hrc ltac:(lia) Hmw Hmh) in ErF.
  rewrite (offset_grow_closed _ n Hrc ltac:(lia) ltac:(lia) ltac:(lia)) in ErS.
  set (x0 := px (tl (rr_rect r))) in *. set (y0 := py (tl (rr_rect r))) in *.
  set (w := sw (sz (rr_rect r))) in *. set (h := sh (sz (rr_rect r))) in *. set (c := rr_corners r) in *.
  assert (rr_stroke_area r st = RR (R (P (x0 - n) (y0 - n)) (S (w + 2 * n) (h + 2 * n))) (map_radii (grow_size n) c)) as ES
    by (destruct (rr_stroke_area r st) as [rc cc]; cbn [rr_rect rr_corners] in *; subst; reflexivity).
  assert (rr_fill_area r st = RR (R (P (x0 + m) (y0 + m)) (S (w - 2 * m) (h - 2 * m))) (map_radii (shrink_size m) c)) as EFa
    by (destruct (rr_fill_area r st) as [rc cc]; cbn [rr_rect rr_corners] in *; subst; reflexivity).
  rewrite ES in *. rewrite EFa in *. cbn [rr_rect rr_corners sz] in HfitS, HfitF.
  rewrite rr_contains_quadrants in EF |- * by assumption. cbn [rr_rect] in *.
  apply andb_prop in EF. destruct EF as [EFbox EFq]. apply andb_true_intro. split.
  - apply contains_spec. cbn [tl sz px py sw sh]. lia.
  - apply forallb_forall. intros q _. rewrite forallb_forall in EFq. specialize (EFq q (In_quadrants q)).
    cbv zeta in EFq |- *. rewrite corner_quadrant_fit in EFq |- * by assumption.
    rewrite !q_radius_map in *. rewrite !eq_new_bbox in *.
    assert (0 <= sw (q_radius c q) /\ 0 <= sh (q_radius c q)) as [Ha Hb].
    { destruct Hnn as (H1 & H2 & H3 & H4). unfold sz_nonneg in *. destruct q; cbn [q_radius]; lia. }
    destruct (q_radius c q) as [a b]. unfold grow_size, shrink_size in *. cbn [sw sh] in *.
    destruct (contains (R (P (if is_left q then x0 - n else x0 - n + (w + 2 * n) - (a + n))
                             (if is_top q then y0 - n else y0 - n + (h + 2 * n) - (b + n))) (S (a + n) (b + n))) p) eqn:HS;
      cbn [negb orb]; [|reflexivity].
    pose proof (quadrant_area_incl q x0 y0 w h a b n m p ltac:(lia) ltac:(lia) Ha Hb) as G. cbv zeta in G.
    replace (x0 + w + n - (a + n)) with (x0 - n + (w + 2 * n) - (a + n)) in G by lia.
    replace (y0 + h + n - (b + n)) with (y0 - n + (h + 2 * n) - (b + n)) in G by lia.
    replace (x0 + w - m - Z.max (a - m) 0) with (x0 + m + (w - 2 * m) - Z.max (a - m) 0) in G by lia.
    replace (y0 + h - m - Z.max (b - m) 0) with (y0 + m + (h - 2 * m) - Z.max (b - m) 0) in G by lia.
    apply G; [lia|lia|exact HS|exact EFq].
Qed.

(* the same with hypotheses on the INPUT only: the shape's own radii fit its sides, and the shrunk radii fit the shrunk sides
   (whenever the fill area is not empty) *)
Theorem rr_input_no_K06 r st :
  rr_ok r -> radii_le (rr_corners r) bound -> 0 <= stroke_width st <= bound -> styled_ok r st ->
  1 <= sw (sz (rr_rect r)) -> 1 <= sh (sz (rr_rect r)) ->
  radii_fit (rr_corners r) (sz (rr_rect r)) ->
  (2 * fill_inset st < sw (sz (rr_rect r)) -> 2 * fill_inset st < sh (sz (rr_rect r)) ->
   radii_fit (map_radii (shrink_size (fill_inset st)) (rr_corners r))
             (S (sw (sz (rr_rect r)) - 2 * fill_inset st) (sh (sz (rr_rect r)) - 2 * fill_inset st))) ->
  K06_rrect_fill_outside_stroke r st = false.
Proof.
  intros Hok Hle Hw Hst Hw1 Hh1 Hfit HfitF. pose proof Hok as [Hrc Hnn].
  destruct (style_parts st Hw) as (Es & Ef & Ho & Hi).
  destruct (rr_area_radii r st Hnn Hle Hw) as (Ecs & Ecf & _ & _).
  assert (rr_rect (rr_fill_area r st) = offset (rr_rect r) (- fill_inset st)) as ErF
    by (unfold rr_fill_area, rr_offset; cbn [rr_rect]; rewrite Ef; reflexivity).
  assert (rr_rect (rr_stroke_area r st) = offset (rr_rect r) (outside_stroke_width st)) as ErS
    by (unfold rr_stroke_area, rr_offset; cbn [rr_rect]; rewrite Es; reflexivity).
  destruct (Z_lt_le_dec (2 * fill_inset st) (sw (sz (rr_rect r)))) as [Hmw|Hmw];
  [destruct (Z_lt_le_dec (2 * fill_inset st) (sh (sz (rr_rect r)))) as [Hmh|Hmh]|].
  - apply rr_no_oversize_no_K06; try assumption.
    + rewrite Ecs, ErS, (offset_grow_closed _ _ Hrc Hw1 Hh1) by lia. cbn [sz].
      destruct Hfit as (F1 & F2 & F3 & F4). unfold radii_fit, map_radii, grow_size. cbn [r_tl r_tr r_br r_bl sw sh]. lia.
    + rewrite Ecf, ErF, (offset_shrink_closed _ _ Hrc) by lia. cbn [sz]. apply HfitF; assumption.
  - unfold K06_rrect_fill_outside_stroke. cbv zeta. unfold rr_bounding_box, points, is_zero_sized. rewrite ErF.
    destruct (Z.eq_dec (fill_inset st) 0) as [E0|E0]; [lia|].
    destruct (offset_shrink (rr_rect r) (fill_inset st) Hrc ltac:(lia)) as (_ & _ & _ & Hz). rewrite (Hz Hmh). reflexivity.
  - unfold K06_rrect_fill_outside_stroke. cbv zeta. unfold rr_bounding_box, points, is_zero_sized. rewrite ErF.
    destruct (Z.eq_dec (fill_inset st) 0) as [E0|E0]; [lia|].
    destruct (offset_shrink (rr_rect r) (fill_inset st) Hrc ltac:(lia)) as (_ & Hz & _ & _). rewrite (Hz Hmw).
    rewrite orb_true_r. reflexivity.
Qed.

(* geometric meaning for a non-degenerate shape whose radii fit: the stroke area is the shape grown by the outside width on
   every side - box rows/columns extend by n, the radii grow by n and still fit (no confinement), and the straight rows
   (rows without a corner on that side) are those of the shape itself *)
Theorem rr_stroke_area_grow r st :
  rr_ok r -> radii_le (rr_corners r) bound -> 0 <= stroke_width st <= bound -> rr_ok (rr_stroke_area r st) ->
  1 <= sw (sz (rr_rect r)) -> 1 <= sh (sz (rr_rect r)) -> radii_fit (rr_corners r) (sz (rr_rect r)) ->
  let n := outside_stroke_width st in
  let sa := rr_stroke_area r st in
  rr_rect sa = R (P (px (tl (rr_rect r)) - n) (py (tl (rr_rect r)) - n)) (S (sw (sz (rr_rect r)) + 2 * n) (sh (sz (rr_rect r)) + 2 * n)) /\
  conf sa = map_radii (grow_size n) (rr_corners r) /\
  c_rows (rrc_new sa) = (fst (c_rows (rrc_new r)) - n, snd (c_rows (rrc_new r)) + n) /\
  c_columns (rrc_new sa) = (fst (c_columns (rrc_new r)) - n, snd (c_columns (rrc_new r)) + n) /\
  c_srl (rrc_new sa) = c_srl (rrc_new r) /\ c_srr (rrc_new sa) = c_srr (rrc_new r).
Proof.
  intros Hok Hle Hw HokS Hw1 Hh1 Hfit. cbv zeta. pose proof Hok as [Hrc Hnn].
  destruct (style_parts st Hw) as (Es & Ef & Ho & Hi).
  destruct (rr_area_radii r st Hnn Hle Hw) as (Ecs & _ & _ & _).
  assert (rr_rect (rr_stroke_area r st) = offset (rr_rect r) (outside_stroke_width st)) as ErS
    by (unfold rr_stroke_area, rr_offset; cbn [rr_rect]; rewrite Es; reflexivity).
  rewrite (offset_grow_closed _ _ Hrc Hw1 Hh1) in ErS by lia.
  assert (conf (rr_stroke_area r st) = map_radii (grow_size (outside_stroke_width st)) (rr_corners r)) as Ec.
  { unfold conf. rewrite Ecs, ErS. cbn [sz]. apply confine_fit_id.
    destruct Hfit as (F1 & F2 & F3 & F4). unfold radii_fit, map_radii, grow_size. cbn [r_tl r_tr r_br r_bl sw sh]. lia. }
  assert (conf r = rr_corners r) as Ecr by (apply confine_fit_id; assumption).
  pose proof (rrc_new_fields r Hok) as F. pose proof (rrc_new_fields _ HokS) as FS. cbv zeta in F, FS.
  rewrite Ec, ErS in FS. rewrite Ecr in F. cbn [tl sz px py sw sh] in FS.
  destruct F as (Frows & Fcols & Fsrl & Fsrr & _). destruct FS as (FSrows & FScols & FSsrl & FSsrr & _).
  rewrite Frows, Fcols, Fsrl, Fsrr, FSrows, FScols, FSsrl, FSsrr.
  unfold map_radii, grow_size. cbn [fst snd r_tl r_tr r_br r_bl sw sh].
  split; [exact ErS|]. split; [exact Ec|]. repeat split; f_equal; lia.
Qed.

(* ... and the fill area is the shape shrunk by the inside width on every side (empty when a side is <= twice that width) *)
Theorem rr_fill_area_shrink r st :
  rr_ok r -> rr_ok (rr_fill_area r st) -> 0 <= stroke_width st <= bound ->
  let m := fill_inset st in
  (2 * m < sw (sz (rr_rect r)) -> 2 * m < sh (sz (rr_rect r)) ->
   rr_rect (rr_fill_area r st) =
     R (P (px (tl (rr_rect r)) + m) (py (tl (rr_rect r)) + m)) (S (sw (sz (rr_rect r)) - 2 * m) (sh (sz (rr_rect r)) - 2 * m))) /\
  (sw (sz (rr_rect r)) <= 2 * m \/ sh (sz (rr_rect r)) <= 2 * m -> 0 < m -> forall p, rr_contains (rr_fill_area r st) p = false).
Proof.
  intros Hok HokF Hw. cbv zeta. pose proof Hok as [Hrc Hnn]. destruct (style_parts st Hw) as (Es & Ef & Ho & Hi).
  assert (rr_rect (rr_fill_area r st) = offset (rr_rect r) (- fill_inset st)) as ErF
    by (unfold rr_fill_area, rr_offset; cbn [rr_rect]; rewrite Ef; reflexivity).
  split.
  - intros H1 H2. rewrite ErF. apply offset_shrink_closed; try assumption; lia.
  - intros Hz Hm p. apply not_true_is_false. intros E. apply rr_contains_in_bbox in E; [|assumption].
    unfold rr_bounding_box in E. rewrite ErF in E. apply contains_spec in E.
    destruct (offset_shrink (rr_rect r) (fill_inset st) Hrc ltac:(lia)) as (_ & Zw & _ & Zh). cbv zeta in Zw, Zh.
    destruct Hz as [Hz|Hz]; [rewrite (Zw Hz) in E|rewrite (Zh Hz) in E]; lia.
Qed.

(* ------------------------------------------------------------------------------------------ *)
(* C18: every corner follows its ideal quarter ellipse within half a pixel                        *)
(* ------------------------------------------------------------------------------------------ *)
Lemma ec_contains_ell_in w h u v :
  0 <= w -> 0 <= h -> ec_contains (ec_new (S w h)) (P u v) = ell_in w h (u * u) (v * v).
Proof.
  intros Hw Hh. unfold ec_contains, ec_new, ell_in. cbn [ec_a ec_b ec_threshold px py sw sh].
  rewrite sq_eq_iff by assumption. destruct (w =? h); reflexivity.
Qed.

(* squared doubled offsets of the pixel centre from the centre of the corner's ellipse *)
Definition qX (e : equad) (p : point) : Z := (px p * 2 - px (eq_center_2x e)) * (px p * 2 - px (eq_center_2x e)).
Definition qY (e : equad) (p : point) : Z := (py p * 2 - py (eq_center_2x e)) * (py p * 2 - py (eq_center_2x e)).

(* the centre is the ideal one: the inner corner of the quadrant box (doubled pixel-centre coordinates) *)
Lemma quadrant_center_ideal t rad q :
  1 <= sw rad -> 1 <= sh rad ->
  eq_center_2x (eq_new t rad q) =
  P (2 * (if is_left q then px t + sw rad else px t) - 1) (2 * (if is_top q then py t + sh rad else py t) - 1).
Proof.
  intros Ha Hb. assert (forall u v : point, px u = px v -> py u = py v -> u = v) as Ext
    by (intros [ux uy] [vx vy]; cbn [px py]; intros -> ->; reflexivity).
  apply Ext; cbn [px py]; [rewrite eq_center_x by lia|rewrite eq_center_y by lia]; destruct q; cbn [is_left is_top]; lia.
Qed.

Lemma quadrant_eq_dec (a b : quadrant) : {a = b} + {a <> b}.
Proof. decide equality. Qed.

Theorem eq_band t rad q p :
  1 <= sw rad -> 1 <= sh rad ->
  let e := eq_new t rad q in
  (eq_contains e p = true -> ideal_in (2 * sw rad + 1) (2 * sh rad + 1) (qX e p) (qY e p)) /\
  (ideal_in (2 * sw rad - 1) (2 * sh rad - 1) (qX e p) (qY e p) -> eq_contains e p = true).
Proof.
  intros Ha Hb. cbv zeta. rewrite eq_contains_ec, ec_contains_ell_in by lia. unfold qX, qY.
  replace (sw rad * 2) with (2 * sw rad) by lia. replace (sh rad * 2) with (2 * sh rad) by lia.
  apply ellipse_band; try lia; apply Z.square_nonneg.
Qed.

Theorem rr_corner_band r q p :
  rr_ok r ->
  let e := corner_quadrant r q in
  let a := sw (q_radius (conf r) q) in let b := sh (q_radius (conf r) q) in
  1 <= a -> 1 <= b -> contains (eq_bbox e) p = true ->
  (rr_contains r p = true -> ideal_in (2 * a + 1) (2 * b + 1) (qX e p) (qY e p)) /\
  (contains (rr_rect r) p = true ->
   (forall q', q' <> q -> contains (eq_bbox (corner_quadrant r q')) p = false) ->
   ideal_in (2 * a - 1) (2 * b - 1) (qX e p) (qY e p) -> rr_contains r p = true).
Proof.
  intros Hok. cbv zeta. intros Ha Hb Hbox.
  assert (exists t, corner_quadrant r q = eq_new t (q_radius (conf r) q) q) as (t & Eq)
    by (unfold corner_quadrant; fold (conf r); destruct q; eexists; reflexivity).
  rewrite rr_contains_quadrants by assumption. rewrite Eq in *.
  destruct (eq_band t (q_radius (conf r) q) q p Ha Hb) as [B1 B2]. cbv zeta in B1, B2. split.
  - intros H. apply andb_prop in H. destruct H as [_ H]. rewrite forallb_forall in H.
    specialize (H q (In_quadrants q)). cbv zeta in H. rewrite Eq, Hbox in H. cbn [negb orb] in H. apply B1, H.
  - intros Hr Hothers Hin. rewrite Hr. cbn [andb]. apply forallb_forall. intros q' _. cbv zeta.
    destruct (quadrant_eq_dec q' q) as [->|Hne].
    + rewrite Eq. rewrite (B2 Hin). apply orb_true_r.
    + rewrite (Hothers q' Hne). reflexivity.
Qed.

(* ------------------------------------------------------------------------------------------ *)
(* C08 part: the arithmetic of the family fits its Rust types                                    *)
(* ------------------------------------------------------------------------------------------ *)
(* range in which no intermediate of confine / EllipseQuadrant / RoundedRectangleContains / Scanlines leaves its type:
   base rectangle within +-2^29, sides <= 16383, radii <= 65535 (display-scale inputs are far inside) *)
Definition rr_small (r : rrect) : Prop :=
  rr_ok r /\ sw (sz (rr_rect r)) <= 16383 /\ sh (sz (rr_rect r)) <= 16383 /\ radii_le (rr_corners r) 65535.

Lemma confine_step_le M acc rs : snd rs <= M -> fst acc <= M -> fst (confine_step acc rs) <= M.
Proof.
  destruct acc as [size cs], rs as [R0 S0]. unfold confine_step. cbn [fst snd]. intros H1 H2.
  destruct ((S0 <? R0) && ((cs =? 0) || (cs * S0 <? R0 * size))); cbn [fst]; lia.
Qed.

Lemma confine_step_ge0 acc rs : 0 <= snd rs -> 0 <= fst acc -> 0 <= fst (confine_step acc rs).
Proof.
  destruct acc as [size cs], rs as [R0 S0]. unfold confine_step. cbn [fst snd]. intros H1 H2.
  destruct ((S0 <? R0) && ((cs =? 0) || (cs * S0 <? R0 * size))); cbn [fst]; lia.
Qed.

Lemma confine_choice_bounds c bb M :
  radii_nonneg c -> sz_nonneg bb -> sw bb <= M -> sh bb <= M -> 0 <= M ->
  0 <= fst (confine_choice c bb) <= M /\ (snd (confine_choice c bb) = 0 \/ 0 < snd (confine_choice c bb)).
Proof.
  intros (H1 & H2 & H3 & H4) [Hw Hh] Hwm Hhm HM. unfold sz_nonneg in *.
  pose proof (confine_fold_inv
    (sw (r_tl c) + sw (r_tr c), sw bb) (sh (r_tr c) + sh (r_br c), sh bb)
    (sw (r_bl c) + sw (r_br c), sw bb) (sh (r_tl c) + sh (r_bl c), sh bb)) as H.
  cbn [snd] in H. specialize (H ltac:(lia) ltac:(lia) ltac:(lia) ltac:(lia)). cbv zeta in H.
  destruct H as (Hok & _). unfold confine_choice. unfold acc_ok in Hok. cbn [fold_left] in *.
  split; [split|]; [| |lia].
  - repeat apply confine_step_ge0; cbn [fst snd]; lia.
  - repeat apply confine_step_le; cbn [fst snd]; lia.
Qed.

Theorem confine_arith_fits c bb :
  radii_nonneg c -> sz_nonneg bb -> sw bb <= 65535 -> sh bb <= 65535 -> radii_le c 65535 ->
  confine_arith_ok c bb = true.
Proof.
  intros Hnn Hbb Hw Hh Hle. destruct (confine_choice_bounds c bb 65535 Hnn Hbb Hw Hh ltac:(lia)) as (Hs & Hc).
  destruct Hnn as ((A1 & B1) & (A2 & B2) & (A3 & B3) & (A4 & B4)). unfold sz_nonneg in *.
  pose proof (Hle (r_tl c) ltac:(cbn; auto)). pose proof (Hle (r_tr c) ltac:(cbn; auto)).
  pose proof (Hle (r_br c) ltac:(cbn; auto)). pose proof (Hle (r_bl c) ltac:(cbn; auto)).
  unfold confine_arith_ok. destruct (confine_choice c bb) as [side cs]. cbn [fst snd] in *.
  unfold fits_u32, u32_max. repeat (apply andb_true_intro; split); try lia.
  destruct (0 <? cs); [|reflexivity]. cbn [forallb].
  repeat (apply andb_true_intro; split); try reflexivity; nia.
Qed.

Lemma conf_small r :
  rr_small r ->
  let c := conf r in
  (0 <= sw (r_tl c) <= 16383 /\ 0 <= sh (r_tl c) <= 16383) /\ (0 <= sw (r_tr c) <= 16383 /\ 0 <= sh (r_tr c) <= 16383) /\
  (0 <= sw (r_br c) <= 16383 /\ 0 <= sh (r_br c) <= 16383) /\ (0 <= sw (r_bl c) <= 16383 /\ 0 <= sh (r_bl c) <= 16383) /\
  radii_fit c (sz (rr_rect r)).
Proof.
  intros (Hok & Hw & Hh & _). cbv zeta. destruct (conf_facts r Hok) as [Hnn Hfit].
  destruct Hnn as ((A1 & B1) & (A2 & B2) & (A3 & B3) & (A4 & B4)). destruct Hfit as (T & Bo & L & Ri).
  repeat split; lia.
Qed.

Lemma quadrant_arith_fits t rad q :
  - bound <= px t <= bound + 32767 -> - bound <= py t <= bound + 32767 ->
  0 <= sw rad <= 16383 -> 0 <= sh rad <= 16383 -> quadrant_arith_ok t rad q = true.
Proof.
  intros Hx Hy Ha Hb. unfold quadrant_arith_ok. unfold bound in *.
  assert (in_i32 (px (match q with QTopLeft => t | QTopRight => psub_size t (x_axis rad) | QBottomRight => psub_size t rad
                       | QBottomLeft => psub_size t (y_axis rad) end)) = true /\
          - 536903679 <= px (match q with QTopLeft => t | QTopRight => psub_size t (x_axis rad) | QBottomRight => psub_size t rad
                       | QBottomLeft => psub_size t (y_axis rad) end) <= 536903679) as [Ex Bx]
    by (destruct q; unfold psub_size, x_axis, y_axis, in_i32, i32_min, i32_max; cbn [px py sw sh]; lia).
  assert (in_i32 (py (match q with QTopLeft => t | QTopRight => psub_size t (x_axis rad) | QBottomRight => psub_size t rad
                       | QBottomLeft => psub_size t (y_axis rad) end)) = true /\
          - 536903679 <= py (match q with QTopLeft => t | QTopRight => psub_size t (x_axis rad) | QBottomRight => psub_size t rad
                       | QBottomLeft => psub_size t (y_axis rad) end) <= 536903679) as [Ey By]
    by (destruct q; unfold psub_size, x_axis, y_axis, in_i32, i32_min, i32_max; cbn [px py sw sh]; lia).
  set (etl := match q with QTopLeft => t | QTopRight => psub_size t (x_axis rad) | QBottomRight => psub_size t rad
                       | QBottomLeft => psub_size t (y_axis rad) end) in *.
  cbv zeta. unfold fits_u32, fits_u64, in_i32, i32_min, i32_max, u32_max, sat_sub_u32 in *.
  repeat (apply andb_true_intro; split); try lia; try nia.
  destruct (sw rad * 2 =? sh rad * 2) eqn:E.
  - apply andb_true_intro; split; nia.
  - apply andb_true_intro; split; [nia|].
    assert (sh rad * 2 * (sh rad * 2) <= 1073610756) by nia. assert (sw rad * 2 * (sw rad * 2) <= 1073610756) by nia.
    assert (0 <= sh rad * 2 * (sh rad * 2)) by nia. assert (0 <= sw rad * 2 * (sw rad * 2)) by nia. nia.
Qed.

Theorem rr_arith_fits r : rr_small r -> rr_arith_ok r = true.
Proof.
  intros Hs. pose proof (conf_small r Hs) as C. cbv zeta in C.
  destruct C as ((A1 & B1) & (A2 & B2) & (A3 & B3) & (A4 & B4) & (T & Bo & L & Ri)).
  destruct Hs as (Hok & Hw & Hh & Hle). pose proof Hok as [[Hp Hsz] Hnn]. unfold point_ok, size_ok, bound in *.
  destruct (rows_columns_spec (rr_rect r) (proj1 Hok)) as [Hrows Hcols].
  unfold rr_arith_ok. cbv zeta. fold (conf r). rewrite Hrows, Hcols. cbn [fst snd].
  unfold corner_quadrant. fold (conf r). rewrite !eq_new_bbox. cbn [tl].
  unfold padd_size, psub_size, x_axis, y_axis. cbn [px py sw sh].
  rewrite confine_arith_fits; try assumption; try lia;
    [|unfold sz_nonneg; lia].
  rewrite !quadrant_arith_fits by (cbn [px py]; unfold bound; lia).
  unfold in_i32, i32_min, i32_max. cbn [andb].
  repeat (apply andb_true_intro; split); lia.
Qed.

(* EllipseQuadrant::contains is only evaluated at points of the quadrant's box (contains(): mod.rs:400-426 short-circuit;
   Scanlines: columns of the box, rows of the zone); there every intermediate fits *)
Theorem quadrant_contains_arith_fits t rad q p :
  - bound <= px t <= bound + 32767 -> - bound <= py t <= bound + 32767 ->
  0 <= sw rad <= 16383 -> 0 <= sh rad <= 16383 ->
  contains (R t rad) p = true -> quadrant_contains_arith_ok (eq_new t rad q) p = true.
Proof.
  intros Hx Hy Ha Hb Hc. apply contains_spec in Hc. cbn [tl sz] in Hc. unfold bound in *.
  unfold quadrant_contains_arith_ok. cbv zeta.
  replace (eq_ellipse (eq_new t rad q)) with (ec_new (S (sw rad * 2) (sh rad * 2))) by reflexivity.
  unfold ec_new. cbn [ec_a ec_b sw sh].
  assert (1 <= sw rad /\ 1 <= sh rad) as [Ha1 Hb1] by lia.
  rewrite quadrant_center_ideal by assumption. cbn [px py].
  set (u := px p * 2 - (2 * (if is_left q then px t + sw rad else px t) - 1)).
  set (v := py p * 2 - (2 * (if is_top q then py t + sh rad else py t) - 1)).
  assert (- (2 * sw rad) < u < 2 * sw rad) as Hu by (subst u; destruct (is_left q); lia).
  assert (- (2 * sh rad) < v < 2 * sh rad) as Hv by (subst v; destruct (is_top q); lia).
  assert (0 <= u * u <= sw rad * 2 * (sw rad * 2)) as Huu by nia.
  assert (0 <= v * v <= sh rad * 2 * (sh rad * 2)) as Hvv by nia.
  assert (sw rad * 2 * (sw rad * 2) <= 1073610756) as Hsa by nia. assert (sh rad * 2 * (sh rad * 2) <= 1073610756) as Hsb by nia.
  unfold in_i32, fits_i64, fits_u64, i32_min, i32_max.
  assert ((-2147483648 <=? px p * 2) && (px p * 2 <=? 2147483647) = true) as -> by lia.
  assert ((-2147483648 <=? py p * 2) && (py p * 2 <=? 2147483647) = true) as -> by lia.
  assert ((-2147483648 <=? u) && (u <=? 2147483647) = true) as -> by lia.
  assert ((-2147483648 <=? v) && (v <=? 2147483647) = true) as -> by lia.
  assert ((-9223372036854775808 <=? u * u) && (u * u <=? 9223372036854775807) = true) as -> by lia.
  assert ((-9223372036854775808 <=? v * v) && (v * v <=? 9223372036854775807) = true) as -> by lia.
  cbn [andb]. clearbody u v. set (A := sw rad * 2 * (sw rad * 2)) in *. set (B := sh rad * 2 * (sh rad * 2)) in *.
  set (X := u * u) in *. set (Y := v * v) in *. clearbody A B X Y.
  destruct (A =? B); [lia|].
  assert (0 <= B * X <= 1073610756 * 1073610756) by nia. assert (0 <= A * Y <= 1073610756 * 1073610756) by nia.
  repeat (apply andb_true_intro; split); lia.
Qed.

(* display-scale inputs (C08's domain: |coordinates| <= 1024, extents <= 1024) are in the range *)
Lemma display_scale_small r :
  radii_nonneg (rr_corners r) -> radii_le (rr_corners r) 1024 ->
  - 1024 <= px (tl (rr_rect r)) <= 1024 -> - 1024 <= py (tl (rr_rect r)) <= 1024 ->
  0 <= sw (sz (rr_rect r)) <= 1024 -> 0 <= sh (sz (rr_rect r)) <= 1024 -> rr_small r.
Proof.
  intros Hnn Hle Hx Hy Hw Hh. unfold rr_small, rr_ok, rect_ok, point_ok, size_ok, bound.
  split; [split; [split; [split; lia|split; lia]|assumption]|].
  split; [lia|]. split; [lia|]. intros s Hs. apply Hle in Hs. lia.
Qed.

(* ------------------------------------------------------------------------------------------ *)
(* The domain of the theorems in Properties/: model range + every machine intermediate fits       *)
(* ------------------------------------------------------------------------------------------ *)
(* rr_ok: no i32/u32 saturation in the Rectangle operations; rr_arith_ok: no overflow in confine (u32 products),
   EllipseQuadrant / EllipseContains (u32, u64), RoundedRectangleContains::new and the scanline arithmetic (i32).
   Inside this domain the unbounded model and the Rust code compute the same values. *)
Definition rr_dom (r : rrect) : Prop := rr_ok r /\ rr_arith_ok r = true.
Definition styled_dom (r : rrect) (st : style) : Prop := rr_dom (rr_stroke_area r st) /\ rr_dom (rr_fill_area r st).

Lemma rr_dom_ok r : rr_dom r -> rr_ok r.
Proof. intros [H _]. exact H. Qed.
Lemma styled_dom_ok r st : styled_dom r st -> styled_ok r st.
Proof. intros [[H1 _] [H2 _]]. split; assumption. Qed.
(* a simple sufficient condition: rectangle within +-2^29, sides <= 16383, radii <= 65535 *)
Lemma rr_small_dom r : rr_small r -> rr_dom r.
Proof. intros H. split; [apply H|apply rr_arith_fits, H]. Qed.

(* boolean decision of rr_ok (for closed examples) *)
Definition rr_ok_b (r : rrect) : bool :=
  let '(RR (R (P x y) (S w h)) (CR (S a1 b1) (S a2 b2) (S a3 b3) (S a4 b4))) := r in
  (Z.abs x <=? bound) && (Z.abs y <=? bound) && (0 <=? w) && (w <=? bound) && (0 <=? h) && (h <=? bound) &&
  (0 <=? a1) && (0 <=? b1) && (0 <=? a2) && (0 <=? b2) && (0 <=? a3) && (0 <=? b3) && (0 <=? a4) && (0 <=? b4).
Lemma rr_ok_b_ok r : rr_ok_b r = true -> rr_ok r.
Proof.
  destruct r as [[[x y] [w h]] [[a1 b1] [a2 b2] [a3 b3] [a4 b4]]]. unfold rr_ok_b, rr_ok, rect_ok, point_ok, size_ok, radii_nonneg, sz_nonneg.
  cbn [rr_rect rr_corners r_tl r_tr r_br r_bl tl sz px py sw sh]. lia.
Qed.
Lemma rr_dom_b r : rr_ok_b r && rr_arith_ok r = true -> rr_dom r.
Proof. intros H. apply andb_prop in H. destruct H as [H1 H2]. split; [apply rr_ok_b_ok, H1|exact H2]. Qed.

Lemma rr_styled_spec_refuted_dom :
  exists r st bb p,
    styled_dom r st /\ rr_dom r /\ K06_rrect_fill_outside_stroke r st = true /\ contains bb p = true /\
    pix_get (writes_of_calls bb (rr_draw r st)) p <>
    spec_c06 st (rr_contains (rr_stroke_area r st)) (rr_contains (rr_fill_area r st)) p.
Proof.
  exists finding_r, finding_st, (R (P (-5) (-5)) (S 40 40)), (P 1 27).
  split; [split; apply rr_dom_b; vm_compute; reflexivity|].
  split; [apply rr_dom_b; vm_compute; reflexivity|].
  split; [vm_compute; reflexivity|]. split; [vm_compute; reflexivity|]. vm_compute. discriminate.
Qed.
