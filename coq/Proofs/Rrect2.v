(* Round 2 for the RoundedRectangle family: pixels() in the property's form, how fill_area / stroke_area change box and radii,
   an input-checkable condition that excludes the known-finding class, the half-pixel band of the corners, and the
   arithmetic of the family fitting its Rust types. *)
From EG Require Import Base.Prelude Base.Lemmas Model.Geometry Model.Style Model.Circle Model.Ellipse Model.Rrect
  Proofs.Geometry Proofs.Ellipse Proofs.Curvefacts Proofs.Rrect Proofs.Rrectbridge.
From Coq Require Import ZifyBool.

Ltac Zify.zify_post_hook ::= Z.to_euclidean_division_equations.
Set Default Timeout 60.

(* ------------------------------------------------------------------------------------------ *)
(* C06: pixels() in the form of the property; width 0 / no stroke colour                         *)
(* ------------------------------------------------------------------------------------------ *)
Theorem rr_pixels_spec r st bb p :
  styled_ok r st -> 0 <= stroke_width st -> K06_rrect_fill_outside_stroke r st = false ->
  pix_get (writes_of_pixels bb (rr_pixels r st)) p =
  if contains bb p
  then spec_c06 st (rr_contains (rr_stroke_area r st)) (rr_contains (rr_fill_area r st)) p
  else None.
Proof. intros Hok Hw K. rewrite rr_pixels_draw by assumption. apply rr_styled_spec; assumption. Qed.

(* stroke width 0: the two areas coincide, so the input is never in the class *)
Lemma K06_false_width0 r st : stroke_width st = 0 -> K06_rrect_fill_outside_stroke r st = false.
Proof.
  intros H. unfold K06_rrect_fill_outside_stroke. cbv zeta. rewrite (areas_equal_width0 r st H).
  apply not_true_is_false. intros E. apply existsb_exists in E. destruct E as (p & _ & E).
  destruct (rr_contains (rr_fill_area r st) p); discriminate.
Qed.

(* no visible stroke (no stroke colour, or width 0): both renderers paint the fill colour on fill_area() and nothing else *)
Theorem rr_no_stroke_image r st bb p :
  styled_ok r st -> 0 <= stroke_width st -> K06_rrect_fill_outside_stroke r st = false ->
  stroke_color st = None \/ stroke_width st = 0 ->
  let img := if contains bb p && rr_contains (rr_fill_area r st) p then fill_color st else None in
  pix_get (writes_of_calls bb (rr_draw r st)) p = img /\ pix_get (writes_of_pixels bb (rr_pixels r st)) p = img.
Proof.
  intros Hok Hw K Hns. cbv zeta. rewrite rr_pixels_spec, rr_styled_spec by assumption.
  unfold spec_c06. destruct (contains bb p); cbn [andb]; [|split; reflexivity].
  destruct (rr_contains (rr_fill_area r st) p); [split; reflexivity|].
  destruct Hns as [-> | ->].
  - destruct (rr_contains (rr_stroke_area r st) p && (0 <? stroke_width st)); split; reflexivity.
  - rewrite andb_false_r. split; reflexivity.
Qed.

(* ------------------------------------------------------------------------------------------ *)
(* C06: what fill_area() / stroke_area() do to the box and to the radii                          *)
(* ------------------------------------------------------------------------------------------ *)
Definition map_radii (f : size -> size) (c : radii) : radii := CR (f (r_tl c)) (f (r_tr c)) (f (r_br c)) (f (r_bl c)).
Definition grow_size (n : Z) (s : size) : size := S (sw s + n) (sh s + n).
Definition shrink_size (n : Z) (s : size) : size := S (Z.max (sw s - n) 0) (Z.max (sh s - n) 0).

Definition radii_le (c : radii) (b : Z) : Prop :=
  forall s, In s [r_tl c; r_tr c; r_br c; r_bl c] -> sw s <= b /\ sh s <= b.

(* the inside part of the stroke width that fill_area() uses *)
Definition fill_inset (st : style) : Z :=
  match stroke_kind st with Solid => inside_stroke_width st | Dotted => 0 end.

Lemma style_parts st :
  0 <= stroke_width st <= bound ->
  stroke_area_offset st = outside_stroke_width st /\ fill_area_offset st = - fill_inset st /\
  0 <= outside_stroke_width st <= stroke_width st /\ 0 <= fill_inset st <= stroke_width st.
Proof.
  intros Hw. unfold stroke_area_offset, fill_area_offset, fill_inset, outside_stroke_width, inside_stroke_width.
  unfold sat_u32_to_i32, sat_add_u32, i32_max, u32_max, bound in *.
  destruct (stroke_kind st); destruct (stroke_alignment st); repeat split; lia.
Qed.

(* every corner radius grows by the outside part / shrinks by the inside part (clamped at 0); contains()/points()/draw then
   use these radii confined to the area's own box (conf = CornerRadii::confine) *)
Theorem rr_area_radii r st :
  radii_nonneg (rr_corners r) -> radii_le (rr_corners r) bound -> 0 <= stroke_width st <= bound ->
  rr_corners (rr_stroke_area r st) = map_radii (grow_size (outside_stroke_width st)) (rr_corners r) /\
  rr_corners (rr_fill_area r st) = map_radii (shrink_size (fill_inset st)) (rr_corners r) /\
  conf (rr_stroke_area r st) =
    confine (map_radii (grow_size (outside_stroke_width st)) (rr_corners r)) (sz (rr_rect (rr_stroke_area r st))) /\
  conf (rr_fill_area r st) =
    confine (map_radii (shrink_size (fill_inset st)) (rr_corners r)) (sz (rr_rect (rr_fill_area r st))).
Proof.
  intros Hnn Hle Hw. destruct (style_parts st Hw) as (Es & Ef & Ho & Hi).
  assert (rr_corners (rr_stroke_area r st) = map_radii (grow_size (outside_stroke_width st)) (rr_corners r)) as E1.
  { unfold rr_stroke_area, rr_offset. cbn [rr_corners]. rewrite Es.
    replace (0 <=? outside_stroke_width st) with true by lia. unfold map_radii. 
    destruct Hnn as ((A1 & B1) & (A2 & B2) & (A3 & B3) & (A4 & B4)).
    pose proof (Hle (r_tl (rr_corners r)) ltac:(cbn; auto)). pose proof (Hle (r_tr (rr_corners r)) ltac:(cbn; auto)).
    pose proof (Hle (r_br (rr_corners r)) ltac:(cbn; auto)). pose proof (Hle (r_bl (rr_corners r)) ltac:(cbn; auto)).
    unfold grow_size, size_sat_add, sat_add_u32, u32_max, bound in *. cbn [sw sh].
    f_equal; f_equal; lia. }
  assert (rr_corners (rr_fill_area r st) = map_radii (shrink_size (fill_inset st)) (rr_corners r)) as E2.
  { unfold rr_fill_area, rr_offset. cbn [rr_corners]. rewrite Ef. unfold map_radii.
    destruct Hnn as ((A1 & B1) & (A2 & B2) & (A3 & B3) & (A4 & B4)).
    pose proof (Hle (r_tl (rr_corners r)) ltac:(cbn; auto)). pose proof (Hle (r_tr (rr_corners r)) ltac:(cbn; auto)).
    pose proof (Hle (r_br (rr_corners r)) ltac:(cbn; auto)). pose proof (Hle (r_bl (rr_corners r)) ltac:(cbn; auto)).
    destruct (0 <=? - fill_inset st) eqn:E.
    - assert (fill_inset st = 0) as -> by lia.
      unfold shrink_size, size_sat_add, sat_add_u32, u32_max, bound in *. cbn [sw sh]. f_equal; f_equal; lia.
    - unfold shrink_size, size_sat_sub, sat_sub_u32. cbn [sw sh]. f_equal; f_equal; lia. }
  repeat split; try assumption; unfold conf; [rewrite E1|rewrite E2]; reflexivity.
Qed.

(* closed forms of Rectangle::offset for a non-empty rectangle *)
Lemma offset_grow_closed rc n :
  rect_ok rc -> 1 <= sw (sz rc) -> 1 <= sh (sz rc) -> 0 <= n <= bound ->
  offset rc n = R (P (px (tl rc) - n) (py (tl rc) - n)) (S (sw (sz rc) + 2 * n) (sh (sz rc) + 2 * n)).
Proof.
  intros H Hw Hh Hn. destr_rects. unf. replace (0 <=? n) with true by lia. cbn [tl sz px py sw sh].
  f_equal; f_equal; lia.
Qed.

Lemma offset_shrink_closed rc m :
  rect_ok rc -> 0 <= m <= bound -> 2 * m < sw (sz rc) -> 2 * m < sh (sz rc) ->
  offset rc (- m) = R (P (px (tl rc) + m) (py (tl rc) + m)) (S (sw (sz rc) - 2 * m) (sh (sz rc) - 2 * m)).
Proof.
  intros H Hm Hw Hh. destr_rects. unf. destruct (0 <=? - m) eqn:E; cbn [tl sz px py sw sh]; f_equal; f_equal; lia.
Qed.

(* a point inside a shrunk rectangle: the rectangle was big enough and the point keeps the distance m from its sides *)
Lemma offset_shrink_contains rc m p :
  rect_ok rc -> 0 <= m <= bound -> contains (offset rc (- m)) p = true ->
  2 * m < sw (sz rc) /\ 2 * m < sh (sz rc) /\
  px (tl rc) + m <= px p < px (tl rc) + sw (sz rc) - m /\ py (tl rc) + m <= py p < py (tl rc) + sh (sz rc) - m.
Proof.
  intros H Hm. rewrite contains_spec. destr_rects. unf.
  destruct (0 <=? - m) eqn:E; cbn [tl sz px py sw sh]; intros [Hx Hy]; repeat split; lia.
Qed.

(* ------------------------------------------------------------------------------------------ *)
(* C06: radii that need no confinement in either area => the fill area lies in the stroke area   *)
(* ------------------------------------------------------------------------------------------ *)
Lemma thr_mono d d' : 1 <= d <= d' -> rr_diameter_to_threshold d <= rr_diameter_to_threshold d'.
Proof.
  intros H. unfold rr_diameter_to_threshold. destruct (d <=? 4) eqn:E; destruct (d' <=? 4) eqn:E'; nia.
Qed.

(* concentric ellipse tests: growing both semi-axes by the same amount keeps every accepted point *)
Lemma ec_grow a b a' b' u v :
  1 <= a <= a' -> 1 <= b <= b' -> a' - a = b' - b ->
  ec_contains (ec_new (S (a * 2) (b * 2))) (P u v) = true ->
  ec_contains (ec_new (S (a' * 2) (b' * 2))) (P u v) = true.
Proof.
  intros Ha Hb Hd. unfold ec_contains, ec_new. cbn [ec_a ec_b ec_threshold px py sw sh].
  destruct (a * 2 * (a * 2) =? b * 2 * (b * 2)) eqn:E.
  - assert (a = b) by nia. subst b. assert (a' = b') by lia. subst b'.
    rewrite !Z.eqb_refl. rewrite !Z.ltb_lt. pose proof (thr_mono (a * 2) (a' * 2) ltac:(lia)). lia.
  - assert (a <> b) by (intros ->; lia). assert (a' <> b') by lia.
    replace (a * 2 =? b * 2) with false by lia. replace (a' * 2 =? b' * 2) with false by lia.
    replace (a' * 2 * (a' * 2) =? b' * 2 * (b' * 2)) with false by nia.
    rewrite !Z.ltb_lt. intros H1.
    pose proof (ideal_grow (a * 2) (b * 2) (a' * 2) (b' * 2) (u * u) (v * v) ltac:(lia) ltac:(lia)
                  (Z.square_nonneg u) (Z.square_nonneg v)) as G.
    unfold ideal_in in G. apply G. exact H1.
Qed.

Lemma eq_contains_ec t rad q p :
  eq_contains (eq_new t rad q) p =
  ec_contains (ec_new (S (sw rad * 2) (sh rad * 2)))
    (P (px p * 2 - px (eq_center_2x (eq_new t rad q))) (py p * 2 - py (eq_center_2x (eq_new t rad q)))).
Proof. reflexivity. Qed.

(* one corner: inside the fill area's box and inside the stroke area's corner box means inside the fill area's corner box,
   whose ellipse is concentric with, and smaller than, the stroke area's *)
Lemma quadrant_area_incl q x0 y0 w h a b n m p :
  0 <= n -> 0 <= m -> 0 <= a -> 0 <= b ->
  let tS := P (if is_left q then x0 - n else x0 + w + n - (a + n)) (if is_top q then y0 - n else y0 + h + n - (b + n)) in
  let tF := P (if is_left q then x0 + m else x0 + w - m - Z.max (a - m) 0)
              (if is_top q then y0 + m else y0 + h - m - Z.max (b - m) 0) in
  x0 + m <= px p < x0 + w - m -> y0 + m <= py p < y0 + h - m ->
  contains (R tS (S (a + n) (b + n))) p = true ->
  negb (contains (R tF (S (Z.max (a - m) 0) (Z.max (b - m) 0))) p)
    || eq_contains (eq_new tF (S (Z.max (a - m) 0) (Z.max (b - m) 0)) q) p = true ->
  eq_contains (eq_new tS (S (a + n) (b + n)) q) p = true.
Proof.
  intros Hn Hm Ha Hb tS tF Hx Hy HS HF.
  apply contains_spec in HS. cbn [tl sz px py sw sh] in HS.
  assert (m < a /\ m < b) as [Hma Hmb] by (subst tS; destruct q; cbn [is_left is_top px py] in HS; lia).
  assert (contains (R tF (S (Z.max (a - m) 0) (Z.max (b - m) 0))) p = true) as HFb.
  { apply contains_spec. cbn [tl sz px py sw sh]. subst tS tF. destruct q; cbn [is_left is_top px py] in *; lia. }
  rewrite HFb in HF. cbn [negb orb] in HF.
  rewrite eq_contains_ec in HF |- *. cbn [sw sh] in *.
  rewrite !eq_center_x, !eq_center_y in * by (cbn [sw sh]; lia). cbn [sw sh] in *.
  replace (Z.max (a - m) 0) with (a - m) in * by lia. replace (Z.max (b - m) 0) with (b - m) in * by lia.
  assert (forall u v u' v', u = u' -> v = v' ->
            ec_contains (ec_new (S ((a - m) * 2) ((b - m) * 2))) (P u v) = true ->
            ec_contains (ec_new (S ((a + n) * 2) ((b + n) * 2))) (P u' v') = true) as G.
  { intros u v u' v' <- <-. apply ec_grow; lia. }
  eapply G; [| |exact HF]; subst tS tF; destruct q; cbn [is_left is_top px py]; lia.
Qed.

Definition q_radius (c : radii) (q : quadrant) : size :=
  match q with QTopLeft => r_tl c | QTopRight => r_tr c | QBottomRight => r_br c | QBottomLeft => r_bl c end.

(* the corner quadrant of a shape whose radii need no confinement *)
Lemma corner_quadrant_fit x0 y0 w h c q :
  radii_fit c (S w h) ->
  corner_quadrant (RR (R (P x0 y0) (S w h)) c) q =
  eq_new (P (if is_left q then x0 else x0 + w - sw (q_radius c q)) (if is_top q then y0 else y0 + h - sh (q_radius c q)))
         (q_radius c q) q.
Proof.
  intros Hfit. unfold corner_quadrant. cbn [rr_rect rr_corners tl sz]. rewrite (confine_fit_id c (S w h) Hfit).
  destruct q; cbn [is_left is_top q_radius]; unfold padd_size, psub_size, x_axis, y_axis; cbn [px py sw sh];
    repeat f_equal; lia.
Qed.

Lemma q_radius_map f c q : q_radius (map_radii f c) q = f (q_radius c q).
Proof. destruct q; reflexivity. Qed.

Lemma In_quadrants q : In q quadrants.
Proof. destruct q; cbn; auto. Qed.

Theorem rr_no_oversize_no_K06 r st :
  rr_ok r -> radii_le (rr_corners r) bound -> 0 <= stroke_width st <= bound -> styled_ok r st ->
  radii_fit (rr_corners (rr_stroke_area r st)) (sz (rr_rect (rr_stroke_area r st))) ->
  radii_fit (rr_corners (rr_fill_area r st)) (sz (rr_rect (rr_fill_area r st))) ->
  K06_rrect_fill_outside_stroke r st = false.
Proof.
  intros [Hrc Hnn] Hle Hw [HokS HokF] HfitS HfitF.
  apply not_true_is_false. intros E. unfold K06_rrect_fill_outside_stroke in E. cbv zeta in E.
  apply existsb_exists in E. destruct E as (p & _ & E). apply andb_prop in E. destruct E as [EF ES].
  apply negb_true_iff in ES. enough (rr_contains (rr_stroke_area r st) p = true) by congruence. clear ES.
  destruct (style_parts st Hw) as (Es & Ef & Ho & Hi).
  destruct (rr_area_radii r st Hnn Hle Hw) as (Ecs & Ecf & _ & _).
  set (n := outside_stroke_width st) in *. set (m := fill_inset st) in *.
  (* the fill area is non-empty, hence closed forms for both boxes *)
  pose proof (rr_contains_in_bbox _ p HokF EF) as Hbox. unfold rr_bounding_box in Hbox.
  assert (rr_rect (rr_fill_area r st) = offset (rr_rect r) (- m)) as ErF by (unfold rr_fill_area, rr_offset; cbn [rr_rect]; rewrite Ef; reflexivity).
  assert (rr_rect (rr_stroke_area r st) = offset (rr_rect r) n) as ErS by (unfold rr_stroke_area, rr_offset; cbn [rr_rect]; rewrite Es; reflexivity).
  rewrite ErF in Hbox. apply offset_shrink_contains in Hbox; [|assumption|lia].
  destruct Hbox as (Hmw & Hmh & Hpx & Hpy).
  rewrite (offset_shrink_closed _ m Hrc ltac:(lia) Hmw Hmh) in ErF.
  rewrite (offset_grow_closed _ n Hrc ltac:(lia) ltac:(lia) ltac:(lia)) in ErS.
  set (x0 := px (tl (rr_rect r))) in *. set (y0 := py (tl (rr_rect r))) in *.
  set (w := sw (sz (rr_rect r))) in *. set (h := sh (sz (rr_rect r))) in *. set (c := rr_corners r) in *.
  assert (rr_stroke_area r st = RR (R (P (x0 - n) (y0 - n)) (S (w + 2 * n) (h + 2 * n))) (map_radii (grow_size n) c)) as ES
    by (destruct (rr_stroke_area r st) as [rc cc]; cbn [rr_rect rr_corners] in *; subst; reflexivity).
  assert (rr_fill_area r st = RR (R (P (x0 + m) (y0 + m)) (S (w - 2 * m) (h - 2 * m))) (map_radii (shrink_size m) c)) as EFa
    by (destruct (rr_fill_area r st) as [rc cc]; cbn [rr_rect rr_corners] in *; subst; reflexivity).
  rewrite ES in *. rewrite EFa in *. cbn [rr_rect rr_corners sz] in HfitS, HfitF.
  rewrite rr_contains_quadrants in EF |- * by assumption. cbn [rr_rect] in *.
  apply andb_prop in EF. destruct EF as [EFbox EFq]. apply andb_true_intro. split.
  - apply contains_spec. cbn [tl sz px py sw sh]. lia.
  - apply forallb_forall. intros q _. rewrite forallb_forall in EFq. specialize (EFq q (In_quadrants q)).
    cbv zeta in EFq |- *. rewrite corner_quadrant_fit in EFq |- * by assumption.
    rewrite !q_radius_map in *. rewrite !eq_new_bbox in *.
    assert (0 <= sw (q_radius c q) /\ 0 <= sh (q_radius c q)) as [Ha Hb].
    { destruct Hnn as (H1 & H2 & H3 & H4). unfold sz_nonneg in *. destruct q; cbn [q_radius]; lia. }
    destruct (q_radius c q) as [a b]. unfold grow_size, shrink_size in *. cbn [sw sh] in *.
    destruct (contains (R (P (if is_left q then x0 - n else x0 - n + (w + 2 * n) - (a + n))
                             (if is_top q then y0 - n else y0 - n + (h + 2 * n) - (b + n))) (S (a + n) (b + n))) p) eqn:HS;
      cbn [negb orb]; [|reflexivity].
    pose proof (quadrant_area_incl q x0 y0 w h a b n m p ltac:(lia) ltac:(lia) Ha Hb) as G. cbv zeta in G.
    replace (x0 + w + n - (a + n)) with (x0 - n + (w + 2 * n) - (a + n)) in G by lia.
    replace (y0 + h + n - (b + n)) with (y0 - n + (h + 2 * n) - (b + n)) in G by lia.
    replace (x0 + w - m - Z.max (a - m) 0) with (x0 + m + (w - 2 * m) - Z.max (a - m) 0) in G by lia.
    replace (y0 + h - m - Z.max (b - m) 0) with (y0 + m + (h - 2 * m) - Z.max (b - m) 0) in G by lia.
    apply G; [lia|lia|exact HS|exact EFq].
Qed.

(* the same with hypotheses on the INPUT only: the shape's own radii fit its sides, and the shrunk radii fit the shrunk sides
   (whenever the fill area is not empty) *)
Theorem rr_input_no_K06 r st :
  rr_ok r -> radii_le (rr_corners r) bound -> 0 <= stroke_width st <= bound -> styled_ok r st ->
  1 <= sw (sz (rr_rect r)) -> 1 <= sh (sz (rr_rect r)) ->
  radii_fit (rr_corners r) (sz (rr_rect r)) ->
  (2 * fill_inset st < sw (sz (rr_rect r)) -> 2 * fill_inset st < sh (sz (rr_rect r)) ->
   radii_fit (map_radii (shrink_size (fill_inset st)) (rr_corners r))
             (S (sw (sz (rr_rect r)) - 2 * fill_inset st) (sh (sz (rr_rect r)) - 2 * fill_inset st))) ->
  K06_rrect_fill_outside_stroke r st = false.
Proof.
  intros Hok Hle Hw Hst Hw1 Hh1 Hfit HfitF. pose proof Hok as [Hrc Hnn].
  destruct (style_parts st Hw) as (Es & Ef & Ho & Hi).
  destruct (rr_area_radii r st Hnn Hle Hw) as (Ecs & Ecf & _ & _).
  assert (rr_rect (rr_fill_area r st) = offset (rr_rect r) (- fill_inset st)) as ErF
    by (unfold rr_fill_area, rr_offset; cbn [rr_rect]; rewrite Ef; reflexivity).
  assert (rr_rect (rr_stroke_area r st) = offset (rr_rect r) (outside_stroke_width st)) as ErS
    by (unfold rr_stroke_area, rr_offset; cbn [rr_rect]; rewrite Es; reflexivity).
  destruct (Z_lt_le_dec (2 * fill_inset st) (sw (sz (rr_rect r)))) as [Hmw|Hmw];
  [destruct (Z_lt_le_dec (2 * fill_inset st) (sh (sz (rr_rect r)))) as [Hmh|Hmh]|].
  - apply rr_no_oversize_no_K06; try assumption.
    + rewrite Ecs, ErS, (offset_grow_closed _ _ Hrc Hw1 Hh1) by lia. cbn [sz].
      destruct Hfit as (F1 & F2 & F3 & F4). unfold radii_fit, map_radii, grow_size. cbn [r_tl r_tr r_br r_bl sw sh]. lia.
    + rewrite Ecf, ErF, (offset_shrink_closed _ _ Hrc) by lia. cbn [sz]. apply HfitF; assumption.
  - unfold K06_rrect_fill_outside_stroke. cbv zeta. unfold rr_bounding_box, points, is_zero_sized. rewrite ErF.
    destruct (Z.eq_dec (fill_inset st) 0) as [E0|E0]; [lia|].
    destruct (offset_shrink (rr_rect r) (fill_inset st) Hrc ltac:(lia)) as (_ & _ & _ & Hz). rewrite (Hz Hmh). reflexivity.
  - unfold K06_rrect_fill_outside_stroke. cbv zeta. unfold rr_bounding_box, points, is_zero_sized. rewrite ErF.
    destruct (Z.eq_dec (fill_inset st) 0) as [E0|E0]; [lia|].
    destruct (offset_shrink (rr_rect r) (fill_inset st) Hrc ltac:(lia)) as (_ & Hz & _ & _). rewrite (Hz Hmw).
    rewrite orb_true_r. reflexivity.
Qed.

(* geometric meaning for a non-degenerate shape whose radii fit: the stroke area is the shape grown by the outside width on
   every side - box rows/columns extend by n, the radii grow by n and still fit (no confinement), and the straight rows
   (rows without a corner on that side) are those of the shape itself *)
Theorem rr_stroke_area_grow r st :
  rr_ok r -> radii_le (rr_corners r) bound -> 0 <= stroke_width st <= bound -> rr_ok (rr_stroke_area r st) ->
  1 <= sw (sz (rr_rect r)) -> 1 <= sh (sz (rr_rect r)) -> radii_fit (rr_corners r) (sz (rr_rect r)) ->
  let n := outside_stroke_width st in
  let sa := rr_stroke_area r st in
  rr_rect sa = R (P (px (tl (rr_rect r)) - n) (py (tl (rr_rect r)) - n)) (S (sw (sz (rr_rect r)) + 2 * n) (sh (sz (rr_rect r)) + 2 * n)) /\
  conf sa = map_radii (grow_size n) (rr_corners r) /\
  c_rows (rrc_new sa) = (fst (c_rows (rrc_new r)) - n, snd (c_rows (rrc_new r)) + n) /\
  c_columns (rrc_new sa) = (fst (c_columns (rrc_new r)) - n, snd (c_columns (rrc_new r)) + n) /\
  c_srl (rrc_new sa) = c_srl (rrc_new r) /\ c_srr (rrc_new sa) = c_srr (rrc_new r).
Proof.
  intros Hok Hle Hw HokS Hw1 Hh1 Hfit. cbv zeta. pose proof Hok as [Hrc Hnn].
  destruct (style_parts st Hw) as (Es & Ef & Ho & Hi).
  destruct (rr_area_radii r st Hnn Hle Hw) as (Ecs & _ & _ & _).
  assert (rr_rect (rr_stroke_area r st) = offset (rr_rect r) (outside_stroke_width st)) as ErS
    by (unfold rr_stroke_area, rr_offset; cbn [rr_rect]; rewrite Es; reflexivity).
  rewrite (offset_grow_closed _ _ Hrc Hw1 Hh1) in ErS by lia.
  assert (conf (rr_stroke_area r st) = map_radii (grow_size (outside_stroke_width st)) (rr_corners r)) as Ec.
  { unfold conf. rewrite Ecs, ErS. cbn [sz]. apply confine_fit_id.
    destruct Hfit as (F1 & F2 & F3 & F4). unfold radii_fit, map_radii, grow_size. cbn [r_tl r_tr r_br r_bl sw sh]. lia. }
  assert (conf r = rr_corners r) as Ecr by (apply confine_fit_id; assumption).
  pose proof (rrc_new_fields r Hok) as F. pose proof (rrc_new_fields _ HokS) as FS. cbv zeta in F, FS.
  rewrite Ec, ErS in FS. rewrite Ecr in F. cbn [tl sz px py sw sh] in FS.
  destruct F as (Frows & Fcols & Fsrl & Fsrr & _). destruct FS as (FSrows & FScols & FSsrl & FSsrr & _).
  rewrite Frows, Fcols, Fsrl, Fsrr, FSrows, FScols, FSsrl, FSsrr.
  unfold map_radii, grow_size. cbn [fst snd r_tl r_tr r_br r_bl sw sh].
  split; [exact ErS|]. split; [exact Ec|]. repeat split; f_equal; lia.
Qed.

(* ... and the fill area is the shape shrunk by the inside width on every side (empty when a side is <= twice that width) *)
Theorem rr_fill_area_shrink r st :
  rr_ok r -> rr_ok (rr_fill_area r st) -> 0 <= stroke_width st <= bound ->
  let m := fill_inset st in
  (2 * m < sw (sz (rr_rect r)) -> 2 * m < sh (sz (rr_rect r)) ->
   rr_rect (rr_fill_area r st) =
     R (P (px (tl (rr_rect r)) + m) (py (tl (rr_rect r)) + m)) (S (sw (sz (rr_rect r)) - 2 * m) (sh (sz (rr_rect r)) - 2 * m))) /\
  (sw (sz (rr_rect r)) <= 2 * m \/ sh (sz (rr_rect r)) <= 2 * m -> 0 < m -> forall p, rr_contains (rr_fill_area r st) p = false).
Proof.
  intros Hok HokF Hw. cbv zeta. pose proof Hok as [Hrc Hnn]. destruct (style_parts st Hw) as (Es & Ef & Ho & Hi).
  assert (rr_rect (rr_fill_area r st) = offset (rr_rect r) (- fill_inset st)) as ErF
    by (unfold rr_fill_area, rr_offset; cbn [rr_rect]; rewrite Ef; reflexivity).
  split.
  - intros H1 H2. rewrite ErF. apply offset_shrink_closed; try assumption; lia.
  - intros Hz Hm p. apply not_true_is_false. intros E. apply rr_contains_in_bbox in E; [|assumption].
    unfold rr_bounding_box in E. rewrite ErF in E. apply contains_spec in E.
    destruct (offset_shrink (rr_rect r) (fill_inset st) Hrc ltac:(lia)) as (_ & Zw & _ & Zh). cbv zeta in Zw, Zh.
    destruct Hz as [Hz|Hz]; [rewrite (Zw Hz) in E|rewrite (Zh Hz) in E]; lia.
Qed.
