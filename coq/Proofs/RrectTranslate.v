(* C07, RoundedRectangle part: contains / points / areas / draw / pixels commute with translation. *)
From EG Require Import Base.Prelude Base.Lemmas Model.Geometry Model.Style Model.Rrect
  Proofs.Geometry Proofs.GeometryTranslate Proofs.Rrect.
From Coq Require Import ZifyBool.

Ltac Zify.zify_post_hook ::= Z.to_euclidean_division_equations.
Set Default Timeout 60.

Lemma eq_contains_translate t rad q d p :
  eq_contains (eq_new (padd t d) rad q) (padd p d) = eq_contains (eq_new t rad q) p.
Proof.
  unfold eq_contains.
  replace (eq_ellipse (eq_new (padd t d) rad q)) with (eq_ellipse (eq_new t rad q)) by reflexivity.
  f_equal. destruct q; unfold eq_new, rr_center_2x, x_axis, y_axis; unf; cbn [eq_center_2x px py sw sh]; f_equal; lia.
Qed.

Lemma eq_contains_translate' t t' rad q d p p' :
  px t' = px t + px d -> py t' = py t + py d -> p' = padd p d ->
  eq_contains (eq_new t' rad q) p' = eq_contains (eq_new t rad q) p.
Proof.
  intros Hx Hy ->. rewrite <- (eq_contains_translate t rad q d p). f_equal. f_equal.
  destruct t' as [a b]. unfold padd. cbn [px py] in *. f_equal; lia.
Qed.

Lemma in_rng_shift a b v k : in_rng (a + k, b + k) (v + k) = in_rng (a, b) v.
Proof. unfold in_rng. cbn [fst snd]. lia. Qed.

Lemma ltb_shift a b k : (a + k <? b + k) = (a <? b).
Proof. lia. Qed.
Lemma leb_shift a b k : (a + k <=? b + k) = (a <=? b).
Proof. lia. Qed.

Theorem rr_contains_translate r d p :
  rr_ok r -> rr_ok (rr_translate r d) ->
  rr_contains (rr_translate r d) (padd p d) = rr_contains r p.
Proof.
  intros Hok Hok'.
  pose proof (rrc_new_fields r Hok) as F. pose proof (rrc_new_fields _ Hok') as F'. cbv zeta in F, F'.
  assert (conf (rr_translate r d) = conf r) as Ec by reflexivity. rewrite Ec in F'. clear Ec.
  destruct (conf_facts r Hok) as [Hnn Hfit].
  destruct Hnn as ((A1 & B1) & (A2 & B2) & (A3 & B3) & (A4 & B4)).
  destruct Hfit as (T & Bo & L & Ri).
  destruct Hok as [[Hp Hs] _]. destruct Hok' as [[Hp' Hs'] _].
  unfold rr_translate, translate_rect, padd, point_ok, size_ok in *. cbn [rr_rect tl sz px py] in *.
  set (x0 := px (tl (rr_rect r))) in *. set (y0 := py (tl (rr_rect r))) in *.
  set (w := sw (sz (rr_rect r))) in *. set (h := sh (sz (rr_rect r))) in *. set (c := conf r) in *.
  destruct F as (Frows & Fcols & Fsrl & Fsrr & Ftl & Ftr & Fbr & Fbl).
  destruct F' as (Frows' & Fcols' & Fsrl' & Fsrr' & Ftl' & Ftr' & Fbr' & Fbl').
  unfold rr_contains. rewrite !rrc_contains_and.
  rewrite Frows, Fcols, Fsrl, Fsrr, Ftl, Ftr, Fbr, Fbl, Frows', Fcols', Fsrl', Fsrr', Ftl', Ftr', Fbr', Fbl'.
  cbn [fst snd px py]. unfold cond_top, cond_bot, side_test. rewrite !eq_new_bbox.
  unfold bound in Hp, Hs, Hp', Hs'.
  rewrite !columns_R; try (cbn [px]; unfold bound; lia). cbn [fst snd px py].
  rewrite (eq_contains_translate' (P x0 y0) _ (r_tl c) QTopLeft d p) by (cbn [px py]; reflexivity || lia).
  rewrite (eq_contains_translate' (P (x0 + w - sw (r_tr c)) y0) _ (r_tr c) QTopRight d p) by (cbn [px py]; reflexivity || lia).
  rewrite (eq_contains_translate' (P (x0 + w - sw (r_br c)) (y0 + h - sh (r_br c))) _ (r_br c) QBottomRight d p) by (cbn [px py]; reflexivity || lia).
  rewrite (eq_contains_translate' (P x0 (y0 + h - sh (r_bl c))) _ (r_bl c) QBottomLeft d p) by (cbn [px py]; reflexivity || lia).
  repeat match goal with |- context [eq_contains ?q ?pt] => generalize (eq_contains q pt); intro end.
  unfold in_rng. cbn [fst snd].
  repeat match goal with
  | |- andb _ _ = andb _ _ => f_equal
  | |- negb _ = negb _ => f_equal
  end; try reflexivity; lia.
Qed.

Theorem rr_bounding_box_translate r d :
  rr_bounding_box (rr_translate r d) = translate_rect (rr_bounding_box r) d.
Proof. reflexivity. Qed.

(* points() of the moved shape = the moved points(), same order *)
Theorem rr_points_translate r d :
  rr_ok r -> rr_ok (rr_translate r d) ->
  rr_points (rr_translate r d) = map (fun p => padd p d) (rr_points r).
Proof.
  intros Hok Hok'. rewrite !rr_points_spec by assumption. rewrite rr_bounding_box_translate.
  rewrite points_translate by (apply Hok || apply Hok'). rewrite filter_map_comm. f_equal.
  apply filter_ext_in'. intros p _. apply rr_contains_translate; assumption.
Qed.

(* OffsetOutline::offset commutes with translate (no range condition: only sizes saturate) *)
Lemma offset_translate rc d n : offset (translate_rect rc d) n = translate_rect (offset rc n) d.
Proof.
  destruct rc as [[x y] [w h]], d as [dx dy]. unfold offset, translate_rect, with_center, center, padd, psub_size, padd_size.
  cbn [tl sz px py sw sh]. f_equal. f_equal; lia.
Qed.

Lemma rr_offset_translate r d n : rr_offset (rr_translate r d) n = rr_translate (rr_offset r n) d.
Proof. unfold rr_offset, rr_translate. cbn [rr_rect rr_corners]. rewrite offset_translate. reflexivity. Qed.

Lemma rr_stroke_area_translate r d st : rr_stroke_area (rr_translate r d) st = rr_translate (rr_stroke_area r st) d.
Proof. apply rr_offset_translate. Qed.
Lemma rr_fill_area_translate r d st : rr_fill_area (rr_translate r d) st = rr_translate (rr_fill_area r st) d.
Proof. apply rr_offset_translate. Qed.

Theorem rr_styled_bbox_translate r d st :
  rr_styled_bounding_box (rr_translate r d) st = translate_rect (rr_styled_bounding_box r st) d.
Proof. unfold rr_styled_bounding_box. rewrite rr_bounding_box_translate. apply offset_translate. Qed.

(* the image of draw() on the moved shape, on the moved target box, is the moved image *)
Theorem rr_draw_translate r d st bb p :
  styled_ok r st -> styled_ok (rr_translate r d) st ->
  pix_get (writes_of_calls (translate_rect bb d) (rr_draw (rr_translate r d) st)) (padd p d) =
  pix_get (writes_of_calls bb (rr_draw r st)) p.
Proof.
  intros Hok Hok'. rewrite !rr_draw_pixmap by assumption. rewrite contains_translate.
  destruct Hok as [Hs Hf], Hok' as [Hs' Hf']. rewrite rr_stroke_area_translate, rr_fill_area_translate in *.
  unfold spec_draw. rewrite !rr_contains_translate by assumption. reflexivity.
Qed.

Theorem rr_pixels_translate r d st bb p :
  styled_ok r st -> styled_ok (rr_translate r d) st ->
  pix_get (writes_of_pixels (translate_rect bb d) (rr_pixels (rr_translate r d) st)) (padd p d) =
  pix_get (writes_of_pixels bb (rr_pixels r st)) p.
Proof.
  intros Hok Hok'. rewrite !rr_pixels_pixmap by assumption. rewrite contains_translate.
  destruct Hok as [Hs Hf], Hok' as [Hs' Hf']. rewrite rr_stroke_area_translate, rr_fill_area_translate in *.
  unfold spec_pixels. rewrite !rr_contains_translate by assumption. reflexivity.
Qed.
