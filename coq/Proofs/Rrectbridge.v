(* Bridges between separately built models:
   (1) the rounded rectangle's private copy of the ellipse test (Model/Rrect.v) is Model/Ellipse.v's ellipse_contains;
   (2) the call-list pixel map of Proofs/Scanline.v (render / last_write) is Model/Target.v's render on fill_solid /
       draw_iter calls (inside the target's bounding box). *)
From EG Require Import Base.Prelude Base.Lemmas Model.Geometry Model.Style Model.Circle Model.Ellipse Model.Rrect
  Proofs.Geometry Proofs.Scanline Proofs.Circle Proofs.Ellipse Proofs.Rrect.

Set Default Timeout 60.

Lemma rr_threshold_eq d : rr_diameter_to_threshold d = diameter_to_threshold d.
Proof. reflexivity. Qed.

Theorem rr_ellipse_contains_eq t s p : rr_ellipse_contains t s p = Ellipse.ellipse_contains (Ell t s) p.
Proof.
  unfold rr_ellipse_contains, Ellipse.ellipse_contains, ec_contains, ec_new, ellipse_test_contains, ellipse_test_new,
    rr_center_2x, ellipse_center_2x, padd_size, psub.
  cbn [ec_a ec_b ec_threshold et_a et_b et_thr e_tl e_sz px py sw sh]. reflexivity.
Qed.

(* rounded rectangle with even sides and every radius half a side = the ellipse of Model/Ellipse.v with the same box *)
Theorem rr_half_eq_ellipse_model t a b p :
  point_ok t -> 0 <= 2 * a <= bound -> 0 <= 2 * b <= bound ->
  rr_contains (RR (R t (S (a * 2) (b * 2))) (radii_equal (S a b))) p =
  Ellipse.ellipse_contains (Ell t (S (a * 2) (b * 2))) p.
Proof. intros. rewrite rr_half_eq_ellipse by assumption. apply rr_ellipse_contains_eq. Qed.
