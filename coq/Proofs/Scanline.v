(* Generic lemmas about the scanline machinery of Model/Circle.v (common/scanline.rs, styled_scanline.rs and the
   "first hit, mirrored right end" search shared by circle, ellipse and their styled variants), and the
   pixel-map semantics of fill_solid call lists / pixel lists used by C06 and C01(b). *)
From EG Require Import Base.Prelude Base.Lemmas Model.Geometry Model.Style Model.Circle Proofs.Geometry.
From Coq Require Import ZifyBool.

Set Default Timeout 60.

(* ---- small list facts ---------------------------------------------------------------- *)
Lemma filter_map_comm {A B} (f : B -> bool) (g : A -> B) l :
  filter f (map g l) = map g (filter (fun x => f (g x)) l).
Proof.
  induction l as [|a l IH]; cbn [map filter]; [reflexivity|].
  destruct (f (g a)); cbn [map]; rewrite IH; reflexivity.
Qed.

Lemma filter_flat_map {A B} (f : B -> bool) (g : A -> list B) l :
  filter f (flat_map g l) = flat_map (fun a => filter f (g a)) l.
Proof.
  induction l as [|a l IH]; cbn [flat_map filter]; [reflexivity|].
  rewrite filter_app, IH. reflexivity.
Qed.

Lemma flat_map_ext_in {A B} (f g : A -> list B) l :
  (forall a, In a l -> f a = g a) -> flat_map f l = flat_map g l.
Proof.
  induction l as [|a l IH]; cbn [flat_map]; intros H; [reflexivity|].
  rewrite (H a) by (left; reflexivity). f_equal. apply IH. intros; apply H; right; assumption.
Qed.

Lemma filter_ext_in' {A} (f g : A -> bool) l :
  (forall a, In a l -> f a = g a) -> filter f l = filter g l.
Proof.
  induction l as [|a l IH]; cbn [filter]; intros H; [reflexivity|].
  rewrite (H a) by (left; reflexivity). rewrite IH by (intros; apply H; right; assumption). reflexivity.
Qed.

(* ---- the scanline search -------------------------------------------------------------- *)
(* hypotheses on a row predicate over the column range a..b: mirror symmetric about the middle of the
   range, and convex (between two hits everything is a hit) *)
Definition row_sym (P : Z -> bool) (a b : Z) : Prop := forall x, a <= x < b -> P x = P (a + b - 1 - x).
Definition row_convex (P : Z -> bool) (a b : Z) : Prop :=
  forall x y z, a <= x -> x <= y <= z -> z < b -> P x = true -> P z = true -> P y = true.

Lemma first_hit_spec (P : Z -> bool) a b :
  row_sym P a b -> row_convex P a b ->
  match first_hit P a b with
  | Some (x0, e) => a <= x0 /\ x0 < e /\ e <= b /\ x0 + e = a + b /\
                    (forall x, a <= x < b -> (P x = true <-> x0 <= x < e))
  | None => forall x, a <= x < b -> P x = false
  end.
Proof.
  intros Hsym Hconv. unfold first_hit. pose proof (find_range_spec P a b) as Hf.
  destruct (find P (range a b)) as [x0|]; [|exact Hf].
  destruct Hf as (Hx & Px & Hlt).
  assert (Hm : x0 <= a + b - 1 - x0).
  { destruct (Z_lt_le_dec (a + b - 1 - x0) x0) as [Hm|Hm]; [|lia].
    exfalso. rewrite Hsym in Px by lia. rewrite Hlt in Px by lia. discriminate. }
  split; [lia|]. split; [lia|]. split; [lia|]. split; [lia|].
  intros x Hxr. split.
  - intros Hp. split.
    + destruct (Z_lt_le_dec x x0) as [Hl|Hl]; [rewrite Hlt in Hp by lia; discriminate|lia].
    + rewrite Hsym in Hp by lia.
      destruct (Z_lt_le_dec (a + b - 1 - x) x0) as [Hl|Hl]; [rewrite Hlt in Hp by lia; discriminate|lia].
  - intros [H1 H2]. apply (Hconv x0 x (a + b - 1 - x0)); [lia|lia|lia|exact Px|].
    rewrite <- Hsym by lia. exact Px.
Qed.

Lemma filter_range_interval (P : Z -> bool) a b x0 e :
  a <= x0 -> x0 <= e -> e <= b ->
  (forall x, a <= x < b -> (P x = true <-> x0 <= x < e)) ->
  filter P (range a b) = range x0 e.
Proof.
  intros H1 H2 H3 H.
  rewrite (range_app a x0 b) by lia. rewrite (range_app x0 e b) by lia. rewrite !filter_app.
  rewrite (filter_all_false P (range a x0)).
  2:{ intros y Hy. apply In_range in Hy. destruct (P y) eqn:E; [|reflexivity]. apply H in E; lia. }
  rewrite (filter_all_true P (range x0 e)).
  2:{ intros y Hy. apply In_range in Hy. apply H; lia. }
  rewrite (filter_all_false P (range e b)).
  2:{ intros y Hy. apply In_range in Hy. destruct (P y) eqn:E; [|reflexivity]. apply H in E; lia. }
  cbn [app]. apply app_nil_r.
Qed.

(* the scanline the code computes in one row = the filter of the row predicate *)
Theorem scan_spec (P : Z -> bool) a b :
  row_sym P a b -> row_convex P a b ->
  match first_hit P a b with
  | Some (x0, e) => x0 < e /\ range x0 e = filter P (range a b)
  | None => filter P (range a b) = []
  end.
Proof.
  intros Hs Hc. pose proof (first_hit_spec P a b Hs Hc) as H.
  destruct (first_hit P a b) as [[x0 e]|].
  - destruct H as (H1 & H2 & H3 & H4 & H5). split; [assumption|].
    symmetry. apply filter_range_interval; try lia. assumption.
  - apply filter_all_false. intros y Hy. apply In_range in Hy. auto.
Qed.

Lemma scanlines_points_cons s t :
  sl_x0 s < sl_x1 s -> scanlines_points (s :: t) = scanline_points s ++ scanlines_points t.
Proof.
  intros H. cbn [scanlines_points]. destruct (scanline_points s) eqn:E; [|reflexivity].
  unfold scanline_points in E. rewrite range_cons in E by assumption. discriminate.
Qed.

(* the row loop + Points::next: the yielded points are, row by row, the hits of the row predicate *)
Theorem scan_rows_points skip pred c0 c1 ys :
  (forall y, In y ys -> row_sym (pred y) c0 c1 /\ row_convex (pred y) c0 c1) ->
  (skip = false -> forall y, In y ys -> exists x, c0 <= x < c1 /\ pred y x = true) ->
  scanlines_points (scan_rows skip pred c0 c1 ys) =
  flat_map (fun y => map (fun x => P x y) (filter (pred y) (range c0 c1))) ys.
Proof.
  induction ys as [|y t IH]; intros Hok Hhit; [reflexivity|].
  cbn [scan_rows flat_map].
  assert (IH' := IH (fun y Hy => Hok y (or_intror Hy)) (fun E y Hy => Hhit E y (or_intror Hy))).
  destruct (Hok y (or_introl eq_refl)) as [Hs Hc].
  pose proof (scan_spec (pred y) c0 c1 Hs Hc) as Hscan.
  pose proof (first_hit_spec (pred y) c0 c1 Hs Hc) as Hfh.
  destruct (first_hit (pred y) c0 c1) as [[x0 e]|].
  - destruct Hscan as [Hlt Heq]. rewrite scanlines_points_cons by (cbn [sl_x0 sl_x1]; assumption).
    rewrite IH'. unfold scanline_points. cbn [sl_x0 sl_x1 sl_y]. rewrite Heq. reflexivity.
  - rewrite Hscan. cbn [map app]. destruct skip; [exact IH'|].
    destruct (Hhit eq_refl y (or_introl eq_refl)) as (x & Hx & Hp). rewrite Hfh in Hp by assumption. discriminate.
Qed.

Lemma filter_row_major (f : point -> bool) x0 x1 y0 y1 :
  filter f (row_major x0 x1 y0 y1) =
  flat_map (fun y => map (fun x => P x y) (filter (fun x => f (P x y)) (range x0 x1))) (range y0 y1).
Proof.
  unfold row_major. rewrite filter_flat_map. apply flat_map_ext_in. intros y _. apply filter_map_comm.
Qed.

(* what a list of scanlines has to satisfy to be "the rows of the point set F" *)
Definition sl_ok (F : point -> bool) (s : scanline) : Prop :=
  sl_x0 s < sl_x1 s /\ forall x, F (P x (sl_y s)) = true <-> sl_x0 s <= x < sl_x1 s.

Theorem scan_rows_ok skip pred c0 c1 y0 y1 :
  (forall y, y0 <= y < y1 -> row_sym (pred y) c0 c1 /\ row_convex (pred y) c0 c1) ->
  (skip = false -> forall y, y0 <= y < y1 -> exists x, c0 <= x < c1 /\ pred y x = true) ->
  let F := fun p => (y0 <=? py p) && (py p <? y1) && (c0 <=? px p) && (px p <? c1) && pred (py p) (px p) in
  let sls := scan_rows skip pred c0 c1 (range y0 y1) in
  (forall s, In s sls -> sl_ok F s /\ y0 <= sl_y s < y1 /\ c0 <= sl_x0 s /\ sl_x1 s <= c1 /\ sl_x0 s + sl_x1 s = c0 + c1) /\
  (forall p, F p = true -> exists s, In s sls /\ sl_y s = py p).
Proof.
  intros Hok Hhit F sls. subst sls.
  assert (G : forall ys, (forall y, In y ys -> y0 <= y < y1) ->
    (forall s, In s (scan_rows skip pred c0 c1 ys) ->
       sl_ok F s /\ In (sl_y s) ys /\ c0 <= sl_x0 s /\ sl_x1 s <= c1 /\ sl_x0 s + sl_x1 s = c0 + c1) /\
    (forall y x, In y ys -> c0 <= x < c1 -> pred y x = true -> exists s, In s (scan_rows skip pred c0 c1 ys) /\ sl_y s = y)).
  { induction ys as [|y t IH]; intros Hys.
    - split; [intros s []|intros y x []].
    - destruct (IH (fun y Hy => Hys y (or_intror Hy))) as [IH1 IH2]. clear IH.
      assert (Hy : y0 <= y < y1) by (apply Hys; left; reflexivity).
      destruct (Hok y Hy) as [Hs Hc].
      pose proof (first_hit_spec (pred y) c0 c1 Hs Hc) as Hfh.
      cbn [scan_rows]. destruct (first_hit (pred y) c0 c1) as [[x0 e]|].
      + destruct Hfh as (H1 & H2 & H3 & H4 & H5). split.
        * intros s [<-|Hin].
          -- unfold sl_ok. cbn [sl_y sl_x0 sl_x1]. split; [split; [lia|]|split; [left; reflexivity|lia]].
             intros x. subst F. cbn [px py sl_y]. split.
             ++ intros HF.
                assert (c0 <= x < c1) by lia. apply H5; [assumption|]. destruct (pred y x); [reflexivity|lia].
             ++ intros Hx.
                assert (pred y x = true) as -> by (apply H5; lia). lia.
          -- destruct (IH1 s Hin) as (A & B & C). split; [exact A|split; [right; exact B|exact C]].
        * intros y' x [<-|Hin] Hx Hp.
          -- eexists. split; [left; reflexivity|reflexivity].
          -- destruct (IH2 y' x Hin Hx Hp) as (s & Hs1 & Hs2). exists s. split; [right; assumption|assumption].
      + destruct skip.
        * split.
          -- intros s Hin. destruct (IH1 s Hin) as (A & B & C). split; [exact A|split; [right; exact B|exact C]].
          -- intros y' x [<-|Hin] Hx Hp; [rewrite Hfh in Hp by assumption; discriminate|].
             apply (IH2 y' x Hin Hx Hp).
        * exfalso. destruct (Hhit eq_refl y Hy) as (x & Hx & Hp). rewrite Hfh in Hp by assumption. discriminate. }
  destruct (G (range y0 y1) (fun y Hy => proj1 (In_range y0 y1 y) Hy)) as [G1 G2]. split.
  - intros s Hin. destruct (G1 s Hin) as (A & B & C). apply In_range in B. split; [exact A|split; [lia|exact C]].
  - intros p HF. subst F. cbv beta in HF.
    apply (G2 (py p) (px p)); [apply In_range; lia|lia|].
    destruct (pred (py p) (px p)); [reflexivity|lia].
Qed.

(* ---- styled scanlines ----------------------------------------------------------------- *)
(* a styled scanline describes row y of a stroke set S and a fill set F (F inside S) *)
Definition ssl_ok (S F : point -> bool) (s : styled_scanline) : Prop :=
  ss_s0 s <= ss_f0 s /\ ss_f0 s <= ss_f1 s /\ ss_f1 s <= ss_s1 s /\ ss_s0 s < ss_s1 s /\
  (forall x, S (P x (ss_y s)) = true <-> ss_s0 s <= x < ss_s1 s) /\
  (forall x, F (P x (ss_y s)) = true <-> ss_f0 s <= x < ss_f1 s).

Theorem styled_scan_ok (S F : point -> bool) (fpred : Z -> Z -> bool) sls :
  (forall s, In s sls -> sl_ok S s /\
     row_sym (fpred (sl_y s)) (sl_x0 s) (sl_x1 s) /\ row_convex (fpred (sl_y s)) (sl_x0 s) (sl_x1 s)) ->
  (forall x y, F (P x y) = true -> S (P x y) = true) ->
  (forall s x, In s sls -> sl_x0 s <= x < sl_x1 s -> F (P x (sl_y s)) = fpred (sl_y s) x) ->
  (forall s, In s (styled_scan fpred sls) -> ssl_ok S F s) /\
  (forall y, (exists s, In s sls /\ sl_y s = y) -> exists s, In s (styled_scan fpred sls) /\ ss_y s = y).
Proof.
  intros Hsl Hsub HF. split.
  - intros ss Hin. unfold styled_scan in Hin. apply in_map_iff in Hin. destruct Hin as (s & <- & Hin).
    destruct (Hsl s Hin) as ([Hne HS] & Hs & Hc).
    pose proof (first_hit_spec _ _ _ Hs Hc) as Hfh.
    destruct (first_hit (fpred (sl_y s)) (sl_x0 s) (sl_x1 s)) as [[f0 f1]|]; unfold styled_scanline_new, ssl_ok;
      cbn [ss_y ss_s0 ss_s1 ss_f0 ss_f1].
    + destruct Hfh as (H1 & H2 & H3 & H4 & H5).
      split; [lia|]. split; [lia|]. split; [lia|]. split; [lia|]. split; [exact HS|].
      intros x. split.
      * intros HFx. assert (sl_x0 s <= x < sl_x1 s) as Hx by (apply HS, Hsub, HFx).
        rewrite (HF s x Hin Hx) in HFx. apply H5 in HFx; lia.
      * intros Hx. rewrite (HF s x Hin) by lia. apply H5; lia.
    + split; [lia|]. split; [lia|]. split; [lia|]. split; [lia|]. split; [exact HS|].
      intros x. split.
      * intros HFx. assert (sl_x0 s <= x < sl_x1 s) as Hx by (apply HS, Hsub, HFx).
        rewrite (HF s x Hin Hx), Hfh in HFx by assumption. discriminate.
      * intros Hx. lia.
  - intros y (s & Hin & <-). exists (styled_scanline_new (sl_y s) (sl_x0 s) (sl_x1 s)
                                    (first_hit (fpred (sl_y s)) (sl_x0 s) (sl_x1 s))).
    split.
    + unfold styled_scan. apply in_map_iff. exists s. split; [reflexivity|assumption].
    + destruct (first_hit _ _ _) as [[? ?]|]; reflexivity.
Qed.

(* ---- pixel-map semantics of call lists and pixel lists --------------------------------- *)
(* what a correct target shows after a list of fill_solid calls (later calls win) ... *)
Definition render (calls : list fill_call) (p : point) : option Z :=
  fold_left (fun acc rc => if contains (fst rc) p then Some (snd rc) else acc) calls None.
(* ... and after draw_iter over a list of pixels *)
Definition last_write (ws : list (point * Z)) (p : point) : option Z :=
  fold_left (fun acc qc => if point_eqb (fst qc) p then Some (snd qc) else acc) ws None.

Lemma fold_pick_cases {A} (hit : A -> bool) (val : A -> Z) (l : list A) :
  let r := fold_left (fun acc a => if hit a then Some (val a) else acc) l None in
  (r = None /\ forall a, In a l -> hit a = false) \/ (exists a, In a l /\ hit a = true /\ r = Some (val a)).
Proof.
  induction l as [|a l IH] using rev_ind; cbn zeta.
  - left. split; [reflexivity|intros a []].
  - rewrite fold_left_app. cbn [fold_left]. destruct (hit a) eqn:E.
    + right. exists a. split; [apply in_or_app; right; left; reflexivity|auto].
    + cbn zeta in IH. destruct IH as [[H1 H2]|(b & H1 & H2 & H3)].
      * left. split; [assumption|]. intros b Hb. apply in_app_or in Hb. destruct Hb as [Hb|[<-|[]]]; auto.
      * right. exists b. split; [apply in_or_app; left; assumption|auto].
Qed.

(* A call list realises the pixel map f if every call only touches points to which f gives the call's
   colour, and every point with a colour under f is touched by some call. *)
Theorem render_char calls (f : point -> option Z) p :
  (forall r c, In (r, c) calls -> contains r p = true -> f p = Some c) ->
  (f p <> None -> exists r c, In (r, c) calls /\ contains r p = true) ->
  render calls p = f p.
Proof.
  intros Hs Hc. unfold render.
  destruct (fold_pick_cases (fun rc : fill_call => contains (fst rc) p) snd calls) as [[H1 H2]|(a & H1 & H2 & H3)];
    cbn zeta in *.
  - etransitivity; [exact H1|]. destruct (f p) eqn:E; [|reflexivity].
    destruct Hc as (r & c & Hin & Hcon); [congruence|]. specialize (H2 _ Hin). cbn [fst] in H2. congruence.
  - etransitivity; [exact H3|]. destruct a as [r c]. symmetry. apply (Hs r c); assumption.
Qed.

Theorem last_write_char ws (f : point -> option Z) p :
  (forall c, In (p, c) ws -> f p = Some c) ->
  (f p <> None -> exists c, In (p, c) ws) ->
  last_write ws p = f p.
Proof.
  intros Hs Hc. unfold last_write.
  destruct (fold_pick_cases (fun qc : point * Z => point_eqb (fst qc) p) snd ws) as [[H1 H2]|(a & H1 & H2 & H3)];
    cbn zeta in *.
  - rewrite H1. destruct (f p) eqn:E; [|reflexivity].
    destruct Hc as (c & Hin); [congruence|]. specialize (H2 _ Hin). cbn [fst] in H2.
    unfold point_eqb in H2. lia.
  - rewrite H3. destruct a as [q c]. cbn [fst snd] in *. symmetry. apply Hs.
    assert (q = p) as <-; [|assumption]. unfold point_eqb in H2. destruct q as [qx qy], p as [x y]; cbn [px py] in *. f_equal; lia.
Qed.

(* ---- coloured spans: the common shape of what draw_styled and the pixel iterator emit ---- *)
Definition in_span (s : scanline) (p : point) : Prop := py p = sl_y s /\ sl_x0 s <= px p < sl_x1 s.

Definition draw_spans (spans : list (scanline * Z)) : list fill_call :=
  flat_map (fun sc => scanline_draw (fst sc) (snd sc)) spans.
Definition pix_spans (spans : list (scanline * Z)) : list (point * Z) :=
  flat_map (fun sc => colored (fst sc) (snd sc)) spans.

Lemma in_scanline_draw s c r c' p :
  In (r, c') (scanline_draw s c) -> contains r p = true -> c' = c /\ in_span s p.
Proof.
  unfold scanline_draw, scanline_is_empty. destruct (sl_x0 s <? sl_x1 s) eqn:E; cbn [negb In]; [|tauto].
  intros [H|[]]. inversion H; subst. rewrite contains_spec. cbn [tl sz px py sw sh]. unfold in_span. lia.
Qed.

Lemma scanline_draw_covers s c p :
  in_span s p -> exists r, In (r, c) (scanline_draw s c) /\ contains r p = true.
Proof.
  unfold in_span, scanline_draw, scanline_is_empty. intros [H1 H2].
  destruct (sl_x0 s <? sl_x1 s) eqn:E; [|lia]. cbn [negb].
  eexists. split; [left; reflexivity|]. rewrite contains_spec. cbn [tl sz px py sw sh]. lia.
Qed.

Lemma in_colored s c p c' : In (p, c') (colored s c) <-> c' = c /\ in_span s p.
Proof.
  unfold colored, scanline_points, in_span. rewrite in_map_iff. split.
  - intros (q & Hq & Hin). inversion Hq; subst. apply in_map_iff in Hin. destruct Hin as (x & <- & Hx).
    apply In_range in Hx. cbn [px py]. lia.
  - intros (-> & H1 & H2). exists p. split; [reflexivity|]. apply in_map_iff. exists (px p).
    split; [destruct p as [x0 y0]; cbn [px py] in *; subst; reflexivity|apply In_range; lia].
Qed.

(* both renderings of a span list give the pixel map f, provided the spans agree with f *)
Theorem spans_char spans (f : point -> option Z) p :
  (forall s c, In (s, c) spans -> in_span s p -> f p = Some c) ->
  (f p <> None -> exists s c, In (s, c) spans /\ in_span s p) ->
  render (draw_spans spans) p = f p /\ last_write (pix_spans spans) p = f p.
Proof.
  intros Hs Hc. split.
  - apply render_char.
    + intros r c Hin Hcon. unfold draw_spans in Hin. apply in_flat_map in Hin. destruct Hin as ([s c0] & Hin & Hd).
      cbn [fst snd] in Hd. destruct (in_scanline_draw _ _ _ _ _ Hd Hcon) as [-> Hsp]. eapply Hs; eassumption.
    + intros Hn. destruct (Hc Hn) as (s & c & Hin & Hsp).
      destruct (scanline_draw_covers s c p Hsp) as (r & Hr & Hcon). exists r, c. split; [|assumption].
      unfold draw_spans. apply in_flat_map. exists (s, c). split; assumption.
  - apply last_write_char.
    + intros c Hin. unfold pix_spans in Hin. apply in_flat_map in Hin. destruct Hin as ([s c0] & Hin & Hd).
      cbn [fst snd] in Hd. apply in_colored in Hd. destruct Hd as [-> Hsp]. eapply Hs; eassumption.
    + intros Hn. destruct (Hc Hn) as (s & c & Hin & Hsp). exists c.
      unfold pix_spans. apply in_flat_map. exists (s, c). split; [assumption|]. apply in_colored. auto.
Qed.

(* the span lists behind the three stroke/fill combinations *)
Definition spans_stroke (sc : Z) (l : list styled_scanline) : list (scanline * Z) :=
  flat_map (fun s => [(stroke_left s, sc); (stroke_right s, sc)]) l.
Definition spans_both (sc fc : Z) (l : list styled_scanline) : list (scanline * Z) :=
  flat_map (fun s => [(stroke_left s, sc); (fill_part s, fc); (stroke_right s, sc)]) l.
Definition spans_fill (fc : Z) (l : list styled_scanline) : list (scanline * Z) :=
  flat_map (fun s => [(fill_part s, fc)]) l.
Definition spans_plain (fc : Z) (l : list scanline) : list (scanline * Z) := map (fun s => (s, fc)) l.

Lemma draw_stroke_spans sc l : flat_map (fun s => draw_stroke s sc) l = draw_spans (spans_stroke sc l).
Proof.
  induction l as [|s l IH]; [reflexivity|]. unfold draw_spans, spans_stroke in *. cbn [flat_map].
  rewrite flat_map_app, <- IH. cbn [flat_map fst snd]. unfold draw_stroke. rewrite app_nil_r. reflexivity.
Qed.
Lemma draw_both_spans sc fc l :
  flat_map (fun s => draw_stroke_and_fill s sc fc) l = draw_spans (spans_both sc fc l).
Proof.
  induction l as [|s l IH]; [reflexivity|]. unfold draw_spans, spans_both in *. cbn [flat_map].
  rewrite flat_map_app, <- IH. cbn [flat_map fst snd]. unfold draw_stroke_and_fill. rewrite app_nil_r, <- !app_assoc. reflexivity.
Qed.
Lemma draw_plain_spans fc l : flat_map (fun s => scanline_draw s fc) l = draw_spans (spans_plain fc l).
Proof.
  induction l as [|s l IH]; [reflexivity|]. unfold draw_spans, spans_plain in *. cbn [flat_map map fst snd].
  rewrite IH. reflexivity.
Qed.

Lemma styled_pixels_spans l stroke fill :
  styled_pixels l stroke fill =
  pix_spans match stroke, fill with
            | Some sc, None => spans_stroke sc l
            | Some sc, Some fc => spans_both sc fc l
            | None, Some fc => spans_fill fc l
            | None, None => []
            end.
Proof.
  unfold styled_pixels. destruct stroke as [sc|], fill as [fc|]; try reflexivity;
    induction l as [|s l IH]; try reflexivity;
    unfold pix_spans, spans_stroke, spans_both, spans_fill in *; cbn [flat_map];
    rewrite flat_map_app, <- IH; cbn [flat_map fst snd]; rewrite ?app_nil_r, <- ?app_assoc; reflexivity.
Qed.

(* ---- the pixel maps of the span lists, given sound and complete styled scanlines --------- *)
Section Styled.
  Variables (S F : point -> bool) (l : list styled_scanline).
  Hypothesis Hok : forall s, In s l -> ssl_ok S F s.
  Hypothesis Hall : forall p, S p = true -> exists s, In s l /\ ss_y s = py p.
  Hypothesis Hsub : forall p, F p = true -> S p = true.

  Lemma eta p : P (px p) (py p) = p. Proof. destruct p; reflexivity. Qed.

  Lemma span_facts s p : In s l -> py p = ss_y s ->
    (S p = true <-> ss_s0 s <= px p < ss_s1 s) /\ (F p = true <-> ss_f0 s <= px p < ss_f1 s) /\
    ss_s0 s <= ss_f0 s /\ ss_f0 s <= ss_f1 s /\ ss_f1 s <= ss_s1 s.
  Proof.
    intros Hin Hy. destruct (Hok s Hin) as (A & B & C & D & E & G).
    specialize (E (px p)). specialize (G (px p)). rewrite <- Hy, eta in E, G. tauto.
  Qed.

  Theorem spans_both_map sc fc p :
    let f := fun p => if F p then Some fc else if S p then Some sc else None in
    render (draw_spans (spans_both sc fc l)) p = f p /\ last_write (pix_spans (spans_both sc fc l)) p = f p.
  Proof.
    intros f. apply spans_char; subst f; cbv beta.
    - intros s c Hin [Hy Hx]. unfold spans_both in Hin. apply in_flat_map in Hin. destruct Hin as (ss & Hss & Hin).
      cbn [In] in Hin.
      destruct Hin as [H|[H|[H|[]]]]; inversion H; subst; cbn [sl_y sl_x0 sl_x1 stroke_left stroke_right fill_part] in *;
        destruct (span_facts ss p Hss Hy) as (A & B & C);
        destruct (F p) eqn:EF, (S p) eqn:ES; try reflexivity; exfalso;
        try (assert (true = true) as T by reflexivity; apply B in T);
        try (assert (true = true) as T' by reflexivity; apply A in T');
        try (assert (false = true) as T2 by (apply A; lia); discriminate);
        try (assert (false = true) as T3 by (apply B; lia); discriminate); try lia.
    - intros Hn. assert (S p = true) as HS.
      { destruct (F p) eqn:EF; [apply Hsub; assumption|]. destruct (S p); [reflexivity|congruence]. }
      destruct (Hall p HS) as (ss & Hss & Hy). symmetry in Hy.
      destruct (span_facts ss p Hss Hy) as (A & B & C). apply A in HS.
      destruct (Z_lt_le_dec (px p) (ss_f0 ss)); [|destruct (Z_lt_le_dec (px p) (ss_f1 ss))].
      + exists (stroke_left ss), sc. split; [|split; cbn [stroke_left sl_y sl_x0 sl_x1]; lia].
        unfold spans_both. apply in_flat_map. exists ss. split; [assumption|left; reflexivity].
      + exists (fill_part ss), fc. split; [|split; cbn [fill_part sl_y sl_x0 sl_x1]; lia].
        unfold spans_both. apply in_flat_map. exists ss. split; [assumption|right; left; reflexivity].
      + exists (stroke_right ss), sc. split; [|split; cbn [stroke_right sl_y sl_x0 sl_x1]; lia].
        unfold spans_both. apply in_flat_map. exists ss. split; [assumption|right; right; left; reflexivity].
  Qed.

  Theorem spans_stroke_map sc p :
    let f := fun p => if F p then None else if S p then Some sc else None in
    render (draw_spans (spans_stroke sc l)) p = f p /\ last_write (pix_spans (spans_stroke sc l)) p = f p.
  Proof.
    intros f. apply spans_char; subst f; cbv beta.
    - intros s c Hin [Hy Hx]. unfold spans_stroke in Hin. apply in_flat_map in Hin. destruct Hin as (ss & Hss & Hin).
      cbn [In] in Hin.
      destruct Hin as [H|[H|[]]]; inversion H; subst; cbn [sl_y sl_x0 sl_x1 stroke_left stroke_right fill_part] in *;
        destruct (span_facts ss p Hss Hy) as (A & B & C);
        destruct (F p) eqn:EF, (S p) eqn:ES; try reflexivity; exfalso;
        try (assert (true = true) as T by reflexivity; apply B in T);
        try (assert (true = true) as T' by reflexivity; apply A in T');
        try (assert (false = true) as T2 by (apply A; lia); discriminate);
        try (assert (false = true) as T3 by (apply B; lia); discriminate); try lia.
    - intros Hn. destruct (F p) eqn:EF; [congruence|]. assert (S p = true) as HS by (destruct (S p); [reflexivity|congruence]).
      destruct (Hall p HS) as (ss & Hss & Hy). symmetry in Hy.
      destruct (span_facts ss p Hss Hy) as (A & B & C). apply A in HS.
      destruct (Z_lt_le_dec (px p) (ss_f0 ss)); [|destruct (Z_lt_le_dec (px p) (ss_f1 ss))].
      + exists (stroke_left ss), sc. split; [|split; cbn [stroke_left sl_y sl_x0 sl_x1]; lia].
        unfold spans_stroke. apply in_flat_map. exists ss. split; [assumption|left; reflexivity].
      + exfalso. assert (F p = true) by (apply B; lia). congruence.
      + exists (stroke_right ss), sc. split; [|split; cbn [stroke_right sl_y sl_x0 sl_x1]; lia].
        unfold spans_stroke. apply in_flat_map. exists ss. split; [assumption|right; left; reflexivity].
  Qed.

  Theorem spans_fill_map fc p :
    let f := fun p => if F p then Some fc else None in
    render (draw_spans (spans_fill fc l)) p = f p /\ last_write (pix_spans (spans_fill fc l)) p = f p.
  Proof.
    intros f. apply spans_char; subst f; cbv beta.
    - intros s c Hin [Hy Hx]. unfold spans_fill in Hin. apply in_flat_map in Hin. destruct Hin as (ss & Hss & Hin).
      cbn [In] in Hin. destruct Hin as [H|[]]; inversion H; subst; cbn [sl_y sl_x0 sl_x1 fill_part] in *.
      destruct (span_facts ss p Hss Hy) as (A & B & C). assert (F p = true) as -> by (apply B; lia). reflexivity.
    - intros Hn. destruct (F p) eqn:EF; [|congruence].
      destruct (Hall p (Hsub p EF)) as (ss & Hss & Hy). symmetry in Hy.
      destruct (span_facts ss p Hss Hy) as (A & B & C). apply B in EF.
      exists (fill_part ss), fc. split; [|split; cbn [fill_part sl_y sl_x0 sl_x1]; lia].
      unfold spans_fill. apply in_flat_map. exists ss. split; [assumption|left; reflexivity].
  Qed.
End Styled.

(* plain scanlines of a point set F, all drawn in one colour *)
Theorem spans_plain_map (F : point -> bool) (l : list scanline) fc p :
  (forall s, In s l -> sl_ok F s) ->
  (forall p, F p = true -> exists s, In s l /\ sl_y s = py p) ->
  let f := fun p => if F p then Some fc else None in
  render (draw_spans (spans_plain fc l)) p = f p /\ last_write (pix_spans (spans_plain fc l)) p = f p.
Proof.
  intros Hok Hall f. apply spans_char; subst f; cbv beta.
  - intros s c Hin [Hy Hx]. unfold spans_plain in Hin. apply in_map_iff in Hin. destruct Hin as (s' & H & Hin).
    inversion H; subst. destruct (Hok s Hin) as [_ A]. specialize (A (px p)). rewrite <- Hy, eta in A.
    assert (F p = true) as -> by (apply A; lia). reflexivity.
  - intros Hn. destruct (F p) eqn:EF; [|congruence].
    destruct (Hall p EF) as (s & Hin & Hy). destruct (Hok s Hin) as [_ A]. specialize (A (px p)).
    rewrite Hy, eta in A. apply A in EF. exists s, fc. split; [|split; [symmetry; assumption|assumption]].
    unfold spans_plain. apply in_map_iff. exists s. split; [reflexivity|assumption].
Qed.
