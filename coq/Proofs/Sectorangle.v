(* The angular clauses of C18 with angles: Coq's sin / cos, the named trig hypothesis the p_trig_* suites test,
   the ideal (true) sector of the plane, and the two theorems that tie Sector / Arc membership to it:
     near  : every accepted point is within 1.5 px (3 doubled units) of a point rho (cos t, sin t) with t in the sweep
     covers: a circle point all of whose 1.5-px neighbourhood is strictly inside the sweep is accepted.
   Real-number part first (no model), then the integer model (Proofs/Sectormodel.v, Sectorreal.v). *)
From EG Require Import Base.Prelude Model.Geometry Model.Sectormodel Proofs.Sectormodel Proofs.Sectorreal.
From Coq Require Import Reals Lra Lia Psatz.
Local Open Scope R_scope.
Set Default Timeout 120.

(* ==== 1. plane geometry over R ============================================================== *)
Ltac sqr x := let H := fresh "Hsq" in pose proof (Rle_0_sqr x) as H; unfold Rsqr in H.

Lemma sq_poly_bound s : 0 <= s -> (1 - s*s) * ((1+s)*(1+s)) <= 27/16.
Proof.
  intros Hs.
  assert (H : 27/16 - (1 - s*s) * ((1+s)*(1+s)) = (s - 1/2)*(s - 1/2) * (s*s + 3*s + 11/4)) by field.
  sqr (s - 1/2).
  assert (0 <= s*s + 3*s + 11/4) by nra.
  assert (0 <= (s - 1/2)*(s - 1/2) * (s*s + 3*s + 11/4)) by (apply Rmult_le_pos; assumption).
  lra.
Qed.

(* a point behind ray r (p < 0) by at most eta, not beyond line r by more than eta, behind ray l, and not beyond
   line l by more than eta, is close to the apex *)
Lemma apex_bound p m c s eta :
  c*c + s*s = 1 -> 0 <= s -> 0 <= eta ->
  - eta <= p -> p < 0 -> - eta <= m ->
  c*p + s*m < 0 -> - s*p + c*m <= eta ->
  p*p + m*m <= 43/16 * (eta*eta).
Proof.
  intros Hcs Hs He Hp1 Hp2 Hm Hpl Hml.
  assert (Hpp : p*p <= eta*eta) by nra.
  destruct (Rle_dec m 0) as [Hm0|Hm0].
  - assert (m*m <= eta*eta) by nra. nra.
  - assert (0 < m) by lra.
    destruct (Rle_dec 0 c) as [Hc|Hc].
    + assert (H1 : c*m <= eta) by nra.
      assert (H2 : s*m <= c*eta) by nra.
      assert (H3 : m = c*(c*m) + s*(s*m)) by (replace (c*(c*m) + s*(s*m)) with ((c*c+s*s)*m) by ring; rewrite Hcs; ring).
      assert (H4 : m <= c*eta*(1+s)).
      { rewrite H3. assert (c*(c*m) <= c*eta) by (apply Rmult_le_compat_l; lra).
        assert (s*(s*m) <= s*(c*eta)) by (apply Rmult_le_compat_l; lra). lra. }
      assert (H5 : m*m <= (c*eta*(1+s))*(c*eta*(1+s))) by nra.
      assert (H6 : (c*eta*(1+s))*(c*eta*(1+s)) = (1 - s*s)*((1+s)*(1+s))*(eta*eta)).
      { replace (1 - s*s) with (c*c) by lra. ring. }
      pose proof (sq_poly_bound s Hs) as H7.
      assert (H8 : (1 - s*s)*((1+s)*(1+s))*(eta*eta) <= 27/16*(eta*eta)) by (apply Rmult_le_compat_r; nra).
      lra.
    + exfalso. assert (c < 0) by lra. assert (0 < c*p) by nra. assert (0 <= s*m) by nra. lra.
Qed.

(* the four candidate witnesses of "within 1.5 px of the cone": the point itself, its projections on the two rays,
   the apex.  Frame of ray r: delta = pr e_r + mr u_r;  frame of ray l (angle w, c = cos w, s = sin w >= 0):
   pl = c pr + s mr, ml = - s pr + c mr. *)
Lemma cone_witness_cases pr mr c s eta :
  c*c + s*s = 1 -> 0 <= s -> 0 <= eta -> 43 * (eta*eta) <= 144 ->
  - eta <= mr -> - s*pr + c*mr <= eta -> (- eta <= pr \/ - eta <= c*pr + s*mr) ->
  (0 <= mr /\ - s*pr + c*mr <= 0 /\ (0 <= pr \/ 0 <= c*pr + s*mr))
  \/ (0 <= pr /\ mr*mr <= 9)
  \/ (0 <= c*pr + s*mr /\ (- s*pr + c*mr)*(- s*pr + c*mr) <= 9)
  \/ (pr*pr + mr*mr <= 9).
Proof.
  intros Hcs Hs He Heta Hmr Hml Hfront.
  set (pl := c*pr + s*mr) in *. set (ml := - s*pr + c*mr) in *.
  assert (Heta3 : eta < 3) by nra.
  assert (Hc1 : -1 <= c <= 1) by nra.
  destruct (Rle_dec 0 pr) as [Hpr|Hpr].
  - (* in front of ray r *)
    destruct (Rle_dec mr 3) as [Hm3|Hm3].
    + right; left. split; [assumption|]. nra.
    + (* mr > 3 *)
      assert (3 < mr) by lra.
      destruct (Rle_dec ml 0) as [Hml0|Hml0].
      * left. split; [lra|split; [lra|left; lra]].
      * (* ml > 0 *)
        destruct (Rle_dec 0 pl) as [Hpl|Hpl].
        -- right; right; left. split; [assumption|]. nra.
        -- exfalso. assert (pl < 0) by lra. subst pl ml.
           assert (c*pr < 0) by nra. assert (c < 0) by nra.
           assert (c*mr < 0) by nra. assert (0 <= s*pr) by nra. lra.
  - assert (Hpr0 : pr < 0) by lra.
    destruct (Rle_dec 0 pl) as [Hpl|Hpl].
    + (* behind r, in front of l *)
      destruct (Rle_dec (-3) ml) as [Hm3|Hm3].
      * right; right; left. split; [assumption|]. nra.
      * (* ml < -3 *)
        assert (ml < -3) by lra. left.
        assert (Hcm : c*mr < -3) by (subst ml; nra).
        assert (0 <= mr).
        { destruct (Rle_dec 0 mr); [assumption|]. exfalso. assert (mr < 0) by lra.
          assert (- eta <= c*mr) by nra. lra. }
        split; [lra|split; [lra|right; lra]].
    + (* behind both rays *)
      assert (Hpl0 : pl < 0) by lra.
      right; right; right.
      destruct Hfront as [Hf|Hf].
      * pose proof (apex_bound pr mr c s eta Hcs Hs He Hf Hpr0 Hmr Hpl0 Hml). nra.
      * (* mirror image: frame of ray l, m -> -m *)
        assert (E1 : c*pl + s*(- ml) = pr) by (subst pl ml; replace pr with ((c*c+s*s)*pr) at 3 by (rewrite Hcs; ring); ring).
        assert (E2 : - s*pl + c*(- ml) = - mr) by (subst pl ml; replace (- mr) with (-((c*c+s*s)*mr)) by (rewrite Hcs; ring); ring).
        assert (Hb : pl*pl + (- ml)*(- ml) <= 43/16 * (eta*eta)).
        { apply (apex_bound pl (- ml) c s eta); try assumption; try lra. }
        assert (E3 : pl*pl + ml*ml = pr*pr + mr*mr).
        { subst pl ml. replace (pr*pr + mr*mr) with ((c*c+s*s)*(pr*pr + mr*mr)) by (rewrite Hcs; ring). ring. }
        nra.
Qed.

(* components of a real vector (x, y) along the ray at angle t and across it (rotate_90 of the ray direction):
   e(t) = (cos t, sin t), u(t) = (- sin t, cos t) *)
Definition along (t x y : R) : R := cos t * x + sin t * y.
Definition across (t x y : R) : R := - sin t * x + cos t * y.

Lemma cs1 t : cos t * cos t + sin t * sin t = 1.
Proof. pose proof (sin2_cos2 t) as H. unfold Rsqr in H. lra. Qed.

Lemma frame_x t x y : x = along t x y * cos t - across t x y * sin t.
Proof. unfold along, across. replace x with ((cos t * cos t + sin t * sin t) * x) at 1 by (rewrite cs1; ring). ring. Qed.
Lemma frame_y t x y : y = along t x y * sin t + across t x y * cos t.
Proof. unfold along, across. replace y with ((cos t * cos t + sin t * sin t) * y) at 1 by (rewrite cs1; ring). ring. Qed.
Lemma frame_norm t x y : x * x + y * y = along t x y * along t x y + across t x y * across t x y.
Proof.
  unfold along, across.
  replace (x * x + y * y) with ((cos t * cos t + sin t * sin t) * (x * x + y * y)) by (rewrite cs1; ring). ring.
Qed.

(* change of frame by an angle w *)
Lemma along_plus t w x y : along (t + w) x y = cos w * along t x y + sin w * across t x y.
Proof. unfold along, across. rewrite cos_plus, sin_plus. ring. Qed.
Lemma across_plus t w x y : across (t + w) x y = - sin w * along t x y + cos w * across t x y.
Proof. unfold along, across. rewrite cos_plus, sin_plus. ring. Qed.

(* the point rho * e(t) *)
Lemma along_ray t rho : along t (rho * cos t) (rho * sin t) = rho.
Proof. unfold along. replace rho with ((cos t * cos t + sin t * sin t) * rho) at 3 by (rewrite cs1; ring). ring. Qed.
Lemma across_ray t rho : across t (rho * cos t) (rho * sin t) = 0.
Proof. unfold across. ring. Qed.

(* the closed cone swept from the ray at ts counter-clockwise to the ray at te, 0 <= te - ts <= PI *)
Definition in_cone (ts te x y : R) : Prop :=
  0 <= across ts x y /\ across te x y <= 0 /\ (0 <= along ts x y \/ 0 <= along te x y).

Definition dist2 (x y qx qy : R) : R := (x - qx) * (x - qx) + (y - qy) * (y - qy).

Lemma dist2_to_ray t x y : dist2 x y (along t x y * cos t) (along t x y * sin t) = across t x y * across t x y.
Proof.
  unfold dist2, along, across. pose proof (cs1 t) as H. set (C := cos t) in *. set (S := sin t) in *.
  assert (E1 : x - (C * x + S * y) * C = (C * C + S * S) * x - (C * x + S * y) * C) by (rewrite H; ring).
  assert (E2 : y - (C * x + S * y) * S = (C * C + S * S) * y - (C * x + S * y) * S) by (rewrite H; ring).
  rewrite E1, E2.
  replace ((- S * x + C * y) * (- S * x + C * y)) with ((C * C + S * S) * ((- S * x + C * y) * (- S * x + C * y))) by (rewrite H; ring).
  ring.
Qed.

(* every point that is at most eta beyond each of the two lines and at most eta behind one of the two rays
   is within 3 of the cone *)
Theorem near_cone_real ts w x y eta :
  0 <= w <= PI -> 0 <= eta -> 43 * (eta * eta) <= 144 ->
  - eta <= across ts x y -> across (ts + w) x y <= eta ->
  (- eta <= along ts x y \/ - eta <= along (ts + w) x y) ->
  exists qx qy, in_cone ts (ts + w) qx qy /\ dist2 x y qx qy <= 9.
Proof.
  intros Hw He Heta Hr Hl Hf.
  assert (Hs : 0 <= sin w) by (apply sin_ge_0; lra).
  rewrite across_plus in Hl. rewrite along_plus in Hf.
  set (pr := along ts x y) in *. set (mr := across ts x y) in *.
  destruct (cone_witness_cases pr mr (cos w) (sin w) eta (cs1 w) Hs He Heta Hr Hl Hf) as [H|[H|[H|H]]].
  - exists x, y. split.
    + unfold in_cone. rewrite across_plus, along_plus. fold pr mr. exact H.
    + unfold dist2. nra.
  - destruct H as [H1 H2]. exists (pr * cos ts), (pr * sin ts). split.
    + unfold in_cone. rewrite across_plus, along_plus, along_ray, across_ray. split; [lra|]. split; [nra|]. left; lra.
    + subst pr. rewrite dist2_to_ray. exact H2.
  - destruct H as [H1 H2].
    set (pl := cos w * pr + sin w * mr) in *.
    exists (along (ts + w) x y * cos (ts + w)), (along (ts + w) x y * sin (ts + w)). split.
    + unfold in_cone. rewrite along_ray, across_ray.
      replace ts with ((ts + w) + (- w)) at 1 by ring. rewrite across_plus, along_ray, across_ray.
      rewrite sin_neg, along_plus. fold pr mr pl. split; [nra|]. split; [lra|]. right; lra.
    + rewrite dist2_to_ray, across_plus. fold pr mr. exact H2.
  - exists 0, 0. split.
    + unfold in_cone, across, along. split; [lra|]. split; [lra|]. left; lra.
    + unfold dist2. replace ((x - 0) * (x - 0) + (y - 0) * (y - 0)) with (x * x + y * y) by ring.
      rewrite (frame_norm ts x y). fold pr mr. exact H.
Qed.

(* ==== 2. polar form of the cone ================================================================ *)
(* polar coordinates: every vector is rho (cos phi, sin phi) with phi in [0, pi] above the axis, [pi, 2 pi] below *)
Lemma polar_upper X Y : 0 <= Y -> exists rho phi, 0 <= rho /\ 0 <= phi <= PI /\ X = rho * cos phi /\ Y = rho * sin phi.
Proof.
  intros HY. set (r2 := X * X + Y * Y). assert (H0 : 0 <= r2) by (unfold r2; nra).
  destruct (Req_dec r2 0) as [Hz|Hnz].
  - exists 0, 0. assert (X = 0) by (unfold r2 in Hz; nra). assert (Y = 0) by (unfold r2 in Hz; nra).
    pose proof PI_RGT_0. repeat split; try lra.
  - set (rho := sqrt r2). assert (Hrho : 0 < rho) by (apply sqrt_lt_R0; lra).
    assert (Hsq : rho * rho = r2) by (apply sqrt_sqrt; assumption).
    set (cx := X / rho).
    assert (Hcx2 : cx * cx <= 1).
    { unfold cx. assert (X * X <= rho * rho) by (rewrite Hsq; unfold r2; nra).
      replace (X / rho * (X / rho)) with (X * X / (rho * rho)) by (field; lra).
      apply Rmult_le_reg_r with (rho * rho); [nra|]. replace (X * X / (rho * rho) * (rho * rho)) with (X * X) by (field; lra). lra. }
    assert (Hcx : -1 <= cx <= 1) by (split; nra).
    exists rho, (acos cx). split; [lra|]. split; [apply acos_bound|].
    rewrite cos_acos, sin_acos by assumption. split.
    + unfold cx. field. lra.
    + assert (E : 1 - cx² = (Y / rho) * (Y / rho)).
      { unfold Rsqr, cx. replace 1 with (r2 / (rho * rho)) by (rewrite Hsq; field; lra). unfold r2. field. lra. }
      rewrite E. rewrite sqrt_square.
      * field. lra.
      * apply Rmult_le_pos; [assumption|]. apply Rlt_le, Rinv_0_lt_compat, Hrho.
Qed.

Lemma polar_any X Y :
  exists rho phi, 0 <= rho /\ X = rho * cos phi /\ Y = rho * sin phi /\
    ((0 <= Y /\ 0 <= phi <= PI) \/ (Y < 0 /\ PI < phi < 2 * PI)).
Proof.
  destruct (Rle_dec 0 Y) as [HY|HY].
  - destruct (polar_upper X Y HY) as (rho & phi & H1 & H2 & H3 & H4).
    exists rho, phi. repeat split; try assumption. left. split; assumption.
  - assert (HY' : 0 <= - Y) by lra.
    destruct (polar_upper X (- Y) HY') as (rho & phi & H1 & H2 & H3 & H4).
    exists rho, (2 * PI - phi). rewrite cos_minus, sin_minus, sin_2PI, cos_2PI.
    split; [assumption|]. split; [lra|]. split; [lra|]. right. split; [lra|].
    (* phi cannot be 0 or PI: Y <> 0 *)
    assert (phi <> 0) by (intros ->; rewrite sin_0 in H4; lra).
    assert (phi <> PI) by (intros ->; rewrite sin_PI in H4; lra).
    lra.
Qed.

Lemma across_polar' t' t rho : across t' (rho * cos t) (rho * sin t) = rho * sin (t - t').
Proof. unfold across. rewrite sin_minus. ring. Qed.
Lemma along_polar' t' t rho : along t' (rho * cos t) (rho * sin t) = rho * cos (t - t').
Proof. unfold along. rewrite cos_minus. ring. Qed.

(* a vector given in the frame of the ray at ts *)
Lemma from_frame ts x y rho phi :
  along ts x y = rho * cos phi -> across ts x y = rho * sin phi ->
  x = rho * cos (ts + phi) /\ y = rho * sin (ts + phi).
Proof.
  intros H1 H2. split.
  - rewrite (frame_x ts x y), H1, H2, cos_plus. ring.
  - rewrite (frame_y ts x y), H1, H2, sin_plus. ring.
Qed.

(* the closed cone (0 <= w <= pi) is { rho e(t) : ts <= t <= ts + w } *)
Theorem cone_is_polar ts w x y :
  0 <= w <= PI -> in_cone ts (ts + w) x y ->
  exists rho t, 0 <= rho /\ ts <= t <= ts + w /\ x = rho * cos t /\ y = rho * sin t.
Proof.
  intros Hw (H1 & H2 & H3).
  destruct (polar_upper (along ts x y) (across ts x y) H1) as (rho & phi & Hr & Hphi & HX & HY).
  destruct (from_frame ts x y rho phi HX HY) as [Ex Ey].
  destruct (Req_dec rho 0) as [Hz|Hnz].
  - exists 0, ts. subst rho. rewrite Ex, Ey. repeat split; lra.
  - assert (Hrho : 0 < rho) by lra.
    destruct (Rle_dec phi w) as [Hle|Hgt].
    + exists rho, (ts + phi). repeat split; try assumption; lra.
    + exfalso. assert (Hpw : 0 < phi - w) by lra.
      rewrite Ex, Ey in H2. rewrite across_polar' in H2. replace (ts + phi - (ts + w)) with (phi - w) in H2 by ring.
      destruct (Rlt_dec (phi - w) PI) as [Hlt|Hge].
      * assert (0 < sin (phi - w)) by (apply sin_gt_0; lra). nra.
      * (* phi = PI and w = 0: the front condition fails *)
        assert (phi = PI) by lra. assert (w = 0) by lra. subst phi w.
        rewrite Ex, Ey in H3. rewrite !along_polar' in H3.
        replace (ts + PI - ts) with PI in H3 by ring. replace (ts + PI - (ts + 0)) with PI in H3 by ring.
        rewrite cos_PI in H3. destruct H3; nra.
Qed.

(* the closed reflex sector (pi < w < 2 pi) is { rho e(t) : ts <= t <= ts + w } as well *)
Theorem reflex_is_polar ts w x y :
  PI < w < 2 * PI -> (0 <= across ts x y \/ across (ts + w) x y <= 0) ->
  exists rho t, 0 <= rho /\ ts <= t <= ts + w /\ x = rho * cos t /\ y = rho * sin t.
Proof.
  intros Hw H.
  destruct (polar_any (along ts x y) (across ts x y)) as (rho & phi & Hr & HX & HY & Hcase).
  destruct (from_frame ts x y rho phi HX HY) as [Ex Ey].
  destruct Hcase as [[HY0 Hphi]|[HY0 Hphi]].
  - exists rho, (ts + phi). repeat split; try assumption; lra.
  - destruct (Rle_dec phi w) as [Hle|Hgt].
    + exists rho, (ts + phi). repeat split; try assumption; lra.
    + exfalso. destruct H as [H|H]; [lra|].
      assert (Hrho : 0 < rho).
      { destruct (Req_dec rho 0) as [Hz|Hnz]; [|lra]. rewrite Hz in HY. lra. }
      rewrite Ex, Ey in H. rewrite across_polar' in H. replace (ts + phi - (ts + w)) with (phi - w) in H by ring.
      assert (0 < sin (phi - w)) by (apply sin_gt_0; lra). nra.
Qed.

(* ==== 3. integer normals against true rays ================================================== *)
Definition rad (d : R) : R := d * PI / 180.

(* the integer normal n is, componentwise, within eps of 1024 * (- sin t, cos t): the unit normal (rotate_90 of
   the direction (cos t, sin t)) of the radial line at angle t (radians), scaled by NORMAL_VECTOR_SCALE *)
Definition normal_close (n : point) (t eps : R) : Prop :=
  Rabs (IZR (px n) + 1024 * sin t) <= eps /\ Rabs (IZR (py n) - 1024 * cos t) <= eps.

Definition rx_ (d : point) : R := IZR (px d).
Definition ry_ (d : point) : R := IZR (py d).

Lemma odist_close n t eps d :
  normal_close n t eps ->
  Rabs (IZR (sm_odist n d) - 1024 * across t (rx_ d) (ry_ d)) <= eps * IZR (norm1 d).
Proof.
  intros [H1 H2].
  pose proof (halfplane_error n d (- sin t) (cos t) eps) as H.
  replace (IZR (px n) - 1024 * - sin t) with (IZR (px n) + 1024 * sin t) in H by ring.
  specialize (H H1 H2). unfold rdot in H. unfold across, rx_, ry_. exact H.
Qed.

Lemma raydot_close n t eps d :
  normal_close n t eps ->
  Rabs (IZR (sm_dot d (ray_dir n)) - 1024 * along t (rx_ d) (ry_ d)) <= eps * IZR (norm1 d).
Proof.
  intros [H1 H2].
  pose proof (halfplane_error (ray_dir n) d (cos t) (sin t) eps) as H.
  unfold ray_dir in H. cbn [px py] in H.
  assert (H3 : Rabs (IZR (- px n) - 1024 * sin t) <= eps).
  { rewrite opp_IZR. replace (- IZR (px n) - 1024 * sin t) with (- (IZR (px n) + 1024 * sin t)) by ring.
    rewrite Rabs_Ropp. exact H1. }
  specialize (H H2 H3). unfold rdot in H. unfold along, rx_, ry_. exact H.
Qed.

(* eta: the error of a 1024-scaled integer distance, as a real distance in doubled pixels *)
Definition eta_of (eps : R) (d : point) : R := eps * IZR (norm1 d) / 1024.

Lemma eta_ok eps d D :
  0 <= eps <= 10 -> (0 <= D <= 128)%Z -> (sm_len2 d < D * D)%Z ->
  0 <= eta_of eps d /\ 43 * (eta_of eps d * eta_of eps d) <= 144 /\ eta_of eps d < 3.
Proof.
  intros He HD Hin. pose proof (norm1_bound d D HD Hin) as Hn. apply IZR_le in Hn.
  assert (H0 : 0 <= IZR (norm1 d)) by (apply IZR_le; unfold norm1; lia).
  unfold eta_of. set (N := IZR (norm1 d)) in *.
  assert (H1 : 0 <= eps * N) by nra. assert (H2 : eps * N <= 1810) by nra.
  set (E := eps * N) in *.
  split; [lra|]. split; [|lra].
  assert (E * E <= 1810 * 1810) by nra. lra.
Qed.

Lemma close_lower v a e : Rabs (IZR v - 1024 * a) <= e -> (0 <= v)%Z -> - (e / 1024) <= a.
Proof. intros H Hv. apply Rabs_le_both in H. apply IZR_le in Hv. lra. Qed.
Lemma close_upper v a e : Rabs (IZR v - 1024 * a) <= e -> (v <= 0)%Z -> a <= e / 1024.
Proof. intros H Hv. apply Rabs_le_both in H. apply IZR_le in Hv. lra. Qed.
(* strict integer sides *)
Lemma close_lt_upper v a e : Rabs (IZR v - 1024 * a) <= e -> (v < 0)%Z -> a < e / 1024.
Proof. intros H Hv. apply Rabs_le_both in H. apply IZR_lt in Hv. lra. Qed.
Lemma close_gt_lower v a e : Rabs (IZR v - 1024 * a) <= e -> (0 < v)%Z -> - (e / 1024) < a.
Proof. intros H Hv. apply Rabs_le_both in H. apply IZR_lt in Hv. lra. Qed.

(* ---- Intersection (|sweep| <= 180 deg): accepted points are within 1.5 px of the true cone ------------- *)
Theorem near_cone_inter ps d ts w eps D :
  ps_op ps = OpIntersection -> K18_tiny_sweep_opposite_side ps = false ->
  normal_close (ps_right ps) ts eps -> normal_close (ps_left ps) (ts + w) eps ->
  0 <= w <= PI -> 0 <= eps <= 10 -> (0 <= D <= 128)%Z -> (sm_len2 d < D * D)%Z ->
  ps_contains ps d = true ->
  exists qx qy, in_cone ts (ts + w) qx qy /\ dist2 (rx_ d) (ry_ d) qx qy <= 9.
Proof.
  intros Hop HK Hr Hl Hw He HD Hin Hc.
  destruct (eta_ok eps d D He HD Hin) as (E0 & E1 & _).
  pose proof (sector_in_front_of_a_ray ps d Hop HK Hc) as Hfront.
  unfold ps_contains in Hc. rewrite Hop in Hc. cbn [sm_exec] in Hc.
  apply andb_prop in Hc. destruct Hc as [Hc1 Hc2]. apply Z.leb_le in Hc1, Hc2.
  apply (near_cone_real ts w (rx_ d) (ry_ d) (eta_of eps d)); try assumption.
  - apply (close_lower _ _ _ (odist_close _ _ _ d Hr) Hc2).
  - apply (close_upper _ _ _ (odist_close _ _ _ d Hl) Hc1).
  - destruct Hfront as [Hf|Hf]; [left|right].
    + apply (close_lower _ _ _ (raydot_close _ _ _ d Hr) Hf).
    + apply (close_lower _ _ _ (raydot_close _ _ _ d Hl) Hf).
Qed.

(* a point at most eta < 3 beyond a line has a point of the closed half plane within 3 *)
Lemma near_halfplane_pos t x y eta :
  eta < 3 -> - eta <= across t x y -> exists qx qy, 0 <= across t qx qy /\ dist2 x y qx qy <= 9.
Proof.
  intros He H. destruct (Rle_dec 0 (across t x y)) as [Hm|Hm].
  - exists x, y. split; [assumption|]. unfold dist2. nra.
  - exists (along t x y * cos t), (along t x y * sin t). split.
    + rewrite across_ray. lra.
    + rewrite dist2_to_ray. nra.
Qed.
Lemma near_halfplane_neg t x y eta :
  eta < 3 -> across t x y <= eta -> exists qx qy, across t qx qy <= 0 /\ dist2 x y qx qy <= 9.
Proof.
  intros He H. destruct (Rle_dec (across t x y) 0) as [Hm|Hm].
  - exists x, y. split; [assumption|]. unfold dist2. nra.
  - exists (along t x y * cos t), (along t x y * sin t). split.
    + rewrite across_ray. lra.
    + rewrite dist2_to_ray. nra.
Qed.

(* ---- Union (|sweep| >= 180 deg): accepted points are within 1.5 px of the true reflex sector ----------- *)
Theorem near_sector_union ps d ts te eps D :
  ps_op ps = OpUnion ->
  normal_close (ps_right ps) ts eps -> normal_close (ps_left ps) te eps ->
  0 <= eps <= 10 -> (0 <= D <= 128)%Z -> (sm_len2 d < D * D)%Z ->
  ps_contains ps d = true ->
  exists qx qy, (0 <= across ts qx qy \/ across te qx qy <= 0) /\ dist2 (rx_ d) (ry_ d) qx qy <= 9.
Proof.
  intros Hop Hr Hl He HD Hin Hc.
  destruct (eta_ok eps d D He HD Hin) as (E0 & _ & E3).
  unfold ps_contains in Hc. rewrite Hop in Hc. cbn [sm_exec] in Hc.
  apply orb_prop in Hc. destruct Hc as [Hc|Hc]; apply Z.leb_le in Hc.
  - destruct (near_halfplane_neg te (rx_ d) (ry_ d) (eta_of eps d) E3) as (qx & qy & H1 & H2).
    + apply (close_upper _ _ _ (odist_close _ _ _ d Hl) Hc).
    + exists qx, qy. split; [right; assumption|assumption].
  - destruct (near_halfplane_pos ts (rx_ d) (ry_ d) (eta_of eps d) E3) as (qx & qy & H1 & H2).
    + apply (close_lower _ _ _ (odist_close _ _ _ d Hr) Hc).
    + exists qx, qy. split; [left; assumption|assumption].
Qed.

(* ---- completeness: a rejected point has, within 1.5 px, a point that is not strictly inside the sweep ---- *)
Theorem rejected_inter ps d ts te eps D :
  ps_op ps = OpIntersection ->
  normal_close (ps_right ps) ts eps -> normal_close (ps_left ps) te eps ->
  0 <= eps <= 10 -> (0 <= D <= 128)%Z -> (sm_len2 d < D * D)%Z ->
  ps_contains ps d = false ->
  exists qx qy, ~ (0 < across ts qx qy /\ across te qx qy < 0) /\ dist2 (rx_ d) (ry_ d) qx qy <= 9.
Proof.
  intros Hop Hr Hl He HD Hin Hc.
  destruct (eta_ok eps d D He HD Hin) as (E0 & _ & E3).
  unfold ps_contains in Hc. rewrite Hop in Hc. cbn [sm_exec] in Hc.
  apply andb_false_iff in Hc. destruct Hc as [Hc|Hc]; apply Z.leb_gt in Hc.
  - (* left line: 0 < odist left *)
    destruct (near_halfplane_pos te (rx_ d) (ry_ d) (eta_of eps d) E3) as (qx & qy & H1 & H2).
    + apply Rlt_le. apply (close_gt_lower _ _ _ (odist_close _ _ _ d Hl) Hc).
    + exists qx, qy. split; [lra|assumption].
  - destruct (near_halfplane_neg ts (rx_ d) (ry_ d) (eta_of eps d) E3) as (qx & qy & H1 & H2).
    + apply Rlt_le. apply (close_lt_upper _ _ _ (odist_close _ _ _ d Hr) Hc).
    + exists qx, qy. split; [lra|assumption].
Qed.

Lemma across_2PI t x y : across (t + 2 * PI) x y = across t x y.
Proof. rewrite across_plus, sin_2PI, cos_2PI. ring. Qed.

Lemma normal_close_2PI n t eps : normal_close n t eps -> normal_close n (t + 2 * PI) eps.
Proof. unfold normal_close. rewrite sin_plus, cos_plus, sin_2PI, cos_2PI. rewrite !Rmult_0_r, !Rmult_1_r, Rplus_0_r, Rminus_0_r. tauto. Qed.

(* Union: the rejected points form the integer cone from the left ray counter-clockwise to the right ray;
   it lies within 1.5 px of the true complement cone (te .. ts + 360 deg) *)
Theorem rejected_union ps d ts w eps D :
  ps_op ps = OpUnion -> (0 < sm_det (ps_left ps) (ps_right ps))%Z ->
  normal_close (ps_right ps) ts eps -> normal_close (ps_left ps) (ts + w) eps ->
  PI <= w <= 2 * PI -> 0 <= eps <= 10 -> (0 <= D <= 128)%Z -> (sm_len2 d < D * D)%Z ->
  ps_contains ps d = false ->
  exists qx qy, ~ (0 < across ts qx qy \/ across (ts + w) qx qy < 0) /\ dist2 (rx_ d) (ry_ d) qx qy <= 9.
Proof.
  intros Hop Hdet Hr Hl Hw He HD Hin Hc.
  unfold ps_contains in Hc. rewrite Hop in Hc. cbn [sm_exec] in Hc.
  apply orb_false_iff in Hc. destruct Hc as [Hc1 Hc2]. apply Z.leb_gt in Hc1, Hc2.
  set (ps' := PS (ps_right ps) (ps_left ps) OpIntersection).
  assert (HK : K18_tiny_sweep_opposite_side ps' = false).
  { unfold K18_tiny_sweep_opposite_side, ps'. cbn [ps_op ps_left ps_right]. apply Z.leb_gt. exact Hdet. }
  assert (Hc' : ps_contains ps' d = true).
  { unfold ps_contains, ps'. cbn [ps_op ps_left ps_right sm_exec]. apply andb_true_intro. split; apply Z.leb_le; lia. }
  destruct (near_cone_inter ps' d (ts + w) (2 * PI - w) eps D) as (qx & qy & (H1 & H2 & _) & H3); try assumption; try reflexivity.
  - cbn [ps' ps_left]. replace (ts + w + (2 * PI - w)) with (ts + 2 * PI) by ring. apply normal_close_2PI, Hr.
  - lra.
  - exists qx, qy. split; [|assumption].
    replace (ts + w + (2 * PI - w)) with (ts + 2 * PI) in H2 by ring. rewrite across_2PI in H2. lra.
Qed.

(* ==== 4. degrees, the trig hypothesis, the ideal sector ======================================== *)
(* ---- the hypothesis on the external trigonometry, with Coq's sin / cos ----------------------------------
   start, sweep: the two angles handed to Sector::new / Arc::new, in DEGREES (the value the user wrote).
   ps: what PlaneSector::new(start, sweep) returned (hook verif_hooks::plane_sector_parts).
   This is exactly what `trig_check` in harness/src/suites/c18_sector.rs tests (p_trig_deg / p_trig_pairs /
   p_trig_rand / p_trig_bits), with f64 sin/cos in place of the real functions:
     - |sweep| >= 360                      -> EntirePlane
     - EntirePlane only if |sweep| >= 359.999   (f32 rounding of the comparison with 2 pi)
     - otherwise the right normal belongs to the ray at min(start, start+sweep), the left normal to the ray at
       max(start, start+sweep) = right + |sweep|, both within eps componentwise, and the operation is
       Intersection below 179.999 deg, Union from 180.001 deg on (in between either: f32 rounding of the
       comparison with pi). *)
Definition ray_start (start sweep : R) : R := Rmin start (start + sweep).

Definition trig_hypothesis (ps : plane_sector) (start sweep eps : R) : Prop :=
  (360 <= Rabs sweep -> ps_op ps = OpEntirePlane) /\
  (Rabs sweep < 359999 / 1000 -> ps_op ps <> OpEntirePlane) /\
  (ps_op ps <> OpEntirePlane ->
     normal_close (ps_right ps) (rad (ray_start start sweep)) eps /\
     normal_close (ps_left ps) (rad (ray_start start sweep) + rad (Rabs sweep)) eps /\
     (Rabs sweep < 179999 / 1000 -> ps_op ps = OpIntersection) /\
     (180001 / 1000 <= Rabs sweep -> ps_op ps = OpUnion)).

(* the two radial rays are in proper position (tested by trig_check for resolution <= |sweep| <= 180 - resolution
   and 180 + resolution <= |sweep| <= 360 - resolution; resolution = 0.12 deg in the f32 build, 1.01 deg in the
   fixed_point build).  For Intersection its negation is the class K18_tiny_sweep_opposite_side. *)
Definition rays_proper (ps : plane_sector) : Prop :=
  match ps_op ps with
  | OpIntersection => (0 < sm_det (ps_right ps) (ps_left ps))%Z
  | OpUnion => (0 < sm_det (ps_left ps) (ps_right ps))%Z \/ ps_left ps = ps_right ps
  | OpEntirePlane => True
  end.

(* sweeps at which the f32 comparisons of PlaneSector::new may go either way are outside the theorems *)
Definition sweep_unambiguous (sweep : R) : Prop :=
  (Rabs sweep < 179999 / 1000 \/ 180001 / 1000 <= Rabs sweep) /\
  (Rabs sweep < 359999 / 1000 \/ 360 <= Rabs sweep).

(* ---- the ideal sector of the plane (centre at the origin, doubled pixel units, y down as on the screen) ----
   ts = angle of the first ray, w = |sweep|; for w <= 180 deg the closed convex cone between the rays, for
   180 < w < 360 the closed reflex sector (complement of the open cone from the second ray on to the first),
   for w >= 360 everything.  polar_in_ideal_sector / ideal_sector_is_polar below: it is the set
   { rho (cos t, sin t) : rho >= 0, ts <= t <= ts + w }. *)
Definition ideal_sector (start sweep qx qy : R) : Prop :=
  let ts := rad (ray_start start sweep) in let w := rad (Rabs sweep) in
  (Rabs sweep <= 180 -> in_cone ts (ts + w) qx qy) /\
  (180 < Rabs sweep < 360 -> 0 <= across ts qx qy \/ across (ts + w) qx qy <= 0).

(* strictly inside the sweep: off both radial lines *)
Definition ideal_interior (start sweep qx qy : R) : Prop :=
  let ts := rad (ray_start start sweep) in let w := rad (Rabs sweep) in
  (Rabs sweep <= 180 -> 0 < across ts qx qy /\ across (ts + w) qx qy < 0) /\
  (180 < Rabs sweep < 360 -> 0 < across ts qx qy \/ across (ts + w) qx qy < 0).

Lemma rad_bounds a lo hi : lo <= a <= hi -> lo * PI / 180 <= rad a <= hi * PI / 180.
Proof. intros H. unfold rad. pose proof PI_RGT_0. split; nra. Qed.

Section Top.
  Variables (ps : plane_sector) (d : point) (start sweep eps : R) (D : Z).
  Hypothesis Htrig : trig_hypothesis ps start sweep eps.
  Hypothesis Hunamb : sweep_unambiguous sweep.
  Hypothesis Heps : 0 <= eps <= 10.
  Hypothesis HD : (0 <= D <= 128)%Z.
  Hypothesis Hin : (sm_len2 d < D * D)%Z.

  Lemma op_cases :
    (ps_op ps = OpEntirePlane /\ 360 <= Rabs sweep) \/
    (ps_op ps = OpIntersection /\ Rabs sweep < 179999 / 1000) \/
    (ps_op ps = OpUnion /\ 180001 / 1000 <= Rabs sweep < 359999 / 1000).
  Proof.
    destruct Htrig as (T1 & T2 & T3). destruct Hunamb as [U1 U2].
    destruct (ps_op ps) eqn:E.
    - right; left. split; [reflexivity|]. destruct U1 as [U|U]; [assumption|].
      assert (OpIntersection <> OpEntirePlane) as N by discriminate.
      destruct (T3 N) as (_ & _ & _ & T4). specialize (T4 U). discriminate.
    - right; right. split; [reflexivity|].
      assert (OpUnion <> OpEntirePlane) as N by discriminate.
      destruct (T3 N) as (_ & _ & T4 & _). split.
      + destruct U1 as [U|U]; [|assumption]. specialize (T4 U). discriminate.
      + destruct U2 as [U|U]; [assumption|]. specialize (T1 U). discriminate.
    - left. split; [reflexivity|]. destruct U2 as [U|U]; [|assumption]. exfalso. apply (T2 U). reflexivity.
  Qed.

  (* soundness: an accepted offset is within 1.5 px (3 doubled units) of a point of the ideal sector *)
  Theorem near_ideal_sector :
    rays_proper ps -> ps_contains ps d = true ->
    exists qx qy, ideal_sector start sweep qx qy /\ dist2 (rx_ d) (ry_ d) qx qy <= 9.
  Proof.
    intros Hprop Hc. destruct Htrig as (_ & _ & T3). unfold rays_proper in Hprop.
    destruct op_cases as [[Hop Hs]|[[Hop Hs]|[Hop Hs]]].
    - exists (rx_ d), (ry_ d). split; [|unfold dist2; nra]. unfold ideal_sector. split; intros; lra.
    - rewrite Hop in *. assert (N : OpIntersection <> OpEntirePlane) by discriminate.
      destruct (T3 N) as (Hr & Hl & _ & _).
      pose proof (Rabs_pos sweep) as Hpos.
      pose proof (rad_bounds (Rabs sweep) 0 180 ltac:(lra)) as Hw.
      destruct (near_cone_inter ps d (rad (ray_start start sweep)) (rad (Rabs sweep)) eps D) as (qx & qy & H1 & H2);
        try assumption.
      + unfold K18_tiny_sweep_opposite_side. rewrite Hop. apply Z.leb_gt. exact Hprop.
      + lra.
      + exists qx, qy. split; [|assumption]. unfold ideal_sector. split; intros; [assumption|lra].
    - rewrite Hop in *. assert (N : OpUnion <> OpEntirePlane) by discriminate.
      destruct (T3 N) as (Hr & Hl & _ & _).
      destruct (near_sector_union ps d _ _ eps D Hop Hr Hl Heps HD Hin Hc) as (qx & qy & H1 & H2).
      exists qx, qy. split; [|assumption]. unfold ideal_sector. split; intros; [lra|assumption].
  Qed.

  (* completeness: if every point within 1.5 px of the offset is strictly inside the sweep, it is accepted *)
  Theorem covers_ideal_sector :
    rays_proper ps ->
    (forall qx qy, dist2 (rx_ d) (ry_ d) qx qy <= 9 -> ideal_interior start sweep qx qy) ->
    ps_contains ps d = true.
  Proof.
    intros Hprop Hall. destruct (ps_contains ps d) eqn:Hc; [reflexivity|exfalso].
    destruct Htrig as (_ & _ & T3). unfold rays_proper in Hprop.
    destruct op_cases as [[Hop Hs]|[[Hop Hs]|[Hop Hs]]].
    - unfold ps_contains in Hc. rewrite Hop in Hc. discriminate.
    - rewrite Hop in *. assert (N : OpIntersection <> OpEntirePlane) by discriminate.
      destruct (T3 N) as (Hr & Hl & _ & _).
      destruct (rejected_inter ps d _ _ eps D Hop Hr Hl Heps HD Hin Hc) as (qx & qy & H1 & H2).
      apply H1. destruct (Hall qx qy H2) as [A _]. apply A. lra.
    - rewrite Hop in *. assert (N : OpUnion <> OpEntirePlane) by discriminate.
      destruct (T3 N) as (Hr & Hl & _ & _).
      destruct Hprop as [Hdet|Heq].
      + pose proof (rad_bounds (Rabs sweep) 180 360 ltac:(lra)) as Hw.
        destruct (rejected_union ps d (rad (ray_start start sweep)) (rad (Rabs sweep)) eps D) as (qx & qy & H1 & H2);
          try assumption; [lra|].
        apply H1. destruct (Hall qx qy H2) as [_ A]. apply A. lra.
      + unfold ps_contains in Hc. rewrite Hop, Heq in Hc. cbn [sm_exec] in Hc.
        apply orb_false_iff in Hc. destruct Hc as [Hc1 Hc2]. apply Z.leb_gt in Hc1, Hc2. lia.
  Qed.
End Top.

(* ---- the ideal sector contains every point rho (cos t, sin t) with t inside the sweep ------------------- *)
Lemma across_polar t' t rho : across t' (rho * cos t) (rho * sin t) = rho * sin (t - t').
Proof. unfold across. rewrite sin_minus. ring. Qed.
Lemma along_polar t' t rho : along t' (rho * cos t) (rho * sin t) = rho * cos (t - t').
Proof. unfold along. rewrite cos_minus. ring. Qed.

Lemma sin_nonpos_neg x : - PI <= x <= 0 -> sin x <= 0.
Proof. intros H. replace x with (- (- x)) by ring. rewrite sin_neg. assert (0 <= sin (- x)) by (apply sin_ge_0; lra). lra. Qed.

Theorem polar_in_ideal_sector start sweep rho t :
  0 <= rho -> Rabs sweep < 360 ->
  rad (ray_start start sweep) <= t <= rad (ray_start start sweep) + rad (Rabs sweep) ->
  ideal_sector start sweep (rho * cos t) (rho * sin t).
Proof.
  intros Hrho Hs Ht. unfold ideal_sector. cbv zeta.
  set (ts := rad (ray_start start sweep)) in *. set (w := rad (Rabs sweep)) in *.
  pose proof (Rabs_pos sweep) as Hpos. pose proof PI_RGT_0 as Hpi.
  split.
  - intros H180. pose proof (rad_bounds (Rabs sweep) 0 180 ltac:(lra)) as Hw. fold w in Hw.
    unfold in_cone. rewrite !across_polar, !along_polar.
    split; [|split].
    + apply Rmult_le_pos; [assumption|]. apply sin_ge_0; lra.
    + assert (sin (t - (ts + w)) <= 0) by (apply sin_nonpos_neg; lra). nra.
    + destruct (Rle_dec (t - ts) (PI / 2)) as [Hh|Hh].
      * left. apply Rmult_le_pos; [assumption|]. apply cos_ge_0; lra.
      * right. apply Rmult_le_pos; [assumption|]. apply cos_ge_0; lra.
  - intros H360. pose proof (rad_bounds (Rabs sweep) 180 360 ltac:(lra)) as Hw. fold w in Hw.
    rewrite !across_polar.
    destruct (Rle_dec (t - ts) PI) as [Hh|Hh].
    + left. apply Rmult_le_pos; [assumption|]. apply sin_ge_0; lra.
    + right. assert (sin (t - (ts + w)) <= 0) by (apply sin_nonpos_neg; lra). nra.
Qed.

(* ==== 5. the true sector as a point set, and the sector / arc level statements ================== *)
(* { rho (cos t, sin t) : rho >= 0, t between the two rays } (everything for |sweep| >= 360 deg) *)
Definition true_sector (start sweep qx qy : R) : Prop :=
  360 <= Rabs sweep \/
  exists rho t, 0 <= rho /\
    rad (ray_start start sweep) <= t <= rad (ray_start start sweep) + rad (Rabs sweep) /\
    qx = rho * cos t /\ qy = rho * sin t.

Theorem ideal_sector_is_true_sector start sweep qx qy :
  ideal_sector start sweep qx qy <-> true_sector start sweep qx qy.
Proof.
  pose proof (Rabs_pos sweep) as Hpos. pose proof PI_RGT_0 as Hpi. split.
  - intros [H1 H2]. destruct (Rle_dec 360 (Rabs sweep)) as [H360|H360]; [left; assumption|right].
    destruct (Rle_dec (Rabs sweep) 180) as [H180|H180].
    + pose proof (rad_bounds (Rabs sweep) 0 180 ltac:(lra)) as Hw.
      apply (cone_is_polar _ _ qx qy); [lra|]. apply H1, H180.
    + assert (Hs : 180 < Rabs sweep < 360) by lra.
      assert (Hw : PI < rad (Rabs sweep) < 2 * PI) by (unfold rad; split; nra).
      apply (reflex_is_polar _ _ qx qy Hw). apply H2, Hs.
  - intros [H360|(rho & t & Hr & Ht & -> & ->)].
    + unfold ideal_sector. split; intros; lra.
    + destruct (Rle_dec 360 (Rabs sweep)) as [H|H].
      * unfold ideal_sector. split; intros; lra.
      * apply polar_in_ideal_sector; try assumption; lra.
Qed.

Definition near_true_sector (start sweep : R) (d : point) : Prop :=
  exists qx qy, true_sector start sweep qx qy /\ dist2 (rx_ d) (ry_ d) qx qy <= 9.

Definition disc_strictly_inside (start sweep : R) (d : point) : Prop :=
  forall qx qy, dist2 (rx_ d) (ry_ d) qx qy <= 9 -> ideal_interior start sweep qx qy.

Lemma near_true ps d start sweep eps D :
  trig_hypothesis ps start sweep eps -> sweep_unambiguous sweep -> rays_proper ps ->
  0 <= eps <= 10 -> (0 <= D <= 128)%Z -> (sm_len2 d < D * D)%Z ->
  ps_contains ps d = true -> near_true_sector start sweep d.
Proof.
  intros Ht Hu Hp He HD Hin Hc.
  destruct (near_ideal_sector ps d start sweep eps D Ht Hu He HD Hin Hp Hc) as (qx & qy & H1 & H2).
  exists qx, qy. split; [apply ideal_sector_is_true_sector, H1|exact H2].
Qed.

Section SectorAngle.
  Variables (s : sector) (p : point) (start sweep eps : R).
  Hypothesis Htrig : trig_hypothesis (se_ps s) start sweep eps.
  Hypothesis Hunamb : sweep_unambiguous sweep.
  Hypothesis Hprop : rays_proper (se_ps s).
  Hypothesis Heps : 0 <= eps <= 10.
  Hypothesis Hd : (0 <= se_d s <= 128)%Z.

  Theorem sector_near_cone :
    se_contains s p = true -> near_true_sector start sweep (sm_delta (se_center_2x s) p).
  Proof.
    intros H. rewrite se_contains_unfold in H. apply andb_prop in H. destruct H as [Hc Hp].
    apply (near_true (se_ps s) _ start sweep eps (se_d s)); try assumption.
    apply (circle_point_len2 (se_to_circle s) p); [apply Hd|assumption].
  Qed.

  Theorem sector_covers_cone :
    sc_contains (se_to_circle s) p = true ->
    disc_strictly_inside start sweep (sm_delta (se_center_2x s) p) ->
    se_contains s p = true.
  Proof.
    intros Hc Hall. rewrite se_contains_unfold, Hc. cbn [andb].
    apply (covers_ideal_sector (se_ps s) _ start sweep eps (se_d s)); try assumption.
    apply (circle_point_len2 (se_to_circle s) p); [apply Hd|assumption].
  Qed.
End SectorAngle.

Section ArcAngle.
  Variables (a : arc) (p : point) (start sweep eps : R).
  Hypothesis Htrig : trig_hypothesis (ar_ps a) start sweep eps.
  Hypothesis Hunamb : sweep_unambiguous sweep.
  Hypothesis Hprop : rays_proper (ar_ps a).
  Hypothesis Heps : 0 <= eps <= 10.
  Hypothesis Hd : (0 <= ar_d a <= 128)%Z.

  Theorem arc_near_cone :
    In p (ar_points a) -> near_true_sector start sweep (sm_delta (sc_center_2x (ar_to_circle a)) p).
  Proof.
    intros H. rewrite arc_points_spec in H by apply Hd. apply filter_In in H. destruct H as [_ H].
    apply andb_prop in H. destruct H as [H Hp]. apply andb_prop in H. destruct H as [Hc _].
    apply (near_true (ar_ps a) _ start sweep eps (ar_d a)); try assumption.
    apply (circle_point_len2 (ar_to_circle a) p); [apply Hd|assumption].
  Qed.

  Theorem arc_covers_cone :
    In p (points (ar_bbox a)) ->
    sc_contains (ar_to_circle a) p = true -> sc_contains (sc_offset (ar_to_circle a) (-1)) p = false ->
    disc_strictly_inside start sweep (sm_delta (sc_center_2x (ar_to_circle a)) p) ->
    In p (ar_points a).
  Proof.
    intros Hb Hc Hi Hall. rewrite arc_points_spec by apply Hd. apply filter_In. split; [assumption|].
    rewrite Hc, Hi. cbn [negb andb].
    apply (covers_ideal_sector (ar_ps a) _ start sweep eps (ar_d a)); try assumption.
    apply (circle_point_len2 (ar_to_circle a) p); [apply Hd|assumption].
  Qed.
End ArcAngle.

(* the exact integer form of a >= 180 deg sector: the circle minus the open integer cone behind the two lines *)
Theorem sector_union_exact s p :
  ps_op (se_ps s) = OpUnion ->
  se_contains s p =
  sc_contains (se_to_circle s) p &&
  negb ((0 <? sm_odist (ps_left (se_ps s)) (sm_delta (se_center_2x s) p)) &&
        (sm_odist (ps_right (se_ps s)) (sm_delta (se_center_2x s) p) <? 0)).
Proof.
  intros Hop. rewrite se_contains_unfold. f_equal. unfold ps_contains. rewrite Hop. cbn [sm_exec].
  set (l := sm_odist _ _). set (r := sm_odist _ _).
  destruct (Z.leb_spec l 0), (Z.leb_spec 0 r), (Z.ltb_spec 0 l), (Z.ltb_spec r 0); try reflexivity; lia.
Qed.
