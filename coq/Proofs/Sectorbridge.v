(* Bridge between the sector / arc model (Model/Sectormodel.v, which carries its own copy sc_* of the few Circle
   functions it calls) and the circle family's model Model/Circle.v: the copies are the same functions, hence
   a sector sweeping >= 360 deg IS Circle::points() (the scanline iterator) and such an arc is its inside ring. *)
From EG Require Import Base.Prelude Base.Lemmas Model.Geometry Model.Style Model.Circle Model.Sectormodel
  Proofs.Geometry Proofs.Scanline Proofs.Circle Proofs.Styledrect Proofs.Sectormodel.

Set Default Timeout 60.

Definition circle_of (c : sm_circle) : circle := Circ (sc_tl c) (sc_d c).

Lemma sc_contains_is_circle_contains c p : sc_contains c p = circle_contains (circle_of c) p.
Proof. reflexivity. Qed.

Lemma sc_offset_is_circle_offset c n : circle_of (sc_offset c n) = circle_offset (circle_of c) n.
Proof. reflexivity. Qed.

Lemma sc_bbox_is_circle_bbox c : sc_bbox c = circle_bbox (circle_of c).
Proof. reflexivity. Qed.

Lemma filter_filter {A} (f g : A -> bool) l : filter f (filter g l) = filter (fun x => g x && f x) l.
Proof.
  induction l as [|x l IH]; cbn [filter]; [reflexivity|].
  destruct (g x); cbn [filter andb]; [destruct (f x)|]; rewrite IH; reflexivity.
Qed.

(* filtering Rectangle::points() of the bounding box = filtering the box points, for predicates that hold inside the box only *)
Lemma filter_points_box (f : point -> bool) r :
  rect_ok r -> filter f (points r) = filter f (filter (contains r) (box_points r)).
Proof. intros H. rewrite (rect_points_spec r H). reflexivity. Qed.

Theorem sector_full_eq_circle_points s :
  circle_ok (Circ (se_tl s) (se_d s)) -> ps_op (se_ps s) = OpEntirePlane ->
  se_points s = circle_points (Circ (se_tl s) (se_d s)).
Proof.
  intros Hok Hop. rewrite (sector_entire_plane_eq_circle s Hop).
  rewrite circle_points_spec by assumption.
  assert (Hr : rect_ok (sc_bbox (se_to_circle s))) by (apply (circle_bbox_ok _ Hok)).
  rewrite (filter_points_box _ _ Hr), filter_filter.
  apply filter_ext_in. intros p Hin. apply In_box_points in Hin.
  change (circle_bbox (Circ (se_tl s) (se_d s))) with (sc_bbox (se_to_circle s)) in *.
  rewrite Hin. reflexivity.
Qed.

Theorem arc_full_eq_circle_ring a :
  circle_ok (Circ (ar_tl a) (ar_d a)) -> ps_op (ar_ps a) = OpEntirePlane ->
  ar_points a =
  filter (fun p => negb (circle_contains (circle_offset (Circ (ar_tl a) (ar_d a)) (-1)) p))
         (circle_points (Circ (ar_tl a) (ar_d a))).
Proof.
  intros Hok Hop. destruct Hok as [Hp Hd].
  rewrite (arc_entire_plane_eq_ring a (proj1 Hd) Hop).
  rewrite circle_points_spec by (split; assumption).
  assert (Hr : rect_ok (sc_bbox (ar_to_circle a))) by (apply (circle_bbox_ok (Circ (ar_tl a) (ar_d a))); split; assumption).
  rewrite (filter_points_box _ _ Hr), !filter_filter.
  apply filter_ext_in. intros p Hin. apply In_box_points in Hin.
  change (circle_bbox (Circ (ar_tl a) (ar_d a))) with (sc_bbox (ar_to_circle a)) in *.
  rewrite Hin. reflexivity.
Qed.
