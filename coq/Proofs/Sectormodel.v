(* Lemmas about Model/Sectormodel.v (sector + arc family): integer part.
   The real-number accuracy lemmas are in Proofs/Sectorreal.v. *)
From EG Require Import Base.Prelude Base.Lemmas Model.Geometry Model.Style Model.Sectormodel Proofs.Geometry.
From Coq Require Import ZifyBool Sorting.Sorted.

Ltac Zify.zify_post_hook ::= Z.to_euclidean_division_equations.
Set Default Timeout 60.

(* ---- list algebra --------------------------------------------------------------------- *)
Lemma filter_map_comm {A B} (f : A -> B) (Q : B -> bool) l :
  filter Q (map f l) = map f (filter (fun x => Q (f x)) l).
Proof.
  induction l as [|x l IH]; cbn [map filter]; [reflexivity|].
  destruct (Q (f x)); cbn [map]; rewrite IH; reflexivity.
Qed.

Lemma map_id_ext {A} (f : A -> A) l : (forall x, f x = x) -> map f l = l.
Proof. intros H. induction l as [|x l IH]; cbn [map]; [reflexivity|]. rewrite H, IH. reflexivity. Qed.

Lemma flat_map_map {A B C} (g : A -> B) (f : B -> list C) l :
  flat_map f (map g l) = flat_map (fun x => f (g x)) l.
Proof. induction l as [|x l IH]; cbn [map flat_map]; [reflexivity|]. rewrite IH. reflexivity. Qed.

Lemma map_flat_map_comm {A B C} (h : B -> C) (f : A -> list B) l :
  map h (flat_map f l) = flat_map (fun x => map h (f x)) l.
Proof. induction l as [|x l IH]; cbn [map flat_map]; [reflexivity|]. rewrite map_app, IH. reflexivity. Qed.

Lemma flat_map_ext_all {A B} (f g : A -> list B) l : (forall x, f x = g x) -> flat_map f l = flat_map g l.
Proof. intros H. induction l as [|x l IH]; cbn [flat_map]; [reflexivity|]. rewrite H, IH. reflexivity. Qed.

Lemma filter_ext_all {A} (f g : A -> bool) l : (forall x, f x = g x) -> filter f l = filter g l.
Proof. intros H. apply filter_ext. assumption. Qed.

Lemma filter_sorted {A} (R : A -> A -> Prop) (Q : A -> bool) l :
  StronglySorted R l -> StronglySorted R (filter Q l).
Proof.
  induction 1 as [|a l Hs IH Hall]; cbn [filter]; [constructor|].
  destruct (Q a); [|assumption]. constructor; [assumption|].
  apply Forall_forall. intros x Hx. apply filter_In in Hx. rewrite Forall_forall in Hall. apply Hall, Hx.
Qed.

(* ---- the distance iterator ------------------------------------------------------------- *)
Definition sm_delta (c2x p : point) : point := psub (sm_twice p) c2x.

(* sector/points.rs and arc/points.rs: `find` over (point, delta, distance) = filter over the box points *)
Lemma distances_filter (Q : point -> Z -> bool) c :
  map (fun t => fst (fst t))
      (filter (fun t : point * point * Z => let '(_, delta, distance) := t in Q delta distance) (sc_distances c))
  = filter (fun p => Q (sm_delta (sc_center_2x c) p) (sm_len2 (sm_delta (sc_center_2x c) p))) (points (sc_bbox c)).
Proof.
  unfold sc_distances. rewrite filter_map_comm, map_map. cbn [sm_dist_item fst].
  apply map_id_ext. reflexivity.
Qed.

Lemma len2_sym a b : sm_len2 (psub a b) = sm_len2 (psub b a).
Proof. unfold sm_len2, psub. cbn [px py]. ring. Qed.

Lemma sc_contains_delta c p :
  sc_contains c p = (sm_len2 (sm_delta (sc_center_2x c) p) <? sc_threshold c).
Proof. unfold sc_contains, sm_delta. rewrite len2_sym. reflexivity. Qed.

(* ---- sector: points = shared predicate over the bounding box ---------------------------- *)
(* for ALL normals and operations: circle test && half-plane combination, over the bounding-box points *)
Theorem sector_points_spec s :
  se_points s =
  filter (fun p => sc_contains (se_to_circle s) p && ps_contains (se_ps s) (sm_delta (se_center_2x s) p))
         (points (se_bbox s)).
Proof.
  unfold se_points.
  rewrite (distances_filter (fun delta distance => (distance <? sc_threshold (se_to_circle s)) && ps_contains (se_ps s) delta)).
  apply filter_ext_all. intros p. rewrite sc_contains_delta. reflexivity.
Qed.

Lemma se_contains_unfold s p :
  se_contains s p = sc_contains (se_to_circle s) p && ps_contains (se_ps s) (sm_delta (se_center_2x s) p).
Proof. unfold se_contains, sm_delta. destruct (sc_contains _ _); reflexivity. Qed.

Theorem sector_points_contains s : se_points s = filter (se_contains s) (points (se_bbox s)).
Proof.
  rewrite sector_points_spec. apply filter_ext_all. intros p. rewrite se_contains_unfold. reflexivity.
Qed.

Lemma d2t_le d : 0 <= d -> sm_d2t d <= d * d.
Proof. intros H. unfold sm_d2t. destruct (d <=? 4); lia. Qed.

Lemma sq_lt_bound x d : 0 <= d -> x * x < d * d -> - d < x < d.
Proof. intros. split; nia. Qed.

Theorem circle_contains_in_bbox c p :
  0 <= sc_d c -> sc_contains c p = true -> contains (sc_bbox c) p = true.
Proof.
  intros Hd H. apply contains_spec. destruct c as [[x y] d]. destruct p as [qx qy].
  unfold sc_contains, sc_threshold, sc_center_2x, sm_center_2x, sm_len2, sm_twice, psub, sc_bbox, sat_sub_u32 in *.
  cbn [sc_tl sc_d px py tl sz sw sh] in *.
  apply Z.ltb_lt in H. pose proof (d2t_le d Hd) as Ht.
  set (dx := x * 2 + Z.max (d - 1) 0 - qx * 2) in *.
  set (dy := y * 2 + Z.max (d - 1) 0 - qy * 2) in *.
  assert (dx * dx < d * d) as Hx by nia.
  assert (dy * dy < d * d) as Hy by nia.
  apply sq_lt_bound in Hx, Hy; try assumption.
  subst dx dy. lia.
Qed.

Theorem sector_contains_in_bbox s p :
  0 <= se_d s -> se_contains s p = true -> contains (se_bbox s) p = true.
Proof.
  intros Hd H. rewrite se_contains_unfold in H. apply andb_prop in H. destruct H as [H _].
  apply (circle_contains_in_bbox (se_to_circle s) p Hd H).
Qed.

Theorem sector_points_iff s p :
  rect_ok (se_bbox s) -> (In p (se_points s) <-> se_contains s p = true).
Proof.
  intros Hok. rewrite sector_points_contains, filter_In, points_spec by assumption.
  split; [tauto|]. intros H. split; [|assumption].
  apply sector_contains_in_bbox; [|assumption]. destruct Hok as [_ [[Hw _] _]]. exact Hw.
Qed.

Theorem sector_points_sorted s : rect_ok (se_bbox s) -> StronglySorted lt_yx (se_points s).
Proof. intros H. rewrite sector_points_contains. apply filter_sorted, points_sorted, H. Qed.

Theorem sector_points_nodup s : rect_ok (se_bbox s) -> NoDup (se_points s).
Proof. intros H. apply lt_yx_irrefl_sorted, sector_points_sorted, H. Qed.

(* ---- |sweep| >= 360 deg (operation EntirePlane): the sector is the circle ----------------- *)
Theorem sector_entire_plane_contains s p :
  ps_op (se_ps s) = OpEntirePlane -> se_contains s p = sc_contains (se_to_circle s) p.
Proof.
  intros H. rewrite se_contains_unfold. unfold ps_contains. rewrite H. cbn [sm_exec]. apply andb_true_r.
Qed.

Theorem sector_entire_plane_eq_circle s :
  ps_op (se_ps s) = OpEntirePlane ->
  se_points s = filter (sc_contains (se_to_circle s)) (points (sc_bbox (se_to_circle s))).
Proof.
  intros H. rewrite sector_points_contains. apply filter_ext_all. intros p.
  apply sector_entire_plane_contains, H.
Qed.

(* ---- arc ----------------------------------------------------------------------------------- *)
Lemma sc_offset_m1 c : sc_offset c (-1) = sc_with_center (sc_center c) (Z.max (sc_d c - 2) 0).
Proof. reflexivity. Qed.

Lemma offset_m1_small c : 0 <= sc_d c <= 2 -> sc_threshold (sc_offset c (-1)) = 0.
Proof.
  intros H. rewrite sc_offset_m1. unfold sc_threshold, sc_with_center. cbn [sc_d].
  replace (Z.max (sc_d c - 2) 0) with 0 by lia. reflexivity.
Qed.

Lemma offset_m1_center c : 3 <= sc_d c -> sc_center_2x (sc_offset c (-1)) = sc_center_2x c.
Proof.
  intros H. rewrite sc_offset_m1. destruct c as [[x y] d]. cbn [sc_d] in H.
  unfold sc_center, sc_bbox, sc_with_center, sc_center_2x, sm_center_2x. cbn [sc_tl sc_d].
  unf. f_equal; lia.
Qed.

(* the inner test of arc/points.rs `distance >= inner_threshold` is "not in the circle shrunk by 1" *)
Lemma arc_inner_test c p :
  0 <= sc_d c ->
  (sc_threshold (sc_offset c (-1)) <=? sm_len2 (sm_delta (sc_center_2x c) p)) = negb (sc_contains (sc_offset c (-1)) p).
Proof.
  intros Hd. rewrite sc_contains_delta.
  destruct (Z_le_gt_dec (sc_d c) 2) as [Hs|Hs].
  - rewrite offset_m1_small by lia.
    assert (0 <= sm_len2 (sm_delta (sc_center_2x c) p)) by (unfold sm_len2; nia).
    assert (0 <= sm_len2 (sm_delta (sc_center_2x (sc_offset c (-1))) p)) by (unfold sm_len2; nia).
    lia.
  - rewrite offset_m1_center by lia. lia.
Qed.

(* for ALL normals and operations: on the circle's one-pixel inside ring && half-plane combination *)
Theorem arc_points_spec a :
  0 <= ar_d a ->
  ar_points a =
  filter (fun p => sc_contains (ar_to_circle a) p && negb (sc_contains (sc_offset (ar_to_circle a) (-1)) p)
                   && ps_contains (ar_ps a) (sm_delta (sc_center_2x (ar_to_circle a)) p))
         (points (ar_bbox a)).
Proof.
  intros Hd. unfold ar_points, ar_keep.
  rewrite (distances_filter (fun delta distance =>
             (distance <? sc_threshold (ar_to_circle a)) && (sc_threshold (sc_offset (ar_to_circle a) (-1)) <=? distance)
             && ps_contains (ar_ps a) delta)).
  apply filter_ext_all. intros p. rewrite arc_inner_test by exact Hd. rewrite (sc_contains_delta (ar_to_circle a) p). reflexivity.
Qed.

Theorem arc_entire_plane_eq_ring a :
  0 <= ar_d a -> ps_op (ar_ps a) = OpEntirePlane ->
  ar_points a =
  filter (fun p => sc_contains (ar_to_circle a) p && negb (sc_contains (sc_offset (ar_to_circle a) (-1)) p))
         (points (sc_bbox (ar_to_circle a))).
Proof.
  intros Hd H. rewrite arc_points_spec by exact Hd. apply filter_ext_all. intros p.
  unfold ps_contains. rewrite H. cbn [sm_exec]. apply andb_true_r.
Qed.

Theorem arc_points_in_bbox a p :
  rect_ok (ar_bbox a) -> In p (ar_points a) -> contains (ar_bbox a) p = true.
Proof.
  intros Hok H. pose proof Hok as [_ [[Hw _] _]]. rewrite arc_points_spec in H by exact Hw.
  apply filter_In in H. destruct H as [H _]. apply points_spec in H; assumption.
Qed.

Theorem arc_points_sorted a : rect_ok (ar_bbox a) -> StronglySorted lt_yx (ar_points a).
Proof.
  intros Hok. pose proof Hok as [_ [[Hw _] _]]. rewrite arc_points_spec by exact Hw.
  apply filter_sorted, points_sorted, Hok.
Qed.

(* ---- "inside the swept angle" as RAYS, and the recorded finding tiny_sweep_opposite_side ---------------
   The direction of a radial ray is its normal turned back by 90 degrees: n = rotate_90 (c) = (-cy, cx).
   For an Intersection sector (|sweep| < 180 deg) whose two rays are in proper position (det > 0: the left
   ray is strictly counter-clockwise of the right ray, by less than 180 deg) every accepted point is in front
   of at least one of the two rays.  When the sweep is below the resolution of the 1024-scaled normals
   (both normals equal: det = 0) the intersection degenerates to the whole line through the centre and points
   on the far side of the centre are accepted: finding `tiny_sweep_opposite_side` (known_findings.txt). *)
Definition ray_dir (n : point) : point := P (py n) (- px n).
Definition sm_det (a b : point) : Z := px a * py b - py a * px b.

(* the class of inputs of the recorded finding, as a predicate on the plane sector *)
Definition K18_tiny_sweep_opposite_side (ps : plane_sector) : bool :=
  match ps_op ps with
  | OpIntersection => sm_det (ps_right ps) (ps_left ps) <=? 0
  | _ => false
  end.

Lemma cone_front (a b c d x y : Z) :
  0 < a * d - b * c -> 0 <= a * y - b * x -> 0 <= x * d - y * c ->
  0 <= a * x + b * y \/ 0 <= c * x + d * y.
Proof.
  intros HD HB HA.
  destruct (Z_le_gt_dec 0 (a * x + b * y)) as [|H1]; [left; assumption|].
  destruct (Z_le_gt_dec 0 (c * x + d * y)) as [|H2]; [right; assumption|].
  exfalso.
  set (D := a * d - b * c) in *. set (A := x * d - y * c) in *. set (B := a * y - b * x) in *.
  set (R2 := a * a + b * b). set (L2 := c * c + d * d). set (S := a * c + b * d).
  assert (E1 : D * (a * x + b * y) = A * R2 + B * S) by (subst D A B R2 S; ring).
  assert (E2 : D * (c * x + d * y) = A * S + B * L2) by (subst D A B L2 S; ring).
  assert (E3 : R2 * L2 - S * S = D * D) by (subst D R2 L2 S; ring).
  assert (HR : 0 <= R2) by (subst R2; nia). assert (HL : 0 <= L2) by (subst L2; nia).
  clearbody D A B R2 L2 S.
  assert (F1 : A * R2 + B * S < 0) by (rewrite <- E1; apply Z.mul_pos_neg; lia).
  assert (F2 : A * S + B * L2 < 0) by (rewrite <- E2; apply Z.mul_pos_neg; lia).
  assert (G1 : 0 <= A * R2) by (apply Z.mul_nonneg_nonneg; lia).
  assert (G2 : 0 <= B * L2) by (apply Z.mul_nonneg_nonneg; lia).
  assert (F3 : (A * R2) * (B * L2) < (- (B * S)) * (- (A * S))).
  { apply Z.mul_lt_mono_nonneg; lia. }
  assert (F4 : A * B * (D * D) < 0).
  { rewrite <- E3. replace (A * B * (R2 * L2 - S * S)) with ((A * R2) * (B * L2) - (- (B * S)) * (- (A * S))) by ring. lia. }
  assert (0 <= A * B) by (apply Z.mul_nonneg_nonneg; lia).
  assert (0 < D * D) by (apply Z.mul_pos_pos; lia).
  assert (0 <= A * B * (D * D)) by (apply Z.mul_nonneg_nonneg; lia).
  lia.
Qed.

Theorem sector_in_front_of_a_ray ps dl :
  ps_op ps = OpIntersection -> K18_tiny_sweep_opposite_side ps = false ->
  ps_contains ps dl = true ->
  0 <= sm_dot dl (ray_dir (ps_right ps)) \/ 0 <= sm_dot dl (ray_dir (ps_left ps)).
Proof.
  unfold K18_tiny_sweep_opposite_side, ps_contains, sm_odist. intros Hop HK H. rewrite Hop in *. cbn [sm_exec] in H.
  apply andb_prop in H. destruct H as [H1 H2]. apply Z.leb_le in H1, H2. apply Z.leb_gt in HK.
  destruct ps as [[lx ly] [rx ry] o]. destruct dl as [x y].
  unfold sm_dot, sm_det, ray_dir in *. cbn [ps_left ps_right px py] in *.
  pose proof (cone_front ry (- rx) ly (- lx) x y) as C.
  destruct C as [C|C]; [lia|lia|lia|left; lia|right; lia].
Qed.

(* the finding itself, machine-checked: start 0 deg, sweep 0 deg (normals exactly as the hook reports them),
   doubled offset (-10, 0) = the point (0,5) of Sector (0,0) d=11: accepted although it is behind both rays *)
Theorem sector_in_front_of_a_ray_refuted :
  exists ps dl, ps_op ps = OpIntersection /\ K18_tiny_sweep_opposite_side ps = true /\
    ps_contains ps dl = true /\
    ~ (0 <= sm_dot dl (ray_dir (ps_right ps)) \/ 0 <= sm_dot dl (ray_dir (ps_left ps))).
Proof.
  exists (PS (P 0 1024) (P 0 1024) OpIntersection), (P (-10) 0).
  repeat split; try reflexivity. vm_compute. intros [H|H]; apply H; reflexivity.
Qed.

(* the same for Sector::contains (hence, by sector_points_iff, for every point of points()) *)
Definition in_front_of_a_ray (s : sector) (p : point) : Prop :=
  0 <= sm_dot (sm_delta (se_center_2x s) p) (ray_dir (ps_right (se_ps s))) \/
  0 <= sm_dot (sm_delta (se_center_2x s) p) (ray_dir (ps_left (se_ps s))).

Theorem sector_front s p :
  ps_op (se_ps s) = OpIntersection -> K18_tiny_sweep_opposite_side (se_ps s) = false ->
  se_contains s p = true -> in_front_of_a_ray s p.
Proof.
  intros Hop HK H. rewrite se_contains_unfold in H. apply andb_prop in H. destruct H as [_ H].
  apply sector_in_front_of_a_ray; assumption.
Qed.

(* Sector::new(Point::zero(), 11, 0.0.deg(), 0.0.deg()) contains (0,5), five pixels behind the centre *)
Theorem sector_front_refuted :
  exists s p, ps_op (se_ps s) = OpIntersection /\ K18_tiny_sweep_opposite_side (se_ps s) = true /\
    In p (se_points s) /\ ~ in_front_of_a_ray s p.
Proof.
  exists (Sec (P 0 0) 11 (PS (P 0 1024) (P 0 1024) OpIntersection)), (P 0 5).
  repeat split; try reflexivity.
  - vm_compute. left. reflexivity.
  - unfold in_front_of_a_ray. vm_compute. intros [H|H]; apply H; reflexivity.
Qed.

(* ---- machine arithmetic of the circle test: range in which the unbounded model IS the code --------------
   `length_squared` is i32 (geometry/mod.rs:50-52: x.pow(2) + y.pow(2)), then `as u32` (circle/mod.rs:135,
   distance_iterator.rs:51).  In a release build the squares wrap: Circle::new((0,0),11).contains((32773,5)) and
   Sector (0,0) d=11 sweep 360 deg .contains((32773,5)) are TRUE (delta.x = -65536, 65536^2 = 2^32 wraps to 0);
   a build with overflow checks panics instead.  probe_ok is the range of probe points for which no wrap occurs;
   every theorem about `se_contains` / `sc_contains` speaks about the code for such probes only.  All points of
   points() and of the styled iterators satisfy it (they lie in a bounding box of extent < 32768). *)
Definition wrap_i32 (z : Z) : Z := (z + 2147483648) mod 4294967296 - 2147483648.
Definition as_u32 (z : Z) : Z := z mod 4294967296.

(* circle/mod.rs:132-139 with wrapping i32 operations *)
Definition sc_contains_i32 (c : sm_circle) (p : point) : bool :=
  let dx := wrap_i32 (px (sc_center_2x c) - wrap_i32 (px p * 2)) in
  let dy := wrap_i32 (py (sc_center_2x c) - wrap_i32 (py p * 2)) in
  as_u32 (wrap_i32 (wrap_i32 (dx * dx) + wrap_i32 (dy * dy))) <? sc_threshold c.

Definition probe_ok (c : sm_circle) (p : point) : Prop :=
  Z.abs (px p * 2 - px (sc_center_2x c)) <= 32767 /\ Z.abs (py p * 2 - py (sc_center_2x c)) <= 32767.

Lemma wrap_i32_small z : -2147483648 <= z < 2147483648 -> wrap_i32 z = z.
Proof. intros H. unfold wrap_i32. rewrite Z.mod_small by lia. lia. Qed.

Lemma sq_le_bound x b : 0 <= b -> Z.abs x <= b -> 0 <= x * x <= b * b.
Proof. intros Hb H. split; nia. Qed.

Theorem sc_contains_i32_eq c p :
  rect_ok (sc_bbox c) -> probe_ok c p -> sc_contains_i32 c p = sc_contains c p.
Proof.
  intros Hok [Hx Hy]. destruct c as [[x y] d]. destruct p as [qx qy].
  destruct Hok as [[Hpx Hpy] [[Hd0 Hd1] _]].
  unfold sc_contains_i32, sc_contains, sc_center_2x, sm_center_2x, sm_len2, sm_twice, psub, sat_sub_u32, bound, sc_bbox in *.
  cbn [sc_tl sc_d px py tl sz sw sh] in *.
  set (cx := x * 2 + Z.max (d - 1) 0) in *. set (cy := y * 2 + Z.max (d - 1) 0) in *.
  assert (Bx : -1073741824 <= cx <= 1610612736) by (subst cx; lia).
  assert (By : -1073741824 <= cy <= 1610612736) by (subst cy; lia).
  rewrite (wrap_i32_small (qx * 2)) by lia. rewrite (wrap_i32_small (qy * 2)) by lia.
  rewrite (wrap_i32_small (cx - qx * 2)) by lia. rewrite (wrap_i32_small (cy - qy * 2)) by lia.
  pose proof (sq_le_bound (cx - qx * 2) 32767 ltac:(lia) ltac:(lia)) as Sx.
  pose proof (sq_le_bound (cy - qy * 2) 32767 ltac:(lia) ltac:(lia)) as Sy.
  set (X := (cx - qx * 2) * (cx - qx * 2)) in *. set (Y := (cy - qy * 2) * (cy - qy * 2)) in *.
  rewrite (wrap_i32_small X) by lia. rewrite (wrap_i32_small Y) by lia.
  rewrite (wrap_i32_small (X + Y)) by lia. unfold as_u32. rewrite Z.mod_small by lia. reflexivity.
Qed.

(* outside the range the machine test really differs (release build), and contains-in-bbox fails for the code *)
Theorem sc_contains_far_probe_wraps :
  exists c p, rect_ok (sc_bbox c) /\ ~ probe_ok c p /\
    sc_contains_i32 c p = true /\ sc_contains c p = false /\ contains (sc_bbox c) p = false.
Proof.
  exists (SC (P 0 0) 11), (P 32773 5).
  split; [unfold rect_ok, point_ok, size_ok, bound; cbn; lia|].
  split; [intros [H _]; vm_compute in H; apply H; reflexivity|].
  split; [vm_compute; reflexivity|]. split; vm_compute; reflexivity.
Qed.

(* Sector::contains as the release build computes it *)
Definition se_contains_i32 (s : sector) (p : point) : bool :=
  if sc_contains_i32 (se_to_circle s) p
  then ps_contains (se_ps s) (psub (sm_twice p) (se_center_2x s))
  else false.

Theorem se_contains_i32_eq s p :
  rect_ok (se_bbox s) -> probe_ok (se_to_circle s) p -> se_contains_i32 s p = se_contains s p.
Proof. intros Hok Hp. unfold se_contains_i32, se_contains. rewrite sc_contains_i32_eq by assumption. reflexivity. Qed.

Theorem sector_contains_in_bbox_machine s p :
  rect_ok (se_bbox s) -> probe_ok (se_to_circle s) p ->
  se_contains_i32 s p = true -> contains (se_bbox s) p = true.
Proof.
  intros Hok Hp H. rewrite se_contains_i32_eq in H by assumption.
  apply sector_contains_in_bbox; [|assumption]. destruct Hok as [_ [[Hw _] _]]. exact Hw.
Qed.

(* every point of the bounding box is inside the probe range when the diameter is below 32768 *)
Lemma bbox_points_probe_ok c p :
  0 <= sc_d c <= 32767 -> contains (sc_bbox c) p = true -> probe_ok c p.
Proof.
  intros Hd H. apply contains_spec in H. destruct c as [[x y] d]. destruct p as [qx qy].
  unfold probe_ok, sc_center_2x, sm_center_2x, sc_bbox, sat_sub_u32 in *. cbn [sc_tl sc_d px py tl sz sw sh] in *. lia.
Qed.

(* exactly opposite rounded normals (sweeps just below 180 deg): the Intersection is exactly one closed half plane -
   the class predicate K18 is true there (det = 0) although nothing is wrong *)
Theorem sector_opposite_normals_half_plane ps dl :
  ps_op ps = OpIntersection -> ps_left ps = pneg (ps_right ps) ->
  ps_contains ps dl = (0 <=? sm_odist (ps_right ps) dl).
Proof.
  intros Hop Hl. unfold ps_contains. rewrite Hop, Hl. cbn [sm_exec].
  unfold sm_odist, sm_dot, pneg. cbn [px py]. lia.
Qed.

(* ---- constructors: with_center / center / from_circle / to_circle ----------------------------------------
   Rounding rule: the centre of a shape of diameter d is top_left + (d - 1) / 2 (floor) per axis: for an even
   diameter the true centre lies between four pixels and the upper-left of them is reported; with_center inverts
   exactly that, so with_center(center()) is the identity for odd AND even diameters. *)
Theorem sector_with_center_center s :
  rect_ok (se_bbox s) -> se_with_center (se_center s) (se_d s) (se_ps s) = s.
Proof.
  intros H. unfold se_with_center, se_center.
  change (S (se_d s) (se_d s)) with (sz (se_bbox s)). rewrite (with_center_center _ H).
  destruct s; reflexivity.
Qed.

Theorem sector_center_with_center c d ps :
  0 <= d <= bound -> se_center (se_with_center c d ps) = c.
Proof.
  intros H. unfold se_center, se_with_center, se_bbox. cbn [se_tl se_d].
  change (R (tl (with_center c (S d d))) (S d d)) with (with_center c (S d d)).
  apply center_with_center. split; exact H.
Qed.

Theorem sector_center_formula s :
  0 <= se_d s -> se_center s = P (px (se_tl s) + (Z.max (se_d s - 1) 0) / 2) (py (se_tl s) + (Z.max (se_d s - 1) 0) / 2).
Proof. intros H. unfold se_center, se_bbox. unf. reflexivity. Qed.

Theorem sector_from_circle_to_circle s : se_from_circle (se_to_circle s) (se_ps s) = s.
Proof. destruct s; reflexivity. Qed.

Theorem arc_with_center_center a :
  rect_ok (ar_bbox a) -> ar_with_center (ar_center a) (ar_d a) (ar_ps a) = a.
Proof.
  intros H. unfold ar_with_center, ar_from_circle, sc_with_center, ar_center. cbn [sc_tl sc_d].
  change (S (ar_d a) (ar_d a)) with (sz (ar_bbox a)). rewrite (with_center_center _ H).
  destruct a; reflexivity.
Qed.

Theorem arc_center_with_center c d ps :
  0 <= d <= bound -> ar_center (ar_with_center c d ps) = c.
Proof.
  intros H. unfold ar_center, ar_with_center, ar_from_circle, sc_with_center, ar_bbox. cbn [ar_tl ar_d sc_tl sc_d].
  change (R (tl (with_center c (S d d))) (S d d)) with (with_center c (S d d)).
  apply center_with_center. split; exact H.
Qed.

Theorem arc_from_circle_to_circle a : ar_from_circle (ar_to_circle a) (ar_ps a) = a.
Proof. destruct a; reflexivity. Qed.
