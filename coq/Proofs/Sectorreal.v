(* Accuracy of the half-plane construction of common/plane_sector.rs over the real numbers.

   The two integer normal vectors n = (nx, ny) come from an external call (sin/cos in f32 or from the
   I16F16 table, scaled by 1024 and truncated).  HYPOTHESIS (validated by the p_trig_* suites through the
   hook, not proved):   |nx - 1024*ux| <= eps  and  |ny - 1024*uy| <= eps,
   where u = (ux, uy) = (-sin t, cos t) is the true unit normal of the radial line at angle t.
   For a point with doubled offset delta = 2p - center_2x, u.delta is twice its true signed distance (in
   pixels) from the radial line; "3" below therefore means 1.5 px.

   Uses the standard library's axiomatisation of R (ClassicalDedekindReals.sig_forall_dec, sig_not_dec,
   FunctionalExtensionality.functional_extensionality_dep). *)
From EG Require Import Base.Prelude Model.Geometry Model.Sectormodel Proofs.Sectormodel.
From Coq Require Import Reals Lra Lia.

Set Default Timeout 60.
Local Open Scope R_scope.

Lemma Rabs_le_both x e : Rabs x <= e -> - e <= x <= e.
Proof. unfold Rabs. destruct (Rcase_abs x); lra. Qed.

Lemma Rabs_mul_le a b e : Rabs a <= e -> Rabs (a * b) <= e * Rabs b.
Proof.
  intros H. rewrite Rabs_mult. apply Rmult_le_compat_r; [apply Rabs_pos|assumption].
Qed.

(* real dot product of a real vector with an integer point *)
Definition rdot (ux uy : R) (d : point) : R := ux * IZR (px d) + uy * IZR (py d).
(* |d|_1 *)
Definition norm1 (d : point) : Z := (Z.abs (px d) + Z.abs (py d))%Z.

(* the integer distance n.d differs from 1024 * (u.d) by at most eps * |d|_1 *)
Theorem halfplane_error (n d : point) (ux uy eps : R) :
  Rabs (IZR (px n) - 1024 * ux) <= eps ->
  Rabs (IZR (py n) - 1024 * uy) <= eps ->
  Rabs (IZR (sm_odist n d) - 1024 * rdot ux uy d) <= eps * IZR (norm1 d).
Proof.
  intros Hx Hy. unfold sm_odist, sm_dot, rdot, norm1.
  rewrite !plus_IZR, !mult_IZR, !abs_IZR.
  replace (IZR (px d) * IZR (px n) + IZR (py d) * IZR (py n) - 1024 * (ux * IZR (px d) + uy * IZR (py d)))
    with ((IZR (px n) - 1024 * ux) * IZR (px d) + (IZR (py n) - 1024 * uy) * IZR (py d)) by ring.
  eapply Rle_trans; [apply Rabs_triang|].
  rewrite Rmult_plus_distr_l. apply Rplus_le_compat; apply Rabs_mul_le; assumption.
Qed.

(* inside a circle of diameter <= 128 (doubled offsets: |d|_2 < D) the 1-norm is at most 181 *)
Lemma norm1_bound d D : (0 <= D <= 128)%Z -> (sm_len2 d < D * D)%Z -> (norm1 d <= 181)%Z.
Proof.
  unfold sm_len2, norm1. intros HD H. destruct d as [x y]. cbn [px py] in *.
  assert (D * D <= 16384)%Z by nia.
  pose proof (Z.abs_square x) as Hx. pose proof (Z.abs_square y) as Hy.
  pose proof (Z.square_nonneg (Z.abs x - Z.abs y)) as Hs.
  pose proof (Z.abs_nonneg x). pose proof (Z.abs_nonneg y).
  set (a := Z.abs x) in *. set (b := Z.abs y) in *.
  assert ((a + b) * (a + b) <= 2 * (x * x + y * y))%Z by nia.
  nia.
Qed.

(* eps <= 16 and diameter <= 128: the error of the integer distance stays below 3 * 1024 (= 1.5 px) *)
Lemma error_lt_3 d D eps :
  (0 <= D <= 128)%Z -> (sm_len2 d < D * D)%Z -> 0 <= eps <= 16 -> eps * IZR (norm1 d) < 3072.
Proof.
  intros HD H He. pose proof (norm1_bound d D HD H) as Hn. apply IZR_le in Hn.
  assert (0 <= IZR (norm1 d)).
  { apply IZR_le. unfold norm1. lia. }
  nra.
Qed.

Section Classify.
  Variables (n d : point) (ux uy eps : R) (D : Z).
  Hypothesis Hnx : Rabs (IZR (px n) - 1024 * ux) <= eps.
  Hypothesis Hny : Rabs (IZR (py n) - 1024 * uy) <= eps.
  Hypothesis Heps : 0 <= eps <= 16.
  Hypothesis HD : (0 <= D <= 128)%Z.
  Hypothesis Hin : (sm_len2 d < D * D)%Z.

  Let Herr : - 3072 < IZR (sm_odist n d) - 1024 * rdot ux uy d < 3072.
  Proof.
    pose proof (halfplane_error n d ux uy eps Hnx Hny) as H. apply Rabs_le_both in H.
    pose proof (error_lt_3 d D eps HD Hin Heps). lra.
  Qed.

  (* a point at least 1.5 px on the positive side of the true line is classified positive, ... *)
  Lemma classify_pos : 3 <= rdot ux uy d -> (0 < sm_odist n d)%Z.
  Proof. intros H. apply lt_IZR. lra. Qed.
  Lemma classify_neg : rdot ux uy d <= - 3 -> (sm_odist n d < 0)%Z.
  Proof. intros H. apply lt_IZR. lra. Qed.
  (* ... and a point classified non-negative is less than 1.5 px on the negative side *)
  Lemma classified_nonneg : (0 <= sm_odist n d)%Z -> - 3 < rdot ux uy d.
  Proof. intros H. apply IZR_le in H. lra. Qed.
  Lemma classified_nonpos : (sm_odist n d <= 0)%Z -> rdot ux uy d < 3.
  Proof. intros H. apply IZR_le in H. lra. Qed.
End Classify.

(* what "inside the sweep" means for the three operations, with slack k (in doubled pixels):
   right line: u_r . d >= k ; left line: u_l . d <= - k *)
Definition sweep_pred (o : sm_op) (first second : Prop) : Prop :=
  match o with
  | OpIntersection => first /\ second
  | OpUnion => first \/ second
  | OpEntirePlane => True
  end.

Section Sweep.
  Variables (ps : plane_sector) (d : point) (lx ly rx ry eps : R) (D : Z).
  Hypothesis Hlx : Rabs (IZR (px (ps_left ps)) - 1024 * lx) <= eps.
  Hypothesis Hly : Rabs (IZR (py (ps_left ps)) - 1024 * ly) <= eps.
  Hypothesis Hrx : Rabs (IZR (px (ps_right ps)) - 1024 * rx) <= eps.
  Hypothesis Hry : Rabs (IZR (py (ps_right ps)) - 1024 * ry) <= eps.
  Hypothesis Heps : 0 <= eps <= 16.
  Hypothesis HD : (0 <= D <= 128)%Z.
  Hypothesis Hin : (sm_len2 d < D * D)%Z.

  (* accepted points are inside the sweep up to 1.5 px at each radial line *)
  Lemma plane_sector_sound :
    ps_contains ps d = true ->
    sweep_pred (ps_op ps) (rdot lx ly d < 3) (- 3 < rdot rx ry d).
  Proof.
    unfold ps_contains. intros H.
    pose proof (classified_nonpos (ps_left ps) d lx ly eps D Hlx Hly Heps HD Hin) as HL.
    pose proof (classified_nonneg (ps_right ps) d rx ry eps D Hrx Hry Heps HD Hin) as HR.
    destruct (ps_op ps); cbn [sm_exec sweep_pred] in *; [| |exact I].
    - apply andb_prop in H. destruct H as [H1 H2]. apply Z.leb_le in H1, H2. split; auto.
    - apply orb_prop in H. destruct H as [H|H]; apply Z.leb_le in H; [left|right]; auto.
  Qed.

  (* points more than 1.5 px inside the sweep are accepted *)
  Lemma plane_sector_complete :
    sweep_pred (ps_op ps) (rdot lx ly d <= - 3) (3 <= rdot rx ry d) ->
    ps_contains ps d = true.
  Proof.
    unfold ps_contains. intros H.
    pose proof (classify_neg (ps_left ps) d lx ly eps D Hlx Hly Heps HD Hin) as HL.
    pose proof (classify_pos (ps_right ps) d rx ry eps D Hrx Hry Heps HD Hin) as HR.
    destruct (ps_op ps); cbn [sm_exec sweep_pred] in *; [| |reflexivity].
    - destruct H as [H1 H2]. apply andb_true_intro. split; apply Z.leb_le.
      + apply HL in H1. lia.
      + apply HR in H2. lia.
    - apply orb_true_intro. destruct H as [H|H]; [left|right]; apply Z.leb_le.
      + apply HL in H. lia.
      + apply HR in H. lia.
  Qed.
End Sweep.

(* the doubled offset of a circle point is inside the radius-D disc *)
Lemma circle_point_len2 c p :
  (0 <= sc_d c)%Z -> sc_contains c p = true ->
  (sm_len2 (sm_delta (sc_center_2x c) p) < sc_d c * sc_d c)%Z.
Proof.
  intros Hd H. rewrite sc_contains_delta in H. apply Z.ltb_lt in H.
  pose proof (d2t_le (sc_d c) Hd). unfold sc_threshold in H. lia.
Qed.

Section Sector.
  Variables (s : sector) (p : point) (lx ly rx ry eps : R).
  Let ps := se_ps s.
  Let d := sm_delta (se_center_2x s) p.
  Hypothesis Hlx : Rabs (IZR (px (ps_left ps)) - 1024 * lx) <= eps.
  Hypothesis Hly : Rabs (IZR (py (ps_left ps)) - 1024 * ly) <= eps.
  Hypothesis Hrx : Rabs (IZR (px (ps_right ps)) - 1024 * rx) <= eps.
  Hypothesis Hry : Rabs (IZR (py (ps_right ps)) - 1024 * ry) <= eps.
  Hypothesis Heps : 0 <= eps <= 16.
  Hypothesis Hd : (0 <= se_d s <= 128)%Z.

  Theorem sector_within_sweep :
    se_contains s p = true ->
    sc_contains (se_to_circle s) p = true /\
    sweep_pred (ps_op ps) (rdot lx ly d < 3) (- 3 < rdot rx ry d).
  Proof.
    intros H. rewrite se_contains_unfold in H. apply andb_prop in H. destruct H as [Hc Hp].
    split; [assumption|].
    apply (plane_sector_sound ps d lx ly rx ry eps (se_d s)); try assumption.
    apply (circle_point_len2 (se_to_circle s) p); [apply Hd|assumption].
  Qed.

  Theorem sector_covers_sweep :
    sc_contains (se_to_circle s) p = true ->
    sweep_pred (ps_op ps) (rdot lx ly d <= - 3) (3 <= rdot rx ry d) ->
    se_contains s p = true.
  Proof.
    intros Hc H. rewrite se_contains_unfold. apply andb_true_intro. split; [assumption|].
    apply (plane_sector_complete ps d lx ly rx ry eps (se_d s)); try assumption.
    apply (circle_point_len2 (se_to_circle s) p); [apply Hd|assumption].
  Qed.
End Sector.

Section ArcR.
  Variables (a : arc) (p : point) (lx ly rx ry eps : R).
  Let ps := ar_ps a.
  Let c := ar_to_circle a.
  Let d := sm_delta (sc_center_2x c) p.
  Hypothesis Hlx : Rabs (IZR (px (ps_left ps)) - 1024 * lx) <= eps.
  Hypothesis Hly : Rabs (IZR (py (ps_left ps)) - 1024 * ly) <= eps.
  Hypothesis Hrx : Rabs (IZR (px (ps_right ps)) - 1024 * rx) <= eps.
  Hypothesis Hry : Rabs (IZR (py (ps_right ps)) - 1024 * ry) <= eps.
  Hypothesis Heps : 0 <= eps <= 16.
  Hypothesis Hd : (0 <= ar_d a <= 128)%Z.

  Theorem arc_within_sweep :
    In p (ar_points a) ->
    sc_contains c p = true /\ sc_contains (sc_offset c (-1)) p = false /\
    sweep_pred (ps_op ps) (rdot lx ly d < 3) (- 3 < rdot rx ry d).
  Proof.
    intros H. rewrite arc_points_spec in H by apply Hd. apply filter_In in H. destruct H as [_ H].
    apply andb_prop in H. destruct H as [H Hp]. apply andb_prop in H. destruct H as [Hc Hi].
    split; [assumption|]. split; [apply negb_true_iff in Hi; exact Hi|].
    apply (plane_sector_sound ps d lx ly rx ry eps (ar_d a)); try assumption.
    apply (circle_point_len2 c p); [apply Hd|assumption].
  Qed.

  Theorem arc_covers_sweep :
    In p (points (ar_bbox a)) ->
    sc_contains c p = true -> sc_contains (sc_offset c (-1)) p = false ->
    sweep_pred (ps_op ps) (rdot lx ly d <= - 3) (3 <= rdot rx ry d) ->
    In p (ar_points a).
  Proof.
    intros Hb Hc Hi H. rewrite arc_points_spec by apply Hd. apply filter_In. split; [assumption|].
    fold c. rewrite Hc, Hi. cbn [negb andb].
    apply (plane_sector_complete ps d lx ly rx ry eps (ar_d a)); try assumption.
    apply (circle_point_len2 c p); [apply Hd|assumption].
  Qed.
End ArcR.
