(* Lemmas about the styled sector / arc iterators of Model/Sectormodel.v:
   C02 (drawn pixels lie in the styled bounding box; transparent styles draw nothing) and
   C07 (everything commutes with translation: all tests are on 2p - center_2x). *)
From EG Require Import Base.Prelude Base.Lemmas Model.Geometry Model.Style Model.Sectormodel
  Proofs.Geometry Proofs.Sectormodel.
From Coq Require Import ZifyBool Sorting.Sorted.

Ltac Zify.zify_post_hook ::= Z.to_euclidean_division_equations.
Set Default Timeout 60.

(* ---- C02: the iterators only visit the bounding box of the stroke-area circle -------------- *)
Lemma sc_bbox_offset c n : 0 <= n -> sc_bbox (sc_offset c n) = offset (sc_bbox c) n.
Proof.
  intros H. unfold sc_offset, offset. destruct (0 <=? n) eqn:E; [|lia].
  unfold sc_bbox, sc_with_center, sc_center, with_center, size_sat_add. cbn [tl sz sw sh sc_tl sc_d].
  rewrite (Z.mul_comm 2 n). reflexivity.
Qed.

Lemma se_to_circle_offset s n : se_to_circle (se_offset s n) = sc_offset (se_to_circle s) n.
Proof. unfold se_offset, se_to_circle. cbn [se_tl se_d]. destruct (sc_offset _ _). reflexivity. Qed.

Lemma outside_stroke_width_nonneg st : 0 <= stroke_width st -> 0 <= sat_u32_to_i32 (outside_stroke_width st).
Proof.
  intros H. unfold outside_stroke_width, sat_u32_to_i32, i32_max. destruct (stroke_alignment st); lia.
Qed.

Lemma se_stroke_area_bbox s st :
  0 <= stroke_width st ->
  sc_bbox (se_to_circle (se_offset s (stroke_area_offset st))) = se_styled_bbox s st.
Proof.
  intros H. rewrite se_to_circle_offset. unfold stroke_area_offset.
  rewrite sc_bbox_offset by (apply outside_stroke_width_nonneg, H). reflexivity.
Qed.

Lemma ar_stroke_area_bbox a st :
  0 <= stroke_width st ->
  sc_bbox (sc_offset (ar_to_circle a) (sat_u32_to_i32 (outside_stroke_width st))) = ar_styled_bbox a st.
Proof. intros H. rewrite sc_bbox_offset by (apply outside_stroke_width_nonneg, H). reflexivity. Qed.

(* one round of the styled sector loop yields at most the point it was handed *)
Lemma se_styled_item_point ps ot it ti to_ bevel sc fc q dl dist p c :
  In (p, c) (se_styled_item ps ot it ti to_ bevel sc fc (q, dl, dist)) -> p = q.
Proof.
  unfold se_styled_item.
  repeat match goal with
  | |- context [if ?b then _ else _] => destruct b
  | |- context [match ?x with _ => _ end] => destruct x
  end; cbn [In]; intros H; try contradiction; destruct H as [H|[]]; congruence.
Qed.

Lemma in_distances t c : In t (sc_distances c) -> In (fst (fst t)) (points (sc_bbox c)).
Proof.
  unfold sc_distances. intros H. apply in_map_iff in H. destruct H as (q & <- & Hq). exact Hq.
Qed.

Theorem sector_drawn_in_bbox s st bev p c :
  0 <= stroke_width st -> rect_ok (se_styled_bbox s st) ->
  In (p, c) (se_styled_pixels s st bev) -> contains (se_styled_bbox s st) p = true.
Proof.
  intros Hw Hok H. unfold se_styled_pixels in H. apply in_flat_map in H. destruct H as (t & Ht & Hp).
  destruct (negb (is_transparent st)); [|contradiction].
  apply in_distances in Ht. rewrite se_stroke_area_bbox in Ht by exact Hw.
  destruct t as [[q dl] dist]. apply se_styled_item_point in Hp. subst q. cbn [fst] in Ht.
  apply points_spec in Ht; assumption.
Qed.

Theorem arc_drawn_in_bbox a st p c :
  0 <= stroke_width st -> rect_ok (ar_styled_bbox a st) ->
  In (p, c) (ar_styled_pixels a st) -> contains (ar_styled_bbox a st) p = true.
Proof.
  intros Hw Hok H. unfold ar_styled_pixels in H. destruct (stroke_color st) as [c0|]; [|contradiction].
  apply in_map_iff in H. destruct H as (t & Hpc & Ht). apply filter_In in Ht. destruct Ht as [Ht _].
  destruct (negb (is_transparent st)); [|contradiction].
  apply in_distances in Ht. rewrite ar_stroke_area_bbox in Ht by exact Hw.
  inversion Hpc; subst. apply points_spec in Ht; assumption.
Qed.

Theorem sector_transparent s st bev : is_transparent st = true -> se_styled_pixels s st bev = [].
Proof. intros H. unfold se_styled_pixels. rewrite H. reflexivity. Qed.

Theorem arc_transparent a st : is_transparent st = true -> ar_styled_pixels a st = [].
Proof. intros H. unfold ar_styled_pixels. rewrite H. destruct (stroke_color st); reflexivity. Qed.

(* ---- C07: translation --------------------------------------------------------------------- *)
Definition shift (by_ p : point) : point := padd p by_.
Definition shift_px (by_ : point) (pc : point * Z) : point * Z := (padd (fst pc) by_, snd pc).
Definition shift_item (by_ : point) (t : point * point * Z) : point * point * Z :=
  (padd (fst (fst t)) by_, snd (fst t), snd t).

Lemma center_2x_translate tl d by_ : sm_center_2x (padd tl by_) d = padd (sm_center_2x tl d) (sm_twice by_).
Proof. unfold sm_center_2x, padd, sm_twice. cbn [px py]. f_equal; lia. Qed.

Lemma delta_translate c2x p by_ : sm_delta (padd c2x (sm_twice by_)) (padd p by_) = sm_delta c2x p.
Proof. unfold sm_delta, psub, padd, sm_twice. cbn [px py]. f_equal; lia. Qed.

Lemma range_from_shift a k n : range_from (a + k) n = map (fun x => x + k) (range_from a n).
Proof.
  revert a. induction n as [|n IH]; intros a; cbn [range_from map]; [reflexivity|].
  f_equal. replace (a + k + 1) with (a + 1 + k) by lia. apply IH.
Qed.

Lemma range_shift a b k : range (a + k) (b + k) = map (fun x => x + k) (range a b).
Proof. unfold range. replace (b + k - (a + k)) with (b - a) by lia. apply range_from_shift. Qed.

Lemma row_major_shift x0 x1 y0 y1 by_ :
  row_major (x0 + px by_) (x1 + px by_) (y0 + py by_) (y1 + py by_) = map (shift by_) (row_major x0 x1 y0 y1).
Proof.
  unfold row_major. rewrite (range_shift y0 y1), flat_map_map, map_flat_map_comm.
  apply flat_map_ext_all. intros y. rewrite (range_shift x0 x1), !map_map. reflexivity.
Qed.

Lemma points_translate r by_ :
  rect_ok r -> rect_ok (translate_rect r by_) ->
  points (translate_rect r by_) = map (shift by_) (points r).
Proof.
  intros H1 H2. rewrite (points_row_major _ H2), (points_row_major _ H1).
  unfold translate_rect, is_zero_sized. cbn [tl sz]. destruct ((sh (sz r) =? 0) || (sw (sz r) =? 0)); [reflexivity|].
  unfold padd. cbn [px py]. rewrite <- row_major_shift. f_equal; lia.
Qed.

Lemma distances_translate tl d by_ :
  rect_ok (sc_bbox (SC tl d)) -> rect_ok (sc_bbox (SC (padd tl by_) d)) ->
  sc_distances (SC (padd tl by_) d) = map (shift_item by_) (sc_distances (SC tl d)).
Proof.
  intros H1 H2. unfold sc_distances.
  change (sc_bbox (SC (padd tl by_) d)) with (translate_rect (sc_bbox (SC tl d)) by_) in *.
  rewrite points_translate by assumption. rewrite !map_map. apply map_ext. intros p.
  unfold sm_dist_item, shift_item, sc_center_2x, shift. cbn [sc_tl sc_d fst snd].
  rewrite center_2x_translate.
  change (psub (sm_twice (padd p by_)) (padd (sm_center_2x tl d) (sm_twice by_)))
    with (sm_delta (padd (sm_center_2x tl d) (sm_twice by_)) (padd p by_)).
  rewrite delta_translate. reflexivity.
Qed.

(* contains: no range hypothesis *)
Theorem sector_contains_translate s by_ p :
  se_contains (se_translate s by_) (padd p by_) = se_contains s p.
Proof.
  rewrite !se_contains_unfold, !sc_contains_delta.
  unfold se_translate, se_to_circle, se_center_2x, sc_center_2x, sc_threshold. cbn [se_tl se_d se_ps sc_tl sc_d].
  rewrite center_2x_translate, delta_translate. reflexivity.
Qed.

Theorem sector_points_translate s by_ :
  rect_ok (se_bbox s) -> rect_ok (se_bbox (se_translate s by_)) ->
  se_points (se_translate s by_) = map (shift by_) (se_points s).
Proof.
  intros H1 H2. rewrite !sector_points_contains.
  change (se_bbox (se_translate s by_)) with (translate_rect (se_bbox s) by_) in *.
  rewrite points_translate by assumption. rewrite filter_map_comm. f_equal.
  apply filter_ext_all. intros p. apply sector_contains_translate.
Qed.

Lemma sc_offset_translate t0 d by_ n :
  sc_offset (SC (padd t0 by_) d) n =
  SC (padd (sc_tl (sc_offset (SC t0 d) n)) by_) (sc_d (sc_offset (SC t0 d) n)).
Proof.
  unfold sc_offset, sc_with_center, sc_center, sc_bbox, with_center, center, padd_size, psub_size, padd.
  cbn [sc_tl sc_d tl sz px py sw sh]. f_equal. f_equal; lia.
Qed.

Lemma se_offset_translate s by_ n : se_offset (se_translate s by_) n = se_translate (se_offset s n) by_.
Proof.
  unfold se_offset, se_translate, se_to_circle. cbn [se_tl se_d se_ps].
  rewrite sc_offset_translate. reflexivity.
Qed.

Lemma se_styled_item_shift ps ot it ti to_ bevel sc fc by_ t :
  se_styled_item ps ot it ti to_ bevel sc fc (shift_item by_ t) =
  map (shift_px by_) (se_styled_item ps ot it ti to_ bevel sc fc t).
Proof.
  destruct t as [[q dl] dist]. unfold se_styled_item, shift_item. cbn [fst snd].
  repeat match goal with
  | |- context [if ?b then _ else _] => destruct b
  | |- context [match ?x with _ => _ end] => destruct x
  end; reflexivity.
Qed.

Theorem sector_styled_translate s st bev by_ :
  0 <= stroke_width st ->
  rect_ok (se_styled_bbox s st) -> rect_ok (se_styled_bbox (se_translate s by_) st) ->
  se_styled_pixels (se_translate s by_) st bev = map (shift_px by_) (se_styled_pixels s st bev).
Proof.
  intros Hw H1 H2. rewrite <- se_stroke_area_bbox in H1, H2 by exact Hw.
  unfold se_styled_pixels. rewrite !se_offset_translate in *.
  set (sa := se_offset s (stroke_area_offset st)) in *.
  set (fa := se_offset s (fill_area_offset st)).
  change (se_ps (se_translate sa by_)) with (se_ps sa).
  change (sc_threshold (se_to_circle (se_translate sa by_))) with (sc_threshold (se_to_circle sa)).
  change (sc_threshold (se_to_circle (se_translate fa by_))) with (sc_threshold (se_to_circle fa)).
  destruct (negb (is_transparent st)); [|reflexivity].
  change (se_to_circle (se_translate sa by_)) with (SC (padd (se_tl sa) by_) (se_d sa)) in *.
  change (se_to_circle sa) with (SC (se_tl sa) (se_d sa)) in *.
  rewrite distances_translate by assumption.
  rewrite flat_map_map, map_flat_map_comm. apply flat_map_ext_all. intros t.
  apply se_styled_item_shift.
Qed.

Lemma ar_keep_shift ps ot it by_ t : ar_keep ps ot it (shift_item by_ t) = ar_keep ps ot it t.
Proof. destruct t as [[q dl] dist]. reflexivity. Qed.

Theorem arc_points_translate a by_ :
  rect_ok (ar_bbox a) -> rect_ok (ar_bbox (ar_translate a by_)) ->
  ar_points (ar_translate a by_) = map (shift by_) (ar_points a).
Proof.
  intros H1 H2. unfold ar_points, ar_translate, ar_to_circle in *. cbn [ar_tl ar_d ar_ps] in *.
  rewrite sc_offset_translate. unfold sc_threshold at 2 4. cbn [sc_d].
  rewrite distances_translate by assumption.
  rewrite filter_map_comm, !map_map.
  erewrite (filter_ext_all (fun x => ar_keep _ _ _ (shift_item by_ x))) by (intros; apply ar_keep_shift).
  reflexivity.
Qed.

Theorem arc_styled_translate a st by_ :
  0 <= stroke_width st ->
  rect_ok (ar_styled_bbox a st) -> rect_ok (ar_styled_bbox (ar_translate a by_) st) ->
  ar_styled_pixels (ar_translate a by_) st = map (shift_px by_) (ar_styled_pixels a st).
Proof.
  intros Hw H1 H2. rewrite <- ar_stroke_area_bbox in H1, H2 by exact Hw.
  unfold ar_styled_pixels, ar_translate, ar_to_circle in *. cbn [ar_tl ar_d ar_ps] in *.
  rewrite !sc_offset_translate in *.
  set (oe := sc_offset (SC (ar_tl a) (ar_d a)) (sat_u32_to_i32 (outside_stroke_width st))) in *.
  set (ie := sc_offset (SC (ar_tl a) (ar_d a)) (- sat_u32_to_i32 (inside_stroke_width st))).
  unfold sc_threshold at 1 2. cbn [sc_d]. fold (sc_threshold oe). fold (sc_threshold ie).
  destruct (stroke_color st) as [c0|]; [|reflexivity].
  destruct (negb (is_transparent st)); [|reflexivity].
  assert (oe = SC (sc_tl oe) (sc_d oe)) as Eoe by (destruct oe; reflexivity).
  rewrite Eoe in H1. rewrite (Eoe) at 3.
  rewrite distances_translate by assumption.
  rewrite filter_map_comm, !map_map.
  erewrite (filter_ext_all (fun x => ar_keep _ _ _ (shift_item by_ x))) by (intros; apply ar_keep_shift).
  rewrite <- Eoe. reflexivity.
Qed.

(* bounding boxes *)
Lemma offset_translate r by_ n : offset (translate_rect r by_) n = translate_rect (offset r n) by_.
Proof.
  unfold offset, translate_rect, with_center, center, padd_size, psub_size, padd. cbn [tl sz px py].
  destruct (0 <=? n); cbn [sw sh]; f_equal; f_equal; lia.
Qed.

Theorem sector_bbox_translate s st by_ :
  se_bbox (se_translate s by_) = translate_rect (se_bbox s) by_ /\
  se_styled_bbox (se_translate s by_) st = translate_rect (se_styled_bbox s st) by_.
Proof. split; [reflexivity|]. exact (offset_translate (se_bbox s) by_ _). Qed.

Theorem arc_bbox_translate a st by_ :
  ar_bbox (ar_translate a by_) = translate_rect (ar_bbox a) by_ /\
  ar_styled_bbox (ar_translate a by_) st = translate_rect (ar_styled_bbox a st) by_.
Proof. split; [reflexivity|]. exact (offset_translate (ar_bbox a) by_ _). Qed.

(* ---- the styled pixel sequences are strictly row-major: every pixel is written at most once --------- *)
(* a flat_map whose function yields, for item t, at most one pixel located at key t keeps a strict order of the keys *)
Lemma flat_map_sorted {A} (key : A -> point) (f : A -> list (point * Z)) l :
  (forall t pc, In pc (f t) -> fst pc = key t) ->
  (forall t, (length (f t) <= 1)%nat) ->
  StronglySorted lt_yx (map key l) ->
  StronglySorted lt_yx (map fst (flat_map f l)).
Proof.
  intros Hk Hl. induction l as [|t l IH]; cbn [map flat_map]; intros Hs; [constructor|].
  inversion Hs as [|? ? Hs' Hall]; subst. specialize (IH Hs').
  rewrite map_app.
  assert (Hrest : Forall (lt_yx (key t)) (map fst (flat_map f l))).
  { apply Forall_forall. intros q Hq. apply in_map_iff in Hq. destruct Hq as (pc & <- & Hpc).
    apply in_flat_map in Hpc. destruct Hpc as (t' & Ht' & Hpc). rewrite (Hk t' pc Hpc).
    rewrite Forall_forall in Hall. apply Hall. apply in_map. exact Ht'. }
  specialize (Hl t). specialize (Hk t).
  destruct (f t) as [|pc [|pc2 r]]; cbn [map app length] in *; [assumption| |lia].
  constructor; [assumption|]. rewrite (Hk pc (or_introl eq_refl)). exact Hrest.
Qed.

Lemma se_styled_item_len ps ot it ti to_ bevel sc fc t :
  (length (se_styled_item ps ot it ti to_ bevel sc fc t) <= 1)%nat.
Proof.
  destruct t as [[q dl] dist]. unfold se_styled_item.
  repeat match goal with
  | |- context [if ?b then _ else _] => destruct b
  | |- context [match ?x with _ => _ end] => destruct x
  end; cbn [length]; lia.
Qed.

Lemma distances_keys c : map (fun t => fst (fst t)) (sc_distances c) = points (sc_bbox c).
Proof. unfold sc_distances. rewrite map_map. cbn [sm_dist_item fst]. apply map_id_ext. reflexivity. Qed.

Theorem sector_styled_sorted s st bev :
  0 <= stroke_width st -> rect_ok (se_styled_bbox s st) ->
  StronglySorted lt_yx (map fst (se_styled_pixels s st bev)).
Proof.
  intros Hw Hok. unfold se_styled_pixels.
  apply (flat_map_sorted (fun t => fst (fst t))).
  - intros [[q dl] dist] [p c] H. apply se_styled_item_point in H. cbn [fst]. exact H.
  - intros t. apply se_styled_item_len.
  - destruct (negb (is_transparent st)); [|constructor].
    rewrite distances_keys, se_stroke_area_bbox by exact Hw. apply points_sorted, Hok.
Qed.

Theorem arc_styled_sorted a st :
  0 <= stroke_width st -> rect_ok (ar_styled_bbox a st) ->
  StronglySorted lt_yx (map fst (ar_styled_pixels a st)).
Proof.
  intros Hw Hok. unfold ar_styled_pixels. destruct (stroke_color st) as [c0|]; [|constructor].
  rewrite map_map. cbn [fst].
  destruct (negb (is_transparent st)); [|constructor].
  set (Q := ar_keep _ _ _).
  (* filter keeps a sublist: sortedness of the keys is inherited *)
  assert (G : forall l, StronglySorted lt_yx (map (fun t : point * point * Z => fst (fst t)) l) ->
              StronglySorted lt_yx (map (fun t => fst (fst t)) (filter Q l))).
  { induction l as [|t l IH]; cbn [map filter]; intros Hs; [constructor|].
    inversion Hs as [|? ? Hs' Hall]; subst. destruct (Q t); cbn [map]; [|apply IH, Hs'].
    constructor; [apply IH, Hs'|]. apply Forall_forall. intros q Hq. apply in_map_iff in Hq.
    destruct Hq as (t' & <- & Ht'). apply filter_In in Ht'. rewrite Forall_forall in Hall. apply Hall.
    apply (in_map (fun t : point * point * Z => fst (fst t))). apply Ht'. }
  apply G. rewrite distances_keys, ar_stroke_area_bbox by exact Hw. apply points_sorted, Hok.
Qed.
