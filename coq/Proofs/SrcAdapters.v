(* translate/r2c tie, round 4 (2): the draw target adapters Translated and Clipped (src/draw_target/translated.rs, clipped.rs) as
   call lowerings.  The generic parent target T is the list of the calls it has received (Target.call), its methods
   fill_solid / fill_contiguous / clear (`&mut self`) and bounding_box are function parameters of the generated definitions,
   instantiated with "append the call to the log" and a fixed parent box.  One call on the adapter appends exactly the call
   Target.lower1c says; the boxes are Target.bbox_of. *)
From EG Require Import Base.Prelude Base.Casts Model.Geometry Model.Rrect Model.Target.
From EG Require Import Gen.SrcGeometry Gen.SrcCircle Gen.SrcRrect Gen.SrcRrect2 Gen.SrcAdapters Proofs.SrcGeometry.
Set Default Timeout 60.

Definition log_solid (log : list call) (r : rect) (c : Z) : list call * (unit + unit) := (log ++ [FillSolid r c], inl tt).
Definition log_contiguous (log : list call) (r : rect) (cs : stream) : list call * (unit + unit) := (log ++ [FillContiguous r cs], inl tt).
Definition log_clear (log : list call) (c : Z) : list call * (unit + unit) := (log ++ [Clear c], inl tt).

Lemma src_translated_fill_solid_eq log d area col :
  Translated_parent (fst (src_Translated_fill_solid log_solid (Build_Translated log d) area col)) = log ++ [lower1c (Transl d) (R (P 0 0) (Geometry.S 0 0)) (FillSolid area col)].
Proof. reflexivity. Qed.
Lemma src_translated_fill_contiguous_eq log d area cs :
  Translated_parent (fst (src_Translated_fill_contiguous log_contiguous (Build_Translated log d) area cs)) = log ++ [transl_call d (FillContiguous area cs)].
Proof. reflexivity. Qed.
Lemma src_translated_clear_eq log d col :
  Translated_parent (fst (src_Translated_clear log_clear (Build_Translated log d) col)) = log ++ [transl_call d (Clear col)].
Proof. reflexivity. Qed.
Lemma src_translated_bounding_box_eq log d pbb :
  src_Translated_bounding_box (fun _ => pbb) (Build_Translated log d) = bbox_of (Transl d) pbb.
Proof. reflexivity. Qed.
Lemma src_translated_new_eq log d : src_Translated_new log d = (log, Build_Translated log d).
Proof. reflexivity. Qed.

Lemma src_clipped_new_eq log a pbb : size_i32 (sz a) -> size_i32 (sz pbb) ->
  src_Clipped_new (fun _ => pbb) log a = (log, Build_Clipped log (bbox_of (Clip a) pbb)).
Proof. intros Ha Hp. unfold src_Clipped_new. cbv zeta. rewrite src_Rectangle_intersection_eq by assumption. reflexivity. Qed.
Lemma src_clipped_fill_solid_eq log clip area col : size_i32 (sz area) -> size_i32 (sz clip) ->
  Clipped_parent (fst (src_Clipped_fill_solid log_solid (Build_Clipped log clip) area col)) = log ++ [clip_call clip (FillSolid area col)].
Proof.
  intros Ha Hc. unfold src_Clipped_fill_solid. cbv zeta. cbn [Clipped_clip_area Clipped_parent].
  rewrite src_Rectangle_intersection_eq by assumption. reflexivity.
Qed.
Lemma src_clipped_bounding_box_eq log clip : src_Clipped_bounding_box (Build_Clipped log clip) = clip.
Proof. reflexivity. Qed.

(* ---- round 5 (5): for an ARBITRARY parent (any function of the parent's state, failing or not): the adapter hands the parent exactly
   the lowered call, keeps the state the parent returns and returns the parent's Result unchanged (audit3 1.3: the returned Result
   was dropped and the parent always answered Ok) ---- *)
Lemma src_translated_fill_solid_any (F : list call -> rect -> Z -> list call * (unit + unit)) log d area col :
  src_Translated_fill_solid F (Build_Translated log d) area col
  = (Build_Translated (fst (F log (translate_rect area d) col)) d, snd (F log (translate_rect area d) col)).
Proof.
  unfold src_Translated_fill_solid. cbn [Translated_parent Translated_offset].
  change (src_Rectangle_translate area d) with (translate_rect area d). destruct (F log (translate_rect area d) col); reflexivity.
Qed.
Lemma src_translated_fill_contiguous_any (F : list call -> rect -> stream -> list call * (unit + unit)) log d area cs :
  src_Translated_fill_contiguous F (Build_Translated log d) area cs
  = (Build_Translated (fst (F log (translate_rect area d) cs)) d, snd (F log (translate_rect area d) cs)).
Proof.
  unfold src_Translated_fill_contiguous. cbn [Translated_parent Translated_offset].
  change (src_Rectangle_translate area d) with (translate_rect area d). destruct (F log (translate_rect area d) cs); reflexivity.
Qed.
Lemma src_translated_clear_any (F : list call -> Z -> list call * (unit + unit)) log d col :
  src_Translated_clear F (Build_Translated log d) col = (Build_Translated (fst (F log col)) d, snd (F log col)).
Proof. unfold src_Translated_clear. cbn [Translated_parent Translated_offset]. destruct (F log col); reflexivity. Qed.
Lemma src_clipped_fill_solid_any (F : list call -> rect -> Z -> list call * (unit + unit)) log clip area col :
  size_i32 (sz area) -> size_i32 (sz clip) ->
  src_Clipped_fill_solid F (Build_Clipped log clip) area col
  = (Build_Clipped (fst (F log (intersection area clip) col)) clip, snd (F log (intersection area clip) col)).
Proof.
  intros Ha Hc. unfold src_Clipped_fill_solid. cbn [Clipped_parent Clipped_clip_area].
  rewrite src_Rectangle_intersection_eq by assumption. destruct (F log (intersection area clip) col); reflexivity.
Qed.

(* a parent that fails: the error comes back and the parent's state is whatever the parent left *)
Definition fail_solid (log : list call) (r : rect) (c : Z) : list call * (unit + unit) := (log, inr tt).
Lemma src_translated_fill_solid_failing log d area col :
  src_Translated_fill_solid fail_solid (Build_Translated log d) area col = (Build_Translated log d, inr tt).
Proof. reflexivity. Qed.
Lemma src_clipped_fill_solid_failing log clip area col :
  src_Clipped_fill_solid fail_solid (Build_Clipped log clip) area col = (Build_Clipped log clip, inr tt).
Proof. reflexivity. Qed.
