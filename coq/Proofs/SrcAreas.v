(* translate/r2c tie, round 3 (3): PrimitiveStyle::stroke_area / fill_area (src/primitives/primitive_style.rs), translated as
   one monomorphic instance per closed shape (P = Rectangle, Circle, Ellipse, RoundedRectangle): `primitive.offset(..)`, a
   method of the bound `P: OffsetOutline`, is the OffsetOutline impl of the instance type (the dispatch table of the generic
   function).  Equal to the models' <shape>_stroke_area / <shape>_fill_area for shapes whose extents are values of u32 and
   non-negative stroke widths. *)
From EG Require Import Base.Prelude Base.Casts Model.Geometry Model.Style Model.Circle Model.Ellipse Model.Styledrect Model.Rrect.
From EG Require Import Gen.SrcGeometry Gen.SrcStyle Gen.SrcCircle Gen.SrcRrect Gen.SrcRrect2 Gen.SrcAreas.
From EG Require Import Proofs.SrcGeometry Proofs.SrcCircle Proofs.SrcRrect2 Proofs.SrcStyledBox.
Set Default Timeout 60.

(* the OffsetOutline impl of Rectangle (src/) has the body of the inherent Rectangle::offset (core/) *)
Lemma src_Rectangle_outline_offset_eq r n :
  size_u32 (sz r) -> i32_min <= n <= i32_max -> src_Rectangle_outline_offset r n = offset r n.
Proof. intros H Hn. rewrite <- src_Rectangle_offset_eq by assumption. reflexivity. Qed.

Lemma src_stroke_offset_eq st : Prelude.sat_u32_to_i32 (src_PrimitiveStyle_outside_stroke_width st) = stroke_area_offset st.
Proof. rewrite src_outside_stroke_width_eq. reflexivity. Qed.

Lemma src_fill_offset_eq st :
  (if StrokeStyle_eqb (stroke_kind st) Style.Solid then - Prelude.sat_u32_to_i32 (src_PrimitiveStyle_inside_stroke_width st) else 0)
  = fill_area_offset st.
Proof. rewrite src_inside_stroke_width_eq. unfold fill_area_offset. destruct (stroke_kind st); reflexivity. Qed.

Lemma fill_offset_range st : 0 <= stroke_width st -> i32_min <= fill_area_offset st <= i32_max.
Proof.
  intros H. unfold fill_area_offset, sat_u32_to_i32, inside_stroke_width, sat_add_u32, i32_min, i32_max, u32_max.
  destruct (stroke_kind st); [|lia]. destruct (stroke_alignment st); try lia.
  assert (0 <= Z.min (stroke_width st + 1) 4294967295 / 2) by (apply Z.div_pos; lia). lia.
Qed.

Lemma stroke_offset_range st : 0 <= stroke_width st -> i32_min <= stroke_area_offset st <= i32_max.
Proof. exact (offset_arg_range st). Qed.

Ltac area_tac L :=
  intros; cbv zeta; first [rewrite src_stroke_offset_eq | rewrite src_fill_offset_eq];
  apply L; [assumption | first [apply stroke_offset_range | apply fill_offset_range]; assumption].

Lemma src_stroke_area_rect_eq st r : size_u32 (sz r) -> 0 <= stroke_width st -> src_stroke_area_Rectangle st r = rect_stroke_area r st.
Proof. unfold src_stroke_area_Rectangle, rect_stroke_area. area_tac src_Rectangle_outline_offset_eq. Qed.
Lemma src_fill_area_rect_eq st r : size_u32 (sz r) -> 0 <= stroke_width st -> src_fill_area_Rectangle st r = rect_fill_area r st.
Proof. unfold src_fill_area_Rectangle, rect_fill_area. area_tac src_Rectangle_outline_offset_eq. Qed.
Lemma src_stroke_area_circle_eq st c : 0 <= c_d c <= u32_max -> 0 <= stroke_width st -> src_stroke_area_Circle st c = circle_stroke_area c st.
Proof. unfold src_stroke_area_Circle, circle_stroke_area. area_tac src_Circle_offset_eq. Qed.
Lemma src_fill_area_circle_eq st c : 0 <= c_d c <= u32_max -> 0 <= stroke_width st -> src_fill_area_Circle st c = circle_fill_area c st.
Proof. unfold src_fill_area_Circle, circle_fill_area. area_tac src_Circle_offset_eq. Qed.
Lemma src_stroke_area_ellipse_eq st e : size_u32 (e_sz e) -> 0 <= stroke_width st -> src_stroke_area_Ellipse st e = ellipse_stroke_area e st.
Proof. unfold src_stroke_area_Ellipse, ellipse_stroke_area. area_tac src_Ellipse_offset_eq. Qed.
Lemma src_fill_area_ellipse_eq st e : size_u32 (e_sz e) -> 0 <= stroke_width st -> src_fill_area_Ellipse st e = ellipse_fill_area e st.
Proof. unfold src_fill_area_Ellipse, ellipse_fill_area. area_tac src_Ellipse_offset_eq. Qed.
Lemma src_stroke_area_rrect_eq st r : size_u32 (sz (rr_rect r)) -> 0 <= stroke_width st -> src_stroke_area_RoundedRectangle st r = rr_stroke_area r st.
Proof. unfold src_stroke_area_RoundedRectangle, rr_stroke_area. area_tac src_rr_offset_eq. Qed.
Lemma src_fill_area_rrect_eq st r : size_u32 (sz (rr_rect r)) -> 0 <= stroke_width st -> src_fill_area_RoundedRectangle st r = rr_fill_area r st.
Proof. unfold src_fill_area_RoundedRectangle, rr_fill_area. area_tac src_rr_offset_eq. Qed.
