(* translate/r2c tie, round 5 (4): "the domain of the property implies the domain of the src theorem", stated and proved (audit3 1.1:
   the comments only asserted it), and the six unconditional C16 properties re-stated for the GENERATED functions on the domain
   where the source computes them (extents that are values of i32: beyond it `Point + Size` casts `u32 as i32`, and the source no
   longer follows the exact-integer model; audit3 A2).
   The predicates of the src layer are src_img_ok / src_rr_ok / src_probe_ok (renamed in round 5: they used to carry the names of
   different predicates of the property layer). *)
From EG Require Import Base.Prelude Base.Casts Model.Geometry Model.Rrect Model.Circle Model.Imageraw Proofs.Geometry.
From EG Require Proofs.Imageraw Proofs.Rrect Proofs.Circlefits.
From EG Require Import Gen.SrcGeometry Gen.SrcCircle Gen.SrcRrect Gen.SrcRrect2.
From EG Require Import Proofs.SrcGeometry Proofs.SrcRectFacts Proofs.SrcCircle Proofs.SrcRrect2 Proofs.SrcImageDraw Proofs.SrcHelpers.
Set Default Timeout 60.
Ltac Zify.zify_post_hook ::= Z.to_euclidean_division_equations.

(* ---- property domain -> src domain ---- *)
Lemma rect_ok_size_i32 r : rect_ok r -> size_i32 (sz r) /\ size_u32 (sz r).
Proof. intros [_ [Hw Hh]]. unfold size_i32, size_u32, i32_max, u32_max, bound in *. repeat split; lia. Qed.

Lemma img_ok_bridge img : Proofs.Imageraw.img_ok img -> src_img_ok img.
Proof.
  intros (Hb & (Hw & Hh) & Hl). unfold src_img_ok, data_width, bytes_per_row, i32_max, u32_max, bound in *.
  unfold Proofs.Imageraw.bpp_ok in Hb; cbn [In] in Hb.
  destruct Hb as [H|[H|[H|[H|[H|[H|[H|[]]]]]]]]; rewrite <- H; cbn; repeat split; try lia.
Qed.

Lemma circle_bridge c p : Proofs.Circlefits.circle_mok c -> Proofs.Circlefits.probe_ok c p ->
  0 <= c_d c <= i32_max /\ length_squared (psub (circle_center_2x c) (P (px p * 2) (py p * 2))) <= u32_max.
Proof.
  intros [Hok Hd] Hp. pose proof (proj1 (Proofs.Circlefits.probe_ok_iff c p Hok ltac:(lia)) Hp) as H.
  unfold Proofs.Circlefits.cdist2m in H. destruct Hok as [_ Hdd]. unfold i32_max, u32_max, bound in *. split; lia.
Qed.
(* hence C05's circle theorem on the generated function, on the property's own domain *)
Lemma src_circle_contains_on_property_domain c p : Proofs.Circlefits.circle_mok c -> Proofs.Circlefits.probe_ok c p ->
  src_Circle_contains c p = circle_contains c p.
Proof. intros Hc Hp. destruct (circle_bridge c p Hc Hp) as [H1 H2]. apply src_Circle_contains_eq; assumption. Qed.

Lemma rr_ok_bridge r : Proofs.Rrect.rr_ok r -> src_rr_ok r.
Proof.
  intros [[Ht [Hw Hh]] Hn]. unfold src_rr_ok, radius_ok, size_i32, i32_max, bound in *.
  assert (Hs : Proofs.Rrect.sz_nonneg (sz (rr_rect r))) by (split; lia).
  pose proof (Proofs.Rrect.confine_nonneg _ _ Hn Hs) as (N1 & N2 & N3 & N4).
  pose proof (Proofs.Rrect.confine_sound _ _ Hn Hs) as (F1 & F2 & F3 & F4).
  unfold Proofs.Rrect.sz_nonneg in *. cbv zeta. repeat split; lia.
Qed.

(* ---- the six unconditional C16 properties, for the generated functions, where the extents are values of i32 ---- *)
Lemma src_contains_spec r p : size_i32 (sz r) ->
  (src_Rectangle_contains r p = true <->
   px (tl r) <= px p < px (tl r) + sw (sz r) /\ py (tl r) <= py p < py (tl r) + sh (sz r)).
Proof. intros H. rewrite src_Rectangle_contains_eq by exact H. apply contains_spec. Qed.

Lemma src_bottom_right_spec r : size_i32 (sz r) ->
  match src_Rectangle_bottom_right r with
  | Some br => src_Rectangle_contains r br = true /\ (forall p, src_Rectangle_contains r p = true -> px p <= px br /\ py p <= py br)
  | None => forall p, src_Rectangle_contains r p = false
  end.
Proof.
  intros H. rewrite src_Rectangle_bottom_right_eq by exact H. pose proof (bottom_right_spec r) as S.
  destruct (bottom_right r) as [br|].
  - destruct S as [S1 S2]. split; [rewrite src_Rectangle_contains_eq by exact H; exact S1|].
    intros p Hp. rewrite src_Rectangle_contains_eq in Hp by exact H. exact (S2 p Hp).
  - intros p. rewrite src_Rectangle_contains_eq by exact H. apply S.
Qed.

Lemma src_intersection_spec a b p : size_i32 (sz a) -> size_i32 (sz b) ->
  src_Rectangle_contains (src_Rectangle_intersection a b) p = src_Rectangle_contains a p && src_Rectangle_contains b p.
Proof.
  intros Ha Hb. rewrite src_Rectangle_intersection_eq by assumption.
  rewrite !src_Rectangle_contains_eq by (try assumption; apply intersection_size_i32; assumption).
  apply intersection_spec.
Qed.
Lemma src_intersection_comm_pts a b p : size_i32 (sz a) -> size_i32 (sz b) ->
  src_Rectangle_contains (src_Rectangle_intersection a b) p = src_Rectangle_contains (src_Rectangle_intersection b a) p.
Proof. intros Ha Hb. rewrite !src_intersection_spec by assumption. apply Bool.andb_comm. Qed.
Lemma src_intersection_sub_l a b p : size_i32 (sz a) -> size_i32 (sz b) ->
  src_Rectangle_contains (src_Rectangle_intersection a b) p = true -> src_Rectangle_contains a p = true.
Proof. intros Ha Hb. rewrite src_intersection_spec by assumption. intros E. apply andb_prop in E. apply E. Qed.
Lemma src_intersection_sub_r a b p : size_i32 (sz a) -> size_i32 (sz b) ->
  src_Rectangle_contains (src_Rectangle_intersection a b) p = true -> src_Rectangle_contains b p = true.
Proof. intros Ha Hb. rewrite src_intersection_spec by assumption. intros E. apply andb_prop in E. apply E. Qed.

(* ---- rounded rectangle probes (audit3 A3): the doubled offsets of a probe from the four corner centres are values of i32.  The
   property (C05_rrect) quantifies over all probes of the exact-integer model; the source computes `p * 2 - center_2x` in i32 ---- *)
Definition src_rprobe_ok (r : rrect) (p : point) : Prop :=
  let c := src_RoundedRectangleContains_new r in
  src_probe_ok (EllipseQuadrant_center_2x (RoundedRectangleContains_top_left c)) p /\
  src_probe_ok (EllipseQuadrant_center_2x (RoundedRectangleContains_top_right c)) p /\
  src_probe_ok (EllipseQuadrant_center_2x (RoundedRectangleContains_bottom_left c)) p /\
  src_probe_ok (EllipseQuadrant_center_2x (RoundedRectangleContains_bottom_right c)) p.

Lemma src_rr_contains_on_probe r p : src_rr_ok r -> src_rprobe_ok r p -> src_RoundedRectangle_contains r p = rr_contains r p.
Proof. intros Hr (H1 & H2 & H3 & H4). exact (src_rr_contains_eq r p Hr H1 H2 H3 H4). Qed.
