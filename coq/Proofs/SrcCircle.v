(* translate/r2c tie for src/primitives/circle/mod.rs, ellipse/mod.rs, primitive_style.rs and the PointExt helpers
   of src/geometry/mod.rs: the regenerated definitions (coq/Gen/SrcCircle.v, SrcStyle.v) equal the hand-written models
   Model/Circle.v, Model/Ellipse.v, Model/Style.v.  Range hypotheses say that the values are values of their Rust
   types where the Rust code casts (u32 -> i32 in `Point + Size`, i32 -> u32 of the squared distance, u32 -> u64 and
   i32 -> i64 -> u64 in EllipseContains); the models treat those casts as the identity. *)
From EG Require Import Base.Prelude Base.Casts Model.Geometry Model.Style Model.Circle Model.Ellipse.
From EG Require Import Gen.SrcGeometry Gen.SrcStyle Gen.SrcCircle Proofs.SrcGeometry.
Set Default Timeout 60.

(* ---- primitive_style.rs ---- *)
Lemma src_outside_stroke_width_eq s : src_PrimitiveStyle_outside_stroke_width s = outside_stroke_width s.
Proof. reflexivity. Qed.
Lemma src_inside_stroke_width_eq s : src_PrimitiveStyle_inside_stroke_width s = inside_stroke_width s.
Proof. reflexivity. Qed.
(* the source writes `is_none()`, the model the match with the arms in the other order *)
Lemma src_is_transparent_eq s : src_PrimitiveStyle_is_transparent s = is_transparent s.
Proof. unfold src_PrimitiveStyle_is_transparent, is_transparent. destruct (stroke_color s), (fill_color s); reflexivity. Qed.
(* the source writes `Option::filter`, the model the explicit match *)
Lemma src_effective_stroke_color_eq s : src_PrimitiveStyle_effective_stroke_color s = effective_stroke_color s.
Proof. unfold src_PrimitiveStyle_effective_stroke_color, effective_stroke_color. destruct (stroke_color s); reflexivity. Qed.

(* ---- PointExt ---- *)
Lemma src_length_squared_eq p : src_Point_length_squared p = length_squared p.
Proof. unfold src_Point_length_squared, length_squared. rewrite !Z.pow_2_r. reflexivity. Qed.

(* ---- circle/mod.rs ---- *)
Lemma src_diameter_to_threshold_eq d : src_diameter_to_threshold d = diameter_to_threshold d.
Proof. unfold src_diameter_to_threshold, diameter_to_threshold. rewrite !Z.pow_2_r. reflexivity. Qed.

Lemma src_Circle_threshold_eq c : src_Circle_threshold c = circle_threshold c.
Proof. apply src_diameter_to_threshold_eq. Qed.

Lemma src_Circle_bounding_box_eq c : src_Circle_bounding_box c = circle_bbox c.
Proof. reflexivity. Qed.

Lemma src_Circle_center_2x_eq c : 0 <= c_d c <= i32_max -> src_Circle_center_2x c = circle_center_2x c.
Proof.
  intros H. unfold src_Circle_center_2x, circle_center_2x. cbv zeta.
  rewrite src_Point_add_Size_eq; [reflexivity|].
  unfold size_i32, src_Size_new, sat_sub_u32, i32_max in *. cbn [sw sh]. lia.
Qed.

Lemma src_Circle_center_eq c : 0 <= c_d c <= u32_max -> src_Circle_center c = circle_center c.
Proof.
  intros H. unfold src_Circle_center, circle_center. rewrite src_Circle_bounding_box_eq.
  apply src_Rectangle_center_eq. unfold size_u32, circle_bbox. cbn [sz sw sh]. lia.
Qed.

Lemma src_Circle_with_center_eq ctr d : 0 <= d <= u32_max -> src_Circle_with_center ctr d = circle_with_center ctr d.
Proof.
  intros H. unfold src_Circle_with_center, circle_with_center. cbv zeta.
  rewrite src_Rectangle_with_center_eq; [reflexivity|]. unfold size_u32, src_Size_new_equal. cbn [sw sh]. lia.
Qed.

Lemma src_Circle_offset_eq c n :
  0 <= c_d c <= u32_max -> i32_min <= n <= i32_max -> src_Circle_offset c n = circle_offset c n.
Proof.
  intros H Hn. unfold src_Circle_offset, circle_offset. cbv zeta.
  rewrite src_Circle_center_eq by exact H. unfold i32_min, i32_max, u32_max in *.
  destruct (Z.leb_spec 0 n).
  - rewrite cast_i32_u32_id by lia. apply src_Circle_with_center_eq. unfold sat_add_u32, u32_max. lia.
  - rewrite cast_i32_u32_id by lia. apply src_Circle_with_center_eq. unfold sat_sub_u32, u32_max. lia.
Qed.

(* contains: the squared distance is computed in i32 and cast to u32; the identity when it is a value of u32
   (the C05 theorems carry the stronger hypothesis circle_contains_fits, under which no product overflows at all) *)
Lemma src_Circle_contains_eq c p :
  0 <= c_d c <= i32_max ->
  length_squared (psub (circle_center_2x c) (P (px p * 2) (py p * 2))) <= u32_max ->
  src_Circle_contains c p = circle_contains c p.
Proof.
  intros H Hl. unfold src_Circle_contains, circle_contains. cbv zeta.
  rewrite src_Circle_center_2x_eq by exact H. rewrite src_Circle_threshold_eq, src_length_squared_eq.
  change (src_Point_sub (circle_center_2x c) (src_Point_mul_i32 p 2))
    with (psub (circle_center_2x c) (P (px p * 2) (py p * 2))).
  rewrite cast_i32_u32_id; [reflexivity|]. unfold u32_max in Hl. split; [|exact Hl].
  unfold length_squared. nia.
Qed.

Lemma src_Circle_translate_eq c d : src_Circle_translate c d = Circ (padd (c_tl c) d) (c_d c).
Proof. reflexivity. Qed.

(* ---- ellipse/mod.rs ---- *)
Lemma src_Ellipse_center_2x_eq e : size_i32 (e_sz e) -> src_Ellipse_center_2x e = ellipse_center_2x e.
Proof.
  intros [Hw Hh]. unfold src_Ellipse_center_2x, src_center_2x, ellipse_center_2x. cbv zeta.
  rewrite src_Point_add_Size_eq; [reflexivity|].
  unfold size_i32, src_Size_saturating_sub, src_Size_new, sat_sub_u32, i32_max in *. cbn [sw sh]. lia.
Qed.

Lemma src_Ellipse_bounding_box_eq e : src_Ellipse_bounding_box e = ellipse_bbox e.
Proof. reflexivity. Qed.

Lemma src_Ellipse_center_eq e : size_u32 (e_sz e) -> src_Ellipse_center e = ellipse_center e.
Proof. intros H. unfold src_Ellipse_center, ellipse_center. rewrite src_Ellipse_bounding_box_eq. apply src_Rectangle_center_eq. exact H. Qed.

Lemma src_Ellipse_with_center_eq ctr s : size_u32 s -> src_Ellipse_with_center ctr s = ellipse_with_center ctr s.
Proof.
  intros H. unfold src_Ellipse_with_center, ellipse_with_center. cbv zeta.
  rewrite src_Rectangle_with_center_eq by exact H. reflexivity.
Qed.

Lemma src_Ellipse_offset_eq e n :
  size_u32 (e_sz e) -> i32_min <= n <= i32_max -> src_Ellipse_offset e n = ellipse_offset e n.
Proof.
  intros H Hn. unfold src_Ellipse_offset, ellipse_offset. cbv zeta.
  rewrite src_Ellipse_center_eq by exact H. destruct H as [Hw Hh]. unfold i32_min, i32_max, u32_max in *.
  destruct (Z.leb_spec 0 n); rewrite cast_i32_u32_id by lia; apply src_Ellipse_with_center_eq;
    unfold size_u32, size_sat_add, size_sat_sub, src_Size_saturating_add, src_Size_saturating_sub, src_Size_new_equal, sat_add_u32, sat_sub_u32, u32_max;
    cbn [sw sh]; lia.
Qed.

Lemma src_EllipseContains_new_eq s : size_u32 s -> src_EllipseContains_new s = ellipse_test_new s.
Proof.
  intros [Hw Hh]. destruct s as [w h]. unfold src_EllipseContains_new, ellipse_test_new, u32_max in *. cbn [sw sh] in *.
  rewrite !cast_u32_u64_id by lia. rewrite !Z.pow_2_r. rewrite src_diameter_to_threshold_eq.
  destruct (w =? h); [|reflexivity].
  rewrite cast_u32_u64_id; [reflexivity|].
  unfold diameter_to_threshold. destruct (Z.leb_spec w 4).
  - assert (w / 2 <= w) by (apply Z.div_le_upper_bound; lia). assert (0 <= w / 2) by (apply Z.div_pos; lia). nia.
  - nia.
Qed.

Lemma src_EllipseContains_contains_eq t p :
  i32_min <= px p <= i32_max -> i32_min <= py p <= i32_max ->
  src_EllipseContains_contains t p = ellipse_test_contains t p.
Proof.
  intros Hx Hy. unfold src_EllipseContains_contains, ellipse_test_contains, i32_min, i32_max in *. cbv zeta.
  rewrite !cast_i32_i64_id by lia. rewrite !Z.pow_2_r.
  rewrite !cast_i64_u64_id by nia. reflexivity.
Qed.

Lemma src_Ellipse_contains_eq e p :
  size_i32 (e_sz e) ->
  i32_min <= px p * 2 - px (ellipse_center_2x e) <= i32_max ->
  i32_min <= py p * 2 - py (ellipse_center_2x e) <= i32_max ->
  src_Ellipse_contains e p = ellipse_contains e p.
Proof.
  intros H Hx Hy. unfold src_Ellipse_contains, ellipse_contains. cbv zeta.
  rewrite src_EllipseContains_new_eq by (apply size_i32_u32; exact H).
  rewrite src_Ellipse_center_2x_eq by exact H.
  change (src_Point_sub (src_Point_mul_i32 p 2) (ellipse_center_2x e))
    with (psub (P (px p * 2) (py p * 2)) (ellipse_center_2x e)).
  apply src_EllipseContains_contains_eq; unfold psub; cbn [px py]; assumption.
Qed.
