(* translate/r2c tie for core/src/pixelcolor/conversion.rs (convert_channel, luma), raw/load_store.rs
   (bit_position) and src/image/image_raw.rs (bytes_per_row, data_width): the regenerated definitions
   (coq/Gen/SrcColor.v, SrcRaw.v, SrcImage.v) equal the hand-written models Colormodel.v, Rawdata.v, Imageraw.v.
   The models treat widening casts as the identity; the generated text keeps them (cast_u8_u32 ...), so the
   equalities are stated for arguments that are values of their Rust types. *)
From EG Require Import Base.Prelude Base.Casts Gen.ColorConsts Gen.ColorTable Model.Colormodel Model.Rawdata Model.Imageraw Model.Geometry.
From EG Require Import Gen.SrcColor Gen.SrcRaw Gen.SrcImage.
Set Default Timeout 60.
(* the generated definitions that cast to usize (`as usize`, `usize::try_from`) take the width of usize as Casts.UsizeW; the model
   of this property works with 64-bit usize (exact integers in range): taken at that width *)
#[local] Existing Instance Casts.usize64_w.

Lemma src_convert_channel_eq from_max to_max value :
  0 <= from_max <= 255 -> 0 <= to_max <= 255 -> 0 <= value <= 255 ->
  src_convert_channel from_max to_max value = Colormodel.convert_channel from_max to_max value.
Proof.
  intros Hf Ht Hv. unfold src_convert_channel, Colormodel.convert_channel.
  rewrite !cast_u8_u32_id by lia.
  (* `<<` on u32 drops no bit here: to_max <= 255 shifted by 24 is below 2^32 *)
  rewrite (Casts.shl_u32_id to_max 24) by (rewrite Z.shiftl_mul_pow2 by lia; unfold min_u32, max_u32; change (2 ^ 24) with 16777216; lia).
  rewrite (Casts.shl_u32_id 1 (24 - 1)) by (cbn; unfold min_u32, max_u32; lia).
  reflexivity.
Qed.

(* luma: the colour is the storage word of an Rgb888 (the model's representation), r()/g()/b() are the model's
   channel accessors of the Rgb888 row *)
Lemma src_luma_eq c : src_luma c = luma888 c.
Proof. reflexivity. Qed.

Lemma src_bit_position_rawdata_eq t alt index :
  src_bit_position (Rawdata.bits t) alt index = Rawdata.bit_position t alt index.
Proof. reflexivity. Qed.

Lemma src_bit_position_imageraw_eq bpp alt index :
  src_bit_position bpp alt index = Imageraw.bit_position bpp alt index.
Proof. reflexivity. Qed.

Lemma src_bytes_per_row_eq width bpp :
  0 <= width <= u32_max -> src_bytes_per_row width bpp = bytes_per_row width bpp.
Proof.
  intros H. unfold src_bytes_per_row, bytes_per_row, u32_max in *. rewrite cast_u32_usize_id by lia. reflexivity.
Qed.

(* data_width: `C::Raw::BITS_PER_PIXEL` is a parameter of the generated definition; the model stores it in the
   image record.  The two casts are the identity when bpp and the row length in bytes are values of u32
   (bytes_per_row <= width for bpp <= 8). *)
Lemma src_ImageRaw_data_width_eq img :
  0 <= sw (ir_size img) <= u32_max -> 0 < ir_bpp img <= u32_max ->
  src_ImageRaw_data_width (ir_bpp img) img = data_width img.
Proof.
  intros Hw Hb. unfold src_ImageRaw_data_width, data_width.
  destruct (Z.ltb_spec (ir_bpp img) 8) as [Hlt|]; [|reflexivity].
  rewrite src_bytes_per_row_eq by exact Hw. unfold u32_max in *.
  rewrite (cast_usize_u32_id (ir_bpp img)) by lia.
  rewrite cast_usize_u32_id; [reflexivity|].
  unfold bytes_per_row. split.
  - apply Z.div_pos; nia.
  - apply Z.div_le_upper_bound; nia.
Qed.
