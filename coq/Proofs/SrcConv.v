(* translate/r2c tie, round 2 group 2: macro_rules! bodies translated as templates (functions of their `$` parameters).
   - impl_rgb_color! (core/src/pixelcolor/rgb_color.rs): MAX_R/G/B, the masks, new, r/g/b as functions of
     ($r_bits, $g_bits, $b_bits, $r_pos, $g_pos, $b_pos), equal to the model's functions of a table row whose bits and
     positions are those numbers (Model/Colormodel.v);
   - the conversion macros of core/src/pixelcolor/conversion.rs with abstract colour types: the generated definitions take
     the table rows of the `$from_type` / `$to_type` ... parameters and equal conv_rgb_rgb, conv_gray_gray, ... *)
From EG Require Import Base.Prelude Base.Casts Gen.ColorConsts Gen.ColorTable Model.Colormodel.
From EG Require Import Gen.SrcColor Gen.SrcRgbColor Gen.SrcConv Proofs.SrcColor.
Set Default Timeout 60.

Lemma land_bound a b : 0 <= a -> 0 <= Z.land a b <= a.
Proof.
  intros Ha. split; [apply Z.land_nonneg; left; exact Ha|].
  assert (E : Z.ldiff (Z.land a b) a = 0).
  { apply Z.bits_inj'. intros n Hn. rewrite Z.ldiff_spec, Z.land_spec, Z.bits_0.
    destruct (Z.testbit a n), (Z.testbit b n); reflexivity. }
  pose proof (Z.sub_nocarry_ldiff a (Z.land a b) E) as S.
  assert (0 <= Z.ldiff a (Z.land a b)) by (apply Z.ldiff_nonneg; left; exact Ha). lia.
Qed.

(* ---- impl_rgb_color! ---- *)
Lemma src_rgb_MAX_eq bits : src_rgb_MAX_R bits = chan_max bits /\ src_rgb_MAX_G bits = chan_max bits /\ src_rgb_MAX_B bits = chan_max bits.
Proof. unfold src_rgb_MAX_R, src_rgb_MAX_G, src_rgb_MAX_B, chan_max, as_u8, Casts.cast_usize_u8, wrap_u8, wrap_unsigned. repeat split. Qed.

Lemma chan_max_range bits : 0 <= chan_max bits <= 255.
Proof. unfold chan_max, as_u8. pose proof (Z.mod_pos_bound (Z.shiftl 1 bits - 1) 256). lia. Qed.

(* a row whose channel widths and positions are the macro's arguments *)
Definition row_is (t : crow) (rb gb bb rp gp bp : Z) : Prop :=
  rbits t = rb /\ gbits t = gb /\ bbits t = bb /\ rpos t = rp /\ gpos t = gp /\ bpos t = bp.

Lemma src_rgb_new_eq t rb gb bb rp gp bp r g b :
  row_is t rb gb bb rp gp bp -> 0 <= r <= 255 -> 0 <= g <= 255 -> 0 <= b <= 255 ->
  src_rgb_new rb gb bb rp gp bp r g b = rgb_new t r g b.
Proof.
  intros (Hr & Hg & Hb & Pr & Pg & Pb) Rr Rg Rb. unfold src_rgb_new, rgb_new, max_r, max_g, max_b. cbv zeta.
  destruct (src_rgb_MAX_eq rb) as (E1 & _ & _). destruct (src_rgb_MAX_eq gb) as (_ & E2 & _). destruct (src_rgb_MAX_eq bb) as (_ & _ & E3).
  rewrite E1, E2, E3, Hr, Hg, Hb, Pr, Pg, Pb.
  pose proof (land_bound r (chan_max rb)). pose proof (land_bound g (chan_max gb)). pose proof (land_bound b (chan_max bb)).
  rewrite !cast_u8_u32_id by lia. reflexivity.
Qed.

Lemma src_rgb_r_eq t rb gb bb rp gp bp c : row_is t rb gb bb rp gp bp -> src_rgb_r rb rp c = get_r t c.
Proof.
  intros (Hr & Hg & Hb & Pr & Pg & Pb). unfold src_rgb_r, get_r, max_r. destruct (src_rgb_MAX_eq rb) as (E1 & _ & _).
  rewrite E1, Hr, Pr. unfold Casts.cast_u32_u8, wrap_u8, wrap_unsigned, as_u8. reflexivity.
Qed.
Lemma src_rgb_g_eq t rb gb bb rp gp bp c : row_is t rb gb bb rp gp bp -> src_rgb_g gb gp c = get_g t c.
Proof.
  intros (Hr & Hg & Hb & Pr & Pg & Pb). unfold src_rgb_g, get_g, max_g. destruct (src_rgb_MAX_eq gb) as (_ & E2 & _).
  rewrite E2, Hg, Pg. unfold Casts.cast_u32_u8, wrap_u8, wrap_unsigned, as_u8. reflexivity.
Qed.
Lemma src_rgb_b_eq t rb gb bb rp gp bp c : row_is t rb gb bb rp gp bp -> src_rgb_b bb bp c = get_b t c.
Proof.
  intros (Hr & Hg & Hb & Pr & Pg & Pb). unfold src_rgb_b, get_b, max_b. destruct (src_rgb_MAX_eq bb) as (_ & _ & E3).
  rewrite E3, Hb, Pb. unfold Casts.cast_u32_u8, wrap_u8, wrap_unsigned, as_u8. reflexivity.
Qed.

Lemma src_rgb_mask_eq t rb gb bb rp gp bp :
  row_is t rb gb bb rp gp bp -> src_rgb_RGB_MASK rb gb bb rp gp bp = rgb_mask t.
Proof.
  intros (Hr & Hg & Hb & Pr & Pg & Pb).
  unfold src_rgb_RGB_MASK, src_rgb_R_MASK, src_rgb_G_MASK, src_rgb_B_MASK, rgb_mask, r_mask, g_mask, b_mask, max_r, max_g, max_b.
  destruct (src_rgb_MAX_eq rb) as (E1 & _ & _). destruct (src_rgb_MAX_eq gb) as (_ & E2 & _). destruct (src_rgb_MAX_eq bb) as (_ & _ & E3).
  rewrite E1, E2, E3, Hr, Hg, Hb, Pr, Pg, Pb.
  pose proof (chan_max_range rb). pose proof (chan_max_range gb). pose proof (chan_max_range bb).
  rewrite !cast_u8_u32_id by lia. reflexivity.
Qed.

(* ---- conversion.rs macros ---- *)
Lemma max_range t : 0 <= max_r t <= 255 /\ 0 <= max_g t <= 255 /\ 0 <= max_b t <= 255.
Proof. unfold max_r, max_g, max_b. repeat split; apply chan_max_range. Qed.

Lemma get_range t c : 0 <= get_r t c <= 255 /\ 0 <= get_g t c <= 255 /\ 0 <= get_b t c <= 255.
Proof.
  unfold get_r, get_g, get_b, as_u8.
  pose proof (Z.mod_pos_bound (Z.shiftr c (rpos t)) 256). pose proof (Z.mod_pos_bound (Z.shiftr c (gpos t)) 256).
  pose proof (Z.mod_pos_bound (Z.shiftr c (bpos t)) 256).
  pose proof (land_bound (Z.shiftr c (rpos t) mod 256) (max_r t)). pose proof (land_bound (Z.shiftr c (gpos t) mod 256) (max_g t)).
  pose proof (land_bound (Z.shiftr c (bpos t) mod 256) (max_b t)). lia.
Qed.

Lemma src_conv_rgb_rgb_eq a b c : src_conv_rgb_rgb a b c = conv_rgb_rgb a b c.
Proof.
  unfold src_conv_rgb_rgb, conv_rgb_rgb.
  destruct (max_range a) as (A1 & A2 & A3). destruct (max_range b) as (B1 & B2 & B3). destruct (get_range a c) as (G1 & G2 & G3).
  rewrite !src_convert_channel_eq by assumption. reflexivity.
Qed.

Lemma src_with_rgb888_eq t r g b :
  0 <= r <= 255 -> 0 <= g <= 255 -> 0 <= b <= 255 -> src_with_rgb888 t r g b = with_rgb888 t r g b.
Proof.
  intros Hr Hg Hb. unfold src_with_rgb888, with_rgb888.
  destruct (max_range t) as (A1 & A2 & A3). destruct (max_range via_rgb) as (B1 & B2 & B3).
  rewrite !src_convert_channel_eq by assumption. reflexivity.
Qed.

(* gray types: the channel value and MAX_LUMA are u8 *)
Lemma src_conv_gray_gray_eq a b c :
  0 <= max_luma a <= 255 -> 0 <= max_luma b <= 255 -> 0 <= c <= 255 ->
  src_conv_gray_gray a b c = conv_gray_gray a b c.
Proof.
  intros Ha Hb Hc. unfold src_conv_gray_gray, conv_gray_gray, luma_of.
  rewrite src_convert_channel_eq by assumption. reflexivity.
Qed.

Lemma src_conv_gray_rgb_eq a b c :
  0 <= max_luma a <= 255 -> 0 <= c <= 255 -> src_conv_gray_rgb a b c = conv_gray_rgb a b c.
Proof.
  intros Ha Hc. unfold src_conv_gray_rgb, conv_gray_rgb, luma_of.
  destruct (max_range b) as (B1 & B2 & B3).
  rewrite !src_convert_channel_eq by assumption. reflexivity.
Qed.

(* rgb -> gray / binary: `Rgb888::from(x)` and `Gray8::new(v).into()` are the configured glue (Colormodel.into_or) *)
Lemma src_conv_rgb_gray_eq a b c : src_conv_rgb_gray b a c = conv_rgb_gray a b c.
Proof. reflexivity. Qed.

Lemma src_conv_rgb_bin_eq a c : src_conv_rgb_bin a c = conv_rgb_bin a c.
Proof. unfold src_conv_rgb_bin, conv_rgb_bin. rewrite Z.geb_leb. reflexivity. Qed.

Lemma src_conv_gray_bin_eq a c : src_conv_gray_bin a c = conv_gray_bin a c.
Proof. unfold src_conv_gray_bin, conv_gray_bin. rewrite Z.geb_leb. reflexivity. Qed.
