(* translate/r2c tie, round 2 group 2: macro_rules! bodies translated as templates (functions of their `$` parameters).
   - impl_rgb_color! (core/src/pixelcolor/rgb_color.rs): MAX_R/G/B, the masks, new, r/g/b as functions of
     ($r_bits, $g_bits, $b_bits, $r_pos, $g_pos, $b_pos), equal to the model's functions of a table row whose bits and
     positions are those numbers (Model/Colormodel.v);
   - the conversion macros of core/src/pixelcolor/conversion.rs with abstract colour types: the generated definitions take
     the table rows of the `$from_type` / `$to_type` ... parameters and equal conv_rgb_rgb, conv_gray_gray, ... *)
From EG Require Import Base.Prelude Base.Casts Gen.ColorConsts Gen.ColorTable Model.Colormodel.
From EG Require Import Gen.SrcColor Gen.SrcRgbColor Gen.SrcConv Proofs.SrcColor.
Set Default Timeout 60.

Lemma land_bound a b : 0 <= a -> 0 <= Z.land a b <= a.
Proof.
  intros Ha. split; [apply Z.land_nonneg; left; exact Ha|].
  assert (E : Z.ldiff (Z.land a b) a = 0).
  { apply Z.bits_inj'. intros n Hn. rewrite Z.ldiff_spec, Z.land_spec, Z.bits_0.
    destruct (Z.testbit a n), (Z.testbit b n); reflexivity. }
  pose proof (Z.sub_nocarry_ldiff a (Z.land a b) E) as S.
  assert (0 <= Z.ldiff a (Z.land a b)) by (apply Z.ldiff_nonneg; left; exact Ha). lia.
Qed.

(* ---- impl_rgb_color!: one instance per storage type (u8, u16, u32) ---- *)
Lemma chan_max_range bits : 0 <= chan_max bits <= 255.
Proof. unfold chan_max, as_u8. pose proof (Z.mod_pos_bound (Z.shiftl 1 bits - 1) 256). lia. Qed.

Lemma shl_usize_1 bits : 0 <= bits < 64 -> Casts.shl_usize 1 bits = Z.shiftl 1 bits.
Proof.
  intros H. apply Casts.shl_usize_id. rewrite Z.shiftl_mul_pow2 by lia. unfold min_usize, max_usize.
  assert (2 ^ bits <= 2 ^ 63) by (apply Z.pow_le_mono_r; lia). change (2 ^ 63) with 9223372036854775808 in *. lia.
Qed.

(* a row whose channel widths and positions are the macro's arguments *)
Definition row_is (t : crow) (rb gb bb rp gp bp : Z) : Prop :=
  rbits t = rb /\ gbits t = gb /\ bbits t = bb /\ rpos t = rp /\ gpos t = gp /\ bpos t = bp.
Definition bits_ok (t : crow) : Prop := 0 <= rbits t < 64 /\ 0 <= gbits t < 64 /\ 0 <= bbits t < 64.
(* the three channel masks fit the storage type: no bit is shifted out by `<<` *)
Definition fits (t : crow) (maxv : Z) : Prop :=
  0 <= rpos t /\ 0 <= gpos t /\ 0 <= bpos t /\ r_mask t <= maxv /\ g_mask t <= maxv /\ b_mask t <= maxv.

Lemma shiftl_land_le x m p : 0 <= x -> 0 <= m -> 0 <= p -> 0 <= Z.shiftl (Z.land x m) p <= Z.shiftl m p.
Proof.
  intros Hx Hm Hp. rewrite !Z.shiftl_mul_pow2 by lia.
  assert (0 <= Z.land x m <= m) by (rewrite Z.land_comm; apply land_bound; exact Hm).
  assert (0 < 2 ^ p) by (apply Z.pow_pos_nonneg; lia). nia.
Qed.

(* ---- storage type u8 ---- *)
Lemma src_rgb8_MAX_eq bits : 0 <= bits < 64 ->
  src_rgb8_MAX_R bits = chan_max bits /\ src_rgb8_MAX_G bits = chan_max bits /\ src_rgb8_MAX_B bits = chan_max bits.
Proof.
  intros H. unfold src_rgb8_MAX_R, src_rgb8_MAX_G, src_rgb8_MAX_B, chan_max, as_u8, Casts.cast_usize_u8, wrap_u8, wrap_unsigned.
  rewrite shl_usize_1 by exact H. repeat split.
Qed.

Lemma src_rgb8_new_eq t rb gb bb rp gp bp r g b :
  row_is t rb gb bb rp gp bp -> bits_ok t -> fits t 255 -> 0 <= r <= 255 -> 0 <= g <= 255 -> 0 <= b <= 255 ->
  src_rgb8_new rb gb bb rp gp bp r g b = rgb_new t r g b.
Proof.
  intros (Hr & Hg & Hb & Pr & Pg & Pb) (Br & Bg & Bb) (F1 & F2 & F3 & F4 & F5 & F6) Rr Rg Rb.
  unfold src_rgb8_new, rgb_new. cbv zeta. unfold r_mask, g_mask, b_mask, max_r, max_g, max_b in *.
  subst rb gb bb rp gp bp.
  destruct (src_rgb8_MAX_eq (rbits t) Br) as (E1 & _ & _). destruct (src_rgb8_MAX_eq (gbits t) Bg) as (_ & E2 & _).
  destruct (src_rgb8_MAX_eq (bbits t) Bb) as (_ & _ & E3). rewrite E1, E2, E3.
  pose proof (chan_max_range (rbits t)). pose proof (chan_max_range (gbits t)). pose proof (chan_max_range (bbits t)).
  pose proof (shiftl_land_le r (chan_max (rbits t)) (rpos t) ltac:(lia) ltac:(lia) F1).
  pose proof (shiftl_land_le g (chan_max (gbits t)) (gpos t) ltac:(lia) ltac:(lia) F2).
  pose proof (shiftl_land_le b (chan_max (bbits t)) (bpos t) ltac:(lia) ltac:(lia) F3).
  
  rewrite !Casts.shl_u8_id by (unfold min_u8, max_u8; lia). reflexivity.
Qed.

Lemma src_rgb8_r_eq t rb gb bb rp gp bp c : row_is t rb gb bb rp gp bp -> bits_ok t -> 0 <= rpos t -> 0 <= c <= 255 -> src_rgb8_r rb rp c = get_r t c.
Proof.
  intros (Hr & Hg & Hb & Pr & Pg & Pb) (Br & Bg & Bb) P0 Hc . unfold src_rgb8_r, get_r, max_r. subst rb rp.
  destruct (src_rgb8_MAX_eq (rbits t) Br) as (E1 & _ & _). rewrite E1. set (P := rpos t) in *. unfold as_u8. rewrite (Z.mod_small (Z.shiftr c _) 256) by (split; [apply Z.shiftr_nonneg; lia | assert (Z.shiftr c P <= c) by (rewrite Z.shiftr_div_pow2 by lia; apply Z.div_le_upper_bound; [apply Z.pow_pos_nonneg; lia | assert (1 <= 2 ^ P) by (apply (Z.pow_le_mono_r 2 0 P); lia); nia]); lia]). reflexivity.
Qed.
Lemma src_rgb8_g_eq t rb gb bb rp gp bp c : row_is t rb gb bb rp gp bp -> bits_ok t -> 0 <= gpos t -> 0 <= c <= 255 -> src_rgb8_g gb gp c = get_g t c.
Proof.
  intros (Hr & Hg & Hb & Pr & Pg & Pb) (Br & Bg & Bb) P0 Hc . unfold src_rgb8_g, get_g, max_g. subst gb gp.
  destruct (src_rgb8_MAX_eq (gbits t) Bg) as (_ & E2 & _). rewrite E2. set (P := gpos t) in *. unfold as_u8. rewrite (Z.mod_small (Z.shiftr c _) 256) by (split; [apply Z.shiftr_nonneg; lia | assert (Z.shiftr c P <= c) by (rewrite Z.shiftr_div_pow2 by lia; apply Z.div_le_upper_bound; [apply Z.pow_pos_nonneg; lia | assert (1 <= 2 ^ P) by (apply (Z.pow_le_mono_r 2 0 P); lia); nia]); lia]). reflexivity.
Qed.
Lemma src_rgb8_b_eq t rb gb bb rp gp bp c : row_is t rb gb bb rp gp bp -> bits_ok t -> 0 <= bpos t -> 0 <= c <= 255 -> src_rgb8_b bb bp c = get_b t c.
Proof.
  intros (Hr & Hg & Hb & Pr & Pg & Pb) (Br & Bg & Bb) P0 Hc . unfold src_rgb8_b, get_b, max_b. subst bb bp.
  destruct (src_rgb8_MAX_eq (bbits t) Bb) as (_ & _ & E3). rewrite E3. set (P := bpos t) in *. unfold as_u8. rewrite (Z.mod_small (Z.shiftr c _) 256) by (split; [apply Z.shiftr_nonneg; lia | assert (Z.shiftr c P <= c) by (rewrite Z.shiftr_div_pow2 by lia; apply Z.div_le_upper_bound; [apply Z.pow_pos_nonneg; lia | assert (1 <= 2 ^ P) by (apply (Z.pow_le_mono_r 2 0 P); lia); nia]); lia]). reflexivity.
Qed.

Lemma src_rgb8_mask_eq t rb gb bb rp gp bp :
  row_is t rb gb bb rp gp bp -> bits_ok t -> fits t 255 -> src_rgb8_RGB_MASK rb gb bb rp gp bp = rgb_mask t.
Proof.
  intros (Hr & Hg & Hb & Pr & Pg & Pb) (Br & Bg & Bb) (F1 & F2 & F3 & F4 & F5 & F6).
  unfold src_rgb8_RGB_MASK, src_rgb8_R_MASK, src_rgb8_G_MASK, src_rgb8_B_MASK, rgb_mask.
  unfold r_mask, g_mask, b_mask, max_r, max_g, max_b in *. subst rb gb bb rp gp bp.
  destruct (src_rgb8_MAX_eq (rbits t) Br) as (E1 & _ & _). destruct (src_rgb8_MAX_eq (gbits t) Bg) as (_ & E2 & _).
  destruct (src_rgb8_MAX_eq (bbits t) Bb) as (_ & _ & E3). rewrite E1, E2, E3.
  pose proof (chan_max_range (rbits t)). pose proof (chan_max_range (gbits t)). pose proof (chan_max_range (bbits t)).
  assert (0 <= Z.shiftl (chan_max (rbits t)) (rpos t)) by (apply Z.shiftl_nonneg; lia).
  assert (0 <= Z.shiftl (chan_max (gbits t)) (gpos t)) by (apply Z.shiftl_nonneg; lia).
  assert (0 <= Z.shiftl (chan_max (bbits t)) (bpos t)) by (apply Z.shiftl_nonneg; lia).
  
  rewrite !Casts.shl_u8_id by (unfold min_u8, max_u8; lia). reflexivity.
Qed.

(* ---- storage type u16 ---- *)
Lemma src_rgb16_MAX_eq bits : 0 <= bits < 64 ->
  src_rgb16_MAX_R bits = chan_max bits /\ src_rgb16_MAX_G bits = chan_max bits /\ src_rgb16_MAX_B bits = chan_max bits.
Proof.
  intros H. unfold src_rgb16_MAX_R, src_rgb16_MAX_G, src_rgb16_MAX_B, chan_max, as_u8, Casts.cast_usize_u8, wrap_u8, wrap_unsigned.
  rewrite shl_usize_1 by exact H. repeat split.
Qed.

Lemma src_rgb16_new_eq t rb gb bb rp gp bp r g b :
  row_is t rb gb bb rp gp bp -> bits_ok t -> fits t 65535 -> 0 <= r <= 255 -> 0 <= g <= 255 -> 0 <= b <= 255 ->
  src_rgb16_new rb gb bb rp gp bp r g b = rgb_new t r g b.
Proof.
  intros (Hr & Hg & Hb & Pr & Pg & Pb) (Br & Bg & Bb) (F1 & F2 & F3 & F4 & F5 & F6) Rr Rg Rb.
  unfold src_rgb16_new, rgb_new. cbv zeta. unfold r_mask, g_mask, b_mask, max_r, max_g, max_b in *.
  subst rb gb bb rp gp bp.
  destruct (src_rgb16_MAX_eq (rbits t) Br) as (E1 & _ & _). destruct (src_rgb16_MAX_eq (gbits t) Bg) as (_ & E2 & _).
  destruct (src_rgb16_MAX_eq (bbits t) Bb) as (_ & _ & E3). rewrite E1, E2, E3.
  pose proof (chan_max_range (rbits t)). pose proof (chan_max_range (gbits t)). pose proof (chan_max_range (bbits t)).
  pose proof (shiftl_land_le r (chan_max (rbits t)) (rpos t) ltac:(lia) ltac:(lia) F1).
  pose proof (shiftl_land_le g (chan_max (gbits t)) (gpos t) ltac:(lia) ltac:(lia) F2).
  pose proof (shiftl_land_le b (chan_max (bbits t)) (bpos t) ltac:(lia) ltac:(lia) F3).
  pose proof (land_bound r (chan_max (rbits t)) ltac:(lia)). pose proof (land_bound g (chan_max (gbits t)) ltac:(lia)). pose proof (land_bound b (chan_max (bbits t)) ltac:(lia)).
  rewrite !Casts.cast_u8_u16_id by lia.
  rewrite !Casts.shl_u16_id by (unfold min_u16, max_u16; lia). reflexivity.
Qed.

Lemma src_rgb16_r_eq t rb gb bb rp gp bp c : row_is t rb gb bb rp gp bp -> bits_ok t -> 0 <= rpos t -> src_rgb16_r rb rp c = get_r t c.
Proof.
  intros (Hr & Hg & Hb & Pr & Pg & Pb) (Br & Bg & Bb) P0 . unfold src_rgb16_r, get_r, max_r. subst rb rp.
  destruct (src_rgb16_MAX_eq (rbits t) Br) as (E1 & _ & _). rewrite E1. set (P := rpos t) in *. unfold Casts.cast_u16_u8, wrap_u8, wrap_unsigned, as_u8. reflexivity.
Qed.
Lemma src_rgb16_g_eq t rb gb bb rp gp bp c : row_is t rb gb bb rp gp bp -> bits_ok t -> 0 <= gpos t -> src_rgb16_g gb gp c = get_g t c.
Proof.
  intros (Hr & Hg & Hb & Pr & Pg & Pb) (Br & Bg & Bb) P0 . unfold src_rgb16_g, get_g, max_g. subst gb gp.
  destruct (src_rgb16_MAX_eq (gbits t) Bg) as (_ & E2 & _). rewrite E2. set (P := gpos t) in *. unfold Casts.cast_u16_u8, wrap_u8, wrap_unsigned, as_u8. reflexivity.
Qed.
Lemma src_rgb16_b_eq t rb gb bb rp gp bp c : row_is t rb gb bb rp gp bp -> bits_ok t -> 0 <= bpos t -> src_rgb16_b bb bp c = get_b t c.
Proof.
  intros (Hr & Hg & Hb & Pr & Pg & Pb) (Br & Bg & Bb) P0 . unfold src_rgb16_b, get_b, max_b. subst bb bp.
  destruct (src_rgb16_MAX_eq (bbits t) Bb) as (_ & _ & E3). rewrite E3. set (P := bpos t) in *. unfold Casts.cast_u16_u8, wrap_u8, wrap_unsigned, as_u8. reflexivity.
Qed.

Lemma src_rgb16_mask_eq t rb gb bb rp gp bp :
  row_is t rb gb bb rp gp bp -> bits_ok t -> fits t 65535 -> src_rgb16_RGB_MASK rb gb bb rp gp bp = rgb_mask t.
Proof.
  intros (Hr & Hg & Hb & Pr & Pg & Pb) (Br & Bg & Bb) (F1 & F2 & F3 & F4 & F5 & F6).
  unfold src_rgb16_RGB_MASK, src_rgb16_R_MASK, src_rgb16_G_MASK, src_rgb16_B_MASK, rgb_mask.
  unfold r_mask, g_mask, b_mask, max_r, max_g, max_b in *. subst rb gb bb rp gp bp.
  destruct (src_rgb16_MAX_eq (rbits t) Br) as (E1 & _ & _). destruct (src_rgb16_MAX_eq (gbits t) Bg) as (_ & E2 & _).
  destruct (src_rgb16_MAX_eq (bbits t) Bb) as (_ & _ & E3). rewrite E1, E2, E3.
  pose proof (chan_max_range (rbits t)). pose proof (chan_max_range (gbits t)). pose proof (chan_max_range (bbits t)).
  assert (0 <= Z.shiftl (chan_max (rbits t)) (rpos t)) by (apply Z.shiftl_nonneg; lia).
  assert (0 <= Z.shiftl (chan_max (gbits t)) (gpos t)) by (apply Z.shiftl_nonneg; lia).
  assert (0 <= Z.shiftl (chan_max (bbits t)) (bpos t)) by (apply Z.shiftl_nonneg; lia).
  rewrite !Casts.cast_u8_u16_id by lia.
  rewrite !Casts.shl_u16_id by (unfold min_u16, max_u16; lia). reflexivity.
Qed.

(* ---- storage type u32 ---- *)
Lemma src_rgb32_MAX_eq bits : 0 <= bits < 64 ->
  src_rgb32_MAX_R bits = chan_max bits /\ src_rgb32_MAX_G bits = chan_max bits /\ src_rgb32_MAX_B bits = chan_max bits.
Proof.
  intros H. unfold src_rgb32_MAX_R, src_rgb32_MAX_G, src_rgb32_MAX_B, chan_max, as_u8, Casts.cast_usize_u8, wrap_u8, wrap_unsigned.
  rewrite shl_usize_1 by exact H. repeat split.
Qed.

Lemma src_rgb32_new_eq t rb gb bb rp gp bp r g b :
  row_is t rb gb bb rp gp bp -> bits_ok t -> fits t 4294967295 -> 0 <= r <= 255 -> 0 <= g <= 255 -> 0 <= b <= 255 ->
  src_rgb32_new rb gb bb rp gp bp r g b = rgb_new t r g b.
Proof.
  intros (Hr & Hg & Hb & Pr & Pg & Pb) (Br & Bg & Bb) (F1 & F2 & F3 & F4 & F5 & F6) Rr Rg Rb.
  unfold src_rgb32_new, rgb_new. cbv zeta. unfold r_mask, g_mask, b_mask, max_r, max_g, max_b in *.
  subst rb gb bb rp gp bp.
  destruct (src_rgb32_MAX_eq (rbits t) Br) as (E1 & _ & _). destruct (src_rgb32_MAX_eq (gbits t) Bg) as (_ & E2 & _).
  destruct (src_rgb32_MAX_eq (bbits t) Bb) as (_ & _ & E3). rewrite E1, E2, E3.
  pose proof (chan_max_range (rbits t)). pose proof (chan_max_range (gbits t)). pose proof (chan_max_range (bbits t)).
  pose proof (shiftl_land_le r (chan_max (rbits t)) (rpos t) ltac:(lia) ltac:(lia) F1).
  pose proof (shiftl_land_le g (chan_max (gbits t)) (gpos t) ltac:(lia) ltac:(lia) F2).
  pose proof (shiftl_land_le b (chan_max (bbits t)) (bpos t) ltac:(lia) ltac:(lia) F3).
  pose proof (land_bound r (chan_max (rbits t)) ltac:(lia)). pose proof (land_bound g (chan_max (gbits t)) ltac:(lia)). pose proof (land_bound b (chan_max (bbits t)) ltac:(lia)).
  rewrite !Casts.cast_u8_u32_id by lia.
  rewrite !Casts.shl_u32_id by (unfold min_u32, max_u32; lia). reflexivity.
Qed.

Lemma src_rgb32_r_eq t rb gb bb rp gp bp c : row_is t rb gb bb rp gp bp -> bits_ok t -> 0 <= rpos t -> src_rgb32_r rb rp c = get_r t c.
Proof.
  intros (Hr & Hg & Hb & Pr & Pg & Pb) (Br & Bg & Bb) P0 . unfold src_rgb32_r, get_r, max_r. subst rb rp.
  destruct (src_rgb32_MAX_eq (rbits t) Br) as (E1 & _ & _). rewrite E1. set (P := rpos t) in *. unfold Casts.cast_u32_u8, wrap_u8, wrap_unsigned, as_u8. reflexivity.
Qed.
Lemma src_rgb32_g_eq t rb gb bb rp gp bp c : row_is t rb gb bb rp gp bp -> bits_ok t -> 0 <= gpos t -> src_rgb32_g gb gp c = get_g t c.
Proof.
  intros (Hr & Hg & Hb & Pr & Pg & Pb) (Br & Bg & Bb) P0 . unfold src_rgb32_g, get_g, max_g. subst gb gp.
  destruct (src_rgb32_MAX_eq (gbits t) Bg) as (_ & E2 & _). rewrite E2. set (P := gpos t) in *. unfold Casts.cast_u32_u8, wrap_u8, wrap_unsigned, as_u8. reflexivity.
Qed.
Lemma src_rgb32_b_eq t rb gb bb rp gp bp c : row_is t rb gb bb rp gp bp -> bits_ok t -> 0 <= bpos t -> src_rgb32_b bb bp c = get_b t c.
Proof.
  intros (Hr & Hg & Hb & Pr & Pg & Pb) (Br & Bg & Bb) P0 . unfold src_rgb32_b, get_b, max_b. subst bb bp.
  destruct (src_rgb32_MAX_eq (bbits t) Bb) as (_ & _ & E3). rewrite E3. set (P := bpos t) in *. unfold Casts.cast_u32_u8, wrap_u8, wrap_unsigned, as_u8. reflexivity.
Qed.

Lemma src_rgb32_mask_eq t rb gb bb rp gp bp :
  row_is t rb gb bb rp gp bp -> bits_ok t -> fits t 4294967295 -> src_rgb32_RGB_MASK rb gb bb rp gp bp = rgb_mask t.
Proof.
  intros (Hr & Hg & Hb & Pr & Pg & Pb) (Br & Bg & Bb) (F1 & F2 & F3 & F4 & F5 & F6).
  unfold src_rgb32_RGB_MASK, src_rgb32_R_MASK, src_rgb32_G_MASK, src_rgb32_B_MASK, rgb_mask.
  unfold r_mask, g_mask, b_mask, max_r, max_g, max_b in *. subst rb gb bb rp gp bp.
  destruct (src_rgb32_MAX_eq (rbits t) Br) as (E1 & _ & _). destruct (src_rgb32_MAX_eq (gbits t) Bg) as (_ & E2 & _).
  destruct (src_rgb32_MAX_eq (bbits t) Bb) as (_ & _ & E3). rewrite E1, E2, E3.
  pose proof (chan_max_range (rbits t)). pose proof (chan_max_range (gbits t)). pose proof (chan_max_range (bbits t)).
  assert (0 <= Z.shiftl (chan_max (rbits t)) (rpos t)) by (apply Z.shiftl_nonneg; lia).
  assert (0 <= Z.shiftl (chan_max (gbits t)) (gpos t)) by (apply Z.shiftl_nonneg; lia).
  assert (0 <= Z.shiftl (chan_max (bbits t)) (bpos t)) by (apply Z.shiftl_nonneg; lia).
  rewrite !Casts.cast_u8_u32_id by lia.
  rewrite !Casts.shl_u32_id by (unfold min_u32, max_u32; lia). reflexivity.
Qed.

(* ---- conversion.rs macros ---- *)
Lemma max_range t : 0 <= max_r t <= 255 /\ 0 <= max_g t <= 255 /\ 0 <= max_b t <= 255.
Proof. unfold max_r, max_g, max_b. repeat split; apply chan_max_range. Qed.

Lemma get_range t c : 0 <= get_r t c <= 255 /\ 0 <= get_g t c <= 255 /\ 0 <= get_b t c <= 255.
Proof.
  unfold get_r, get_g, get_b, as_u8.
  pose proof (Z.mod_pos_bound (Z.shiftr c (rpos t)) 256). pose proof (Z.mod_pos_bound (Z.shiftr c (gpos t)) 256).
  pose proof (Z.mod_pos_bound (Z.shiftr c (bpos t)) 256).
  pose proof (land_bound (Z.shiftr c (rpos t) mod 256) (max_r t)). pose proof (land_bound (Z.shiftr c (gpos t) mod 256) (max_g t)).
  pose proof (land_bound (Z.shiftr c (bpos t) mod 256) (max_b t)). lia.
Qed.

Lemma src_conv_rgb_rgb_eq a b c : src_conv_rgb_rgb a b c = conv_rgb_rgb a b c.
Proof.
  unfold src_conv_rgb_rgb, conv_rgb_rgb.
  destruct (max_range a) as (A1 & A2 & A3). destruct (max_range b) as (B1 & B2 & B3). destruct (get_range a c) as (G1 & G2 & G3).
  rewrite !src_convert_channel_eq by assumption. reflexivity.
Qed.

Lemma src_with_rgb888_eq t r g b :
  0 <= r <= 255 -> 0 <= g <= 255 -> 0 <= b <= 255 -> src_with_rgb888 t r g b = with_rgb888 t r g b.
Proof.
  intros Hr Hg Hb. unfold src_with_rgb888, with_rgb888.
  destruct (max_range t) as (A1 & A2 & A3). destruct (max_range via_rgb) as (B1 & B2 & B3).
  rewrite !src_convert_channel_eq by assumption. reflexivity.
Qed.

(* gray types: the channel value and MAX_LUMA are u8 *)
Lemma src_conv_gray_gray_eq a b c :
  0 <= max_luma a <= 255 -> 0 <= max_luma b <= 255 -> 0 <= c <= 255 ->
  src_conv_gray_gray a b c = conv_gray_gray a b c.
Proof.
  intros Ha Hb Hc. unfold src_conv_gray_gray, conv_gray_gray, luma_of.
  rewrite src_convert_channel_eq by assumption. reflexivity.
Qed.

Lemma src_conv_gray_rgb_eq a b c :
  0 <= max_luma a <= 255 -> 0 <= c <= 255 -> src_conv_gray_rgb a b c = conv_gray_rgb a b c.
Proof.
  intros Ha Hc. unfold src_conv_gray_rgb, conv_gray_rgb, luma_of.
  destruct (max_range b) as (B1 & B2 & B3).
  rewrite !src_convert_channel_eq by assumption. reflexivity.
Qed.

(* rgb -> gray / binary: `Rgb888::from(x)` and `Gray8::new(v).into()` are the configured glue (Colormodel.into_or) *)
Lemma src_conv_rgb_gray_eq a b c : src_conv_rgb_gray b a c = conv_rgb_gray a b c.
Proof. reflexivity. Qed.

Lemma src_conv_rgb_bin_eq a c : src_conv_rgb_bin a c = conv_rgb_bin a c.
Proof. unfold src_conv_rgb_bin, conv_rgb_bin. rewrite Z.geb_leb. reflexivity. Qed.

Lemma src_conv_gray_bin_eq a c : src_conv_gray_bin a c = conv_gray_bin a c.
Proof. unfold src_conv_gray_bin, conv_gray_bin. rewrite Z.geb_leb. reflexivity. Qed.

(* ---- round 5 (4): the hypotheses bits_ok / fits of the template theorems hold for every RGB row of the colour table, at the
   maximum of the row's own storage type (audit3 A8); hence `new` of the template of that storage type is rgb_new of the row ---- *)
Definition storage_max (t : crow) : Z := 2 ^ raw_sbits (c_raw t) - 1.
Definition rgb_row_ok (t : crow) : Prop :=
  match c_kind t with KRgb _ _ _ _ => bits_ok t /\ fits t (storage_max t) | _ => True end.
Lemma color_table_rows_ok : Forall rgb_row_ok color_table.
Proof.
  unfold color_table. repeat (apply Forall_cons || apply Forall_nil); unfold rgb_row_ok; cbn [c_kind row_BinaryColor row_Gray2 row_Gray4 row_Gray8 row_Rgb332 row_Rgb444 row_Rgb555 row_Bgr555 row_Rgb565 row_Bgr565 row_Rgb666 row_Bgr666 row_Rgb888 row_Bgr888]; try exact I;
  unfold bits_ok, fits; repeat split; vm_compute; first [reflexivity | intro H; discriminate H].
Qed.

Lemma row_is_self t : row_is t (rbits t) (gbits t) (bbits t) (rpos t) (gpos t) (bpos t).
Proof. repeat split; reflexivity. Qed.

Lemma color_table_rgb_new t o rb gb bb r g b : In t color_table -> c_kind t = KRgb o rb gb bb ->
  0 <= r <= 255 -> 0 <= g <= 255 -> 0 <= b <= 255 ->
  (raw_sbits (c_raw t) = 8 -> src_rgb8_new (rbits t) (gbits t) (bbits t) (rpos t) (gpos t) (bpos t) r g b = rgb_new t r g b) /\
  (raw_sbits (c_raw t) = 16 -> src_rgb16_new (rbits t) (gbits t) (bbits t) (rpos t) (gpos t) (bpos t) r g b = rgb_new t r g b) /\
  (raw_sbits (c_raw t) = 32 -> src_rgb32_new (rbits t) (gbits t) (bbits t) (rpos t) (gpos t) (bpos t) r g b = rgb_new t r g b).
Proof.
  intros Hin Hk Hr Hg Hb. pose proof (proj1 (Forall_forall _ _) color_table_rows_ok t Hin) as Hok.
  unfold rgb_row_ok in Hok. rewrite Hk in Hok. destruct Hok as [Hbits Hfits]. unfold storage_max in Hfits.
  repeat split; intros E; rewrite E in Hfits.
  - apply (src_rgb8_new_eq t); try assumption; apply row_is_self.
  - apply (src_rgb16_new_eq t); try assumption; apply row_is_self.
  - apply (src_rgb32_new_eq t); try assumption; apply row_is_self.
Qed.
