(* translate/r2c tie, round 4 (2): the Cropped colour iterator (src/iterator/contiguous.rs: Cropped::new, Iterator::next).
   The generic iterator I is the model's colour stream (Target.stream); `iter.next()` and `iter.nth(n)` - `&mut self` methods
   of the generic parameter - are function parameters of the generated definitions returning (new iterator, item);
   instantiated with the stream primitives Target.snext / snth the generated functions equal Target.cropped_new /
   cropped_next (state and result swapped: the generated `next` returns (new self, item)). *)
From EG Require Import Base.Prelude Base.Casts Model.Geometry Model.Target Gen.SrcGeometry Gen.SrcCropped Proofs.SrcGeometry Proofs.SrcRectFacts.
Set Default Timeout 60.
(* the generated definitions that cast to usize (`as usize`, `usize::try_from`) take the width of usize as Casts.UsizeW; the model
   of this property works with 64-bit usize (exact integers in range): taken at that width *)
#[local] Existing Instance Casts.usize64_w.

Definition st_next (s : stream) : stream * option Z := (snd (snext s), fst (snext s)).
Definition st_nth (s : stream) (n : Z) : stream * option Z := (snd (snth (Z.to_nat n) s), fst (snth (Z.to_nat n) s)).

Lemma src_cropped_next_eq st :
  src_Cropped_next st_next st_nth st = (snd (cropped_next st), fst (cropped_next st)).
Proof.
  unfold src_Cropped_next, cropped_next, st_next, st_nth. destruct st as [it x y sz0 rs]. cbn [c_iter c_x c_y c_size c_row_skip].
  destruct ((sh sz0 <=? y) || (sw sz0 =? 0))%bool; [reflexivity|].
  destruct (x <? sw sz0).
  - destruct (snext it); reflexivity.
  - destruct (y + 1 <? sh sz0); [|reflexivity]. destruct (snth (Z.to_nat rs) it); reflexivity.
Qed.

Lemma src_cropped_new_eq it size crop :
  size_i32 size -> size_i32 (sz crop) ->
  src_Cropped_new st_nth it size crop = cropped_new it size crop.
Proof.
  intros Hs Hc. pose (ca := intersection (R (P 0 0) size) crop).
  destruct (origin_intersection_facts size crop Hs Hc) as [Hx [Hy Hw]]. fold ca in Hx, Hy, Hw. unfold src_Cropped_new, cropped_new. cbv zeta.
  change (src_Rectangle_new src_Point_zero size) with (R (P 0 0) size).
  rewrite src_Rectangle_intersection_eq by assumption. fold ca.
  destruct Hs as [Hsw Hsh]. unfold i32_max in *.
  assert (E1 : Casts.cast_i32_usize (py (tl ca)) = py (tl ca)) by (apply Casts.cast_i32_usize_id; lia).
  assert (E2 : Casts.cast_i32_usize (px (tl ca)) = px (tl ca)) by (apply Casts.cast_i32_usize_id; lia).
  assert (E3 : Casts.cast_u32_usize (sw size) = sw size) by (apply Casts.cast_u32_usize_id; lia).
  assert (E4 : Casts.cast_u32_usize (sat_sub_u32 (sw size) (sw (sz ca))) = sat_sub_u32 (sw size) (sw (sz ca))).
  { apply Casts.cast_u32_usize_id. unfold sat_sub_u32. lia. }
  rewrite E1, E2, E3, E4.
  destruct (0 <? py (tl ca) * sw size + px (tl ca)); [|reflexivity].
  unfold st_nth. cbn [fst]. reflexivity.
Qed.
