(* translate/r2c tie, round 3: Line::extents (src/primitives/line/mod.rs:110-172).  The source drives the ParallelsIterator
   step by step (a `loop` for StrokeOffset::None, `Iterator::last` for Left / Right); the translator generates a Fixpoint over
   fuel for the loop and a fuelled driver for `last()`.  Model/Thickline.v computes the list of all parallels first
   (parallels_run) and then folds it (last_alternating / last_opt).  Result: whenever the model's extents answers Some r
   (it always does for thickness >= 0: Proofs/Thickline.v parallels_total), the generated extents answers the same r for
   every fuel larger than the number of parallels. *)
From EG Require Import Base.Prelude Base.Lemmas Base.Casts Model.Geometry Model.Style Model.Line Model.Thickline.
From EG Require Import Proofs.Thickline.
From EG Require Import Gen.SrcGeometry Gen.SrcCircle Gen.SrcJoin Gen.SrcLine Gen.SrcThick Proofs.SrcLine Proofs.SrcThick.
Set Default Timeout 60.

(* the fuel argument of `next` / `new` is not used: next_parallel is called with the constant Thickline.np_fuel *)
Lemma src_next_fuel_irrelevant f s : src_ParallelsIterator_next f s = src_ParallelsIterator_next np_fuel s.
Proof. reflexivity. Qed.
Lemma src_new_fuel_irrelevant f l w so : src_ParallelsIterator_new f l w so = src_ParallelsIterator_new np_fuel l w so.
Proof. reflexivity. Qed.

Definition item_of (x : Bresenham * ltype) : bstate * ltype := (bs_of (fst x), snd x).

(* one model step, read off the generated `next` *)
Lemma run_step n s ps :
  parallels_run (Datatypes.S n) (ps_of s) = Some ps ->
  match src_ParallelsIterator_next np_fuel s with
  | None => False
  | Some (_, None) => ps = []
  | Some (s', Some x) => exists ps', ps = item_of x :: ps' /\ parallels_run n (ps_of s') = Some ps'
  end.
Proof.
  rewrite parallels_run_S. rewrite <- src_parallels_next_eq.
  destruct (src_ParallelsIterator_next np_fuel s) as [[s' [[b t]|]]|]; cbn [step_of].
  - destruct (parallels_run n (ps_of s')) as [ps'|]; [|discriminate]. intros [= <-]. exists ps'. split; reflexivity.
  - intros [= <-]. reflexivity.
  - discriminate.
Qed.

Definition mk_line (l : line) (reduce : point) (e : point * ltype) : line :=
  L (fst e) (psub (padd (fst e) (psub (l_end l) (l_start l)))
                  (match snd e with LNormal => P 0 0 | LExtra => reduce end)).

Lemma extents_loop_eq l t so reduce : forall F s el er ps n,
  parallels_run n (ps_of s) = Some ps -> (length ps < F)%nat ->
  src_Line_extents_loop1 F l t so s reduce el er
  = Some (mk_line l reduce (fst (last_alternating ps true el er)), mk_line l reduce (snd (last_alternating ps true el er))).
Proof.
  induction F as [|F IH]; intros s el er ps n Hr HF; [lia|].
  destruct n as [|n]; [discriminate|].
  cbn [src_Line_extents_loop1]. change (src_ParallelsIterator_next F s) with (src_ParallelsIterator_next np_fuel s).
  pose proof (run_step n s ps Hr) as H1.
  destruct (src_ParallelsIterator_next np_fuel s) as [[s1 [[b1 t1]|]]|]; [| subst ps; reflexivity | contradiction].
  destruct H1 as (ps1 & -> & Hr1). cbn [last_alternating item_of fst snd].
  destruct n as [|n]; [discriminate|].
  change (src_ParallelsIterator_next F s1) with (src_ParallelsIterator_next np_fuel s1).
  pose proof (run_step n s1 ps1 Hr1) as H2.
  destruct (src_ParallelsIterator_next np_fuel s1) as [[s2 [[b2 t2]|]]|]; [| subst ps1; reflexivity | contradiction].
  destruct H2 as (ps2 & -> & Hr2). cbn [last_alternating item_of fst snd].
  rewrite (IH s2 _ _ ps2 n Hr2); [reflexivity|]. cbn [length] in HF. lia.
Qed.

Lemma last_opt_cons {A} (a : A) l : last_opt (a :: l) = match last_opt l with Some y => Some y | None => Some a end.
Proof.
  revert a. induction l as [|b l IH]; intros a; [reflexivity|].
  change (last_opt (a :: b :: l)) with (last_opt (b :: l)). rewrite (IH b).
  destruct (last_opt l); reflexivity.
Qed.

Definition last_spec (ps : list (bstate * ltype)) (acc r : option (Bresenham * ltype)) : Prop :=
  option_map item_of r = match last_opt ps with Some x => Some x | None => option_map item_of acc end.

Lemma extents_last2_eq : forall F s acc ps n,
  parallels_run n (ps_of s) = Some ps -> (length ps < F)%nat ->
  exists r, src_Line_extents_last2 F s acc = Some r /\ last_spec ps acc r.
Proof.
  induction F as [|F IH]; intros s acc ps n Hr HF; [lia|].
  destruct n as [|n]; [discriminate|].
  cbn [src_Line_extents_last2]. change (src_ParallelsIterator_next F s) with (src_ParallelsIterator_next np_fuel s).
  pose proof (run_step n s ps Hr) as H1.
  destruct (src_ParallelsIterator_next np_fuel s) as [[s1 [x|]]|]; [| subst ps; exists acc; split; reflexivity | contradiction].
  destruct H1 as (ps1 & -> & Hr1).
  destruct (IH s1 (Some x) ps1 n Hr1 ltac:(cbn [length] in HF; lia)) as (r & E & S). exists r. split; [exact E|].
  unfold last_spec in *. rewrite last_opt_cons. rewrite S. destruct (last_opt ps1); reflexivity.
Qed.

Lemma extents_last3_eq : forall F s acc ps n,
  parallels_run n (ps_of s) = Some ps -> (length ps < F)%nat ->
  exists r, src_Line_extents_last3 F s acc = Some r /\ last_spec ps acc r.
Proof.
  induction F as [|F IH]; intros s acc ps n Hr HF; [lia|].
  destruct n as [|n]; [discriminate|].
  cbn [src_Line_extents_last3]. change (src_ParallelsIterator_next F s) with (src_ParallelsIterator_next np_fuel s).
  pose proof (run_step n s ps Hr) as H1.
  destruct (src_ParallelsIterator_next np_fuel s) as [[s1 [x|]]|]; [| subst ps; exists acc; split; reflexivity | contradiction].
  destruct H1 as (ps1 & -> & Hr1).
  destruct (IH s1 (Some x) ps1 n Hr1 ltac:(cbn [length] in HF; lia)) as (r & E & S). exists r. split; [exact E|].
  unfold last_spec in *. rewrite last_opt_cons. rewrite S. destruct (last_opt ps1); reflexivity.
Qed.

Lemma length_parallels_run : forall n s ps, parallels_run n s = Some ps -> (length ps <= n)%nat.
Proof.
  induction n as [|n IH]; intros s ps H; [discriminate|].
  rewrite parallels_run_S in H. destruct (parallels_next s) as [| |a s']; [discriminate| |].
  - injection H as <-. cbn. lia.
  - destruct (parallels_run n s') as [t|] eqn:E; [|discriminate]. injection H as <-. cbn [length]. specialize (IH s' t E). lia.
Qed.

(* next_parallel never touches the parameters of the parallels *)
Lemma next_parallel_par : forall f s sd p e s', next_parallel f s sd = Some (p, e, s') -> par_params s' = par_params s.
Proof.
  induction f as [|f IH]; intros s sd p e s' H; [discriminate|].
  cbn [next_parallel] in H.
  destruct sd.
  - destruct (bnext_all (perp_params s) (p_left s)) as [pt b'].
    destruct pt as [q|q].
    + injection H as <- <- <-. reflexivity.
    + destruct (flip s).
      * destruct (decrease_error (par_params s) (left_error s)) as [e' took]. destruct took.
        -- injection H as <- <- <-. reflexivity.
        -- apply IH in H. exact H.
      * destruct (increase_error (par_params s) (left_error s)) as [e' took]. destruct took.
        -- injection H as <- <- <-. reflexivity.
        -- apply IH in H. exact H.
  - destruct (bprevious_all (perp_params s) (p_right s)) as [pt b'].
    destruct pt as [q|q].
    + injection H as <- <- <-. reflexivity.
    + destruct (negb (flip s)).
      * destruct (decrease_error (par_params s) (right_error s)) as [e' took]. destruct took.
        -- injection H as <- <- <-. reflexivity.
        -- apply IH in H. exact H.
      * destruct (increase_error (par_params s) (right_error s)) as [e' took]. destruct took.
        -- injection H as <- <- <-. reflexivity.
        -- apply IH in H. exact H.
Qed.

Lemma parallels_new_par l w so s : parallels_new l w so = Some s -> par_params s = bparams_new (eff_line l).
Proof.
  unfold parallels_new. cbv zeta. fold (eff_line l).
  destruct (next_parallel np_fuel _ _) as [[[p e] s']|] eqn:E; [|discriminate].
  intros [= <-]. apply next_parallel_par in E. exact E.
Qed.

Theorem src_extents_eq l t so r F :
  extents l t so = Some r -> (parallels_fuel l (sat_u32_to_i32 t) < F)%nat ->
  src_Line_extents F l t so = Some r.
Proof.
  unfold extents, parallels. fold (eff_line l). set (w := sat_u32_to_i32 t).
  destruct (parallels_new l w so) as [S0|] eqn:En; [|discriminate].
  destruct (parallels_run (parallels_fuel l w) S0) as [ps|] eqn:Er; [|discriminate].
  intros Hx HF.
  pose proof (src_parallels_new_eq l w so) as Hn. rewrite En in Hn.
  unfold src_Line_extents. fold w. rewrite src_new_fuel_irrelevant.
  destruct (src_ParallelsIterator_new np_fuel l w so) as [s0|]; [|discriminate]. cbn [option_map] in Hn.
  injection Hn as Hs0.
  pose proof (parallels_new_par l w so S0 En) as Hpar. rewrite <- Hs0 in Hpar, Er.
  pose proof (length_parallels_run _ _ _ Er) as Hlen.
  set (reduce := src_Point_add _ _).
  assert (Hred : reduce = padd (pos_step_major (bparams_new (eff_line l))) (pos_step_minor (bparams_new (eff_line l)))).
  { subst reduce. rewrite <- Hpar. reflexivity. }
  rewrite <- Hred in Hx. cbv zeta in Hx |- *.
  destruct so.
  - rewrite (extents_loop_eq l t SONone reduce F s0 _ _ ps _ Er ltac:(lia)).
    destruct (last_alternating ps true (l_start l, LNormal) (l_start l, LNormal)) as [el er]. exact Hx.
  - destruct (extents_last2_eq F s0 None ps _ Er ltac:(lia)) as (o & E & Sp). rewrite E. unfold last_spec in Sp.
    destruct o as [[b tt]|]; cbn [option_map item_of fst snd] in Sp.
    + destruct (last_opt ps) as [[b' t']|]; [|discriminate]. injection Sp as <- <-. exact Hx.
    + destruct (last_opt ps) as [[b' t']|]; [discriminate|]. exact Hx.
  - destruct (extents_last3_eq F s0 None ps _ Er ltac:(lia)) as (o & E & Sp). rewrite E. unfold last_spec in Sp.
    destruct o as [[b tt]|]; cbn [option_map item_of fst snd] in Sp.
    + destruct (last_opt ps) as [[b' t']|]; [|discriminate]. injection Sp as <- <-. exact Hx.
    + destruct (last_opt ps) as [[b' t']|]; [discriminate|]. exact Hx.
Qed.
