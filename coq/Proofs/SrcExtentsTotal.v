(* translate/r2c tie, round 5 (3): the fuelled theorems "model = Some r -> enough fuel -> src = Some r" of Line::extents and the line
   joins say nothing when the model answers None.  It never does for widths up to 100000 (Proofs/JoinRange.v extents_within, on
   top of Proofs/Thickline.v parallels_total): so for those widths the generated definitions answer exactly the model's value
   for every sufficient fuel. *)
From EG Require Import Base.Prelude Base.Casts Model.Geometry Model.Style Model.Line Model.Thickline Model.Join.
From EG Require Import Gen.SrcGeometry Gen.SrcThick Gen.SrcLineJoin2 Proofs.SrcExtents Proofs.SrcLineJoin2.
From EG Require Proofs.JoinRange.
Set Default Timeout 60.

Lemma lwithin_exists l : exists V, 0 <= V /\ JoinRange.lwithin V l.
Proof.
  exists (Z.abs (px (l_start l)) + Z.abs (py (l_start l)) + Z.abs (px (l_end l)) + Z.abs (py (l_end l))).
  unfold JoinRange.lwithin, JoinRange.within. lia.
Qed.

Lemma extents_some l w so : 0 <= w <= 100000 -> exists r, extents l w so = Some r.
Proof.
  intros Hw. destruct (lwithin_exists l) as [V [HV Hl]].
  destruct (JoinRange.extents_within l w so V Hw HV Hl) as [a [b [E _]]]. exists (a, b). exact E.
Qed.

Theorem src_extents_total l w so : 0 <= w <= 100000 ->
  exists r, extents l w so = Some r /\
            forall F, (parallels_fuel l (sat_u32_to_i32 w) < F)%nat -> src_Line_extents F l w so = Some r.
Proof.
  intros Hw. destruct (extents_some l w so Hw) as [r E]. exists r. split; [exact E|].
  intros F HF. exact (src_extents_eq l w so r F E HF).
Qed.

Theorem src_lj_start_total start mid w so : 0 <= w <= 100000 ->
  exists j, lj_start start mid w so = Some j /\
            forall F, ext_fuel (L start mid) w F -> src_LineJoin_start F start mid w so = Some j.
Proof.
  intros Hw. destruct (extents_some (L start mid) w so Hw) as [[l r] E].
  assert (EJ : exists j, lj_start start mid w so = Some j) by (unfold lj_start; rewrite E; eexists; reflexivity).
  destruct EJ as [j EJ]. exists j. split; [exact EJ|]. intros F HF. exact (src_lj_start_eq _ _ _ _ _ F EJ HF).
Qed.

Theorem src_lj_end_total mid end_ w so : 0 <= w <= 100000 ->
  exists j, lj_end mid end_ w so = Some j /\
            forall F, ext_fuel (L mid end_) w F -> src_LineJoin_end F mid end_ w so = Some j.
Proof.
  intros Hw. destruct (extents_some (L mid end_) w so Hw) as [[l r] E].
  assert (EJ : exists j, lj_end mid end_ w so = Some j) by (unfold lj_end; rewrite E; eexists; reflexivity).
  destruct EJ as [j EJ]. exists j. split; [exact EJ|]. intros F HF. exact (src_lj_end_eq _ _ _ _ _ F EJ HF).
Qed.

Theorem src_lj_from_points_total start mid end_ w so : 0 <= w <= 100000 ->
  exists j, lj_from_points start mid end_ w so = Some j /\
            forall F, ext_fuel (L start mid) w F -> ext_fuel (L mid end_) w F -> src_LineJoin_from_points F start mid end_ w so = Some j.
Proof.
  intros Hw. destruct (extents_some (L start mid) w so Hw) as [[fl fr] E1]. destruct (extents_some (L mid end_) w so Hw) as [[sl sr] E2].
  assert (EJ : exists j, lj_from_points start mid end_ w so = Some j) by (unfold lj_from_points; rewrite E1, E2; eexists; reflexivity).
  destruct EJ as [j EJ]. exists j. split; [exact EJ|]. intros F H1 H2. exact (src_lj_from_points_eq _ _ _ _ _ _ F EJ H1 H2).
Qed.
