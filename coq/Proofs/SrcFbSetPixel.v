(* translate/r2c tie, round 3 (4): Framebuffer::set_pixel of the RawU8 impl (src/framebuffer.rs:210-219; the sub-byte and
   multi-byte set_pixel bodies are macro bodies).  `self.data[i] = v` is Casts.slice_set under the range test (None = the index panic);
   `usize::try_from(p.x)` is Casts.try_from_range; WIDTH / HEIGHT (const generics of the impl) and `c.into()` (the colour ->
   raw conversion of the generic colour type, property C12's subject) are parameters.  The data afterwards equals
   Framebuffer.fb_set_pixel on the U8 configuration, for i32 coordinates. *)
From EG Require Import Base.Prelude Base.Casts Model.Geometry Model.Rawdata Model.Framebuffer Gen.SrcGeometry Gen.SrcRawData Gen.SrcFbSetPixel Proofs.SrcLoadStore.
Set Default Timeout 60.
(* the generated definitions that cast to usize (`as usize`, `usize::try_from`) take the width of usize as Casts.UsizeW; the model
   of this property works with 64-bit usize (exact integers in range): taken at that width *)
#[local] Existing Instance Casts.usize64_w.

(* the point is inside the WIDTH x HEIGHT framebuffer (both `usize::try_from` succeed and the bounds test passes) *)
Definition in_fb (W H : Z) (p : point) : bool := (0 <=? px p) && (0 <=? py p) && ((px p <? W) && (py p <? H)).

(* the generated set_pixel is option-valued: None = the index panic of `self.data[i] = v`.  It panics exactly when the point is
   inside the framebuffer and the index is outside the data array; otherwise the data is the model's. *)
Lemma src_fb_set_pixel_u8_eq alt W H into fb p c :
  i32_min <= px p <= i32_max -> i32_min <= py p <= i32_max ->
  src_Framebuffer_set_pixel W H into fb p c
  = if in_fb W H p && negb (py p * W + px p <? Z.of_nat (length (Framebuffer_data fb)))
    then None
    else Some (Build_Framebuffer (fb_set_pixel (FbCfg U8 alt W H) (Framebuffer_data fb) (px p, py p) (into c)) (Framebuffer_n_assert fb)).
Proof.
  intros Hx Hy. destruct fb as [data na].
  unfold src_Framebuffer_set_pixel, fb_set_pixel, in_fb, Casts.try_from_usize, Casts.try_from_range, Casts.usize_max_w, Casts.usize64_w, Casts.max_usize, i32_min, i32_max in *.
  cbn [fb_t fb_w fb_h fb_alt Framebuffer_data Framebuffer_n_assert].
  destruct (Z.leb_spec 0 (px p)) as [X|X]; cbn [andb].
  2:{ destruct ((px p <=? 18446744073709551615)); reflexivity. }
  destruct (Z.leb_spec 0 (py p)) as [Y|Y]; cbn [andb].
  2:{ rewrite (proj2 (Z.leb_le (px p) 18446744073709551615)) by lia. destruct (py p <=? 18446744073709551615); reflexivity. }
  rewrite (proj2 (Z.leb_le (px p) 18446744073709551615)) by lia.
  rewrite (proj2 (Z.leb_le (py p) 18446744073709551615)) by lia.
  destruct ((px p <? W) && (py p <? H))%bool eqn:E; [|reflexivity].
  apply andb_prop in E. destruct E as [E1 E2]. apply Z.ltb_lt in E1. cbn [andb].
  cbv zeta. rewrite !Casts.cast_i32_usize_id by lia.
  rewrite (proj2 (Z.leb_le 0 (py p * W + px p))) by nia. cbn [andb].
  destruct (py p * W + px p <? Z.of_nat (length data)); cbn [negb]; [|reflexivity].
  unfold src_RawU8_into_inner. rewrite slice_set_eq by nia. reflexivity.
Qed.

(* with the buffer that CHECK_N demands (N >= WIDTH * HEIGHT) set_pixel never panics *)
Lemma src_fb_set_pixel_u8_some alt W H into fb p c :
  i32_min <= px p <= i32_max -> i32_min <= py p <= i32_max -> W * H <= Z.of_nat (length (Framebuffer_data fb)) ->
  src_Framebuffer_set_pixel W H into fb p c
  = Some (Build_Framebuffer (fb_set_pixel (FbCfg U8 alt W H) (Framebuffer_data fb) (px p, py p) (into c)) (Framebuffer_n_assert fb)).
Proof.
  intros Hx Hy HB. rewrite (src_fb_set_pixel_u8_eq alt) by assumption.
  destruct (in_fb W H p) eqn:E; [|reflexivity]. unfold in_fb in E.
  repeat (apply andb_prop in E; destruct E as [E ?]).
  repeat match goal with H : andb _ _ = true |- _ => apply andb_prop in H; destruct H end.
  repeat match goal with H : (_ <=? _) = true |- _ => apply Z.leb_le in H | H : (_ <? _) = true |- _ => apply Z.ltb_lt in H end.
  rewrite (proj2 (Z.ltb_lt _ _)) by nia. reflexivity.
Qed.
