(* translate/r2c tie, round 3 (4): Framebuffer::set_pixel of the RawU8 impl (src/framebuffer.rs:210-219; the sub-byte and
   multi-byte set_pixel bodies are macro bodies).  `self.data[i] = v` is Casts.slice_set (a bounds-checked list update);
   `usize::try_from(p.x)` is Casts.try_from_range; WIDTH / HEIGHT (const generics of the impl) and `c.into()` (the colour ->
   raw conversion of the generic colour type, property C12's subject) are parameters.  The data afterwards equals
   Framebuffer.fb_set_pixel on the U8 configuration, for i32 coordinates. *)
From EG Require Import Base.Prelude Base.Casts Model.Geometry Model.Rawdata Model.Framebuffer Gen.SrcGeometry Gen.SrcRawData Gen.SrcFbSetPixel Proofs.SrcLoadStore.
Set Default Timeout 60.

Lemma src_fb_set_pixel_u8_eq alt W H into fb p c :
  i32_min <= px p <= i32_max -> i32_min <= py p <= i32_max ->
  Framebuffer_data (src_Framebuffer_set_pixel W H into fb p c)
  = fb_set_pixel (FbCfg U8 alt W H) (Framebuffer_data fb) (px p, py p) (into c).
Proof.
  intros Hx Hy. unfold src_Framebuffer_set_pixel, fb_set_pixel, Casts.try_from_range, i32_min, i32_max in *.
  cbn [fb_t fb_w fb_h fb_alt].
  destruct (Z.leb_spec 0 (px p)) as [X|X]; cbn [andb].
  2:{ destruct ((px p <=? 18446744073709551615)); reflexivity. }
  destruct (Z.leb_spec 0 (py p)) as [Y|Y]; cbn [andb].
  2:{ rewrite (proj2 (Z.leb_le (px p) 18446744073709551615)) by lia. destruct (py p <=? 18446744073709551615); reflexivity. }
  rewrite (proj2 (Z.leb_le (px p) 18446744073709551615)) by lia.
  rewrite (proj2 (Z.leb_le (py p) 18446744073709551615)) by lia.
  destruct ((px p <? W) && (py p <? H))%bool eqn:E; [|reflexivity].
  apply andb_prop in E. destruct E as [E1 E2]. apply Z.ltb_lt in E1.
  cbn [Framebuffer_data]. rewrite !Casts.cast_i32_usize_id by lia.
  unfold src_RawU8_into_inner. apply slice_set_eq.
  nia.
Qed.
