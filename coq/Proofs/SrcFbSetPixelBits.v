(* translate/r2c tie, round 3 (4): the sub-byte Framebuffer::set_pixel (body of `impl_bit!`, src/framebuffer.rs:153-172),
   translated as a template over the abstract raw type; bits per pixel, data order, WIDTH, HEIGHT and `c.into()` are
   parameters.  `self.data[i]` is Casts.slice_idx, `self.data[i] = v` Casts.slice_set, `<<` on u8 truncates (Casts.shl_u8).
   With bits per pixel := bits t the data afterwards equals Framebuffer.fb_set_pixel for the three sub-byte raw types. *)
From EG Require Import Base.Prelude Base.Casts Model.Geometry Model.Rawdata Model.Framebuffer Gen.SrcGeometry Gen.SrcFbSetPixel Gen.SrcFbSetPixelBits Proofs.SrcLoadStore.
Set Default Timeout 60.

Lemma lxor_255_all : forallb (fun y => Z.lxor y 255 =? 255 - y) (map Z.of_nat (seq 0 256)) = true.
Proof. vm_compute. reflexivity. Qed.
Lemma lxor_255 y : 0 <= y <= 255 -> Z.lxor y 255 = 255 - y.
Proof.
  intros H. pose proof lxor_255_all as A. rewrite forallb_forall in A. apply Z.eqb_eq. apply A.
  apply in_map_iff. exists (Z.to_nat y). split; [lia|]. apply in_seq. lia.
Qed.

Lemma u8_range x : 0 <= u8 x <= 255.
Proof. unfold u8. change 255 with (Z.ones 8). rewrite Z.land_ones by lia. pose proof (Z.mod_pos_bound x (2 ^ 8)). cbn in *. lia. Qed.

Lemma shl_u8_u8 a b : Casts.shl_u8 a b = u8 (Z.shiftl a b).
Proof. unfold Casts.shl_u8, Casts.wrap_u8, Casts.wrap_unsigned, u8. change 255 with (Z.ones 8). rewrite Z.land_ones by lia. reflexivity. Qed.

Lemma mask_not8 m b : 255 - Casts.shl_u8 m b = not8 (Z.shiftl m b).
Proof. rewrite shl_u8_u8. unfold not8. rewrite lxor_255 by apply u8_range. reflexivity. Qed.

Lemma sub_byte t : t = U1 \/ t = U2 \/ t = U4 -> 0 < bits t < 8.
Proof. intros [->|[->| ->]]; cbn; lia. Qed.

Lemma src_fb_set_pixel_bits_eq t alt W H into fb p c :
  t = U1 \/ t = U2 \/ t = U4 -> 0 <= W ->
  i32_min <= px p <= i32_max -> i32_min <= py p <= i32_max ->
  Framebuffer_data (src_Framebuffer_set_pixel_bits t W H (bits t) alt into fb p c)
  = fb_set_pixel (FbCfg t alt W H) (Framebuffer_data fb) (px p, py p) (into c).
Proof.
  intros Ht HW Hx Hy. pose proof (sub_byte t Ht) as Hb.
  unfold src_Framebuffer_set_pixel_bits, fb_set_pixel, Casts.try_from_range, i32_min, i32_max in *.
  cbn [fb_t fb_w fb_h fb_alt].
  destruct (Z.leb_spec 0 (px p)) as [X|X]; cbn [andb].
  2:{ destruct ((px p <=? 18446744073709551615)); reflexivity. }
  destruct (Z.leb_spec 0 (py p)) as [Y|Y]; cbn [andb].
  2:{ rewrite (proj2 (Z.leb_le (px p) 18446744073709551615)) by lia. destruct (py p <=? 18446744073709551615); reflexivity. }
  rewrite (proj2 (Z.leb_le (px p) 18446744073709551615)) by lia.
  rewrite (proj2 (Z.leb_le (py p) 18446744073709551615)) by lia.
  destruct ((px p <? W) && (py p <? H))%bool; [|destruct Ht as [->|[->| ->]]; reflexivity].
  cbv zeta. cbn [Framebuffer_data].
  rewrite Casts.cast_usize_u32_id by lia.
  set (ppb := 8 / bits t). set (bi := (W * bits t + 7) / 8 * py p + px p / ppb).
  assert (Hppb : 0 < ppb) by (unfold ppb; destruct Ht as [->|[->| ->]]; cbn; lia).
  assert (Hbi : 0 <= bi).
  { unfold bi. assert (0 <= (W * bits t + 7) / 8) by (apply Z.div_pos; nia). assert (0 <= px p / ppb) by (apply Z.div_pos; lia). nia. }
  rewrite slice_set_eq by exact Hbi.
  rewrite mask_not8, shl_u8_u8. unfold Casts.extern_id, Casts.slice_idx, data_at.
  rewrite (proj2 (Z.leb_le 0 bi) Hbi).
  destruct Ht as [->|[->| ->]]; reflexivity.
Qed.
