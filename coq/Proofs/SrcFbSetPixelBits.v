(* translate/r2c tie, round 3 (4): the sub-byte Framebuffer::set_pixel (body of `impl_bit!`, src/framebuffer.rs:153-172),
   translated as a template over the abstract raw type; bits per pixel, data order, WIDTH, HEIGHT and `c.into()` are
   parameters.  `self.data[i]` is Casts.slice_get (None out of range = the index panic), `self.data[i] = v` Casts.slice_set under the range test, `<<` on u8 truncates (Casts.shl_u8).
   With bits per pixel := bits t the data afterwards equals Framebuffer.fb_set_pixel for the three sub-byte raw types. *)
From EG Require Import Base.Prelude Base.Casts Model.Geometry Model.Rawdata Model.Framebuffer Gen.SrcGeometry Gen.SrcFbSetPixel Gen.SrcFbSetPixelBits Proofs.SrcLoadStore Proofs.SrcFbSetPixel.
Set Default Timeout 60.
(* the generated definitions that cast to usize (`as usize`, `usize::try_from`) take the width of usize as Casts.UsizeW; the model
   of this property works with 64-bit usize (exact integers in range): taken at that width *)
#[local] Existing Instance Casts.usize64_w.

Lemma lxor_255_all : forallb (fun y => Z.lxor y 255 =? 255 - y) (map Z.of_nat (seq 0 256)) = true.
Proof. vm_compute. reflexivity. Qed.
Lemma lxor_255 y : 0 <= y <= 255 -> Z.lxor y 255 = 255 - y.
Proof.
  intros H. pose proof lxor_255_all as A. rewrite forallb_forall in A. apply Z.eqb_eq. apply A.
  apply in_map_iff. exists (Z.to_nat y). split; [lia|]. apply in_seq. lia.
Qed.

Lemma u8_range x : 0 <= u8 x <= 255.
Proof. unfold u8. change 255 with (Z.ones 8). rewrite Z.land_ones by lia. pose proof (Z.mod_pos_bound x (2 ^ 8)). cbn in *. lia. Qed.

Lemma shl_u8_u8 a b : Casts.shl_u8 a b = u8 (Z.shiftl a b).
Proof. unfold Casts.shl_u8, Casts.wrap_u8, Casts.wrap_unsigned, u8. change 255 with (Z.ones 8). rewrite Z.land_ones by lia. reflexivity. Qed.

Lemma mask_not8 m b : 255 - Casts.shl_u8 m b = not8 (Z.shiftl m b).
Proof. rewrite shl_u8_u8. unfold not8. rewrite lxor_255 by apply u8_range. reflexivity. Qed.

Lemma sub_byte t : t = U1 \/ t = U2 \/ t = U4 -> 0 < bits t < 8.
Proof. intros [->|[->| ->]]; cbn; lia. Qed.

(* byte index of the pixel in the sub-byte layouts *)
Definition bits_byte_index (t : rawty) (W : Z) (p : point) : Z := (W * bits t + 7) / 8 * py p + px p / (8 / bits t).

(* option-valued: None = the index panic of `self.data[byte_index]` (read, then write).  It panics exactly when the point is
   inside the framebuffer and the byte index is outside the data array; otherwise the data is the model's. *)
Lemma src_fb_set_pixel_bits_eq t alt W H into fb p c :
  t = U1 \/ t = U2 \/ t = U4 -> 0 <= W ->
  i32_min <= px p <= i32_max -> i32_min <= py p <= i32_max ->
  src_Framebuffer_set_pixel_bits t W H (bits t) alt into fb p c
  = if in_fb W H p && negb (bits_byte_index t W p <? Z.of_nat (length (Framebuffer_data fb)))
    then None
    else Some (Build_Framebuffer (fb_set_pixel (FbCfg t alt W H) (Framebuffer_data fb) (px p, py p) (into c)) (Framebuffer_n_assert fb)).
Proof.
  intros Ht HW Hx Hy. pose proof (sub_byte t Ht) as Hb. destruct fb as [data na].
  unfold src_Framebuffer_set_pixel_bits, fb_set_pixel, in_fb, bits_byte_index, Casts.try_from_usize, Casts.try_from_range, Casts.usize_max_w, Casts.usize64_w, Casts.max_usize, i32_min, i32_max in *.
  cbn [fb_t fb_w fb_h fb_alt Framebuffer_data Framebuffer_n_assert].
  destruct (Z.leb_spec 0 (px p)) as [X|X]; cbn [andb].
  2:{ destruct ((px p <=? 18446744073709551615)); reflexivity. }
  destruct (Z.leb_spec 0 (py p)) as [Y|Y]; cbn [andb].
  2:{ rewrite (proj2 (Z.leb_le (px p) 18446744073709551615)) by lia. destruct (py p <=? 18446744073709551615); reflexivity. }
  rewrite (proj2 (Z.leb_le (px p) 18446744073709551615)) by lia.
  rewrite (proj2 (Z.leb_le (py p) 18446744073709551615)) by lia.
  destruct ((px p <? W) && (py p <? H))%bool; cbn [andb]; [|destruct Ht as [->|[->| ->]]; reflexivity].
  cbv zeta.
  rewrite Casts.cast_usize_u32_id by lia.
  set (ppb := 8 / bits t). set (bi := (W * bits t + 7) / 8 * py p + px p / ppb).
  assert (Hppb : 0 < ppb) by (unfold ppb; destruct Ht as [->|[->| ->]]; cbn; lia).
  assert (Hbi : 0 <= bi).
  { unfold bi. assert (0 <= (W * bits t + 7) / 8) by (apply Z.div_pos; nia). assert (0 <= px p / ppb) by (apply Z.div_pos; lia). nia. }
  unfold Casts.slice_get. rewrite (proj2 (Z.leb_le 0 bi) Hbi). cbn [andb].
  destruct (Z.ltb_spec bi (Z.of_nat (length data))) as [L|L]; cbn [negb]; [|reflexivity].
  rewrite (nth_error_nth' data 0) by lia.
  rewrite slice_set_eq by exact Hbi.
  rewrite mask_not8, shl_u8_u8. unfold Casts.extern_id, data_at.
  destruct Ht as [->|[->| ->]]; reflexivity.
Qed.

(* with the buffer that CHECK_N demands (N >= bytes_per_row * HEIGHT) set_pixel never panics *)
Lemma src_fb_set_pixel_bits_some t alt W H into fb p c :
  t = U1 \/ t = U2 \/ t = U4 -> 0 <= W ->
  i32_min <= px p <= i32_max -> i32_min <= py p <= i32_max ->
  (W * bits t + 7) / 8 * H <= Z.of_nat (length (Framebuffer_data fb)) ->
  src_Framebuffer_set_pixel_bits t W H (bits t) alt into fb p c
  = Some (Build_Framebuffer (fb_set_pixel (FbCfg t alt W H) (Framebuffer_data fb) (px p, py p) (into c)) (Framebuffer_n_assert fb)).
Proof.
  intros Ht HW Hx Hy HB. rewrite (src_fb_set_pixel_bits_eq t alt) by assumption.
  destruct (in_fb W H p) eqn:E; [|reflexivity]. unfold in_fb in E.
  repeat (apply andb_prop in E; destruct E as [E ?]).
  repeat match goal with H : andb _ _ = true |- _ => apply andb_prop in H; destruct H end.
  repeat match goal with H : (_ <=? _) = true |- _ => apply Z.leb_le in H | H : (_ <? _) = true |- _ => apply Z.ltb_lt in H end.
  rewrite (proj2 (Z.ltb_lt _ _)); [reflexivity|]. unfold bits_byte_index.
  set (bpr := (W * bits t + 7) / 8) in *.
  assert (px p / (8 / bits t) < bpr).
  { unfold bpr. destruct Ht as [->|[->| ->]]; cbn [bits]; change (8 / 1) with 8; change (8 / 2) with 4; change (8 / 4) with 2;
    apply Z.div_lt_upper_bound; try lia;
    [ pose proof (Z.mul_div_le (W * 1 + 7) 8 ltac:(lia)); pose proof (Z.mod_pos_bound (W * 1 + 7) 8 ltac:(lia)); pose proof (Z.div_mod (W * 1 + 7) 8 ltac:(lia)); lia
    | pose proof (Z.mod_pos_bound (W * 2 + 7) 8 ltac:(lia)); pose proof (Z.div_mod (W * 2 + 7) 8 ltac:(lia)); lia
    | pose proof (Z.mod_pos_bound (W * 4 + 7) 8 ltac:(lia)); pose proof (Z.div_mod (W * 4 + 7) 8 ltac:(lia)); lia ]. }
  assert (0 <= bpr) by (unfold bpr; apply Z.div_pos; [destruct Ht as [->|[->| ->]]; cbn; lia|lia]).
  nia.
Qed.
