(* translate/r2c tie, round 4 (3): ToBytes of RawU16 / RawU24 / RawU32 (core/src/pixelcolor/raw/to_bytes.rs) and the multi-byte
   Framebuffer::set_pixel (body of `impl_bytes!`, src/framebuffer.rs:252-266, one instance per invocation: raw type x byte
   order, the method `$to_bytes_fn` is a macro parameter).  `self.data[i..i + N].copy_from_slice(&bytes)` is Casts.slice_copy.
   The data afterwards equals Framebuffer.fb_set_pixel when the buffer covers WIDTH x HEIGHT pixels (then the range is
   inside the buffer; otherwise Rust panics). *)
From EG Require Import Base.Prelude Base.Casts Model.Geometry Model.Rawdata Model.Framebuffer.
From EG Require Import Gen.SrcGeometry Gen.SrcRawData Gen.SrcToBytes Gen.SrcFbSetPixel Gen.SrcFbSetPixelBytes Proofs.SrcLoadStoreBytes.
Set Default Timeout 60.

Lemma to_bytes_eq v :
  (let '(a, b) := src_RawU16_to_le_bytes v in [a; b]) = encode_bytes U16 false v /\
  (let '(a, b) := src_RawU16_to_be_bytes v in [a; b]) = encode_bytes U16 true v /\
  (let '(a, b, c) := src_RawU24_to_le_bytes v in [a; b; c]) = encode_bytes U24 false v /\
  (let '(a, b, c) := src_RawU24_to_be_bytes v in [a; b; c]) = encode_bytes U24 true v /\
  (let '(a, b, c, d) := src_RawU32_to_le_bytes v in [a; b; c; d]) = encode_bytes U32 false v /\
  (let '(a, b, c, d) := src_RawU32_to_be_bytes v in [a; b; c; d]) = encode_bytes U32 true v.
Proof.
  unfold encode_bytes, to_be. change (Z.to_nat (nbytes U16)) with 2%nat. change (Z.to_nat (nbytes U32)) with 4%nat.
  rewrite to_le_2, to_le_4. repeat split; reflexivity.
Qed.

Lemma slice_copy_splice (l : list Z) a n bs : 0 <= a -> Z.of_nat (length bs) = n -> a + n <= Z.of_nat (length l) ->
  Casts.slice_copy l a (a + n) bs = splice l a bs.
Proof.
  intros Ha Hn Hl. unfold Casts.slice_copy, splice.
  rewrite (proj2 (Z.leb_le 0 a)) by lia. rewrite (proj2 (Z.leb_le a (a + n))) by lia.
  rewrite (proj2 (Z.leb_le (a + n) (Z.of_nat (length l)))) by lia.
  replace (a + n - a) with n by lia. rewrite <- Hn, Z.eqb_refl. cbn [andb].
  replace (Z.to_nat (a + Z.of_nat (length bs))) with (Z.to_nat a + length bs)%nat by lia. reflexivity.
Qed.

Definition buf_ok (t : rawty) (W H : Z) (data : list Z) : Prop := W * (bits t / 8) * H <= Z.of_nat (length data).

Lemma src_fb_set_pixel_RawU16_le_eq W H into fb p c :
  0 <= W -> i32_min <= px p <= i32_max -> i32_min <= py p <= i32_max -> buf_ok U16 W H (Framebuffer_data fb) ->
  Framebuffer_data (src_Framebuffer_set_pixel_RawU16_le W H into fb p c)
  = fb_set_pixel (FbCfg U16 false W H) (Framebuffer_data fb) (px p, py p) (into c).
Proof.
  intros HW Hx Hy Hbuf. unfold src_Framebuffer_set_pixel_RawU16_le, fb_set_pixel, Casts.try_from_range, i32_min, i32_max, buf_ok in *.
  cbn [fb_t fb_w fb_h fb_alt]. change (bits U16 / 8) with 2 in Hbuf. change (src_RawU16_BITS_PER_PIXEL / 8) with 2.
  destruct (Z.leb_spec 0 (px p)) as [X|X]; cbn [andb].
  2:{ destruct ((px p <=? 18446744073709551615)); reflexivity. }
  destruct (Z.leb_spec 0 (py p)) as [Y|Y]; cbn [andb].
  2:{ rewrite (proj2 (Z.leb_le (px p) 18446744073709551615)) by lia. destruct (py p <=? 18446744073709551615); reflexivity. }
  rewrite (proj2 (Z.leb_le (px p) 18446744073709551615)) by lia.
  rewrite (proj2 (Z.leb_le (py p) 18446744073709551615)) by lia.
  destruct ((px p <? W) && (py p <? H))%bool eqn:E; [|reflexivity].
  apply andb_prop in E. destruct E as [E1 E2]. apply Z.ltb_lt in E1. apply Z.ltb_lt in E2.
  cbv zeta. cbn [Framebuffer_data]. rewrite !Casts.cast_i32_usize_id by lia.
  change (nbytes U16) with 2.
  destruct (to_bytes_eq (into c)) as [B1 [B2 [B3 [B4 [B5 B6]]]]]. rewrite B1.
  apply slice_copy_splice; [nia | destruct false; reflexivity | nia].
Qed.

Lemma src_fb_set_pixel_RawU16_be_eq W H into fb p c :
  0 <= W -> i32_min <= px p <= i32_max -> i32_min <= py p <= i32_max -> buf_ok U16 W H (Framebuffer_data fb) ->
  Framebuffer_data (src_Framebuffer_set_pixel_RawU16_be W H into fb p c)
  = fb_set_pixel (FbCfg U16 true W H) (Framebuffer_data fb) (px p, py p) (into c).
Proof.
  intros HW Hx Hy Hbuf. unfold src_Framebuffer_set_pixel_RawU16_be, fb_set_pixel, Casts.try_from_range, i32_min, i32_max, buf_ok in *.
  cbn [fb_t fb_w fb_h fb_alt]. change (bits U16 / 8) with 2 in Hbuf. change (src_RawU16_BITS_PER_PIXEL / 8) with 2.
  destruct (Z.leb_spec 0 (px p)) as [X|X]; cbn [andb].
  2:{ destruct ((px p <=? 18446744073709551615)); reflexivity. }
  destruct (Z.leb_spec 0 (py p)) as [Y|Y]; cbn [andb].
  2:{ rewrite (proj2 (Z.leb_le (px p) 18446744073709551615)) by lia. destruct (py p <=? 18446744073709551615); reflexivity. }
  rewrite (proj2 (Z.leb_le (px p) 18446744073709551615)) by lia.
  rewrite (proj2 (Z.leb_le (py p) 18446744073709551615)) by lia.
  destruct ((px p <? W) && (py p <? H))%bool eqn:E; [|reflexivity].
  apply andb_prop in E. destruct E as [E1 E2]. apply Z.ltb_lt in E1. apply Z.ltb_lt in E2.
  cbv zeta. cbn [Framebuffer_data]. rewrite !Casts.cast_i32_usize_id by lia.
  change (nbytes U16) with 2.
  destruct (to_bytes_eq (into c)) as [B1 [B2 [B3 [B4 [B5 B6]]]]]. rewrite B2.
  apply slice_copy_splice; [nia | destruct true; reflexivity | nia].
Qed.

Lemma src_fb_set_pixel_RawU24_le_eq W H into fb p c :
  0 <= W -> i32_min <= px p <= i32_max -> i32_min <= py p <= i32_max -> buf_ok U24 W H (Framebuffer_data fb) ->
  Framebuffer_data (src_Framebuffer_set_pixel_RawU24_le W H into fb p c)
  = fb_set_pixel (FbCfg U24 false W H) (Framebuffer_data fb) (px p, py p) (into c).
Proof.
  intros HW Hx Hy Hbuf. unfold src_Framebuffer_set_pixel_RawU24_le, fb_set_pixel, Casts.try_from_range, i32_min, i32_max, buf_ok in *.
  cbn [fb_t fb_w fb_h fb_alt]. change (bits U24 / 8) with 3 in Hbuf. change (src_RawU24_BITS_PER_PIXEL / 8) with 3.
  destruct (Z.leb_spec 0 (px p)) as [X|X]; cbn [andb].
  2:{ destruct ((px p <=? 18446744073709551615)); reflexivity. }
  destruct (Z.leb_spec 0 (py p)) as [Y|Y]; cbn [andb].
  2:{ rewrite (proj2 (Z.leb_le (px p) 18446744073709551615)) by lia. destruct (py p <=? 18446744073709551615); reflexivity. }
  rewrite (proj2 (Z.leb_le (px p) 18446744073709551615)) by lia.
  rewrite (proj2 (Z.leb_le (py p) 18446744073709551615)) by lia.
  destruct ((px p <? W) && (py p <? H))%bool eqn:E; [|reflexivity].
  apply andb_prop in E. destruct E as [E1 E2]. apply Z.ltb_lt in E1. apply Z.ltb_lt in E2.
  cbv zeta. cbn [Framebuffer_data]. rewrite !Casts.cast_i32_usize_id by lia.
  change (nbytes U24) with 3.
  destruct (to_bytes_eq (into c)) as [B1 [B2 [B3 [B4 [B5 B6]]]]]. rewrite B3.
  apply slice_copy_splice; [nia | destruct false; reflexivity | nia].
Qed.

Lemma src_fb_set_pixel_RawU24_be_eq W H into fb p c :
  0 <= W -> i32_min <= px p <= i32_max -> i32_min <= py p <= i32_max -> buf_ok U24 W H (Framebuffer_data fb) ->
  Framebuffer_data (src_Framebuffer_set_pixel_RawU24_be W H into fb p c)
  = fb_set_pixel (FbCfg U24 true W H) (Framebuffer_data fb) (px p, py p) (into c).
Proof.
  intros HW Hx Hy Hbuf. unfold src_Framebuffer_set_pixel_RawU24_be, fb_set_pixel, Casts.try_from_range, i32_min, i32_max, buf_ok in *.
  cbn [fb_t fb_w fb_h fb_alt]. change (bits U24 / 8) with 3 in Hbuf. change (src_RawU24_BITS_PER_PIXEL / 8) with 3.
  destruct (Z.leb_spec 0 (px p)) as [X|X]; cbn [andb].
  2:{ destruct ((px p <=? 18446744073709551615)); reflexivity. }
  destruct (Z.leb_spec 0 (py p)) as [Y|Y]; cbn [andb].
  2:{ rewrite (proj2 (Z.leb_le (px p) 18446744073709551615)) by lia. destruct (py p <=? 18446744073709551615); reflexivity. }
  rewrite (proj2 (Z.leb_le (px p) 18446744073709551615)) by lia.
  rewrite (proj2 (Z.leb_le (py p) 18446744073709551615)) by lia.
  destruct ((px p <? W) && (py p <? H))%bool eqn:E; [|reflexivity].
  apply andb_prop in E. destruct E as [E1 E2]. apply Z.ltb_lt in E1. apply Z.ltb_lt in E2.
  cbv zeta. cbn [Framebuffer_data]. rewrite !Casts.cast_i32_usize_id by lia.
  change (nbytes U24) with 3.
  destruct (to_bytes_eq (into c)) as [B1 [B2 [B3 [B4 [B5 B6]]]]]. rewrite B4.
  apply slice_copy_splice; [nia | destruct true; reflexivity | nia].
Qed.

Lemma src_fb_set_pixel_RawU32_le_eq W H into fb p c :
  0 <= W -> i32_min <= px p <= i32_max -> i32_min <= py p <= i32_max -> buf_ok U32 W H (Framebuffer_data fb) ->
  Framebuffer_data (src_Framebuffer_set_pixel_RawU32_le W H into fb p c)
  = fb_set_pixel (FbCfg U32 false W H) (Framebuffer_data fb) (px p, py p) (into c).
Proof.
  intros HW Hx Hy Hbuf. unfold src_Framebuffer_set_pixel_RawU32_le, fb_set_pixel, Casts.try_from_range, i32_min, i32_max, buf_ok in *.
  cbn [fb_t fb_w fb_h fb_alt]. change (bits U32 / 8) with 4 in Hbuf. change (src_RawU32_BITS_PER_PIXEL / 8) with 4.
  destruct (Z.leb_spec 0 (px p)) as [X|X]; cbn [andb].
  2:{ destruct ((px p <=? 18446744073709551615)); reflexivity. }
  destruct (Z.leb_spec 0 (py p)) as [Y|Y]; cbn [andb].
  2:{ rewrite (proj2 (Z.leb_le (px p) 18446744073709551615)) by lia. destruct (py p <=? 18446744073709551615); reflexivity. }
  rewrite (proj2 (Z.leb_le (px p) 18446744073709551615)) by lia.
  rewrite (proj2 (Z.leb_le (py p) 18446744073709551615)) by lia.
  destruct ((px p <? W) && (py p <? H))%bool eqn:E; [|reflexivity].
  apply andb_prop in E. destruct E as [E1 E2]. apply Z.ltb_lt in E1. apply Z.ltb_lt in E2.
  cbv zeta. cbn [Framebuffer_data]. rewrite !Casts.cast_i32_usize_id by lia.
  change (nbytes U32) with 4.
  destruct (to_bytes_eq (into c)) as [B1 [B2 [B3 [B4 [B5 B6]]]]]. rewrite B5.
  apply slice_copy_splice; [nia | destruct false; reflexivity | nia].
Qed.

Lemma src_fb_set_pixel_RawU32_be_eq W H into fb p c :
  0 <= W -> i32_min <= px p <= i32_max -> i32_min <= py p <= i32_max -> buf_ok U32 W H (Framebuffer_data fb) ->
  Framebuffer_data (src_Framebuffer_set_pixel_RawU32_be W H into fb p c)
  = fb_set_pixel (FbCfg U32 true W H) (Framebuffer_data fb) (px p, py p) (into c).
Proof.
  intros HW Hx Hy Hbuf. unfold src_Framebuffer_set_pixel_RawU32_be, fb_set_pixel, Casts.try_from_range, i32_min, i32_max, buf_ok in *.
  cbn [fb_t fb_w fb_h fb_alt]. change (bits U32 / 8) with 4 in Hbuf. change (src_RawU32_BITS_PER_PIXEL / 8) with 4.
  destruct (Z.leb_spec 0 (px p)) as [X|X]; cbn [andb].
  2:{ destruct ((px p <=? 18446744073709551615)); reflexivity. }
  destruct (Z.leb_spec 0 (py p)) as [Y|Y]; cbn [andb].
  2:{ rewrite (proj2 (Z.leb_le (px p) 18446744073709551615)) by lia. destruct (py p <=? 18446744073709551615); reflexivity. }
  rewrite (proj2 (Z.leb_le (px p) 18446744073709551615)) by lia.
  rewrite (proj2 (Z.leb_le (py p) 18446744073709551615)) by lia.
  destruct ((px p <? W) && (py p <? H))%bool eqn:E; [|reflexivity].
  apply andb_prop in E. destruct E as [E1 E2]. apply Z.ltb_lt in E1. apply Z.ltb_lt in E2.
  cbv zeta. cbn [Framebuffer_data]. rewrite !Casts.cast_i32_usize_id by lia.
  change (nbytes U32) with 4.
  destruct (to_bytes_eq (into c)) as [B1 [B2 [B3 [B4 [B5 B6]]]]]. rewrite B6.
  apply slice_copy_splice; [nia | destruct true; reflexivity | nia].
Qed.

Lemma src_fb_new_eq n : 0 <= n -> Framebuffer_data (src_Framebuffer_new n) = fb_new (Z.to_nat n).
Proof. reflexivity. Qed.
