(* translate/r2c tie, round 4 (3): ToBytes of RawU16 / RawU24 / RawU32 (core/src/pixelcolor/raw/to_bytes.rs) and the multi-byte
   Framebuffer::set_pixel (body of `impl_bytes!`, src/framebuffer.rs:252-266, one instance per invocation: raw type x byte
   order, the method `$to_bytes_fn` is a macro parameter).  `self.data[i..i + N].copy_from_slice(&bytes)` is Casts.slice_copy
   under the test Casts.slice_copy_ok (None = Rust's panic when the range is outside the buffer).  The data afterwards equals
   Framebuffer.fb_set_pixel when the buffer covers WIDTH x HEIGHT pixels (then the range is inside the buffer). *)
From EG Require Import Base.Prelude Base.Casts Model.Geometry Model.Rawdata Model.Framebuffer.
From EG Require Import Gen.SrcGeometry Gen.SrcRawData Gen.SrcToBytes Gen.SrcFbSetPixel Gen.SrcFbSetPixelBytes Proofs.SrcLoadStoreBytes Proofs.SrcFbSetPixel.
Set Default Timeout 60.
(* the generated definitions that cast to usize (`as usize`, `usize::try_from`) take the width of usize as Casts.UsizeW; the model
   of this property works with 64-bit usize (exact integers in range): taken at that width *)
#[local] Existing Instance Casts.usize64_w.

Lemma to_bytes_eq v :
  (let '(a, b) := src_RawU16_to_le_bytes v in [a; b]) = encode_bytes U16 false v /\
  (let '(a, b) := src_RawU16_to_be_bytes v in [a; b]) = encode_bytes U16 true v /\
  (let '(a, b, c) := src_RawU24_to_le_bytes v in [a; b; c]) = encode_bytes U24 false v /\
  (let '(a, b, c) := src_RawU24_to_be_bytes v in [a; b; c]) = encode_bytes U24 true v /\
  (let '(a, b, c, d) := src_RawU32_to_le_bytes v in [a; b; c; d]) = encode_bytes U32 false v /\
  (let '(a, b, c, d) := src_RawU32_to_be_bytes v in [a; b; c; d]) = encode_bytes U32 true v.
Proof.
  unfold encode_bytes, to_be. change (Z.to_nat (nbytes U16)) with 2%nat. change (Z.to_nat (nbytes U32)) with 4%nat.
  rewrite to_le_2, to_le_4. repeat split; reflexivity.
Qed.

Lemma slice_copy_splice (l : list Z) a n bs : 0 <= a -> Z.of_nat (length bs) = n -> a + n <= Z.of_nat (length l) ->
  Casts.slice_copy l a (a + n) bs = splice l a bs.
Proof.
  intros Ha Hn Hl. unfold Casts.slice_copy, splice.
  rewrite (proj2 (Z.leb_le 0 a)) by lia. rewrite (proj2 (Z.leb_le a (a + n))) by lia.
  rewrite (proj2 (Z.leb_le (a + n) (Z.of_nat (length l)))) by lia.
  replace (a + n - a) with n by lia. rewrite <- Hn, Z.eqb_refl. cbn [andb].
  replace (Z.to_nat (a + Z.of_nat (length bs))) with (Z.to_nat a + length bs)%nat by lia. reflexivity.
Qed.

Definition buf_ok (t : rawty) (W H : Z) (data : list Z) : Prop := W * (bits t / 8) * H <= Z.of_nat (length data).

Lemma slice_copy_ok_eq (l : list Z) a n bs : 0 <= a -> Z.of_nat (length bs) = n ->
  Casts.slice_copy_ok l a (a + n) bs = (a + n <=? Z.of_nat (length l)).
Proof.
  intros Ha Hn. unfold Casts.slice_copy_ok.
  rewrite (proj2 (Z.leb_le 0 a)) by lia. rewrite (proj2 (Z.leb_le a (a + n))) by lia.
  replace (a + n - a) with n by lia. rewrite <- Hn, Z.eqb_refl. cbn [andb]. rewrite Bool.andb_true_r. reflexivity.
Qed.

(* the multi-byte set_pixel is option-valued: None = the panic of `self.data[i..i + N].copy_from_slice(..)`.  It panics exactly
   when the point is inside the framebuffer and the byte range ends outside the data array; otherwise the data is the model's. *)
Definition bytes_end (t : rawty) (W : Z) (p : point) : Z := (py p * W + px p) * nbytes t + nbytes t.

Ltac set_pixel_bytes B t nb :=
  match goal with |- forall W H into fb p c, _ =>
  intros W H into fb p c Hx Hy; destruct fb as [data na];
  unfold fb_set_pixel, in_fb, bytes_end, Casts.try_from_usize, Casts.try_from_range, Casts.usize_max_w, Casts.usize64_w, Casts.max_usize, i32_min, i32_max in *;
  cbn [fb_t fb_w fb_h fb_alt Framebuffer_data Framebuffer_n_assert]; change (nbytes t) with nb;
  destruct (Z.leb_spec 0 (px p)) as [X|X]; cbn [andb];
  [|destruct ((px p <=? 18446744073709551615)); reflexivity];
  destruct (Z.leb_spec 0 (py p)) as [Y|Y]; cbn [andb];
  [|rewrite (proj2 (Z.leb_le (px p) 18446744073709551615)) by lia; destruct (py p <=? 18446744073709551615); reflexivity];
  rewrite (proj2 (Z.leb_le (px p) 18446744073709551615)) by lia;
  rewrite (proj2 (Z.leb_le (py p) 18446744073709551615)) by lia;
  destruct ((px p <? W) && (py p <? H))%bool eqn:E; [|reflexivity];
  apply andb_prop in E; destruct E as [E1 E2]; apply Z.ltb_lt in E1; apply Z.ltb_lt in E2; cbn [andb];
  cbv zeta; rewrite !Casts.cast_i32_usize_id by lia;
  destruct (to_bytes_eq (into c)) as [B1 [B2 [B3 [B4 [B5 B6]]]]]; rewrite B;
  rewrite (slice_copy_ok_eq data ((py p * W + px p) * nb) nb) by (try nia; match goal with |- context [encode_bytes _ ?o _] => destruct o end; reflexivity);
  destruct (Z.leb_spec ((py p * W + px p) * nb + nb) (Z.of_nat (length data))) as [L|L]; cbn [negb]; [|reflexivity];
  rewrite slice_copy_splice by (try nia; match goal with |- context [encode_bytes _ ?o _] => destruct o end; reflexivity);
  reflexivity
  end.

Lemma src_fb_set_pixel_RawU16_le_eq : forall W H into fb p c,
  i32_min <= px p <= i32_max -> i32_min <= py p <= i32_max ->
  src_Framebuffer_set_pixel_RawU16_le W H into fb p c
  = if in_fb W H p && negb (bytes_end U16 W p <=? Z.of_nat (length (Framebuffer_data fb)))
    then None
    else Some (Build_Framebuffer (fb_set_pixel (FbCfg U16 false W H) (Framebuffer_data fb) (px p, py p) (into c)) (Framebuffer_n_assert fb)).
Proof.
  unfold src_Framebuffer_set_pixel_RawU16_le. change (src_RawU16_BITS_PER_PIXEL / 8) with 2. change (nbytes U16) with 2.
  set_pixel_bytes B1 U16 2.
Qed.

Lemma src_fb_set_pixel_RawU16_be_eq : forall W H into fb p c,
  i32_min <= px p <= i32_max -> i32_min <= py p <= i32_max ->
  src_Framebuffer_set_pixel_RawU16_be W H into fb p c
  = if in_fb W H p && negb (bytes_end U16 W p <=? Z.of_nat (length (Framebuffer_data fb)))
    then None
    else Some (Build_Framebuffer (fb_set_pixel (FbCfg U16 true W H) (Framebuffer_data fb) (px p, py p) (into c)) (Framebuffer_n_assert fb)).
Proof.
  unfold src_Framebuffer_set_pixel_RawU16_be. change (src_RawU16_BITS_PER_PIXEL / 8) with 2. change (nbytes U16) with 2.
  set_pixel_bytes B2 U16 2.
Qed.

Lemma src_fb_set_pixel_RawU24_le_eq : forall W H into fb p c,
  i32_min <= px p <= i32_max -> i32_min <= py p <= i32_max ->
  src_Framebuffer_set_pixel_RawU24_le W H into fb p c
  = if in_fb W H p && negb (bytes_end U24 W p <=? Z.of_nat (length (Framebuffer_data fb)))
    then None
    else Some (Build_Framebuffer (fb_set_pixel (FbCfg U24 false W H) (Framebuffer_data fb) (px p, py p) (into c)) (Framebuffer_n_assert fb)).
Proof.
  unfold src_Framebuffer_set_pixel_RawU24_le. change (src_RawU24_BITS_PER_PIXEL / 8) with 3. change (nbytes U24) with 3.
  set_pixel_bytes B3 U24 3.
Qed.

Lemma src_fb_set_pixel_RawU24_be_eq : forall W H into fb p c,
  i32_min <= px p <= i32_max -> i32_min <= py p <= i32_max ->
  src_Framebuffer_set_pixel_RawU24_be W H into fb p c
  = if in_fb W H p && negb (bytes_end U24 W p <=? Z.of_nat (length (Framebuffer_data fb)))
    then None
    else Some (Build_Framebuffer (fb_set_pixel (FbCfg U24 true W H) (Framebuffer_data fb) (px p, py p) (into c)) (Framebuffer_n_assert fb)).
Proof.
  unfold src_Framebuffer_set_pixel_RawU24_be. change (src_RawU24_BITS_PER_PIXEL / 8) with 3. change (nbytes U24) with 3.
  set_pixel_bytes B4 U24 3.
Qed.

Lemma src_fb_set_pixel_RawU32_le_eq : forall W H into fb p c,
  i32_min <= px p <= i32_max -> i32_min <= py p <= i32_max ->
  src_Framebuffer_set_pixel_RawU32_le W H into fb p c
  = if in_fb W H p && negb (bytes_end U32 W p <=? Z.of_nat (length (Framebuffer_data fb)))
    then None
    else Some (Build_Framebuffer (fb_set_pixel (FbCfg U32 false W H) (Framebuffer_data fb) (px p, py p) (into c)) (Framebuffer_n_assert fb)).
Proof.
  unfold src_Framebuffer_set_pixel_RawU32_le. change (src_RawU32_BITS_PER_PIXEL / 8) with 4. change (nbytes U32) with 4.
  set_pixel_bytes B5 U32 4.
Qed.

Lemma src_fb_set_pixel_RawU32_be_eq : forall W H into fb p c,
  i32_min <= px p <= i32_max -> i32_min <= py p <= i32_max ->
  src_Framebuffer_set_pixel_RawU32_be W H into fb p c
  = if in_fb W H p && negb (bytes_end U32 W p <=? Z.of_nat (length (Framebuffer_data fb)))
    then None
    else Some (Build_Framebuffer (fb_set_pixel (FbCfg U32 true W H) (Framebuffer_data fb) (px p, py p) (into c)) (Framebuffer_n_assert fb)).
Proof.
  unfold src_Framebuffer_set_pixel_RawU32_be. change (src_RawU32_BITS_PER_PIXEL / 8) with 4. change (nbytes U32) with 4.
  set_pixel_bytes B6 U32 4.
Qed.

(* with the buffer that CHECK_N demands (buf_ok: N >= WIDTH * HEIGHT * bytes per pixel) set_pixel never panics *)
Lemma in_fb_end_ok t W H p data : 0 < nbytes t -> bits t / 8 = nbytes t -> buf_ok t W H data ->
  in_fb W H p && negb (bytes_end t W p <=? Z.of_nat (length data)) = false.
Proof.
  intros Hn Hb HB. destruct (in_fb W H p) eqn:E; [|reflexivity]. unfold in_fb in E.
  repeat (apply andb_prop in E; destruct E as [E ?]).
  repeat match goal with H : andb _ _ = true |- _ => apply andb_prop in H; destruct H end.
  repeat match goal with H : (_ <=? _) = true |- _ => apply Z.leb_le in H | H : (_ <? _) = true |- _ => apply Z.ltb_lt in H end.
  unfold buf_ok in HB. rewrite Hb in HB. unfold bytes_end. rewrite (proj2 (Z.leb_le _ _)); [reflexivity|].
  assert (py p * W + px p + 1 <= W * H) by nia.
  assert ((py p * W + px p + 1) * nbytes t <= W * H * nbytes t) by (apply Z.mul_le_mono_nonneg_r; lia). nia.
Qed.

Lemma src_fb_set_pixel_RawU16_le_some W H into fb p c :
  i32_min <= px p <= i32_max -> i32_min <= py p <= i32_max -> buf_ok U16 W H (Framebuffer_data fb) ->
  src_Framebuffer_set_pixel_RawU16_le W H into fb p c
  = Some (Build_Framebuffer (fb_set_pixel (FbCfg U16 false W H) (Framebuffer_data fb) (px p, py p) (into c)) (Framebuffer_n_assert fb)).
Proof.
  intros Hx Hy HB. rewrite src_fb_set_pixel_RawU16_le_eq by assumption.
  rewrite (in_fb_end_ok U16 W H p _ ltac:(reflexivity) ltac:(reflexivity) HB). reflexivity.
Qed.

Lemma src_fb_set_pixel_RawU16_be_some W H into fb p c :
  i32_min <= px p <= i32_max -> i32_min <= py p <= i32_max -> buf_ok U16 W H (Framebuffer_data fb) ->
  src_Framebuffer_set_pixel_RawU16_be W H into fb p c
  = Some (Build_Framebuffer (fb_set_pixel (FbCfg U16 true W H) (Framebuffer_data fb) (px p, py p) (into c)) (Framebuffer_n_assert fb)).
Proof.
  intros Hx Hy HB. rewrite src_fb_set_pixel_RawU16_be_eq by assumption.
  rewrite (in_fb_end_ok U16 W H p _ ltac:(reflexivity) ltac:(reflexivity) HB). reflexivity.
Qed.

Lemma src_fb_set_pixel_RawU24_le_some W H into fb p c :
  i32_min <= px p <= i32_max -> i32_min <= py p <= i32_max -> buf_ok U24 W H (Framebuffer_data fb) ->
  src_Framebuffer_set_pixel_RawU24_le W H into fb p c
  = Some (Build_Framebuffer (fb_set_pixel (FbCfg U24 false W H) (Framebuffer_data fb) (px p, py p) (into c)) (Framebuffer_n_assert fb)).
Proof.
  intros Hx Hy HB. rewrite src_fb_set_pixel_RawU24_le_eq by assumption.
  rewrite (in_fb_end_ok U24 W H p _ ltac:(reflexivity) ltac:(reflexivity) HB). reflexivity.
Qed.

Lemma src_fb_set_pixel_RawU24_be_some W H into fb p c :
  i32_min <= px p <= i32_max -> i32_min <= py p <= i32_max -> buf_ok U24 W H (Framebuffer_data fb) ->
  src_Framebuffer_set_pixel_RawU24_be W H into fb p c
  = Some (Build_Framebuffer (fb_set_pixel (FbCfg U24 true W H) (Framebuffer_data fb) (px p, py p) (into c)) (Framebuffer_n_assert fb)).
Proof.
  intros Hx Hy HB. rewrite src_fb_set_pixel_RawU24_be_eq by assumption.
  rewrite (in_fb_end_ok U24 W H p _ ltac:(reflexivity) ltac:(reflexivity) HB). reflexivity.
Qed.

Lemma src_fb_set_pixel_RawU32_le_some W H into fb p c :
  i32_min <= px p <= i32_max -> i32_min <= py p <= i32_max -> buf_ok U32 W H (Framebuffer_data fb) ->
  src_Framebuffer_set_pixel_RawU32_le W H into fb p c
  = Some (Build_Framebuffer (fb_set_pixel (FbCfg U32 false W H) (Framebuffer_data fb) (px p, py p) (into c)) (Framebuffer_n_assert fb)).
Proof.
  intros Hx Hy HB. rewrite src_fb_set_pixel_RawU32_le_eq by assumption.
  rewrite (in_fb_end_ok U32 W H p _ ltac:(reflexivity) ltac:(reflexivity) HB). reflexivity.
Qed.

Lemma src_fb_set_pixel_RawU32_be_some W H into fb p c :
  i32_min <= px p <= i32_max -> i32_min <= py p <= i32_max -> buf_ok U32 W H (Framebuffer_data fb) ->
  src_Framebuffer_set_pixel_RawU32_be W H into fb p c
  = Some (Build_Framebuffer (fb_set_pixel (FbCfg U32 true W H) (Framebuffer_data fb) (px p, py p) (into c)) (Framebuffer_n_assert fb)).
Proof.
  intros Hx Hy HB. rewrite src_fb_set_pixel_RawU32_be_eq by assumption.
  rewrite (in_fb_end_ok U32 W H p _ ltac:(reflexivity) ltac:(reflexivity) HB). reflexivity.
Qed.

Lemma src_fb_new_eq n : 0 <= n -> Framebuffer_data (src_Framebuffer_new n) = fb_new (Z.to_nat n).
Proof. reflexivity. Qed.
