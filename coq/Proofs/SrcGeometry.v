(* The definitions that translate/r2c regenerates from core/src/geometry/{mod,point,size}.rs and
   core/src/primitives/rectangle/mod.rs on every run (coq/Gen/SrcGeometry.v) are equal to the hand-written
   model coq/Model/Geometry.v.  Where the Rust code casts a u32 extent to i32 (`Point + Size`,
   `Point::sub_size`) the equality holds for extents that are values of i32 (`size_i32`), respectively
   of u32 (`size_u32`, after the halving in `center_offset`): outside that range the Rust code fails a
   debug assertion / wraps while the model adds the unbounded value.
   A change of the arithmetic of any of these functions changes the generated definition and breaks the
   corresponding lemma here. *)
From EG Require Import Base.Prelude Base.Casts Model.Geometry Gen.SrcGeometry.
Set Default Timeout 60.

Definition size_u32 (s : size) : Prop := 0 <= sw s <= u32_max /\ 0 <= sh s <= u32_max.
Definition size_i32 (s : size) : Prop := 0 <= sw s <= i32_max /\ 0 <= sh s <= i32_max.

Lemma size_i32_u32 s : size_i32 s -> size_u32 s.
Proof. unfold size_i32, size_u32, i32_max, u32_max. lia. Qed.

Ltac src := autounfold with src.
Ltac ranges := unfold size_u32, size_i32, i32_max, i32_min, u32_max, sat_sub_u32, sat_add_u32 in *; cbn [sw sh sz tl px py] in *.

(* ---- AnchorPoint (9-variant enum in the source, a record of two 3-variant enums in the model) ---- *)
Definition anchor_of (ap : AnchorPoint) : anchor := A (src_AnchorPoint_x ap) (src_AnchorPoint_y ap).

Lemma src_AnchorPoint_from_xy_x x y : src_AnchorPoint_x (src_AnchorPoint_from_xy x y) = x.
Proof. destruct x, y; reflexivity. Qed.
Lemma src_AnchorPoint_from_xy_y x y : src_AnchorPoint_y (src_AnchorPoint_from_xy x y) = y.
Proof. destruct x, y; reflexivity. Qed.
Lemma src_AnchorPoint_xy_from ap : src_AnchorPoint_from_xy (src_AnchorPoint_x ap) (src_AnchorPoint_y ap) = ap.
Proof. destruct ap; reflexivity. Qed.
Lemma anchor_of_from_xy x y : anchor_of (src_AnchorPoint_from_xy x y) = A x y.
Proof. destruct x, y; reflexivity. Qed.

(* ---- Point ---- *)
Lemma src_Point_new_eq x y : src_Point_new x y = P x y.                       Proof. reflexivity. Qed.
Lemma src_Point_zero_eq : src_Point_zero = P 0 0.                             Proof. reflexivity. Qed.
Lemma src_Point_add_eq a b : src_Point_add a b = padd a b.                    Proof. reflexivity. Qed.
Lemma src_Point_sub_eq a b : src_Point_sub a b = psub a b.                    Proof. reflexivity. Qed.
Lemma src_Point_neg_eq a : src_Point_neg a = pneg a.                          Proof. reflexivity. Qed.
Lemma src_Point_add_assign_eq a b : src_Point_add_assign a b = padd a b.      Proof. reflexivity. Qed.
Lemma src_Point_sub_assign_eq a b : src_Point_sub_assign a b = psub a b.      Proof. reflexivity. Qed.
Lemma src_Point_component_min_eq a b : src_Point_component_min a b = component_min a b. Proof. reflexivity. Qed.
Lemma src_Point_component_max_eq a b : src_Point_component_max a b = component_max a b. Proof. reflexivity. Qed.

Lemma src_Point_add_Size_eq p s : size_i32 s -> src_Point_add_Size p s = padd_size p s.
Proof. intros [Hw Hh]. src. unfold padd_size. ranges. cbv zeta. cast_id. reflexivity. Qed.
Lemma src_Point_sub_size_eq p s : size_i32 s -> src_Point_sub_size p s = psub_size p s.
Proof. intros [Hw Hh]. src. unfold psub_size. ranges. cbv zeta. cast_id. reflexivity. Qed.
Lemma src_Point_sub_Size_eq p s : size_i32 s -> src_Point_sub_Size p s = psub_size p s.
Proof. exact (src_Point_sub_size_eq p s). Qed.
Lemma src_Point_add_assign_Size_eq p s : size_i32 s -> src_Point_add_assign_Size p s = padd_size p s.
Proof. intros [Hw Hh]. src. unfold padd_size. ranges. cbv zeta. cast_id. reflexivity. Qed.
Lemma src_Point_sub_assign_Size_eq p s : size_i32 s -> src_Point_sub_assign_Size p s = psub_size p s.
Proof. intros [Hw Hh]. src. unfold psub_size. ranges. cbv zeta. cast_id. reflexivity. Qed.

(* ---- Size ---- *)
Lemma src_Size_new_eq w h : src_Size_new w h = S w h.                         Proof. reflexivity. Qed.
Lemma src_Size_new_equal_eq v : src_Size_new_equal v = S v v.                 Proof. reflexivity. Qed.
Lemma src_Size_zero_eq : src_Size_zero = S 0 0.                               Proof. reflexivity. Qed.
Lemma src_Size_saturating_add_eq a b : src_Size_saturating_add a b = size_sat_add a b. Proof. reflexivity. Qed.
Lemma src_Size_saturating_sub_eq a b : src_Size_saturating_sub a b = size_sat_sub a b. Proof. reflexivity. Qed.
Lemma src_Size_from_bounding_box_eq a b : src_Size_from_bounding_box a b = size_from_bounding_box a b. Proof. reflexivity. Qed.

(* ---- Rectangle ---- *)
Lemma src_center_offset_eq s : src_center_offset s = center_offset s.        Proof. reflexivity. Qed.

Lemma center_offset_i32 s : size_u32 s -> size_i32 (center_offset s).
Proof.
  intros [Hw Hh]. unfold center_offset, size_sat_sub. ranges.
  split; split; try (apply Z.div_pos; lia); apply Z.div_le_upper_bound; lia.
Qed.

Lemma src_overlaps_eq a1 a2 b1 b2 : src_overlaps (a1, a2) (b1, b2) = overlaps a1 a2 b1 b2.
Proof. reflexivity. Qed.

Lemma src_Rectangle_new_eq p s : src_Rectangle_new p s = R p s.               Proof. reflexivity. Qed.
Lemma src_Rectangle_zero_eq : src_Rectangle_zero = rect_zero.                 Proof. reflexivity. Qed.
Lemma src_Rectangle_with_corners_eq a b : src_Rectangle_with_corners a b = with_corners a b. Proof. reflexivity. Qed.

Lemma src_Rectangle_with_center_eq c s : size_u32 s -> src_Rectangle_with_center c s = with_center c s.
Proof.
  intros H. unfold src_Rectangle_with_center, with_center. rewrite src_center_offset_eq.
  rewrite src_Point_sub_size_eq by (apply center_offset_i32; exact H). reflexivity.
Qed.

Lemma src_Rectangle_center_eq r : size_u32 (sz r) -> src_Rectangle_center r = center r.
Proof.
  intros H. unfold src_Rectangle_center, center. rewrite src_center_offset_eq.
  rewrite src_Point_add_Size_eq by (apply center_offset_i32; exact H). reflexivity.
Qed.

Lemma src_Rectangle_bottom_right_eq r : size_i32 (sz r) -> src_Rectangle_bottom_right r = bottom_right r.
Proof.
  intros H. unfold src_Rectangle_bottom_right, bottom_right.
  destruct ((0 <? sw (sz r)) && (0 <? sh (sz r))); [|reflexivity].
  rewrite src_Point_add_Size_eq by exact H. reflexivity.
Qed.

Lemma src_Rectangle_contains_eq r p : size_i32 (sz r) -> src_Rectangle_contains r p = contains r p.
Proof.
  intros H. unfold src_Rectangle_contains, contains. rewrite src_Rectangle_bottom_right_eq by exact H.
  reflexivity.
Qed.

Lemma src_Rectangle_intersection_eq a b :
  size_i32 (sz a) -> size_i32 (sz b) -> src_Rectangle_intersection a b = intersection a b.
Proof.
  intros Ha Hb. unfold src_Rectangle_intersection, intersection.
  rewrite !src_Rectangle_bottom_right_eq, !src_Rectangle_contains_eq by assumption.
  destruct (bottom_right b) as [obr|], (bottom_right a) as [sbr|]; reflexivity.
Qed.

Lemma src_Rectangle_anchor_x_eq r a : src_Rectangle_anchor_x r a = anchor_x_of r a.   Proof. reflexivity. Qed.
Lemma src_Rectangle_anchor_y_eq r a : src_Rectangle_anchor_y r a = anchor_y_of r a.   Proof. reflexivity. Qed.
Lemma src_Rectangle_anchor_point_eq r ap : src_Rectangle_anchor_point r ap = anchor_point r (anchor_of ap).
Proof. reflexivity. Qed.
Lemma src_Rectangle_envelope_eq a b : src_Rectangle_envelope a b = envelope a b.       Proof. reflexivity. Qed.

Lemma src_Rectangle_resized_width_eq r w a : src_Rectangle_resized_width r w a = resized_width r w a.
Proof. reflexivity. Qed.
Lemma src_Rectangle_resized_height_eq r h a : src_Rectangle_resized_height r h a = resized_height r h a.
Proof. reflexivity. Qed.
Lemma src_Rectangle_resized_eq r s ap : src_Rectangle_resized r s ap = resized r s (anchor_of ap).
Proof. reflexivity. Qed.

Lemma offset_size_eq s n : i32_min <= n <= i32_max ->
  (if 0 <=? n
   then src_Size_saturating_add s (src_Size_new_equal (cast_i32_u32 n * 2))
   else src_Size_saturating_sub s (src_Size_new_equal (cast_i32_u32 (- n) * 2)))
  = (if 0 <=? n then size_sat_add s (S (n * 2) (n * 2)) else size_sat_sub s (S (- n * 2) (- n * 2))).
Proof.
  intros Hn. unfold i32_min, i32_max in Hn.
  destruct (Z.leb_spec 0 n).
  - replace (cast_i32_u32 n) with n; [reflexivity|]. symmetry. apply wrap_u32_id. unfold min_u32, max_u32. lia.
  - replace (cast_i32_u32 (- n)) with (- n); [reflexivity|]. symmetry. apply wrap_u32_id. unfold min_u32, max_u32. lia.
Qed.

Lemma offset_size_u32 s n : size_u32 s ->
  size_u32 (if 0 <=? n then size_sat_add s (S (n * 2) (n * 2)) else size_sat_sub s (S (- n * 2) (- n * 2))).
Proof.
  intros [Hw Hh]. unfold size_u32, size_sat_add, size_sat_sub, sat_add_u32, sat_sub_u32, u32_max in *.
  destruct (Z.leb_spec 0 n); cbn [sw sh]; lia.
Qed.

Lemma src_Rectangle_offset_eq r n :
  size_u32 (sz r) -> i32_min <= n <= i32_max -> src_Rectangle_offset r n = offset r n.
Proof.
  intros H Hn. unfold src_Rectangle_offset, offset.
  rewrite src_Rectangle_center_eq by exact H.
  cbv zeta. rewrite (offset_size_eq (sz r) n Hn).
  apply src_Rectangle_with_center_eq. apply offset_size_u32. exact H.
Qed.

Lemma src_Rectangle_rows_eq r : src_Rectangle_rows r = rows r.                 Proof. reflexivity. Qed.
Lemma src_Rectangle_columns_eq r : src_Rectangle_columns r = columns r.        Proof. reflexivity. Qed.
Lemma src_Rectangle_is_zero_sized_eq r : src_Rectangle_is_zero_sized r = is_zero_sized r. Proof. reflexivity. Qed.
