(* translate/r2c tie, round 3 (5): MonoFont::glyph (src/mono_font/mod.rs:100-123): the area of the glyph of a character in the
   font image.  `&dyn GlyphMapping` is the function char -> index it computes (a field of the generated MonoFont record;
   `self.glyph_mapping.index(c)` applies it), `char` is its code point.  The area handed to SubImage::new_unchecked equals
   Fontmodel.glyph_area of the font geometry (font_of, Proofs/SrcText.v) at the glyph index, when the index is a u32 and
   the glyph's corner fits i32 (it does for every atlas below 2^31 pixels per side). *)
From EG Require Import Base.Prelude Base.Casts Model.Geometry Model.Imageraw Model.Fontmodel Model.Textmodel.
From EG Require Import Gen.SrcGeometry Gen.SrcImage Gen.SrcFont Gen.SrcText Gen.SrcGlyph Proofs.SrcText.
Set Default Timeout 60.

Lemma src_glyph_area_eq F c ih :
  let f := font_of F (sw (ir_size (MonoFont_image F))) ih in
  let gi := MonoFont_glyph_mapping F c in
  0 <= gi <= u32_max -> 0 <= f_iw f -> 0 <= f_cw f -> 0 <= f_ch f -> gi * f_cw f <= i32_max -> gi * f_ch f <= i32_max ->
  SubImage_ImageRaw_area (src_MonoFont_glyph F c) = glyph_area f gi /\
  SubImage_ImageRaw_parent (src_MonoFont_glyph F c) = MonoFont_image F.
Proof.
  cbv zeta. unfold font_of, glyph_area, src_MonoFont_glyph, src_ImageRaw_size, Casts.apply1. cbn [f_iw f_cw f_ch].
  set (iw := sw (ir_size (MonoFont_image F))). set (cw := sw (MonoFont_character_size F)). set (ch := sh (MonoFont_character_size F)).
  set (gi := MonoFont_glyph_mapping F c). unfold u32_max, i32_max. intros Hg Hiw Hcw Hch Hx Hy.
  destruct ((cw =? 0) || (iw <? cw))%bool eqn:E; [split; reflexivity|].
  apply Bool.orb_false_elim in E. destruct E as [E1 E2]. apply Z.eqb_neq in E1. apply Z.ltb_ge in E2.
  rewrite Casts.cast_usize_u32_id by lia.
  set (gpr := iw / cw). assert (Hgpr : 1 <= gpr) by (unfold gpr; apply Z.div_le_lower_bound; lia).
  assert (Hrow : 0 <= gi / gpr <= gi) by (split; [apply Z.div_pos; lia | apply Z.div_le_upper_bound; nia]).
  assert (Hm : gi - gi / gpr * gpr = gi mod gpr) by (rewrite Z.mod_eq by lia; lia).
  assert (Hmr : 0 <= gi mod gpr <= gi) by (split; [apply Z.mod_pos_bound; lia | apply Z.mod_le; lia]).
  rewrite !Casts.cast_u32_i32_id by (rewrite ?Hm; nia).
  clear - F. subst gpr iw cw ch. destruct (MonoFont_character_size F). split; reflexivity.
Qed.
