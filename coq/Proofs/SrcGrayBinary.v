(* translate/r2c tie, round 5 (6): gray_color! once per invocation (Gray2 / Gray4 / Gray8: new, luma, MAX_LUMA, GRAY_50) and BinaryColor
   as its own two-variant type (From<bool>, From<RawU1>, From<BinaryColor> for RawU1, map_color at u8, invert, is_on / is_off).
   These are the functions the conversion templates of C13 (Gen/SrcConv.v) abstract as the model's gray_new / luma_of / gray_50 /
   max_luma / bin_of_bool (audit3 G3, G4): here they are tied to the source.  bin_z reads the two variants as the model's 0 / 1. *)
From EG Require Import Base.Prelude Base.Casts Gen.ColorConsts Gen.ColorTable Model.Colormodel Model.Rawdata.
From EG Require Import Gen.SrcRawData Gen.SrcGrayColor Gen.SrcBinaryColor.
Set Default Timeout 60.

Lemma src_gray_new_eq v :
  src_Gray2_new v = gray_new row_Gray2 v /\ src_Gray4_new v = gray_new row_Gray4 v /\ src_Gray8_new v = gray_new row_Gray8 v.
Proof. repeat split; reflexivity. Qed.
Lemma src_gray_luma_eq c :
  src_Gray2_luma c = luma_of row_Gray2 c /\ src_Gray4_luma c = luma_of row_Gray4 c /\ src_Gray8_luma c = luma_of row_Gray8 c.
Proof. repeat split; reflexivity. Qed.
Lemma src_gray_max_luma_eq :
  src_Gray2_MAX_LUMA = max_luma row_Gray2 /\ src_Gray4_MAX_LUMA = max_luma row_Gray4 /\ src_Gray8_MAX_LUMA = max_luma row_Gray8.
Proof. repeat split; reflexivity. Qed.
Lemma src_gray_50_eq :
  src_Gray2_GRAY_50 = gray_50 row_Gray2 /\ src_Gray4_GRAY_50 = gray_50 row_Gray4 /\ src_Gray8_GRAY_50 = gray_50 row_Gray8.
Proof. repeat split; reflexivity. Qed.

Definition bin_z (c : binary_color_BinaryColor) : Z := match c with binary_color_BinaryColor_On => bin_on | binary_color_BinaryColor_Off => bin_off end.

Lemma src_bin_from_bool_eq b : bin_z (src_BinaryColor_from_bool b) = bin_of_bool b.
Proof. destruct b; reflexivity. Qed.
Lemma src_bin_map_color_eq c off on : src_BinaryColor_map_color_u8 c off on = map_color (bin_z c) off on.
Proof. destruct c; reflexivity. Qed.
(* BinaryColor -> RawU1 -> BinaryColor: the raw value is the model's 0 / 1, and reading it back gives the colour *)
Lemma src_bin_to_raw_eq c : src_RawU1_from_BinaryColor c = bin_z c.
Proof. destruct c; reflexivity. Qed.
Lemma src_bin_from_raw_eq d : bin_z (src_BinaryColor_from_raw d) = if d =? 0 then bin_off else bin_on.
Proof. unfold src_BinaryColor_from_raw, src_RawU1_into_inner. destruct (d =? 0); reflexivity. Qed.
Lemma src_bin_raw_roundtrip c : src_BinaryColor_from_raw (src_RawU1_from_BinaryColor c) = c.
Proof. destruct c; reflexivity. Qed.
Lemma src_bin_invert_is c :
  bin_z (src_BinaryColor_invert c) = 1 - bin_z c /\ src_BinaryColor_is_on c = (bin_z c =? bin_on) /\ src_BinaryColor_is_off c = (bin_z c =? bin_off).
Proof. destruct c; repeat split; reflexivity. Qed.

(* against Colormodel.from_raw / to_raw at the BinaryColor row (C12's colour <-> raw functions) *)
Lemma src_bin_from_raw_model d : bin_z (src_BinaryColor_from_raw d) = from_raw row_BinaryColor d.
Proof. unfold src_BinaryColor_from_raw, src_RawU1_into_inner, from_raw. cbn [c_kind row_BinaryColor]. change bin_from_zero with 0. destruct (d =? 0); reflexivity. Qed.
Lemma src_bin_to_raw_model c : src_RawU1_from_BinaryColor c = to_raw row_BinaryColor (bin_z c).
Proof. destruct c; reflexivity. Qed.
