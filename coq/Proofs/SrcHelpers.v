(* translate/r2c tie, round 5 (2): generated definitions that no theorem referenced (audit3 section 3; translate/r2c/coverage.py
   now fails the run for such definitions).  Small constructors, operator impls and `*_assign` halves: each is tied either to
   the model function it corresponds to or to its closed form (the `*_assign` operator impls to the by-value operator). *)
From EG Require Import Base.Prelude Base.Casts Model.Geometry Model.Rrect Model.Style Model.Circle Model.Ellipse Model.Fontmodel Model.Sectormodel.
From EG Require Import Gen.SrcGeometry Gen.SrcStyle Gen.SrcCircle Gen.SrcRrect Gen.SrcRrect2 Gen.SrcFont Gen.SrcJoin Gen.SrcSector.
From EG Require Import Proofs.SrcGeometry Proofs.SrcRrect2.
Set Default Timeout 60.

(* ---- Point / Size operators (core/src/geometry/point.rs, size.rs) ---- *)
Lemma src_point_helpers a b k s :
  src_Point_swap_xy a = P (py a) (px a) /\
  src_Point_component_mul a b = P (px a * px b) (py a * py b) /\
  src_Point_component_div a b = P (Z.quot (px a) (px b)) (Z.quot (py a) (py b)) /\
  src_Point_mul_assign_i32 a k = src_Point_mul_i32 a k /\
  src_Point_div_assign_i32 a k = src_Point_div_i32 a k /\
  src_Point_add_assign_Size a s = src_Point_add_Size a s /\
  src_Point_sub_assign_Size a s = src_Point_sub_Size a s.
Proof. destruct a, b, s. repeat split; reflexivity. Qed.

Lemma src_size_helpers a b k :
  src_Size_swap_xy a = S (sh a) (sw a) /\
  src_Size_add a b = S (sw a + sw b) (sh a + sh b) /\
  src_Size_sub a b = S (sw a - sw b) (sh a - sh b) /\
  src_Size_add_assign a b = src_Size_add a b /\
  src_Size_sub_assign a b = src_Size_sub a b /\
  src_Size_component_mul a b = S (sw a * sw b) (sh a * sh b) /\
  src_Size_component_div a b = S (sw a / sw b) (sh a / sh b) /\
  src_Size_component_min a b = S (Z.min (sw a) (sw b)) (Z.min (sh a) (sh b)) /\
  src_Size_component_max a b = S (Z.max (sw a) (sw b)) (Z.max (sh a) (sh b)) /\
  src_Size_mul_assign_u32 a k = src_Size_mul_u32 a k /\
  src_Size_div_assign_u32 a k = src_Size_div_op_u32 a k.
Proof. destruct a, b. repeat split; reflexivity. Qed.

Lemma src_rectangle_new_at_origin_eq s : src_Rectangle_new_at_origin s = R (P 0 0) s.
Proof. reflexivity. Qed.

(* ---- RoundedRectangle::contains = RoundedRectangleContains::new(self).contains(point) ---- *)
Lemma src_rr_contains_eq r p : src_rr_ok r ->
  let c := src_RoundedRectangleContains_new r in
  src_probe_ok (EllipseQuadrant_center_2x (RoundedRectangleContains_top_left c)) p ->
  src_probe_ok (EllipseQuadrant_center_2x (RoundedRectangleContains_top_right c)) p ->
  src_probe_ok (EllipseQuadrant_center_2x (RoundedRectangleContains_bottom_left c)) p ->
  src_probe_ok (EllipseQuadrant_center_2x (RoundedRectangleContains_bottom_right c)) p ->
  src_RoundedRectangle_contains r p = rr_contains r p.
Proof.
  intros Hr c H1 H2 H3 H4. unfold src_RoundedRectangle_contains, rr_contains. cbv zeta. fold c.
  rewrite (src_rrc_contains_eq c p H1 H2 H3 H4). unfold c. rewrite (src_rrc_new_eq r Hr). reflexivity.
Qed.

(* ---- Ellipse::new, the decoration defaults, NORMAL_VECTOR_SCALE ---- *)
Lemma src_ellipse_new_eq t s : src_Ellipse_new t s = Ell t s.
Proof. reflexivity. Qed.

Lemma src_normal_vector_scale_eq : src_NORMAL_VECTOR_SCALE = sm_normal_vector_scale.
Proof. reflexivity. Qed.
Lemma src_new_horizontal_eq : OriginLinearEquation_normal_vector src_OriginLinearEquation_new_horizontal = P 0 sm_normal_vector_scale.
Proof. reflexivity. Qed.

(* mono_font/mod.rs:194-204: the decoration defaults (strikethrough at half the glyph height, underline one pixel below) *)
Lemma src_decoration_defaults h :
  src_DecorationDimensions_default_strikethrough h = Deco (sat_sub_u32 h 1 / 2) 1 /\
  src_DecorationDimensions_default_underline h = Deco (h + 1) 1.
Proof. split; reflexivity. Qed.
