(* translate/r2c tie, round 4 (2): ImageRaw::draw_sub_image (src/image/image_raw.rs:221-244).  The generic draw target D is a
   log of its fill_contiguous calls; `target.fill_contiguous(area, colours)` - a `&mut self` method of the generic parameter -
   is a function parameter, instantiated with "append (area, colours) to the log".  The log afterwards corresponds to
   Imageraw.raw_draw_sub_image: nothing when the area is rejected (zero sized or not completely inside the image), else one
   call with the origin rectangle of the area's size and the ContiguousPixels state of cp_new. *)
From EG Require Import Base.Prelude Base.Casts Model.Geometry Model.Rrect Model.Rawdata Model.Imageraw Model.Fontmodel.
From EG Require Import Gen.SrcGeometry Gen.SrcImage Gen.SrcRawIter Gen.SrcImagePixels Gen.SrcFont Gen.SrcText Gen.SrcGlyph Gen.SrcCircle Gen.SrcRrect Gen.SrcRrect2 Gen.SrcImageDraw.
From EG Require Import Proofs.SrcGeometry Proofs.SrcColor Proofs.SrcImagePixels.
Set Default Timeout 60.
(* Model/Imageraw.v fixes usize at 64 bit: the generated definitions are taken at that width *)
#[local] Existing Instance Casts.usize64_w.

Definition log_fill (log : list (rect * ContiguousPixels)) (r : rect) (c : ContiguousPixels) : list (rect * ContiguousPixels) * (unit + unit) :=
  (log ++ [(r, c)], inl tt).

(* the log read as the model's calls *)
Definition call_of (img : image_raw) (rc : rect * ContiguousPixels) : icall :=
  FillContiguous (fst rc) (cp_list img (cp_of (snd rc))).

Theorem src_draw_sub_image_eq img area :
  0 <= sw (ir_size img) <= i32_max -> 0 <= sh (ir_size img) <= i32_max -> 0 < ir_bpp img <= u32_max ->
  0 <= data_width img <= u32_max -> size_i32 (sz area) ->
  px (tl area) <= i32_max -> py (tl area) <= i32_max ->
  let r := src_ImageRaw_draw_sub_image log_fill (raw_load (ir_bpp img) (ir_alt img)) (ir_bpp img) img [] area in
  map (call_of img) (fst r) = raw_draw_sub_image img area /\ snd r = inl tt.
Proof.
  intros Hw Hh Hb Hd [Haw Hah] Hx Hy. cbv zeta. unfold src_ImageRaw_draw_sub_image, raw_draw_sub_image, i32_max, u32_max in *.
  change (src_Rectangle_is_zero_sized area) with (is_zero_sized area).
  destruct (is_zero_sized area); [split; reflexivity|]. cbn [orb].
  destruct (Z.ltb_spec (px (tl area)) 0); [split; reflexivity|]. destruct (Z.ltb_spec (py (tl area)) 0); [split; reflexivity|]. cbn [orb].
  rewrite !Casts.cast_i32_u32_id by lia. rewrite !Z.gtb_ltb.
  destruct (sw (ir_size img) <? px (tl area) + sw (sz area)); [split; reflexivity|].
  destruct (sh (ir_size img) <? py (tl area) + sh (sz area)); [split; reflexivity|]. cbn [orb].
  cbv zeta. rewrite src_ImageRaw_data_width_eq by (unfold u32_max; lia).
  rewrite !Casts.cast_i32_usize_id by lia.
  unfold log_fill. cbn [fst snd app map]. split; [|reflexivity].
  unfold call_of. cbn [fst snd].
  assert (Hs : 0 <= py (tl area) * data_width img + px (tl area)) by nia.
  destruct (src_cp_new_eq img (sz area) (py (tl area) * data_width img + px (tl area)) (data_width img - sw (sz area)) Hs) as [E _].
  rewrite E. reflexivity.
Qed.

Theorem src_draw_eq img :
  0 <= sw (ir_size img) <= u32_max -> 0 < ir_bpp img <= u32_max -> sw (ir_size img) <= data_width img <= u32_max ->
  let r := src_ImageRaw_draw log_fill (raw_load (ir_bpp img) (ir_alt img)) (ir_bpp img) img [] in
  map (call_of img) (fst r) = raw_draw img /\ snd r = inl tt.
Proof.
  intros Hw Hb Hd. cbv zeta. unfold src_ImageRaw_draw, raw_draw, u32_max in *.
  rewrite src_ImageRaw_data_width_eq by (unfold u32_max; lia).
  rewrite Casts.cast_u32_usize_id by lia.
  unfold log_fill. cbn [fst snd app map]. split; [|reflexivity]. unfold call_of. cbn [fst snd].
  destruct (src_cp_new_eq img (ir_size img) 0 (data_width img - sw (ir_size img)) (Z.le_refl 0)) as [E _]. rewrite E.
  reflexivity.
Qed.

(* ---- SubImage over a raw image ---- *)
Definition drawable_of (s : SubImage_ImageRaw) : drawable := Sub (Raw (SubImage_ImageRaw_parent s)) (SubImage_ImageRaw_area s).

Theorem src_sub_image_new_eq img area : size_i32 (ir_size img) -> size_i32 (sz area) ->
  drawable_of (src_SubImage_ImageRaw_new img area) = sub_image (Raw img) area.
Proof.
  intros Hi Ha. unfold drawable_of, src_SubImage_ImageRaw_new, sub_image, d_box, d_size, origin_box. cbv zeta.
  cbn [SubImage_ImageRaw_parent SubImage_ImageRaw_area].
  change (src_ImageRaw_bounding_box img) with (R (P 0 0) (ir_size img)).
  rewrite src_Rectangle_intersection_eq by assumption. reflexivity.
Qed.

Definition src_img_ok (img : image_raw) : Prop :=
  0 <= sw (ir_size img) <= i32_max /\ 0 <= sh (ir_size img) <= i32_max /\ 0 < ir_bpp img <= u32_max /\ 0 <= data_width img <= u32_max.

Theorem src_sub_image_draw_eq s :
  src_img_ok (SubImage_ImageRaw_parent s) -> size_i32 (sz (SubImage_ImageRaw_area s)) ->
  px (tl (SubImage_ImageRaw_area s)) <= i32_max -> py (tl (SubImage_ImageRaw_area s)) <= i32_max ->
  let img := SubImage_ImageRaw_parent s in
  let r := src_SubImage_ImageRaw_draw (raw_load (ir_bpp img) (ir_alt img)) (ir_bpp img) log_fill s [] in
  map (call_of img) (fst r) = d_draw (drawable_of s) /\ snd r = inl tt.
Proof.
  intros [Hw [Hh [Hb Hd]]] Hs Hx Hy. cbv zeta. unfold src_SubImage_ImageRaw_draw, drawable_of. cbn [d_draw d_draw_sub_image].
  pose proof (src_draw_sub_image_eq (SubImage_ImageRaw_parent s) (SubImage_ImageRaw_area s) Hw Hh Hb Hd Hs Hx Hy) as E. cbv zeta in E.
  destruct (src_ImageRaw_draw_sub_image _ _ _ _ _ _) as [t r]. exact E.
Qed.

Theorem src_sub_image_draw_sub_image_eq s area :
  src_img_ok (SubImage_ImageRaw_parent s) ->
  let a := translate_rect area (tl (SubImage_ImageRaw_area s)) in
  size_i32 (sz a) -> px (tl a) <= i32_max -> py (tl a) <= i32_max ->
  let img := SubImage_ImageRaw_parent s in
  let r := src_SubImage_ImageRaw_draw_sub_image (raw_load (ir_bpp img) (ir_alt img)) (ir_bpp img) log_fill s [] area in
  map (call_of img) (fst r) = d_draw_sub_image (drawable_of s) area /\ snd r = inl tt.
Proof.
  intros [Hw [Hh [Hb Hd]]] a Hs Hx Hy. cbv zeta. unfold src_SubImage_ImageRaw_draw_sub_image, drawable_of. cbn [d_draw_sub_image].
  change (src_Rectangle_translate area (tl (SubImage_ImageRaw_area s))) with a.
  pose proof (src_draw_sub_image_eq (SubImage_ImageRaw_parent s) a Hw Hh Hb Hd Hs Hx Hy) as E. cbv zeta in E.
  destruct (src_ImageRaw_draw_sub_image _ _ _ _ _ _) as [t r]. exact E.
Qed.
