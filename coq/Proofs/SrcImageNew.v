(* translate/r2c tie, round 3 (2): ImageRaw::new (src/image/image_raw.rs).  The Rust struct carries (data, size); bits per
   pixel and data order are type parameters, the model record image_raw carries them as fields.  The generated `new`
   (C::Raw::BITS_PER_PIXEL as a parameter) accepts / rejects exactly like Imageraw.raw_new, with the same expected size. *)
From EG Require Import Base.Prelude Base.Casts Model.Geometry Model.Imageraw Gen.SrcGeometry Gen.SrcImage Gen.SrcImageNew Proofs.SrcColor.
Set Default Timeout 60.
(* the generated definitions that cast to usize (`as usize`, `usize::try_from`) take the width of usize as Casts.UsizeW; the model
   of this property works with 64-bit usize (exact integers in range): taken at that width *)
#[local] Existing Instance Casts.usize64_w.

Definition new_result (r : image_raw + Z) : image_raw_ImageRaw + ImageRawError :=
  match r with
  | inl img => inl (Build_image_raw_ImageRaw (ir_data img) (ir_size img))
  | inr e => inr (ImageRawError_InvalidDataSize e)
  end.

Lemma src_imageraw_new_eq bpp alt data s :
  0 <= sw s <= u32_max -> 0 <= sh s <= u32_max ->
  src_image_raw_ImageRaw_new bpp data s = new_result (raw_new bpp alt data s).
Proof.
  intros Hw Hh. unfold src_image_raw_ImageRaw_new, raw_new.
  rewrite src_bytes_per_row_eq by assumption.
  rewrite Casts.cast_u32_usize_id by (unfold u32_max in Hh; lia).
  cbv zeta. destruct (negb _); reflexivity.
Qed.
