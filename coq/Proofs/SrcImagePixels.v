(* translate/r2c tie, round 4 (2): pixels of a raw image (src/image/image_raw.rs: ImageRaw::pixel, ContiguousPixels::new /
   next; src/iterator/raw.rs: RawDataSlice::new / into_iter).  `R::load::<O>` (abstracted by RawDataIterator::next) is a
   function parameter, instantiated here with Imageraw.raw_load bpp alt; `r.into()` (raw -> colour, property C12's
   subject) is a function parameter, instantiated with the identity as in the model.  The `&mut self` call `nth` on the
   temporary `RawDataSlice::new(..).into_iter()` works on a bound copy. *)
From EG Require Import Base.Prelude Base.Casts Model.Geometry Model.Rawdata Model.Imageraw.
From EG Require Import Gen.SrcGeometry Gen.SrcImage Gen.SrcRawIter Gen.SrcImagePixels Proofs.SrcColor.
Set Default Timeout 60.
(* Model/Imageraw.v fixes usize at 64 bit (its usize_max): the generated definitions are taken at that width *)
#[local] Existing Instance Casts.usize64_w.

Lemma it_next_eq bpp alt d i :
  src_RawDataIterator_next (raw_load bpp alt) (It d i) = (It d (snd (raw_next bpp alt d i)), fst (raw_next bpp alt d i)).
Proof.
  unfold src_RawDataIterator_next, raw_next. cbn [it_data it_index].
  destruct (raw_load bpp alt d i); reflexivity.
Qed.

Lemma it_nth_eq bpp alt d i n : 0 <= i -> 0 <= n ->
  src_RawDataIterator_nth (raw_load bpp alt) (It d i) n = (It d (snd (raw_nth bpp alt d i n)), fst (raw_nth bpp alt d i n)).
Proof.
  intros Hi Hn. unfold src_RawDataIterator_nth, raw_nth. cbn [it_data it_index].
  assert (E : Casts.sat_add_usize i n = sat_add_usize i n).
  { unfold Casts.sat_add_usize, Casts.clamp, sat_add_usize, Casts.min_usize, usize_max. cbn [Casts.usize_max_w Casts.usize64_w]. unfold Casts.max_usize. lia. }
  rewrite E, it_next_eq. reflexivity.
Qed.

Lemma raw_next_index bpp alt d i : 0 <= i -> 0 <= snd (raw_next bpp alt d i).
Proof. intros H. unfold raw_next. destruct (raw_load bpp alt d i); cbn; lia. Qed.
Lemma raw_nth_index bpp alt d i n : 0 <= i -> 0 <= n -> 0 <= snd (raw_nth bpp alt d i n).
Proof. intros Hi Hn. unfold raw_nth. apply raw_next_index. unfold sat_add_usize, usize_max. lia. Qed.

(* ---- ImageRaw::pixel ---- *)
Theorem src_imageraw_pixel_eq img p :
  0 <= sw (ir_size img) <= i32_max -> 0 <= sh (ir_size img) <= i32_max -> 0 < ir_bpp img <= u32_max ->
  0 <= data_width img <= u32_max -> px p <= i32_max -> py p <= i32_max ->
  src_ImageRaw_pixel (raw_load (ir_bpp img) (ir_alt img)) (fun r => r) (ir_bpp img) img p = raw_pixel img p.
Proof.
  intros Hw Hh Hb Hd Hx Hy. unfold src_ImageRaw_pixel, raw_pixel, i32_max, u32_max in *.
  rewrite !Casts.cast_u32_i32_id by lia. rewrite !Z.geb_leb.
  destruct (Z.ltb_spec (px p) 0); [reflexivity|]. destruct (Z.ltb_spec (py p) 0); [reflexivity|].
  destruct (sw (ir_size img) <=? px p); [reflexivity|]. destruct (sh (ir_size img) <=? py p); [reflexivity|]. cbn [orb].
  rewrite src_ImageRaw_data_width_eq by (unfold u32_max; lia).
  rewrite !Casts.cast_i32_usize_id by lia. rewrite ?Casts.cast_u32_usize_id by lia.
  unfold src_RawDataSlice_into_iter, src_RawDataSlice_new, src_RawDataIterator_new. cbn [RawDataSlice_data].
  rewrite it_nth_eq by nia.
  destruct (fst (raw_nth (ir_bpp img) (ir_alt img) (ir_data img) 0 (px p + py p * data_width img))); reflexivity.
Qed.

(* ---- ContiguousPixels ---- *)
Definition cp_of (c : ContiguousPixels) : cpix :=
  CP (it_index (ContiguousPixels_iter c)) (ContiguousPixels_remaining_x c) (ContiguousPixels_width c)
     (ContiguousPixels_remaining_y c) (ContiguousPixels_row_skip c).

Theorem src_cp_new_eq img s skip rs : 0 <= skip ->
  let c := src_ContiguousPixels_new (raw_load (ir_bpp img) (ir_alt img)) img s skip rs in
  cp_of c = cp_new img s skip rs /\ it_data (ContiguousPixels_iter c) = ir_data img.
Proof.
  intros Hs. cbv zeta. unfold src_ContiguousPixels_new, cp_new, cp_of.
  unfold src_RawDataSlice_into_iter, src_RawDataSlice_new, src_RawDataIterator_new. cbn [RawDataSlice_data].
  destruct (Z.ltb_spec 0 skip).
  - rewrite it_nth_eq by lia. cbn [ContiguousPixels_iter ContiguousPixels_remaining_x ContiguousPixels_width ContiguousPixels_remaining_y ContiguousPixels_row_skip it_index it_data].
    split; reflexivity.
  - cbn [ContiguousPixels_iter ContiguousPixels_remaining_x ContiguousPixels_width ContiguousPixels_remaining_y ContiguousPixels_row_skip it_index it_data].
    split; reflexivity.
Qed.

Theorem src_cp_next_eq img c :
  it_data (ContiguousPixels_iter c) = ir_data img -> 0 <= it_index (ContiguousPixels_iter c) -> 0 <= ContiguousPixels_row_skip c ->
  let r := src_ContiguousPixels_next (raw_load (ir_bpp img) (ir_alt img)) (fun x => x) c in
  cp_of (fst r) = snd (cp_next img (cp_of c)) /\ snd r = fst (cp_next img (cp_of c)) /\
  it_data (ContiguousPixels_iter (fst r)) = ir_data img /\ 0 <= it_index (ContiguousPixels_iter (fst r)).
Proof.
  intros Hd Hi Hr. cbv zeta. destruct c as [[d i] rx w ry rs]. cbn [ContiguousPixels_iter it_data it_index ContiguousPixels_row_skip] in *. subst d.
  unfold src_ContiguousPixels_next, cp_next, cp_of.
  cbn [ContiguousPixels_iter ContiguousPixels_remaining_x ContiguousPixels_width ContiguousPixels_remaining_y ContiguousPixels_row_skip it_index it_data cp_index cp_rx cp_width cp_ry cp_row_skip].
  destruct (0 <? rx).
  - rewrite it_next_eq. pose proof (raw_next_index (ir_bpp img) (ir_alt img) (ir_data img) i Hi).
    destruct (raw_next (ir_bpp img) (ir_alt img) (ir_data img) i) as [v j]. cbn [fst snd] in *.
    cbn [ContiguousPixels_iter ContiguousPixels_remaining_x ContiguousPixels_width ContiguousPixels_remaining_y ContiguousPixels_row_skip it_index it_data].
    repeat split; try assumption; destruct v; reflexivity.
  - destruct (ry =? 0).
    + cbn [fst snd ContiguousPixels_iter ContiguousPixels_remaining_x ContiguousPixels_width ContiguousPixels_remaining_y ContiguousPixels_row_skip it_index it_data].
      repeat split; try assumption; reflexivity.
    + rewrite it_nth_eq by assumption. pose proof (raw_nth_index (ir_bpp img) (ir_alt img) (ir_data img) i rs Hi Hr).
      destruct (raw_nth (ir_bpp img) (ir_alt img) (ir_data img) i rs) as [v j]. cbn [fst snd] in *.
      cbn [ContiguousPixels_iter ContiguousPixels_remaining_x ContiguousPixels_width ContiguousPixels_remaining_y ContiguousPixels_row_skip it_index it_data].
      repeat split; try assumption; destruct v; reflexivity.
Qed.
