(* translate/r2c tie, round 5 (5): the generated ContiguousPixels::next driven until its first None is the model's cp_run, for every
   step budget (None = the budget ran out first, on both sides); with the model's own budget cp_fuel it yields cp_list - the colour
   list that C09_src_draw's call_of reads off the initial state (audit3 1.3: "there is no run theorem src next -> cp_list"). *)
From EG Require Import Base.Prelude Base.Casts Model.Geometry Model.Rawdata Model.Imageraw.
From EG Require Import Gen.SrcGeometry Gen.SrcImage Gen.SrcRawIter Gen.SrcImagePixels Proofs.SrcImagePixels.
Set Default Timeout 60.
#[local] Existing Instance Casts.usize64_w.

Fixpoint src_cp_collect (load : list Z -> Z -> option Z) (into : Z -> Z) (n : nat) (c : ContiguousPixels) : option (list Z) :=
  match n with
  | O => None
  | Datatypes.S k =>
      match src_ContiguousPixels_next load into c with
      | (c', Some v) => match src_cp_collect load into k c' with Some l => Some (v :: l) | None => None end
      | (_, None) => Some []
      end
  end.

Lemma cp_next_row_skip img st : cp_row_skip (snd (cp_next img st)) = cp_row_skip st.
Proof.
  unfold cp_next. destruct (0 <? cp_rx st).
  - destruct (raw_next _ _ _ _); reflexivity.
  - destruct (cp_ry st =? 0); [reflexivity|]. destruct (raw_nth _ _ _ _ _); reflexivity.
Qed.

Theorem src_cp_collect_eq img : forall n c,
  it_data (ContiguousPixels_iter c) = ir_data img -> 0 <= it_index (ContiguousPixels_iter c) -> 0 <= ContiguousPixels_row_skip c ->
  src_cp_collect (raw_load (ir_bpp img) (ir_alt img)) (fun x => x) n c = cp_run n img (cp_of c).
Proof.
  induction n as [|n IH]; intros c Hd Hi Hr; [reflexivity|].
  cbn [src_cp_collect cp_run].
  destruct (src_cp_next_eq img c Hd Hi Hr) as (E1 & E2 & E3 & E4).
  destruct (src_ContiguousPixels_next (raw_load (ir_bpp img) (ir_alt img)) (fun x => x) c) as [c' r]. cbn [fst snd] in *.
  destruct (cp_next img (cp_of c)) as [v st'] eqn:EN. cbn [fst snd] in *. subst r.
  destruct v as [v|]; [|reflexivity].
  assert (Hr' : 0 <= ContiguousPixels_row_skip c').
  { change (ContiguousPixels_row_skip c') with (cp_row_skip (cp_of c')). rewrite E1.
    pose proof (cp_next_row_skip img (cp_of c)) as K. rewrite EN in K. cbn [snd] in K. rewrite K. exact Hr. }
  rewrite (IH c' E3 E4 Hr'). rewrite E1. reflexivity.
Qed.

Corollary src_cp_collect_list img c :
  it_data (ContiguousPixels_iter c) = ir_data img -> 0 <= it_index (ContiguousPixels_iter c) -> 0 <= ContiguousPixels_row_skip c ->
  match src_cp_collect (raw_load (ir_bpp img) (ir_alt img)) (fun x => x) (cp_fuel (cp_of c)) c with Some l => l | None => [] end
  = cp_list img (cp_of c).
Proof. intros Hd Hi Hr. rewrite (src_cp_collect_eq img _ c Hd Hi Hr). reflexivity. Qed.

(* from the iterator ImageRaw::draw_sub_image hands to fill_contiguous (ContiguousPixels::new) *)
Corollary src_cp_new_collect img s skip rs : 0 <= skip -> 0 <= rs -> forall n,
  src_cp_collect (raw_load (ir_bpp img) (ir_alt img)) (fun x => x) n (src_ContiguousPixels_new (raw_load (ir_bpp img) (ir_alt img)) img s skip rs)
  = cp_run n img (cp_new img s skip rs).
Proof.
  intros Hs Hrs n. destruct (src_cp_new_eq img s skip rs Hs) as [E D].
  rewrite <- E. apply src_cp_collect_eq; [exact D| |].
  - change (it_index (ContiguousPixels_iter ?c)) with (cp_index (cp_of c)). rewrite E. unfold cp_new. cbv zeta. cbn [cp_index].
    destruct (Z.ltb_spec 0 skip); [|lia]. apply raw_nth_index; lia.
  - change (ContiguousPixels_row_skip ?c) with (cp_row_skip (cp_of c)). rewrite E. exact Hrs.
Qed.
