(* translate/r2c tie for the thick-stroke join arithmetic: src/geometry/mod.rs (PointExt), src/primitives/line/mod.rs
   (delta, midpoint), src/primitives/common/linear_equation.rs and src/primitives/line/intersection_params.rs.
   The regenerated definitions (coq/Gen/SrcCircle.v for PointExt, coq/Gen/SrcJoin.v) equal Model/Join.v, with no
   range hypothesis: this code contains only lossless casts (i64::from) and one saturating cast, which the model
   has as well. *)
From EG Require Import Base.Prelude Base.Casts Model.Geometry Model.Line Model.Thickline Model.Join.
From EG Require Import Gen.SrcGeometry Gen.SrcCircle Gen.SrcJoin.
Set Default Timeout 60.

Lemma src_rotate_90_eq p : src_Point_rotate_90 p = rotate_90 p.             Proof. reflexivity. Qed.
Lemma src_dot_product_eq a b : src_Point_dot_product a b = dot_product a b. Proof. reflexivity. Qed.
Lemma src_determinant_eq a b : src_Point_determinant a b = determinant a b. Proof. reflexivity. Qed.

Lemma src_Line_delta_eq l : src_Line_delta l = line_delta l.               Proof. reflexivity. Qed.
Lemma src_Line_midpoint_eq l : src_Line_midpoint l = line_midpoint l.      Proof. reflexivity. Qed.

Lemma src_from_line_eq l : src_LinearEquation_from_line l = le_from_line l. Proof. reflexivity. Qed.
Lemma src_distance_eq e p : src_LinearEquation_distance e p = le_distance e p. Proof. reflexivity. Qed.
Lemma src_check_side_eq e p s : src_LinearEquation_check_side e p s = le_check_side e p s. Proof. reflexivity. Qed.

Lemma src_from_lines_eq l1 l2 : src_IntersectionParams_from_lines l1 l2 = ip_from_lines l1 l2.
Proof. reflexivity. Qed.

Lemma src_nearly_colinear_has_error_eq ip :
  src_IntersectionParams_nearly_colinear_has_error ip = nearly_colinear_has_error ip.
Proof. unfold src_IntersectionParams_nearly_colinear_has_error, nearly_colinear_has_error. rewrite Z.pow_2_r. reflexivity. Qed.

(* Base/Casts.v and Model/Join.v each define the saturating i64 -> i32 cast and div_euclid; they are the same functions *)
Lemma casts_sat_as_i32_eq x : Casts.sat_as_i32 x = Join.sat_as_i32 x.
Proof. unfold Casts.sat_as_i32, Join.sat_as_i32, clamp, min_i32, max_i32, i32_min, i32_max. reflexivity. Qed.
Lemma casts_div_euclid_eq a b : Casts.div_euclid a b = Join.div_euclid a b.
Proof. unfold Casts.div_euclid, Join.div_euclid. reflexivity. Qed.

(* the closure round_div of the source, as translated, is the model's round_div (the source applies the saturating cast
   inside the closure, under the sign split; the model outside it) *)
Lemma src_intersection_eq ip : src_IntersectionParams_intersection ip = ip_intersection ip.
Proof.
  destruct ip as [l1 l2 le1 le2 den].
  unfold src_IntersectionParams_intersection, ip_intersection. cbn [ip_den ip_le1 ip_le2].
  destruct (den =? 0); [reflexivity|].
  unfold round_div, round_div_raw, ip_x_numerator, ip_y_numerator, det2, src_Point_new. cbn [ip_den ip_le1 ip_le2].
  cbv zeta. cbn [fst snd].
  destruct (den <? 0);
    unfold Casts.sat_as_i32, Join.sat_as_i32, clamp, min_i32, max_i32, i32_min, i32_max, Casts.div_euclid, Join.div_euclid;
    reflexivity.
Qed.

Lemma src_NORMAL_VECTOR_SCALE_eq : src_NORMAL_VECTOR_SCALE = 1024.
Proof. reflexivity. Qed.
