(* translate/r2c tie for src/primitives/line/bresenham.rs and src/primitives/triangle/mod.rs.
   The source keeps the Bresenham parameters in nested generic structs (MajorMinor<i32>, MajorMinor<Point>) and the
   triangle vertices in an array; the models (Model/Line.v, Model/Thickline.v, Model/Triangle.v) use flat records.
   The generated definitions (coq/Gen/SrcLine.v, SrcTriangle.v) work on generated Records that mirror the Rust
   structs; bp_of / bs_of / bpt_of / tri_of are the (bijective, field-by-field) conversions to the model records.
   `&mut self` methods are state-passing: src_Bresenham_next s p = (new state, yielded point). *)
From EG Require Import Base.Prelude Base.Casts Model.Geometry Model.Line Model.Thickline Model.Triangle.
From EG Require Import Gen.SrcGeometry Gen.SrcJoin Gen.SrcLine Gen.SrcTriangle.
Set Default Timeout 60.

Definition bp_of (p : BresenhamParameters) : bparams :=
  BP (BresenhamParameters_error_threshold p)
     (MajorMinor_i32_major (BresenhamParameters_error_step p))
     (MajorMinor_i32_minor (BresenhamParameters_error_step p))
     (MajorMinor_Point_major (BresenhamParameters_position_step p))
     (MajorMinor_Point_minor (BresenhamParameters_position_step p)).
Definition bs_of (s : Bresenham) : bstate := BS (Bresenham_point s) (Bresenham_error s).
Definition bpt_of (b : BresenhamPoint) : bpoint :=
  match b with BresenhamPoint_Normal p => BNormal p | BresenhamPoint_Extra p => BExtra p end.

Lemma src_bparams_new_eq l : bp_of (src_BresenhamParameters_new l) = bparams_new l.
Proof.
  unfold src_BresenhamParameters_new, bparams_new. cbv zeta.
  change (px (src_Point_abs (src_Point_sub (l_end l) (l_start l)))) with (Z.abs (px (psub (l_end l) (l_start l)))).
  change (py (src_Point_abs (src_Point_sub (l_end l) (l_start l)))) with (Z.abs (py (psub (l_end l) (l_start l)))).
  destruct (Z.abs (px (psub (l_end l) (l_start l))) <=? Z.abs (py (psub (l_end l) (l_start l)))); reflexivity.
Qed.

Lemma src_mirror_extra_points_eq p : src_BresenhamParameters_mirror_extra_points p = mirror_extra_points (bp_of p).
Proof. reflexivity. Qed.

Lemma src_bresenham_new_eq p : bs_of (src_Bresenham_new p) = BS p 0.
Proof. reflexivity. Qed.

Lemma src_bnext_eq s p :
  (snd (src_Bresenham_next s p), bs_of (fst (src_Bresenham_next s p))) = bnext (bp_of p) (bs_of s).
Proof.
  unfold src_Bresenham_next, bnext. cbv zeta. cbn [error_threshold bp_of bs_of b_error].
  destruct (BresenhamParameters_error_threshold p <? Bresenham_error s); reflexivity.
Qed.

Lemma src_bnext_all_eq s p :
  (bpt_of (snd (src_Bresenham_next_all s p)), bs_of (fst (src_Bresenham_next_all s p))) = bnext_all (bp_of p) (bs_of s).
Proof.
  unfold src_Bresenham_next_all, bnext_all. cbv zeta. rewrite src_mirror_extra_points_eq.
  cbn [error_threshold bp_of bs_of b_error].
  destruct (BresenhamParameters_error_threshold p <? Bresenham_error s); [|reflexivity].
  destruct (mirror_extra_points _); reflexivity.
Qed.

Lemma src_bprevious_all_eq s p :
  (bpt_of (snd (src_Bresenham_previous_all s p)), bs_of (fst (src_Bresenham_previous_all s p))) = bprevious_all (bp_of p) (bs_of s).
Proof.
  unfold src_Bresenham_previous_all, bprevious_all. cbv zeta. rewrite src_mirror_extra_points_eq.
  cbn [error_threshold bp_of bs_of b_error].
  destruct (Bresenham_error s <=? - BresenhamParameters_error_threshold p); [|reflexivity].
  destruct (mirror_extra_points _); reflexivity.
Qed.

(* `delta.x.max(delta.y) as u32 + 1`: the cast is the identity for endpoints that are values of i32 *)
Lemma src_major_length_eq l :
  i32_min <= px (l_start l) <= i32_max -> i32_min <= py (l_start l) <= i32_max ->
  i32_min <= px (l_end l) <= i32_max -> i32_min <= py (l_end l) <= i32_max ->
  src_major_length l = major_length l.
Proof.
  intros H1 H2 H3 H4. unfold src_major_length, major_length, i32_min, i32_max in *. cbv zeta.
  change (px (src_Point_abs (src_Point_sub (l_end l) (l_start l)))) with (Z.abs (px (psub (l_end l) (l_start l)))).
  change (py (src_Point_abs (src_Point_sub (l_end l) (l_start l)))) with (Z.abs (py (psub (l_end l) (l_start l)))).
  rewrite cast_i32_u32_id; [reflexivity|]. unfold psub. cbn [px py]. lia.
Qed.

(* ---- line/mod.rs, common/mod.rs ---- *)
Lemma src_side_swap_eq s : src_LineSide_swap s = side_swap s.
Proof. reflexivity. Qed.
Lemma src_perpendicular_eq l : src_Line_perpendicular l = Thickline.perpendicular l.
Proof. reflexivity. Qed.
Lemma src_line_bounding_box_eq l : src_Line_bounding_box l = with_corners (l_start l) (l_end l).
Proof. reflexivity. Qed.
Lemma src_line_translate_eq l d : src_Line_translate l d = translate_line l d.
Proof. reflexivity. Qed.

(* ---- triangle/mod.rs ---- *)
Definition tri_of (t : Triangle) : triangle := let '(a, b, c) := Triangle_vertices t in T a b c.

Lemma src_sort_two_yx_eq a b : src_sort_two_yx a b = sort_two_yx a b.
Proof. reflexivity. Qed.

Lemma src_triangle_new_eq a b c : tri_of (src_Triangle_new a b c) = T a b c.
Proof. reflexivity. Qed.

Lemma src_area_doubled_eq t : src_Triangle_area_doubled t = area_doubled (tri_of t).
Proof. destruct t as [[[a b] c]]. reflexivity. Qed.

Lemma src_sorted_yx_eq t : tri_of (src_Triangle_sorted_yx t) = sorted_yx (tri_of t).
Proof.
  destruct t as [[[a b] c]]. unfold src_Triangle_sorted_yx, sorted_yx, tri_of. cbn [Triangle_vertices v1 v2 v3].
  change src_sort_two_yx with sort_two_yx.
  destruct (sort_two_yx a b) as [y1 y2]. destruct (sort_two_yx c y1) as [y1' y3]. destruct (sort_two_yx y3 y2) as [y2' y3'].
  reflexivity.
Qed.

Lemma src_sorted_clockwise_eq t : tri_of (src_Triangle_sorted_clockwise t) = sorted_clockwise (tri_of t).
Proof.
  unfold src_Triangle_sorted_clockwise, sorted_clockwise. rewrite src_area_doubled_eq.
  destruct (area_doubled (tri_of t) ?= 0).
  - apply src_sorted_yx_eq.
  - destruct t as [[[a b] c]]. reflexivity.
  - reflexivity.
Qed.

Lemma src_tri_bounding_box_eq t : src_Triangle_bounding_box t = tri_bounding_box (tri_of t).
Proof. destruct t as [[[a b] c]]. reflexivity. Qed.
