(* translate/r2c tie, round 2 group 3: src/primitives/common/line_join.rs (intersections, empty, filler_line, cap,
   start/end_cap_lines, is_degenerate) and thick_segment.rs (new, is_skeleton, edges, edges_bounding_box):
   the regenerated definitions (coq/Gen/SrcLineJoin.v) equal Model/Join.v.  No hypotheses.
   LineJoin::start / end / from_points are not translated: they call Line::extents, whose model is list-based. *)
From EG Require Import Base.Prelude Base.Casts Model.Geometry Model.Line Model.Thickline Model.Join.
From EG Require Import Gen.SrcGeometry Gen.SrcCircle Gen.SrcJoin Gen.SrcLine Gen.SrcLineJoin Proofs.SrcJoin.
Set Default Timeout 60.

Lemma src_intersections_eq fl fr sl sr : src_intersections fl fr sl sr = intersections fl fr sl sr.
Proof.
  unfold src_intersections, intersections. cbv zeta.
  change src_IntersectionParams_from_lines with ip_from_lines.
  rewrite (src_intersection_eq (ip_from_lines sl fl)), (src_intersection_eq (ip_from_lines sr fr)).
  rewrite (src_nearly_colinear_has_error_eq (ip_from_lines sl fl)), (src_nearly_colinear_has_error_eq (ip_from_lines sr fr)).
  destruct (ip_intersection (ip_from_lines sl fl)) as [p o|]; [|reflexivity].
  destruct (nearly_colinear_has_error (ip_from_lines sl fl)); cbn [negb];
    destruct (ip_intersection (ip_from_lines sr fr)) as [p2 o2|]; try reflexivity;
    destruct (nearly_colinear_has_error (ip_from_lines sr fr)); reflexivity.
Qed.

Lemma src_lj_empty_eq : src_LineJoin_empty = lj_empty.
Proof. reflexivity. Qed.

Lemma src_filler_line_eq j : src_LineJoin_filler_line j = filler_line j.
Proof. unfold src_LineJoin_filler_line, filler_line. destruct (lj_kind j) as [|o|o| | |]; try reflexivity; destruct o; reflexivity. Qed.

Lemma src_lj_cap_eq j c : src_LineJoin_cap j c = lj_cap j c.
Proof.
  unfold src_LineJoin_cap, lj_cap. rewrite src_filler_line_eq.
  destruct (filler_line j) as [f|]; reflexivity.
Qed.

Lemma src_start_cap_lines_eq j : src_LineJoin_start_cap_lines j = start_cap_lines j.
Proof. apply src_lj_cap_eq. Qed.
Lemma src_end_cap_lines_eq j : src_LineJoin_end_cap_lines j = end_cap_lines j.
Proof. apply src_lj_cap_eq. Qed.

Lemma src_is_degenerate_eq j : src_LineJoin_is_degenerate j = is_degenerate j.
Proof. unfold src_LineJoin_is_degenerate, is_degenerate. destruct (lj_kind j); reflexivity. Qed.

Lemma src_is_skeleton_eq t : src_ThickSegment_is_skeleton t = is_skeleton t.
Proof. reflexivity. Qed.
Lemma src_ts_edges_eq t : src_ThickSegment_edges t = ts_edges t.
Proof. reflexivity. Qed.
Lemma src_edges_bounding_box_eq t : src_ThickSegment_edges_bounding_box t = edges_bounding_box t.
Proof.
  unfold src_ThickSegment_edges_bounding_box, edges_bounding_box. rewrite src_ts_edges_eq, src_is_skeleton_eq.
  destruct (ts_edges t) as [r l]. destruct (is_skeleton t); reflexivity.
Qed.
