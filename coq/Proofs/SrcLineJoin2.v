(* translate/r2c tie, round 3: LineJoin::start / end / from_points (src/primitives/common/line_join.rs) and
   Line::styled_bounding_box (src/primitives/line/styled.rs), all built on Line::extents: whenever the model answers
   Some x, the generated definition answers Some x for every fuel above the number of parallels (Proofs/SrcExtents.v). *)
From EG Require Import Base.Prelude Base.Casts Model.Geometry Model.Style Model.Line Model.Thickline Model.Join.
From EG Require Import Gen.SrcGeometry Gen.SrcStyle Gen.SrcCircle Gen.SrcJoin Gen.SrcLine Gen.SrcThick Gen.SrcLineJoin Gen.SrcLineJoin2.
From EG Require Import Proofs.SrcJoin Proofs.SrcLineJoin Proofs.SrcExtents.
Set Default Timeout 60.

Definition ext_fuel (l : line) (w : Z) (F : nat) : Prop := (parallels_fuel l (sat_u32_to_i32 w) < F)%nat.

Lemma src_lj_start_eq start mid w so j F :
  lj_start start mid w so = Some j -> ext_fuel (L start mid) w F -> src_LineJoin_start F start mid w so = Some j.
Proof.
  unfold lj_start, src_LineJoin_start, ext_fuel. cbv zeta. intros H HF.
  destruct (extents (L start mid) w so) as [[l r]|] eqn:E; [|discriminate].
  change (src_Line_new start mid) with (L start mid). rewrite (src_extents_eq _ _ _ _ F E HF). exact H.
Qed.

Lemma src_lj_end_eq mid end_ w so j F :
  lj_end mid end_ w so = Some j -> ext_fuel (L mid end_) w F -> src_LineJoin_end F mid end_ w so = Some j.
Proof.
  unfold lj_end, src_LineJoin_end, ext_fuel. cbv zeta. intros H HF.
  destruct (extents (L mid end_) w so) as [[l r]|] eqn:E; [|discriminate].
  change (src_Line_new mid end_) with (L mid end_). rewrite (src_extents_eq _ _ _ _ F E HF). exact H.
Qed.

Lemma src_lj_from_extents_eq mid w fl fr sl sr :
  match src_intersections fl fr sl sr with
  | Some (li, outer, ri) =>
      let self_intersection :=
        match outer with
        | SRight => src_LinearEquation_check_side (src_LinearEquation_from_line fl) (l_end sl) SRight
        | SLeft => src_LinearEquation_check_side (src_LinearEquation_from_line fr) (l_end sr) SLeft
        end in
      if negb self_intersection then
        let miter_delta := src_Point_sub (match outer with SLeft => li | SRight => ri end) mid in
        let miter_length_squared := Z.pow (px miter_delta) 2 + Z.pow (py miter_delta) 2 in
        let miter_limit := Z.pow (w * 2) 2 in
        if miter_length_squared <=? miter_limit then let c := EC li ri in LJ JMiter c c
        else match outer with
             | SRight => LJ (JBevel outer) (EC li (l_end fr)) (EC li (l_start sr))
             | SLeft => LJ (JBevel outer) (EC (l_end fl) ri) (EC (l_start sl) ri)
             end
      else LJ (JDegenerate outer) (EC (l_end fl) (l_end fr)) (EC (l_start sl) (l_start sr))
  | None => LJ JColinear (EC (l_end fl) (l_end fr)) (EC (l_start sl) (l_start sr))
  end = lj_from_extents mid w fl fr sl sr.
Proof.
  unfold lj_from_extents. rewrite src_intersections_eq.
  destruct (intersections fl fr sl sr) as [[[li outer] ri]|]; [|reflexivity].
  cbv zeta. rewrite !Z.pow_2_r. reflexivity.
Qed.

Lemma src_lj_from_points_eq start mid end_ w so j F :
  lj_from_points start mid end_ w so = Some j -> ext_fuel (L start mid) w F -> ext_fuel (L mid end_) w F ->
  src_LineJoin_from_points F start mid end_ w so = Some j.
Proof.
  unfold lj_from_points, src_LineJoin_from_points, ext_fuel. cbv zeta. intros H HF1 HF2.
  destruct (extents (L start mid) w so) as [[fl fr]|] eqn:E1; [|discriminate].
  destruct (extents (L mid end_) w so) as [[sl sr]|] eqn:E2; [|discriminate].
  change (src_Line_new start mid) with (L start mid). change (src_Line_new mid end_) with (L mid end_).
  rewrite (src_extents_eq _ _ _ _ F E1 HF1), (src_extents_eq _ _ _ _ F E2 HF2).
  injection H as <-. f_equal. apply src_lj_from_extents_eq.
Qed.

Lemma src_line_styled_bbox_eq l st r F :
  styled_line_bounding_box l st = Some r -> ext_fuel l (stroke_width st) F ->
  src_Line_styled_bounding_box F l st = Some r.
Proof.
  unfold styled_line_bounding_box, src_Line_styled_bounding_box, ext_fuel. intros H HF.
  destruct (extents l (stroke_width st) SONone) as [[a b]|] eqn:E; [|discriminate].
  rewrite (src_extents_eq _ _ _ _ F E HF). exact H.
Qed.
