(* translate/r2c tie, round 2 group 2b: the body of `impl_load_store_bits!` (core/src/pixelcolor/raw/load_store.rs, sub-byte
   load / store) translated as a template over the abstract raw type: slices are lists, `buffer.get(i)` is
   Casts.slice_get, the idiom `buffer.get_mut(i).ok_or(e).map(|b| *b = v)` is a bounds-checked list update.
   Equal to Rawdata.load_bits / store_bits for the three sub-byte raw types, a non-negative index, and a stored value
   that is a value of the raw type (then the u8 truncations of the model are no-ops). *)
From EG Require Import Base.Prelude Base.Casts Model.Rawdata Gen.SrcRaw Gen.SrcLoadStore Proofs.SrcColor.
Set Default Timeout 60.

Lemma slice_get_eq buf i : 0 <= i -> Casts.slice_get buf i = Rawdata.get buf i.
Proof.
  intros H. unfold Casts.slice_get, Rawdata.get, buf_len. rewrite (proj2 (Z.leb_le 0 i) H). reflexivity.
Qed.

Lemma slice_set_nat_upd (buf : list Z) n v : Casts.slice_set_nat buf n v = upd buf n v.
Proof. revert n. induction buf as [|x r IH]; intros [|n]; cbn; try reflexivity. rewrite IH. reflexivity. Qed.

Lemma slice_set_eq buf i v : 0 <= i -> Casts.slice_set buf i v = upd buf (Z.to_nat i) v.
Proof.
  intros H. unfold Casts.slice_set. rewrite (proj2 (Z.leb_le 0 i) H).
  apply slice_set_nat_upd.
Qed.

Lemma src_load_bits_eq t alt buf index :
  0 <= index -> 0 < bits t <= 8 -> src_load_bits t alt buf index = load_bits t alt buf index.
Proof.
  intros Hi Hb. unfold src_load_bits, load_bits. rewrite src_bit_position_rawdata_eq.
  unfold bit_position. cbv zeta.
  assert (0 <= index / (8 / bits t)).
  { apply Z.div_pos; [lia|]. apply Z.div_str_pos. lia. }
  rewrite slice_get_eq by assumption.
  destruct (get buf (index / (8 / bits t))); reflexivity.
Qed.

(* the stored byte: the model truncates `MASK << bit` and `value << bit` to u8; both fit for the sub-byte types *)
Definition res_ok (r : unit + OutOfBoundsError) : bool := match r with inl _ => true | inr _ => false end.

Lemma sub_byte_cases t : 0 < bits t < 8 -> t = U1 \/ t = U2 \/ t = U4.
Proof. destruct t; cbn; intros; try lia; auto. Qed.

Lemma land_255_id x : 0 <= x <= 255 -> Z.land x 255 = x.
Proof. intros H. change 255 with (Z.ones 8). rewrite Z.land_ones by lia. apply Z.mod_small. cbn. lia. Qed.

Lemma store_byte_eq t bit v byte :
  0 < bits t < 8 -> 0 <= bit -> bit + bits t <= 8 -> 0 <= v <= mask t ->
  Z.lor (Z.land byte (255 - Casts.shl_u8 (mask t) bit)) (Casts.shl_u8 (Casts.extern_id t v) bit) = store_byte t bit v byte.
Proof.
  intros Hb H0 H8 Hv. unfold store_byte, not8, u8, Casts.extern_id.
  assert (Em : Casts.shl_u8 (mask t) bit = Z.shiftl (mask t) bit).
  { apply Casts.shl_u8_id. rewrite Z.shiftl_mul_pow2 by lia. unfold min_u8, max_u8.
    assert (B : bit = 0 \/ bit = 1 \/ bit = 2 \/ bit = 3 \/ bit = 4 \/ bit = 5 \/ bit = 6 \/ bit = 7) by lia.
    destruct (sub_byte_cases t Hb) as [->|[->| ->]]; cbn [bits] in H8; repeat (destruct B as [->|B]; try lia); try subst bit; cbn; lia. }
  assert (Ev : Casts.shl_u8 v bit = Z.shiftl v bit).
  { apply Casts.shl_u8_id. rewrite Z.shiftl_mul_pow2 by lia. unfold min_u8, max_u8.
    assert (B : bit = 0 \/ bit = 1 \/ bit = 2 \/ bit = 3 \/ bit = 4 \/ bit = 5 \/ bit = 6 \/ bit = 7) by lia.
    destruct (sub_byte_cases t Hb) as [->|[->| ->]]; cbn [bits] in H8; change (mask U1) with 1 in *; change (mask U2) with 3 in *; change (mask U4) with 15 in *;
      repeat (destruct B as [->|B]; try lia); try subst bit; cbn; lia. }
  rewrite Em, Ev. clear Em Ev.
  assert (B : bit = 0 \/ bit = 1 \/ bit = 2 \/ bit = 3 \/ bit = 4 \/ bit = 5 \/ bit = 6 \/ bit = 7) by lia.
  assert (E : Z.shiftl v bit = v * 2 ^ bit) by (apply Z.shiftl_mul_pow2; lia).
  destruct (sub_byte_cases t Hb) as [->|[->| ->]]; cbn [bits] in H8;
    repeat (destruct B as [->|B]; try lia); try subst bit;
    change (mask U1) with 1 in *; change (mask U2) with 3 in *; change (mask U4) with 15 in *;
    rewrite (land_255_id (Z.shiftl v _)) by (rewrite E; cbn; lia);
    reflexivity.
Qed.

Lemma src_store_bits_eq t alt v buf index :
  0 <= index -> 0 < bits t < 8 -> 0 <= v <= mask t ->
  (fst (src_store_bits t alt v buf index), res_ok (snd (src_store_bits t alt v buf index))) = store_bits t alt v buf index.
Proof.
  intros Hi Hb Hv. unfold src_store_bits, store_bits. rewrite src_bit_position_rawdata_eq.
  unfold bit_position. cbv zeta.
  assert (Hp : 0 < 8 / bits t) by (apply Z.div_str_pos; lia).
  assert (H0 : 0 <= index / (8 / bits t)) by (apply Z.div_pos; lia).
  rewrite slice_get_eq by assumption.
  destruct (get buf (index / (8 / bits t))) as [byte|]; [|reflexivity].
  cbn [fst snd res_ok]. rewrite slice_set_eq by assumption. f_equal. f_equal.
  set (ppb := 8 / bits t) in *.
  assert (Hm : 0 <= index mod ppb < ppb) by (apply Z.mod_pos_bound; lia).
  assert (Hppb : ppb * bits t = 8).
  { unfold ppb. destruct (sub_byte_cases t Hb) as [->|[->| ->]]; reflexivity. }
  apply store_byte_eq; try assumption; destruct alt; nia.
Qed.
