(* translate/r2c tie, round 3 (2): the seven `impl_raw_data!` instances (RawU1 .. RawU32: MASK, BITS_PER_PIXEL, new, ...)
   and the byte-wise `LoadStore` impls of RawU8 / RawU16 / RawU24 / RawU32 (core/src/pixelcolor/raw/{mod,load_store}.rs).
   Slices are lists; `get(a..)` / `get(0..n)` are Casts.slice_from / slice_range; `[u8; N]` is the N-tuple;
   `try_into().unwrap()` is Casts.arrayN_of_slice; from/to_{le,be}_bytes are Casts.from_{le,be}_bytes / byte_of; the
   `checked_mul .. get_mut(start..) .. get_mut(0..n) .. ok_or(e).map(|b| b.copy_from_slice(&bytes))` chain is a view
   (offset, length) into the buffer and Casts.view_copy.  Equal to Model/Rawdata.v on the 64-bit usize instance. *)
From EG Require Import Base.Prelude Base.Casts Model.Rawdata Gen.SrcRaw Gen.SrcRawData Gen.SrcLoadStore Gen.SrcLoadStoreBytes Proofs.SrcLoadStore.
From EG Require Export Proofs.SrcUsize.
Set Default Timeout 60.

(* ---- impl_raw_data! ---- *)
Lemma src_raw_mask_eq :
  src_RawU1_MASK = mask U1 /\ src_RawU2_MASK = mask U2 /\ src_RawU4_MASK = mask U4 /\ src_RawU8_MASK = mask U8 /\
  src_RawU16_MASK = mask U16 /\ src_RawU24_MASK = mask U24 /\ src_RawU32_MASK = mask U32.
Proof. repeat split; reflexivity. Qed.
Lemma src_raw_bits_eq :
  src_RawU1_BITS_PER_PIXEL = bits U1 /\ src_RawU2_BITS_PER_PIXEL = bits U2 /\ src_RawU4_BITS_PER_PIXEL = bits U4 /\
  src_RawU8_BITS_PER_PIXEL = bits U8 /\ src_RawU16_BITS_PER_PIXEL = bits U16 /\ src_RawU24_BITS_PER_PIXEL = bits U24 /\
  src_RawU32_BITS_PER_PIXEL = bits U32.
Proof. repeat split; reflexivity. Qed.
Lemma src_raw_new_eq v :
  src_RawU1_new v = raw_new U1 v /\ src_RawU2_new v = raw_new U2 v /\ src_RawU4_new v = raw_new U4 v /\
  src_RawU8_new v = raw_new U8 v /\ src_RawU16_new v = raw_new U16 v /\ src_RawU24_new v = raw_new U24 v /\
  src_RawU32_new v = raw_new U32 v.
Proof. repeat split; reflexivity. Qed.

(* ---- slices ---- *)
(* the width of usize: the generated definitions take it as Casts.UsizeW, the model as Rawdata.Usize (Proofs/SrcUsize.v identifies
   them); the theorems below hold for every width (16, 32, 64 bit: the instances usize16 / usize32 / usize64 of the model) *)
Section WithUsize.
Context {U : Usize}.
Lemma checked_usize_eq a b : 0 <= a -> 0 <= b -> Casts.checked_usize (a * b) = checked_mul_usize a b.
Proof.
  intros Ha Hb. unfold Casts.checked_usize, checked_mul_usize, Casts.min_usize. cbn [Casts.usize_max_w usize_w_of].
  assert (H : 0 <=? a * b = true) by (apply Z.leb_le; nia). rewrite H. reflexivity.
Qed.

Lemma slice_from_eq (buf : list Z) s : 0 <= s -> Casts.slice_from buf s = get_from buf s.
Proof. intros H. unfold Casts.slice_from, get_from, buf_len. rewrite (proj2 (Z.leb_le 0 s) H). reflexivity. Qed.

Lemma slice_range0_eq (buf : list Z) n : 0 <= n -> Casts.slice_range buf 0 n = get_prefix buf n.
Proof.
  intros H. unfold Casts.slice_range, get_prefix, buf_len. rewrite (proj2 (Z.leb_le 0 n) H). rewrite Z.sub_0_r. reflexivity.
Qed.

Lemma get_prefix_len (buf : list Z) n s : 0 <= n -> get_prefix buf n = Some s -> length s = Z.to_nat n.
Proof.
  intros H. unfold get_prefix, buf_len. destruct (n <=? Z.of_nat (length buf)) eqn:E; [|discriminate].
  intros [= <-]. apply firstn_length_le. apply Z.leb_le in E. lia.
Qed.

(* ---- RawU8 ---- *)
Lemma src_RawU8_load_eq buf index : 0 <= index -> src_RawU8_load_O buf index = load_u8 buf index.
Proof.
  intros H. unfold src_RawU8_load_O, load_u8. rewrite slice_get_eq by assumption.
  destruct (get buf index); reflexivity.
Qed.

Lemma src_RawU8_store_eq v buf index : 0 <= index ->
  (fst (src_RawU8_store_O v buf index), res_ok (snd (src_RawU8_store_O v buf index))) = store_u8 v buf index.
Proof.
  intros H. unfold src_RawU8_store_O, store_u8. rewrite slice_get_eq by assumption.
  destruct (get buf index); [|reflexivity]. cbn [fst snd res_ok]. rewrite slice_set_eq by assumption. reflexivity.
Qed.

(* ---- the pixel window: checked_mul, get(start..), get(0..n) ---- *)
Lemma pixel_bytes_eq t (buf : list Z) index : 0 <= index -> 0 <= nbytes t ->
  match (match Casts.checked_usize (index * nbytes t) with Some start => Casts.slice_from buf start | None => None end) with
  | Some b => Casts.slice_range b 0 (nbytes t) | None => None end = get_pixel_bytes t buf index.
Proof.
  intros Hi Hn. unfold get_pixel_bytes. rewrite checked_usize_eq by assumption.
  unfold checked_mul_usize. destruct (index * nbytes t <=? usize_max); [|reflexivity].
  rewrite slice_from_eq by nia. destruct (get_from buf (index * nbytes t)); [|reflexivity].
  apply slice_range0_eq. assumption.
Qed.

Lemma pixel_bytes_len t (buf : list Z) index s : 0 <= nbytes t ->
  get_pixel_bytes t buf index = Some s -> length s = Z.to_nat (nbytes t).
Proof.
  intros Hn. unfold get_pixel_bytes. destruct (checked_mul_usize index (nbytes t)); [|discriminate].
  destruct (get_from buf z); [|discriminate]. apply get_prefix_len. assumption.
Qed.

Lemma src_RawU16_load_eq alt buf index : 0 <= index ->
  src_RawU16_load_O alt buf index = load_bytes U16 alt buf index.
Proof.
  intros Hi. unfold src_RawU16_load_O, load_bytes.
  pose proof (pixel_bytes_eq U16 buf index Hi) as E. change (nbytes U16) with 2 in E. rewrite E by lia. clear E.
  destruct (get_pixel_bytes U16 buf index) as [s|] eqn:G; [|reflexivity].
  apply pixel_bytes_len in G; [|cbn; lia]. change (Z.to_nat (nbytes U16)) with 2%nat in G.
  destruct s as [|a [|b [|c s]]]; try discriminate G.
  destruct alt; reflexivity.
Qed.

Lemma src_RawU24_load_eq alt buf index : 0 <= index ->
  src_RawU24_load_O alt buf index = load_bytes U24 alt buf index.
Proof.
  intros Hi. unfold src_RawU24_load_O, load_bytes.
  pose proof (pixel_bytes_eq U24 buf index Hi) as E. change (nbytes U24) with 3 in E. rewrite E by lia. clear E.
  destruct (get_pixel_bytes U24 buf index) as [s|] eqn:G; [|reflexivity].
  apply pixel_bytes_len in G; [|cbn; lia]. change (Z.to_nat (nbytes U24)) with 3%nat in G.
  destruct s as [|a [|b [|c [|d s]]]]; try discriminate G.
  destruct alt; reflexivity.
Qed.

Lemma src_RawU32_load_eq alt buf index : 0 <= index ->
  src_RawU32_load_O alt buf index = load_bytes U32 alt buf index.
Proof.
  intros Hi. unfold src_RawU32_load_O, load_bytes.
  pose proof (pixel_bytes_eq U32 buf index Hi) as E. change (nbytes U32) with 4 in E. rewrite E by lia. clear E.
  destruct (get_pixel_bytes U32 buf index) as [s|] eqn:G; [|reflexivity].
  apply pixel_bytes_len in G; [|cbn; lia]. change (Z.to_nat (nbytes U32)) with 4%nat in G.
  destruct s as [|a [|b [|c [|d [|e s]]]]]; try discriminate G.
  destruct alt; reflexivity.
Qed.

(* ---- stores ---- *)
Lemma byte_of_0 v : Casts.byte_of v 0 = v mod 256.
Proof. unfold Casts.byte_of. change (256 ^ 0) with 1. rewrite Z.div_1_r. reflexivity. Qed.
Lemma byte_of_1 v : Casts.byte_of v 1 = (v / 256) mod 256.
Proof. reflexivity. Qed.
Lemma byte_of_2 v : Casts.byte_of v 2 = (v / 256 / 256) mod 256.
Proof. unfold Casts.byte_of. rewrite Z.div_div by lia. reflexivity. Qed.
Lemma byte_of_3 v : Casts.byte_of v 3 = (v / 256 / 256 / 256) mod 256.
Proof. unfold Casts.byte_of. rewrite !Z.div_div by lia. reflexivity. Qed.

Lemma to_le_2 v : to_le 2 v = [Casts.byte_of v 0; Casts.byte_of v 1].
Proof. rewrite byte_of_0, byte_of_1. reflexivity. Qed.
Lemma to_le_4 v : to_le 4 v = [Casts.byte_of v 0; Casts.byte_of v 1; Casts.byte_of v 2; Casts.byte_of v 3].
Proof. rewrite byte_of_0, byte_of_1, byte_of_2, byte_of_3. reflexivity. Qed.

Lemma view_window t (buf : list Z) index : 0 <= index -> 0 <= nbytes t ->
  match (match Casts.checked_usize (index * nbytes t) with Some start => Casts.view_from (Casts.view_all buf) start | None => None end) with
  | Some v => Casts.view_range v 0 (nbytes t) | None => None end
  = match get_pixel_bytes t buf index with Some _ => Some (index * nbytes t, nbytes t) | None => None end.
Proof.
  intros Hi Hn. unfold get_pixel_bytes. rewrite checked_usize_eq by assumption.
  unfold checked_mul_usize. destruct (index * nbytes t <=? usize_max); [|reflexivity].
  set (s := index * nbytes t). assert (Hs : 0 <= s) by (unfold s; nia).
  unfold Casts.view_from, Casts.view_all, get_from, buf_len. cbn [fst snd].
  rewrite (proj2 (Z.leb_le 0 s) Hs). cbn [andb].
  destruct (s <=? Z.of_nat (length buf)) eqn:E; [|reflexivity]. apply Z.leb_le in E.
  unfold Casts.view_range, get_prefix, buf_len. cbn [fst snd]. rewrite skipn_length.
  rewrite (proj2 (Z.leb_le 0 (nbytes t)) Hn). cbn [andb Z.leb Z.compare].
  replace (Z.of_nat (length buf - Z.to_nat s)) with (Z.of_nat (length buf) - s) by lia.
  destruct (nbytes t <=? Z.of_nat (length buf) - s); [|reflexivity].
  rewrite Z.add_0_r, Z.sub_0_r. reflexivity.
Qed.

Lemma view_copy_splice (buf : list Z) s n bytes : 0 <= s -> 0 <= n -> Z.of_nat (length bytes) = n ->
  Casts.view_copy buf (s, n) bytes = splice buf s bytes.
Proof.
  intros Hs Hn L. unfold Casts.view_copy, splice. cbn [fst snd]. rewrite <- L, Z.eqb_refl.
  replace (Z.to_nat (s + Z.of_nat (length bytes))) with (Z.to_nat s + length bytes)%nat by lia. reflexivity.
Qed.

Ltac store_tac T N :=
  let G := fresh "G" in
  intros Hi;
  match goal with |- context [store_bytes ?t _ _ _ _] => unfold store_bytes end;
  pose proof (view_window T) as E; change (nbytes T) with N in E; cbv zeta; rewrite E by lia; clear E;
  destruct (get_pixel_bytes T _ _) as [s|] eqn:G; [|reflexivity];
  cbn [fst snd res_ok]; f_equal.

Lemma src_RawU16_store_eq alt v buf index : 0 <= index ->
  (fst (src_RawU16_store_O alt v buf index), res_ok (snd (src_RawU16_store_O alt v buf index))) = store_bytes U16 alt v buf index.
Proof.
  unfold src_RawU16_store_O, src_RawU16_into_inner. store_tac U16 2.
  change (nbytes U16) with 2. unfold encode_bytes, to_be. change (Z.to_nat (nbytes U16)) with 2%nat. rewrite to_le_2.
  destruct alt; (rewrite view_copy_splice by (cbn; lia)); reflexivity.
Qed.

Lemma src_RawU32_store_eq alt v buf index : 0 <= index ->
  (fst (src_RawU32_store_O alt v buf index), res_ok (snd (src_RawU32_store_O alt v buf index))) = store_bytes U32 alt v buf index.
Proof.
  unfold src_RawU32_store_O, src_RawU32_into_inner. store_tac U32 4.
  change (nbytes U32) with 4. unfold encode_bytes, to_be. change (Z.to_nat (nbytes U32)) with 4%nat. rewrite to_le_4.
  destruct alt; (rewrite view_copy_splice by (cbn; lia)); reflexivity.
Qed.

Lemma src_RawU24_store_eq alt v buf index : 0 <= index ->
  (fst (src_RawU24_store_O alt v buf index), res_ok (snd (src_RawU24_store_O alt v buf index))) = store_bytes U24 alt v buf index.
Proof.
  unfold src_RawU24_store_O, src_RawU24_into_inner. store_tac U24 3.
  change (nbytes U24) with 3. unfold encode_bytes, to_be. rewrite to_le_4.
  destruct alt; (rewrite view_copy_splice by (cbn; lia)); reflexivity.
Qed.
End WithUsize.
