(* translate/r2c tie, round 4 (4): StrGlyphMapping (src/mono_font/mapping.rs): new, chars, contains, GlyphMapping::index.
   `&str` is the list of its chars (code points); the `core::iter::from_fn(move || ..)` generator of `chars()` - a closure over
   the captured `self.data.chars()` iterator - is the list of the items it yields (a Fixpoint over fuel; every pull consumes
   at least one char, so length + 1 pulls suffice); `.flatten()` over RangeInclusive<char> is Casts.char_range (the
   surrogates are no chars).  For strings of chars (no surrogate code points) and fuel above the length, chars / contains /
   index equal Fontmodel.expand_chars / str_contains / str_index. *)
From EG Require Import Base.Prelude Base.Casts Model.Fontmodel Gen.SrcMapping.
Set Default Timeout 60.

Lemma map_seq_range a n : map (fun i => a + Z.of_nat i) (seq 0 n) = range_from a n.
Proof.
  revert a. induction n as [|n IH]; intros a; [reflexivity|].
  cbn [seq map range_from]. rewrite Z.add_0_r. f_equal.
  rewrite <- seq_shift, map_map. rewrite <- IH. apply map_ext. intros i. lia.
Qed.

Lemma char_range_eq a b : Casts.char_range a b = char_range a b.
Proof.
  unfold Casts.char_range, char_range, range, is_surrogate. rewrite map_seq_range.
  replace (b + 1 - a) with (b + 1 - a) by lia. reflexivity.
Qed.

Lemma char_range_single c : is_surrogate c = false -> char_range c c = [c].
Proof.
  intros H. unfold char_range, range. replace (c + 1 - c) with 1 by lia.
  change (Z.to_nat 1) with 1%nat. cbn [range_from filter]. rewrite H. reflexivity.
Qed.

Definition chars_ok (data : list Z) : Prop := Forall (fun c => is_surrogate c = false) data.

Lemma src_chars_gen_eq m : forall f data, chars_ok data -> (length data < f)%nat ->
  src_StrGlyphMapping_chars_gen1 f m data = Some (expand_chars data).
Proof.
  induction f as [|f IH]; intros data Hok Hl; [lia|].
  cbn [src_StrGlyphMapping_chars_gen1]. destruct data as [|c rest]; [reflexivity|].
  cbn [Casts.list_next length] in *. inversion Hok as [|? ? Hc Hrest]; subst.
  destruct c as [|pc|nc].
  - (* '\0': a range *)
    cbn [expand_chars Z.eqb]. destruct rest as [|s [|e rest2]]; try reflexivity.
    cbn [Casts.list_next fst snd]. inversion Hrest as [|? ? _ H2]; subst. inversion H2 as [|? ? _ H3]; subst.
    rewrite (IH rest2 H3) by (cbn [length] in Hl; lia). rewrite char_range_eq. reflexivity.
  - cbn [fst snd]. rewrite (IH rest Hrest) by lia. rewrite char_range_eq, (char_range_single _ Hc). reflexivity.
  - cbn [fst snd]. rewrite (IH rest Hrest) by lia. rewrite char_range_eq, (char_range_single _ Hc). reflexivity.
Qed.

Theorem src_chars_eq F m : chars_ok (StrGlyphMapping_data m) -> (length (StrGlyphMapping_data m) < F)%nat ->
  src_StrGlyphMapping_chars F m = Some (expand_chars (StrGlyphMapping_data m)).
Proof. intros Hok Hl. unfold src_StrGlyphMapping_chars. rewrite (src_chars_gen_eq m F _ Hok Hl). reflexivity. Qed.

Theorem src_contains_eq F m c : chars_ok (StrGlyphMapping_data m) -> (length (StrGlyphMapping_data m) < F)%nat ->
  src_StrGlyphMapping_contains F m c = Some (str_contains (StrGlyphMapping_data m) c).
Proof. intros Hok Hl. unfold src_StrGlyphMapping_contains, str_contains. rewrite (src_chars_eq F m Hok Hl). reflexivity. Qed.

Lemma find_enumerate_from c l i :
  match List.find (fun x_ : Z * Z => let '(_, v) := x_ in c =? v) (Casts.enumerate_from i l) with
  | Some (idx, _) => Some idx | None => None end = find_index c l i.
Proof.
  revert i. induction l as [|v t IH]; intros i; [reflexivity|].
  cbn [Casts.enumerate_from List.find find_index]. destruct (c =? v); [reflexivity|]. apply IH.
Qed.

Theorem src_index_eq F m c : chars_ok (StrGlyphMapping_data m) -> (length (StrGlyphMapping_data m) < F)%nat ->
  src_StrGlyphMapping_index F m c = Some (str_index (StrGlyphMapping_data m) (StrGlyphMapping_replacement_index m) c).
Proof.
  intros Hok Hl. unfold src_StrGlyphMapping_index, str_index, list_index. rewrite (src_chars_eq F m Hok Hl). cbv zeta.
  unfold Casts.enumerate. rewrite find_enumerate_from. reflexivity.
Qed.
