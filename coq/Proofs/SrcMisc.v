(* translate/r2c tie for src/framebuffer.rs (buffer_size_bpp, buffer_size) and the decoration boxes of
   src/mono_font/mod.rs (DecorationDimensions): generated definitions (coq/Gen/SrcFramebuffer.v, SrcFont.v) vs
   Model/Framebuffer.v and Model/Fontmodel.v. *)
From EG Require Import Base.Prelude Base.Casts Model.Geometry Model.Framebuffer Model.Fontmodel.
From EG Require Import Gen.SrcGeometry Gen.SrcFramebuffer Gen.SrcFont Proofs.SrcGeometry.
Set Default Timeout 60.

Lemma src_buffer_size_bpp_eq w h bpp : src_buffer_size_bpp w h bpp = buffer_size_bpp w h bpp.
Proof. reflexivity. Qed.

(* buffer_size::<C>: `C::Raw::BITS_PER_PIXEL` is the first parameter of the generated definition *)
Lemma src_buffer_size_eq bpp w h : src_buffer_size bpp w h = buffer_size_bpp w h bpp.
Proof. reflexivity. Qed.

Lemma src_deco_new_eq o h : src_DecorationDimensions_new o h = Deco o h.
Proof. reflexivity. Qed.

(* `position + Size::new(0, self.offset)` casts the offset to i32 *)
Lemma src_deco_box_eq d position width :
  0 <= d_off d <= i32_max -> src_DecorationDimensions_get_bounding_box d position width = deco_box d position width.
Proof.
  intros H. unfold src_DecorationDimensions_get_bounding_box, deco_box. cbv zeta.
  rewrite src_Point_add_Size_eq.
  - unfold padd_size, src_Size_new, src_Rectangle_new. cbn [sw sh]. rewrite Z.add_0_r. reflexivity.
  - unfold size_i32, src_Size_new, i32_max in *. cbn [sw sh]. lia.
Qed.
