(* translate/r2c tie, round 3 (4): MockDisplay::get_pixel / set_pixel_unchecked / set_pixel / set_allow_* (src/mock_display/mod.rs).
   The pixel array `[Option<C>; SIZE * SIZE]` is a list of options (`self.pixels[i]` = Casts.slice_nth None, `self.pixels[i] = v`
   = Casts.slice_set); the model (Model/Mockdisplay.v) keeps the cells in a finite map and makes panics explicit.
   `drepr s d`: the generated display s represents the model display d.  On representing displays get_pixel agrees, and
   whenever the model's set_pixel_unchecked / set_pixel does not panic the generated one yields a representing display
   (`assert!` is not translated: it only panics). *)
From EG Require Import Base.Prelude Base.Casts Model.Geometry Gen.MockConsts Model.Mockdisplay Gen.SrcGeometry Gen.SrcMock.
From Coq Require Import FMapPositive.
Set Default Timeout 60.

Definition repr (l : list (option Z)) (c : cellmap) : Prop :=
  Z.of_nat (length l) = NCELLS /\ forall i, 0 <= i < NCELLS -> nth (Z.to_nat i) l None = cell c i.
Definition drepr (s : MockDisplay) (d : display) : Prop :=
  repr (MockDisplay_pixels s) (cells d) /\ MockDisplay_allow_overdraw s = allow_overdraw d /\
  MockDisplay_allow_out_of_bounds_drawing s = allow_oob d.

Lemma src_SIZE_eq : src_SIZE = SIZE.
Proof. reflexivity. Qed.

Lemma src_mock_get_pixel_eq s d p : drepr s d ->
  Ok (src_MockDisplay_get_pixel s p) = get_pixel d p.
Proof.
  intros [[HL HR] _]. destruct p as [x y]. unfold src_MockDisplay_get_pixel, get_pixel. cbn [px py].
  change (Casts.cast_usize_i32 src_SIZE) with 64. change src_SIZE with 64. change SIZE with 64.
  rewrite !Z.geb_leb.
  destruct (Z.ltb_spec x 0); [reflexivity|]. destruct (Z.ltb_spec y 0); [reflexivity|].
  destruct (Z.leb_spec 64 x); [reflexivity|]. destruct (Z.leb_spec 64 y); [reflexivity|]. cbn [orb].
  rewrite !Casts.cast_i32_usize_id by lia.
  unfold arr_get, in_array, NCELLS. change SIZE with 64.
  rewrite (proj2 (Z.leb_le 0 (x + y * 64))) by lia. rewrite (proj2 (Z.ltb_lt (x + y * 64) (64 * 64))) by lia. cbn [andb].
  unfold Casts.slice_nth. rewrite (proj2 (Z.leb_le 0 (x + y * 64))) by lia.
  rewrite HR by (unfold NCELLS; change SIZE with 64; lia). reflexivity.
Qed.

Lemma set_nat_length {A} (l : list A) n v : length (Casts.slice_set_nat l n v) = length l.
Proof. revert n. induction l as [|x r IH]; intros [|n]; cbn; try reflexivity. rewrite IH. reflexivity. Qed.

Lemma set_nat_nth {A} (d : A) (l : list A) n v j : (n < length l)%nat ->
  nth j (Casts.slice_set_nat l n v) d = if Nat.eqb j n then v else nth j l d.
Proof.
  revert n j. induction l as [|x r IH]; intros n j H; [cbn in H; lia|].
  destruct n as [|n]; destruct j as [|j]; cbn; try reflexivity.
  apply IH. cbn in H. lia.
Qed.

Lemma key_inj i j : 0 <= i -> 0 <= j -> key i = key j -> i = j.
Proof. unfold key. intros Hi Hj E. apply (f_equal Z.pos) in E. rewrite !Z2Pos.id in E by lia. lia. Qed.

Lemma cell_put_same c i v : cell (cell_put c i v) i = v.
Proof. unfold cell, cell_put. destruct v; [apply PositiveMap.gss | apply PositiveMap.grs]. Qed.
Lemma cell_put_other c i v j : 0 <= i -> 0 <= j -> j <> i -> cell (cell_put c i v) j = cell c j.
Proof.
  intros Hi Hj N. unfold cell, cell_put.
  assert (K : key j <> key i) by (intro E; apply N; apply key_inj; assumption).
  destruct v; [apply PositiveMap.gso | apply PositiveMap.gro]; exact K.
Qed.

Lemma repr_set l c i v : repr l c -> 0 <= i < NCELLS -> repr (Casts.slice_set l i v) (cell_put c i v).
Proof.
  intros [HL HR] Hi. unfold Casts.slice_set. rewrite (proj2 (Z.leb_le 0 i)) by lia. split.
  - rewrite set_nat_length. exact HL.
  - intros j Hj. rewrite set_nat_nth by lia.
    destruct (Nat.eqb_spec (Z.to_nat j) (Z.to_nat i)) as [E|E].
    + assert (j = i) by lia. subst j. symmetry. apply cell_put_same.
    + rewrite cell_put_other by lia. apply HR. exact Hj.
Qed.

Lemma src_mock_set_pixel_unchecked_ok s d p v d' : drepr s d ->
  i32_min <= px p <= i32_max -> i32_min <= py p <= i32_max ->
  set_pixel_unchecked d p v = Ok d' -> drepr (src_MockDisplay_set_pixel_unchecked s p v) d'.
Proof.
  intros [HR [Ho Hb]] Hx Hy. unfold set_pixel_unchecked, arr_set, src_MockDisplay_set_pixel_unchecked.
  change (Casts.cast_usize_i32 src_SIZE) with 64. change SIZE with 64.
  destruct (in_array (px p + py p * 64)) eqn:E; [|discriminate]. cbn [bind]. intros [= <-].
  unfold in_array in E. apply andb_prop in E. destruct E as [E1 E2]. apply Z.leb_le in E1. apply Z.ltb_lt in E2.
  unfold NCELLS in E2. change SIZE with 64 in E2.
  rewrite Casts.cast_i32_usize_id by lia.
  split; [|split; assumption]. cbn [MockDisplay_pixels cells].
  apply repr_set; [exact HR|]. unfold NCELLS. change SIZE with 64. lia.
Qed.

Lemma src_mock_set_pixel_ok s d p v d' : drepr s d ->
  i32_min <= px p <= i32_max -> i32_min <= py p <= i32_max ->
  set_pixel d p v = Ok d' -> drepr (src_MockDisplay_set_pixel s p v) d'.
Proof.
  intros H Hx Hy. unfold set_pixel. destruct (_ && _)%bool; [|discriminate].
  apply (src_mock_set_pixel_unchecked_ok s d p v d' H Hx Hy).
Qed.

Lemma src_mock_set_allow_oob_eq s d b : drepr s d -> drepr (src_MockDisplay_set_allow_out_of_bounds_drawing s b) (set_allow_oob d b).
Proof. intros [HR [Ho Hb]]. repeat split; try apply HR; assumption. Qed.
Lemma src_mock_set_allow_overdraw_eq s d b : drepr s d -> drepr (src_MockDisplay_set_allow_overdraw s b) (set_allow_overdraw d b).
Proof. intros [HR [Ho Hb]]. repeat split; try apply HR; assumption. Qed.

(* the representation relation is inhabited: the empty display *)
Lemma drepr_new : drepr (Build_MockDisplay (repeat None 4096) false false) new_display.
Proof.
  split; [split|split; reflexivity].
  - vm_compute. reflexivity.
  - intros i Hi. cbn [MockDisplay_pixels cells new_display]. unfold cell. rewrite PositiveMap.gempty.
    apply nth_repeat.
Qed.
