(* translate/r2c tie, round 3 (4): MockDisplay::get_pixel / set_pixel_unchecked / set_pixel / set_allow_* (src/mock_display/mod.rs).
   The pixel array `[Option<C>; SIZE * SIZE]` is a list of options (`self.pixels[i]` = Casts.slice_get, None out of range; `self.pixels[i] = v`
   = Casts.slice_set under the range test); the model (Model/Mockdisplay.v) keeps the cells in a finite map and makes panics explicit.
   `drepr s d`: the generated display s represents the model display d.  The generated functions are partial (`option`): None is
   a Rust panic (`assert!`, array index out of range).  `res_rel R o r`: the generated result o and the model result r panic
   together (None / Panic k) or are both values related by R.  On representing displays get_pixel, set_pixel_unchecked and
   set_pixel are res_rel-related to the model's. *)
From EG Require Import Base.Prelude Base.Casts Model.Geometry Gen.MockConsts Model.Mockdisplay Gen.SrcGeometry Gen.SrcMock.
From Coq Require Import FMapPositive.
Set Default Timeout 60.
(* the generated definitions that cast to usize (`as usize`, `usize::try_from`) take the width of usize as Casts.UsizeW; the model
   of this property works with 64-bit usize (exact integers in range): taken at that width *)
#[local] Existing Instance Casts.usize64_w.

Definition repr (l : list (option Z)) (c : cellmap) : Prop :=
  Z.of_nat (length l) = NCELLS /\ forall i, 0 <= i < NCELLS -> nth (Z.to_nat i) l None = cell c i.
Definition drepr (s : MockDisplay) (d : display) : Prop :=
  repr (MockDisplay_pixels s) (cells d) /\ MockDisplay_allow_overdraw s = allow_overdraw d /\
  MockDisplay_allow_out_of_bounds_drawing s = allow_oob d.

Lemma src_SIZE_eq : src_SIZE = SIZE.
Proof. reflexivity. Qed.

(* a generated partial function (None = the Rust function panics) against a model result (Panic k) *)
Definition res_rel {A B} (R : A -> B -> Prop) (o : option A) (r : result B) : Prop :=
  match o, r with Some a, Ok b => R a b | None, Panic _ => True | _, _ => False end.
Lemma res_rel_panic {A B} (R : A -> B -> Prop) o r : res_rel R o r -> ((exists k, r = Panic k) <-> o = None).
Proof.
  destruct o as [a|], r as [b|k]; cbn; intros H; try contradiction; split; intros E; try reflexivity; try discriminate.
  - destruct E as [k E]. discriminate.
  - exists k. reflexivity.
Qed.
Lemma res_rel_ok {A B} (R : A -> B -> Prop) o r b : res_rel R o r -> r = Ok b -> exists a, o = Some a /\ R a b.
Proof. destruct o as [a|], r as [b'|k]; cbn; intros H E; try contradiction; try discriminate. injection E as <-. exists a. split; [reflexivity|exact H]. Qed.
Lemma res_rel_some {A B} (R : A -> B -> Prop) o r a : res_rel R o r -> o = Some a -> exists b, r = Ok b /\ R a b.
Proof. destruct o as [a'|], r as [b|k]; cbn; intros H E; try contradiction; try discriminate. injection E as <-. exists b. split; [reflexivity|exact H]. Qed.

Lemma slice_get_nth {A} (l : list A) i d : 0 <= i < Z.of_nat (length l) -> Casts.slice_get l i = Some (nth (Z.to_nat i) l d).
Proof.
  intros H. unfold Casts.slice_get. rewrite (proj2 (Z.leb_le 0 i)) by lia.
  rewrite (proj2 (Z.ltb_lt i _)) by lia. cbn [andb]. apply nth_error_nth'. lia.
Qed.

Lemma src_mock_get_pixel_eq s d p : drepr s d ->
  res_rel eq (src_MockDisplay_get_pixel s p) (get_pixel d p).
Proof.
  intros [[HL HR] _]. destruct p as [x y]. unfold src_MockDisplay_get_pixel, get_pixel. cbn [px py].
  change (Casts.cast_usize_i32 src_SIZE) with 64. change src_SIZE with 64. change SIZE with 64.
  rewrite !Z.geb_leb.
  destruct (Z.ltb_spec x 0); [reflexivity|]. destruct (Z.ltb_spec y 0); [reflexivity|].
  destruct (Z.leb_spec 64 x); [reflexivity|]. destruct (Z.leb_spec 64 y); [reflexivity|]. cbn [orb].
  rewrite !Casts.cast_i32_usize_id by lia.
  unfold arr_get, in_array, NCELLS. change SIZE with 64.
  rewrite (proj2 (Z.leb_le 0 (x + y * 64))) by lia. rewrite (proj2 (Z.ltb_lt (x + y * 64) (64 * 64))) by lia. cbn [andb].
  rewrite (slice_get_nth _ _ None) by (rewrite HL; unfold NCELLS; change SIZE with 64; lia).
  cbn. apply HR. unfold NCELLS; change SIZE with 64; lia.
Qed.

Lemma set_nat_length {A} (l : list A) n v : length (Casts.slice_set_nat l n v) = length l.
Proof. revert n. induction l as [|x r IH]; intros [|n]; cbn; try reflexivity. rewrite IH. reflexivity. Qed.

Lemma set_nat_nth {A} (d : A) (l : list A) n v j : (n < length l)%nat ->
  nth j (Casts.slice_set_nat l n v) d = if Nat.eqb j n then v else nth j l d.
Proof.
  revert n j. induction l as [|x r IH]; intros n j H; [cbn in H; lia|].
  destruct n as [|n]; destruct j as [|j]; cbn; try reflexivity.
  apply IH. cbn in H. lia.
Qed.

Lemma key_inj i j : 0 <= i -> 0 <= j -> key i = key j -> i = j.
Proof. unfold key. intros Hi Hj E. apply (f_equal Z.pos) in E. rewrite !Z2Pos.id in E by lia. lia. Qed.

Lemma cell_put_same c i v : cell (cell_put c i v) i = v.
Proof. unfold cell, cell_put. destruct v; [apply PositiveMap.gss | apply PositiveMap.grs]. Qed.
Lemma cell_put_other c i v j : 0 <= i -> 0 <= j -> j <> i -> cell (cell_put c i v) j = cell c j.
Proof.
  intros Hi Hj N. unfold cell, cell_put.
  assert (K : key j <> key i) by (intro E; apply N; apply key_inj; assumption).
  destruct v; [apply PositiveMap.gso | apply PositiveMap.gro]; exact K.
Qed.

Lemma repr_set l c i v : repr l c -> 0 <= i < NCELLS -> repr (Casts.slice_set l i v) (cell_put c i v).
Proof.
  intros [HL HR] Hi. unfold Casts.slice_set. rewrite (proj2 (Z.leb_le 0 i)) by lia. split.
  - rewrite set_nat_length. exact HL.
  - intros j Hj. rewrite set_nat_nth by lia.
    destruct (Nat.eqb_spec (Z.to_nat j) (Z.to_nat i)) as [E|E].
    + assert (j = i) by lia. subst j. symmetry. apply cell_put_same.
    + rewrite cell_put_other by lia. apply HR. exact Hj.
Qed.

(* set_pixel_unchecked: `self.pixels[i as usize] = color`; the index panic of Rust is the model's Panic PIndex (for an i32
   index; `x + y * SIZE` is exact in the model) *)
Lemma src_mock_set_pixel_unchecked_rel s d p v : drepr s d ->
  i32_min <= px p + py p * SIZE <= i32_max ->
  res_rel drepr (src_MockDisplay_set_pixel_unchecked s p v) (set_pixel_unchecked d p v).
Proof.
  intros [HR [Ho Hb]] Hi. unfold set_pixel_unchecked, arr_set, src_MockDisplay_set_pixel_unchecked. cbv zeta.
  change (Casts.cast_usize_i32 src_SIZE) with 64. change SIZE with 64 in *.
  destruct HR as [HL HR']. rewrite HL. unfold in_array, NCELLS. change SIZE with 64.
  set (i := px p + py p * 64) in *.
  destruct (Z.leb_spec 0 i) as [H0|H0].
  - rewrite Casts.cast_i32_usize_id by (unfold i32_max in Hi; lia).
    rewrite (proj2 (Z.leb_le 0 i)) by lia. cbn [andb].
    destruct (Z.ltb_spec i (64 * 64)) as [H1|H1]; cbn [bind res_rel]; [|exact I].
    split; [|split; assumption]. cbn [MockDisplay_pixels cells].
    apply repr_set; [exact (conj HL HR')|]. unfold NCELLS. change SIZE with 64. lia.
  - cbn [andb bind res_rel].
    assert (E : Casts.cast_i32_usize i = i + 2 ^ 64).
    { unfold Casts.cast_i32_usize, Casts.wrap_usize, Casts.usize_max_w, Casts.usize64_w, Casts.max_usize. change (18446744073709551615 + 1) with (2 ^ 64).
      rewrite <- (Z.mod_add i 1 (2 ^ 64)) by lia. rewrite Z.mul_1_l. apply Z.mod_small. unfold i32_min in Hi. lia. }
    rewrite E. unfold i32_min in Hi.
    rewrite (proj2 (Z.leb_le 0 _)) by lia. rewrite (proj2 (Z.ltb_ge _ _)) by lia. exact I.
Qed.

Lemma src_mock_set_pixel_rel s d p v : drepr s d ->
  i32_min <= px p <= i32_max -> i32_min <= py p <= i32_max ->
  res_rel drepr (src_MockDisplay_set_pixel s p v) (set_pixel d p v).
Proof.
  intros H Hx Hy. unfold set_pixel.
  change (src_MockDisplay_set_pixel s p v) with
    (if ((((0 <=? px p) && (0 <=? py p)) && (px p <? Casts.cast_usize_i32 src_SIZE)) && (py p <? Casts.cast_usize_i32 src_SIZE))%bool
     then src_MockDisplay_set_pixel_unchecked s p v else None).
  change (Casts.cast_usize_i32 src_SIZE) with 64. change SIZE with 64. rewrite !Z.geb_leb.
  destruct (Z.leb_spec 0 (px p)); [|exact I]. destruct (Z.leb_spec 0 (py p)); [|exact I].
  destruct (Z.ltb_spec (px p) 64); [|exact I]. destruct (Z.ltb_spec (py p) 64); [|exact I]. cbn [andb].
  apply src_mock_set_pixel_unchecked_rel; [exact H|]. change SIZE with 64. unfold i32_min, i32_max. lia.
Qed.

Lemma src_mock_set_allow_oob_eq s d b : drepr s d -> drepr (src_MockDisplay_set_allow_out_of_bounds_drawing s b) (set_allow_oob d b).
Proof. intros [HR [Ho Hb]]. repeat split; try apply HR; assumption. Qed.
Lemma src_mock_set_allow_overdraw_eq s d b : drepr s d -> drepr (src_MockDisplay_set_allow_overdraw s b) (set_allow_overdraw d b).
Proof. intros [HR [Ho Hb]]. repeat split; try apply HR; assumption. Qed.

(* the representation relation is inhabited: the empty display *)
Lemma drepr_new : drepr (Build_MockDisplay (repeat None 4096) false false) new_display.
Proof.
  split; [split|split; reflexivity].
  - vm_compute. reflexivity.
  - intros i Hi. cbn [MockDisplay_pixels cells new_display]. unfold cell. rewrite PositiveMap.gempty.
    apply nth_repeat.
Qed.
