(* translate/r2c tie, round 4 (5): MockDisplay::draw_pixel (src/mock_display/mod.rs:374-391).  The `panic!` paths of the source
   end with the display unchanged (the generated definition describes the non-panicking runs only); whenever the model's
   draw_pixel does not panic, the generated one yields a display representing the model's result. *)
From EG Require Import Base.Prelude Base.Casts Model.Geometry Gen.MockConsts Model.Mockdisplay Gen.SrcGeometry Gen.SrcMock Gen.SrcMock2.
From EG Require Import Proofs.SrcGeometry Proofs.SrcMock.
Set Default Timeout 60.

Lemma src_display_area_eq : src_DISPLAY_AREA = DISPLAY_AREA.
Proof. reflexivity. Qed.

Lemma src_draw_pixel_ok s d p c d' : drepr s d ->
  i32_min <= px p <= i32_max -> i32_min <= py p <= i32_max ->
  draw_pixel d p c = Ok d' -> drepr (src_MockDisplay_draw_pixel s p c) d'.
Proof.
  intros Hr Hx Hy. unfold draw_pixel, src_MockDisplay_draw_pixel. cbv zeta.
  rewrite src_display_area_eq.
  rewrite src_Rectangle_contains_eq by (unfold size_i32, DISPLAY_AREA, i32_max; cbn; change SIZE with 64; lia).
  destruct Hr as [HR [Ho Hb]].
  destruct (contains DISPLAY_AREA p); cbn [negb].
  - pose proof (src_mock_get_pixel_eq s d p (conj HR (conj Ho Hb))) as G. rewrite <- G. cbn [bind].
    rewrite Ho. destruct (negb (allow_overdraw d) && is_some (src_MockDisplay_get_pixel s p))%bool eqn:E.
    + replace (match src_MockDisplay_get_pixel s p with Some _ => true | None => false end) with (is_some (src_MockDisplay_get_pixel s p)) by (destruct (src_MockDisplay_get_pixel s p); reflexivity).
      rewrite E. discriminate.
    + replace (match src_MockDisplay_get_pixel s p with Some _ => true | None => false end) with (is_some (src_MockDisplay_get_pixel s p)) by (destruct (src_MockDisplay_get_pixel s p); reflexivity).
      rewrite E. apply src_mock_set_pixel_unchecked_ok; [exact (conj HR (conj Ho Hb)) | assumption..].
  - rewrite Hb. destruct (negb (allow_oob d)); [discriminate|]. intros [= <-]. exact (conj HR (conj Ho Hb)).
Qed.

(* ---- affected_area: `bounding_box().points().zip(self.pixels.iter()).filter_map(..).fold(..)` ---- *)
From EG Require Import Base.Lemmas Proofs.Geometry Gen.SrcRectPoints Proofs.SrcRectPoints.

Section Collect.
Variables xs xe ye : Z.
Hypothesis Hw : xs < xe.

Lemma collect_rows : forall m b, Z.of_nat m = ye - b -> (1 <= m)%nat ->
  forall n a, Z.of_nat n = Z.max 0 (xe - a) -> xs <= a ->
  forall K, (length (rest xs xe ye a b) < K)%nat ->
  src_MockDisplay_affected_area_collect1 K rp_fuel (st a xe b ye xs) = Some (rest xs xe ye a b).
Proof.
  induction m as [|m IHm]; [lia|]. intros b Hm _.
  induction n as [|n IHn]; intros a Hn Ha K HK.
  - destruct K; [lia|]. cbn [src_MockDisplay_affected_area_collect1].
    destruct m as [|m'].
    + destruct (next_end a xe b ye xs) as [s' E]; try lia. rewrite E.
      unfold rest. rewrite (range_nil a xe) by lia. rewrite (range_nil (b + 1) ye) by lia. reflexivity.
    + rewrite next_new_row by lia.
      assert (ER : rest xs xe ye a b = P xs (b + 1) :: rest xs xe ye (xs + 1) (b + 1)).
      { unfold rest at 1. rewrite (range_nil a xe) by lia. rewrite (range_cons (b + 1) ye) by lia.
        cbn [map app flat_map]. unfold row at 1. rewrite (range_cons xs xe) by lia. reflexivity. }
      rewrite ER in *. cbn [length] in HK.
      rewrite (IHm (b + 1) ltac:(lia) ltac:(lia) (Z.to_nat (xe - (xs + 1))) (xs + 1) ltac:(lia) ltac:(lia) K ltac:(lia)).
      reflexivity.
  - destruct K; [lia|]. cbn [src_MockDisplay_affected_area_collect1].
    rewrite next_in_row by lia.
    assert (ER : rest xs xe ye a b = P a b :: rest xs xe ye (a + 1) b).
    { unfold rest at 1. rewrite (range_cons a xe) by lia. reflexivity. }
    rewrite ER in *. cbn [length] in HK.
    rewrite (IHn (a + 1) ltac:(lia) ltac:(lia) K ltac:(lia)). reflexivity.
Qed.
End Collect.

Lemma collect_display_points K : (4096 < K)%nat ->
  src_MockDisplay_affected_area_collect1 K 3 (src_Rectangle_points (R (P 0 0) (Geometry.S 64 64))) = Some (points bounding_box).
Proof.
  intros HK.
  change (src_Rectangle_points (R (P 0 0) (Geometry.S 64 64))) with (st 0 64 0 64 0). change 3%nat with rp_fuel.
  rewrite (collect_rows 0 64 64 ltac:(lia) 64 0 ltac:(reflexivity) ltac:(lia) 64 0 ltac:(reflexivity) ltac:(lia) K).
  - f_equal; try (vm_compute; reflexivity).
  - assert (L : length (rest 0 64 64 0 0) = 4096%nat) by (vm_compute; reflexivity). lia.
Qed.

Lemma zip_combine {A B} (l1 : list A) (l2 : list B) : zip l1 l2 = List.combine l1 l2.
Proof. revert l2. induction l1 as [|x t IH]; intros [|y u]; cbn; try reflexivity. rewrite IH. reflexivity. Qed.

Lemma repr_cells_list l c : repr l c -> l = map (cell c) (range 0 NCELLS).
Proof.
  intros [HL HR]. assert (HN : NCELLS = 4096) by reflexivity.
  apply (nth_ext l (map (cell c) (range 0 NCELLS)) None (cell c 0)).
  - rewrite map_length. unfold range. rewrite length_range_from. lia.
  - intros n Hn.
    rewrite (map_nth (cell c) (range 0 NCELLS) 0 n).
    assert (Hn' : 0 <= Z.of_nat n < NCELLS) by lia.
    unfold range. rewrite nth_range_from by lia. rewrite Z.add_0_l.
    rewrite <- (HR (Z.of_nat n) Hn'). rewrite Nat2Z.id. reflexivity.
Qed.

Lemma fold_left_ext {A B} (f g : A -> B -> A) l : (forall a x, f a x = g a x) -> forall a, fold_left f l a = fold_left g l a.
Proof. intros H. induction l as [|x t IH]; intros a; [reflexivity|]. cbn [fold_left]. rewrite H. apply IH. Qed.

Theorem src_affected_area_eq F s d : drepr s d -> (4096 < F)%nat ->
  src_MockDisplay_affected_area F s = Some (affected_area d).
Proof.
  intros [HR _] HF. unfold src_MockDisplay_affected_area.
  change (src_MockDisplay_bounding_box s) with (R (P 0 0) (Geometry.S 64 64)).
  rewrite (collect_display_points F HF).
  rewrite (repr_cells_list _ _ HR).
  unfold affected_area, touched_points. rewrite zip_combine. fold (cells_list d).
  set (pts := flat_map _ (List.combine (points bounding_box) (cells_list d))).
  set (pts' := flat_map _ (List.combine (points bounding_box) (cells_list d))).
  assert (EP : pts = pts').
  { unfold pts, pts'. apply flat_map_ext. intros [p [c|]]; reflexivity. }
  rewrite EP.
  rewrite (fold_left_ext _ aa_step pts').
  - destruct (fold_left aa_step pts' (None, None)) as [[tl|] [br|]]; reflexivity.
  - intros [[t|] [b|]] x; reflexivity.
Qed.
